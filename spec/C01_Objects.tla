------------------------------ MODULE C01_Objects ------------------------------
(***************************************************************************)
(* S-layer and A-layer of C01: expression objects as a state machine.      *)
(*                                                                         *)
(* State                                                                   *)
(*   objs : sequence of live objects  [tree, hashed, hk, hid]              *)
(*            tree    the object's class + field values (C01_Values)       *)
(*            hashed  1 iff '_hash_value' is in the instance __dict__      *)
(*            hk      1 iff a hash of this object has been observed        *)
(*            hid     the observed hash (a record; NoHash when hk = 0)     *)
(*   dict : the dict under test, sequence of [key (object index), v]       *)
(*   cmemo: class-level state - for which undecorated classes the generated*)
(*          functions have already run (and, A-layer, what they decided);   *)
(*          the order of first use of the classes is part of a history     *)
(*   last : the observation produced by the last step [ev, r, chk]         *)
(*                                                                         *)
(* Every public operation is an event ev = [op, i, j, fn, md, v, spec];    *)
(* a New event says how the object comes to be in this interpreter (md):   *)
(* "" built by its constructor here; "pk" / "pkh" / "pkc" built in ANOTHER *)
(* interpreter process (other str-hash seed), there left alone / hashed /  *)
(* only its nested nodes hashed, pickled, and unpickled here.              *)
(* what it shows is a result r = [k, b, h, exc, v, proj] where proj is the *)
(* projection of every live object after the step [tree, hashed, h].       *)
(*                                                                         *)
(* Round 4: a copy (copy.copy / copy.deepcopy / pickle round trip) of an   *)
(* expression is an expression of the same class with every field there    *)
(* and equal to the original's (clause CopyKeepsFields): "any equal        *)
(* expression can stand in for another" starts with the copy standing in   *)
(* for its original.                                                       *)
(*                                                                         *)
(* Round 5: the FORM in which a container-valued constructor argument is   *)
(* given (C01_Values!MapForms) is part of a New event's spec, and the      *)
(* caller who built o_i keeps the mutable objects it handed over: event    *)
(* Mutate(i) = the caller changes, through its own references, every live  *)
(* container it passed when it built o_i (rebinds the first entry, adds an *)
(* entry).  That is no operation on an expression at all, so no live       *)
(* object may change (Immutable); a node built here from well-typed        *)
(* arguments is hashable (BuiltHashable) and holds, field by field, what   *)
(* it was given up to the documented normalisations (BuiltAsGiven) - so    *)
(* the == / hash / dict clauses compare it with the node built from the    *)
(* canonical form.                                                         *)
(*                                                                         *)
(* Round 6: the object HEAP is part of the state.  The lifetime of an      *)
(* expression ends (event Drop(i): the history gives up its only reference *)
(* to o_i; the interpreter frees it at once) and the address it had is     *)
(* handed to an object created later - CPython gives the block that was    *)
(* freed last to the next object of the same size, and all instances of    *)
(* node classes have one size.  heap = [ad, dead, free, memo]: the address *)
(* of every object ever created (small integers in order of first          *)
(* occurrence), which objects are dead, the stack of freed addresses, and  *)
(* (A-layer, Bug = "AddrMemo" only) what an object remembers about earlier *)
(* comparisons.  The S-layer never reads an address: whether two live      *)
(* objects are equal, what they hash to and which key a dict finds is a    *)
(* matter of their class and fields alone - not of who was compared with   *)
(* whom before, not of where an object lives and not of who lived there    *)
(* before it.  Every recorded creation carries the address id it was given *)
(* (r.ad), so the judge can tell (and reports) that a new object really    *)
(* sat at the address of a dead one.                                       *)
(*                                                                         *)
(*   Check(S, ev, r)   S/M-layer: is observation r allowed by the property *)
(*                     in state S?  "OK" | "SKIP" | name of failing clause *)
(*   Post(S, ev, r)    successor state                                     *)
(*   Predict(S, ev)    A-layer: what the code's algorithm (generated       *)
(*                     __eq__ with its fast paths, lazily cached hash,     *)
(*                     frozen dataclass) produces, for a hash function     *)
(*                     chosen by HashMode, with Bug switches               *)
(*                                                                         *)
(* The model steps with r = Predict(S, ev) and TLC checks that every such  *)
(* step is allowed (A refines S/M).  The trace specification steps with    *)
(* the r logged from the real code.                                        *)
(***************************************************************************)
EXTENDS C01_Values
CONSTANTS HashMode,   \* "perfect" | "real" | "collide"
          Bug         \* "none" | "DropField" | "StaleHash" | "CopyKeepsHash" | "NaNIdentity"
                      \* | "ClassMemo" | "PickleKeepsHash" | "NoIdentityPath" | "KwDropped"
                      \* | "NominalHashable" | "AddrMemo"
VARIABLES objs, dict, last, cmemo, heap

NoHash == [t |-> "None"]
Heap0 == [ad |-> << >>, dead |-> {}, free |-> << >>, memo |-> << >>]
S0 == [objs |-> << >>, dict |-> << >>, cm |-> {}, hp |-> Heap0]
Cur == [objs |-> objs, dict |-> dict, cm |-> cmemo, hp |-> heap]

Ev(op, i, j, fn, md, v, spec) ==
    [op |-> op, i |-> i, j |-> j, fn |-> fn, md |-> md, v |-> v, spec |-> spec]
EvNew(spec)        == Ev("New", 0, 0, "", "", 0, spec)
EvNewVia(spec, md) == Ev("New", 0, 0, "", md, 0, spec)          \* md: "" | pk | pkh | pkc
ArrivalModes == {"", "pk", "pkh", "pkc"}
EvHash(i)          == Ev("Hash", i, 0, "", "", 0, NoneV)
EvEq(i, j)         == Ev("Eq", i, j, "", "", 0, NoneV)
EvNe(i, j)         == Ev("Ne", i, j, "", "", 0, NoneV)
\* setattr(o_i, fn, o_j.fn) when j > 0 (o_j of the same class), else setattr(o_i, fn, 77)
EvSetAttr(i, j, fn) == Ev("SetAttr", i, j, fn, "", 0, NoneV)
EvDelAttr(i, fn)   == Ev("DelAttr", i, 0, fn, "", 0, NoneV)
EvCopy(i, md)      == Ev("Copy", i, 0, "", md, 0, NoneV)       \* md: copy | deepcopy | pickle
EvReplace(i, j, fn) == Ev("Replace", i, j, fn, "", 0, NoneV)   \* replace(o_i, fn = o_j.fn)
EvTouch(i, md)     == Ev("Touch", i, 0, "", md, 0, NoneV)      \* md: stock rebuild cim str repr deps
EvPut(i, v)        == Ev("DictPut", i, 0, "", "", v, NoneV)
EvGet(j)           == Ev("DictGet", j, 0, "", "", 0, NoneV)
\* the caller of o_i's constructor mutates the live containers it passed to it
EvMutate(i)        == Ev("Mutate", i, 0, "", "", 0, NoneV)
\* round 6: the history gives up its reference to o_i; the object dies, its address is free
EvDrop(i)          == Ev("Drop", i, 0, "", "", 0, NoneV)

\* ad: the address (id per trace) of the object the step created, 0 when it created none
Res(k, b, h, exc, v, proj) == [k |-> k, b |-> b, h |-> h, exc |-> exc, v |-> v, proj |-> proj, ad |-> 0]

(***************************************************************************)
(* The meaning of o_i == o_j for tracked objects: "T" / "F" / "U" (either  *)
(* answer allowed, see C01_Values!Eq3V).  An object is equal to itself,    *)
(* whatever its fields hold: the relation is reflexive.  For trees without *)
(* a NaN this is PyEq on the trees, as it always was.                      *)
(***************************************************************************)
EqObjs(os, i, j) == IF i = j THEN "T" ELSE EqTop(os[i].tree, os[j].tree)
EqM(S, i, j) == EqObjs(S.objs, i, j)
\* does the observed answer b contradict the meaning m?
Contradicts(b, m) == (m = "T" /\ ~b) \/ (m = "F" /\ b)

(***************************************************************************)
(* M-layer of the dict under test: a Python dict whose keys obey ==        *)
(***************************************************************************)
HitsT(S, i) == { e \in 1..Len(S.dict) : EqM(S, S.dict[e].key, i) = "T" }
HitsU(S, i) == { e \in 1..Len(S.dict) : EqM(S, S.dict[e].key, i) = "U" }
FirstOf(hits) == CHOOSE e \in hits : \A e2 \in hits : e <= e2
\* is v an allowed answer of dict.get(o_i, -1)?
GetAllowed(S, i, v) ==
    LET ht == HitsT(S, i)  hu == HitsU(S, i) IN
    IF hu = {} THEN v = (IF ht = {} THEN -1 ELSE S.dict[FirstOf(ht)].v)
    ELSE \/ \E e \in ht \cup hu : v = S.dict[e].v
         \/ (ht = {} /\ v = -1)
\* a put whose key is "U"-equal to a key in the dict and "T"-equal to none: the model
\* cannot tell whether the dict grew; such steps are not generated and not judged
PutAmbiguous(S, i) == HitsT(S, i) = {} /\ HitsU(S, i) # {}

DictAfterPut(S, i, v) ==
    LET hits == HitsT(S, i)
    IN IF hits = {} THEN Append(S.dict, [key |-> i, v |-> v])
       ELSE [e \in 1..Len(S.dict) |-> IF e \in hits THEN [S.dict[e] EXCEPT !.v = v] ELSE S.dict[e]]

(***************************************************************************)
(* State predicates (the property, S-layer)                                *)
(***************************************************************************)
HashRespectsEqOn(os) ==
    \A a, b \in 1..Len(os) :
        (os[a].hk = 1 /\ os[b].hk = 1 /\ EqObjs(os, a, b) = "T") => os[a].hid = os[b].hid
DictKeysDistinctOn(S) ==
    \A a, b \in 1..Len(S.dict) :
        a # b => EqM(S, S.dict[a].key, S.dict[b].key) # "T"

ValidIdx(S, i) == i \in 1..Len(S.objs)
\* o_i exists and its lifetime has not ended
Alive(S, i) == ValidIdx(S, i) /\ i \notin S.hp.dead
LiveIdx(S) == { i \in 1..Len(S.objs) : i \notin S.hp.dead }
IsKey(S, i) == \E e \in 1..Len(S.dict) : S.dict[e].key = i
\* an object that was built by its constructor in this interpreter at this step
BuiltHere(ev, r) == ev.op = "New" /\ ev.md = "" /\ r.k = "new"
\* the arguments are ones the constructor accepts and makes a hashable node of
BuildsHashable(spec) == ~IsErr(NormDeep(spec)) /\ Hashable(NormDeep(spec))
Creates(ev) == ev.op \in {"New", "Copy", "Replace", "Touch"}

\* Is the recorded step well-formed enough to be judged at all?
Judgeable(S, ev, r) ==
    /\ ev.op \in {"New", "Hash", "Eq", "Ne", "SetAttr", "DelAttr", "Copy", "Replace", "Touch",
                  "DictPut", "DictGet", "Mutate", "Drop"}
    \* nothing can be done with (or asked of) an object whose lifetime has ended
    /\ ev.op # "New" => Alive(S, ev.i)
    \* a key of the dict under test is kept alive by the dict: giving up the history's own
    \* reference does not end its lifetime (not generated)
    /\ ev.op = "Drop" => (~IsKey(S, ev.i) /\ r.k = "ok")
    \* a creation is recorded with the address the new object got
    /\ (Creates(ev) /\ r.k = "new") => r.ad > 0
    \* whether an expression can be pickled at all is C17's business
    /\ r.k # "nopickle"
    /\ ev.op \in {"Eq", "Ne", "Replace"} => Alive(S, ev.j)
    /\ (ev.op = "SetAttr" /\ ev.j # 0) => Alive(S, ev.j)
    /\ IF Creates(ev) /\ r.k = "new" THEN Len(r.proj) = Len(S.objs) + 1
                                     ELSE Len(r.proj) = Len(S.objs)
    /\ \A k \in 1..Len(r.proj) : r.proj[k].tree.t = "N" /\ Decidable(r.proj[k].tree)
    \* unhashable field values are out of model - except in an object built here just now
    \* from arguments the model's constructor makes a hashable node of (BuiltHashable)
    /\ \A k \in 1..Len(r.proj) :
          \/ Hashable(r.proj[k].tree)
          \/ (k > Len(S.objs) /\ BuiltHere(ev, r) /\ BuildsHashable(ev.spec))
    /\ ev.op = "DictPut" => ~PutAmbiguous(S, ev.i)

(***************************************************************************)
(* Class-level state.  An undecorated class is *used* when the generated   *)
(* __hash__ / __eq__ of its decorated ancestor runs on one of its          *)
(* instances.  cm holds one record [c, leg] per used undecorated class:    *)
(* leg = what the code decided about "does this class use extra legacy     *)
(* init args?".  The correct decision depends on the class alone; with     *)
(* Bug = "ClassMemo" the decision is remembered per class but looked up    *)
(* the way Python looks up attributes - through the base classes - so a    *)
(* class first used after one of its undecorated bases takes that base's   *)
(* answer.  (Only the classes of tracked objects are followed, not those   *)
(* of nodes nested in their fields.)                                       *)
(***************************************************************************)
IsLegacyChild(cls) == TmplOf(cls) = "legacy-child"
HasRec(cm, cls) == \E m \in cm : m.c = cls
RecOf(cm, cls)  == CHOOSE m \in cm : m.c = cls
\* the answer the code works with for an instance of cls in class state cm
LegacyDecision(cm, cls) ==
    IF Bug # "ClassMemo" THEN IsLegacyChild(cls)
    ELSE LET ch   == UndecoChain(cls)
             hits == { k \in 1..Len(ch) : HasRec(cm, ch[k]) }
         IN IF hits = {} THEN IsLegacyChild(cls)
            ELSE RecOf(cm, ch[CHOOSE k \in hits : \A k2 \in hits : k <= k2]).leg
\* tracked objects on which an event runs the generated hash / eq
UsedObjs(S, ev) ==
    CASE ev.op \in {"Hash", "DictPut", "DictGet"} -> {ev.i}
      [] ev.op \in {"Eq", "Ne"} ->
            IF ev.i # ev.j /\ S.objs[ev.i].tree.cls = S.objs[ev.j].tree.cls THEN {ev.i, ev.j} ELSE {}
      [] ev.op = "Touch" /\ ev.md = "cim" -> {ev.i}
      [] OTHER -> {}
CmAfter(S, ev) ==
    LET C == { S.objs[k].tree.cls : k \in UsedObjs(S, ev) } IN
    S.cm \cup { [c |-> c, leg |-> LegacyDecision(S.cm, c)] :
                  c \in { c2 \in C : Undecorated(c2) /\ ~HasRec(S.cm, c2) } }

(***************************************************************************)
(* Check: "OK", "SKIP", or the name of the first clause the observation    *)
(* contradicts.                                                            *)
(***************************************************************************)
PostObjs(S, ev, r) ==
    [k \in 1..Len(r.proj) |->
        LET old  == k <= Len(S.objs)
            seen == (ev.op = "Hash" /\ ev.i = k /\ r.k = "ok")
            hk   == IF (old /\ S.objs[k].hk = 1) \/ r.proj[k].hashed = 1 \/ seen THEN 1 ELSE 0
            hid  == IF old /\ S.objs[k].hk = 1 THEN S.objs[k].hid
                    ELSE IF seen THEN r.h
                    ELSE IF r.proj[k].hashed = 1 THEN r.proj[k].h ELSE NoHash
        IN [tree |-> r.proj[k].tree, hashed |-> r.proj[k].hashed, hk |-> hk, hid |-> hid]]

\* the heap after a step: a created object sits at the address it was given (no longer
\* free, if it was), a dropped object is dead and its address free
Without(q, a) == SelectSeq(q, LAMBDA z : z # a)
HeapAfter(S, ev, r) ==
    LET h == S.hp IN
    IF Creates(ev) /\ r.k = "new"
    THEN [h EXCEPT !.ad = Append(@, r.ad), !.free = Without(@, r.ad), !.memo = Append(@, 0)]
    ELSE IF ev.op = "Drop" /\ r.k = "ok"
    THEN [h EXCEPT !.dead = @ \cup {ev.i}, !.free = Append(@, h.ad[ev.i])]
    ELSE h
\* objects that were given the address of an object created before them (which was dead
\* by then: two live objects never share an address)
OnReusedAddr(h) == { k \in 1..Len(h.ad) : \E k2 \in 1..(k - 1) : h.ad[k2] = h.ad[k] }

Post(S, ev, r) ==
    [objs |-> PostObjs(S, ev, r),
     dict |-> IF ev.op = "DictPut" /\ r.k = "ok" THEN DictAfterPut(S, ev.i, ev.v) ELSE S.dict,
     cm   |-> CmAfter(S, ev),
     hp   |-> HeapAfter(S, ev, r)]

ImmutableStep(S, ev, r) ==
    /\ \A k \in 1..Len(S.objs) : r.proj[k].tree = S.objs[k].tree
    /\ ev.op \in {"SetAttr", "DelAttr"} => r.k = "err"

\* the same tree up to the names of the NaN objects (a pickle makes new float objects);
\* without a NaN: == on the trees
RECURSIVE EraseNaNs(_)
EraseNaNs(v) ==
    CASE v.t = "K" -> IF v.k = "nan" THEN [v EXCEPT !.id = 0] ELSE v
      [] v.t = "T" -> [v EXCEPT !.c = [i \in 1..Len(v.c) |-> EraseNaNs(v.c[i])]]
      [] v.t = "M" -> [v EXCEPT !.kv = [i \in 1..Len(v.kv) |-> [v.kv[i] EXCEPT !.v = EraseNaNs(v.kv[i].v)]]]
      [] v.t = "N" -> [v EXCEPT !.f = [i \in 1..Len(v.f) |-> EraseNaNs(v.f[i])]]
      [] OTHER -> v
CopyEq(a, b) == IF HasNaN(a) \/ HasNaN(b) THEN EraseNaNs(a) = EraseNaNs(b) ELSE PyEq(a, b)
\* a copy that came to be: same class, every field present and equal to the original's
CopyKeepsFieldsStep(S, ev, r) ==
    (ev.op = "Copy" /\ r.k = "new") => CopyEq(S.objs[ev.i].tree, r.proj[Len(r.proj)].tree)

\* round 5: whatever form its container-valued arguments were given in, a node built here
\* is hashable, and holds what it was given (up to the documented normalisations)
BuiltHashableStep(S, ev, r) ==
    (BuiltHere(ev, r) /\ BuildsHashable(ev.spec)) => Hashable(r.proj[Len(r.proj)].tree)
BuiltAsGivenStep(S, ev, r) ==
    (BuiltHere(ev, r) /\ ~IsErr(NormDeep(ev.spec))) => CopyEq(NormDeep(ev.spec), r.proj[Len(r.proj)].tree)

HashStableStep(S, ev, r) ==
    /\ \A k \in 1..Len(S.objs) :
          (S.objs[k].hk = 1 /\ r.proj[k].hashed = 1) => r.proj[k].h = S.objs[k].hid
    /\ (ev.op = "Hash" /\ r.k = "ok") =>
          /\ S.objs[ev.i].hk = 1 => r.h = S.objs[ev.i].hid
          /\ r.proj[ev.i].hashed = 1 => r.proj[ev.i].h = r.h

Check(S, ev, r) ==
    IF ~Judgeable(S, ev, r) THEN "SKIP"
    ELSE IF ~ImmutableStep(S, ev, r) THEN "Immutable"
    ELSE IF ~HashStableStep(S, ev, r) THEN "HashStable"
    ELSE IF ~CopyKeepsFieldsStep(S, ev, r) THEN "CopyKeepsFields"
    ELSE IF ~BuiltHashableStep(S, ev, r) THEN "BuiltHashable"
    ELSE IF ~BuiltAsGivenStep(S, ev, r) THEN "BuiltAsGiven"
    ELSE IF ev.op = "Hash" /\ r.k # "ok" THEN "HashRaises"
    ELSE IF ev.op \in {"Eq", "Ne"} /\ r.k # "ok" THEN "EqRaises"
    ELSE IF ev.op = "Eq" /\ Contradicts(r.b = 1, EqM(S, ev.i, ev.j)) THEN "EqIsPyEq"
    ELSE IF ev.op = "Ne" /\ Contradicts(r.b # 1, EqM(S, ev.i, ev.j)) THEN "NeIsNotPyEq"
    ELSE IF ev.op \in {"DictPut", "DictGet"} /\ r.k # "ok" THEN "DictRaises"
    ELSE IF ev.op = "DictGet" /\ ~GetAllowed(S, ev.i, r.v) THEN "DictFindsEqual"
    ELSE IF ~HashRespectsEqOn(PostObjs(S, ev, r)) THEN "HashRespectsEq"
    ELSE "OK"

(***************************************************************************)
(* A-layer: the code's algorithms                                          *)
(***************************************************************************)
HashFn(tree) ==
    CASE HashMode = "perfect" -> Canon(tree)
      [] HashMode = "real"    -> RealHash(tree)
      [] HashMode = "collide" -> [t |-> "C"]

\* what the generated hash of a tracked object looks at: all init args, unless the class
\* state says "not legacy" for a class that is (Bug = "ClassMemo"): then only the
\* dataclass fields of the decorated ancestor
\* (Bug = "KwDropped": the generated functions take their field list from the positional
\* constructor parameters; what is not one of them is not looked at)
Unlooked(cls) == IF Bug = "KwDropped" THEN NonPositional(cls) ELSE {}
EffTree(cm, t) ==
    IF IsLegacyChild(t.cls) /\ ~LegacyDecision(cm, t.cls)
    THEN [t EXCEPT !.f = SubSeq(t.f, 1, OwnCount(t.cls))]
    ELSE IF Unlooked(t.cls) # {}
    THEN [t EXCEPT !.f = [k \in 1..Len(t.f) |-> IF k \in Unlooked(t.cls) THEN NoneV ELSE t.f[k]]]
    ELSE t
\* a hash computed in another interpreter process (other str-hash seed)
ForeignHash(tree) == [t |-> "F", h |-> HashFn(tree)]
\* generated <cls>_hash / Expression.__hash__: return the cached value if there is one
ImplHash(cm, o) == IF o.hashed = 1 THEN o.hid ELSE HashFn(EffTree(cm, o.tree))

\* == on field values as the interpreter performs it: containers elementwise (an element
\* that IS the other element is equal: the same float NaN object; elt says the values are
\* compared as container elements), nested expression nodes through the generated __eq__
\* again (taken to be two objects, nothing cached)
RECURSIVE ImplValEq(_, _, _), ImplNodeEq(_, _)
ImplValEq(a, b, elt) ==
    IF a.t # b.t THEN FALSE
    ELSE CASE a.t = "T" -> /\ Len(a.c) = Len(b.c)
                           /\ \A i \in 1..Len(a.c) : ImplValEq(a.c[i], b.c[i], TRUE)
           [] a.t = "M" -> /\ Len(a.kv) = Len(b.kv)
                           /\ \A i \in 1..Len(a.kv) : \E j \in 1..Len(b.kv) :
                                 a.kv[i].k = b.kv[j].k /\ ImplValEq(a.kv[i].v, b.kv[j].v, TRUE)
           [] a.t = "N" -> ImplNodeEq(a, b)
           [] a.t = "K" -> IF a.k = "nan" /\ b.k = "nan" THEN elt /\ a.id = b.id ELSE PyEq(a, b)
           [] OTHER     -> PyEq(a, b)

\* the fields the fieldwise comparison looks at
ComparedFields(cls) ==
    LET n == OwnCount(cls) IN
    (1..(IF Bug = "DropField" /\ n > 0 THEN n - 1 ELSE n)) \ Unlooked(cls)

ImplNodeEq(a, b) ==
    IF TmplOf(a.cls) = "legacy" THEN
        \* Expression.__eq__: (identity) -> hash inequality -> is_equal
        IF HashFn(a) # HashFn(b) THEN FALSE
        \* (tuple of init args == tuple of init args)
        ELSE a.cls = b.cls /\ Len(a.f) = Len(b.f)
             /\ \A i \in 1..Len(a.f) : ImplValEq(a.f[i], b.f[i], TRUE)
    ELSE
        \* generated __eq__: (identity) -> class -> hash inequality -> legacy fallback -> fieldwise
        IF a.cls # b.cls THEN FALSE
        ELSE IF Bug = "NaNIdentity" /\ a.cls = "NaN" THEN FALSE
        ELSE IF HashFn(a) # HashFn(b) THEN FALSE
        ELSE IF TmplOf(a.cls) = "legacy-child" THEN
             \* init_arg_names differ from the parent's field names: is_equal over init args
             Len(a.f) = Len(b.f) /\ \A i \in 1..Len(a.f) : ImplValEq(a.f[i], b.f[i], TRUE)
        ELSE \A i \in ComparedFields(a.cls) : ImplValEq(a.f[i], b.f[i], FALSE)

\* Bug = "NoIdentityPath": o == o without the "self is other" exit - class, hash and
\* legacy tests pass trivially, then field by field on one and the same object: a
\* container finds its elements identical, a field holding a node asks that node again
RECURSIVE SelfValEq(_, _)
SelfValEq(v, elt) ==
    CASE v.t = "K" -> v.k # "nan" \/ elt
      [] v.t = "T" -> \A i \in 1..Len(v.c) : SelfValEq(v.c[i], TRUE)
      [] v.t = "M" -> \A i \in 1..Len(v.kv) : SelfValEq(v.kv[i].v, TRUE)
      [] v.t = "N" -> elt \/ \A i \in 1..Len(v.f) :
                              SelfValEq(v.f[i], TmplOf(v.cls) \in {"legacy", "legacy-child"})
      [] OTHER -> TRUE

\* top level: identity fast path and *cached* hashes
ImplEq(S, i, j) ==
    LET a == S.objs[i].tree  b == S.objs[j].tree IN
    IF i = j THEN (IF Bug = "NoIdentityPath" THEN SelfValEq(a, FALSE) ELSE TRUE)
    ELSE IF TmplOf(a.cls) # "legacy" /\ a.cls # b.cls THEN FALSE
    ELSE IF ImplHash(S.cm, S.objs[i]) # ImplHash(S.cm, S.objs[j]) THEN FALSE
    \* Bug = "AddrMemo": "whom did I compare equal to last?" remembered by ADDRESS and
    \* trusted - the object that lives there now need not be the one that was compared
    ELSE IF Bug = "AddrMemo" /\ S.hp.memo[i] = S.hp.ad[j] THEN TRUE
    ELSE IF TmplOf(a.cls) = "legacy" THEN
         a.cls = b.cls /\ Len(a.f) = Len(b.f) /\ \A k \in 1..Len(a.f) : ImplValEq(a.f[k], b.f[k], TRUE)
    ELSE IF Bug = "NaNIdentity" /\ a.cls = "NaN" THEN FALSE
    ELSE IF IsLegacyChild(a.cls) /\ LegacyDecision(S.cm, a.cls) THEN
         Len(a.f) = Len(b.f) /\ \A k \in 1..Len(a.f) : ImplValEq(a.f[k], b.f[k], TRUE)
    ELSE \A k \in ComparedFields(a.cls) : ImplValEq(a.f[k], b.f[k], FALSE)

\* which tracked objects get their hash cached by evaluating o_i == o_j
\* (Python tries type(o_j).__eq__ first when type(o_j) is a proper subclass of type(o_i);
\* all such pairs here take the class-mismatch exit before hashing)
EqHashes(S, i, j) ==
    LET a == S.objs[i].tree  b == S.objs[j].tree IN
    IF i = j THEN {}
    ELSE IF TmplOf(a.cls) = "legacy" THEN {i, j}
    ELSE IF a.cls # b.cls THEN {}
    ELSE {i, j}

\* does setattr / delattr of init arg fn on an instance of cls raise?
\* frozen dataclass: yes for every dataclass field (and, on an instance of the
\* decorated class itself, for any name); a legacy class is an ordinary object.
AttrRaises(cls, fn) ==
    IF Bug = "StaleHash" THEN FALSE
    ELSE FieldIndex(cls, fn) <= OwnCount(cls)

WithHashed(cm, os, hs) ==
    [k \in 1..Len(os) |-> IF k \in hs
                          THEN [os[k] EXCEPT !.hashed = 1, !.hk = 1, !.hid = ImplHash(cm, os[k])]
                          ELSE os[k]]
Proj(os) == [k \in 1..Len(os) |-> [tree |-> os[k].tree, hashed |-> os[k].hashed,
                                   h |-> IF os[k].hashed = 1 THEN os[k].hid ELSE NoHash]]
FreshObj(tree) == [tree |-> tree, hashed |-> 0, hk |-> 0, hid |-> NoHash]
B01(b) == IF b THEN 1 ELSE 0

\* does value v contain an expression node whose class is in C?
RECURSIVE AnyNode(_, _)
AnyNode(v, C) ==
    CASE v.t = "N" -> v.cls \in C \/ \E i \in 1..Len(v.f) : AnyNode(v.f[i], C)
      [] v.t = "T" -> \E i \in 1..Len(v.c) : AnyNode(v.c[i], C)
      [] v.t = "M" -> \E i \in 1..Len(v.kv) : AnyNode(v.kv[i].v, C)
      [] OTHER -> FALSE
\* classes no stock mapper has a handler for (nor for any of their bases)
NoHandler == {"URoot", "UChild", "ULeg", "ULegChild", "UPlain", "UInit", "UKw", "UInitF", "Leaf", "AlgebraicLeaf", "QuotientBase",
              "UPlain2", "ULegGrand", "ULegGrandD", "ULegChildPlain"}
VarLike   == {"Variable", "UVar", "UTagVar", "MultiVectorVariable", "UMVTag"}
\* fractions.Fraction is not among the constant types the mappers accept
RECURSIVE HasFrac(_)
HasFrac(v) ==
    CASE v.t = "K" -> v.k = "frac"
      [] v.t = "N" -> \E i \in 1..Len(v.f) : HasFrac(v.f[i])
      [] v.t = "T" -> \E i \in 1..Len(v.c) : HasFrac(v.c[i])
      [] v.t = "M" -> \E i \in 1..Len(v.kv) : HasFrac(v.kv[i].v)
      [] OTHER -> FALSE
Mappable(tree) == ~AnyNode(tree, NoHandler) /\ ~HasFrac(tree)
\* the harness' rebuilding identity mapper returns fresh Variable nodes, hence fresh parents
Rebuilds(tree) == AnyNode(tree, VarLike)

\* an object that comes out of a pickle is made of new float objects (the k-th live object
\* gets the names 100 k + old name; the catalogue has no tree with one NaN object twice;
\* k = 0: all names erased)
RECURSIVE NewNaNs(_, _)
NewNaNs(v, k) ==
    CASE v.t = "K" -> IF v.k = "nan" THEN [v EXCEPT !.id = IF k = 0 THEN 0 ELSE 100 * k + (v.id % 100)]
                      ELSE v
      [] v.t = "T" -> [v EXCEPT !.c = [i \in 1..Len(v.c) |-> NewNaNs(v.c[i], k)]]
      [] v.t = "M" -> [v EXCEPT !.kv = [i \in 1..Len(v.kv) |-> [v.kv[i] EXCEPT !.v = NewNaNs(v.kv[i].v, k)]]]
      [] v.t = "N" -> [v EXCEPT !.f = [i \in 1..Len(v.f) |-> NewNaNs(v.f[i], k)]]
      [] OTHER -> v
Arrived(v, k) == IF HasNaN(v) THEN NewNaNs(v, k) ELSE v
\* the same tree up to the names of the NaN objects
SameShape(a, b) == a = b \/ (HasNaN(a) /\ HasNaN(b) /\ NewNaNs(a, 0) = NewNaNs(b, 0))

\* what a copy is made of: __getstate__ / __setstate__ carry every field (Bug = "KwDropped":
\* only the looked-at ones; the others are not there on the copy)
Kept(t) == IF Unlooked(t.cls) = {} THEN t
           ELSE [t EXCEPT !.f = [k \in 1..Len(t.f) |-> IF k \in Unlooked(t.cls) THEN [t |-> "Missing"]
                                                       ELSE t.f[k]]]
\* the value a field(init=False) field gets when nothing in particular is going on around
\* the constructor call (dataclasses.replace builds the new object through the constructor)
AmbientDefault == KI(0)

\* round 5.  The constructor's normalisation as the code performs it.  Bug =
\* "NominalHashable": "is the keyword mapping hashable?" is answered from its TYPE (does it
\* have a __hash__ slot) instead of by hashing it - a read-only view of the caller's dict is
\* kept as it is
RECURSIVE ImplNorm(_)
ImplNorm(v) ==
    IF Bug # "NominalHashable" THEN NormDeep(v)
    ELSE CASE v.t = "T" -> [v EXCEPT !.c = [i \in 1..Len(v.c) |-> ImplNorm(v.c[i])]]
           [] v.t = "M" -> [v EXCEPT !.kv = [i \in 1..Len(v.kv) |-> [v.kv[i] EXCEPT !.v = ImplNorm(v.kv[i].v)]]]
           [] v.t = "N" -> LET w == [v EXCEPT !.f = [i \in 1..Len(v.f) |-> ImplNorm(v.f[i])]] IN
                           IF w.cls = "CallWithKwargs" /\ w.f[3].t = "M" /\ w.f[3].mt \in NominallyHashableForms
                           THEN w ELSE Norm(w)
           [] OTHER -> v
\* what the caller's mutation (Mutate) does to a value that still reads the caller's
\* containers: first entry rebound, one entry added
RECURSIVE Mutated(_)
MutKv(kv) == (IF Len(kv) > 0 THEN [kv EXCEPT ![1].v = KI(888)] ELSE kv) \o << KwE("zz_late", KI(777)) >>
Mutated(v) ==
    CASE v.t = "T" -> [v EXCEPT !.c = [i \in 1..Len(v.c) |-> Mutated(v.c[i])]]
      [] v.t = "M" -> IF v.mt \in LiveForms THEN [v EXCEPT !.kv = MutKv(v.kv)]
                      ELSE [v EXCEPT !.kv = [i \in 1..Len(v.kv) |-> [v.kv[i] EXCEPT !.v = Mutated(v.kv[i].v)]]]
      [] v.t = "N" -> [v EXCEPT !.f = [i \in 1..Len(v.f) |-> Mutated(v.f[i])]]
      [] OTHER -> v
\* hash(o_i) raises
Unh(os, I) == \E i \in I : ~Hashable(os[i].tree)
RaisesTE(os) == Res("err", 0, NoHash, "TypeError", 0, Proj(os))

PredictH(S, ev) ==
    LET os == S.objs IN
    CASE ev.op = "New" ->
           LET t0 == ImplNorm(ev.spec)
               t  == IF IsErr(t0) \/ ev.md = "" THEN t0 ELSE Arrived(t0, Len(os) + 1) IN
           IF IsErr(t) THEN Res("err", 0, NoHash, t.s, 0, Proj(os))
           \* an unpickled object starts without a cached hash, whatever happened to it in
           \* the interpreter that pickled it
           ELSE IF Bug = "PickleKeepsHash" /\ ev.md = "pkh"
           THEN Res("new", 0, NoHash, "", 0,
                    Proj(Append(os, [tree |-> t, hashed |-> 1, hk |-> 1, hid |-> ForeignHash(t)])))
           ELSE Res("new", 0, NoHash, "", 0, Proj(Append(os, FreshObj(t))))
      \* the constructor copied what it was given (or it was immutable): nothing to see
      [] ev.op = "Mutate" ->
           Res("ok", 0, NoHash, "", 0, Proj([os EXCEPT ![ev.i].tree = Mutated(os[ev.i].tree)]))
      \* the end of a lifetime shows nothing (a dead object keeps its last projection)
      [] ev.op = "Drop" -> Res("ok", 0, NoHash, "", 0, Proj(os))
      [] ev.op = "Hash" ->
           LET os2 == WithHashed(S.cm, os, {ev.i}) IN
           Res("ok", 0, os2[ev.i].hid, "", 0, Proj(os2))
      [] ev.op = "Eq" ->
           Res("ok", B01(ImplEq(S, ev.i, ev.j)), NoHash, "", 0,
               Proj(WithHashed(S.cm, os, EqHashes(S, ev.i, ev.j))))
      [] ev.op = "Ne" ->
           Res("ok", B01(~ImplEq(S, ev.i, ev.j)), NoHash, "", 0,
               Proj(WithHashed(S.cm, os, EqHashes(S, ev.i, ev.j))))
      [] ev.op \in {"SetAttr", "DelAttr"} ->
           IF AttrRaises(os[ev.i].tree.cls, ev.fn)
           THEN Res("err", 0, NoHash, "FrozenInstanceError", 0, Proj(os))
           ELSE \* the rebind goes through; a cached hash stays where it is
                LET fi == FieldIndex(os[ev.i].tree.cls, ev.fn)
                    nv == IF ev.op = "DelAttr" THEN [t |-> "Missing"]
                          ELSE IF ev.j > 0 THEN os[ev.j].tree.f[fi] ELSE KI(77)
                IN Res("ok", 0, NoHash, "", 0,
                       Proj([os EXCEPT ![ev.i].tree.f[fi] = nv]))
      [] ev.op = "Copy" ->
           LET src == os[ev.i]
               cp  == IF Bug = "CopyKeepsHash" \/ (Bug = "PickleKeepsHash" /\ ev.md = "pickle")
                      THEN [src EXCEPT !.hk = src.hashed]
                      ELSE FreshObj(Kept(IF ev.md = "pickle" THEN Arrived(src.tree, Len(os) + 1)
                                         ELSE src.tree))
           IN Res("new", 0, NoHash, "", 0, Proj(Append(os, cp)))
      [] ev.op = "Replace" ->
           LET a == os[ev.i].tree  b == os[ev.j].tree IN
           \* dataclasses.replace calls type(o)(**all dataclass fields, changes): not a
           \* dataclass (legacy) or an __init__ that wants more than the dataclass fields
           IF TmplOf(a.cls) = "legacy" \/
              (TmplOf(a.cls) = "legacy-child" /\ FieldIndex(a.cls, ev.fn) <= OwnCount(a.cls))
           THEN Res("err", 0, NoHash, "TypeError", 0, Proj(os))
           \* replace() refuses to set a field the constructor does not take
           ELSE IF FieldIndex(a.cls, ev.fn) \in NoInit(a.cls)
           THEN Res("err", 0, NoHash, "ValueError", 0, Proj(os))
           ELSE LET fi == FieldIndex(a.cls, ev.fn)
                    t  == ImplNorm([a EXCEPT !.f = [k \in 1..Len(a.f) |->
                                                  IF k = fi THEN b.f[fi]
                                                  ELSE IF k \in NoInit(a.cls) THEN AmbientDefault
                                                  ELSE a.f[k]]])
                    nw == IF Bug = "CopyKeepsHash"
                          THEN [os[ev.i] EXCEPT !.tree = t, !.hk = os[ev.i].hashed]
                          ELSE FreshObj(t)
                IN IF IsErr(t) THEN Res("err", 0, NoHash, t.s, 0, Proj(os))
                   ELSE Res("new", 0, NoHash, "", 0, Proj(Append(os, nw)))
      [] ev.op = "Touch" ->
           LET t  == os[ev.i].tree
               ok == Mappable(t)
               er == Res("err", 0, NoHash, "UnsupportedExpressionError", 0, Proj(os))
           IN
           (CASE ev.md \in {"str", "repr", "deps"} -> Res("ok", 0, NoHash, "", 0, Proj(os))
              [] ev.md = "stock" -> IF ok THEN Res("same", 0, NoHash, "", 0, Proj(os)) ELSE er
              [] ev.md = "cim" ->
                   Res(IF ok THEN "same" ELSE "err", 0, NoHash, "", 0, Proj(WithHashed(S.cm, os, {ev.i})))
              [] ev.md = "rebuild" ->
                   IF ~ok THEN er
                   ELSE IF Rebuilds(t)
                   THEN Res("new", 0, NoHash, "", 0, Proj(Append(os, FreshObj(t))))
                   ELSE Res("same", 0, NoHash, "", 0, Proj(os)))
      [] ev.op = "DictPut" ->
           Res("ok", 0, NoHash, "", 0, Proj(WithHashed(S.cm, os, {ev.i})))
      [] ev.op = "DictGet" ->
           \* a Python dict probes by hash, then identity, then ==
           LET os2 == WithHashed(S.cm, os, {ev.i})
               S2  == [S EXCEPT !.objs = os2]
               hits == { e \in 1..Len(S.dict) :
                           /\ ImplHash(S.cm, os2[S.dict[e].key]) = ImplHash(S.cm, os2[ev.i])
                           /\ (S.dict[e].key = ev.i \/ ImplEq(S2, S.dict[e].key, ev.i)) }
           IN Res("ok", 0, NoHash, "", IF hits = {} THEN -1
                  ELSE S.dict[CHOOSE e \in hits : \A e2 \in hits : e <= e2].v, Proj(os2))

\* the allocator: the block freed last goes to the next object (all node instances have
\* one size); otherwise a block no tracked object ever had
MaxAddr(h) == IF h.ad = << >> THEN 0
              ELSE LET A == { h.ad[k] : k \in 1..Len(h.ad) } IN CHOOSE m \in A : \A z \in A : z <= m
AllocAddr(h) == IF h.free # << >> THEN h.free[Len(h.free)] ELSE MaxAddr(h) + 1

\* an operation that hashes an object whose hash raises, raises
Predict(S, ev) ==
    LET r == IF \/ (ev.op \in {"Hash", "DictPut", "DictGet"} /\ Unh(S.objs, {ev.i}))
                \/ (ev.op \in {"Eq", "Ne"} /\ Unh(S.objs, EqHashes(S, ev.i, ev.j)))
             THEN RaisesTE(S.objs) ELSE PredictH(S, ev)
    IN IF Creates(ev) /\ r.k = "new" THEN [r EXCEPT !.ad = AllocAddr(S.hp)] ELSE r

\* Bug = "AddrMemo": what the objects remember after a step.  o == p that comes out equal
\* leaves the address of p in o; a dict look-up with o_i asks every stored key with the
\* same hash (other than o_i itself) "key == o_i"
MemoAfter(S, ev) ==
    LET m == S.hp.memo IN
    IF Bug # "AddrMemo" THEN m
    ELSE CASE ev.op \in {"Eq", "Ne"} /\ ev.i # ev.j ->
                IF ImplEq(S, ev.i, ev.j) THEN [m EXCEPT ![ev.i] = S.hp.ad[ev.j]] ELSE m
           [] ev.op \in {"DictGet", "DictPut"} ->
                LET os2 == WithHashed(S.cm, S.objs, {ev.i})
                    S2  == [S EXCEPT !.objs = os2]
                    ks  == { S.dict[e].key : e \in { e2 \in 1..Len(S.dict) :
                               /\ S.dict[e2].key # ev.i
                               /\ ImplHash(S.cm, os2[S.dict[e2].key]) = ImplHash(S.cm, os2[ev.i])
                               /\ ImplEq(S2, S.dict[e2].key, ev.i) } }
                IN [k \in 1..Len(m) |-> IF k \in ks THEN S.hp.ad[ev.i] ELSE m[k]]
           [] OTHER -> m

\* A-layer drift: does the recorded step differ from what the transcription predicts
\* (in anything but the hash values themselves)?
\* (the model's own idea of the cached hashes replaces the observed ids, and what a
\* mapper / stringifier does to the object it is applied to is C04's business)
ModelView(S) == [S EXCEPT !.objs = [k \in 1..Len(S.objs) |->
                                      [S.objs[k] EXCEPT !.hid = HashFn(S.objs[k].tree)]]]
Drift(S, ev, r) ==
    LET p == Predict(ModelView(S), ev)
        \* where the meaning leaves the answer open ("U": it hangs on object identities the
        \* trees do not show) the transcription's guess is not compared
        open == \/ ev.op \in {"Eq", "Ne"} /\ EqM(S, ev.i, ev.j) = "U"
                \/ ev.op = "DictGet" /\ HitsU(S, ev.i) # {}
    IN
    \/ (ev.op # "Touch" /\ p.k # r.k)
    \/ (~open /\ p.b # r.b)
    \/ (~open /\ p.v # r.v)
    \/ Len(p.proj) # Len(r.proj)
    \/ \E k \in 1..Len(p.proj) : k <= Len(r.proj) /\
          \/ ~SameShape(p.proj[k].tree, r.proj[k].tree)
          \/ (p.proj[k].hashed # r.proj[k].hashed /\ ~(ev.op = "Touch" /\ k = ev.i))

(***************************************************************************)
(* The model as a state machine over the variables                         *)
(***************************************************************************)
ModelInit == objs = << >> /\ dict = << >> /\ cmemo = {} /\ heap = Heap0 /\ last = [ev |-> EvNew(NoneV), chk |-> "OK", dev |-> ""]

(***************************************************************************)
(* Named deviation (found by TLC on the model before any code ran): an     *)
(* init arg that a legacy class adds through the init-args protocol is an  *)
(* ordinary instance attribute - setattr / delattr on it goes through, on  *)
(* a pure legacy class as well as on a legacy child of a frozen dataclass  *)
(* (the frozen __setattr__ only guards the dataclass fields of subclass    *)
(* instances).  The statement of C01 claims immutability for legacy        *)
(* subclasses too, so the model reports the step as an Immutable violation *)
(* under this name and stops the behaviour there.                          *)
(***************************************************************************)
Dev_LegacyMutable(S, ev) ==
    /\ Bug = "none"
    /\ ev.op \in {"SetAttr", "DelAttr"}
    /\ FieldIndex(S.objs[ev.i].tree.cls, ev.fn) > OwnCount(S.objs[ev.i].tree.cls)

\* the successor state of a *model* step is the predicted one; hk/hid follow the
\* prediction even where the property would have been violated (so that the Buggy
\* switches are visible as invariant violations, not as stuck states)
ModelPost(S, ev, r) ==
    [objs |-> [k \in 1..Len(r.proj) |->
                 LET old  == k <= Len(S.objs)
                     seen == (ev.op = "Hash" /\ ev.i = k)
                     hk   == IF (old /\ S.objs[k].hk = 1) \/ r.proj[k].hashed = 1 \/ seen
                             THEN 1 ELSE 0
                     hid  == IF seen THEN r.h
                             ELSE IF r.proj[k].hashed = 1 THEN r.proj[k].h
                             ELSE IF old THEN S.objs[k].hid ELSE NoHash
                 IN [tree |-> r.proj[k].tree, hashed |-> r.proj[k].hashed, hk |-> hk, hid |-> hid]],
     dict |-> IF ev.op = "DictPut" /\ r.k = "ok" THEN DictAfterPut(S, ev.i, ev.v) ELSE S.dict,
     cm   |-> CmAfter(S, ev),
     hp   |-> HeapAfter([S EXCEPT !.hp.memo = MemoAfter(S, ev)], ev, r)]

Step(ev) ==
    LET r == Predict(Cur, ev)
        n == ModelPost(Cur, ev, r)
    IN /\ objs' = n.objs
       /\ dict' = n.dict
       /\ cmemo' = n.cm
       /\ heap' = n.hp
       /\ last' = [ev |-> ev, chk |-> Check(Cur, ev, r),
                   dev |-> IF Dev_LegacyMutable(Cur, ev) THEN "Dev_LegacyMutable" ELSE ""]

\* --- invariants of the model ------------------------------------------
Deviated        == last.dev # ""
StepAllowed     == last.chk \in {"OK", "SKIP"} \/ (Deviated /\ last.chk = "Immutable")
EqIsPyEq        == last.chk \notin {"EqIsPyEq", "NeIsNotPyEq", "EqRaises"}
HashRespectsEq  == Deviated \/ (HashRespectsEqOn(objs) /\ last.chk # "HashRespectsEq")
DictFindsEqual  == Deviated \/ (DictKeysDistinctOn(Cur) /\ last.chk \notin {"DictFindsEqual", "DictRaises"})
NeverStale      == Deviated \/ \A k \in 1..Len(objs) : objs[k].hashed = 1 => objs[k].hid = HashFn(objs[k].tree)
NoSkipInModel   == last.chk # "SKIP"
CopyFaithful    == last.chk # "CopyKeepsFields"
BuiltOK         == last.chk \notin {"BuiltHashable", "BuiltAsGiven"}
\* --- action properties ---------------------------------------------------
Immutable  == [][Deviated' \/ \A k \in 1..Len(objs) : objs'[k].tree = objs[k].tree]_<<objs, dict, last, cmemo, heap>>
HashStable == [][\A k \in 1..Len(objs) : objs[k].hk = 1 => objs'[k].hid = objs[k].hid]_<<objs, dict, last, cmemo, heap>>
=============================================================================
