------------------------------- MODULE C05_Memo -------------------------------
(***************************************************************************)
(* S-layer for C05: ONE memoizing mapper instance as a state machine.      *)
(*                                                                         *)
(*   cache     partial function Key -> Result: what the instance has       *)
(*             answered for a top-level call so far                        *)
(*   computed  bag Key -> Nat: how often the handler of a key ran to       *)
(*             completion on this instance                                 *)
(*   open      stack of keys whose handler is running (nested dispatch)    *)
(*   pend      keys completed since the last top-level return              *)
(*                                                                         *)
(* A key is the statement's key: the (expression, extra arguments) pair,   *)
(* distinct as soon as anything - including the type of a constant -       *)
(* differs (C05_Keys!KeyOf("ideal", ..)).                                  *)
(*                                                                         *)
(* The state is one record ms (so that the same machine can be run from    *)
(* TLC actions over a variable, C05_MemoSM, and folded over a whole event  *)
(* list inside one TLC step, RunEvents below).                             *)
(* Actions (one per observable event of an instrumented mapper; guard and  *)
(* effect operators here, the TLA+ actions themselves in C05_MemoSM):      *)
(*   HandlerInvoked(k)      a map_* handler starts for k.  Enabled iff the *)
(*                          handler of k has not completed before:         *)
(*                          "computed at most once per instance".          *)
(*   HandlerDone(k, ok)     it returns (ok) or raises (~ok); a raise does  *)
(*                          not count as computed.                         *)
(*   Return(k, r, f)        the top-level call for k returns r; f is what  *)
(*                          the non-memoizing counterpart returns when     *)
(*                          applied afresh.  Enabled iff r = f             *)
(*                          ("observational transparency").                *)
(*   ReturnWalk(k, F)       the same for a mapper that returns nothing and *)
(*                          is observed through the nodes it touches: F is *)
(*                          the set of keys the cache-free traversal       *)
(*                          touches; enabled iff exactly the not yet       *)
(*                          touched ones were computed during this call.   *)
(* The guards are separate operators so that the trace specification       *)
(* (C05_Judge) can name the clause a recorded event contradicts instead of *)
(* just getting stuck, and so that the A-layer (C05_MemoImpl) can be run   *)
(* against the same machine inside one TLC step (RunEvents).               *)
(***************************************************************************)
EXTENDS C05_Fresh

EmptyFn == [x \in {} |-> 0]
MemoInit == [cache |-> EmptyFn, computed |-> EmptyFn, open |-> << >>, pend |-> {}]

Count(ms, k) == IF k \in DOMAIN ms.computed THEN ms.computed[k] ELSE 0
Done(ms) == { k \in DOMAIN ms.computed : ms.computed[k] > 0 }

\* ------------------------------------------------------------- guards
InvokeGuard(ms, k) == Count(ms, k) = 0
DoneGuard(ms, k)   == Len(ms.open) > 0 /\ ms.open[Len(ms.open)] = k
ReturnGuard(ms, k, r, f) == Len(ms.open) = 0 /\ r = f

\* ------------------------------------------------------------- effects
InvokePost(ms, k) == [ms EXCEPT !.open = Append(@, k)]
DonePost(ms, k, ok) ==
    [ms EXCEPT !.open = SubSeq(@, 1, Len(@) - 1),
               !.computed = IF ok THEN (k :> (Count(ms, k) + 1)) @@ @ ELSE @,
               !.pend = IF ok THEN @ \cup {k} ELSE @]
ReturnPost(ms, k, r) == [ms EXCEPT !.cache = (k :> r) @@ @, !.pend = {}]

\* ------------------------------------------------------------- invariants
\* each distinct key is computed at most once per instance
AtMostOnce(ms) == \A k \in DOMAIN ms.computed : ms.computed[k] <= 1
\* cache soundness for a given meaning F of the cache-free mapper
CacheSound(ms, F(_)) == \A k \in DOMAIN ms.cache : ms.cache[k] = F(k)
\* nothing is shared between keys that differ only in the type of a constant /
\* only in the extra arguments unless the cache-free mapper agrees on them
NotSharedAcrossTypes(ms, F(_)) ==
    \A k1, k2 \in DOMAIN ms.cache :
        (k1 # k2 /\ PyEq(k1.e, k2.e) /\ ms.cache[k1] = ms.cache[k2]) => F(k1) = F(k2)
NotSharedAcrossArgs(ms, F(_)) ==
    \A k1, k2 \in DOMAIN ms.cache :
        (k1.e = k2.e /\ k1.a # k2.a /\ ms.cache[k1] = ms.cache[k2]) => F(k1) = F(k2)

(***************************************************************************)
(* Running a whole event list against the machine in one evaluation: the   *)
(* first clause an event contradicts, or "OK".  An event is                *)
(*   [ev |-> "H", k]  [ev |-> "X", k, ok]  [ev |-> "R", k, r, f]           *)
(*   [ev |-> "W", k, F]                                                    *)
(* The clause names are the rejection clauses of the property.             *)
(***************************************************************************)
\* why a top-level result that differs from the fresh one differs
DiffClause(ms, k, r, f) ==
    IF ResCanon(r) = ResCanon(f) THEN "shared-across-types"
    ELSE IF \E k2 \in DOMAIN ms.cache : k2.e = k.e /\ k2.a # k.a /\ ms.cache[k2] = r
         THEN "shared-across-args"
    ELSE "not-transparent"

\* a traversal that is observed through the keys it touches: nothing the cache-free
\* traversal touches may be missing (unless touched earlier on this instance),
\* nothing else may be touched
WalkClause(ms, F) ==
    LET missing == F \ Done(ms)
        extra   == ms.pend \ F
    IN  IF missing = {} /\ extra = {} THEN "OK"
        ELSE IF extra # {} THEN "not-transparent"
        ELSE IF \A k \in missing : \E k2 \in Done(ms) :
                    k2 # k /\ PyEq(k.e, k2.e) /\ ArgsPyEq(k.a, k2.a)
             THEN "shared-across-types"
        ELSE IF \A k \in missing : \E k2 \in Done(ms) : PyEq(k.e, k2.e) /\ ~ArgsPyEq(k.a, k2.a)
             THEN "shared-across-args"
        ELSE "not-transparent"

ReturnWalkGuard(ms, k, F) == Len(ms.open) = 0 /\ WalkClause(ms, F) = "OK"

EventClause(ms, ev) ==
    CASE ev.ev = "H" -> IF InvokeGuard(ms, ev.k) THEN "OK" ELSE "computed-twice"
      [] ev.ev = "X" -> IF DoneGuard(ms, ev.k) THEN "OK" ELSE "ill-nested"
      [] ev.ev = "R" -> IF Len(ms.open) # 0 THEN "ill-nested"
                        ELSE IF ev.r = ev.f THEN "OK" ELSE DiffClause(ms, ev.k, ev.r, ev.f)
      [] ev.ev = "W" -> IF Len(ms.open) # 0 THEN "ill-nested" ELSE WalkClause(ms, ev.F)
EventPost(ms, ev) ==
    CASE ev.ev = "H" -> InvokePost(ms, ev.k)
      [] ev.ev = "X" -> DonePost(ms, ev.k, ev.ok)
      [] ev.ev = "R" -> ReturnPost(ms, ev.k, ev.r)
      [] ev.ev = "W" -> ReturnPost(ms, ev.k, NoneR)

\* [ms |-> state reached, v |-> "OK" | first failing clause, at |-> index of that event]
RunEvents(ms0, evs) ==
    LET RECURSIVE Go(_, _)
        Go(ms, i) == IF i > Len(evs) THEN [ms |-> ms, v |-> "OK", at |-> 0]
                     ELSE LET c == EventClause(ms, evs[i]) IN
                          IF c = "OK" THEN Go(EventPost(ms, evs[i]), i + 1)
                          ELSE [ms |-> ms, v |-> c, at |-> i]
    IN Go(ms0, 1)
=============================================================================
