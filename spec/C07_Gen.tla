------------------------------- MODULE C07_Gen -------------------------------
(***************************************************************************)
(* Stage (1) for C07: TLC enumerates token strings of the syntax shared    *)
(* with Python: operator/operand skeletons with every ordered pair (and,   *)
(* in the thorough tier, triple) of binary operators, unary operators in   *)
(* every operand position, conditional expressions in every position,      *)
(* postfix chains, tuples, and truncated (garbled) strings.  A skeleton is *)
(* a token sequence with typed slots; Next fills the first slot.           *)
(***************************************************************************)
EXTENDS C07_Model, C07_Lex, Json
CONSTANT Tier
VARIABLE toks

BinAll == {"+", "-", "*", "/", "//", "%", "**", "<<", ">>", "&", "|", "^",
           "==", "!=", "<", "<=", ">", ">=", "and", "or"}
BinRed == {"+", "-", "*", "//", "%", "**", "<<", "&", "|", "^", "==", "<", "and", "or"}
UnAll  == {"-", "+", "~", "not"}

\* names that a sloppy lexer splits or rejects: keyword-prefixed, with digits and underscores
TrickyNames == {"not_x", "not1", "or_1", "and2", "if_", "else_9", "note", "iffy", "orb", "Truex",
                "Nonesuch", "_y", "x_1", "a_b"}
\* spellings of numeric literals (values in C07_Parser's FloatTable)
LiteralToks == {"2.", ".5", "1e3", "1e+3", "1E+3", "2e+2", "12e+0", "25e-2", "5e-1", "2.5e+1", ".5e+1", "2.e1",
                "1.5E1", "0e0", "30", "0"}
IsSlot(t) == t \in {"?B", "?b", "?U", "?N", "?L"}
PoolFor(t) == CASE t = "?B" -> BinAll [] t = "?b" -> BinRed [] t = "?U" -> UnAll [] t = "?N" -> TrickyNames
                [] t = "?L" -> LiteralToks

Skeletons2 == {
  << "a", "?B", "b", "?B", "c" >>,
  << "?U", "a", "?B", "b" >>, << "a", "?B", "?U", "b" >>, << "?U", "?U", "a" >>,
  << "?U", "a", "?b", "b", "?b", "c" >>, << "a", "?b", "?U", "b", "?b", "c" >>,
  << "a", "?b", "b", "?b", "?U", "c" >>,
  << "a", "?B", "b", "if", "c", "else", "d" >>, << "a", "if", "b", "?B", "c", "else", "d" >>,
  << "a", "if", "b", "else", "c", "?B", "d" >>, << "a", "if", "b", "else", "c", "if", "d", "else", "2" >>,
  << "a", "if", "b", "if", "c", "else", "d", "else", "2" >>,
  << "?U", "a", "if", "b", "else", "c" >>, << "a", "if", "?U", "b", "else", "c" >>,
  << "a", "if", "b", "else", "?U", "c" >>,
  \* a conditional followed by a comma: the else branch must end there (argument lists,
  \* tuples, subscripts, keyword arguments)
  << "f", "(", "a", "if", "b", "else", "c", ",", "d", ")" >>, << "a", "if", "b", "else", "c", ",", "d" >>,
  << "(", "a", "if", "b", "else", "c", ",", "d", ")" >>, << "t", "[", "a", "if", "b", "else", "c", ",", "0", "]" >>,
  << "f", "(", "a", ",", "k1", "=", "b", "if", "c", "else", "d", ",", "k2", "=", "2", ")" >>,
  << "a", ",", "b", "if", "c", "else", "d" >>, << "a", "if", "b", "else", "c", "?B", "d", ",", "2" >>,
  \* names: every tricky name as an operand, under a prefix operator, as function / argument /
  \* keyword value / attribute name, in a conditional
  << "?N" >>, << "?N", "?b", "b" >>, << "a", "?b", "?N" >>, << "?U", "?N" >>,
  << "?N", "(", "a", ")" >>, << "f", "(", "?N", ",", "k1", "=", "?N", ")" >>, << "o", ".", "?N" >>,
  << "a", "if", "?N", "else", "?N" >>, << "t", "[", "?N", "]" >>,
  \* subscripts by the empty tuple, of a subscript, of a call, of a tuple display
  << "t", "[", "(", ")", "]" >>, << "t", "[", "0", "]", "[", "(", ")", "]" >>,
  << "f", "(", "a", ")", "[", "(", ")", "]" >>, << "(", "a", ",", "b", ")", "[", "c", "]" >>,
  << "(", "a", ",", "b", ",", "2", ")", "[", "1", "]" >>, << "t", "[", "(", ")", ",", "0", "]" >>,
  << "m", "[", "(", "1", ",", ")", "]" >>, << "m", "[", "t", "[", "(", ")", "]", "]" >>,
  \* postfix forms against prefix / infix operators
  << "?U", "f", "(", "a", ")" >>, << "?U", "t", "[", "1", "]" >>, << "?U", "o", ".", "p" >>,
  << "a", "?B", "f", "(", "b", ")" >>, << "f", "(", "a", ")", "?B", "b" >>,
  << "t", "[", "1", "]", "?B", "b" >>, << "a", "?B", "t", "[", "0", "]" >>, << "o", ".", "p", "?B", "b" >>,
  << "a", "?B", "o", ".", "p" >>,
  << "f", "(", "a", "?B", "b", ",", "c", ")" >>, << "f", "(", "a", ",", "k1", "=", "b", "?B", "c", ")" >>,
  << "g", "(", "k2", "=", "a", ",", "k1", "=", "b", ")" >>, << "f", "(", ")" >>,
  << "f", "(", "a", ",", ")" >>, << "t", "[", "a", "?B", "b", "]" >>, << "f", "(", "a", ")", "?B", "g", "(", "b", ")" >>,
  << "f", "(", "g", "(", "a", ")", ",", "b", ")" >>, << "t", "[", "0", "]", ".", "p" >>,
  \* argument lists inside argument lists: every call keeps its own positional and keyword
  \* arguments (a call in the value of a later keyword, an inner call with keywords of its own -
  \* same and other names -, a positional argument after an inner call that had keywords)
  << "f", "(", "k1", "=", "a", ",", "k2", "=", "g", "(", "b", ")", ")" >>,
  << "f", "(", "k1", "=", "g", "(", "k2", "=", "a", ")", ",", "k2", "=", "b", ")" >>,
  << "f", "(", "k1", "=", "g", "(", "k1", "=", "a", ")", ",", "k2", "=", "b", ")" >>,
  << "f", "(", "g", "(", "k1", "=", "a", ")", ",", "b", ")" >>,
  << "f", "(", "g", "(", "k1", "=", "a", ")", ",", "k1", "=", "b", ")" >>,
  << "f", "(", "a", ",", "k1", "=", "b", ",", "k2", "=", "g", "(", "c", ",", "k1", "=", "d", ")", ")" >>,
  << "f", "(", "k1", "=", "a", ",", "k2", "=", "b", "?B", "g", "(", "c", ")", ")" >>,
  << "f", "(", "k1", "=", "g", "(", "k2", "=", "a", ")", "?B", "b", ")" >>,
  << "f", "(", "k1", "=", "a", ",", "k2", "=", "g", "(", "f", "(", "k1", "=", "b", ")", ")", ")" >>,
  \* tuples
  << "a", ",", "b" >>, << "(", "a", ",", "b", ")" >>, << "(", "a", ",", ")" >>, << "a", "," >>,
  << "(", "a", ",", "b", ",", ")" >>, << "(", ")" >>, << "a", "?B", "b", ",", "c" >>,
  << "a", ",", "b", "?B", "c" >>, << "(", "a", "?B", "b", ")", "?B", "c" >>,
  << "a", "?B", "(", "b", "?B", "c", ")" >>, << "(", "a", ",", "b", ")", "?B", "(", "c", ",", "d", ")" >>,
  << "f", "(", "(", "a", ",", "b", ")", ")" >>,
  << "(", "(", "a", ",", "b", ")", ",", ")" >>, << "(", "a", ",", "b", ")", "," >>, << "(", ")", "," >>,
  << "(", "(", "a", ",", "b", ")", ",", "c", ")" >>, << "f", "(", "(", "a", ",", "b", ")", ",", "c", ")" >>,
  << "(", "a", ",", "(", "b", ",", "c", ")", ")" >>, << "(", "(", "a", ",", ")", ",", ")" >>,
  << "t", "[", "(", "a", ",", "b", ")", ",", "c", "]" >>,
  \* literals
  << "2", "?B", "3" >>, << "1.5", "?B", "a" >>, << "True", "?B", "a" >>, << "a", "?B", "False" >>,
  << "?U", "2", "?B", "a" >>, << "2", "**", "?U", "1" >>, << "a", "**", "?U", "b", "**", "c" >>,
  \* a prefix operator applied to a parenthesised expression that itself begins with a prefix
  \* operator: nothing may be folded away across the parentheses
  << "?U", "(", "?U", "a", "?b", "b", ")" >>, << "?U", "(", "?U", "a", "*", "b", "*", "c", ")" >>,
  << "c", "?b", "?U", "(", "?U", "a", "*", "b", ")" >>, << "?U", "(", "?U", "f", "(", "a", ")", "*", "b", ")" >>,
  << "?U", "(", "?U", "(", "?U", "a", ")", ")" >>, << "?U", "(", "a", "?b", "?U", "b", ")" >>,
  << "?L" >>, << "?L", "?b", "a" >>, << "a", "?b", "?L" >>, << "?U", "?L" >>, << "f", "(", "?L", ")" >>,
  << "t", "[", "?L", "]" >>, << "(", "a", ")", "?b", "?L" >>, << "?L", "if", "a", "else", "?L" >>
}
Skeletons3 == {
  << "a", "?b", "b", "?b", "c", "?b", "d" >>
}
Skeletons3T == {
  << "a", "?B", "b", "?B", "c", "?B", "d" >>,
  << "?U", "a", "?B", "b", "?B", "c" >>, << "a", "?B", "?U", "b", "?B", "c" >>,
  << "a", "?B", "b", "?B", "?U", "c" >>,
  << "a", "?b", "b", "?b", "c", "if", "d", "else", "2" >>,
  << "a", "if", "b", "?b", "c", "?b", "d", "else", "2" >>
}
Roots == Skeletons2 \cup (IF Tier = "quick" THEN Skeletons3 ELSE Skeletons3T)

HasSlot(s) == \E i \in 1..Len(s) : IsSlot(s[i])
FirstSlot(s) == CHOOSE i \in 1..Len(s) : IsSlot(s[i]) /\ \A j \in 1..(i - 1) : ~IsSlot(s[j])

Init == toks \in Roots
Next == /\ HasSlot(toks)
        /\ LET i == FirstSlot(toks) IN
           \E o \in PoolFor(toks[i]) : toks' = [toks EXCEPT ![i] = o]
Complete == ~HasSlot(toks)

ASSUME PrintT(ToJson([envs |-> Envs]))
\* every complete string, and its truncations (garbled input: must parse or raise the parse error)
\* design-level check: the transcribed parser against the reference Python grammar, by
\* evaluation in every environment of the box; disagreeing strings are reported
\* environments in which the reference value is inside the model's exact bounds: the driver asks
\* Python for the value only there (a tower of powers outside the bounds can take hours to
\* compute and would be skipped by the judge anyway)
EvMask(ts) == LET rv == RefValues(ts) IN
              IF rv = << >> THEN [i \in 1..Len(Envs) |-> TRUE]
              ELSE [i \in 1..Len(Envs) |-> ~IsUnrep(rv[i])]
Emit == Complete =>
    /\ LET m == ModelVerdict(toks) IN
       (m.v \in {"OK", "SKIP"} \/ PrintT(ToJson([design |-> m.v, dtoks |-> toks, devs |-> ActiveDevs(toks)])))
    /\ LET q == RepairedVerdict(toks) IN
       (q.v \in {"OK", "SKIP"} \/ PrintT(ToJson([unnamed |-> q.v, utoks |-> toks])))
    /\ PrintT(ToJson([toks |-> toks, garbled |-> FALSE, text |-> Text(toks, FALSE), ev |-> EvMask(toks)]))
    \* the same token string written without the blanks the lexical grammar does not need
    /\ (Text(toks, TRUE) = Text(toks, FALSE)
        \/ PrintT(ToJson([toks |-> toks, garbled |-> FALSE, text |-> Text(toks, TRUE), ev |-> EvMask(toks)])))
    /\ (Len(toks) < 4 \/ Len(toks) > 6
        \/ PrintT(ToJson([toks |-> SubSeq(toks, 1, Len(toks) - 1), garbled |-> TRUE,
                           text |-> Text(SubSeq(toks, 1, Len(toks) - 1), FALSE),
                           ev |-> EvMask(SubSeq(toks, 1, Len(toks) - 1))])))
=============================================================================
