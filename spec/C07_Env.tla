------------------------------- MODULE C07_Env -------------------------------
EXTENDS Eval
FnV(n) == [k |-> "fn", name |-> n]
ObjV(n) == [k |-> "obj", name |-> n]
TupV(s) == [k |-> "tup", items |-> s]
Common == [f |-> FnV("f"), g |-> FnV("g"),
           t |-> TupV(<< IntV(3), IntV(-2), IntV(5) >>), o |-> ObjV("o1")]
E(a, b, c, d) == [a |-> a, b |-> b, c |-> c, d |-> d] @@ Common
Envs == <<
  E(IntV(2), IntV(3), IntV(1), IntV(-1)),   E(IntV(-3), IntV(2), IntV(2), IntV(0)),
  E(IntV(1), IntV(-2), IntV(3), IntV(2)),   E(IntV(0), IntV(1), IntV(-1), IntV(3)),
  E(IntV(3), IntV(0), IntV(2), IntV(1)),    E(IntV(-1), IntV(-1), IntV(0), IntV(2)),
  E(IntV(2), IntV(1), IntV(-2), IntV(-3)),  E(IntV(1), IntV(2), IntV(1), IntV(1)),
  E(FracV(1, 2), IntV(2), IntV(3), IntV(-1)), E(IntV(3), FracV(-3, 2), IntV(2), IntV(2)),
  E(BoolV(TRUE), BoolV(FALSE), IntV(2), IntV(3)), E(IntV(5), IntV(4), IntV(3), IntV(2)),
  E(IntV(1), IntV(1), IntV(1), IntV(1)),    E(IntV(0), IntV(0), IntV(1), IntV(2)),
  E(IntV(2), IntV(2), IntV(0), IntV(1)),    E(IntV(3), IntV(3), IntV(3), IntV(0))
>>
=============================================================================
