CONSTANTS
  HashMode = "real"
  Bug = "none"
  Sweeps = {"sim"}
  PairDepth = 2
  NearDepth = 2
  DeepDepth = 8
  HierDepth = 2
  XDepth = 1
  SelfDepth = 2
  FormDepth = 2
  HeapDepth = 3
  Wide = TRUE
  EmitCases = TRUE
INIT Init
NEXT Next
INVARIANT StepAllowed
INVARIANT EqIsPyEq
INVARIANT HashRespectsEq
INVARIANT DictFindsEqual
INVARIANT NeverStale
INVARIANT NoSkipInModel
INVARIANT EmitSim
PROPERTY Immutable
PROPERTY HashStable
CHECK_DEADLOCK FALSE
