CONSTANT Tier = "thorough"
CONSTANT BugM = "none"
INIT Init
NEXT Next
INVARIANT MeaningSelfCheck
INVARIANT RewriteMachineOK
INVARIANT RoundTripMeaning
INVARIANT Emit
CHECK_DEADLOCK FALSE
