------------------------------- MODULE C09_Inst -------------------------------
(***************************************************************************)
(* Stage (1) for the instance histories of C09: the state machine "one     *)
(* analysis instance, called on a history of expressions" (C09_InstOps).   *)
(* TLC explores every history up to the bound over the pool below (the     *)
(* history is part of the state, so different orders are different         *)
(* states), checks InstInv in every state and prints every maximal         *)
(* history for the driver.  Buggy /= "none" seeds a defect in the          *)
(* transition (negative control: TLC must then report InstInvHolds         *)
(* violated).                                                              *)
(***************************************************************************)
EXTENDS C09_InstOps, Json
CONSTANTS Tier, Buggy
VARIABLE inst

x == V("x")  y == V("y")  z == V("z")  ff == V("f")  gg == V("g")  tt == V("t")  oo == V("o")
One == KI(1)  OneF == K(FltV(1, 1))
Sxy == N("Sum", << x, y >>)
PoolQuick == {
  x, N("Sum", << x, One >>), N("Sum", << x, OneF >>), Call(ff, << One >>), Call(ff, << OneF >>),
  CSE0(Sxy), N("Sum", << CSE0(Sxy), B("Power", z, KI(2)) >>), CSE0(N("Product", << CSE0(Sxy), x >>)),
  Look(B("Sub", tt, x), "p"), N("Product", << Sxy, Sxy >>),
  CallKw(gg, << x >>, << KwArg("k1", CSE0(Sxy)) >>),
  \* a wrapper over OTHER variables: a result cached for one wrapper must never answer for another
  \* (the driver frees every expression after its call, so addresses are reused)
  CSE0(N("Sum", << z, One >>)) }
PoolMore == {
  OneF, K(BoolV(TRUE)), CSE(Sxy, "pre", "pymbolic_expr"),
  Call(Look(oo, "p"), << y >>), B("Quotient", CSE0(Sxy), CSE0(Sxy)) }
Pool == IF Tier = "quick" THEN PoolQuick ELSE PoolQuick \cup PoolMore
D == IF Tier = "quick" THEN 2 ELSE 3

RawIx(is, il, ic, ics, cl) ==
    1 + (IF is THEN 1 ELSE 0) + 2 * (IF il THEN 1 ELSE 0)
      + 4 * (CASE ic = "yes" -> 0 [] ic = "no" -> 1 [] ic = "args" -> 2)
      + 12 * (IF ics THEN 1 ELSE 0)
      + 24 * (CASE cl = "none" -> 0 [] cl = "true" -> 1 [] cl = "false" -> 2)
RawPick == { RawIx(TRUE, TRUE, "yes", FALSE, "none"),      \* the defaults
             RawIx(TRUE, TRUE, "yes", TRUE, "none"),       \* everything a leaf
             RawIx(FALSE, FALSE, "no", FALSE, "none"),     \* variables only
             RawIx(FALSE, TRUE, "args", FALSE, "none"),
             RawIx(FALSE, FALSE, "no", TRUE, "none"),
             RawIx(TRUE, TRUE, "yes", FALSE, "false") }
ASSUME \A i \in RawPick : i \in 1..NRaw
ASSUME RawSeq[RawIx(FALSE, TRUE, "args", TRUE, "true")] =
          [is |-> FALSE, il |-> TRUE, ic |-> "args", ics |-> TRUE, cl |-> "true"]

\* seeded defects of the transition (negative controls)
BugStepB(st, e, bug) ==
    LET s == Step(st, e) IN
    CASE bug = "none" -> s
      \* the CSE cache forgets that its content depends on the flags: entry made for the body only
      [] bug = "csememo_body" ->
            [s EXCEPT !.csememo = { [key |-> p.key, val |-> Deps(p.key.a, AllOff)] : p \in @ }]
      \* a second call recounts CSEs already seen
      [] bug = "seen_reset" -> (IF st.kind = "cse"
                                  THEN LET f == CSEFlopsImpl(e) IN
                                       [s EXCEPT !.lastn = f, !.total = st.total + f] ELSE s)
      \* memo key without the type tag and a count per visit
      [] bug = "count_visits" -> (IF st.kind = "ncm" THEN [s EXCEPT !.count = @ + 1] ELSE s)
BugStep(st, e) == BugStepB(st, e, Buggy)

Starts == { NewInst(k, r) : k \in {"dm", "cdm"}, r \in RawPick } \cup { NewInst(k, 1) : k \in {"fc", "cse", "ncm"} }
Init == inst \in Starts
Next == /\ Len(inst.hist) < D
        /\ \E e \in Pool : inst' = BugStep(inst, e)

InstInvHolds == InstInv(inst)

\* negative controls at start-up: each seeded defect breaks InstInv on some history of length 2
\* (the C09_Inst_neg_*.cfg runs of the thorough tier let TLC find the violation as an invariant)
InstBugs == {"csememo_body", "seen_reset", "count_visits"}
InstNegControls ==
    \A b \in InstBugs : \E s0 \in Starts, e1 \in PoolQuick, e2 \in PoolQuick :
        ~InstInv(BugStepB(BugStepB(s0, e1, b), e2, b))
ASSUME InstNegControls /\ PrintT(ToJson([instnegcontrols |-> Cardinality(InstBugs)]))
Emit == Len(inst.hist) = D =>
            PrintT(ToJson([kind |-> inst.kind, raw |-> inst.raw, h |-> inst.hist]))
=============================================================================
