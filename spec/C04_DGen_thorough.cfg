CONSTANT Tier = "thorough"
INIT Init
NEXT Next
INVARIANT ImplRefinesMeaning
INVARIANT DispatchSane
INVARIANT ForeignSane
INVARIANT Emit
CHECK_DEADLOCK FALSE
