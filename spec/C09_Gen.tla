------------------------------- MODULE C09_Gen -------------------------------
(***************************************************************************)
(* Stage (1) for C09.  TLC enumerates expression trees (root skeleton x    *)
(* typed holes filled left to right from the pools below; in Mode "rand"   *)
(* -simulate grows random deeper trees), checks ON THE MODEL, for every    *)
(* complete tree,                                                          *)
(*   - the transcribed DependencyMapper / NodeCountMapper / flop counters  *)
(*     (A-layer) equal the declarative meaning (M-layer) for all 72 flag   *)
(*     settings,                                                           *)
(*   - the oracle's own sanity laws,                                       *)
(*   - the restricted-environment lemma against Eval (spec/Eval.tla),      *)
(* and prints each complete tree as one JSON line for the driver.          *)
(***************************************************************************)
EXTENDS C09_Env, Json
CONSTANTS Tier, Mode
VARIABLES tree, fuel

x == V("x")  y == V("y")  z == V("z")  bb == V("b")  uu == V("u")
ff == V("f") gg == V("g") tt == V("t") oo == V("o")
One == KI(1)  OneF == K(FltV(1, 1))  Two == KI(2)

LeavesQuick == { x, y, One, OneF }
LeavesMore  == { z, Two, K(BoolV(TRUE)), uu }
Leaves == IF Tier = "quick" THEN LeavesQuick ELSE LeavesQuick \cup LeavesMore

\* depth-1 composites: one per kind the flags talk about
D1C == { Call(ff, << x >>), CallKw(gg, << x >>, << KwArg("k1", y) >>),
         B("Sub", tt, x), Look(oo, "p"), CSE0(N("Sum", << x, y >>)) }
D1Quick == { N("Sum", << x, y >>), N("Product", << Two, x >>), B("Power", x, Two),
             B("Quotient", x, z) }
D1More == { N("Sum", << x, One, z >>), N("Sum", << x, OneF >>), N("Product", << x, y >>),
            B("FloorDiv", x, y), B("Remainder", x, Two), B("LShift", x, One), U("BitNot", x),
            N("BitXor", << x, z >>), Cmp(x, "<", y), U("LogNot", bb), N("LogOr", << bb, Cmp(x, "==", z) >>),
            IfE(bb, x, y), N("Min", << x, y >>), N("Tup", << x, y >>),
            Call(gg, << >>), Call(ff, << x, y >>), CallKw(ff, << >>, << KwArg("k2", x), KwArg("k1", y) >>),
            CallKw(ff, << >>, << KwArg("k1", y), KwArg("k2", x) >>),
            B("Sub", tt, N("Tup", << x, N("Slice", << y, NoneE, One >>) >>)),
            B("Sub", tt, N("Slice", << NoneE, x >>)), Look(oo, "q"),
            CSE(N("Sum", << x, y >>), "pre", "pymbolic_expr"), CSE0(N("Sum", << x, OneF >>)),
            CSE0(N("Sum", << x, One >>)), CSE0(CSE0(N("Product", << x, y >>))) }
D1 == IF Tier = "quick" THEN D1Quick ELSE D1Quick \cup D1More

\* a composite put at every position of every composite kind (depth 2, resp. 3)
Wrap(pos, c) ==
    CASE pos = 1 -> Call(c, << z >>)
      [] pos = 2 -> Call(gg, << z, c >>)
      [] pos = 3 -> CallKw(c, << >>, << KwArg("k1", z) >>)
      [] pos = 4 -> CallKw(ff, << c >>, << KwArg("k2", z) >>)
      [] pos = 5 -> CallKw(ff, << z >>, << KwArg("k2", c) >>)
      [] pos = 6 -> B("Sub", c, z)
      [] pos = 7 -> B("Sub", tt, c)
      [] pos = 8 -> Look(c, "q")
      [] pos = 9 -> CSE0(c)
D2C == { Wrap(pos, c) : pos \in 1..9, c \in D1C }
D3C == { Wrap(pos, c) : pos \in 1..9, c \in D2C }

HoleT(ty) == [t |-> "Hole", ty |-> ty]
A == HoleT("any")  L == HoleT("leaf")  C == HoleT("comp")  R == HoleT("rand")

PoolFor(ty) ==
    CASE ty = "any"  -> Leaves \cup D1C \cup D1
      [] ty = "leaf" -> Leaves
      [] ty = "comp" -> IF Tier = "quick" THEN D1C \cup D2C ELSE D1C \cup D2C \cup D3C

RECURSIVE FirstHoleTy(_)
FirstHoleTy(e) ==
    IF e.t = "Hole" THEN e.ty
    ELSE LET ks == Kids(e)
             RECURSIVE Go(_)
             Go(i) == IF i > Len(ks) THEN "" ELSE
                      LET r == FirstHoleTy(ks[i]) IN IF r # "" THEN r ELSE Go(i + 1)
         IN Go(1)

BinRootKinds == {"Quotient", "FloorDiv", "Remainder", "Power", "LShift", "RShift", "Sub"}
NaryRootKinds == {"Sum", "Product", "BitOr", "BitXor", "BitAnd", "LogOr", "LogAnd",
                  "Min", "Max", "Tup", "List"}

\* every node kind over one hole h (a composite chain: who is outermost?)
Over(h) ==
       { B(k, h, z) : k \in BinRootKinds } \cup { B(k, z, h) : k \in BinRootKinds }
  \cup { N(k, << z, h >>) : k \in NaryRootKinds }
  \cup { N("Slice", << h, NoneE, z >>), N("Slice", << NoneE, h >>), N("Slice", << h >>),
         B("Sub", tt, N("Slice", << z, h >>)), B("Sub", tt, N("Tup", << N("Slice", << h, NoneE >>), y >>)) }
  \cup { U(k, h) : k \in UnKinds }
  \cup { Cmp(h, "<", z), Cmp(z, "==", h) }
  \cup { IfE(h, z, y), IfE(bb, h, y), IfE(bb, z, h) }
  \cup { Call(h, << z >>), Call(ff, << z, h >>), Call(gg, << h >>),
         CallKw(h, << z >>, << KwArg("k2", y) >>), CallKw(gg, << h >>, << KwArg("k1", y) >>),
         CallKw(ff, << >>, << KwArg("k1", h) >>), CallKw(ff, << z >>, << KwArg("k2", y), KwArg("k1", h) >>) }
  \cup { Look(h, "p"), CSE0(h), CSE(h, "pre", "pymbolic_expr") }
  \cup { [t |-> "Subst", a |-> h, names |-> << "x" >>, c |-> << z >>],
         [t |-> "Subst", a |-> z, names |-> << "x" >>, c |-> << h >>],
         [t |-> "Deriv", a |-> h, names |-> << "x" >>] }

\* two independent holes: repeated subexpressions, shared / unshared CSEs, operand counts
Pairs ==
       { N(k, << A, A >>) : k \in {"Sum", "Product", "Tup", "List", "Min", "LogAnd"} }
  \cup { B(k, A, A) : k \in {"Power", "Quotient", "Sub"} }
  \cup { N("Sum", << CSE0(A), CSE0(A) >>), N("Product", << CSE0(A), CSE(A, "pre", "pymbolic_expr") >>),
         N("Sum", << CSE0(N("Product", << A, CSE0(A) >>)), y >>),
         Cmp(A, "==", A), IfE(A, A, x), Call(A, << A >>), CallKw(ff, << A >>, << KwArg("k1", A) >>),
         N("Sum", << A, x, A >>), N("Product", << A, A, y, x >>) }
Singles ==
       { N(k, << >>) : k \in NaryRootKinds \cup {"Slice"} }
  \cup { N(k, << A >>) : k \in NaryRootKinds }
  \cup { Call(ff, << >>), CallKw(gg, << >>, << >>), N("Tup", << N("List", << A >>), y >>),
         N("Sum", << L, L, L >>), N("Product", << L, L, L, L >>), N("Sum", << x, N("Sum", << L, L >>), L >>) }
  \cup Leaves \cup { ff, tt, oo }

Roots == Over(C) \cup Pairs \cup Singles

\* ---- Mode "rand": a random tree grown under -simulate ------------------------
\* (kept free of lists, see the driver's note on unhashable nodes)
Skeletons == { s \in Over(R) : s.t # "List" } \cup
             { N("Sum", << R, R >>), N("Product", << R, R, R >>), B("Power", R, R), B("Quotient", R, R),
               N("Sum", << CSE0(R), CSE0(R) >>), Call(R, << R, R >>), B("Sub", R, N("Tup", << R, R >>)),
               CallKw(R, << R >>, << KwArg("k2", R), KwArg("k1", R) >>), N("Tup", << R, R >>),
               IfE(R, R, R), CSE0(N("Sum", << R, R >>)) }
RandPool == IF fuel > 0 THEN Skeletons \cup Leaves \cup D1C ELSE Leaves \cup D1C \cup D1

Init == IF Mode = "meta" THEN tree = x /\ fuel = 0       \* prints environments and flags only
        ELSE IF Mode = "exh" THEN tree \in Roots /\ fuel = 0
        ELSE tree = R /\ fuel \in {3, 4, 5, 6}
Next == /\ NHoles(tree) > 0
        /\ IF Mode = "exh"
           THEN (\E s \in PoolFor(FirstHoleTy(tree)) : tree' = FillFirst(tree, s)) /\ fuel' = fuel
           ELSE (\E s \in RandPool : tree' = FillFirst(tree, s))
                /\ fuel' = (IF fuel > 0 THEN fuel - 1 ELSE 0)

Complete == NHoles(tree) = 0

\* ---- checked on the model ----------------------------------------------------
ImplRefinesMeaning ==
    Complete => /\ DepsImplRefines(tree)
                /\ NodeCountImplRefines(tree)
                /\ FlopsImplRefines(tree)
OracleSane == Complete => OracleLaws(tree)
EvalLemma == Complete => \A i \in 1..Len(Envs) : RestrictedEvalLemma(tree, Envs[i])

Emit == Complete => PrintT(ToJson([e |-> tree]))

ASSUME PrintT(ToJson([envs |-> Envs]))
ASSUME PrintT(ToJson([flags |-> RawSeq]))
=============================================================================
