------------------------------- MODULE C09_Gen -------------------------------
(***************************************************************************)
(* Stage (1) for C09.  TLC enumerates expression trees (root skeleton x    *)
(* typed holes filled left to right from the pools below; in Mode "rand"   *)
(* -simulate grows random deeper trees), checks ON THE MODEL, for every    *)
(* complete tree,                                                          *)
(*   - the transcribed DependencyMapper / NodeCountMapper / flop counters  *)
(*     (A-layer) equal the declarative meaning (M-layer) for all 72 flag   *)
(*     settings,                                                           *)
(*   - the oracle's own sanity laws,                                       *)
(*   - the restricted-environment lemma against Eval (spec/Eval.tla),      *)
(* and prints each complete tree as one JSON line for the driver.          *)
(***************************************************************************)
EXTENDS C09_Env, Json
CONSTANTS Tier, Mode
VARIABLES tree, fuel

x == V("x")  y == V("y")  z == V("z")  bb == V("b")  uu == V("u")
ff == V("f") gg == V("g") tt == V("t") oo == V("o")
One == KI(1)  OneF == K(FltV(1, 1))  Two == KI(2)

LeavesQuick == { x, y, One, OneF }
LeavesMore  == { z, Two, K(BoolV(TRUE)), uu }
Leaves == IF Tier = "quick" THEN LeavesQuick ELSE LeavesQuick \cup LeavesMore

\* depth-1 composites: one per kind the flags talk about
D1C == { Call(ff, << x >>), CallKw(gg, << x >>, << KwArg("k1", y) >>),
         B("Sub", tt, x), Look(oo, "p"), CSE0(N("Sum", << x, y >>)) }
D1Quick == { N("Sum", << x, y >>), N("Product", << Two, x >>), B("Power", x, Two),
             B("Quotient", x, z) }
D1More == { N("Sum", << x, One, z >>), N("Sum", << x, OneF >>), N("Product", << x, y >>),
            B("FloorDiv", x, y), B("Remainder", x, Two), B("LShift", x, One), U("BitNot", x),
            N("BitXor", << x, z >>), Cmp(x, "<", y), U("LogNot", bb), N("LogOr", << bb, Cmp(x, "==", z) >>),
            IfE(bb, x, y), N("Min", << x, y >>), N("Tup", << x, y >>),
            Call(gg, << >>), Call(ff, << x, y >>), CallKw(ff, << >>, << KwArg("k2", x), KwArg("k1", y) >>),
            CallKw(ff, << >>, << KwArg("k1", y), KwArg("k2", x) >>),
            B("Sub", tt, N("Tup", << x, N("Slice", << y, NoneE, One >>) >>)),
            B("Sub", tt, N("Slice", << NoneE, x >>)), Look(oo, "q"),
            CSE(N("Sum", << x, y >>), "pre", "pymbolic_expr"), CSE0(N("Sum", << x, OneF >>)),
            CSE0(N("Sum", << x, One >>)), CSE0(CSE0(N("Product", << x, y >>))) }
D1 == IF Tier = "quick" THEN D1Quick ELSE D1Quick \cup D1More

\* a composite put at every position of every composite kind (depth 2, resp. 3)
Wrap(pos, c) ==
    CASE pos = 1 -> Call(c, << z >>)
      [] pos = 2 -> Call(gg, << z, c >>)
      [] pos = 3 -> CallKw(c, << >>, << KwArg("k1", z) >>)
      [] pos = 4 -> CallKw(ff, << c >>, << KwArg("k2", z) >>)
      [] pos = 5 -> CallKw(ff, << z >>, << KwArg("k2", c) >>)
      [] pos = 6 -> B("Sub", c, z)
      [] pos = 7 -> B("Sub", tt, c)
      [] pos = 8 -> Look(c, "q")
      [] pos = 9 -> CSE0(c)
D2C == { Wrap(pos, c) : pos \in 1..9, c \in D1C }
D3C == { Wrap(pos, c) : pos \in 1..9, c \in D2C }

HoleT(ty) == [t |-> "Hole", ty |-> ty]
A == HoleT("any")  L == HoleT("leaf")  C == HoleT("comp")  Pr == HoleT("pair")

PoolFor(ty) ==
    CASE ty = "any"  -> Leaves \cup D1C \cup D1
      [] ty = "leaf" -> Leaves
      \* both holes of a Pairs root: quick keeps the product of the two pools small
      [] ty = "pair" -> IF Tier = "quick"
                        THEN Leaves \cup D1C \cup { N("Sum", << x, y >>), B("Power", x, Two) }
                        ELSE Leaves \cup D1C \cup D1
      [] ty = "comp" -> IF Tier = "quick" THEN D1C \cup D2C ELSE D1C \cup D2C \cup D3C

RECURSIVE FirstHoleTy(_)
FirstHoleTy(e) ==
    IF e.t = "Hole" THEN e.ty
    ELSE LET ks == Kids(e)
             RECURSIVE Go(_)
             Go(i) == IF i > Len(ks) THEN "" ELSE
                      LET r == FirstHoleTy(ks[i]) IN IF r # "" THEN r ELSE Go(i + 1)
         IN Go(1)

BinRootKinds == {"Quotient", "FloorDiv", "Remainder", "Power", "LShift", "RShift", "Sub"}
NaryRootKinds == {"Sum", "Product", "BitOr", "BitXor", "BitAnd", "LogOr", "LogAnd",
                  "Min", "Max", "Tup", "List"}

\* every node kind over one hole h (a composite chain: who is outermost?)
Over(h) ==
       { B(k, h, z) : k \in BinRootKinds } \cup { B(k, z, h) : k \in BinRootKinds }
  \cup { N(k, << z, h >>) : k \in NaryRootKinds }
  \cup { N("Slice", << h, NoneE, z >>), N("Slice", << NoneE, h >>), N("Slice", << h >>),
         B("Sub", tt, N("Slice", << z, h >>)), B("Sub", tt, N("Tup", << N("Slice", << h, NoneE >>), y >>)) }
  \cup { U(k, h) : k \in UnKinds }
  \cup { Cmp(h, "<", z), Cmp(z, "==", h) }
  \cup { IfE(h, z, y), IfE(bb, h, y), IfE(bb, z, h) }
  \cup { Call(h, << z >>), Call(ff, << z, h >>), Call(gg, << h >>),
         CallKw(h, << z >>, << KwArg("k2", y) >>), CallKw(gg, << h >>, << KwArg("k1", y) >>),
         CallKw(ff, << >>, << KwArg("k1", h) >>), CallKw(ff, << z >>, << KwArg("k2", y), KwArg("k1", h) >>) }
  \cup { Look(h, "p"), CSE0(h), CSE(h, "pre", "pymbolic_expr") }
  \cup { [t |-> "Subst", a |-> h, names |-> << "x" >>, c |-> << z >>],
         [t |-> "Subst", a |-> z, names |-> << "x" >>, c |-> << h >>],
         [t |-> "Deriv", a |-> h, names |-> << "x" >>] }

\* two independent holes: repeated subexpressions, shared / unshared CSEs, operand counts
Pairs ==
       { N(k, << Pr, Pr >>) : k \in (IF Tier = "quick" THEN {"Sum", "Product", "Tup"}
                                   ELSE {"Sum", "Product", "Tup", "List", "Min", "LogAnd"}) }
  \cup { B(k, Pr, Pr) : k \in (IF Tier = "quick" THEN {"Power", "Sub"} ELSE {"Power", "Quotient", "Sub"}) }
  \cup { N("Sum", << CSE0(Pr), CSE0(Pr) >>), N("Product", << CSE0(Pr), CSE(Pr, "pre", "pymbolic_expr") >>),
         N("Sum", << CSE0(N("Product", << Pr, CSE0(Pr) >>)), y >>),
         Cmp(Pr, "==", Pr), IfE(Pr, Pr, x), Call(Pr, << Pr >>), CallKw(ff, << Pr >>, << KwArg("k1", Pr) >>),
         N("Sum", << Pr, x, Pr >>), N("Product", << Pr, Pr, y, x >>) }
Singles ==
       { N(k, << >>) : k \in NaryRootKinds \cup {"Slice"} }
  \cup { N(k, << A >>) : k \in NaryRootKinds }
  \cup { Call(ff, << >>), CallKw(gg, << >>, << >>), N("Tup", << N("List", << A >>), y >>),
         N("Sum", << L, L, L >>), N("Product", << L, L, x, L >>), N("Sum", << x, N("Sum", << L, L >>), L >>) }
  \cup Leaves \cup { ff, tt, oo }
\* the leaf classes that are neither variables nor constants
Exotics == { XLeaf(k) : k \in ExoticKinds }
ExoticRoots == Exotics \cup { N("Sum", << x, l >>) : l \in Exotics }
               \cup { Call(l, << x >>) : l \in Exotics } \cup { B("Sub", tt, l) : l \in Exotics }
               \cup { CSE0(B("Power", l, y)) : l \in Exotics } \cup { Look(l, "p") : l \in Exotics }

\* operands whose Python truth value is False (zero constants, a product with a zero factor,
\* a quotient with a zero numerator, a one-term sum of zero): an analysis that tests an optional
\* child with its truth value instead of "is not None" loses exactly these
Falsy == { KI(0), K(FltV(0, 1)), K(BoolV(FALSE)), N("Product", << KI(0), y >>),
           B("Quotient", KI(0), y), N("Sum", << KI(0) >>) }
FalsyRoots == UNION { { N("Slice", << f, x, NoneE >>), N("Slice", << x, f >>), N("Slice", << NoneE, x, f >>),
                        N("Slice", << f >>), B("Sub", tt, N("Slice", << f, x >>)),
                        B("Sub", tt, N("Tup", << N("Slice", << NoneE, f >>), x >>)),
                        N("Sum", << f, x >>), Call(ff, << f >>), IfE(f, x, y), CSE0(f), B("Sub", tt, f),
                        B("Power", x, f), Look(f, "p") } : f \in Falsy }

Roots == Over(C) \cup Pairs \cup Singles \cup ExoticRoots \cup FalsyRoots

\* ---- Mode "rand": random deeper trees under -simulate ---------------------------
\* Grown bottom-up (every state is a complete tree, every state of a behaviour is a
\* case): a random node kind is put on top of the current tree and one or two random
\* small trees - or the current tree once more, which gives repeated subexpressions
\* and shared CSEs.  (Expr.tla's NHoles / FillFirst are exponential in the depth,
\* so holes are not used here.)  Kept free of lists, see the driver's note.
SmallPool == Leaves \cup D1C \cup (D1 \ { N("List", << x >>) })
NSk == 26
Arity(i) == CASE i \in {6, 11, 12, 13, 18} -> 1
              [] i \in {2, 5, 7, 10, 15} -> 3
              [] OTHER -> 2
Sk(i, a, b, c) ==
    CASE i = 1  -> N("Sum", << a, b >>)
      [] i = 2  -> N("Product", << a, b, c >>)
      [] i = 3  -> B("Power", a, b)
      [] i = 4  -> B("Quotient", a, b)
      [] i = 5  -> Call(a, << b, c >>)
      [] i = 6  -> Call(ff, << a >>)
      [] i = 7  -> CallKw(a, << b >>, << KwArg("k2", c) >>)
      [] i = 8  -> CallKw(gg, << >>, << KwArg("k1", a), KwArg("k2", b) >>)
      [] i = 9  -> B("Sub", a, b)
      [] i = 10 -> B("Sub", tt, N("Tup", << a, N("Slice", << b, NoneE, c >>) >>))
      [] i = 11 -> Look(a, "p")
      [] i = 12 -> CSE0(a)
      [] i = 13 -> CSE(a, "pre", "pymbolic_expr")
      [] i = 14 -> N("Sum", << CSE0(a), CSE0(b) >>)
      [] i = 15 -> IfE(a, b, c)
      [] i = 16 -> Cmp(a, "<", b)
      [] i = 17 -> N("LogAnd", << a, b >>)
      [] i = 18 -> U("BitNot", a)
      [] i = 19 -> N("Min", << a, b >>)
      [] i = 20 -> B("FloorDiv", a, b)
      [] i = 21 -> B("LShift", a, b)
      [] i = 22 -> N("Tup", << a, b >>)
      [] i = 23 -> N("BitOr", << a, b >>)
      [] i = 24 -> CSE0(N("Product", << a, CSE0(b) >>))
      [] i = 25 -> Call(gg, << a, b >>)
      [] i = 26 -> B("Sub", a, N("Slice", << NoneE, b >>))
RandNext ==      \* (bound variables, not LET: every mention of a LET name would draw again)
    \E i \in { RandomElement(1..NSk) } :
    \E pos \in { RandomElement(1..Arity(i)) } :
    \E o1 \in { RandomElement(SmallPool \cup { tree }) } :
    \E o2 \in { RandomElement(SmallPool \cup { tree }) } :
        tree' = CASE pos = 1 -> Sk(i, tree, o1, o2)
                  [] pos = 2 -> Sk(i, o1, tree, o2)
                  [] pos = 3 -> Sk(i, o1, o2, tree)

Init == IF Mode = "meta" THEN tree = x /\ fuel = 0       \* prints environments and flags only
        ELSE IF Mode = "exh" THEN tree \in Roots /\ fuel = 0
        ELSE tree \in { x, One, Call(ff, << x >>), Look(oo, "p"), B("Sub", tt, x), CSE0(N("Sum", << x, y >>)) }
             /\ fuel = 0
Next == IF Mode = "rand"
        THEN Cardinality(Paths(tree)) < 60 /\ RandNext /\ fuel' = fuel
        ELSE /\ NHoles(tree) > 0
             /\ (\E s \in PoolFor(FirstHoleTy(tree)) : tree' = FillFirst(tree, s)) /\ fuel' = fuel

Complete == Mode = "rand" \/ NHoles(tree) = 0

\* ---- checked on the model ----------------------------------------------------
ImplRefinesMeaning ==
    Complete => /\ DepsImplRefines(tree)
                /\ NodeCountImplRefines(tree)
                /\ FlopsImplRefines(tree)
OracleSane == Complete => OracleLaws(tree)
EvalLemma == Complete => \A i \in 1..Len(Envs) : RestrictedEvalLemma(tree, Envs[i])

Emit == Complete => PrintT(ToJson([e |-> tree]))

ASSUME FlagInitAgree
\* negative controls (the same seeded bugs as the C09_Neg_*.cfg runs of the thorough tier)
ASSUME NegControls /\ PrintT(ToJson([negcontrols |-> Cardinality(NegBugs)]))
ASSUME PrintT(ToJson([envs |-> Envs]))
ASSUME PrintT(ToJson([flags |-> RawSeq]))
=============================================================================
