CONSTANT Tier = "tiny"
CONSTANT Buggy = "NoMemo"
INIT Init
NEXT Next
INVARIANT OncePerChild
CHECK_DEADLOCK FALSE
