CONSTANT Tier = "quick"
CONSTANT Kinds = {"bilin"}
CONSTANT MaxN = 2
CONSTANT Bug = "no_prune"
INIT Init
NEXT Next
INVARIANT ModelHolds
CHECK_DEADLOCK FALSE
