------------------------------- MODULE BigEval -------------------------------
(***************************************************************************)
(* Exact meaning of the integer fragment of the expression language on     *)
(* BigNum values (beyond TLC's 32-bit arithmetic): sums, products, powers   *)
(* with constant exponents, floor division, remainder, shifts by constants, *)
(* min/max, comparisons, conditionals.  Shared by the large-value families  *)
(* of C02 (evaluation) and C15 (affine solving).                            *)
(***************************************************************************)
EXTENDS Expr, BigNum

\* meaning of the +,-,*,min,max,if,compare part: a value record [k |-> "big", v] / [k |-> "bool", b] /
\* [k |-> "err", e] / [k |-> "rel", ...] for the relational operators at the root
BigV(x) == [k |-> "big", v |-> x]
BoolB(b) == [k |-> "bool", b |-> b]
ErrB(e) == [k |-> "err", e |-> e]
IsBig(v) == v.k = "big"
RECURSIVE BEval(_, _)
FoldB(op(_, _), init, vs) ==
    LET RECURSIVE Go(_, _)
        Go(acc, i) == IF i > Len(vs) THEN acc
                      ELSE IF ~IsBig(vs[i]) THEN vs[i] ELSE IF ~IsBig(acc) THEN acc
                      ELSE Go(BigV(op(acc.v, vs[i].v)), i + 1)
    IN Go(init, 1)
Extreme(isMin, vs) ==
    LET RECURSIVE Go(_, _)
        Go(best, i) == IF i > Len(vs) THEN best
                       ELSE IF ~IsBig(vs[i]) THEN vs[i]
                       ELSE LET c == BigCmp(vs[i].v, best.v) IN
                            Go(IF (isMin /\ c < 0) \/ (~isMin /\ c > 0) THEN vs[i] ELSE best, i + 1)
    IN IF ~IsBig(vs[1]) THEN vs[1] ELSE Go(vs[1], 2)
CmpB(op, x, y) == LET c == BigCmp(x, y) IN
    CASE op = "<" -> c < 0 [] op = "<=" -> c <= 0 [] op = ">" -> c > 0 [] op = ">=" -> c >= 0
      [] op = "==" -> c = 0 [] op = "!=" -> c # 0
BEval(e, env) ==
    CASE e.t = "Var" -> BigV(env[e.name])
      [] e.t = "Const" -> BigV(FromInt(e.v.n))
      [] e.t = "BigConst" -> BigV(e.v)          \* an integer constant given by its limbs
      [] e.t = "Sum" -> FoldB(BigAdd, BigV(BZero), [i \in 1..Len(e.c) |-> BEval(e.c[i], env)])
      [] e.t = "Product" -> FoldB(BigMul, BigV(FromInt(1)), [i \in 1..Len(e.c) |-> BEval(e.c[i], env)])
      [] e.t = "Power" -> LET a == BEval(e.a, env) IN IF IsBig(a) THEN BigV(BigPow(a.v, e.b.v.n)) ELSE a   \* constant exponents >= 0
      [] e.t \in {"FloorDiv", "Remainder", "RShift"} ->
            LET a == BEval(e.a, env)
                b == IF e.t = "RShift" THEN BigV(FromInt(2 ^ e.b.v.n)) ELSE BEval(e.b, env) IN
            IF ~IsBig(a) THEN a ELSE IF ~IsBig(b) THEN b
            ELSE IF b.v.s = 0 THEN ErrB("ZeroDivisionError")
            ELSE LET x == BigDivMod(a.v, b.v) IN BigV(IF e.t = "Remainder" THEN x.r ELSE x.q)
      [] e.t = "LShift" -> LET a == BEval(e.a, env) IN IF IsBig(a) THEN BigV(BigMul(a.v, FromInt(2 ^ e.b.v.n))) ELSE a
      [] e.t \in {"Max", "Min"} -> Extreme(e.t = "Min", [i \in 1..Len(e.c) |-> BEval(e.c[i], env)])
      [] e.t = "Cmp" -> LET a == BEval(e.a, env) b == BEval(e.b, env) IN
                        IF ~IsBig(a) THEN a ELSE IF ~IsBig(b) THEN b ELSE BoolB(CmpB(e.op, a.v, b.v))
      [] e.t = "If" -> LET c == BEval(e.i, env) IN
                       IF c.k # "bool" THEN c ELSE IF c.b THEN BEval(e.th, env) ELSE BEval(e.el, env)
      [] OTHER -> ErrB("not-in-fragment")

=============================================================================
