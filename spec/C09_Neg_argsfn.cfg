CONSTANT Bug = "argsfn"
INIT Init
NEXT Next
INVARIANT NegRefines
CHECK_DEADLOCK FALSE
