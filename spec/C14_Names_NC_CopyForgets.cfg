CONSTANT Tier = "tiny"
CONSTANT Buggy = "CopyForgets"
INIT Init
NEXT Next
INVARIANT OncePerChild
CHECK_DEADLOCK FALSE
