----------------------------- MODULE C15_Linear -----------------------------
(***************************************************************************)
(* C15 - linear-form extraction and affine solving are exact.  M-layer     *)
(* only, on top of Poly!NF:                                                *)
(*   IsAffine(e, T)      degree <= 1 in the target atoms T, none of them   *)
(*                       in a denominator                                  *)
(*   Reconstructs(..)    sum coeff*key + const has the same normal form    *)
(*   Satisfies(..)       every equation holds identically after            *)
(*                       substituting the returned assignments             *)
(*   Det2 / Unique       determinant of the true 2x2 system                *)
(***************************************************************************)
EXTENDS Poly

\* atoms (Poly!AtomNames): 1 x, 2 y, 3 z, 4 p, 5 a[0], 6 a[1]
TargetAtoms(names) == { i \in 1..Len(AtomNames) : AtomNames[i] \in names }

TermDegIn(t, T) == LET RECURSIVE Go(_) Go(i) == IF i > NAtoms THEN 0
                                               ELSE (IF i \in T THEN t.e[i] ELSE 0) + Go(i + 1)
                   IN Go(1)
PFreeOf(p, T) == \A t \in p.ts : TermDegIn(t, T) = 0
IsAffine(e, T) ==
    LET r == NF(e) IN
    IF ~ROk(r) THEN "NA"
    ELSE IF ~PFreeOf(r.den, T) THEN "NO"
    ELSE IF \A t \in r.num.ts : TermDegIn(t, T) <= 1 THEN "YES" ELSE "NO"

RECURSIVE DependsOn(_, _)
DependsOn(e, T) == (AtomIx(e) > 0 /\ AtomIx(e) \in T)
                   \/ (AtomIx(e) = 0 /\ \E i \in 1..Len(Kids(e)) : DependsOn(Kids(e)[i], T))
\* syntactically affine: the collector has no excuse to refuse
RECURSIVE ObviouslyAffine(_, _)
ObviouslyAffine(e, T) ==
    IF AtomIx(e) > 0 THEN TRUE
    ELSE CASE e.t = "Const" -> TRUE
           [] e.t = "Sum" -> \A i \in 1..Len(e.c) : ObviouslyAffine(e.c[i], T)
           [] e.t = "Product" ->
                 /\ Cardinality({ i \in 1..Len(e.c) : DependsOn(e.c[i], T) }) <= 1
                 /\ \A i \in 1..Len(e.c) : ObviouslyAffine(e.c[i], T)
           [] e.t = "Quotient" -> ~DependsOn(e.b, T) /\ ObviouslyAffine(e.a, T)
           [] e.t = "Power" -> ~DependsOn(e.a, T) /\ ~DependsOn(e.b, T)
           [] OTHER -> FALSE

\* coeffs: sequence of [key |-> tree (Const 1 for the constant term), coeff |-> tree]
Reconstruct(coeffs) ==
    LET RECURSIVE Go(_, _)
        Go(i, acc) == IF i > Len(coeffs) THEN acc
                      ELSE Go(i + 1, RAdd(acc, RMul(NF(coeffs[i].coeff), NF(coeffs[i].key))))
    IN Go(1, RConst(0, 1))

\* Outside the rational fragment the normal form says nothing ("NA").  One class is decided
\* syntactically all the same: a target in the EXPONENT of a power with a target-free base other
\* than 0 and 1, standing alone or as the one such term / factor / numerator of an otherwise
\* target-free sum / product / quotient, is not affine in that target (b**x is no polynomial in x).
IsKI(e, n) == e.t = "Const" /\ IsNum(e.v) /\ e.v.n = n /\ e.v.d = 1
RECURSIVE ExpSpoils(_, _)
ExpSpoils(e, T) ==
    CASE e.t = "Power" -> DependsOn(e.b, T) /\ ~DependsOn(e.a, T) /\ ~IsKI(e.a, 0) /\ ~IsKI(e.a, 1)
      [] e.t \in {"Sum", "Product"} ->
            /\ Cardinality({ i \in 1..Len(e.c) : ExpSpoils(e.c[i], T) }) = 1
            /\ \A i \in 1..Len(e.c) : ExpSpoils(e.c[i], T) \/ ~DependsOn(e.c[i], T)
            /\ (e.t = "Product" => \A i \in 1..Len(e.c) : ~IsKI(e.c[i], 0))
      [] e.t = "Quotient" -> ExpSpoils(e.a, T) /\ ~DependsOn(e.b, T)
      [] OTHER -> FALSE

\* "free of those variables", decided on the returned trees themselves (also outside the rational
\* fragment): a target variable may not occur in a coefficient or in the constant term.  Where it
\* occurs only INSIDE an opaque leaf (f(x), a[x], o.x.. kept whole as a constant) the clause has its
\* own name.
RECURSIVE MentionsOutside(_, _)
MentionsOutside(e, names) ==
    IF e.t \in {"Call", "CallKw", "Sub", "Look"} THEN FALSE
    ELSE IF e.t = "Var" THEN e.name \in names
    ELSE \E i \in 1..Len(Kids(e)) : MentionsOutside(Kids(e)[i], names)
MentionsVar(e, names) == \E s \in SubExprs(e) : s.t = "Var" /\ s.name \in names

JudgeCoeffs(e, names, allTargets, res) ==
    LET T == IF allTargets THEN { i \in 1..NAtoms : TRUE } ELSE TargetAtoms(names)
        aff0 == IsAffine(e, T)
        aff == IF aff0 = "NA" /\ ExpSpoils(e, T) THEN "NO" ELSE aff0
    IN IF res.r = "unser" THEN "SKIP"
       ELSE IF res.r = "ok" /\ ~allTargets /\ \E i \in 1..Len(res.coeffs) : MentionsOutside(res.coeffs[i].coeff, names)
            THEN "coefficient-mentions-target"
       ELSE IF res.r = "ok" /\ ~allTargets /\ \E i \in 1..Len(res.coeffs) : MentionsVar(res.coeffs[i].coeff, names)
            THEN "target-inside-opaque-leaf-kept-as-constant"
       ELSE IF aff = "NA" THEN "SKIP"
       ELSE IF res.r = "err" THEN
            (IF aff = "NO" THEN "OK"
             ELSE IF ObviouslyAffine(e, T) THEN "refuses-affine-input" ELSE "SKIP")
       ELSE IF aff = "NO" THEN "coefficients-for-non-affine-input"
       ELSE IF \E i \in 1..Len(res.coeffs) :
                   ~(res.coeffs[i].key.t = "Const") /\ DependsOn(res.coeffs[i].coeff, T)
            THEN "coefficient-mentions-target"
       ELSE IF \E i \in 1..Len(res.coeffs) :
                   res.coeffs[i].key.t = "Const" /\ DependsOn(res.coeffs[i].coeff, T)
            THEN "constant-term-mentions-target"
       ELSE LET q == REq(Reconstruct(res.coeffs), NF(e)) IN
            IF q = "EQ" THEN "OK" ELSE IF q = "NE" THEN "coefficients-do-not-reproduce-input" ELSE "SKIP"

\* ---- affine systems ---------------------------------------------------------
\* an equation is [a1, a2, r1, l, b, c]:  a1*x + a2*y + l*p  =  r1*x + b*p + c
x == V("x")  y == V("y")  pp == V("p")
TermOf(k, v) == IF k = 1 THEN v ELSE N("Product", << KI(k), v >>)
SumOf(ts) == IF Len(ts) = 0 THEN KI(0) ELSE IF Len(ts) = 1 THEN ts[1] ELSE N("Sum", ts)
Opt(k, v) == IF k = 0 THEN << >> ELSE << TermOf(k, v) >>
Lhs(q) == SumOf(Opt(q.a1, x) \o Opt(q.a2, y) \o Opt(q.l, pp))
Rhs(q) == SumOf(Opt(q.r1, x) \o Opt(q.b, pp) \o (IF q.c = 0 THEN << >> ELSE << KI(q.c) >>))
\* The parameter of a system is an opaque leaf that is not an unknown: a variable of another name,
\* an attribute access whose ATTRIBUTE is spelt like an unknown (o.x is not x), a subscript, a
\* variable whose name merely starts like an unknown.  The meaning of the system does not depend
\* on which: the equations are stated over p and the chosen form is written in its place
\* (InPar); in what the solver returned the form is read back as p (OutPar).
ParForms == << pp, Look(V("o"), "x"), Look(V("o"), "y"), B("Sub", V("a"), KI(0)), V("xy") >>
RECURSIVE Repl(_, _, _)
Repl(e, from, to) ==
    IF e = from THEN to ELSE WithKids(e, [i \in 1..Len(Kids(e)) |-> Repl(Kids(e)[i], from, to)])
InPar(e, par) == IF par = pp THEN e ELSE Repl(e, pp, par)
OutPar(e, par) == IF par = pp THEN e ELSE Repl(e, par, pp)
Det2(q1, q2) == (q1.a1 - q1.r1) * q2.a2 - q1.a2 * (q2.a1 - q2.r1)

RECURSIVE SubstVars(_, _)
\* sol: sequence of [name, e]
SubstVars(e, sol) ==
    IF e.t = "Var" /\ \E i \in 1..Len(sol) : sol[i].name = e.name
    THEN sol[CHOOSE i \in 1..Len(sol) : sol[i].name = e.name].e
    ELSE WithKids(e, [i \in 1..Len(Kids(e)) |-> SubstVars(Kids(e)[i], sol)])

JudgeSolve(eqs, unknowns, res0, par) ==
    \* one equation for the two unknowns is under-determined: like a singular 2x2 system it
    \* determines no unique values
    \* (of three or four equations, two with a non-zero determinant determine the values; the third either
    \* follows - then the solution satisfies it - or contradicts them - then nothing satisfies all)
    LET det == IF Len(eqs) = 2 THEN Det2(eqs[1], eqs[2])
               ELSE IF Len(eqs) >= 3 /\ \E i, j \in 1..Len(eqs) : i < j /\ Det2(eqs[i], eqs[j]) # 0 THEN 1
               ELSE 0
        res == IF res0.r = "ok"
               THEN [res0 EXCEPT !.sol = [i \in 1..Len(res0.sol) |->
                                           [name |-> res0.sol[i].name, e |-> OutPar(res0.sol[i].e, par)]]]
               ELSE res0 IN
    IF res.r = "unser" THEN "SKIP"
    ELSE IF res.r = "err" THEN "REFUSED"
    ELSE IF \E i \in 1..Len(unknowns) : ~\E j \in 1..Len(res.sol) : res.sol[j].name = unknowns[i]
         THEN "unknown-without-assignment"
    \* a singular system determines no unique values: it must be refused
    ELSE IF det = 0 THEN "accepted-singular-system"
    ELSE LET bad(i) == REq(NF(SubstVars(Lhs(eqs[i]), res.sol)), NF(SubstVars(Rhs(eqs[i]), res.sol)))
         IN IF \E i \in 1..Len(eqs) : bad(i) = "NE" THEN "solution-does-not-satisfy-equations"
            ELSE IF \E i \in 1..Len(eqs) : bad(i) = "NA" THEN "SKIP"
            ELSE "OK"
=============================================================================
