------------------------------- MODULE C14_Gen -------------------------------
(***************************************************************************)
(* Stage (1) for the value half of C14: TLC enumerates every tree of the   *)
(* bounded C-expressible space (root kind x typed holes filled left to     *)
(* right from the pools below) in the two fragments                        *)
(*     "int": long variables, // % << >> & | ^ ~, comparisons, logic, ?:   *)
(*     "flt": double variables with dyadic values, + - *, / by powers of   *)
(*            two, pow with small exponents                                *)
(* checks the fragment definition against the meaning (every emitted tree  *)
(* is typable, and has a numeric meaning in at least one environment, so   *)
(* no emitted case is vacuous) and prints each complete tree as one JSON   *)
(* line for the driver.  In -simulate mode (thorough tier) the same Next   *)
(* grows random deeper trees: the "any" pool then also offers skeletons    *)
(* with holes as long as the tree is small.                                *)
(*                                                                         *)
(* Round 3.  (i) The representation of the constants is an input dimension *)
(* (C14_CSem!Reps): once a tree is complete, a further step re-emits it    *)
(* with its int / float constants as numpy scalars -- same model value,    *)
(* same verdict rule, another object for the printer.  (ii) x**1 is        *)
(* printed as its base: an explicit Power(_, 1) node is a transparent      *)
(* wrapper that hides the base's node kind from its parent; the "w1" hole  *)
(* puts such a wrapper around every depth-1 composite in every operand     *)
(* position of every operator.                                             *)
(*                                                                         *)
(* Round 4.  Degenerate arities are legal inputs (the evaluator and every  *)
(* mapper accept them, Eval gives them a meaning: the fold over one        *)
(* operand).  A ONE-child Sum / Product (bitwise n-ary kinds as well in    *)
(* the wider tiers) is, like x**1, a node of its own kind between a parent *)
(* and the composite that ends up in the text: the "w2" hole offers every  *)
(* such wrapper around every depth-1 composite, and WRoots puts a wrapper  *)
(* hole in every operand position of every operator (quick: the other      *)
(* operand is the variable x, wider tiers: the leaf2 pool).  The           *)
(* simulation also grows one-child nodes at any depth.  The one-factor     *)
(* product of                                                              *)
(* the number -1 (DegLeaves) is offered wherever a leaf or composite is    *)
(* ("any" pool): it is the subtraction idiom a + -1*b with nothing left    *)
(* to subtract.  Sum(()) / Product(()) stay outside: CTy = "bad" (no C     *)
(* operator, no operand whose type the translation could have).            *)
(***************************************************************************)
EXTENDS C14_CModel, Json
CONSTANT Tier          \* "quick" | "thorough" | "sim"
VARIABLES tree, frag, rep

x == V("x")  y == V("y")  z == V("z")
ff == V("f") gg == V("g") tt == V("t") oo == V("o")
M1 == KI(-1)
Half == K(FltV(1, 2))
CP(a, p) == CSE(a, p, "pymbolic_eval")

HoleT(ty) == [t |-> "Hole", ty |-> ty]
A == HoleT("any")  L == HoleT("leaf")  Cn == HoleT("cond")  Ex == HoleT("exp")
P2 == HoleT("pow2") L2 == HoleT("leaf2")
W1 == HoleT("w1")
W2 == HoleT("w2")  L1 == HoleT("leaf1")

\* ---- integer fragment ---------------------------------------------------
IntLeaves == { x, y, z, KI(2), M1 }
IntD1Quick == {
  N("Sum", << x, y >>),
  N("Sum", << x, N("Product", << M1, y >>) >>),                        \* x - y
  N("Sum", << N("Product", << M1, x >>), N("Product", << M1, y >>) >>), \* - x - y
  N("Sum", << z, N("Product", << M1, y, x >>) >>),                     \* z - y*x
  N("Product", << x, y >>), N("Product", << M1, z >>),
  B("FloorDiv", x, y), B("FloorDiv", z, KI(2)),
  B("Remainder", x, y), B("Remainder", x, KI(2)),
  B("Power", x, KI(2)), B("Power", y, KI(3)),
  B("LShift", x, KI(1)), B("RShift", x, y),
  N("BitOr", << x, y >>), N("BitXor", << x, z >>), N("BitAnd", << x, y >>),
  U("BitNot", x),
  Cmp(x, "<", y), Cmp(x, "==", z), U("LogNot", z),
  N("LogOr", << x, z >>), N("LogAnd", << y, z >>),
  IfE(z, x, y),
  Call(ff, << x, y >>), Call(gg, << z >>),
  B("Sub", tt, KI(1)), Look(oo, "p"),
  CSE0(N("Sum", << x, KI(2) >>)), CP(N("Product", << x, y >>), "u") }
IntD1More == {
  N("Sum", << x, KI(2), z >>), N("Sum", << M1, x >>), N("Product", << KI(2), x, y >>),
  N("Sum", << x, N("Product", << M1, N("Sum", << y, z >>) >>) >>),     \* x - (y + z)
  B("FloorDiv", N("Product", << x, y >>), z), B("Remainder", z, y),
  B("Power", x, y), B("Power", z, KI(1)), B("Power", y, KI(0)),
  B("LShift", KI(2), z), B("RShift", z, KI(1)),
  Cmp(y, ">=", z), Cmp(x, "!=", y), Cmp(z, "<=", x), Cmp(y, ">", x),
  N("BitOr", << x, y, z >>), U("BitNot", M1), U("LogNot", Cmp(x, "<", y)),
  IfE(Cmp(z, "==", KI(0)), KI(2), B("FloorDiv", x, z)),
  Call(ff, << z, x >>), B("Sub", tt, y),
  CP(N("Sum", << x, N("Product", << M1, y >>) >>), "v") }
IntD1 == IF Tier = "quick" THEN IntD1Quick ELSE IntD1Quick \cup IntD1More

\* ---- exact-float fragment -----------------------------------------------
FltLeaves == { x, y, z, K(FltV(3, 2)), KI(2), K(FltV(-1, 2)) }
FltD1Quick == {
  N("Sum", << x, y >>), N("Sum", << x, N("Product", << M1, y >>) >>),
  N("Sum", << N("Product", << M1, x >>), N("Product", << M1, y >>) >>),
  N("Product", << x, y >>), N("Product", << KI(2), z >>),
  B("Quotient", x, z), B("Quotient", y, KI(2)), B("Quotient", KI(1), z),
  B("Power", x, KI(2)), B("Power", y, KI(3)), B("Power", z, M1),
  Cmp(x, "<", y), U("LogNot", x), N("LogAnd", << x, y >>),
  IfE(Cmp(x, "<", y), x, y),
  Call(ff, << x, y >>), Call(gg, << z >>),
  CSE0(N("Sum", << x, Half >>)), CP(N("Product", << x, y >>), "u") }
FltD1More == {
  N("Sum", << x, Half, z >>), N("Product", << M1, x >>), N("Product", << x, y, z >>),
  N("Sum", << x, N("Product", << M1, N("Sum", << y, z >>) >>) >>),
  B("Quotient", N("Sum", << x, y >>), K(FltV(1, 4))), B("Quotient", x, y),
  B("Power", x, y), B("Power", z, KI(-2)), B("Power", x, KI(1)),
  Cmp(x, "==", y), Cmp(y, ">=", z), N("LogOr", << x, z >>),
  B("Sub", tt, KI(2)), Look(oo, "p"),
  CP(B("Quotient", x, z), "v") }
FltD1 == IF Tier = "quick" THEN FltD1Quick ELSE FltD1Quick \cup FltD1More

\* skeletons offered to the "any" pool in simulation mode (trees grow)
SimSkel(fr) ==
    { N("Sum", << A, A >>), N("Product", << A, A >>), N("Sum", << A, N("Product", << M1, A >>) >>),
      Cmp(A, "<", A), IfE(Cn, A, A), CSE0(A), CP(A, "u"), Call(ff, << A, A >>),
      B("Power", A, Ex), N("LogAnd", << A, A >>), U("LogNot", A),
      N("Sum", << A >>), N("Product", << A >>) }        \* one-child nodes at any depth
    \cup (IF fr = "int"
          THEN { B("FloorDiv", A, A), B("Remainder", A, A), N("BitAnd", << A, A >>),
                 N("BitOr", << A, A >>), N("BitXor", << A, A >>), U("BitNot", A),
                 B("LShift", A, L2), B("RShift", A, L2), Cmp(A, "==", A), N("LogOr", << A, A >>) }
          ELSE { B("Quotient", A, P2), N("Product", << A, A, A >>) })

Leaves(fr) == IF fr = "int" THEN IntLeaves ELSE FltLeaves
D1(fr) == IF fr = "int" THEN IntD1 ELSE FltD1
\* degenerate leaves: a composite node kind over one constant operand
DegLeaves == { N("Product", << M1 >>) }
\* the n-ary kinds whose ONE-child node has a C translation (the fold over one operand is
\* the operand; a 1-ary && / || is outside the fragment, C14_CSem!CTy)
WrapKinds(fr) == IF Tier = "quick" \/ fr = "flt" THEN {"Sum", "Product"}
                 ELSE {"Sum", "Product", "BitOr", "BitXor", "BitAnd"}
\* the nodes that stand between a parent and a composite without adding an operator of
\* their own: x**1 and the one-child n-ary nodes
OneChild(s, fr) == { N(k, << s >>) : k \in WrapKinds(fr) }
Leaf2(fr) == IF fr = "int" THEN { x, KI(2), KI(1) } ELSE { x, KI(2), Half }

PoolFor(ty, fr, small) ==
    CASE ty = "any"  -> Leaves(fr) \cup D1(fr) \cup DegLeaves \cup (IF Tier = "sim" /\ small THEN SimSkel(fr) ELSE {})
      [] ty = "leaf" -> Leaves(fr)
      [] ty = "leaf2" -> Leaf2(fr)
      \* the other operand next to a one-child wrapper: quick keeps the variable
      [] ty = "leaf1" -> IF Tier = "quick" THEN { x } ELSE Leaf2(fr)
      [] ty = "cond" -> { x, z, Cmp(x, "<", y), Cmp(z, "==", KI(0)), U("LogNot", y) }
      [] ty = "exp"  -> IF fr = "int" THEN { KI(0), KI(1), KI(2), KI(3), y }
                        ELSE { KI(0), KI(1), KI(2), KI(3), M1, KI(-2) }
      \* divisors that are exact powers of two in every float environment
      \* x**1 around every depth-1 composite (printed as the composite itself)
      [] ty = "w1"   -> { B("Power", s, KI(1)) : s \in D1(fr) }
      \* Sum((s,)), Product((s,)), ... around every depth-1 composite s
      [] ty = "w2"   -> UNION { OneChild(s, fr) : s \in D1(fr) }
      [] ty = "pow2" -> { z, KI(2), Half, KI(4), N("Product", << z, z >>), B("Quotient", KI(1), z),
                          B("Power", z, KI(2)) }

RECURSIVE FirstHoleTy(_)
FirstHoleTy(e) ==
    IF e.t = "Hole" THEN e.ty
    ELSE LET ks == Kids(e)
             RECURSIVE Go(_)
             Go(i) == IF i > Len(ks) THEN "" ELSE
                      LET r == FirstHoleTy(ks[i]) IN IF r # "" THEN r ELSE Go(i + 1)
         IN Go(1)

CommonNary == {"Sum", "Product", "LogOr", "LogAnd"}
IntNary == CommonNary \cup {"BitOr", "BitXor", "BitAnd"}
Nary(fr) == IF fr = "int" THEN IntNary ELSE CommonNary

\* quick: every (parent, position, child) edge with the other operands leaves, full
\* pairs of composites only where operands interact (sorting sums, the multiplicative
\* group); thorough: all pairs everywhere
Full == Tier # "quick"
Pairs(k) == IF Full \/ k \in {"Sum", "Product", "FloorDiv", "Remainder", "Quotient"}
            THEN { << A, A >> } ELSE { << A, L >>, << L, A >> }
\* a wrapper hole W in every operand position of every operator, the other operand a leaf Lf
WRoots(fr, W, Lf) ==
       UNION { { N(k, << Lf, W >>), N(k, << W, Lf >>) } : k \in Nary(fr) }
  \cup { Cmp(Lf, "<", W), Cmp(W, "==", Lf), U("LogNot", W), B("Power", W, Ex),
         N("Sum", << Lf, N("Product", << M1, W >>) >>), IfE(Cn, W, Lf), Call(gg, << W >>), CSE0(W) }
  \cup (IF fr = "int"
        THEN UNION { { B(k, Lf, W), B(k, W, Lf) } : k \in {"FloorDiv", "Remainder", "LShift", "RShift"} }
             \cup { U("BitNot", W), B("Sub", tt, W) }
        ELSE { B("Quotient", Lf, W), B("Quotient", W, Lf) })
Roots(fr) ==
       { N(k, << A >>) : k \in Nary(fr) \ {"LogOr", "LogAnd"} }
  \cup UNION { { N(k, p) : p \in Pairs(k) } : k \in Nary(fr) }
  \cup { N(k, << L2, A, L2 >>) : k \in Nary(fr) }
  \cup UNION { { Cmp(p[1], "<", p[2]) : p \in Pairs("Cmp") } \cup { Cmp(p[1], "==", p[2]) : p \in Pairs("Cmp") } : dummy \in {0} }
  \cup { Cmp(L2, op, A) : op \in {"!=", "<=", ">", ">="} }
  \cup { U("LogNot", A) }
  \cup { IfE(Cn, A, L2), IfE(Cn, L2, A) }
  \cup { B("Power", A, Ex) }
  \cup { Call(ff, p) : p \in Pairs("Call") } \cup { Call(gg, << A >>) }
  \cup { CSE0(A), CP(A, "u") }
  \* a wrapper used twice / two wrappers of one child / nested wrappers in one call
  \cup { N("Sum", << CP(N("Sum", << x, y >>), "u"), N("Product", << CP(N("Sum", << x, y >>), "u"), A >>) >>),
         N("Product", << CSE0(A), CP(N("Sum", << CSE0(A), z >>), "u") >>) }
  \* the a + -1*b => a - b rewrite over every kind of b (and b*c), on either side
  \cup { N("Sum", << L2, N("Product", << M1, A >>) >>), N("Sum", << N("Product", << M1, A >>), L2 >>),
         N("Sum", << L2, N("Product", << M1, A, L2 >>) >>),
         N("Sum", << N("Product", << M1, L2 >>), N("Product", << M1, A >>) >>) }
  \cup (IF fr = "flt" THEN { N("Sum", << L2, N("Product", << K(FltV(-1, 1)), A >>) >>) } ELSE {})
  \* a multiplicative operand whose text both starts and ends with a parenthesis
  \* ("(a + b) * (c + d)") still needs its own parentheses under / and %
  \cup (IF fr = "int"
        THEN { B(k, A, N("Product", << N("Sum", << x, y >>), N("Sum", << z, L2 >>) >>)) : k \in {"Remainder", "FloorDiv"} }
             \cup { B("Remainder", L2, N("Product", << B("FloorDiv", x, L2), B("FloorDiv", y, KI(2)) >>)) }
        ELSE { B("Quotient", A, N("Product", << N("Sum", << z, z >>), N("Sum", << KI(2), KI(2) >>) >>)) })
  \* the wrappers (x**1, one-child Sum / Product) in every operand position: whatever the
  \* parent decides by looking at the operand (its node kind, its precedence) and whatever
  \* the wrapper decides for its lone operand, the composite that ends up in the text must
  \* stay one operand of the parent
  \cup WRoots(fr, W1, L2) \cup WRoots(fr, W2, L1)
  \cup Leaves(fr)
  \cup (IF fr = "int"
        THEN UNION { { B(k, p[1], p[2]) : p \in Pairs(k) } : k \in {"FloorDiv", "Remainder", "LShift", "RShift"} }
             \cup { U("BitNot", A), B("Sub", tt, A) }
        ELSE { B("Quotient", A, P2), B("Quotient", L2, A) })
  \cup (IF Tier = "quick" THEN {}
        ELSE { N(k, << A, A, L >>) : k \in {"Sum", "Product"} }
             \cup { IfE(Cn, A, A) })

\* the representations a complete tree is driven in: the exhaustive tiers keep the
\* numpy ones to the smaller trees (every parent kind x position x constant occurs
\* among them), the random deep trees of the simulation take all of RepsFor
NpBound(r) == CASE Tier = "quick"    -> IF r = "np64" THEN 6 ELSE 5
                [] Tier = "thorough" -> IF r = "np64" THEN 9 ELSE 7
                [] OTHER             -> 1000
RepsIn(e) == { r \in RepsFor(e) : r = "py" \/ Size(e) <= NpBound(r) }

Complete == NHoles(tree) = 0
Good == Complete /\ CExpressible(tree, frag)

Init == frag \in {"int", "flt"} /\ tree \in Roots(frag) /\ rep = "py"
Fill == /\ NHoles(tree) > 0
        /\ \E s \in PoolFor(FirstHoleTy(tree), frag, Size(tree) <= 9) : tree' = FillFirst(tree, s)
        /\ UNCHANGED << frag, rep >>
\* the same tree once more, its constants built as numpy scalars
Represent == /\ Good /\ rep = "py"
             /\ \E r \in RepsIn(tree) \ {"py"} : rep' = r
             /\ UNCHANGED << tree, frag >>
Next == Fill \/ Represent

\* anti-vacuity of the fragment definition: every emitted tree is judged (has a
\* numeric, in-range meaning) in at least one environment -- or is out of range in
\* all of them, which TLC reports as an (uninteresting but honest) statistic
Judged(e, fr) == \E i \in 1..Len(EnvsOf(fr)) :
                    IsNum(Eval(e, EnvsOf(fr)[i])) /\ InRange(e, EnvsOf(fr)[i])

\* A-layer vs M-layer on the model, before any code runs: `a` is the value the
\* transcription of the printer, read by the C grammar and evaluated by the C
\* semantics, predicts in every environment; `ar` names the clause when that
\* contradicts Eval -- a design-level failure (never an error of the run: the
\* A-layer does not decide, DESIGN 3.2; the judge reports prediction vs program as drift)
Emit == Good => LET pred == APred(tree, frag) IN
                PrintT(ToJson([frag |-> frag, e |-> tree, rep |-> rep, j |-> IF Judged(tree, frag) THEN 1 ELSE 0,
                               a |-> pred, ar |-> ARefutes(tree, frag, pred)]))

\* sanity of the C grammar / semantics on hand-picked points (ISO C 6.5)
CV(ts) == CEval(CParse(ts), IntEnvs[1], "int")      \* x=6 y=3 z=2
ASSUME CV(<< Idt("x"), Pt("-"), Idt("y"), Pt("-"), Idt("z") >>) = IntV(1)
ASSUME CV(<< Idt("x"), Pt("&"), Idt("y"), Pt("=="), Idt("z") >>) = IntV(0)
ASSUME CV(<< Idt("x"), Pt("<"), Idt("y"), Pt("=="), Numt(IntV(0)) >>) = IntV(1)
ASSUME CV(<< Pt("-"), Numt(IntV(7)), Pt("/"), Numt(IntV(2)) >>) = IntV(-3)
ASSUME CV(<< Pt("-"), Numt(IntV(7)), Pt("%"), Numt(IntV(2)) >>) = IntV(-1)
ASSUME CV(<< Idt("y"), Pt("*"), Idt("x"), Pt("%"), Numt(IntV(4)) >>) = IntV(2)
ASSUME CV(<< Idt("z"), Pt("?"), Idt("x"), Pt(":"), Idt("y"), Pt("?"), Numt(IntV(1)), Pt(":"), Numt(IntV(2)) >>) = IntV(6)
ASSUME CV(<< Idt("pow"), Pt("("), Idt("z"), Pt(","), Idt("y"), Pt(")"), Pt("/"), Numt(IntV(3)) >>) = FltV(8, 3) \/ CV(<< Idt("pow"), Pt("("), Idt("z"), Pt(","), Idt("y"), Pt(")"), Pt("/"), Numt(IntV(3)) >>) = Unrep
ASSUME CV(<< Pt("!"), Idt("x"), Pt("||"), Idt("y"), Pt("&&"), Numt(IntV(0)) >>) = IntV(0)
ASSUME CV(<< Pt("~"), Idt("x"), Pt("+"), Numt(IntV(1)), Pt("<<"), Numt(IntV(2)) >>) = IntV(-24)
ASSUME CV(<< Idt("f"), Pt("("), Idt("x"), Pt(","), Idt("t"), Pt("["), Numt(IntV(1)), Pt("]"), Pt(")") >>) = IntV(73)

\* a constant spelled as a constructor call (what repr() of a numpy scalar looks like) is
\* not a C expression: the grammar must reject it, whatever the value
ASSUME CPredictA(CParse(<< Idt("np"), Pt("."), Idt("float64"), Pt("("), Numt(FltV(5, 2)), Pt(")") >>),
                 "flt", FltEnvs[1]) = CBad

\* sanity of the typing discipline on hand-picked points (a wrong CTy would make the
\* judge skip, or worse judge, the wrong cases)
ASSUME CTy(B("Quotient", KI(1), KI(2)), "flt") = "bad"
ASSUME CTy(B("Quotient", x, KI(2)), "flt") = "double"
ASSUME CTy(B("Quotient", x, KI(2)), "int") = "bad"
ASSUME CTy(B("FloorDiv", B("Power", x, KI(3)), KI(2)), "int") = "bad"
ASSUME CTy(B("FloorDiv", B("Power", x, KI(2)), KI(2)), "int") = "long"
ASSUME CTy(N("Sum", << B("Power", x, KI(3)), y >>), "int") = "double"
ASSUME CTy(B("Remainder", CSE0(B("Power", x, KI(3))), KI(2)), "int") = "long"
ASSUME CTy(N("BitAnd", << x, Cmp(x, "<", Half) >>), "int") = "long"
ASSUME CTy(N("Min", << x, y >>), "int") = "bad"
ASSUME CTy(K(BoolV(TRUE)), "int") = "bad"
ASSUME ~CExpressible(N("Sum", << x, tt >>), "int")
\* the representation dimension: only trees with numeric constants have more than one
ASSUME RepsFor(N("Sum", << x, y >>)) = {"py"}
ASSUME RepsFor(CSE0(N("Sum", << x, Half >>))) = Reps
ASSUME RepsFor(B("Power", B("Remainder", x, y), KI(1))) = Reps
\* degenerate arities: a one-child Sum / Product is inside the fragment with its operand's
\* type and meaning, the empty ones are outside
ASSUME CTy(N("Sum", << B("Remainder", x, y) >>), "int") = "long"
ASSUME CTy(N("Product", << M1 >>), "flt") = "long"
ASSUME CTy(N("Sum", << >>), "int") = "bad" /\ CTy(N("Product", << >>), "int") = "bad"
ASSUME Eval(N("Product", << x, N("Sum", << B("Remainder", x, y) >>) >>), IntEnvs[3]) = IntV(7)
ASSUME Eval(N("Sum", << x, N("Product", << M1 >>) >>), IntEnvs[1]) = IntV(5)
\* "x * x % y" is not x * (x % y) in C (x=7 y=2), and "x -" is not an expression
ASSUME CEval(CParse(<< Idt("x"), Pt("*"), Idt("x"), Pt("%"), Idt("y") >>), IntEnvs[3], "int") = IntV(1)
ASSUME CParse(<< Idt("x"), Pt("-") >>) = CErr
ASSUME PrintT(ToJson([intenvs |-> IntEnvs, fltenvs |-> FltEnvs]))
=============================================================================
