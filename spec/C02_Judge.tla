------------------------------ MODULE C02_Judge ------------------------------
(***************************************************************************)
(* Stage (3) for C02: every recorded evaluation result of the real         *)
(* evaluators is judged by TLC against Eval (M-layer).  One record =       *)
(* [id, e, r] with r[envIndex] = the distinct values the four evaluator    *)
(* entry points returned (one entry when they all agreed).                 *)
(***************************************************************************)
EXTENDS C02_Env, Json, IOUtils
VARIABLES blk, off

Recs == ndJsonDeserialize(IOEnv.TRACE_FILE)
BS == 64
NB == (Len(Recs) + BS - 1) \div BS

Init == blk \in 0..(NB - 1) /\ off = 0
Next == off < BS - 1 /\ off' = off + 1 /\ UNCHANGED blk
Idx == blk * BS + off + 1

VerdictEnv(rec, i) ==
    LET exp == Eval(rec.e, Envs[i])
        got == rec.r[i]
        vs  == [j \in 1..Len(got) |-> JudgeValT(exp, got[j], rec.e, Envs[i])]
    IN  IF \E j \in 1..Len(vs) : vs[j] \notin {"OK", "SKIP"}
        THEN vs[CHOOSE j \in 1..Len(vs) : vs[j] \notin {"OK", "SKIP"}
                                          /\ \A jj \in 1..(j - 1) : vs[jj] \in {"OK", "SKIP"}]
        ELSE IF \E j \in 1..Len(vs) : vs[j] = "SKIP" THEN "SKIP"
        \* all four entry points must agree with each other as well
        ELSE IF Len(got) > 1 /\ \E j \in 2..Len(got) :
                    ~(IsErr(got[1]) /\ IsErr(got[j])) /\ ~ValEq(got[1], got[j])
             THEN "variants-disagree"
        ELSE "OK"

Report ==
    Idx <= Len(Recs) =>
      LET rec == Recs[Idx] IN
      \A i \in 1..Len(Envs) :
        LET v == VerdictEnv(rec, i) IN
        v = "OK" \/ PrintT(ToJson([id |-> rec.id, env |-> i, v |-> v,
                 pv |-> [j \in 1..Len(rec.r[i]) |->
                           JudgeValT(Eval(rec.e, Envs[i]), rec.r[i][j], rec.e, Envs[i])],
                 exp |-> Eval(rec.e, Envs[i])]))
=============================================================================
