CONSTANT Tier = "sim"
CONSTANT MaxN = 5
CONSTANT Modes = {"H"}
INIT Init
NEXT Next
INVARIANT GeneratedWellFormed
INVARIANT TRUnique
INVARIANT TRPreservesReachabilityL
INVARIANT AlgoRefinesMeaning
INVARIANT Emit
CHECK_DEADLOCK FALSE
