---------------------------- MODULE C18_Clifford ----------------------------
(***************************************************************************)
(* M-layer for C18: the Clifford (geometric) algebra of a space with a     *)
(* diagonal metric, written from the mathematics -- NOT from pymbolic's    *)
(* bitmap representation.                                                  *)
(*                                                                         *)
(*   * a basis blade is a strictly increasing sequence of basis-vector     *)
(*     indices 1..n  (<< >> is the scalar blade, <<1,..,n>> the            *)
(*     pseudoscalar);                                                      *)
(*   * the metric is a sequence g of integers, g[i] = e_i . e_i;           *)
(*   * a word  e_w1 e_w2 .. e_wk  (any sequence of indices) is reduced     *)
(*     with the two defining relations of the algebra only:                *)
(*         e_i e_j = - e_j e_i  (i # j)       e_i e_i = g[i];              *)
(*   * a multivector is a finite function  blade -> non-zero rational;     *)
(*   * outer / inner / scalar / left / right contraction products are the  *)
(*     grade parts r+s, |r-s|, 0, s-r, r-s of the geometric product of an  *)
(*     r-blade with an s-blade, extended bilinearly;                       *)
(*   * reverse, grade involution, dual, squared norm, inverse by their     *)
(*     defining identities.                                                *)
(*                                                                         *)
(* Rationals are pairs <<n, d>> in lowest terms with d > 0.  TLC integers  *)
(* are 32 bit: every result is magnitude guarded and becomes QBad beyond   *)
(* the guard; a multivector with a QBad coefficient is never judged.       *)
(***************************************************************************)
EXTENDS Integers, Sequences, FiniteSets, TLC

(*************************** exact rationals *******************************)
QLIMIT == 30000
QAbs(x) == IF x < 0 THEN -x ELSE x
RECURSIVE QGcd(_, _)
QGcd(a, b) == IF b = 0 THEN a ELSE QGcd(b, a % b)

QBad == << 0, 0 >>
IsBad(q) == q[2] = 0
\* normalise n/d (d # 0, |n|,|d| < 2^31)
QNorm(n, d) ==
    LET gg == QGcd(QAbs(n), QAbs(d))
        s  == IF d < 0 THEN -1 ELSE 1
        nn == s * (n \div gg)
        dd == s * (d \div gg)
    IN  IF QAbs(nn) > QLIMIT \/ dd > QLIMIT THEN QBad ELSE << nn, dd >>
QInt(i) == << i, 1 >>
Q0 == QInt(0)
Q1 == QInt(1)
QAdd(a, b) == IF IsBad(a) \/ IsBad(b) THEN QBad
              ELSE QNorm(a[1] * b[2] + b[1] * a[2], a[2] * b[2])
QMul(a, b) == IF IsBad(a) \/ IsBad(b) THEN QBad
              ELSE QNorm(a[1] * b[1], a[2] * b[2])
QNeg(a) == IF IsBad(a) THEN QBad ELSE << -a[1], a[2] >>
QSub(a, b) == QAdd(a, QNeg(b))
\* 1/a, a # 0
QInv(a) == IF IsBad(a) THEN QBad ELSE QNorm(a[2], a[1])
QIsZero(a) == ~IsBad(a) /\ a[1] = 0

\* sum of f over the finite set S (f a function defined on S)
RECURSIVE QSum(_, _)
QSum(S, f) == IF S = {} THEN Q0
              ELSE LET x == CHOOSE y \in S : TRUE IN QAdd(f[x], QSum(S \ {x}, f))

(****************************** blades *************************************)
IsBlade(b, n) == /\ \A i \in 1..Len(b) : b[i] \in 1..n
                 /\ \A i \in 1..(Len(b) - 1) : b[i] < b[i + 1]
\* all basis blades of an n-dimensional space, in a fixed order
RECURSIVE BladeSeq(_)
BladeSeq(n) == IF n = 0 THEN << << >> >>
               ELSE LET p == BladeSeq(n - 1)
                    IN  p \o [i \in 1..Len(p) |-> Append(p[i], n)]
Blades(n) == LET s == BladeSeq(n) IN { s[i] : i \in 1..Len(s) }
Pseudo(n) == [i \in 1..n |-> i]

\* Reduce the word w (coefficient c, an integer) to  c' * (strictly increasing
\* word)  using only  e_i e_j = -e_j e_i  and  e_i e_i = g[i].
\* Result << c', blade >>;  c' = 0 means the word vanishes (blade irrelevant).
\* ReduceDef is the definition: repeatedly rewrite the leftmost adjacent pair that
\* is out of order (swap, sign flips) or equal (contract with the metric entry).
RECURSIVE ReduceDef(_, _, _)
ReduceDef(w, g, c) ==
    IF c = 0 THEN << 0, << >> >>
    ELSE LET bad == { i \in 1..(Len(w) - 1) : w[i] >= w[i + 1] } IN
         IF bad = {} THEN << c, w >>
         ELSE LET i == CHOOSE k \in bad : \A j \in bad : k <= j IN
              IF w[i] = w[i + 1]
              THEN ReduceDef(SubSeq(w, 1, i - 1) \o SubSeq(w, i + 2, Len(w)), g, c * g[w[i]])
              ELSE ReduceDef([w EXCEPT ![i] = w[i + 1], ![i + 1] = w[i]], g, -c)

\* The same reduction organised as an insertion sort (what the judge evaluates,
\* three times cheaper): the letters of w are multiplied one by one from the right
\* onto an already reduced blade b; e_j passes the k letters of b that are larger
\* than j (k swaps) and then either stands in its place or meets e_j and contracts.
\* ReduceAgrees (checked by TLC in stage 1 on every generated word) ties it to
\* the definition.
MulLetter(cb, j, g) ==        \* cb = << c, b >>, b strictly increasing
    LET b  == cb[2]
        k  == Cardinality({ i \in 1..Len(b) : b[i] > j })
        sg == IF (k % 2) = 0 THEN cb[1] ELSE -cb[1]
        m  == Len(b) - k        \* letters not larger than j
    IN  IF m >= 1 /\ b[m] = j
        THEN << sg * g[j], SubSeq(b, 1, m - 1) \o SubSeq(b, m + 1, Len(b)) >>
        ELSE << sg, SubSeq(b, 1, m) \o << j >> \o SubSeq(b, m + 1, Len(b)) >>
RECURSIVE ReduceFrom(_, _, _, _)
ReduceFrom(w, i, g, cb) ==
    IF cb[1] = 0 THEN << 0, << >> >>
    ELSE IF i > Len(w) THEN cb
    ELSE ReduceFrom(w, i + 1, g, MulLetter(cb, w[i], g))
Reduce(w, g, c) == ReduceFrom(w, 1, g, << c, << >> >>)
ReduceAgrees(w, g) == Reduce(w, g, 1) = ReduceDef(w, g, 1)

\* geometric product of two basis blades: << integer coefficient, blade >>
BladeMul(a, b, g) == ReduceFrom(b, 1, g, << 1, a >>)

Ops == {"geo", "out", "inn", "scl", "lc", "rc"}
\* which grade part of the geometric product of an r-blade and an s-blade
GradeOK(op, r, s, t) ==
    CASE op = "geo" -> TRUE
      [] op = "out" -> t = r + s
      [] op = "inn" -> t = (IF r >= s THEN r - s ELSE s - r)
      [] op = "scl" -> t = 0
      [] op = "lc"  -> t = s - r
      [] op = "rc"  -> t = r - s

(*************************** multivectors **********************************)
MVZero == [x \in {} |-> Q0]
Strip(f) == LET D == { x \in DOMAIN f : IsBad(f[x]) \/ f[x][1] # 0 } IN [x \in D |-> f[x]]
MVBad(f) == \E x \in DOMAIN f : IsBad(f[x])
Coef(f, x) == IF x \in DOMAIN f THEN f[x] ELSE Q0
Mono(b, q) == Strip([x \in {b} |-> q])
MVOne == Mono(<< >>, Q1)
MVScalar(q) == Mono(<< >>, q)

MVAdd(a, b) == Strip([x \in (DOMAIN a) \cup (DOMAIN b) |-> QAdd(Coef(a, x), Coef(b, x))])
MVScale(q, a) == Strip([x \in DOMAIN a |-> QMul(q, a[x])])
MVNeg(a) == [x \in DOMAIN a |-> QNeg(a[x])]
MVSub(a, b) == MVAdd(a, MVNeg(b))
\* l*a + m*b
MVLin(l, a, m, b) == MVAdd(MVScale(l, a), MVScale(m, b))

\* bilinear extension of the grade-selected blade product
\* (T: one tuple << x, y, BladeMul(x, y) >> per pair of component blades, built
\* once; K: the pairs whose product survives the grade selection)
RECURSIVE SumTerms(_, _, _)
SumTerms(S, a, b) ==
    IF S = {} THEN Q0
    ELSE LET t == CHOOSE u \in S : TRUE
         IN  QAdd(QMul(QInt(t[3][1]), QMul(a[t[1]], b[t[2]])), SumTerms(S \ {t}, a, b))
MVProd(op, a, b, g) ==
    LET T  == { << p[1], p[2], BladeMul(p[1], p[2], g) >> : p \in (DOMAIN a) \X (DOMAIN b) }
        K  == { t \in T : t[3][1] # 0 /\ GradeOK(op, Len(t[1]), Len(t[2]), Len(t[3][2])) }
        tg == { t[3][2] : t \in K }
    IN  Strip([x \in tg |-> SumTerms({ t \in K : t[3][2] = x }, a, b)])

GradePart(a, r) == LET D == { x \in DOMAIN a : Len(x) = r } IN [x \in D |-> a[x]]
\* the grade part of a geometric product of an r-blade and an s-blade that
\* product op selects, as a set of grades (empty when the grade is negative)
SelGrades(op, r, s, n) ==
    { t \in 0..n : GradeOK(op, r, s, t) }
GradeSel(a, T) == LET D == { x \in DOMAIN a : Len(x) \in T } IN [x \in D |-> a[x]]
ScalarPart(a) == Coef(a, << >>)
Grades(a) == { Len(x) : x \in DOMAIN a }

\* reverse: every blade e_i1..e_ik becomes e_ik..e_i1, re-sorted by the relations
Reverse(s) == [i \in 1..Len(s) |-> s[Len(s) + 1 - i]]
\* (a reversed blade has distinct indices: the metric is never consulted)
RevSign(b) == Reduce(Reverse(b), << >>, 1)[1]
MVRev(a) == [x \in DOMAIN a |-> IF RevSign(x) = 1 THEN a[x] ELSE QNeg(a[x])]
\* grade involution: the automorphism induced by e_i -> -e_i
MVInvol(a) == [x \in DOMAIN a |-> IF (Len(x) % 2) = 0 THEN a[x] ELSE QNeg(a[x])]
MVPseudo(n) == Mono(Pseudo(n), Q1)
\* dual, (1.2.26) in Hestenes/Sobczyk:  A I^dagger
MVDual(a, n, g) == MVProd("geo", a, MVRev(MVPseudo(n)), g)
MVNormSq(a, g) == ScalarPart(MVProd("geo", MVRev(a), a, g))

IsInverse(x, a, g) == /\ MVProd("geo", x, a, g) = MVOne
                      /\ MVProd("geo", a, x, g) = MVOne
\* a multiple of a basis blade, or a vector: the blades the statement's
\* inverse clause is decided for
IsMonomial(a) == Cardinality(DOMAIN a) = 1
IsVector(a) == a # MVZero /\ Grades(a) = {1}
\* A rev(A) is a scalar for every blade; non-null when it is not zero
RevProdScalar(a, g) == Grades(MVProd("geo", MVRev(a), a, g)) \subseteq {0}
NonNull(a, g) == ~QIsZero(MVNormSq(a, g))
\* constructive inverse of a non-null blade:  rev(A) / (rev(A) A)
MVInv(a, g) == MVScale(QInv(MVNormSq(a, g)), MVRev(a))

(* words with coefficients (the form in which inputs are written down):    *)
(* a term is << word, << num, den, kind >> >>                              *)
QOf(c) == IF c[2] = 0 THEN QBad ELSE QNorm(c[1], c[2])
RECURSIVE MVOfTermsFrom(_, _, _)
MVOfTermsFrom(ts, i, g) ==
    IF i > Len(ts) THEN MVZero
    ELSE LET r == Reduce(ts[i][1], g, 1)
             m == IF r[1] = 0 THEN MVZero ELSE Mono(r[2], QMul(QInt(r[1]), QOf(ts[i][2])))
         IN  MVAdd(m, MVOfTermsFrom(ts, i + 1, g))
MVOfTerms(ts, g) == MVOfTermsFrom(ts, 1, g)

(* coefficients that are symbolic expressions (pymbolic Variable / Sum /    *)
(* Product over numbers): a coefficient tree is the record                  *)
(*   [k |-> "num"|"var"|"sum"|"prod", q |-> << num, den, kind >>,           *)
(*    nm |-> variable name, a |-> sequence of child trees].                 *)
(* "Coefficient-wise comparison" of such multivectors compares the trees    *)
(* node by node, number leaves by value (2 = Fraction(2, 1)); evaluation at *)
(* a point (x, y) gives the rational multivector the symbolic one denotes   *)
(* there.                                                                   *)
RECURSIVE NormT(_)
NormT(t) == [k |-> t.k, q |-> IF t.k = "num" THEN QOf(t.q) ELSE Q0, nm |-> t.nm,
             a |-> [i \in 1..Len(t.a) |-> NormT(t.a[i])]]
RECURSIVE EvalT(_, _), EvalArgs(_, _, _, _)
EvalArgs(ts, i, p, isSum) ==
    IF i > Len(ts) THEN (IF isSum THEN Q0 ELSE Q1)
    ELSE IF isSum THEN QAdd(EvalT(ts[i], p), EvalArgs(ts, i + 1, p, isSum))
    ELSE QMul(EvalT(ts[i], p), EvalArgs(ts, i + 1, p, isSum))
EvalT(t, p) ==
    CASE t.k = "num"  -> QOf(t.q)
      [] t.k = "var"  -> (IF t.nm = "x" THEN p[1] ELSE p[2])
      [] t.k = "sum"  -> EvalArgs(t.a, 1, p, TRUE)
      [] t.k = "prod" -> EvalArgs(t.a, 1, p, FALSE)
      [] OTHER        -> QBad
\* terms << increasing word, tree >>, one per blade; a number leaf 0 is no term
TreeZero(t) == t.k = "num" /\ QIsZero(QOf(t.q))
TWords(ts) == { ts[i][1] : i \in { j \in 1..Len(ts) : ~TreeZero(ts[j][2]) } }
TreeAt(ts, x) == ts[CHOOSE i \in 1..Len(ts) : ts[i][1] = x][2]
TMV(ts) == [x \in TWords(ts) |-> NormT(TreeAt(ts, x))]
EvalTMV(ts, p) == Strip([x \in TWords(ts) |-> EvalT(TreeAt(ts, x), p)])
TWellFormed(ts, n) == /\ \A i \in 1..Len(ts) : IsBlade(ts[i][1], n)
                      /\ \A i, j \in 1..Len(ts) : ts[i][1] = ts[j][1] => i = j
=============================================================================
