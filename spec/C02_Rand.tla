------------------------------- MODULE C02_Rand -------------------------------
(***************************************************************************)
(* Thorough tier, beyond the exhaustive bounds: random deeper trees for    *)
(* C02 drawn by TLC in simulation mode (-simulate num=N -depth D -seed S). *)
(* A behaviour fills the holes of one tree left to right; a hole carries   *)
(* its type and its remaining depth budget; every complete tree is printed.*)
(***************************************************************************)
EXTENDS C02_Env, C02_EvalImpl, Json
VARIABLE tree

x == V("x")  y == V("y")  z == V("z")  bb == V("b")  uu == V("u")
ff == V("f") gg == V("g") tt == V("t") oo == V("o")
H(ty, d) == [t |-> "Hole", ty |-> ty, d |-> d]

NumLeaves  == { x, y, z, KI(0), KI(1), KI(2), KI(-1), KI(3), K(FltV(3, 2)), K(FltV(-1, 2)), uu }
BoolLeaves == { bb, K(BoolV(TRUE)), K(BoolV(FALSE)) }

Skels(ty, d) ==      \* composite choices for a hole of type ty with budget d >= 1
    LET n == H("num", d - 1) c == H("cond", d - 1) IN
    IF ty = "num" THEN
        { N("Sum", << n, n >>), N("Sum", << n, n, n >>), N("Product", << n, n >>), B("Quotient", n, n),
          B("FloorDiv", n, n), B("Remainder", n, n), B("Power", n, KI(2)), B("Power", n, n),
          B("LShift", n, KI(1)), B("RShift", n, n), U("BitNot", n), N("BitOr", << n, n >>),
          N("BitXor", << n, n >>), N("BitAnd", << n, n >>), IfE(c, n, n), N("Min", << n, n >>),
          N("Max", << n, n, n >>), Call(ff, << n >>), Call(gg, << n, n >>),
          CallKw(ff, << n >>, << KwArg("k2", n) >>), B("Sub", tt, n), Look(oo, "p"), CSE0(n) }
    ELSE { Cmp(n, "<", n), Cmp(n, "==", n), Cmp(n, ">=", n), Cmp(n, "!=", n), U("LogNot", c),
           N("LogOr", << c, c >>), N("LogAnd", << c, c >>), N("LogAnd", << c, c, c >>) }

RECURSIVE FirstHole(_)
FirstHole(e) ==
    IF e.t = "Hole" THEN e
    ELSE LET ks == Kids(e)
             RECURSIVE Go(_)
             Go(i) == IF i > Len(ks) THEN NoneE
                      ELSE LET r == FirstHole(ks[i]) IN IF r.t = "Hole" THEN r ELSE Go(i + 1)
         IN Go(1)

Init == tree = H("num", 4)
Next == /\ NHoles(tree) > 0
        /\ LET h == FirstHole(tree)
               leaves == IF h.ty = "num" THEN NumLeaves ELSE BoolLeaves
               \* deeper holes prefer composites; at budget 0 only leaves
               pool == IF h.d = 0 THEN leaves
                       ELSE IF RandomElement(1..4) = 1 THEN leaves ELSE Skels(h.ty, h.d)
           IN tree' = FillFirst(tree, RandomElement(pool))
Complete == NHoles(tree) = 0
ImplRefinesMeaning ==
    Complete => \A i \in 1..Len(Envs) :
        LET m == Eval(tree, Envs[i]) a == EvalImpl(tree, Envs[i]) IN
        IsUnrep(m) \/ IsUnrep(a) \/ JudgeVal(m, a, tree, Envs[i]) = "OK"
Emit == Complete => PrintT(ToJson([e |-> tree]))
=============================================================================
