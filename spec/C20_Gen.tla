------------------------------- MODULE C20_Gen -------------------------------
(***************************************************************************)
(* Stage (1) for C20.  TLC enumerates the behaviours to be replayed        *)
(* through pymbolic.imperative and, while doing so, checks on the model    *)
(*   - that the transitive-reduction formula TR is the least edge set with *)
(*     the same reachability, for every DAG enumerated (mode G);           *)
(*   - that the implementation-shaped algorithms of C20_Algo refine the    *)
(*     meaning of C20_Imperative (hard for the repaired algorithms, a      *)
(*     predicted failure class "pred" for the code as it is).              *)
(* Modes (variable mode):                                                  *)
(*   F  fuse: all pairs of id/dependency skeletons (ids from a clashing    *)
(*      pool, every DAG of dependencies), one-step histories               *)
(*   D  disambiguate / disambiguate_and_fuse: streams of 1-2 statements    *)
(*      out of a pool of bodies x filters, two-event histories             *)
(*   H  histories of repeated fusion over a pool of base streams           *)
(*   R  single statements lhs x rhs x cond for the read/written sets       *)
(*   G  all labelled DAGs with at most MaxN nodes for the dot export       *)
(*   L  chains of 6..8 nodes with shortcut edges in three list orders      *)
(*   P  position-selective renaming under aliasing: conditional and plain  *)
(*      assignments whose identifiers sit in ONE position each (written    *)
(*      variable, left-hand-side index, right-hand side, condition) x      *)
(*      filters that admit any subset of them, in histories whose operands *)
(*      share statement OBJECTS (a stream with itself, a stream with a     *)
(*      result that still holds its objects)                               *)
(*   K  look-alikes: stream b holds, in two places TLC chooses (left-hand-  *)
(*      side index, right-hand side, condition of its first or second      *)
(*      statement, or both inside ONE of these expressions), two compound  *)
(*      expressions that are equal for Python's == and differ only in the  *)
(*      KIND of a constant below the top node (2 / 2.0, 1 / True / 1.0,    *)
(*      0 / False / 0.0); with a clash on the look-alikes' identifier, on  *)
(*      another identifier, with no clash, under filters, and the stream   *)
(*      with itself.  Disambiguation must hand every constant back with    *)
(*      its kind (the trees are strict about it, Python's == is not).      *)
(* Histories carry a flag  alias : 1 = every base stream is built once and *)
(* the same statement objects are handed in whenever it is used again,     *)
(* 0 = a fresh copy is built for every use.  (C20_Heap is the model of     *)
(* what object sharing means for the property.)                            *)
(* Every complete behaviour is printed as one JSON line.                   *)
(***************************************************************************)
EXTENDS C20_Algo, Json
CONSTANTS Tier,      \* "quick" | "thorough" | "sim"
          MaxN,      \* nodes of the DAGs of mode G
          Modes      \* which of the modes below this run enumerates (the harness runs
                     \* several generator JVMs side by side)
VARIABLES mode, st

va == V("a")  vb == V("b")  vi == V("i")  vf == V("f")  va0 == V("a_0")  vx == V("x")

Body(kind, lhs, rhs, cond) == [kind |-> kind, lhs |-> lhs, rhs |-> rhs, cond |-> cond]
Mk(id, deps, bd) == St(id, deps, bd.kind, bd.lhs, bd.rhs, bd.cond)
NopB == Body("Nop", NoneE, NoneE, NoneE)
AsB(lhs, rhs) == Body("Assign", lhs, rhs, NoneE)
CaB(lhs, rhs, cond) == Body("CondAssign", lhs, rhs, cond)

Sum2(x, y) == N("Sum", << x, y >>)
IdxSeq(set, n) == SelectSeq([j \in 1..n |-> j], LAMBDA j : j \in set)

FltDefault == [mode |-> "default", names |-> << >>]
FltAll  == [mode |-> "all", names |-> << >>]
FltNone == [mode |-> "none", names |-> << >>]
FltSet(names) == [mode |-> "set", names |-> names]

Op(op, side, X, flt) == [op |-> op, side |-> side, X |-> X, flt |-> flt]

(***************************************************************************)
(* Mode F: skeletons                                                       *)
(***************************************************************************)
FIds == {"s", "s_0", "t"}
BodiesA == << AsB(va, Sum2(vb, vi)), CaB(B("Sub", va, vi), Call(vf, << vb >>), Cmp(vi, "<", KI(3))), NopB >>
BodiesB == << NopB, AsB(B("Sub", vb, va), KI(5)), CaB(vi, vb, TrueE) >>

DepChoices(n) ==
    {d \in [1..n -> SUBSET (1..n)] :
        /\ \A k \in 1..n : k \notin d[k]
        /\ AcyclicE(UNION {{<< k, j >> : j \in d[k]} : k \in 1..n})}
Skel(n, bodies) ==
    {[k \in 1..n |-> Mk(q[k], [j \in 1..Len(IdxSeq(d[k], n)) |-> q[IdxSeq(d[k], n)[j]]], bodies[k])] :
        q \in {q \in [1..n -> FIds] : Injective(q)}, d \in DepChoices(n)}
SkelsA == UNION {Skel(n, BodiesA) : n \in 0..3}
SkelsB == UNION {Skel(n, BodiesB) : n \in 0..3}
FPairOK(SA, SB) == Tier = "thorough" \/ Len(SA) <= 2 \/ Len(SB) <= 1

(***************************************************************************)
(* Mode D: bodies chosen so that every identifier occurs in every position *)
(* class alone: only written, only in a left-hand-side index, only on the  *)
(* right, only in a condition, only as a called function                   *)
(***************************************************************************)
DBodies == <<
    AsB(va, KI(5)),                                     \*  1  a <- 5
    AsB(va, vb),                                        \*  2  a <- b
    AsB(vb, Sum2(va, vi)),                              \*  3  b <- a + i
    AsB(B("Sub", va, vi), KI(5)),                       \*  4  a[i] <- 5
    AsB(B("Sub", va, vi), vb),                          \*  5  a[i] <- b
    AsB(B("Sub", vb, va), vi),                          \*  6  b[a] <- i
    AsB(va, Call(vf, << vb >>)),                        \*  7  a <- f(b)
    AsB(vi, B("Sub", vb, vi)),                          \*  8  i <- b[i]
    CaB(va, KI(5), Cmp(vi, "<", KI(3))),                \*  9  a <- 5 if i < 3
    CaB(B("Sub", va, vi), vb, Cmp(vb, "==", va)),       \* 10  a[i] <- b if b == a
    CaB(vb, vi, TrueE),                                 \* 11  b <- i   (unconditional)
    NopB,                                               \* 12  nop
    AsB(vf, Call(vf, << va >>)),                        \* 13  f <- f(a)
    AsB(vi, KI(1)),                                     \* 14  i <- 1
    AsB(B("Sub", vx, va0), va),                         \* 15  x[a_0] <- a
    CaB(va0, KI(0), Cmp(va, ">", KI(0)))                \* 16  a_0 <- 0 if a > 0
  >>
NDB == Len(DBodies)
DReduced == {2, 4, 6, 9, 12, 13, 14, 15}
DStreamsA ==
    {<< Mk("s", << >>, DBodies[p]) >> : p \in 1..NDB}
    \cup (IF Tier = "thorough"
          THEN {<< Mk("s", << >>, DBodies[p]), Mk("t", << "s" >>, DBodies[q]) >> :
                   p \in DReduced, q \in DReduced}
          ELSE {})
DStreamsB ==
    {<< Mk("s", << >>, DBodies[p]) >> : p \in 1..NDB}
    \cup {<< Mk("s", << "u" >>, DBodies[p]), Mk("u", << >>, DBodies[q]) >> :
             p \in 1..NDB, q \in (IF Tier = "thorough" THEN 1..NDB ELSE DReduced)}
DFilters == {FltDefault, FltNone, FltSet(<< "a" >>), FltSet(<< "i", "b", "f" >>)}

(***************************************************************************)
(* Mode H: repeated fusion                                                 *)
(***************************************************************************)
HPool == <<
    << Mk("s", << >>, DBodies[4]), Mk("t", << "s" >>, DBodies[9]), Mk("s_0", << "s", "t" >>, NopB) >>,
    << Mk("s", << "s_0" >>, DBodies[14]), Mk("s_0", << >>, DBodies[3]) >>,
    << Mk("t", << >>, DBodies[7]) >>,
    << >> >>
HFuseOps == {Op("fuse", "L", HPool[p], FltDefault) : p \in 1..Len(HPool)}
            \cup {Op("fuse", "R", HPool[p], FltDefault) : p \in 1..Len(HPool)}
            \cup {Op("fuse", "S", << >>, FltDefault)}
\* filters that single out one position class of the pool's statements: i occurs in
\* "a <- 5 if i < 3" only in the condition, a only as the written variable; b, f only on
\* right-hand sides
HSelFilters == {FltSet(<< "i" >>), FltSet(<< "a" >>), FltSet(<< "b", "f" >>)}
HDafOps  == {Op("daf", "L", HPool[p], flt) : p \in 1..Len(HPool), flt \in {FltDefault, FltSet(<< "a" >>)}}
            \cup {Op("daf", "R", HPool[p], FltAll) : p \in 1..Len(HPool)}
            \cup {Op("daf", "S", << >>, FltDefault)}
            \cup {Op("daf", "S", << >>, flt) : flt \in HSelFilters}
            \cup {Op("daf", "R", HPool[p], FltSet(<< "i" >>)) : p \in 1..Len(HPool)}
\* classes of histories: [ops allowed, depth, alias: 1 = base streams built once per history
\* (statement objects shared between uses), 0 = rebuilt for every use]
HClasses == CASE Tier = "quick"    -> {[c |-> "mix", d |-> 2, al |-> a] : a \in {0, 1}}
                                      \cup {[c |-> "fuse", d |-> 3, al |-> a] : a \in {0, 1}}
              [] Tier = "thorough" -> {[c |-> "mix", d |-> 3, al |-> 1], [c |-> "mix", d |-> 2, al |-> 0]}
                                      \cup {[c |-> "fuse", d |-> 4, al |-> a] : a \in {0, 1}}
              [] Tier = "sim"      -> {[c |-> "mix", d |-> 5, al |-> a] : a \in {0, 1}}
HOps(c) == IF c = "fuse" THEN HFuseOps ELSE HFuseOps \cup HDafOps

(***************************************************************************)
(* Mode P: one identifier per position                                     *)
(***************************************************************************)
vp == V("p")  vq == V("q")  vr == V("r")  vk == V("k")
PBodies == <<
    CaB(vp, vq, Cmp(vr, ">", KI(0))),                           \* 1  p <- q if r > 0
    CaB(B("Sub", vp, vk), vq, Cmp(vr, ">", KI(0))),             \* 2  p[k] <- q if r > 0
    CaB(vp, KI(5), Cmp(vr, ">", KI(0))),                        \* 3  p <- 5 if r > 0
    CaB(vp, Sum2(vq, KI(1)), TrueE),                            \* 4  p <- q + 1   (unconditional)
    AsB(vp, vq),                                                \* 5  p <- q
    AsB(B("Sub", vp, vk), KI(5)),                               \* 6  p[k] <- 5
    CaB(vk, vk, N("LogAnd", << Cmp(vr, ">", KI(0)), vq >>))     \* 7  k <- k if r > 0 and q
  >>
NPB == Len(PBodies)
PNames == << "p", "q", "r", "k" >>
PFilterSets == IF Tier = "thorough" THEN SUBSET {"p", "q", "r", "k"}
               ELSE { {}, {"p"}, {"q"}, {"r"}, {"k"}, {"p", "q"}, {"q", "r"}, {"p", "k"}, {"p", "q", "k"} }
PFilters == {FltDefault} \cup {FltSet(SelectSeq(PNames, LAMBDA x : x \in S)) : S \in PFilterSets}
PSingles == {<< Mk("s", << >>, PBodies[b]) >> : b \in 1..NPB}
PPair(b1, b2) == << Mk("s", << >>, PBodies[b1]), Mk("t", << "s" >>, PBodies[b2]) >>
PPairs == {PPair(b1, b2) : b1 \in {1, 2, 5}, b2 \in {2, 3, 6}}
PInits == PSingles \cup (IF Tier = "thorough" THEN PPairs ELSE {PPair(1, 3), PPair(2, 6), PPair(5, 2)})
PXs    == PSingles \cup PPairs
\* shapes of the histories (all with shared statement objects):
\*   x  dis(A, X); A' = daf(A, X); daf(A', A')
\*   s  dis(A, A); A' = daf(A, A); daf(A, A')           A' still holds A's objects
\*   r  A' = fuse(A, X); daf(A, A')
PShapes == {"x", "s", "r"}
POps(c) ==
    CASE c.shape = "x" -> << Op("dis", "L", c.SB, c.flt), Op("daf", "L", c.SB, c.flt),
                             Op("daf", "S", << >>, c.flt) >>
      [] c.shape = "s" -> << Op("dis", "S", << >>, c.flt), Op("daf", "S", << >>, c.flt),
                             Op("daf", "R", c.SA, c.flt) >>
      [] c.shape = "r" -> << Op("fuse", "L", c.SB, FltDefault), Op("daf", "R", c.SA, c.flt) >>

(***************************************************************************)
(* Mode K: look-alikes (equal for Python's ==, different kinds of a nested *)
(* constant) in two places of the second stream                            *)
(***************************************************************************)
vy == V("y")
KShape(j, c) ==
    CASE j = 1 -> N("Product", << c, vi >>)                      \* c * i
      [] j = 2 -> B("FloorDiv", vi, c)                           \* i // c
      [] j = 3 -> Cmp(vi, "==", c)                               \* i == c
      [] j = 4 -> Sum2(vi, N("Product", << c, vb >>))            \* i + c * b   (two levels down)
      [] j = 5 -> B("Sub", vb, c)                                \* b[c]
      [] j = 6 -> Call(vf, << vi, c >>)                          \* f(i, c)
      [] j = 7 -> B("Power", vi, c)                              \* i ** c
      [] j = 8 -> IfE(Cmp(vi, "<", c), vi, c)                    \* i if i < c else c
NKS == IF Tier = "thorough" THEN 8 ELSE 6
KGroups == << {KI(2), K(FltV(2, 1))},
              {KI(1), TrueE, K(FltV(1, 1))},
              {KI(0), K(BoolV(FALSE)), K(FltV(0, 1))} >>
KConstPairs == UNION {{cc \in KGroups[g] \X KGroups[g] : cc[1] # cc[2]} :
                         g \in 1..(IF Tier = "thorough" THEN 3 ELSE 2)}
\* slots of the two statements of stream b: 1-3 index / right-hand side / condition of the
\* first, 4-6 of the second; the pair sits in slots p[1] <= p[2] (equal: both in one expression)
KPlacements == {pp \in (1..6) \X (1..6) : pp[1] <= pp[2]}
KSlot(c, slot) ==
    LET e1 == KShape(c.sh, c.cc[1])  e2 == KShape(c.sh, c.cc[2]) IN
    IF c.p[1] = slot /\ c.p[2] = slot
    THEN (IF (slot % 3) = 0 THEN N("LogAnd", << e1, e2 >>) ELSE Sum2(e1, e2))
    ELSE IF c.p[1] = slot THEN e1 ELSE IF c.p[2] = slot THEN e2 ELSE NoneE
KBody(c, j) ==
    LET w   == IF j = 1 THEN vx ELSE vy
        idx == KSlot(c, 3 * (j - 1) + 1)
        r0  == KSlot(c, 3 * (j - 1) + 2)
        cnd == KSlot(c, 3 * (j - 1) + 3)
        lhs == IF idx.t = "None" THEN w ELSE B("Sub", w, idx)
        rhs == IF r0.t = "None" THEN KI(5) ELSE r0
    IN  IF cnd.t = "None" THEN AsB(lhs, rhs) ELSE CaB(lhs, rhs, cnd)
KStreamB(c) == << Mk("s", << "u" >>, KBody(c, 1)), Mk("u", << >>, KBody(c, 2)) >>
\* the first stream: clash on the look-alikes' identifiers (i, b), on a written variable of b
\* only (x), on nothing (z), or stream b itself ("self": everything clashes, operands alias)
KCfg(a, flt) == [a |-> a, flt |-> flt]
KCfgs == IF Tier = "thorough"
         THEN {KCfg(a, flt) : a \in {"i", "x", "z", "self"},
                              flt \in {FltDefault, FltNone, FltSet(<< "x", "y" >>)}}
         ELSE {KCfg("i", FltDefault), KCfg("i", FltNone), KCfg("x", FltDefault),
               KCfg("z", FltDefault), KCfg("self", FltDefault)}
KStreamA(c) == IF c.cfg.a = "self" THEN KStreamB(c)
               ELSE << Mk("s", << >>, AsB(V(c.cfg.a), IF c.cfg.a = "i" THEN vb ELSE KI(1))) >>
KOps(c) == IF c.cfg.a = "self"
           THEN << Op("dis", "S", << >>, c.cfg.flt), Op("daf", "S", << >>, c.cfg.flt) >>
           ELSE << Op("dis", "L", KStreamB(c), c.cfg.flt), Op("daf", "L", KStreamB(c), c.cfg.flt) >>

(***************************************************************************)
(* Mode R: statements for the read / written sets                          *)
(***************************************************************************)
RLhs == { va, B("Sub", va, vi), B("Sub", va, Sum2(vi, vb)), B("Sub", vb, B("Sub", va, vi)),
          B("Sub", va, Call(vf, << vi >>)), B("Sub", va, N("Tup", << vi, vb >>)) }
RRhs == { KI(5), vb, Sum2(vb, vi), N("Product", << KI(2), va >>), Call(vf, << vb >>),
          Call(vf, << B("Sub", vb, vi) >>), B("Sub", vb, vi), Look(vb, "re"),
          IfE(Cmp(vi, "<", KI(0)), va, vb), Call(Call(vf, << va >>), << vi >>),
          B("Power", va, KI(2)), CallKw(vf, << vb >>, << KwArg("k", vi) >>) }
RCond == { NoneE, TrueE, Cmp(vi, "<", KI(3)), Cmp(vb, "==", va), Call(vf, << vi >>),
           N("LogAnd", << Cmp(vx, ">", KI(0)), vb >>),
           \* round 8: conditions that are FALSY as Python objects (a literal False / 0, a product
           \* with a zero factor - the only place where i or vx occurs): a condition is data,
           \* whatever a truth test says about it
           K(BoolV(FALSE)), KI(0), N("Product", << KI(0), vi >>), B("Quotient", KI(0), vx) }
RStmts == {NopS("s", << >>)}
          \cup {(IF c.t = "None" THEN AssignS("s", << >>, l, r) ELSE CondAssignS("s", << >>, l, r, c)) :
                   l \in RLhs, r \in RRhs, c \in RCond}

(***************************************************************************)
(* Mode G: all labelled DAGs on n <= MaxN nodes, built node by node        *)
(***************************************************************************)
GName(j) == "n" \o ToString(j)
GEdges(d) == UNION {{<< k, j >> : j \in d[k]} : k \in 1..Len(d)}
GStream(n, d) == [k \in 1..n |-> NopS(GName(k), [j \in 1..Len(IdxSeq(d[k], n)) |-> GName(IdxSeq(d[k], n)[j])])]

(***************************************************************************)
(* Mode L: long chains n1 <- n2 <- ... <- nn (6..8 nodes) with shortcut    *)
(* edges, listed in three different statement orders (the export iterates  *)
(* over a dict in list order).  The closure-then-reduce algorithm is only  *)
(* sensitive to incomplete closures on paths of 5 edges or more, which no  *)
(* DAG of mode G has.                                                      *)
(***************************************************************************)
RECURSIVE SmallSubsets(_, _)
SmallSubsets(S, k) == IF k = 0 THEN {{}}
                      ELSE LET prev == SmallSubsets(S, k - 1) IN
                           prev \cup {sx[1] \cup {sx[2]} : sx \in prev \X S}
LShort(n) == {ij \in (1..n) \X (1..n) : ij[2] > ij[1] + 1}
LShortSets(n) == IF n = 6 THEN SUBSET LShort(n)
                 ELSE SmallSubsets(LShort(n), IF Tier = "thorough" THEN 3 ELSE 2)
LPerms(n) == { [p \in 1..n |-> p], [p \in 1..n |-> n + 1 - p],
               [p \in 1..n |-> IF p <= (n + 1) \div 2 THEN 2 * p - 1
                                ELSE 2 * (p - ((n + 1) \div 2))] }
LCases == UNION {{[n |-> n, sc |-> sc, perm |-> pm] : sc \in LShortSets(n), pm \in LPerms(n)} :
                    n \in 6..8}
LDeps(c, k) == (IF k < c.n THEN {k + 1} ELSE {}) \cup {ij[2] : ij \in {x \in c.sc : x[1] = k}}
LStream(c) == [p \in 1..c.n |->
                 LET k == c.perm[p]  ds == IdxSeq(LDeps(c, k), c.n) IN
                 NopS(GName(k), [j \in 1..Len(ds) |-> GName(ds[j])])]

(***************************************************************************)
(* The generator                                                           *)
(***************************************************************************)
Init ==
    IF Tier = "sim"
    THEN mode = "H" /\ st \in {[cls |-> c, init |-> HPool[p], ops |-> << >>, alias |-> c.al] :
                                  c \in HClasses, p \in 1..Len(HPool)}
    ELSE
    \/ "F" \in Modes /\ mode = "F" /\ st \in {[SA |-> S, SB |-> << >>, stage |-> 0] : S \in SkelsA}
    \/ "D" \in Modes /\ mode = "D" /\ st \in {[SA |-> S, SB |-> << >>, flt |-> FltDefault, stage |-> 0] : S \in DStreamsA}
    \/ "H" \in Modes /\ mode = "H" /\ st \in {[cls |-> c, init |-> HPool[p], ops |-> << >>, alias |-> c.al] :
                                c \in HClasses, p \in 1..Len(HPool)}
    \/ "P" \in Modes /\ mode = "P" /\ st \in {[SA |-> S, SB |-> << >>, flt |-> FltDefault, shape |-> sh, stage |-> 0] :
                                S \in PInits, sh \in PShapes}
    \/ "K" \in Modes /\ mode = "K" /\ st \in {[sh |-> j, p |-> pp, cc |-> << NoneE, NoneE >>,
                                               cfg |-> KCfg("z", FltDefault), stage |-> 0] :
                                                  j \in 1..NKS, pp \in KPlacements}
    \/ "R" \in Modes /\ mode = "R" /\ st \in {[s |-> s] : s \in RStmts}
    \/ "G" \in Modes /\ mode = "G" /\ st \in {[n |-> n, d |-> << >>] : n \in 0..MaxN}
    \/ "L" \in Modes /\ mode = "L" /\ st \in LCases

Next ==
    /\ UNCHANGED mode
    /\ \/ /\ mode = "F" /\ st.stage = 0
          /\ \E S \in SkelsB : FPairOK(st.SA, S) /\ st' = [st EXCEPT !.SB = S, !.stage = 1]
       \/ /\ mode = "D" /\ st.stage = 0
          /\ \E S \in DStreamsB : st' = [st EXCEPT !.SB = S, !.stage = 1]
       \/ /\ mode = "D" /\ st.stage = 1
          /\ \E flt \in DFilters : st' = [st EXCEPT !.flt = flt, !.stage = 2]
       \/ /\ mode = "P" /\ st.stage = 0
          /\ \E S \in (IF st.shape = "s" THEN {<< >>} ELSE PXs) : st' = [st EXCEPT !.SB = S, !.stage = 1]
       \/ /\ mode = "P" /\ st.stage = 1
          /\ \E flt \in PFilters : st' = [st EXCEPT !.flt = flt, !.stage = 2]
       \/ /\ mode = "K" /\ st.stage = 0
          /\ \E cc \in KConstPairs : st' = [st EXCEPT !.cc = cc, !.stage = 1]
       \/ /\ mode = "K" /\ st.stage = 1
          /\ \E cfg \in KCfgs : st' = [st EXCEPT !.cfg = cfg, !.stage = 2]
       \/ /\ mode = "H" /\ Len(st.ops) < st.cls.d
          /\ IF Tier = "sim"
             THEN st' = [st EXCEPT !.ops = Append(@, RandomElement(HOps(st.cls.c)))]
             ELSE \E o \in HOps(st.cls.c) : st' = [st EXCEPT !.ops = Append(@, o)]
       \/ /\ mode = "G" /\ Len(st.d) < st.n
          /\ \E ds \in SUBSET ((1..st.n) \ {Len(st.d) + 1}) :
                \* quick tier: of the 5-node DAGs only those whose first node has 0, 3 or 4
                \* dependencies (about a third); all DAGs with <= 4 nodes; thorough: all
                /\ (Tier # "quick" \/ st.n < 5 \/ Len(st.d) > 0 \/ Cardinality(ds) \in {0, 3, 4})
                /\ AcyclicE(GEdges(Append(st.d, ds)))
                /\ st' = [st EXCEPT !.d = Append(@, ds)]

Complete ==
    CASE mode = "F" -> st.stage = 1
      [] mode = "D" -> st.stage = 2
      [] mode = "H" -> Len(st.ops) = st.cls.d
      [] mode = "P" -> st.stage = 2
      [] mode = "K" -> st.stage = 2
      [] mode = "R" -> TRUE
      [] mode = "G" -> Len(st.d) = st.n
      [] mode = "L" -> TRUE

(***************************************************************************)
(* Checked on the model                                                    *)
(***************************************************************************)
\* every generated stream is one the property quantifies over
GeneratedWellFormed ==
    /\ mode = "F" /\ Complete => WellFormed(st.SA) /\ WellFormed(st.SB) /\ StreamOK(st.SA) /\ StreamOK(st.SB)
    /\ mode = "D" /\ Complete => WellFormed(st.SA) /\ WellFormed(st.SB) /\ StreamOK(st.SA) /\ StreamOK(st.SB)
    /\ mode = "P" /\ Complete => WellFormed(st.SA) /\ WellFormed(st.SB) /\ StreamOK(st.SA) /\ StreamOK(st.SB)
    /\ mode = "K" /\ Complete =>
          /\ WellFormed(KStreamA(st)) /\ WellFormed(KStreamB(st))
          /\ StreamOK(KStreamA(st)) /\ StreamOK(KStreamB(st))
          \* the two expressions really are look-alikes: compound, equal for Python's ==,
          \* different as trees
          /\ LET e1 == KShape(st.sh, st.cc[1])  e2 == KShape(st.sh, st.cc[2]) IN
             e1.t # "Const" /\ e1 # e2 /\ PyEq(e1, e2)
    /\ mode = "G" /\ Complete => WellFormed(GStream(st.n, st.d))
    /\ mode = "L" => WellFormed(LStream(st))
    \* the two formulations of acyclicity agree, also on the cyclic candidates
    /\ mode = "G" /\ Len(st.d) < st.n =>
          \A ds \in SUBSET ((1..st.n) \ {Len(st.d) + 1}) :
              AcyclicE(GEdges(Append(st.d, ds))) <=> AcyclicByClosure(GEdges(Append(st.d, ds)))

\* M-layer sanity: TR is the least edge set with the same reachability (unique reduction)
TRUnique ==
    mode = "G" /\ Complete =>
        LET E == DepEdges(GStream(st.n, st.d)) IN
        /\ TC(TR(E)) = TC(E)
        /\ (st.n <= 4 \/ Tier = "thorough") => TRIrredundant(E)
        /\ st.n <= 4 => TRIsLeast(E)

TRPreservesReachabilityL ==
    mode = "L" => LET E == DepEdges(LStream(st)) IN TC(TR(E)) = TC(E)

\* A-layer refines M-layer (algorithms as repaired / as they are where no deviation is known)
AlgoRefinesMeaning ==
    /\ mode = "F" /\ Complete =>
          FuseClause(st.SA, st.SB, FuseImplResult(st.SA, st.SB), FuseImplMap(st.SA, st.SB)) = "OK"
    /\ mode = "D" /\ Complete =>
          DisClause(st.SA, st.SB, st.flt, DisImplResult(st.SA, st.SB, st.flt, FALSE),
                    DisImplMap(st.SA, st.SB, st.flt, FALSE)) = "OK"
    /\ mode = "P" /\ Complete =>
          LET SB == IF st.shape = "s" THEN st.SA ELSE st.SB IN
          DisClause(st.SA, SB, st.flt, DisImplResult(st.SA, SB, st.flt, FALSE),
                    DisImplMap(st.SA, SB, st.flt, FALSE)) = "OK"
    /\ mode = "K" /\ Complete =>
          LET SA == KStreamA(st)  SB == KStreamB(st)  flt == st.cfg.flt
              R  == DisImplResult(SA, SB, flt, FALSE)
              C  == DisImplCachedResult(SA, SB, flt)
              sg == DisImplMap(SA, SB, flt, FALSE)
          IN  /\ DisClause(SA, SB, flt, R, sg) = "OK"
              \* the judgement is strict about the kinds of constants: whatever a memoising
              \* renamer confuses is named by one of the three expression clauses, and the
              \* difference is attributed to the kinds alone
              /\ C # R => /\ DisClause(SA, SB, flt, C, sg) \in {"dis-lhs", "dis-rhs", "dis-cond"}
                          /\ KindOnly(C, R)
    /\ mode = "R" => RWClause(st.s, ReadsImpl(st.s, FALSE), WritesImpl(st.s)) = "OK"
    /\ mode = "G" /\ Complete =>
          DotImplEdges(GStream(st.n, st.d)) = TR(DepEdges(GStream(st.n, st.d)))
    /\ mode = "L" => DotImplEdges(LStream(st)) = TR(DepEdges(LStream(st)))

\* Controls (own cfgs, never part of a generating run).  The memoising renamer of C20_Algo
\*   C20_Gen_bug_CachedMapper : Ctl_CachedRefines must be VIOLATED - the strict clauses reject it;
\*   C20_Gen_blind_LooseEq    : Ctl_CachedLooseOK must HOLD on every K input - clauses that compare
\*                              the expressions with Python's == accept it, although it changes a
\*                              constant's kind on EVERY input of mode K (Ctl_CachedAlwaysDiffers):
\*                              the blind spot that strict trees + mode K close.
KCached == DisImplCachedResult(KStreamA(st), KStreamB(st), st.cfg.flt)
KSg     == DisImplMap(KStreamA(st), KStreamB(st), st.cfg.flt, FALSE)
Ctl_CachedRefines ==
    mode = "K" /\ Complete => DisClause(KStreamA(st), KStreamB(st), st.cfg.flt, KCached, KSg) = "OK"
Ctl_CachedLooseOK ==
    mode = "K" /\ Complete => DisClauseLoose(KStreamA(st), KStreamB(st), st.cfg.flt, KCached, KSg) = "OK"
Ctl_CachedAlwaysDiffers ==
    mode = "K" /\ Complete => KCached # DisImplResult(KStreamA(st), KStreamB(st), st.cfg.flt, FALSE)

\* what the transcription of the code as it is predicts.  The named deviation
\* Dev_ReadsIgnoreLhs was repaired in /repo (737009d, findings C20-F1..F3 "fixed"), so the
\* code as it is no longer has it; CodeHasDev = TRUE gives the prediction for the old code.
CodeHasDev == FALSE
Pred ==
    CASE mode = "D" -> DisClause(st.SA, st.SB, st.flt, DisImplResult(st.SA, st.SB, st.flt, CodeHasDev),
                                 DisImplMap(st.SA, st.SB, st.flt, CodeHasDev))
      [] mode = "K" -> DisClause(KStreamA(st), KStreamB(st), st.cfg.flt,
                                 DisImplResult(KStreamA(st), KStreamB(st), st.cfg.flt, CodeHasDev),
                                 DisImplMap(KStreamA(st), KStreamB(st), st.cfg.flt, CodeHasDev))
      [] mode = "R" -> RWClause(st.s, ReadsImpl(st.s, CodeHasDev), WritesImpl(st.s))
      [] mode = "F" -> "OK"
      [] mode = "G" -> "OK"
      [] mode = "L" -> "OK"
      [] OTHER -> "-"

Case ==
    CASE mode = "F" -> [k |-> "hist", init |-> st.SA, pred |-> Pred, alias |-> 0,
                        ops |-> << Op("fuse", "L", st.SB, FltDefault) >>]
      [] mode = "D" -> [k |-> "hist", init |-> st.SA, pred |-> Pred, alias |-> 0,
                        ops |-> << Op("dis", "L", st.SB, st.flt), Op("daf", "L", st.SB, st.flt) >>]
      [] mode = "H" -> [k |-> "hist", init |-> st.init, pred |-> Pred, alias |-> st.alias, ops |-> st.ops]
      [] mode = "P" -> [k |-> "hist", init |-> st.SA, pred |-> Pred, alias |-> 1, ops |-> POps(st)]
      [] mode = "K" -> [k |-> "hist", g |-> "K", init |-> KStreamA(st), pred |-> Pred,
                        alias |-> (IF st.cfg.a = "self" THEN 1 ELSE 0), ops |-> KOps(st)]
      [] mode = "R" -> [k |-> "rw", s |-> st.s, pred |-> Pred]
      [] mode = "G" -> [k |-> "dot", S |-> GStream(st.n, st.d), pred |-> Pred]
      [] mode = "L" -> [k |-> "dot", S |-> LStream(st), pred |-> Pred]

Emit == Complete => PrintT(ToJson(Case))
=============================================================================
