------------------------------- MODULE C15_Big -------------------------------
(***************************************************************************)
(* C15, large values: affine systems whose constant terms and parameter    *)
(* coefficients are integers beyond 2**53 (where a detour through floating *)
(* point is no longer exact).  The equations are written over placeholder  *)
(* names K1..K4 whose values are BigNum constants; the driver writes the    *)
(* integers in their place.  An accepted system's solution must satisfy     *)
(* every equation: both sides are evaluated exactly (BigEval) with the      *)
(* returned expressions in place of the unknowns, for several values of the *)
(* parameter (a mismatch at one value refutes "identically in p").          *)
(***************************************************************************)
EXTENDS BigEval, Json
VARIABLE sys

BigConsts == [K1 |-> [s |-> 1, m |-> << 993, 5474, 1992, 9007 >>],         \* 2**53 + 1
              K2 |-> [s |-> 1, m |-> << 3, 0, 0, 0, 10 >>],                \* 10**17 + 3
              K3 |-> [s |-> 1, m |-> << 6977, 4606, 1504, 1529, 1 >>],     \* 2**60 + 1
              K4 |-> [s |-> -1, m |-> << 1615, 955, 737, 6744, 1844 >>]]   \* -(2**64 - 1)
ParamValues == << BZero, FromInt(1), FromInt(-7), [s |-> 1, m |-> << 7297, 9496, 42 >>] >>

x == V("x")  y == V("y")  pp == V("p")
\* an equation: a1*x + a2*y + l*p = b*p + c   with a1, a2, l small integers and b, c small
\* integers or placeholder names
\* (a placeholder Ki is written as the code 1000 + i: TLC does not compare strings with integers)
KNames == << "K1", "K2", "K3", "K4" >>
CoefE(k) == IF k > 1000 THEN V(KNames[k - 1000]) ELSE KI(k)
IsZeroK(k) == k = 0
TermOfB(k, v) == IF k = 1 THEN v ELSE N("Product", << CoefE(k), v >>)
OptB(k, v) == IF IsZeroK(k) THEN << >> ELSE << TermOfB(k, v) >>
SumOfB(ts) == IF Len(ts) = 0 THEN KI(0) ELSE IF Len(ts) = 1 THEN ts[1] ELSE N("Sum", ts)
LhsB(q) == SumOfB(OptB(q.a1, x) \o OptB(q.a2, y) \o OptB(q.l, pp))
RhsB(q) == SumOfB(OptB(q.b, pp) \o (IF IsZeroK(q.c) THEN << >> ELSE << CoefE(q.c) >>))

EqSetBig == [a1 : {1, -1}, a2 : {0, 1, -1}, l : {0, 1}, b : {0, 1003}, c : {1001, 1002, 1004, -3}]
Init == sys \in EqSetBig \X EqSetBig
Next == FALSE /\ UNCHANGED sys
Emit == PrintT(ToJson([kind |-> "bigsolve", eqs |-> << sys[1], sys[2] >>,
                       exprs |-> [i \in 1..2 |-> [lhs |-> LhsB(sys[i]), rhs |-> RhsB(sys[i])]]]))
ASSUME PrintT(ToJson([bigconsts |-> BigConsts]))

\* judgement of one recorded result
EnvFor(pv, vx, vy) == [p |-> pv, x |-> vx, y |-> vy, K1 |-> BigConsts.K1, K2 |-> BigConsts.K2,
                       K3 |-> BigConsts.K3, K4 |-> BigConsts.K4]
SolOf(res, name) == res.sol[CHOOSE j \in 1..Len(res.sol) : res.sol[j].name = name].e
SatisfiedAt(exprs, res, pv) ==
    LET e0 == EnvFor(pv, BZero, BZero)
        vx == BEval(SolOf(res, "x"), e0)
        vy == BEval(SolOf(res, "y"), e0) IN
    IF ~IsBig(vx) \/ ~IsBig(vy) THEN "NA"
    ELSE LET env == EnvFor(pv, vx.v, vy.v)
             ok(i) == LET l == BEval(exprs[i].lhs, env) r == BEval(exprs[i].rhs, env) IN
                      IsBig(l) /\ IsBig(r) /\ BigEq(l.v, r.v)
         IN IF \A i \in 1..Len(exprs) : ok(i) THEN "EQ" ELSE "NE"
\* a number that is not an exact integer (the driver writes [t |-> "Inexact"] for a float) has no
\* place in the solution of an integer system with unit pivots
RECURSIVE HasInexact(_)
HasInexact(e) == IF e.t = "Inexact" THEN TRUE
                 ELSE IF e.t = "BigConst" THEN FALSE
                 ELSE \E i \in 1..Len(Kids(e)) : HasInexact(Kids(e)[i])
JudgeBigSolve(rec) ==
    LET res == rec.res IN
    IF res.r = "unser" THEN "SKIP"
    ELSE IF res.r = "err" THEN "REFUSED"
    ELSE IF \E j \in 1..Len(res.sol) : HasInexact(res.sol[j].e) THEN "inexact-number-in-solution"
    ELSE IF \E n \in {"x", "y"} : ~\E j \in 1..Len(res.sol) : res.sol[j].name = n
         THEN "unknown-without-assignment"
    \* a singular system determines no unique values: it must be refused (as in C15_Linear)
    ELSE IF rec.eqs[1].a1 * rec.eqs[2].a2 - rec.eqs[1].a2 * rec.eqs[2].a1 = 0 THEN "accepted-singular-system"
    ELSE LET vs == [k \in 1..Len(ParamValues) |-> SatisfiedAt(rec.exprs, res, ParamValues[k])] IN
         IF \E k \in 1..Len(vs) : vs[k] = "NE" THEN "solution-does-not-satisfy-equations"
         ELSE IF \E k \in 1..Len(vs) : vs[k] = "NA" THEN "SKIP" ELSE "OK"
\* the judge judges: the exact solution of a sample system is accepted, the one a float detour gives is not
ASSUME LET ex == << [lhs |-> x, rhs |-> V("K1")], [lhs |-> y, rhs |-> KI(-3)] >>
           good == [r |-> "ok", sol |-> << [name |-> "x", e |-> [t |-> "BigConst", v |-> BigConsts.K1]], [name |-> "y", e |-> KI(-3)] >>]
           bad == [r |-> "ok", sol |-> << [name |-> "x", e |-> [t |-> "BigConst", v |-> BigSub(BigConsts.K1, FromInt(1))]], [name |-> "y", e |-> KI(-3)] >>]
           qs == << [a1 |-> 1, a2 |-> 0], [a1 |-> 0, a2 |-> 1] >>
       IN JudgeBigSolve([eqs |-> qs, exprs |-> ex, res |-> good]) = "OK"
          /\ JudgeBigSolve([eqs |-> qs, exprs |-> ex, res |-> bad]) = "solution-does-not-satisfy-equations"
=============================================================================
