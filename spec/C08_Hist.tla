------------------------------ MODULE C08_Hist ------------------------------
(***************************************************************************)
(* S-layer for C08: substitution as a state machine over HISTORIES of      *)
(* calls that share argument objects.                                      *)
(*                                                                         *)
(* The caller owns a few dict objects (slots 1..NSlots) and a few          *)
(* expression objects; it calls                                            *)
(*     substitute(e, d, **kw)      replacements by dict, by keyword        *)
(*     substitute(e, **kw)         arguments, or by both (d = 0: no dict)  *)
(*     m_d(e)                      one long-lived SubstitutionMapper /     *)
(*                                 CachedSubstitutionMapper instance made  *)
(*                                 from make_subst_func(d), called again   *)
(*                                 and again                               *)
(* in any order, re-using the same dict object in later calls, and may put *)
(* a further entry into one of its own dicts between two calls.            *)
(*                                                                         *)
(* The property, per call: the call means ITS OWN arguments - the result   *)
(* satisfies the substitution lemma for the map  own[d] ++ kw  that the    *)
(* caller wrote down for this call, whatever was called before ("names     *)
(* that are not mentioned are left alone": a name that was mentioned only  *)
(* in an EARLIER call is not mentioned).  That holds in every history iff  *)
(* the argument objects are not changed by a call, so the dicts are part   *)
(* of the state:                                                           *)
(*    own    what the caller put into each dict object                     *)
(*    heap   what the dict object holds in the design                      *)
(*    dflt   what the design starts from when no dict is passed            *)
(* Merge selects the design:                                               *)
(*    "copy"          merge kw into a private copy (what the code does)    *)
(*    "inplace"       merge kw into the caller's object (negative control: *)
(*                    TLC must reach a state that refutes both             *)
(*                    CallerMapsUnchanged and EveryCallMeansItsArguments:  *)
(*                    NotBothBroken, two calls)                            *)
(*    "shareddefault" the no-dict case starts from one shared dict that is *)
(*                    updated in place (negative control: no caller object *)
(*                    is touched, yet EveryCallMeansItsArguments fails)    *)
(* Every complete history is printed; the driver replays it on real        *)
(* objects, recording after every event the result tree, the contents of   *)
(* EVERY dict object and the expression argument; C08_HJudge steps this    *)
(* machine along the recorded events.                                      *)
(***************************************************************************)
EXTENDS C08_Env, Json
CONSTANTS Merge, MaxOps, NPairs, NTrees, NKw, WithPut, Filter, Rand
VARIABLES own, heap, dflt, hist, wrong, init, sv

x == V("x")  y == V("y")  z == V("z")  bb == V("b")
ff == V("f") gg == V("g") tt == V("t") oo == V("o")
S1 == B("Sub", tt, KI(1))
LP == Look(oo, "p")
Y1 == N("Sum", << y, KI(1) >>)
X2 == N("Product", << x, KI(2) >>)

NX(v) == NameEntry("x", v)   NY(v) == NameEntry("y", v)   NZ(v) == NameEntry("z", v)
VX(v) == ExprEntry(x, v)     ES1(v) == ExprEntry(S1, v)   ELP(v) == ExprEntry(LP, v)

\* ---- the caller's objects -------------------------------------------------------
HTrees == <<
  N("Sum", << N("Product", << x, z >>), y >>),                 \* x*z + y
  N("Sum", << x, N("Product", << KI(-1), y >>) >>),            \* x - y: a swap shows
  CallKw(ff, << x >>, << KwArg("k1", z) >>),                   \* f(x, k1=z)
  N("Sum", << S1, N("Product", << z, y >>), LP >>),            \* t[1] + z*y + o.p
  IfE(Cmp(x, "<", z), y, z),
  N("Sum", << B("Quotient", y, z), B("Power", x, KI(2)) >>) >>

NSlots == 2
MapPairs == <<
  << << NX(Y1) >>, << >> >>,
  << << NX(y) >>, << VX(z) >> >>,
  << << ES1(z), NY(KI(2)) >>, << NX(y), NY(x) >> >>,
  << << NX(KI(0)) >>, << NX(KI(0)) >> >>,      \* equal contents, two objects
  << << >>, << NameEntry("f", gg) >> >>,
  << << NX(Y1), ELP(y) >>, << NZ(x) >> >> >>

KwSeq == << << >>, << NZ(X2) >>, << NY(x) >>, << NX(z) >>, << NZ(KI(1)), NY(x) >> >>
PutSeq == << NZ(y), ES1(x) >>


\* ---- the state machine ---------------------------------------------------------------
Init == /\ init \in { MapPairs[i] : i \in 1..NPairs }
        /\ own = init /\ heap = init /\ dflt = << >>
        /\ hist = << >> /\ wrong = FALSE
        /\ sv \in {"s", "q"}          \* which mapper class this history's substitute() calls use

\* the substitution lemma for one call: the result against the caller's own arguments
Breaks(e, res, eff) ==
    \E i \in 1..Len(Envs) :
        Eval(Lower(res), Envs[i]) # Eval(LemmaRhsTree(e, eff), EnvOf(eff, Envs[i]))

CallOp(d, kw, ti, via) ==
    LET mine == IF d = 0 THEN << >> ELSE own[d]
        base == IF d = 0 THEN dflt ELSE heap[d]
        e == HTrees[ti]
        effD == base \o kw            \* what the design substitutes with
        effO == mine \o kw            \* what the caller wrote down for this call
    IN /\ Fits(mine, kw)
       /\ wrong' = (wrong \/ Breaks(e, Subst(e, effD), effO))
       /\ heap' = IF Merge = "inplace" /\ d > 0 THEN [heap EXCEPT ![d] = effD] ELSE heap
       /\ dflt' = IF Merge = "shareddefault" /\ d = 0 THEN effD ELSE dflt
       /\ hist' = Append(hist, [op |-> "call", d |-> d, kw |-> kw, e |-> e, via |-> via])
       /\ UNCHANGED << own, init, sv >>

PutOp(d, en) ==
    /\ ~HasKey(own[d], en)
    /\ own' = [own EXCEPT ![d] = Append(@, en)]
    /\ heap' = [heap EXCEPT ![d] = Append(@, en)]
    /\ hist' = Append(hist, [op |-> "put", d |-> d, en |-> en])
    /\ UNCHANGED << dflt, wrong, init, sv >>

\* the alphabet of one step, and which of it is enabled
SubstOps == { [kind |-> "call", d |-> d, k |-> k, ti |-> ti, via |-> sv, pe |-> 0] :
                d \in 0..NSlots, k \in 1..NKw, ti \in 1..NTrees }
MapperOps == { [kind |-> "call", d |-> d, k |-> 1, ti |-> ti, via |-> via, pe |-> 0] :
                d \in 1..NSlots, ti \in 1..NTrees, via \in {"p", "c"} }
PutOps == IF WithPut
          THEN { [kind |-> "put", d |-> d, k |-> 1, ti |-> 1, via |-> "put", pe |-> pe] :
                   d \in 1..NSlots, pe \in 1..Len(PutSeq) }
          ELSE {}
Guard(o) == IF o.kind = "put" THEN ~HasKey(own[o.d], PutSeq[o.pe])
            ELSE Fits(IF o.d = 0 THEN << >> ELSE own[o.d], KwSeq[o.k])
Do(o) == IF o.kind = "put" THEN PutOp(o.d, PutSeq[o.pe]) ELSE CallOp(o.d, KwSeq[o.k], o.ti, o.via)

\* Rand (for -simulate): one draw per step - TLC checks the invariants (and so would print)
\* on every successor it generates; the kind of event is drawn first so that puts and
\* long-lived mappers are not drowned by the many substitute() calls
Draw == LET c == RandomElement(1..5)
            pool == IF c = 4 THEN MapperOps ELSE IF c = 5 THEN PutOps ELSE SubstOps
            en == { o \in pool : Guard(o) }
        IN IF en # {} THEN RandomElement(en) ELSE RandomElement({ o \in SubstOps : Guard(o) })
Next == /\ Len(hist) < MaxOps
        /\ IF Rand THEN Do(Draw)
           ELSE \E o \in SubstOps \cup MapperOps \cup PutOps : Do(o)

\* ---- the property on the design ----------------------------------------------------------
CallerMapsUnchanged == heap = own
EveryCallMeansItsArguments == ~wrong
\* for the negative control "inplace": a reachable state in which both fail refutes both
NotBothBroken == ~(wrong /\ heap # own)

\* ---- emission ------------------------------------------------------------------------------
Polluting(ev) == ev.op = "put" \/ ev.kw # << >>
\* beyond two events only the histories whose last call re-uses an object that an earlier
\* event wrote to or passed next to keyword arguments (the others are shorter histories
\* plus an independent call)
Connected == LET n == Len(hist) IN
             \E j \in 1..(n - 1) : Polluting(hist[j]) /\ hist[j].d = hist[n].d
Emit == (Len(hist) = MaxOps /\ hist[MaxOps].op = "call" /\ (~Filter \/ Connected))
            => PrintT(ToJson([maps |-> init, hist |-> hist]))
=============================================================================
