CONSTANTS
  Memo = "strict"
  MaxLen = 2
INIT Init
NEXT Next
INVARIANT HistoryFree
CHECK_DEADLOCK FALSE
