------------------------------ MODULE C14_CModel ------------------------------
(***************************************************************************)
(* A-layer for C14, value half: what the code does, and what C makes of it.*)
(*                                                                         *)
(*  CText(e, prec)  : transcription of CCodeMapper's map_* together with   *)
(*                    the inherited StringifyMapper /                      *)
(*                    SimplifyingSortingStringifyMapper methods, with the  *)
(*                    code's PREC_* constants, parenthesize_if_needed      *)
(*                    (strictly greater), force_parens_around, the         *)
(*                    a + -1*b => a - b rewrite, the x**0/1/2 expansion,   *)
(*                    as a sequence of C tokens.                           *)
(*     Dev_NoSort   : the code sorts the positive / negative terms of a    *)
(*                    sum by their text; TLA+ has no order on strings, the *)
(*                    transcription keeps operand order.  + is commutative *)
(*                    on the exact values of both fragments, so the value  *)
(*                    is the same (CCodeMapper.map_product does not sort). *)
(*     Dev_CSEAsCast: a wrapper is printed as T(<child text>), a cast to   *)
(*                    the fragment's type, instead of a hoisted temporary  *)
(*                    of that type assigned earlier (same value).          *)
(*  CParse(tokens)  : ISO C expression grammar (6.5) as a precedence       *)
(*                    climbing parser: M-layer, written from the standard. *)
(*  CEval(ast, env) : ISO C semantics on the two fragments: usual          *)
(*                    arithmetic conversions long/double, truncating       *)
(*                    integer division, % with the dividend's sign, pow    *)
(*                    is a double, comparisons and logic yield int, ?: &&  *)
(*                    || are lazy, integer division by zero traps.         *)
(*                                                                         *)
(* TLC uses it (i) on the model, before any code runs: "CText refines      *)
(* Eval", i.e. CEval(CParse(CText(e))) = Eval(e) on the generated space -- *)
(* every refutation is a named design-level failure class (C14_Gen prints  *)
(* them) -- and (ii) in the judge as drift detector: the value the real    *)
(* program printed vs the value the transcription predicts.  It never      *)
(* decides a verdict (DESIGN 3.2).                                         *)
(***************************************************************************)
EXTENDS C14_CSem

\* --------------------------------------------------------------- tokens
Tok(k, s, v) == [k |-> k, s |-> s, v |-> v]
Pt(s)  == Tok("p", s, IntV(0))
Idt(s) == Tok("id", s, IntV(0))
Numt(v) == Tok("num", "", v)

PREC_CALL == 15  PREC_POWER == 14  PREC_UNARY == 13  PREC_PRODUCT == 12  PREC_SUM == 11
PREC_SHIFT == 10 PREC_BITWISE_AND == 9 PREC_BITWISE_XOR == 8 PREC_BITWISE_OR == 7
PREC_COMPARISON == 6 PREC_LOGICAL_AND == 5 PREC_LOGICAL_OR == 4 PREC_IF == 3 PREC_NONE == 0

Paren(ts) == << Pt("(") >> \o ts \o << Pt(")") >>
ParenIf(ts, enclosing, mine) == IF enclosing > mine THEN Paren(ts) ELSE ts
\* s[1] sep s[2] sep ... (s a sequence of token sequences)
JoinToks(s, sep) ==
    LET RECURSIVE Go(_)
        Go(i) == IF i > Len(s) THEN << >>
                 ELSE IF i = 1 THEN s[1] \o Go(2) ELSE << Pt(sep) >> \o s[i] \o Go(i + 1)
    IN Go(1)
Concat(s) == LET RECURSIVE Go(_) Go(i) == IF i > Len(s) THEN << >> ELSE s[i] \o Go(i + 1) IN Go(1)

IsConstE(e) == e.t = "Const"
ConstIs(e, n) == e.t = "Const" /\ e.v.k \in NumKinds /\ e.v.n = n * e.v.d
\* get_neg_product: Product whose first child is the number -1
\* (more than one factor: a lone -1 is not a minus sign - repaired in 3b11606)
HasNegProd(ch) == ch.t = "Product" /\ Len(ch.c) > 1 /\ ConstIs(ch.c[1], -1)
NegProd(ch) == IF Len(ch.c) = 2 THEN ch.c[2] ELSE N("Product", Tail(ch.c))
\* expr.base * expr.base through the overloaded operator
MulSelf(b) == IF b.t = "Const" THEN K(NumMul(b.v, b.v))
              ELSE IF b.t = "Product" THEN N("Product", b.c \o b.c)
              ELSE N("Product", << b, b >>)
Multiplicative == {"Product", "Quotient", "FloorDiv", "Remainder"}

RECURSIVE CText(_, _)
\* rec_with_force_parens_around
ForceRec(e, prec, force) == IF e.t \in force THEN Paren(CText(e, prec)) ELSE CText(e, prec)
BinText(e, op, lp, rp, mine, prec) ==
    ParenIf(CText(e.a, lp) \o << Pt(op) >> \o CText(e.b, rp), prec, mine)
NaryText(e, op, mine, prec) ==
    ParenIf(JoinToks([i \in 1..Len(e.c) |-> CText(e.c[i], mine)], op), prec, mine)

CText(e, prec) ==
    CASE e.t = "Var" -> << Idt(e.name) >>
      \* map_constant: str(x), parenthesised when it shows a sign above PREC_SUM
      [] e.t = "Const" ->
            IF e.v.n < 0 THEN ParenIf(<< Pt("-"), Numt(NumNeg(e.v)) >>, prec, PREC_SUM)
            ELSE << Numt(e.v) >>
      \* SimplifyingSortingStringifyMapper.map_sum
      [] e.t = "Sum" ->
            LET pos == SelectSeq(e.c, LAMBDA ch : ~HasNegProd(ch))
                neg == SelectSeq(e.c, HasNegProd)
                pt  == JoinToks([i \in 1..Len(pos) |-> CText(pos[i], PREC_SUM)], "+")
                nt  == Concat([i \in 1..Len(neg) |->
                                  << Pt("-") >> \o CText(NegProd(neg[i]), PREC_PRODUCT)])
            IN ParenIf(pt \o nt, prec, PREC_SUM)
      \* CCodeMapper.map_product: force_parens_around quotient-like factors (since 9976f2e), no sorting
      [] e.t = "Product" ->
            ParenIf(JoinToks([i \in 1..Len(e.c) |->
                                ForceRec(e.c[i], PREC_PRODUCT, {"Quotient", "FloorDiv", "Remainder"})], "*"),
                    prec, PREC_PRODUCT)
      [] e.t \in {"Quotient", "Remainder"} ->
            ParenIf(ForceRec(e.a, PREC_PRODUCT, Multiplicative)
                    \o << Pt(IF e.t = "Quotient" THEN "/" ELSE "%") >>
                    \o ForceRec(e.b, PREC_PRODUCT, Multiplicative), prec, PREC_PRODUCT)
      \* CCodeMapper.map_floor_div: always parenthesised, denominator at PREC_POWER
      [] e.t = "FloorDiv" ->
            Paren(CText(e.a, PREC_PRODUCT) \o << Pt("/") >> \o CText(e.b, PREC_POWER))
      \* CCodeMapper.map_power
      [] e.t = "Power" ->
            IF IsConstE(e.b) /\ ConstIs(e.b, 0) THEN << Numt(IntV(1)) >>
            \* the base stays one operand under a multiplicative operator (since dbbb155)
            ELSE IF IsConstE(e.b) /\ ConstIs(e.b, 1)
                 THEN CText(e.a, IF prec >= PREC_PRODUCT THEN PREC_POWER ELSE prec)
            \* base*base is a product of its own under a multiplicative operator (since c984897)
            ELSE IF IsConstE(e.b) /\ ConstIs(e.b, 2)
                 THEN CText(MulSelf(e.a), IF prec >= PREC_PRODUCT THEN PREC_POWER ELSE prec)
            ELSE << Idt("pow"), Pt("(") >> \o CText(e.a, PREC_NONE) \o << Pt(",") >>
                 \o CText(e.b, PREC_NONE) \o << Pt(")") >>
      [] e.t = "LShift" -> BinText(e, "<<", PREC_SHIFT + 1, PREC_SHIFT + 1, PREC_SHIFT, prec)
      [] e.t = "RShift" -> BinText(e, ">>", PREC_SHIFT + 1, PREC_SHIFT + 1, PREC_SHIFT, prec)
      [] e.t = "BitNot" -> ParenIf(<< Pt("~") >> \o CText(e.a, PREC_UNARY), prec, PREC_UNARY)
      [] e.t = "BitOr"  -> NaryText(e, "|", PREC_BITWISE_OR, prec)
      [] e.t = "BitXor" -> NaryText(e, "^", PREC_BITWISE_XOR, prec)
      [] e.t = "BitAnd" -> NaryText(e, "&", PREC_BITWISE_AND, prec)
      \* CCodeMapper.map_comparison: C's precedences (since 5fa221d) - operands at PREC_SHIFT
      [] e.t = "Cmp" -> BinText(e, e.op, PREC_SHIFT, PREC_SHIFT, PREC_COMPARISON, prec)
      [] e.t = "LogNot" -> ParenIf(<< Pt("!") >> \o CText(e.a, PREC_UNARY), prec, PREC_UNARY)
      [] e.t = "LogAnd" -> NaryText(e, "&&", PREC_LOGICAL_AND, prec)
      [] e.t = "LogOr"  -> NaryText(e, "||", PREC_LOGICAL_OR, prec)
      [] e.t = "If" -> Paren(CText(e.i, PREC_NONE) \o << Pt("?") >> \o CText(e.th, PREC_NONE)
                             \o << Pt(":") >> \o CText(e.el, PREC_NONE))
      [] e.t = "Call" ->
            (IF e.f.t = "Var" THEN << Idt(e.f.name) >> ELSE CText(e.f, PREC_CALL))
            \o Paren(JoinToks([i \in 1..Len(e.c) |-> CText(e.c[i], PREC_NONE)], ","))
      [] e.t = "Sub" -> ParenIf(CText(e.a, PREC_CALL) \o << Pt("[") >> \o CText(e.b, PREC_NONE)
                                \o << Pt("]") >>, prec, PREC_CALL)
      [] e.t = "Look" -> ParenIf(CText(e.a, PREC_CALL) \o << Pt("."), Idt(e.name) >>, prec, PREC_CALL)
      [] e.t = "CSE" -> << Idt("T") >> \o Paren(CText(e.a, PREC_NONE))     \* Dev_CSEAsCast
      [] OTHER -> << Idt("?unsupported") >>

(***************************************************************************)
(* ISO C expression grammar (6.5.1 - 6.5.15), binary operators by          *)
(* precedence climbing; all binary operators associate to the left, the    *)
(* conditional operator to the right.                                      *)
(***************************************************************************)
CBinPrec(s) ==
    CASE s \in {"*", "/", "%"} -> 13 [] s \in {"+", "-"} -> 12 [] s \in {"<<", ">>"} -> 11
      [] s \in {"<", "<=", ">", ">="} -> 10 [] s \in {"==", "!="} -> 9
      [] s = "&" -> 8 [] s = "^" -> 7 [] s = "|" -> 6 [] s = "&&" -> 5 [] s = "||" -> 4
      [] OTHER -> 0
CUnaryOps == {"-", "+", "!", "~"}

TokAt(ts, i) == IF i >= 1 /\ i <= Len(ts) THEN ts[i] ELSE Tok("eof", "", IntV(0))
IsP(ts, i, s) == TokAt(ts, i).k = "p" /\ TokAt(ts, i).s = s
PR(a, i) == [a |-> a, i |-> i]
CErr == [t |-> "cerr"]
PErr(ts) == PR(CErr, Len(ts) + 5)

RECURSIVE PExpr(_, _, _), PUnary(_, _), PPostfix(_, _, _), PArgs(_, _, _), PBinLoop(_, _, _, _)
PPrimary(ts, i) ==
    LET t == TokAt(ts, i) IN
    IF t.k = "num" THEN PR([t |-> "cnum", v |-> t.v], i + 1)
    ELSE IF t.k = "id" THEN
        (IF IsP(ts, i + 1, "(")
         THEN LET r == PArgs(ts, i + 2, << >>) IN
              IF ~r.ok THEN PErr(ts) ELSE PR([t |-> "ccall", f |-> t.s, c |-> r.a], r.i)
         ELSE PR([t |-> "cid", name |-> t.s], i + 1))
    ELSE IF IsP(ts, i, "(") THEN
        LET r == PExpr(ts, i + 1, 1) IN
        IF r.a # CErr /\ IsP(ts, r.i, ")") THEN PR(r.a, r.i + 1) ELSE PErr(ts)
    ELSE PErr(ts)
\* argument list after "(" ; the result's a is the sequence of argument trees
AR(ok, a, i) == [ok |-> ok, a |-> a, i |-> i]
PArgs(ts, i, acc) ==
    IF IsP(ts, i, ")") /\ acc = << >> THEN AR(TRUE, acc, i + 1)
    ELSE LET r == PExpr(ts, i, 1) IN
         IF r.a = CErr THEN AR(FALSE, << >>, r.i)
         ELSE IF IsP(ts, r.i, ",") THEN PArgs(ts, r.i + 1, Append(acc, r.a))
         ELSE IF IsP(ts, r.i, ")") THEN AR(TRUE, Append(acc, r.a), r.i + 1)
         ELSE AR(FALSE, << >>, r.i)
PPostfix(ts, a, i) ==
    IF a = CErr THEN PErr(ts)
    ELSE IF IsP(ts, i, "[") THEN
        LET r == PExpr(ts, i + 1, 1) IN
        IF r.a # CErr /\ IsP(ts, r.i, "]")
        THEN PPostfix(ts, [t |-> "cidx", a |-> a, b |-> r.a], r.i + 1) ELSE PErr(ts)
    ELSE IF IsP(ts, i, ".") /\ TokAt(ts, i + 1).k = "id"
         THEN PPostfix(ts, [t |-> "cdot", a |-> a, name |-> TokAt(ts, i + 1).s], i + 2)
    ELSE PR(a, i)
PUnary(ts, i) ==
    LET t == TokAt(ts, i) IN
    IF t.k = "p" /\ t.s \in CUnaryOps
    THEN LET r == PUnary(ts, i + 1) IN
         IF r.a = CErr THEN PErr(ts) ELSE PR([t |-> "cun", op |-> t.s, a |-> r.a], r.i)
    ELSE LET p == PPrimary(ts, i) IN PPostfix(ts, p.a, p.i)
\* minp: 1 = full (assignment-)expression, 3 = conditional-expression operand
PBinLoop(ts, lhs, i, minp) ==
    LET t == TokAt(ts, i) IN
    IF lhs = CErr THEN PErr(ts)
    ELSE IF t.k = "p" /\ CBinPrec(t.s) > 0 /\ CBinPrec(t.s) >= minp THEN
        LET r == PExpr(ts, i + 1, CBinPrec(t.s) + 1) IN
        IF r.a = CErr THEN PErr(ts)
        ELSE PBinLoop(ts, [t |-> "cbin", op |-> t.s, a |-> lhs, b |-> r.a], r.i, minp)
    ELSE IF IsP(ts, i, "?") /\ minp <= 3 THEN
        LET th == PExpr(ts, i + 1, 1) IN
        IF th.a = CErr \/ ~IsP(ts, th.i, ":") THEN PErr(ts)
        ELSE LET el == PExpr(ts, th.i + 1, 3) IN
             IF el.a = CErr THEN PErr(ts)
             ELSE PR([t |-> "ccond", i |-> lhs, th |-> th.a, el |-> el.a], el.i)
    ELSE PR(lhs, i)
PExpr(ts, i, minp) == LET u == PUnary(ts, i) IN PBinLoop(ts, u.a, u.i, minp)

CParse(ts) == LET r == PExpr(ts, 1, 1) IN IF r.a # CErr /\ r.i = Len(ts) + 1 THEN r.a ELSE CErr

(***************************************************************************)
(* ISO C semantics.  A C value is a PyNum value of kind "int" (long) or    *)
(* "flt" (double, exact dyadic), Err("SIGFPE") for the integer division    *)
(* trap, Unrep outside the exact model.  Static typing first (a type       *)
(* error anywhere rejects the whole translation unit).                     *)
(***************************************************************************)
RECURSIVE STy(_, _), CStaticOK(_, _)
STy(a, frag) ==
    CASE a.t = "cnum" -> IF a.v.k = "flt" THEN "double" ELSE "long"
      [] a.t = "cid" -> FragTy(frag)
      [] a.t = "cun" -> IF a.op \in {"!", "~"} THEN "long" ELSE STy(a.a, frag)
      [] a.t = "cbin" ->
            IF a.op \in {"+", "-", "*", "/", "%"}
            THEN (IF STy(a.a, frag) = "double" \/ STy(a.b, frag) = "double" THEN "double" ELSE "long")
            ELSE "long"
      [] a.t = "ccond" -> IF STy(a.th, frag) = "double" \/ STy(a.el, frag) = "double"
                          THEN "double" ELSE "long"
      [] a.t = "ccall" -> IF a.f = "pow" THEN "double" ELSE FragTy(frag)
      [] OTHER -> FragTy(frag)
IntOnlyOps == {"%", "<<", ">>", "&", "|", "^"}
CStaticOK(a, frag) ==
    CASE a.t \in {"cnum"} -> TRUE
      [] a.t = "cid" -> a.name \in {"x", "y", "z"}
      [] a.t = "cun" -> CStaticOK(a.a, frag) /\ (a.op = "~" => STy(a.a, frag) = "long")
      [] a.t = "cbin" -> /\ CStaticOK(a.a, frag) /\ CStaticOK(a.b, frag)
                         /\ (a.op \in IntOnlyOps =>
                                (STy(a.a, frag) = "long" /\ STy(a.b, frag) = "long"))
      [] a.t = "ccond" -> CStaticOK(a.i, frag) /\ CStaticOK(a.th, frag) /\ CStaticOK(a.el, frag)
      [] a.t = "ccall" -> /\ \A i \in 1..Len(a.c) : CStaticOK(a.c[i], frag)
                          /\ \/ (a.f \in {"pow", "f"} /\ Len(a.c) = 2)
                             \/ (a.f \in {"g", "T"} /\ Len(a.c) = 1)
      [] a.t = "cidx" -> a.a = [t |-> "cid", name |-> "t"] /\ CStaticOK(a.b, frag)
                         /\ STy(a.b, frag) = "long"
      [] a.t = "cdot" -> a.a = [t |-> "cid", name |-> "o"] /\ a.name = "p"
      [] OTHER -> FALSE

AsFlt(v) == [v EXCEPT !.k = "flt"]
TruncQ(n, d) == Sgn(n) * Sgn(d) * (Abs(n) \div Abs(d))
ConvTo(v, ty) ==
    IF ~IsNum(v) THEN v
    ELSE IF ty = "double" THEN AsFlt(v)
    ELSE IF v.k = "flt" THEN IntV(TruncQ(v.n, v.d)) ELSE v
NoPyErr(v) == IF IsErr(v) THEN Unrep ELSE v       \* Python's exceptions are not C's
C01(b) == IntV(IF b THEN 1 ELSE 0)
AsLong(v) == IF IsNum(v) THEN [v EXCEPT !.k = "int"] ELSE Unrep

CBinV(op, l, r) ==
    LET ints == l.k = "int" /\ r.k = "int" IN
    CASE op = "+" -> NoPyErr(NumAdd(l, r))
      [] op = "-" -> NoPyErr(NumSub(l, r))
      [] op = "*" -> NoPyErr(NumMul(l, r))
      [] op = "/" -> IF ints THEN (IF r.n = 0 THEN Err("SIGFPE") ELSE IntV(TruncQ(l.n, r.n)))
                     ELSE IF r.n = 0 THEN Unrep                     \* inf / nan
                     ELSE NoPyErr(NumTrueDiv(AsFlt(l), AsFlt(r)))
      [] op = "%" -> IF r.n = 0 THEN Err("SIGFPE") ELSE IntV(l.n - r.n * TruncQ(l.n, r.n))
      [] op = "<<" -> IF r.n < 0 \/ r.n > 14 \/ ~Small(l) THEN Unrep ELSE Chk(IntV(l.n * Pow2(r.n)))
      [] op = ">>" -> IF r.n < 0 \/ r.n > 14 \/ ~Small(l) THEN Unrep ELSE IntV(l.n \div Pow2(r.n))
      [] op = "&" -> AsLong(NumBit("and", l, r))
      [] op = "|" -> AsLong(NumBit("or", l, r))
      [] op = "^" -> AsLong(NumBit("xor", l, r))
      [] op \in CmpOps -> IF ~(Small(l) /\ Small(r)) THEN Unrep ELSE C01(CmpHolds(op, NumCmp3(l, r)))

RECURSIVE CEval(_, _, _)
CEval(a, env, frag) ==
    CASE a.t = "cnum" -> a.v
      [] a.t = "cid" -> env[a.name]
      [] a.t = "cun" ->
            LET v == CEval(a.a, env, frag) IN
            IF ~IsNum(v) THEN v
            ELSE (CASE a.op = "-" -> NumNeg(v) [] a.op = "+" -> v
                    [] a.op = "!" -> C01(v.n = 0) [] a.op = "~" -> NumInvert(v))
      [] a.t = "cbin" ->
            LET l == CEval(a.a, env, frag) IN
            IF ~IsNum(l) THEN l
            ELSE IF a.op = "&&" THEN
                (IF l.n = 0 THEN IntV(0)
                 ELSE LET r == CEval(a.b, env, frag) IN IF ~IsNum(r) THEN r ELSE C01(r.n # 0))
            ELSE IF a.op = "||" THEN
                (IF l.n # 0 THEN IntV(1)
                 ELSE LET r == CEval(a.b, env, frag) IN IF ~IsNum(r) THEN r ELSE C01(r.n # 0))
            ELSE LET r == CEval(a.b, env, frag) IN
                 IF ~IsNum(r) THEN r ELSE CBinV(a.op, l, r)
      [] a.t = "ccond" ->
            LET c == CEval(a.i, env, frag) IN
            IF ~IsNum(c) THEN c
            ELSE ConvTo(CEval(IF c.n # 0 THEN a.th ELSE a.el, env, frag), STy(a, frag))
      [] a.t = "ccall" ->
            LET vs == [i \in 1..Len(a.c) |-> CEval(a.c[i], env, frag)] IN
            IF \E i \in 1..Len(vs) : ~IsNum(vs[i])
            THEN vs[CHOOSE i \in 1..Len(vs) : ~IsNum(vs[i]) /\ \A j \in 1..(i - 1) : IsNum(vs[j])]
            ELSE (CASE a.f = "pow" -> IF vs[2].d # 1 THEN Unrep
                                     ELSE NoPyErr(NumPow(AsFlt(vs[1]), IntV(vs[2].n)))
                   [] a.f = "T" -> ConvTo(vs[1], FragTy(frag))
                   \* T f(T a, T b) { return 1 + 2*a + 3*b; }   T g(T a) { return 2 + 3*a; }
                   [] a.f = "f" ->
                        LET p == ConvTo(vs[1], FragTy(frag)) q == ConvTo(vs[2], FragTy(frag)) IN
                        NoPyErr(PyBin("+", PyBin("+", IntV(1), PyBin("*", IntV(2), p)),
                                      PyBin("*", IntV(3), q)))
                   [] a.f = "g" ->
                        LET p == ConvTo(vs[1], FragTy(frag)) IN
                        NoPyErr(PyBin("+", IntV(2), PyBin("*", IntV(3), p))))
      [] a.t = "cidx" ->
            LET i == CEval(a.b, env, frag) IN
            IF ~IsNum(i) THEN i
            ELSE IF i.n < 0 \/ i.n > 2 THEN Unrep
            ELSE ConvTo(env["t"].items[i.n + 1], FragTy(frag))
      [] a.t = "cdot" -> ConvTo(IntV(5), FragTy(frag))

\* what `T r = <CText(e)>;` prints, as the transcription predicts it:
\* [k |-> "cbad"] when gcc must reject it, else a C value
CBad == [k |-> "cbad"]
CAst(e) == CParse(CText(e, PREC_NONE))
CPredictA(ast, frag, env) ==
    IF ast = CErr \/ ~CStaticOK(ast, frag) THEN CBad
    ELSE ConvTo(CEval(ast, env, frag), FragTy(frag))
CPredict(e, frag, env) == CPredictA(CAst(e), frag, env)

\* the predicted value in every environment of the fragment
APred(e, frag) ==
    LET envs == EnvsOf(frag) ast == CAst(e) IN
    [i \in 1..Len(envs) |-> CPredictA(ast, frag, envs[i])]

\* "CText refines Eval" on one tree: "" or the clause of the first environment in
\* which the prediction contradicts the meaning (inside the statement's range)
ARefutes(e, frag, pred) ==
    LET envs == EnvsOf(frag)
        One(i) == LET m == Eval(e, envs[i]) c == pred[i] IN
                  IF ~IsNum(m) \/ ~InRange(e, envs[i]) THEN ""
                  ELSE IF c = CBad THEN "c-compile-error"
                  ELSE IF IsUnrep(c) THEN ""
                  ELSE IF IsErr(c) THEN "c-trap-instead-of-value"
                  ELSE IF frag = "int" /\ m.d # 1 THEN ""
                  ELSE IF ValEq(m, c) THEN "" ELSE "wrong-value"
        bad == { i \in 1..Len(envs) : One(i) # "" }
    IN IF bad = {} THEN "" ELSE One(CHOOSE i \in bad : \A j \in bad : i <= j)
=============================================================================
