CONSTANTS
  HashMode = "real"
  Bug = "CopyKeepsHash"
  Sweeps = {"small"}
  PairDepth = 2
  NearDepth = 2
  DeepDepth = 3
  EmitCases = FALSE
INIT Init
NEXT Next
INVARIANT HashRespectsEq

CHECK_DEADLOCK FALSE
