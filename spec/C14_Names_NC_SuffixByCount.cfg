CONSTANT Tier = "tiny"
CONSTANT Buggy = "SuffixByCount"
INIT Init
NEXT Next
INVARIANT PrefixCollisionFree
CHECK_DEADLOCK FALSE
