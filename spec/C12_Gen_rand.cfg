CONSTANTS
  Tier = "thorough"
  Mode = "rand"
  Bug = "none"
INIT Init
NEXT Next
INVARIANT ModelCacheInv_Emit
CHECK_DEADLOCK FALSE
