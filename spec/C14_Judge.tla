------------------------------ MODULE C14_Judge ------------------------------
(***************************************************************************)
(* Stage (3) for the value half of C14: every value printed by the         *)
(* gcc-compiled program built from the real CCodeMapper's text and hoisted *)
(* assignments is judged by TLC against Eval (M-layer) inside the          *)
(* statement's fragment and range (C14_CSem!JudgeC).  One record =         *)
(*   [id, frag, e, rep, ex, ce, text, hoists, pv, r]                       *)
(* rep = the representation the driver built the tree's constants in       *)
(* (C14_CSem!Reps); the tree e, its meaning and the verdict rule are the   *)
(* same for every representation.                                          *)
(* ex = exception class raised by the mapper ("" if none), ce = 1 when gcc *)
(* rejected the case's function, r[i] / pv[i] = program's / evaluator's    *)
(* value in environment i.  Verdicts are total: OK (silent), a failing     *)
(* clause (printed with the first failing environment), and a STAT line    *)
(* with the number of skipped (case, environment) pairs.  A DRIFT line      *)
(* reports that the program's value differs from what the A-layer          *)
(* transcription (C14_CModel) predicts -- model drift, not a verdict.       *)
(***************************************************************************)
EXTENDS C14_CSem, Json, IOUtils
VARIABLES blk, off

Recs == ndJsonDeserialize(IOEnv.TRACE_FILE)
BS == 64
NB == (Len(Recs) + BS - 1) \div BS

Init == blk \in 0..(NB - 1) /\ off = 0
Next == off < BS - 1 /\ off' = off + 1 /\ UNCHANGED blk
Idx == blk * BS + off + 1

\* the record has a meaning the statement speaks about in at least one environment
Speaks(rec) == CExpressible(rec.e, rec.frag) /\
               \E i \in 1..Len(EnvsOf(rec.frag)) :
                  IsNum(Eval(rec.e, EnvsOf(rec.frag)[i])) /\ InRange(rec.e, EnvsOf(rec.frag)[i])

\* drift of the A-layer transcription (C14_CModel, evaluated by the generator and
\* shipped in rec.a) against the recorded run: environments in which the program
\* printed another value than predicted.  A predicted trap is undefined behaviour
\* in C (gcc folds (x/y) ^ (x/y) to 0 without dividing), and an observed trap may
\* come from a hoisted assignment that the transcription (Dev_CSEAsCast) evaluates
\* lazily inside || && ?: -- no claim in either case.
DriftCount(rec) ==
    LET n == Len(EnvsOf(rec.frag)) IN
    Cardinality({ i \in 1..n :
        LET c == rec.a[i] g == rec.r[i] IN
        IF c.k = "cbad" THEN rec.ce = 0 /\ rec.ex = ""
        ELSE IF rec.ce = 1 THEN TRUE
        ELSE IF IsUnrep(c) \/ IsUnrep(g) \/ IsErr(c) \/ IsErr(g) THEN FALSE
        ELSE ~ValEq(c, g) })

Report ==
    Idx <= Len(Recs) =>
      LET rec == Recs[Idx]
          n   == Len(EnvsOf(rec.frag))
      IN
      IF ~CExpressible(rec.e, rec.frag)
      THEN PrintT(ToJson([v |-> "STAT", skip |-> n, skipo |-> 0]))
      \* the mapper refused / gcc refused an expression of the fragment that has a
      \* meaning: the program does not "yield the evaluator's value"
      ELSE IF rec.ex # ""
      THEN (IF Speaks(rec) THEN PrintT(ToJson([id |-> rec.id, v |-> "mapper-raised", env |-> 0]))
            ELSE PrintT(ToJson([v |-> "STAT", skip |-> n, skipo |-> 0])))
      ELSE IF rec.ce = 1
      THEN (IF Speaks(rec) THEN PrintT(ToJson([id |-> rec.id, v |-> "c-compile-error", env |-> 0]))
            ELSE PrintT(ToJson([v |-> "STAT", skip |-> n, skipo |-> 0])))
      ELSE
      LET ja == JudgeAllR(rec.e, rec.frag, rec.r, rec.pv, rec.rep)
      IN  /\ (ja.bad = "" \/ PrintT(ToJson([id |-> rec.id, v |-> ja.bad, env |-> ja.env,
                                              exp |-> Eval(rec.e, EnvsOf(rec.frag)[ja.env])])))
          /\ (ja.skip = 0 \/ PrintT(ToJson([v |-> "STAT", skip |-> ja.skip, skipo |-> ja.skipo])))
          \* A-layer drift (never a verdict): the program's value vs the transcription's
          /\ LET dc == DriftCount(rec) IN
             dc = 0 \/ PrintT(ToJson([v |-> "DRIFT", id |-> rec.id, n |-> dc]))
=============================================================================
