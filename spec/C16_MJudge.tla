------------------------------ MODULE C16_MJudge ------------------------------
(***************************************************************************)
(* Stage (3) for C16, matchpy part: every observation recorded from the    *)
(* real bridge is judged by TLC against C16_Matchpy.tla.  One record:      *)
(*   [id, kind, s, p, c,                                                   *)
(*    rt    |-> [exc, e]                   From(To(s))                     *)
(*    match |-> [exc, subs]                list(match(s, p))               *)
(*    anyw  |-> [exc, hits]                match_anywhere: [sub, b]        *)
(*    rep   |-> [exc, calls, e]            replace_all with the logging    *)
(*                                         rule p -> R<k>; calls = the     *)
(*                                         substitutions the callback got  *)
(*    rep2  |-> [exc, calls, e]]           the same with p -> R<k> + q     *)
(* (kind "rt" records only carry rt).  A substitution is a sequence of     *)
(* bindings [n, kind, items].  The verdict is the first failing clause     *)
(* (op_clause), else SKIP:refusal if some operation raised, else OK; the   *)
(* replace_all history is validated by stepping the rewriting machine.     *)
(***************************************************************************)
EXTENDS C16_Matchpy, Json, IOUtils
VARIABLES blk, off

Recs == ndJsonDeserialize(IOEnv.TRACE_FILE)
BS == 64
NB == (Len(Recs) + BS - 1) \div BS

Init == blk \in 0..(NB - 1) /\ off = 0
Next == off < BS - 1 /\ off' = off + 1 /\ UNCHANGED blk
Idx == blk * BS + off + 1

FirstNotOK(vs) ==
    IF \E i \in 1..Len(vs) : vs[i] # "OK"
    THEN vs[CHOOSE i \in 1..Len(vs) : vs[i] # "OK" /\ \A j \in 1..(i - 1) : vs[j] = "OK"]
    ELSE "OK"

RtVerdict(rec) ==
    IF rec.rt.exc # "" THEN (IF Bridgeable(rec.s) THEN "raises" ELSE "SKIP:refusal")
    ELSE IF NFM(rec.rt.e) = NFM(rec.s) THEN "OK" ELSE "differs"
\* the bridge's match / match_anywhere are known to refuse star wildcards (Multiset / tuple
\* bindings are not converted back); any other exception is a failure, not a refusal
MatchVerdict(rec) ==
    IF rec.match.exc # "" THEN (IF HasStar(rec.p) THEN "SKIP:refusal" ELSE "match-raised")
    ELSE FirstNotOK([i \in 1..Len(rec.match.subs) |-> SubstVerdict(rec.p, rec.match.subs[i], rec.s)])
AnyVerdict(rec) ==
    IF rec.anyw.exc # "" THEN (IF HasStar(rec.p) THEN "SKIP:refusal" ELSE "match-anywhere-raised")
    ELSE LET whole == SubNFs(NFM(rec.s)) IN
         FirstNotOK([i \in 1..Len(rec.anyw.hits) |->
            LET h == rec.anyw.hits[i] IN
            IF NFM(h.sub) \notin whole THEN "subterm" ELSE SubstVerdict(rec.p, h.b, h.sub)])
RepVerdict(rec, r, mode) ==
    IF r.exc # "" THEN "SKIP:refusal"
    ELSE ReplaceVerdict(rec.s, rec.p, r.calls, r.e, mode)

Judge(rec) ==
    LET ops == IF rec.kind = "rt" THEN << [op |-> "rt", v |-> RtVerdict(rec)] >>
               ELSE << [op |-> "rt", v |-> RtVerdict(rec)],
                       [op |-> "match", v |-> MatchVerdict(rec)],
                       [op |-> "anywhere", v |-> AnyVerdict(rec)],
                       [op |-> "replace", v |-> RepVerdict(rec, rec.rep, "marker")],
                       [op |-> "replace_wrap", v |-> RepVerdict(rec, rec.rep2, "wrap")] >>
        IsSkip(v) == v \in {"SKIP:refusal", "SKIP:too_many_calls"}
        bad  == {i \in 1..Len(ops) : ops[i].v # "OK" /\ ~IsSkip(ops[i].v)}
        skip == {i \in 1..Len(ops) : IsSkip(ops[i].v)}
        first(S) == CHOOSE i \in S : \A j \in S : i <= j
    IN [id |-> rec.id,
        v |-> IF bad # {} THEN ops[first(bad)].v
              ELSE IF skip # {} THEN ops[first(skip)].v ELSE "OK",
        op |-> IF bad # {} THEN ops[first(bad)].op
               ELSE IF skip # {} THEN ops[first(skip)].op ELSE "",
        nskip |-> Cardinality(skip),
        star |-> IF rec.kind = "mp" /\ HasStar(rec.p) THEN 1 ELSE 0,
        \* a replace_all that raised after a callback whose result had to go into a call's
        \* argument list / a subscript's index list (the crash variant of finding C16-F2)
        ra |-> IF rec.kind = "mp"
                  /\ \/ rec.rep.exc # "" /\ ReplacedInArgList(rec.s, rec.p, rec.rep.calls, "marker")
                     \/ rec.rep2.exc # "" /\ ReplacedInArgList(rec.s, rec.p, rec.rep2.calls, "wrap")
               THEN 1 ELSE 0,
        feat |-> IF rec.kind = "rt" THEN rec.s.t
                 ELSE IF bad # {} /\ ops[first(bad)].op = "replace_wrap"
                         /\ ReplacedInArgList(rec.s, rec.p, rec.rep2.calls, "wrap")
                      THEN "replacement-inside-call-arguments-or-index"
                 ELSE IF bad # {} /\ ops[first(bad)].op = "replace"
                         /\ ReplacedInArgList(rec.s, rec.p, rec.rep.calls, "marker")
                      THEN "replacement-inside-call-arguments-or-index"
                 ELSE rec.p.t]

Report == Idx <= Len(Recs) => PrintT(ToJson(Judge(Recs[Idx])))
=============================================================================
