CONSTANTS
  Tier = "neg"
  Mode = "exh"
  Bug = "WrapperCountStopsAtChild"
INIT Init
NEXT Next
INVARIANT TagModelMeetsProperty
CHECK_DEADLOCK FALSE
