CONSTANT Tier = "sim"
CONSTANT NProc = 3
CONSTANT Buggy_PickleCarriesHash = FALSE
CONSTANT Buggy_DigestUsesProcess = FALSE
CONSTANT Buggy_SetstateByPosition = FALSE
CONSTANT Buggy_ArgsBySetOrder = FALSE
CONSTANT Buggy_DigestSkipsShared = FALSE
CONSTANT Buggy_CompiledLosesVars = FALSE
CONSTANT Buggy_OptionsCrossed = FALSE
CONSTANT Buggy_LegacyHashAssigns = FALSE
CONSTANT Buggy_VarsByName = FALSE
INIT Init
NEXT Next
INVARIANT Inv_NoForeignHash
INVARIANT Inv_UnpickledFindsLocal
INVARIANT Inv_DigestIsStructural
INVARIANT Inv_NothingRaised
INVARIANT Emit
CHECK_DEADLOCK FALSE
