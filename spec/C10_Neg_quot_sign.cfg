CONSTANT Bug = "quot_sign"
INIT Init
NEXT Next
INVARIANT Refines
CHECK_DEADLOCK FALSE
