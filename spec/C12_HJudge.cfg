CONSTANT Bug = "none"
INIT Init
NEXT Next
INVARIANT JudgeInv
INVARIANT Report
CHECK_DEADLOCK FALSE
