INIT Init
NEXT Next
INVARIANT ImplRefinesMeaning
INVARIANT Emit
CHECK_DEADLOCK FALSE
