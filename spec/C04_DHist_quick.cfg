CONSTANT Tier = "quick"
CONSTANT MemoMode = "none"
INIT Init
NEXT Next
INVARIANT EveryDispatchIsTheMeaning
INVARIANT HistoryFree
INVARIANT MemoSane
INVARIANT Emit
CHECK_DEADLOCK FALSE
