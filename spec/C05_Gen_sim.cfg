CONSTANTS
  PoolSel = "full"
  ArgSel = "full"
  MaxLen = 8
  KeyMode = "ideal"
  StoreMode = "store"
  HitMode = "identity"
  Random = TRUE
  FbMode = "faithful"
INIT Init
NEXT Next
INVARIANT Accepted
INVARIANT NoComputedTwice
INVARIANT Transparent
INVARIANT NotSharedArgs
INVARIANT NotSharedTypes
INVARIANT SoundCache
INVARIANT Emit
CHECK_DEADLOCK FALSE
