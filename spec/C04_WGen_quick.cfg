CONSTANTS
  Tier = "quick"
  Bug = "none"
INIT Init
NEXT Next
INVARIANT ModelOK
CHECK_DEADLOCK FALSE
