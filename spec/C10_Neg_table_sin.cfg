CONSTANT Bug = "table_sin"
INIT Init
NEXT Next
INVARIANT Refines
CHECK_DEADLOCK FALSE
