--------------------------- MODULE C04_WalkModel ---------------------------
(***************************************************************************)
(* The stack acceptor of C04_Walk as a state machine of its own.  TLC      *)
(* explores its complete state graph on every ordered tree shape with up   *)
(* to MaxN nodes (every interleaving of Visit(n, true/false) and           *)
(* PostVisit(n) the acceptor allows) and checks                            *)
(*   StackIsPath, PendingSane      structural invariants of the state      *)
(*   Sound        every history the acceptor accepts satisfies the         *)
(*                declarative contract MDFS (hence the statement, MWalk)   *)
(*   FoldAgrees   the list-folding form RunWhy used by the generator       *)
(*                agrees with the step-by-step machine used by the judge   *)
(*   MutEquiv     (at the initial states) for every set F of "visit        *)
(*                answers false" nodes the canonical walk is accepted and  *)
(*                every single-fault variant of it (an event dropped,      *)
(*                duplicated, moved, an answer flipped) is accepted iff    *)
(*                it still satisfies MDFS                                  *)
(*   AllSeqs      for shapes with at most MaxNAll nodes: *every* event     *)
(*                list up to length 2N is accepted iff MDFS                *)
(* Negative controls: Bug # "none" breaks a guard of the acceptor and TLC  *)
(* must report Sound (or MutEquiv) violated.                               *)
(***************************************************************************)
EXTENDS C04_Walk
CONSTANTS MaxN, MaxNAll, MaxF
VARIABLES tab, st, hist

SortedSeq(S) == LET RECURSIVE Go(_)
                    Go(T) == IF T = {} THEN << >>
                             ELSE LET m == CHOOSE x \in T : \A y \in T : x <= y IN << m >> \o Go(T \ {m})
                IN Go(S)
\* ordered trees with n nodes, numbered in preorder: node i hangs below a node on the path
\* from the root to node i - 1
PathTo(par, i) == LET RECURSIVE G(_) G(x) == IF x = 1 THEN {1} ELSE {x} \cup G(par[x]) IN G(i)
Shapes(n) ==
    { MkSeq(n, LAMBDA p : SortedSeq({ i \in 2..n : par[i] = p })) :
        par \in { f \in [2..n -> 1..n] : \A i \in 2..n : f[i] < i /\ f[i] \in PathTo(f, i - 1) } }
AllShapes == UNION { Shapes(n) : n \in 1..MaxN }

IdCls == MkSeq(Len(tab), LAMBDA i : i)

Init == tab \in AllShapes /\ st = StInit /\ hist = << >>
Visit(n, r) == /\ VisitWhy(tab, st, n) = ""
               /\ st' = VisitDo(tab, st, n, r)
               /\ hist' = Append(hist, Ev("visit", n, r))
               /\ UNCHANGED tab
PostVisit(n) == /\ PostWhy(IdCls, FALSE, st, n) = ""
                /\ st' = PostDo(st, n)
                /\ hist' = Append(hist, Ev("post", n, TRUE))
                /\ UNCHANGED tab
Next == \E n \in 1..Len(tab) : (\E r \in BOOLEAN : Visit(n, r)) \/ PostVisit(n)
Bounded == Len(hist) <= 2 * MaxN + 2

StackIsPath ==
    /\ Len(st.stack) > 0 => st.stack[1].n = 1
    /\ \A i \in 2..Len(st.stack) : st.stack[i].n \in SeqToSet(tab[st.stack[i - 1].n])
PendingSane ==
    \A i \in 1..Len(st.stack) :
        /\ st.stack[i].pend \subseteq SeqToSet(tab[st.stack[i].n])
        /\ st.stack[i].pend \cap st.seen = {}
        /\ st.stack[i].opt => i = Len(st.stack) /\ st.stack[i].pend = {}
Accepted == EndWhy(IdCls, FALSE, st) = ""
Sound == Accepted => MDFS(hist, tab) /\ MWalk(hist, tab)
FoldAgrees == LET w == RunWhy(tab, IdCls, FALSE, hist) IN
              /\ w \in {"", "nothing-visited", "returned-with-children-pending", "returned-without-post"}
              /\ (w = "") = Accepted

FSets == { F \in SUBSET (1..Len(tab)) : Cardinality(F) <= MaxF }
MutEquiv ==
    hist = << >> =>
      \A F \in FSets :
        LET w == WalkOf(tab, 1, F) IN
        /\ Accepts(tab, w) /\ MDFS(w, tab)
        /\ \A m \in Mutations(w) : Accepts(tab, m) = MDFS(m, tab)

Alphabet == { Ev("visit", n, r) : n \in 1..Len(tab), r \in BOOLEAN } \cup { Ev("post", n, TRUE) : n \in 1..Len(tab) }
AllSeqs ==
    (hist = << >> /\ Len(tab) <= MaxNAll) =>
      \A k \in 0..(2 * Len(tab)) : \A s \in [1..k -> Alphabet] : Accepts(tab, s) = MDFS(s, tab)
=============================================================================
