CONSTANTS
  OptPoolSel = "small"
  OptArgSel = "two"
  MaxLen = 1
  Steps = 1
  ClassSel = "nil"
  FirstSel = "four"
  CollectMode = "bound"
  FbMode = "faithful"
  InlineHit = "notnone"
INIT Init
NEXT Next
INVARIANT Explained
CHECK_DEADLOCK FALSE
