CONSTANT Bug = "kwdrop"
INIT Init
NEXT Next
INVARIANT NegRefines
CHECK_DEADLOCK FALSE
