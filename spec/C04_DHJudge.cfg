INIT Init
NEXT Next
INVARIANT Report
CHECK_DEADLOCK FALSE
