CONSTANT Tier = "quick"
CONSTANT Kinds = {"symeq"}
CONSTANT MaxN = 2
CONSTANT Bug = "eq_iszero_diff"
INIT Init
NEXT Next
INVARIANT ModelHolds
CHECK_DEADLOCK FALSE
