CONSTANTS
  Tier = "neg"
  Mode = "exh"
  Bug = "NoCanonical"
INIT Init
NEXT Next
INVARIANT TagModelMeetsProperty
CHECK_DEADLOCK FALSE
