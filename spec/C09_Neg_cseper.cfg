CONSTANT Bug = "cseper"
INIT Init
NEXT Next
INVARIANT NegRefines
CHECK_DEADLOCK FALSE
