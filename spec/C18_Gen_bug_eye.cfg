CONSTANT Tier = "quick"
CONSTANT Kinds = {"spc"}
CONSTANT MaxN = 2
CONSTANT Bug = "eye_float"
INIT Init
NEXT Next
INVARIANT ModelHolds
CHECK_DEADLOCK FALSE
