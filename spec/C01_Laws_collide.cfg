CONSTANTS
  HashMode = "collide"
  Bug = "none"
INIT Init
NEXT Next
CHECK_DEADLOCK FALSE
