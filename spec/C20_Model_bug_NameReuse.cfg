CONSTANT Buggy = "NameReuse"
CONSTANT MaxOps = 2
CONSTANT MaxLen = 4
CONSTANT NIds = 5
CONSTANT NVars = 2
CONSTANT WithDaf = FALSE
INIT Init
NEXT Next
INVARIANT Inv_IdsDistinct
CHECK_DEADLOCK FALSE
