----------------------------- MODULE C17_Pickle -----------------------------
(***************************************************************************)
(* S-layer for C17: interpreter processes exchanging pickles.              *)
(*                                                                         *)
(*   heap[p]  the objects process p holds, in creation order; each is      *)
(*            [tree    catalogue index (C17_Trees!Cat) - what it was built *)
(*                     from / what the pickle it came from was made of,    *)
(*             origin  "built" (from source, in p) | "unpickled",          *)
(*             wrap    how it arrived: "" by itself | "dict" as the key of *)
(*                     a pickled {o: 1} | "set" inside a frozenset,        *)
(*             cached  the hash id sitting in the object's _hash_value     *)
(*                     slot (0: slot empty) - hidden implementation state, *)
(*             lasth   the last value hash() returned for it in p (0: none)*)
(*             ok      FALSE: the call that should have made it raised,    *)
(*             c0      the slot right after creation (drift reporting)]    *)
(*   hfun[p]  p's own hash function as far as it is known: == class        *)
(*            (Canon) -> hash id.  It is defined by what hash() answers    *)
(*            for objects built from source in p.  NOTHING relates hfun[p] *)
(*            and hfun[q]: hash ids are process-local names.               *)
(*   msgs     the pickles made so far: [tree, src, proto, wrap, carried]   *)
(*            carried # 0: the payload contains a cached hash              *)
(*   digs     persistent keys seen so far, by all processes:               *)
(*            [s (StructOf), kind, d (digest id)]                          *)
(*   obs      what the last call answered (its observable result)          *)
(*                                                                         *)
(* Every action takes the *observation* as a parameter and is enabled for  *)
(* every observation of the right shape: in C17_Gen the parameters are     *)
(* chosen by an (ideal or deliberately buggy) implementation model, in     *)
(* C17_Judge they are what the real interpreters logged.  The invariants   *)
(* below decide; they are the property.                                    *)
(***************************************************************************)
EXTENDS C17_Trees

CONSTANT NProc
VARIABLES heap, hfun, msgs, digs, obs
mvars == << heap, hfun, msgs, digs, obs >>

Proc == 1..NProc
\* "phw": pymbolic.mapper.persistent_hash.PersistentHashWalkMapper over sha256
\* "kb" : pytools.persistent_dict.KeyBuilder (what the deprecation note of the
\*        former points to: dataclass nodes are keyed natively)
DigestKinds == {"phw", "kb"}

NoObs == [a |-> "None"]
MInit == /\ heap = [p \in Proc |-> << >>]
         /\ hfun = [p \in Proc |-> << >>]      \* a function with empty domain
         /\ msgs = << >>
         /\ digs = {}
         /\ obs = NoObs

NewObj(t, origin, wrap, cached, ok) ==
    [tree |-> t, origin |-> origin, wrap |-> wrap, cached |-> cached, lasth |-> 0, ok |-> ok,
     c0 |-> cached]

\* how an object travels: by itself, as the key of {o: 1}, as the element of frozenset({o})
Wraps == {"", "dict", "set"}

Live(p, o) == o \in DOMAIN heap[p] /\ heap[p][o].ok

\* p builds catalogue entry t from source.  c: _hash_value slot afterwards
Build(p, t, ok, c) ==
    /\ heap' = [heap EXCEPT ![p] = Append(@, NewObj(t, "built", "", c, ok))]
    /\ obs' = [a |-> "Build", p |-> p, ok |-> ok]
    /\ UNCHANGED << hfun, msgs, digs >>

\* hash(o) in p answered h; afterwards the slot holds c.
\* Objects built from source define p's hash function.
Hash(p, o, h, c) ==
    /\ Live(p, o)
    /\ LET ob == heap[p][o]  k == Canon(ob.tree) IN
       /\ heap' = [heap EXCEPT ![p][o].cached = c, ![p][o].lasth = h]
       /\ hfun' = IF ob.origin = "built" /\ k \notin DOMAIN hfun[p]
                  THEN [hfun EXCEPT ![p] = @ @@ (k :> h)] ELSE hfun
       /\ obs' = [a |-> "Hash", p |-> p, o |-> o, h |-> h]
    /\ UNCHANGED << msgs, digs >>

\* pickle.dumps(o | {o: 1} | frozenset({o}), proto) in p.
\* carried: the cached hash found in the payload (0: none)
Pickle(p, o, proto, wrap, ok, carried) ==
    /\ Live(p, o) /\ wrap \in Wraps
    /\ msgs' = Append(msgs, [tree |-> heap[p][o].tree, src |-> p, proto |-> proto, wrap |-> wrap,
                             carried |-> carried, ok |-> ok])
    /\ obs' = [a |-> "Pickle", p |-> p, o |-> o]
    /\ UNCHANGED << heap, hfun, digs >>

\* pickle.loads(msgs[m]) in q gives a NEW object (inside a new container if it
\* travelled in one: rebuilding the container hashes it); c: its _hash_value slot
Unpickle(q, m, ok, c) ==
    /\ m \in DOMAIN msgs /\ msgs[m].ok
    /\ heap' = [heap EXCEPT ![q] =
                   Append(@, NewObj(msgs[m].tree, "unpickled", msgs[m].wrap, c, ok))]
    /\ obs' = [a |-> "Unpickle", p |-> q, m |-> m, ok |-> ok]
    /\ UNCHANGED << hfun, msgs, digs >>

\* o1 == o2 in q answered r; c1, c2: the slots afterwards (== may hash both)
Eq(q, o1, o2, r, c1, c2) ==
    /\ Live(q, o1) /\ Live(q, o2)
    /\ heap' = [heap EXCEPT ![q] = [i \in DOMAIN @ |->
                   IF i = o1 THEN [@[i] EXCEPT !.cached = c1]
                   ELSE IF i = o2 THEN [@[i] EXCEPT !.cached = c2] ELSE @[i]]]
    /\ obs' = [a |-> "Eq", p |-> q, o1 |-> o1, o2 |-> o2, r |-> r]
    /\ UNCHANGED << hfun, msgs, digs >>

\* {k: 1}.get(o) is not None -> fd ;  o in {k} -> fs      (k, o objects of q)
DictGet(q, k, o, fd, fs, c1, c2) ==
    /\ Live(q, k) /\ Live(q, o)
    /\ heap' = [heap EXCEPT ![q] = [i \in DOMAIN @ |->
                   IF i = k THEN [@[i] EXCEPT !.cached = c1]
                   ELSE IF i = o THEN [@[i] EXCEPT !.cached = c2] ELSE @[i]]]
    /\ obs' = [a |-> "DictGet", p |-> q, o1 |-> k, o2 |-> o, fd |-> fd, fs |-> fs]
    /\ UNCHANGED << hfun, msgs, digs >>

\* looking o up in the container u arrived in:  cont.get(o) is not None / o in cont
ContGet(q, u, o, f, c1, c2) ==
    /\ Live(q, u) /\ Live(q, o) /\ heap[q][u].wrap # ""
    /\ heap' = [heap EXCEPT ![q] = [i \in DOMAIN @ |->
                   IF i = u THEN [@[i] EXCEPT !.cached = c1]
                   ELSE IF i = o THEN [@[i] EXCEPT !.cached = c2] ELSE @[i]]]
    /\ obs' = [a |-> "ContGet", p |-> q, o1 |-> u, o2 |-> o, fd |-> f, fs |-> f]
    /\ UNCHANGED << hfun, msgs, digs >>

\* persistent key of o computed in p: digest id d (ids are global: a digest is a
\* string, the same string gets the same id whoever computed it); d = 0: the key
\* builder refused the object
Digest(p, o, kind, d) ==
    /\ Live(p, o) /\ kind \in DigestKinds
    /\ digs' = digs \cup {[s |-> StructFor(kind, heap[p][o].tree), kind |-> kind, d |-> d]}
    /\ obs' = [a |-> "Digest", p |-> p, o |-> o, kind |-> kind, d |-> d]
    /\ UNCHANGED << heap, hfun, msgs >>

\* compiled object o called with positional integer arguments answered v
CallC(p, o, args, v) ==
    /\ Live(p, o) /\ IsCompiled(heap[p][o].tree)
    /\ obs' = [a |-> "Call", p |-> p, o |-> o, args |-> args, v |-> v]
    /\ UNCHANGED << heap, hfun, msgs, digs >>

\* a call that must succeed raised instead
Raised(p, what) ==
    /\ obs' = [a |-> "Raised", p |-> p, what |-> what]
    /\ UNCHANGED << heap, hfun, msgs, digs >>

(***************************************************************************)
(* The property.                                                           *)
(***************************************************************************)
KnownHash(p, o) == Canon(heap[p][o].tree) \in DOMAIN hfun[p]
LocalHash(p, o) == hfun[p][Canon(heap[p][o].tree)]

\* a cached hash is one of this process's own: it never crossed a pickle boundary
NoForeignHash ==
    \A p \in Proc : \A o \in DOMAIN heap[p] :
        heap[p][o].cached # 0 /\ KnownHash(p, o) => heap[p][o].cached = LocalHash(p, o)

\* "... with that process's hash for it"
HashIsLocal ==
    \A p \in Proc : \A o \in DOMAIN heap[p] :
        heap[p][o].lasth # 0 /\ KnownHash(p, o) => heap[p][o].lasth = LocalHash(p, o)

\* "... yields an expression equal to the one built from source there"
EqIsPyEq ==
    obs.a = "Eq" =>
        obs.r = ObjPyEq(heap[obs.p][obs.o1].tree, heap[obs.p][obs.o2].tree)

\* "... so it finds the locally built one in dicts and sets"
LookupFinds ==
    obs.a \in {"DictGet", "ContGet"} =>
        LET same == ObjPyEq(heap[obs.p][obs.o1].tree, heap[obs.p][obs.o2].tree)
        IN obs.fd = same /\ obs.fs = same

\* pickling and unpickling a catalogue object works, in every process
NothingRaised ==
    /\ obs.a # "Raised"
    /\ \A p \in Proc : \A o \in DOMAIN heap[p] : heap[p][o].ok
    /\ \A m \in DOMAIN msgs : msgs[m].ok

\* compiled expressions still compute their expression
CompiledComputes ==
    obs.a = "Call" =>
        LET exp == CompiledValue(heap[obs.p][obs.o].tree, obs.args) IN
        IsUnrep(exp) \/ IsUnrep(obs.v) \/ (IF IsErr(exp) THEN obs.v = exp ELSE
                                            ~IsErr(obs.v) /\ ValEq(exp, obs.v))

UnpickledFindsLocal == HashIsLocal /\ EqIsPyEq /\ LookupFinds /\ CompiledComputes

\* the persistent key is a function of the structure alone: not of the process,
\* of its hash seed, of whether the object was hashed, built or unpickled
\* (a refusal, d = 0, has to be a function of the structure as well)
DigestIsStructural ==
    \A x, y \in digs : x.s = y.s /\ x.kind = y.kind => x.d = y.d

\* not part of the property (reported as an observation only): different
\* structures get different keys
DigestInjective ==
    \A x, y \in digs : x.d = y.d /\ x.d # 0 /\ x.kind = y.kind => x.s = y.s

\* spec says pickles carry no cached hash (judged only through its consequences)
PickleCarriesNoHash == \A m \in DOMAIN msgs : msgs[m].carried = 0
=============================================================================
