CONSTANTS
  OptPoolSel = "small"
  OptArgSel = "two"
  MaxLen = 2
  Steps = 2
  ClassSel = "all"
  FirstSel = "all"
  CollectMode = "bound"
  FbMode = "faithful"
INIT Init
NEXT Next
INVARIANT Explained
INVARIANT Emit
CHECK_DEADLOCK FALSE
