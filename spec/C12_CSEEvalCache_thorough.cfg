CONSTANTS
  Tier = "thorough"
  Bug = "none"
  MaxH = 3
  NInst = 3
INIT Init
NEXT Next
INVARIANT Inv_ChildOncePerInstance
INVARIANT Inv_DoneClosed
INVARIANT Inv_OpsWithinBound
INVARIANT Inv_ReturnedAllDone
INVARIANT Inv_StackSane
INVARIANT Inv_ValuesRight
INVARIANT Inv_CacheIsDone
INVARIANT Emit
PROPERTY CacheOnlyGrows
CHECK_DEADLOCK FALSE
