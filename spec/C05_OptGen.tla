------------------------------ MODULE C05_OptGen ------------------------------
(***************************************************************************)
(* Stage (1) for C05, optimizer part.                                      *)
(*                                                                         *)
(* A behaviour is: a fresh interpreter process, a sequence of              *)
(* optimize_mapper applications in it (cfg: 1 or 2 steps [cls, o]; the     *)
(* class produced by the LAST step is the one under test), then a call     *)
(* history on one instance of that class.  All 32 option combinations are  *)
(* explored for every class they are valid for; for two-step sequences the *)
(* first step ranges over FirstOpts (quick: four representatives x the 8 second steps that drop nothing; thorough: 32 x 32).                                      *)
(*                                                                         *)
(* On the model TLC runs the abstract rewriting system (C05_Optimizer)     *)
(* and steps the memo machine along the events it predicts.  A rewritten   *)
(* class may leave the property only in the ways the named deviations      *)
(* predict (Explained); the deviations themselves are what the check       *)
(* reports as design-level findings: TLC must refute PlainlyAccepted.      *)
(*                                                                         *)
(* Round 2: ClassSel "alias" are classes that OVERRIDE handlers which      *)
(* their base class also exposes under alias names, OptPoolSel "alias" is  *)
(* a pool that mentions every node kind.  The rebuilt class must give      *)
(* every attribute name the body Python's lookup gives it in the original  *)
(* class (HandlersPreserved) and behave like it on every node kind         *)
(* (Explained / ShippedUsageFine).  CollectMode "byname" is the negative   *)
(* control (C05_OptGen_Buggy_CollectByName): TLC must find a history on    *)
(* which the rebuilt class answers with the wrong body.                    *)
(* Round 4: OptPoolSel "fb" / ClassSel "args": argument-using classes on  *)
(* leaves known through a base class only, with keyword extra arguments.   *)
(* FbMode "mro-dropkw" is the negative control                            *)
(* (C05_OptGen_Buggy_FallbackDropsKw): Explained must be refuted.          *)
(* Round 7: ClassSel "nil": memoizing classes whose handlers return values  *)
(* that look like nothing (a CachedWalkMapper: None; combine mappers: None, *)
(* 0, False, ()), under all 32 option combinations, on a pool with repeated *)
(* subtrees and second calls.  InlineHit is the hit test of the inlined     *)
(* look-aside; "notnone" / "truthy" are the negative controls               *)
(* C05_OptGen_Buggy_InlineHitNotNone / _InlineHitTruthy: Explained must be  *)
(* refuted (a key is computed twice with inline_rec + inline_cache).        *)
(***************************************************************************)
EXTENDS C05_Optimizer, Json
CONSTANTS OptPoolSel, OptArgSel, MaxLen, Steps, ClassSel, FirstSel, CollectMode, FbMode, InlineHit
VARIABLES cfg, hist, tab, ms, v, fa

OptClasses == <<
    [name |-> "OptRenamerArgs",   m |-> "ident", args |-> TRUE,  stock |-> TRUE],
    [name |-> "OptRenamerStock",  m |-> "ident", args |-> FALSE, stock |-> TRUE],
    [name |-> "OptRenamerKey",    m |-> "ident", args |-> FALSE, stock |-> FALSE],
    [name |-> "OptCollectorArgs", m |-> "coll",  args |-> TRUE,  stock |-> TRUE],
    [name |-> "OptCountKey",      m |-> "count", args |-> FALSE, stock |-> FALSE],
    \* overriding classes (marking bodies), own two-component key, no extra arguments
    [name |-> "OptOvIdent", m |-> "ident", args |-> FALSE, stock |-> FALSE, base |-> "identity",
     ov |-> << "map_sum", "map_quotient", "map_bitwise_or", "map_min", "map_left_shift",
               "map_bitwise_not" >>],
    [name |-> "OptOvCollector", m |-> "bcoll", args |-> FALSE, stock |-> FALSE, base |-> "collector",
     ov |-> << "map_constant", "map_sum", "map_quotient", "map_list" >>],
    [name |-> "OptOvCount", m |-> "count", args |-> FALSE, stock |-> FALSE, base |-> "combine",
     ov |-> << "map_sum", "map_left_shift", "map_bitwise_not" >>],
    \* round 7: handlers return None / falsy values; own two-component key, no extra arguments
    [name |-> "OptWalkKey",  m |-> "walk", args |-> FALSE, stock |-> FALSE],
    [name |-> "OptNilNone",  m |-> "nil", val |-> "none",  args |-> FALSE, stock |-> FALSE],
    [name |-> "OptNilZero",  m |-> "nil", val |-> "zero",  args |-> FALSE, stock |-> FALSE],
    [name |-> "OptNilFalse", m |-> "nil", val |-> "false", args |-> FALSE, stock |-> FALSE],
    [name |-> "OptNilEmpty", m |-> "nil", val |-> "empty", args |-> FALSE, stock |-> FALSE]
>>
Classes == CASE ClassSel = "all" -> { OptClasses[i] : i \in 1..5 }
             [] ClassSel = "alias" -> { OptClasses[6], OptClasses[7], OptClasses[8] }
             \* round 4: the classes whose handlers use the extra arguments
             [] ClassSel = "args" -> { OptClasses[1], OptClasses[4] }
             [] ClassSel \in {"nil", "nilall"} -> { OptClasses[i] : i \in 9..13 }
             [] OTHER -> { OptClasses[1], OptClasses[2], OptClasses[3] }

\* a class whose handlers use the extra arguments cannot have them dropped
\* (round 7, ClassSel "nil" (quick): the argument-free classes are rewritten with drop_args and
\* drop_kwargs both on or both off - 16 combinations; "nilall" (thorough): all 32)
Valid(cls, o) == /\ cls.args => (~o.da /\ ~o.dk)
                 /\ ClassSel = "nil" => (o.da = o.dk)

FirstOpts ==
    IF FirstSel = "four"
    THEN { Opt(TRUE, TRUE, FALSE, FALSE, FALSE), Opt(FALSE, FALSE, TRUE, FALSE, FALSE),
           Opt(FALSE, FALSE, FALSE, TRUE, FALSE), Opt(TRUE, TRUE, TRUE, TRUE, TRUE) }
    ELSE AllOpts
\* the class optimized first: the shipped example (custom key, no arguments)
FirstCls == OptClasses[3]

Configs ==
    IF Steps = 1
    THEN { << [cls |-> c, o |-> o] >> : c \in Classes, o \in { oo2 \in AllOpts : TRUE } }
    ELSE { << [cls |-> FirstCls, o |-> o1], [cls |-> c, o |-> o2] >> :
             c \in { OptClasses[1], OptClasses[3] }, o1 \in FirstOpts,
             o2 \in IF FirstSel = "four" THEN { o \in AllOpts : ~o.da /\ ~o.dk } ELSE AllOpts }
ValidCfg(c) == Valid(c[Len(c)].cls, c[Len(c)].o)

OptPool == CASE OptPoolSel = "small" -> << x, S1, N("Product", << S1, S1 >>), K4 >>
             [] OptPoolSel = "six"   -> << x, K4, S1, S1f, N("Product", << S1, S1 >>), CSE0(S1),
                                           N("Sum", << y, K4f >>) >>
             [] OptPoolSel = "core"  -> << x, K4, K4f, S1, S1f, N("Product", << S1, S1 >>),
                                           N("Product", << S1, y >>), CSE0(S1) >>
             \* round 4: leaves that reach their handler through the class-hierarchy fallback
             [] OptPoolSel = "fb"    -> << xs, xm, N("Sum", << x, xs, xm >>),
                                           N("Product", << SM4, B("Power", SM4, KI(2)) >> ) >>
             \* every node kind, the aliased ones next to the kind whose handler they share
             [] OptPoolSel = "alias" -> <<
                    x, K4, S1,
                    N("Product", << S1, S1 >>),
                    N("Max", << B("FloorDiv", S1, y), B("Remainder", x, K4), B("Quotient", x, y) >>),
                    N("Min", << N("BitAnd", << x, y >>), N("BitOr", << x, y >>), N("BitXor", << x, K1 >>) >>),
                    N("LogOr", << N("LogAnd", << x, y >>), U("LogNot", x), U("BitNot", y) >>),
                    B("LShift", B("RShift", x, K1), B("Power", x, K4)),
                    IfE(Cmp(x, "<", y), Call(ff, << x, S1 >>), B("Sub", tt, K1)),
                    N("Tup", << x, Look(oo, "p"), CSE0(S1), N("Tup", << y, K1 >>) >>),   \* (no lists: C05-F8)
                    CallKw(ff, << N("Product", << x, y >>) >>, << KwArg("k1", N("Max", << x, K1 >>)) >>) >>
OptArgs == CASE OptArgSel = "two"  -> << NoArgs, Args(<< IntV(1) >>, << >>) >>
             [] OptArgSel = "three" -> << NoArgs, Args(<< IntV(1) >>, << >>),
                                          Args(<< >>, << [name |-> "k", v |-> IntV(1)] >>) >>
             [] OptArgSel = "core" -> << NoArgs, Args(<< IntV(1) >>, << >>), Args(<< IntV(2) >>, << >>),
                                         Args(<< >>, << [name |-> "k", v |-> IntV(1)] >>) >>

Sem == SemOfHit(cfg, CollectMode, FbMode, InlineHit)
TestCls == cfg[Len(cfg)].cls
ArgOk(q) == IF TestCls.args THEN SigFits(Sem, OptArgs[q]) ELSE q = 1

Init == /\ cfg \in { c \in Configs : ValidCfg(c) }
        /\ hist = << >> /\ tab = EmptyFn /\ ms = MemoInit /\ v = "OK" /\ fa = NoArgs

Next ==
    /\ Len(hist) < MaxLen
    /\ \E p \in 1..Len(OptPool), q \in { qq \in 1..Len(OptArgs) : ArgOk(qq) } :
          LET c  == OCall(Sem, tab, OptPool[p], OptArgs[q])
              rn == RunEvents(ms, c.evs)
          IN /\ hist' = Append(hist, [e |-> p, a |-> q])
             /\ tab' = c.tab /\ ms' = rn.ms
             /\ v' = IF v # "OK" THEN v ELSE rn.v
             /\ fa' = IF v = "OK" /\ rn.v # "OK" THEN OptArgs[q] ELSE fa
    /\ UNCHANGED cfg

\* ---- the property on the model -------------------------------------------------
ArgSet == { OptArgs[hist[i].a] : i \in 1..Len(hist) }
Subs(n) == UNION { SubExprs(OptPool[hist[i].e]) : i \in 1..n }
\* a ==-collision at or before the first failing call (over-approximated by: anywhere)
Coll  == \E n \in 1..Len(hist) : TypeCollision(SubExprs(OptPool[hist[n].e]), Subs(n))
\* every way the rewritten class leaves the property is a named deviation
Explained == v = "OK" \/ OptDeviationFor(Sem, v, fa, ArgSet, Coll) # ""
\* ... and it does leave it (expected to be refuted: the design-level findings)
PlainlyAccepted == v = "OK"
\* a single optimisation in a fresh process with everything dropped and inlined on a
\* class with its own key (the shipped usage) must be plainly fine, whatever the history
ShippedUsageFine ==
    (Len(cfg) = 1 /\ ~cfg[1].cls.stock /\ ~Coll) => v = "OK" \/ v = "computed-twice"

\* the rebuilt class binds every handler name to the body the original class binds it to
\* (also for a class that overrides __call__ - whose alias `rec` stays with the base - which
\* exists on the model only)
ModelOnlyClasses == { [name |-> "ModelOnlyOvCall", m |-> "ident", args |-> FALSE, stock |-> FALSE,
                       base |-> "identity", ov |-> << "__call__", "map_bitwise_not" >>] }
HandlersPreserved == \A c \in {TestCls} \cup ModelOnlyClasses : CollectionFaithful(CollectMode, c)

OptBits(o) == << o.da, o.dk, o.ir, o.ic, o.ik >>
Emit == Len(hist) >= 1 => PrintT(ToJson([opt |-> cfg, h |-> hist]))
ASSUME PrintT(ToJson([opttables |-> [pool |-> OptPool, args |-> OptArgs]]))
=============================================================================
