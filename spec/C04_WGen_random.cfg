CONSTANTS
  Tier = "random"
  Bug = "none"
INIT Init
NEXT Next
INVARIANT ModelOK
CHECK_DEADLOCK FALSE
