CONSTANT Tier = "tiny"
CONSTANT Buggy = "UseBeforeDef"
INIT Init
NEXT Next
INVARIANT DefinedBeforeUse
CHECK_DEADLOCK FALSE
