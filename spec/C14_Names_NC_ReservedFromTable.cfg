CONSTANT Tier = "tiny"
CONSTANT Buggy = "ReservedFromTable"
INIT Init
NEXT Next
INVARIANT NamesUnique
CHECK_DEADLOCK FALSE
