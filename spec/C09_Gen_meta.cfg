CONSTANT Tier = "quick"
CONSTANT Mode = "meta"
INIT Init
NEXT Next
INVARIANT Emit
CHECK_DEADLOCK FALSE
