CONSTANT Tier = "thorough"
CONSTANT Mode = "rand"
INIT Init
NEXT Next
INVARIANT ImplRefinesMeaning
INVARIANT OracleSane
INVARIANT EvalLemma
INVARIANT Emit
CHECK_DEADLOCK FALSE
