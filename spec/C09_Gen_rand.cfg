CONSTANT Tier = "thorough"
CONSTANT Mode = "rand"
INIT Init
NEXT Next
INVARIANT ImplRefinesMeaning
INVARIANT OracleSane
INVARIANT Emit
CHECK_DEADLOCK FALSE
