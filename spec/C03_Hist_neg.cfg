CONSTANTS
  Memo = "pyeq"
  MaxLen = 2
INIT Init
NEXT Next
INVARIANT HistoryFree
CHECK_DEADLOCK FALSE
