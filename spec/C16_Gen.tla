------------------------------- MODULE C16_Gen -------------------------------
(***************************************************************************)
(* Stage (1) for C16, unifier part.  TLC                                   *)
(*  (a) enumerates (pattern, target, candidate-set) triples: patterns of   *)
(*      depth <= 2 (root kind x typed holes filled left to right), targets *)
(*      as INSTANCES of the pattern (TLC substitutes small terms; also     *)
(*      flattened + reversed, and with an extra operand), as RENAMINGS of  *)
(*      its variables (injective and not) and INDEPENDENT ones; candidate  *)
(*      sets: every subset of the pattern variables (+ the undeclared      *)
(*      default "*");                                                      *)
(*  (b) checks on the model, for every triple, that the implementation-    *)
(*      shaped unifier (C16_UnifyImpl) only returns records that are Sound *)
(*      in the sense of C16_Unify (up to the two NAMED deviations below),  *)
(*      that it returns a record whenever the target is an injective       *)
(*      renaming, and that the meaning layer agrees with the way the       *)
(*      targets were built (instances are instances, renamings are         *)
(*      recognised as such);                                               *)
(*  (c) prints every (pattern, target) pair with its candidate sets as one *)
(*      JSON line for the driver.                                          *)
(***************************************************************************)
EXTENDS C16_UnifyImpl, Json
CONSTANT Tier
VARIABLES pat, tgt, mode, sub

a == V("a")  b == V("b")  c == V("c")
x == V("x")  y == V("y")  z == V("z")  f == V("f")  g == V("g")
K1 == KI(1)  K2 == KI(2)
S(cc) == N("Sum", cc)   P(cc) == N("Product", cc)
T(cc) == N("Tup", cc)
PV == {"a", "b", "c"}
PVars(p) == VarsOf(p) \cap PV
Quick == Tier = "quick"

HoleT(ty) == [t |-> "Hole", ty |-> ty]
\* hole types: L leaf, M leaf or a small depth-1 block, A leaf or any depth-1 block
A == HoleT("any")  M == HoleT("mid")  L == HoleT("leaf")

LeafPool == IF Quick THEN {a, b, x} ELSE {a, b, c, x}
D1Quick == { S(<< a, b >>), S(<< b, x >>), P(<< a, b >>), P(<< a, K2 >>),
             Call(f, << a >>), B("Quotient", b, a) }
D1More  == { S(<< a, a >>), S(<< a, b, c >>), S(<< a, K1 >>), P(<< c, x >>), P(<< b, b >>),
             B("Quotient", x, c), B("Power", a, K2), B("Power", b, c),
             Call(f, << c, a >>), Call(g, << b >>), B("Sub", x, T(<< a >>)), B("Sub", x, b),
             B("Sub", x, T(<< a, c >>)), Cmp(a, "<", b), Cmp(c, "==", x), IfE(a, b, x),
             S(<< >>), P(<< a >>), N("Min", << a, b >>), U("LogNot", a),
             N("LogAnd", << a, c >>) }
PoolFor(ty) ==
    CASE ty = "leaf" -> LeafPool
      [] ty = "mid"  -> LeafPool \cup D1Quick
      [] OTHER       -> IF Quick THEN LeafPool \cup D1Quick ELSE LeafPool \cup D1Quick \cup D1More

QuickRoots ==
    { S(<< A, A >>), S(<< A, L, L >>), P(<< A, A >>), P(<< L, A, L >>),
      B("Quotient", A, L), B("Quotient", a, A), B("Power", A, L), Call(f, << A >>),
      Call(f, << A, L >>), B("Sub", x, T(<< A >>)), B("Sub", L, L), B("Sub", x, T(<< L, L >>)),
      Cmp(A, "<", L), IfE(a, A, L), IfE(Cmp(a, "<", b), L, b), a,
      Call(f, << L, S(<< >>), L >>),
      \* several free variables in one sum; the shape of the repository's own deepest test
      S(<< L, L, L, a >>), Call(f, << S(<< L, L >>), Call(f, << S(<< a, L >>) >>) >>) }
ThoroughRoots ==
    { S(<< A, M >>), S(<< M, L, L >>), S(<< L, L, L, a >>), S(<< M, M, a >>), S(<< A >>),
      P(<< A, M >>), P(<< L, M, L >>), P(<< M, M, b >>),
      B("Quotient", A, L), B("Quotient", L, M), B("Power", M, L), B("FloorDiv", M, L),
      B("Remainder", L, M), B("LShift", M, L), Call(f, << A >>), Call(f, << M, L >>),
      Call(L, << M >>), Call(f, << L, M, c >>), B("Sub", x, T(<< A >>)), B("Sub", L, L),
      B("Sub", x, T(<< L, L >>)), B("Sub", x, A), B("Sub", L, T(<< M, c >>)),
      Cmp(A, "<", L), Cmp(L, "==", M), Cmp(M, ">=", L), IfE(L, M, c), IfE(Cmp(a, "<", L), M, b),
      N("Min", << M, L >>), N("Max", << L, L, L >>), N("BitOr", << M, L >>),
      N("LogOr", << L, M >>), U("LogNot", A), U("BitNot", M), Look(M, "attr"), a,
      Call(f, << L, S(<< >>), L >>),
      \* the shape of the repository's own deepest test
      Call(f, << S(<< L, L >>), Call(f, << S(<< a, L >>) >>) >>),
      S(<< L, P(<< L, b >>), P(<< a, L >>) >>) }
\* deeper skeletons, only explored randomly (-simulate)
SimRoots ==
    { S(<< A, Call(f, << A, M >>) >>), S(<< P(<< A, L >>), P(<< M, L >>), L >>),
      P(<< S(<< A, L >>), S(<< M, L >>) >>), Call(f, << S(<< A, L >>), P(<< L, M >>) >>),
      B("Quotient", S(<< A, M >>), P(<< L, M >>)), IfE(Cmp(M, "<", L), S(<< A, L >>), P(<< M, L >>)),
      S(<< L, L, L, M, L >>), P(<< L, L, M, L >>), S(<< M, M, M >>),
      B("Sub", M, T(<< S(<< A, L >>), M >>)), B("Power", S(<< A, L >>), M),
      Call(f, << S(<< L, L >>), Call(f, << S(<< L, M >>) >>) >>),
      S(<< Call(f, << A >>), Call(f, << M >>), L >>), Cmp(S(<< A, L >>), "<", P(<< M, L >>)) }
Roots == CASE Tier = "quick" -> QuickRoots
           [] Tier = "sim"   -> SimRoots
           [] OTHER          -> ThoroughRoots

RECURSIVE FirstHoleTy(_)
FirstHoleTy(e) ==
    IF e.t = "Hole" THEN e.ty
    ELSE LET ks == Kids(e)
             RECURSIVE Go(_)
             Go(i) == IF i > Len(ks) THEN "" ELSE
                      LET r == FirstHoleTy(ks[i]) IN IF r # "" THEN r ELSE Go(i + 1)
         IN Go(1)

--------------------------------------------------------------------------
\* targets
SortedNames(S0) ==      \* a < b < c
    LET RECURSIVE Go(_)
        Go(q) == IF q = << >> THEN << >>
                 ELSE (IF Head(q) \in S0 THEN << Head(q) >> ELSE << >>) \o Go(Tail(q))
    IN Go(<< "a", "b", "c" >>)

TermPool(k) ==       \* values substituted for the k-th pattern variable
    IF Quick THEN CASE k = 1 -> { x, y, S(<< y, z >>), K1 }
                    [] k = 2 -> { z, P(<< x, y >>) }
                    [] OTHER -> { y }
    ELSE CASE k = 1 -> { x, S(<< y, z >>), K1, KI(0), Call(f, << y >>) }
           [] k = 2 -> { z, P(<< x, y >>), a }
           [] OTHER -> { y, S(<< z, z >>) }
Substs(p) ==         \* all substitutions for the pattern variables of p
    LET ns == SortedNames(PVars(p)) IN
    IF Len(ns) = 0 THEN { EmptyMap }
    ELSE IF Len(ns) = 1 THEN { ns[1] :> u : u \in TermPool(1) }
    ELSE IF Len(ns) = 2 THEN { (ns[1] :> u) @@ (ns[2] :> v) : u \in TermPool(1), v \in TermPool(2) }
    ELSE { (ns[1] :> u) @@ (ns[2] :> v) @@ (ns[3] :> w) :
              u \in TermPool(1), v \in TermPool(2), w \in TermPool(3) }

RenNames == IF Quick THEN {"y", "z", "b"} ELSE {"x", "y", "z", "a"}
InjFun(h) == \A u, v \in DOMAIN h : h[u] = h[v] => u = v
Renamings(p) ==      \* the injective ones and the constant ones
    { h \in [PVars(p) -> RenNames] :
         InjFun(h) \/ \E nm \in (IF Quick THEN {"y"} ELSE {"y", "x"}) : \A u \in DOMAIN h : h[u] = nm }
AsSubst(h) == [n \in DOMAIN h |-> V(h[n])]

\* flatten nested AC nodes of the same kind and reverse every operand list
RECURSIVE Mix(_)
Rev(s) == [i \in 1..Len(s) |-> s[Len(s) + 1 - i]]
Mix(e) ==
    LET ks == [i \in 1..Len(KidsW(e)) |-> Mix(KidsW(e)[i])] IN
    IF e.t \in ACKinds
    THEN N(e.t, Rev(ConcatAll([i \in 1..Len(ks) |->
                    IF ks[i].t = e.t THEN ks[i].c ELSE << ks[i] >>])))
    ELSE IF e.t \in CKinds THEN N(e.t, Rev(ks))
    ELSE WithKidsW(e, ks)
\* one more operand on the outermost AC node(s)
Extra(e) ==
    IF e.t \in ACKinds THEN N(e.t, Append(e.c, z))
    ELSE WithKidsW(e, [i \in 1..Len(KidsW(e)) |->
            LET k == KidsW(e)[i] IN IF k.t \in ACKinds THEN N(k.t, Append(k.c, z)) ELSE k])

IndepQuick == { S(<< x, y >>), S(<< x, y, z >>), P(<< x, y >>), P(<< y, S(<< x, z >>) >>),
                Call(f, << x >>), Call(f, << x, y >>), Call(g, << x >>), Call(g, << x, y >>),
                B("Quotient", x, y),
                B("Sub", x, T(<< y >>)), Cmp(x, "<", y), Cmp(x, ">", y), IfE(x, y, z), x, K1 }
IndepMore == { S(<< x, x >>), S(<< S(<< x, y >>), z >>), S(<< x, P(<< x, y >>) >>),
               S(<< x, y, z, x >>), S(<< K1, x >>), S(<< KI(0), x, y >>), P(<< x, x, y >>),
               P(<< K1, x, y >>), P(<< KI(0), x, y >>), P(<< P(<< x, y >>), z >>),
               S(<< >>), S(<< x >>), P(<< >>),
               Call(f, << S(<< x, y >>), Call(f, << S(<< x, z >>) >>) >>),
               Call(f, << x, y, z >>), B("Power", x, K2), B("Power", x, y), B("Quotient", S(<< x, y >>), z),
               B("Sub", x, y), B("Sub", x, T(<< y, z >>)), B("Sub", y, T(<< x, z >>)),
               Cmp(x, "==", y), Cmp(x, ">=", x), IfE(Cmp(x, "<", y), x, y),
               N("Min", << x, y >>), N("Max", << x, y, z >>), N("BitOr", << y, x >>),
               N("LogOr", << x, y >>), U("LogNot", x), U("BitNot", y), Look(x, "attr"),
               B("FloorDiv", x, y), B("Remainder", x, y), B("LShift", x, y), y, a, KI(2) }
IndepPool(p) ==
    LET pool == IF Quick THEN IndepQuick ELSE IndepQuick \cup IndepMore IN
    { u \in pool : u.t = p.t \/ (Quick /\ u.t \in {"Var", "Const"}) \/ u = x }

--------------------------------------------------------------------------
(* NON-instances by SPLITTING a repeated pattern variable (mode "split"): one occurrence   *)
(* (the k-th in operand order) of a variable that occurs at least twice is instantiated    *)
(* with another operand than all its other occurrences, every other variable uniformly.    *)
(* The operand pairs put a FALSY value - zero of each numeric type, False, a product with  *)
(* a zero factor, a quotient with zero numerator: exactly the trees whose Python truth     *)
(* value is False (TruthE) - against a different operand, in both orders, so that          *)
(* whichever occurrence the algorithm processes first, the clash test of the binding       *)
(* tables (unify_map) is exercised with a falsy EARLIER binding and with a falsy LATER one.*)
(* No sound record exists for such a target unless the operands can be regrouped; every    *)
(* record that is returned is judged like any other.                                      *)
RECURSIVE Occ(_, _), MarkK(_, _, _, _)
Occ(e, n) == IF e.t = "Var" THEN (IF e.name = n THEN 1 ELSE 0)
             ELSE SeqSum([i \in 1..Len(KidsW(e)) |-> Occ(KidsW(e)[i], n)])
MarkK(e, n, k, m) ==      \* the k-th occurrence of variable n (1 <= k <= Occ(e, n)) becomes m
    IF e.t = "Var" THEN (IF e.name = n /\ k = 1 THEN m ELSE e)
    ELSE LET ks == KidsW(e)
             Before(i) == SeqSum([j \in 1..(i - 1) |-> Occ(ks[j], n)])
         IN WithKidsW(e, [i \in 1..Len(ks) |->
                IF k > Before(i) /\ k <= Before(i) + Occ(ks[i], n)
                THEN MarkK(ks[i], n, k - Before(i), m) ELSE ks[i]])
K0 == KI(0)
FalsyQuick == { K0, K(FltV(0, 1)), K(BoolV(FALSE)), P(<< K0, x >>), B("Quotient", K0, y) }
FalsyMore  == { P(<< x, K0 >>), P(<< K0 >>), S(<< K0 >>), B("Quotient", P(<< K0, x >>), z) }
FalsyOps == IF Quick THEN FalsyQuick ELSE FalsyQuick \cup FalsyMore
NonFalsy == { y }
\* << operand of the k-th occurrence, operand of the other occurrences >>; the K1 pair is the
\* same split without a falsy operand.  quick: the falsy operand at the first resp. the last
\* occurrence (SplitKs), which for two occurrences is both orders; thorough: at every
\* occurrence, also as the operand of all the OTHER occurrences, and two different falsy ones
SplitPairs == { << u, v >> : u \in FalsyOps, v \in NonFalsy } \cup { << K1, y >> }
              \cup (IF Quick THEN {}
                    ELSE { << v, u >> : u \in FalsyQuick, v \in NonFalsy }
                         \cup { << P(<< K0, x >>), B("Quotient", K0, y) >> })
BaseSub(p) == [n \in PVars(p) |-> CASE n = "a" -> x [] n = "b" -> z [] OTHER -> V("w")]
SplitKs(p, n) == IF Tier = "thorough" THEN 1..Occ(p, n) ELSE {1, Occ(p, n)}
SplitTargets(p) ==
    UNION { { LET s == (n :> pr[2]) @@ BaseSub(p) IN
              [t |-> Inst(MarkK(p, n, k, V("?")), ("?" :> pr[1]) @@ s), s |-> s] :
                k \in SplitKs(p, n), pr \in SplitPairs } :
            n \in { m \in PVars(p) : Occ(p, m) >= 2 } }

--------------------------------------------------------------------------
Init == pat \in Roots /\ tgt = Hole /\ mode = "" /\ sub = EmptyMap
PatDone == NHoles(pat) = 0
Complete == tgt.t # "Hole"

FillPattern ==
    /\ ~PatDone
    /\ \E s \in PoolFor(FirstHoleTy(pat)) : pat' = FillFirst(pat, s)
    /\ UNCHANGED << tgt, mode, sub >>
\* -simulate: TLC evaluates the invariants on EVERY successor before picking one, so the
\* random tier draws a few targets per pattern instead of offering them all
Draw(pool) == IF Tier = "sim" /\ pool # {} THEN {RandomElement(pool)} ELSE pool
PickTarget ==
    /\ PatDone /\ ~Complete /\ Cardinality(PVars(pat)) <= 3
    /\ UNCHANGED pat
    /\ \/ \E s \in Draw(Substs(pat)) :
            \/ tgt' = Inst(pat, s) /\ mode' = "inst" /\ sub' = s
            \/ Mix(Inst(pat, s)) # Inst(pat, s)
                 /\ tgt' = Mix(Inst(pat, s)) /\ mode' = "mix" /\ sub' = s
            \/ Extra(Inst(pat, s)) # Inst(pat, s) /\ (\A n \in DOMAIN s : s[n].t = "Var")
                 /\ tgt' = Extra(Inst(pat, s)) /\ mode' = "extra" /\ sub' = s
       \/ \E h \in Draw(Renamings(pat)) :
            tgt' = Inst(pat, AsSubst(h)) /\ mode' = "ren" /\ sub' = AsSubst(h)
       \/ \E u \in Draw(IndepPool(pat)) : tgt' = u /\ mode' = "indep" /\ sub' = EmptyMap
       \/ \E r \in Draw(SplitTargets(pat)) : tgt' = r.t /\ mode' = "split" /\ sub' = r.s
Next == FillPattern \/ PickTarget

--------------------------------------------------------------------------
\* candidate sets: every subset of the pattern variables; "*" = none declared (the default)
CandSets(p) ==
    (SUBSET PVars(p)) \cup {{"*"}}
    \cup (IF Quick THEN {} ELSE { PVars(p) \cup {"f", "q"} })
DeclaredCandSets(p) == CandSets(p) \ {{"*"}}

(* Named deviations of the algorithm from the meaning (found by TLC on this model,     *)
(* confirmed on the real code, see notes/C16.md):                                       *)
(*  Dev_Simplified   a binding built by flattened_sum/flattened_product has lost a 0   *)
(*                   (sum), a 1 or everything next to a 0 (product), or is the value   *)
(*                   of an EMPTY group (0 / 1): the record reproduces the target only  *)
(*                   after arithmetic simplification (verdict "simplified").           *)
(*  Dev_EmptyACReset an AC node WITHOUT operands in the pattern matched against an     *)
(*                   empty one returns a fresh record instead of the incoming ones:    *)
(*                   bindings made before are lost (verdict "inst").                   *)
Dev_Simplified(v) == v = "simplified"
Dev_EmptyACReset(p, v) == HasEmptyAC(p) /\ v = "inst"

ImplSound ==
    Complete => \A C \in DeclaredCandSets(pat) :
        LET rs == UnifyImpl(pat, tgt, C) IN
        \A i \in 1..Len(rs) :
            LET v == BindVerdict(pat, tgt, C, rs[i]) IN
            v = "OK" \/ Dev_Simplified(v) \/ Dev_EmptyACReset(pat, v)
ImplComplete ==
    Complete => \A C \in DeclaredCandSets(pat) :
        IsInjRenaming(pat, tgt, C) => Len(UnifyImpl(pat, tgt, C)) >= 1

\* the meaning layer agrees with the construction of the targets
MeaningSelfCheck ==
    Complete =>
      /\ mode \in {"inst", "mix"} => BindVerdict(pat, tgt, PVars(pat), sub) = "OK"
      /\ mode = "extra" => BindVerdict(pat, tgt, PVars(pat), sub) # "OK"
      \* a split target is not the instance under the uniform substitution, and a falsy
      \* operand really is one
      /\ mode = "split" => BindVerdict(pat, tgt, PVars(pat), sub) # "OK"
      /\ \A u \in FalsyOps : IsZeroE(u)
      /\ \A u \in NonFalsy : TruthE(u)
      /\ mode = "ren" =>
            (IsInjRenaming(pat, tgt, PVars(pat))
               <=> LET h == [n \in VarsOf(pat) |-> IF n \in DOMAIN sub THEN sub[n].name ELSE n]
                   IN InjFun(h))
      /\ mode = "ren" => BindVerdict(pat, tgt, PVars(pat), sub) = "OK"
      /\ ACEq(tgt, tgt) /\ ACEq(Mix(tgt), tgt) /\ (ACEq(pat, tgt) => ACUEq(pat, tgt))

Emit == Complete =>
    PrintT(ToJson([p |-> pat, t |-> tgt, m |-> mode,
                   cs |-> CandSets(pat)]))
=============================================================================
