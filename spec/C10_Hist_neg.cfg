CONSTANT KeyMode = "address"
CONSTANT MaxOps = 5
CONSTANT NPool = 5
CONSTANT Bug = "none"
INIT Init
NEXT Next
INVARIANT EveryDerivativeIsOfItsOwnInput
CHECK_DEADLOCK FALSE
