CONSTANTS
  PoolSel = "consts"
  ArgSel = "core"
  MaxLen = 2
  KeyMode = "pyeq"
  StoreMode = "store"
  HitMode = "identity"
  Random = FALSE
  FbMode = "faithful"
  ShareSel = "parity"
  RbMode = "faithful"
INIT Init
NEXT Next
INVARIANT Accepted
INVARIANT NoComputedTwice
INVARIANT Transparent
INVARIANT NotSharedArgs
INVARIANT NotSharedTypes
INVARIANT SoundCache
CHECK_DEADLOCK FALSE
