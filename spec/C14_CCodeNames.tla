---------------------------- MODULE C14_CCodeNames ----------------------------
(***************************************************************************)
(* S-layer for C14, name half: the CSE name table of a C code generator    *)
(* and of its copies, as a state machine over histories of calls.          *)
(*                                                                         *)
(* The statement: "every hoisted name is unique and assigned before any    *)
(* use, a wrapped subexpression is assigned once however often and in      *)
(* whatever order it recurs across successive calls on the same mapper or  *)
(* its copies, and generated names never collide with one another when     *)
(* prefixes repeat."                                                       *)
(*                                                                         *)
(* State.  ms : sequence of mapper instances (1 = the original, copies are *)
(* appended), each                                                         *)
(*    list   : the ordered assignments  [name, used, child, prefix, mapped]*)
(*             used = the hoisted names the assignment's text references   *)
(*    toName : child tree -> name        (which children are assigned)     *)
(*    names  : names in use                                                *)
(* stack/cur : the call in progress (Gen(e) is not atomic: a wrapper whose *)
(*             child is unknown first hoists the wrappers nested in the    *)
(*             child -- nested Hoist steps -- then itself)                 *)
(* hist      : the history so far (part of the state on purpose: different *)
(*             orders are different behaviours, and the complete ones are  *)
(*             printed for the driver by C14_NamesGen)                     *)
(*                                                                         *)
(* Actions.  CallGen(m,e) ; Use / Enter / Hoist / Return (the steps of one    *)
(* Gen) ; Copy(m, how) ; CopyMapped(m, name, child).                       *)
(*                                                                         *)
(* Buggy selects a defect for the negative controls (DESIGN 9.1): each     *)
(* must make TLC report the matching invariant violated.  "CopyForgets" is *)
(* not an invented mutant but the transcription of what                    *)
(* CCodeMapper.__init__ does today with the list it gets from copy():      *)
(* cse_to_name / cse_names are rebuilt from (name, TEXT) pairs, i.e. keyed *)
(* by texts, so the copy knows no child and no name (Dev_CopyRebuildsFrom- *)
(* Texts).  TLC refutes OncePerChild / NamesUnique for it on the model --  *)
(* a design-level failure class that stage (3) then observes on the code.  *)
(***************************************************************************)
EXTENDS Expr
CONSTANTS Buggy, Tier
VARIABLES ms, stack, cur, hist

vars == << ms, stack, cur, hist >>

\* ------------------------------------------------------------ expressions
x == V("x")  y == V("y")  z == V("z")
M1 == KI(-1)
CP(a, p) == CSE(a, p, "pymbolic_eval")
IsWrap(e) == e.t = "CSE"

\* the wrappers met when e is translated, in visiting order; the translation does
\* not look inside a wrapper unless it has to hoist it
RECURSIVE Wraps(_)
Wraps(e) ==
    IF IsWrap(e) THEN << e >>
    ELSE LET ks == Kids(e)
             RECURSIVE Go(_)
             Go(i) == IF i > Len(ks) THEN << >> ELSE Wraps(ks[i]) \o Go(i + 1)
         IN Go(1)

\* every child wrapped anywhere inside e (through nested wrappers)
RECURSIVE AllChildren(_)
AllChildren(e) ==
    LET ws == Wraps(e) IN
    UNION { {ws[i].a} \cup AllChildren(ws[i].a) : i \in 1..Len(ws) }

\* ------------------------------------------------------------ mapper state
NoNames == [c \in {} |-> ""]
EmptyMapper == [list |-> << >>, toName |-> NoNames, names |-> {}]
Entry(name, used, child, prefix, mapped) ==
    [name |-> name, used |-> used, child |-> child, prefix |-> prefix, mapped |-> mapped]

NamesOf(s) == { s.list[i].name : i \in 1..Len(s.list) }
\* the names that stand for child c in s: the table's name and, when a user re-declared an
\* already hoisted child under a name of his own (round 6), the name of the older
\* assignment as well -- both are assigned in the list and hold the child's value
NamesFor(s, c) == IF c \notin DOMAIN s.toName THEN {}
                  ELSE {s.toName[c]} \cup { s.list[i].name : i \in { j \in 1..Len(s.list) : s.list[j].child = c } }
\* the names the wrappers ws stand for, as far as they are assigned
RightNames(s, ws) == UNION { NamesFor(s, ws[i].a) : i \in 1..Len(ws) }

\* what hoisting `child` under `name` with a text that references `used` would
\* break ("" = the step is allowed).  Shared by the model's anti-deadlock
\* invariant and by the trace specification, which evaluates it on logged data.
HoistClause(s, child, name, used) ==
    IF child \in DOMAIN s.toName THEN "assigned-twice"
    ELSE IF name \in NamesOf(s) \cup s.names THEN "name-collision"
    ELSE IF ~(used \subseteq NamesOf(s)) THEN "use-before-def"
    ELSE IF ~(used \subseteq RightNames(s, Wraps(child))) THEN "wrong-reference"
    ELSE ""

HoistEff(s, child, prefix, name, used) ==
    [list |-> Append(s.list, Entry(name, used, child, prefix, FALSE)),
     toName |-> IF Buggy = "NoMemo" THEN s.toName ELSE s.toName @@ (child :> name),
     names |-> s.names \cup {name}]

\* a returned text may only reference names of the wrappers of the expression
RetClause(s, e, used) ==
    IF ~(used \subseteq NamesOf(s)) THEN "use-before-def"
    ELSE IF ~(used \subseteq RightNames(s, Wraps(e))) THEN "wrong-reference"
    ELSE ""

Range(f) == { f[c] : c \in DOMAIN f }
\* "ReservedFromTable" (round 6): a mapper built from an existing list reserves the names
\* its TABLE mentions instead of the names its LIST assigns.  The two differ as soon as a
\* listed name is not (or no longer) the value of a table entry: a hoisted child the user
\* re-declared under another name, a list of (name, code string) pairs.
Reserve(s) == IF Buggy = "ReservedFromTable" THEN [s EXCEPT !.names = Range(s.toName)] ELSE s
CopyOf(s) == IF Buggy = "CopyForgets" THEN [list |-> s.list, toName |-> NoNames, names |-> {}]
             ELSE s
\* CCodeMapper(cse_name_list=m.cse_name_list): the list holds (name, code string) pairs
\* for the assignments the mappers made and (name, expression) pairs for the entries a
\* user mapped (copy_with_mapped_cses).  From a code string the constructed mapper can
\* only RESERVE the name (repair b1a8afc: "names declared by their code strings, without
\* a subexpression"): it is not one of the statement's copies and does not know which
\* child such a name stands for; a mapped entry it knows like the mapper it came from.
\* Its inherited assignment entries are user-declared ones (mapped) whose child is an
\* opaque token per name: a child the original had assigned may be assigned again
\* there -- under a name that is still unique.
Decl(name) == [t |-> "Decl", name |-> name]
DeclOf(s) ==
    LET L == [i \in 1..Len(s.list) |->
                 IF s.list[i].mapped THEN s.list[i]
                 ELSE Entry(s.list[i].name, s.list[i].used, Decl(s.list[i].name), "", TRUE)]
    IN [list |-> L,
        toName |-> [c \in { L[i].child : i \in 1..Len(L) } |->
                       L[CHOOSE i \in 1..Len(L) : L[i].child = c].name],
        names |-> NamesOf(s)]
\* under "ReservedFromTable" the table of a constructor-built mapper holds the entries a
\* user mapped only (code strings declare no subexpression)
DeclBuggy(s) ==
    LET d == DeclOf(s) IN
    [d EXCEPT !.names = { s.list[i].name : i \in { j \in 1..Len(s.list) : s.list[j].mapped } }]
CopyHow(s, how) == IF how = "ctor" /\ Buggy = "" THEN DeclOf(s)
                   ELSE IF how = "ctor" /\ Buggy = "ReservedFromTable" THEN DeclBuggy(s)
                   ELSE Reserve(CopyOf(s))
\* copy_with_mapped_cses([(name, child)]): the user declares that `child` is available as
\* `name`.  The child may be one the mapper has hoisted already (round 6): the declaration
\* then takes over the table entry (the copy refers to the child by the user's name from
\* now on) while the older assignment stays in the list -- and its name stays reserved.
MappedEff(s, name, child) ==
    Reserve([list |-> Append(s.list, Entry(name, {}, child, "", TRUE)),
             toName |-> (child :> name) @@ s.toName,
             names |-> IF Buggy = "CopyForgets" THEN s.names ELSE s.names \cup {name}])

\* ------------------------------------------------------------- name choice
\* the candidates for a prefix: _cse_<p>, _cse_<p>_2, _cse_<p>_3 ... ; without a
\* prefix _cse0, _cse1, ...
Cand(prefix, k) ==
    IF prefix = "" THEN "_cse" \o ToString(k)
    ELSE IF k = 0 THEN "_cse_" \o prefix
    ELSE "_cse_" \o prefix \o "_" \o ToString(k + 1)
FirstFree(names, prefix) ==
    LET RECURSIVE Go(_)
        Go(k) == IF Cand(prefix, k) \notin names THEN Cand(prefix, k) ELSE Go(k + 1)
    IN Go(0)
NextName(s, prefix) ==
    CASE Buggy = "NameReuse" -> Cand(prefix, 0)
      \* numbers the candidates by counting earlier uses of the prefix, never
      \* looking at the names in use: collides with a literal prefix "u_2"
      [] Buggy = "SuffixByCount" ->
            Cand(prefix, Cardinality({ i \in 1..Len(s.list) : s.list[i].prefix = prefix }))
      [] OTHER -> FirstFree(s.names, prefix)

\* ------------------------------------------------------------------ pools
c1 == N("Sum", << x, KI(1) >>)
c2 == N("Product", << y, KI(2) >>)
c3 == N("Sum", << CP(c1, "u"), y >>)
c4 == N("Product", << CSE0(c1), CP(c2, "u") >>)
c5 == N("Sum", << z, KI(3) >>)
c6 == N("Sum", << CP(c3, "v"), CSE0(c5) >>)

PoolQuick == <<
  N("Product", << CP(c1, "u"), CP(c1, "u") >>),                      \* one wrapper twice
  N("Sum", << CP(c1, "u"), CP(c2, "u") >>),                          \* one prefix, two children
  N("Sum", << CP(c5, "u_2"), x >>),                                  \* a prefix that looks generated
  N("Sum", << CP(c3, "v"), N("Product", << M1, CSE0(c1) >>) >>),     \* nested; fresh wrapper of a known child
  N("Product", << CSE0(c2), CSE0(c5) >>),                            \* unprefixed: numbered
  CP(c4, "u"),                                                       \* wrapper at the root, two nested
  N("Sum", << CP(c2, "u"), CP(c5, "u"), CP(c1, "u") >>) >>           \* u, u_2, u_3
PoolMore == <<
  IfE(Cmp(x, "<", y), CSE0(c3), CP(c2, "u")),
  CP(CP(c1, "u"), "w"),                                              \* wrapper of a wrapper
  B("Power", CP(c5, "u"), KI(2)),                                    \* visited twice by the expansion
  N("Sum", << CSE0(c4), CSE0(c6) >>),                                \* three levels
  B("FloorDiv", CP(c6, "u_2"), CP(c2, "v")) >>
Pool == IF Tier = "quick" THEN PoolQuick ELSE PoolQuick \o PoolMore
MappedKids == << c5, c2 >>            \* wrapper-free children a user may pre-assign
Redeclarable == << c1, c2, c5 >>      \* ... or re-declare after the mapper has hoisted them
\* the names a user declares: one of his own, and (thorough / simulation) one that looks
\* like a generated candidate
MappedNames == IF Tier = "quick" THEN << "m0" >> ELSE << "m0", "_cse_u_2" >>
MaxGen == IF Tier = "tiny" THEN 2 ELSE IF Tier = "sim" THEN 6 ELSE 3
MaxMappers == IF Tier = "sim" THEN 4 ELSE 2
Hows == {"copy", "ctor"}

NGen(h) == Cardinality({ i \in 1..Len(h) : h[i].op = "gen" })

\* ----------------------------------------------------------------- actions
Frame(root, w, todo) == [root |-> root, w |-> w, todo |-> todo, used |-> {}, idx |-> 0]

Init == /\ ms = << EmptyMapper >>
        /\ stack = << >>
        /\ cur = 0
        /\ hist = << >>

CallGen(m, e) ==
    /\ cur = 0
    /\ NGen(hist) < MaxGen
    /\ cur' = m
    /\ stack' = << Frame(TRUE, e, Wraps(e)) >>
    /\ hist' = Append(hist, [op |-> "gen", m |-> m, e |-> e])
    /\ UNCHANGED ms

Top == stack[Len(stack)]
Pop(name) == LET n == Len(stack) IN
             [SubSeq(stack, 1, n - 1) EXCEPT ![n - 1].todo = Tail(@), ![n - 1].used = @ \cup {name}]

\* the next wrapper's child is assigned already: reference its name
Use ==
    /\ cur # 0 /\ Top.todo # << >>
    /\ LET w == Head(Top.todo) s == ms[cur] n == Len(stack) IN
       /\ w.a \in DOMAIN s.toName
       /\ stack' = [stack EXCEPT ![n].todo = Tail(@), ![n].used = @ \cup {s.toName[w.a]}]
       /\ UNCHANGED << ms, cur, hist >>

\* ... it is not: translate the child first (which may hoist nested wrappers)
Enter ==
    /\ cur # 0 /\ Top.todo # << >>
    /\ LET w == Head(Top.todo) s == ms[cur] IN
       /\ w.a \notin DOMAIN s.toName
       /\ IF Buggy = "UseBeforeDef"
          \* appends the assignment before translating the child
          THEN /\ ms' = [ms EXCEPT ![cur] = HoistEff(s, w.a, w.prefix, NextName(s, w.prefix), {})]
               /\ stack' = Append(stack, [Frame(FALSE, w, Wraps(w.a)) EXCEPT !.idx = Len(s.list) + 1])
          ELSE /\ stack' = Append(stack, Frame(FALSE, w, Wraps(w.a)))
               /\ UNCHANGED ms
       /\ UNCHANGED << cur, hist >>

\* the child's text is complete: choose a name, append the assignment
Hoist ==
    /\ cur # 0 /\ Top.todo = << >> /\ ~Top.root
    /\ LET s == ms[cur] w == Top.w IN
       IF Buggy = "UseBeforeDef"
       THEN /\ ms' = [ms EXCEPT ![cur].list[Top.idx].used = Top.used]
            /\ stack' = Pop(s.list[Top.idx].name)
       ELSE LET name == NextName(s, w.prefix) IN
            /\ ms' = [ms EXCEPT ![cur] = HoistEff(s, w.a, w.prefix, name, Top.used)]
            /\ stack' = Pop(name)
    /\ UNCHANGED << cur, hist >>

Return ==
    /\ cur # 0 /\ Top.todo = << >> /\ Top.root
    /\ cur' = 0 /\ stack' = << >>
    /\ UNCHANGED << ms, hist >>

GensLeft == NGen(hist) < MaxGen
Copy(m, how) ==
    /\ cur = 0 /\ Len(ms) < MaxMappers /\ GensLeft
    /\ Len(ms[m].list) > 0                    \* copying an empty table is a fresh mapper
    /\ ms' = Append(ms, CopyHow(ms[m], how))
    /\ hist' = Append(hist, [op |-> "copy", m |-> m, how |-> how])
    /\ UNCHANGED << stack, cur >>

\* copy_with_mapped_cses: the user declares that `child` is available as `name`
CopyMapped(m, name, child) ==
    /\ cur = 0 /\ Len(ms) < MaxMappers /\ GensLeft
    /\ Len(ms[m].list) > 0
    /\ name \notin NamesOf(ms[m])
    /\ \A i \in 1..Len(ms[m].list) : ~(ms[m].list[i].mapped /\ ms[m].list[i].child = child)
    /\ ms' = Append(ms, MappedEff(CopyOf(ms[m]), name, child))
    /\ hist' = Append(hist, [op |-> "copym", m |-> m, name |-> name, c |-> child])
    /\ UNCHANGED << stack, cur >>

\* the first mapped child that is still unassigned (one choice keeps the space small)
FirstUnmapped(s) ==
    LET RECURSIVE Go(_)
        Go(i) == IF i > Len(MappedKids) THEN 0
                 ELSE IF MappedKids[i] \notin DOMAIN s.toName THEN i ELSE Go(i + 1)
    IN Go(1)

\* the first re-declarable child the mapper has hoisted itself
FirstHoisted(s) ==
    LET RECURSIVE Go(_)
        Go(i) == IF i > Len(Redeclarable) THEN 0
                 ELSE IF \E j \in 1..Len(s.list) : ~s.list[j].mapped /\ s.list[j].child = Redeclarable[i]
                      THEN i ELSE Go(i + 1)
    IN Go(1)

Next ==
    \/ \E m \in 1..Len(ms), i \in 1..Len(Pool) : CallGen(m, Pool[i])
    \/ Use \/ Enter \/ Hoist \/ Return
    \/ \E m \in 1..Len(ms), how \in Hows : Copy(m, how)
    \/ \E m \in 1..Len(ms), n \in 1..Len(MappedNames) :
          \/ FirstUnmapped(ms[m]) # 0 /\ CopyMapped(m, MappedNames[n], MappedKids[FirstUnmapped(ms[m])])
          \/ FirstHoisted(ms[m]) # 0 /\ CopyMapped(m, MappedNames[n], Redeclarable[FirstHoisted(ms[m])])

Spec == Init /\ [][Next]_vars

\* -------------------------------------------------------------- invariants
NamesUniqueIn(s) ==
    \A i, j \in 1..Len(s.list) : i # j => s.list[i].name # s.list[j].name
DefinedBeforeUseIn(s) ==
    \A i \in 1..Len(s.list) : s.list[i].used \subseteq { s.list[j].name : j \in 1..(i - 1) }
\* one assignment per child, and toName is exactly the list's child -> name map
\* (round 6) the MAPPER never assigns a child that has an entry already; a later entry for
\* the same child can only be a user's declaration (copy_with_mapped_cses of a hoisted
\* child, at most one per child), and the table follows the latest entry.  Without such
\* re-declarations this is literally "children pairwise distinct, toName = the list's map".
LastFor(s, c) == s.list[CHOOSE i \in 1..Len(s.list) :
                          /\ s.list[i].child = c
                          /\ \A j \in (i + 1)..Len(s.list) : s.list[j].child # c]
OncePerChildIn(s) ==
    /\ \A i, j \in 1..Len(s.list) :
          (i < j /\ s.list[i].child = s.list[j].child) => (s.list[j].mapped /\ ~s.list[i].mapped)
    /\ \A i \in 1..Len(s.list) : /\ s.list[i].child \in DOMAIN s.toName
                                 /\ s.toName[s.list[i].child] = LastFor(s, s.list[i].child).name
    /\ \A c \in DOMAIN s.toName : \E i \in 1..Len(s.list) : s.list[i].child = c
\* prefixes that repeat, or that look like each other's generated candidates
Family(p) == IF p = "" THEN {} ELSE { p \o "_" \o ToString(k) : k \in 2..8 }
Related(p, q) == p = q \/ p \in Family(q) \/ q \in Family(p)
PrefixCollisionFreeIn(s) ==
    \A i, j \in 1..Len(s.list) :
        (i # j /\ ~s.list[i].mapped /\ ~s.list[j].mapped
             /\ Related(s.list[i].prefix, s.list[j].prefix))
        => s.list[i].name # s.list[j].name
\* an assignment references exactly the names of the wrappers in its child
ReferencesRightIn(s) ==
    \A i \in 1..Len(s.list) :
        s.list[i].mapped \/ s.list[i].used \subseteq RightNames(s, Wraps(s.list[i].child))

NamesUnique         == \A m \in 1..Len(ms) : NamesUniqueIn(ms[m])
DefinedBeforeUse    == \A m \in 1..Len(ms) : DefinedBeforeUseIn(ms[m])
OncePerChild        == \A m \in 1..Len(ms) : OncePerChildIn(ms[m])
PrefixCollisionFree == \A m \in 1..Len(ms) : PrefixCollisionFreeIn(ms[m])
ReferencesRight     == \A m \in 1..Len(ms) : ReferencesRightIn(ms[m])

\* whenever the model is about to hoist, the step is one the property allows
\* (binds the model's algorithm to the clause operator the trace spec uses)
HoistAllowed ==
    (cur # 0 /\ Buggy = "" /\ Len(stack) > 0 /\ Top.todo = << >> /\ ~Top.root)
    => HoistClause(ms[cur], Top.w.a, NextName(ms[cur], Top.w.prefix), Top.used) = ""

\* a call that returned has every wrapper it met assigned (no wrapper is lost)
AllAssignedAtReturn ==
    (cur = 0 /\ Len(hist) > 0 /\ hist[Len(hist)].op = "gen")
    => LET h == hist[Len(hist)] IN
       \A i \in 1..Len(Wraps(h.e)) : Wraps(h.e)[i].a \in DOMAIN ms[h.m].toName

TypeOK ==
    /\ cur \in 0..Len(ms)
    /\ (cur = 0) = (stack = << >>)
    /\ \A m \in 1..Len(ms) : NamesOf(ms[m]) \subseteq ms[m].names \/ Buggy # ""
=============================================================================
