CONSTANTS
  PoolSel = "core"
  ArgSel = "core"
  MaxLen = 2
  KeyMode = "noargs"
  StoreMode = "store"
  HitMode = "identity"
  Random = FALSE
  FbMode = "faithful"
  ShareSel = "parity"
  RbMode = "faithful"
INIT Init
NEXT Next
INVARIANT NotSharedArgs
CHECK_DEADLOCK FALSE
