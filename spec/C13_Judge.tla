------------------------------ MODULE C13_Judge ------------------------------
(***************************************************************************)
(* Stage (3) for C13.  One record per (tree, listed variables):            *)
(*   params   parameter names of the compiled callable, in order           *)
(*   c, cp    its results per environment, before / after a pickle round   *)
(*            trip (arguments supplied in 'params' order)                  *)
(*   a        results of compile()+eval of to_python_ast(e)     (full only)*)
(*   fn       results of exec'ing to_evaluatable_python_function (full)    *)
(*   imp      ASTToPymbolic(to_python_ast(e)) as a tree         (full only)*)
(*   imps     ASTToPymbolic(ast.parse(compile-path source))     (full only)*)
(* Every value is judged against Eval(e, env); the parameter order against *)
(* "listed first, then the remaining free variables in name order".        *)
(***************************************************************************)
EXTENDS C02_Env, Json, IOUtils
VARIABLES blk, off

Recs == ndJsonDeserialize(IOEnv.TRACE_FILE)
BS == 32
NB == (Len(Recs) + BS - 1) \div BS
Init == blk \in 0..(NB - 1) /\ off = 0
Next == off < BS - 1 /\ off' = off + 1 /\ UNCHANGED blk
Idx == blk * BS + off + 1

\* lexicographic order of the names that can occur (strings have no order in TLA+)
NameOrder == << "N", "Y", "a0", "b", "f", "g", "o", "t", "u", "w", "x", "y", "z" >>
RECURSIVE FreeVars(_)
FreeVars(e) == (IF e.t = "Var" THEN {e.name} ELSE {})
               \cup UNION { FreeVars(Kids(e)[i]) : i \in 1..Len(Kids(e)) }
ExpectedParams(e, listed) ==
    LET rest == FreeVars(e) \ SeqToSet(listed)
        RECURSIVE Go(_)
        Go(i) == IF i > Len(NameOrder) THEN << >>
                 ELSE (IF NameOrder[i] \in rest THEN << NameOrder[i] >> ELSE << >>) \o Go(i + 1)
    IN listed \o Go(1)

\* which node kinds each translation path claims to support
RECURSIVE KindsIn(_)
KindsIn(e) == {e.t} \cup UNION { KindsIn(Kids(e)[i]) : i \in 1..Len(Kids(e)) }
ToAstSupports(e) == KindsIn(e) \cap {"Cmp", "Min", "Max", "CSE", "Subst", "Deriv"} = {}

JudgeVals(e, vals) ==       \* first failing environment or OK / SKIP
    LET vs == [i \in 1..Len(Envs) |-> JudgeVal(Eval(e, Envs[i]), vals[i], e, Envs[i])]
        bad(i) == vs[i] \notin {"OK", "SKIP"}
    IN IF \E i \in 1..Len(vs) : bad(i)
       THEN LET i == CHOOSE i \in 1..Len(vs) : bad(i) /\ \A j \in 1..(i - 1) : ~bad(j)
            IN [v |-> vs[i], env |-> i]
       ELSE IF \A i \in 1..Len(vs) : vs[i] = "SKIP" THEN [v |-> "SKIP", env |-> 0]
       ELSE [v |-> "OK", env |-> 0]

PathVerdict(e, p, supported) ==
    IF p.r = "vals" THEN JudgeVals(e, p.vals)
    ELSE IF ~supported /\ p.r = "err" /\ p.v.e = "NotImplementedError" THEN [v |-> "SKIP", env |-> 0]
    ELSE [v |-> "translation-raised", env |-> 0]

ImpVerdict(e, p) ==
    IF p.r = "ok" THEN
        JudgeVals(e, [i \in 1..Len(Envs) |-> Eval(p.e, Envs[i])])
    ELSE IF p.r = "err" /\ ~ToAstSupports(e) /\ p.v.e = "NotImplementedError" THEN [v |-> "SKIP", env |-> 0]
    ELSE IF p.r = "err" THEN [v |-> "translation-raised", env |-> 0]
    ELSE [v |-> "SKIP", env |-> 0]

\* the importer applied to Python's own AST of the generated program (source of the compile
\* path): node classes the importer documents as unsupported (and / or, chained comparisons,
\* anything it answers with NotImplementedError) are out of its fragment
\* What the AST means is what Python computes from that source: the values the compiled
\* callable returned (rec.c, judged against Eval(e) on its own path) - so a printer defect is
\* charged to the compile path only, and the importer is judged on the AST it was given.
ImpSrcVerdict(rec) ==
    LET p == rec.imps IN
    IF p.r = "ok" /\ rec.c.r = "vals" THEN
        LET vs == [i \in 1..Len(Envs) |->
                      JudgeVal(rec.c.vals[i], Eval(p.e, Envs[i]), p.e, Envs[i])]
            bad(i) == vs[i] \notin {"OK", "SKIP"}
        IN IF \E i \in 1..Len(vs) : bad(i)
           THEN LET i == CHOOSE i \in 1..Len(vs) : bad(i) /\ \A j \in 1..(i - 1) : ~bad(j)
                IN [v |-> vs[i], env |-> i]
           ELSE IF \A i \in 1..Len(vs) : vs[i] = "SKIP" THEN [v |-> "SKIP", env |-> 0]
           ELSE [v |-> "OK", env |-> 0]
    ELSE IF p.r = "err" /\ p.v.e = "NotImplementedError" THEN [v |-> "SKIP", env |-> 0]
    ELSE IF p.r = "err" THEN [v |-> "translation-raised", env |-> 0]
    ELSE [v |-> "SKIP", env |-> 0]

Verdicts(rec) ==
    LET base == << [path |-> "compile", v |-> PathVerdict(rec.e, rec.c, TRUE)],
                   [path |-> "compile-pickled", v |-> PathVerdict(rec.e, rec.cp, TRUE)],
                   [path |-> "params",
                    v |-> IF rec.c.r # "vals" THEN [v |-> "SKIP", env |-> 0]
                          ELSE IF rec.params = ExpectedParams(rec.e, rec.listed)
                          THEN [v |-> "OK", env |-> 0] ELSE [v |-> "wrong-parameter-order", env |-> 0]] >>
        more == IF ~rec.full THEN << >> ELSE
                << [path |-> "to-ast", v |-> PathVerdict(rec.e, rec.a, ToAstSupports(rec.e))],
                   [path |-> "to-function", v |-> PathVerdict(rec.e, rec.fn, ToAstSupports(rec.e))],
                   [path |-> "from-ast", v |-> ImpVerdict(rec.e, rec.imp)],
                   [path |-> "from-ast-of-source", v |-> ImpSrcVerdict(rec)] >>
    IN base \o more

Report ==
    Idx <= Len(Recs) =>
      LET rec == Recs[Idx] vs == Verdicts(rec)
          bad == SelectSeq(vs, LAMBDA r : r.v.v # "OK")
      IN bad = << >> \/ PrintT(ToJson([id |-> rec.id, bad |-> bad]))
=============================================================================
