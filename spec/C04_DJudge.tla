----------------------------- MODULE C04_DJudge -----------------------------
(***************************************************************************)
(* Stage (3) for the dispatch half of C04: every observation recorded from *)
(* the real Mapper / CachedMapper (harness/c04drv.py, drive_dispatch) is    *)
(* judged against the meaning in C04_Dispatch: the handler names the       *)
(* classes ended up with, and - for every run (entry point x extra         *)
(* arguments x hook) - the first handler that ran, the arguments it got,   *)
(* that no other handler ran, and that what came back is what that handler *)
(* did (the token it returned or the very exception it raised, according   *)
(* to the outcome assignment of the case).  One verdict per record.        *)
(***************************************************************************)
EXTENDS C04_Dispatch, Json, IOUtils
VARIABLES blk, off

Recs == ndJsonDeserialize(IOEnv.TRACE_FILE)
BS == 64
NB == (Len(Recs) + BS - 1) \div BS
Init == blk \in 0..(NB - 1) /\ off = 0
Next == off < BS - 1 /\ off' = off + 1 /\ UNCHANGED blk
Idx == blk * BS + off + 1

SeqToSet(s) == { s[i] : i \in 1..Len(s) }
ModeKind(m) == IF m \in {"call", "ccall"} THEN "call" ELSE "fallback"

\* the handler name class i of the chain should end up with; a mix-in derives from
\* Expression only, so it inherits nothing
WantName(L, nb, c, i) == IF c.chain[i].mix THEN EffName(<< L[nb + i] >>, 1) ELSE EffName(L, nb + i)

\* observations recorded before round 5 have no seq / same fields
Obs(o) == o @@ [seq |-> IF o.first = "" THEN << >> ELSE << o.first >>, same |-> TRUE]

JudgeRec(rec) ==
    LET c == rec.case
        user == c.ty = "user"
        obj == IF user THEN [ty |-> "user", base |-> c.base,
                            chain |-> [i \in 1..Len(c.chain) |->
                                         Cls(c.chain[i].chars, c.chain[i].deco, c.chain[i].own)]]
               ELSE [ty |-> "foreign", kind |-> c.kind, reg |-> c.reg]
        userImpl == SeqToSet(c.impl)
        \* records written before the handlers' outcomes were a dimension: every handler returns
        oc == IF "oc" \in DOMAIN c THEN c.oc ELSE OcAll
        Impl == userImpl \cup SeqToSet(rec.stubs)
        nb == IF user THEN Len(BuiltinLineage(c.base)) ELSE 0
        \* clause "name": the handler name every user class ended up with
        badName == IF ~user THEN 0
                   ELSE LET L == Lineage(obj)
                            bad == { i \in 1..Len(c.chain) : rec.names[i] # WantName(L, nb, c, i) }
                        IN IF bad = {} THEN 0 ELSE CHOOSE i \in bad : \A j \in bad : i <= j
        tCall == Target(obj, Impl, "call")
        tFall == Target(obj, Impl, "fallback")
        TargetOf(j) == IF ModeKind(Runs[j].mode) = "call" THEN tCall ELSE tFall
        vs == [j \in 1..Len(Runs) |->
                 JudgeObs(TargetOf(j), Obs(rec.obs[j]),
                          Runs[j].ap.a, Runs[j].ap.k, userImpl, Runs[j].hookret, oc)]
        bad == { j \in 1..Len(Runs) : vs[j] \notin {"OK", "SKIP"} }
    IN IF Len(rec.obs) # Len(Runs) THEN [v |-> "MALFORMED"]
       ELSE IF badName # 0
       THEN [v |-> "name", pos |-> badName, deco |-> c.chain[badName].deco,
             own |-> c.chain[badName].own # "", got |-> rec.names[badName],
             want |-> WantName(Lineage(obj), nb, c, badName)]
       ELSE IF bad # {}
       THEN LET j == CHOOSE j \in bad : \A j2 \in bad : j <= j2 IN
            [v |-> vs[j], run |-> j, mode |-> Runs[j].mode,
             target |-> TargetOf(j),
             first |-> rec.obs[j].first, exc |-> rec.obs[j].exc,
             seq |-> Obs(rec.obs[j]).seq, who |-> oc.who, want |-> OcOf(oc, TargetOf(j)),
             cat |-> IF user THEN "user" ELSE Category(c.kind)]
       ELSE IF \E j \in 1..Len(Runs) : vs[j] = "SKIP" THEN [v |-> "SKIP"]
       ELSE [v |-> "OK"]

Report ==
    Idx <= Len(Recs) =>
      LET rec == Recs[Idx]  j == JudgeRec(rec) IN
      j.v = "OK" \/ PrintT(ToJson([id |-> rec.id] @@ j))
=============================================================================
