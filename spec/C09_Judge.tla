------------------------------ MODULE C09_Judge ------------------------------
(***************************************************************************)
(* Stage (3) for C09: every observation recorded from the real analyses    *)
(* is judged by TLC against the M-layer of C09_Analyses.  One record =     *)
(*   [id, e,                                                               *)
(*    rs, ix   distinct results of the dependency mappers and, for raw     *)
(*             flag setting k (RawSeq[k]) and variant v (1 uncached,       *)
(*             2 cached, 3 cached instance called a second time),          *)
(*             ix[3*(k-1)+v] = index into rs;  a result is                 *)
(*             [r |-> "ok", s |-> <<trees>>] | [r |-> "err", v |-> exc]    *)
(*             | [r |-> "bad"]                                             *)
(*    nn       get_num_nodes: [r |-> "ok", n] | [r |-> "err", v]           *)
(*    fl       <<FlopCounterBase, FlopCounter, CSEAwareFlopCounter>>       *)
(*    ev       per environment: evaluation with only the reported          *)
(*             variables bound: [r |-> "ok", v |-> value] | [r |-> "nodeps"]*)
(* Verdicts are total: OK (nothing printed), SKIP (counted), or a list of  *)
(* failing clauses with their attribution.                                 *)
(***************************************************************************)
EXTENDS C09_Env, Json, IOUtils
VARIABLES blk, off

Recs == ndJsonDeserialize(IOEnv.TRACE_FILE)
BS == 16
NB == (Len(Recs) + BS - 1) \div BS

Init == blk \in 0..(NB - 1) /\ off = 0
Next == off < BS - 1 /\ off' = off + 1 /\ UNCHANGED blk
Idx == blk * BS + off + 1

NVar == 3
Fail(an, cl, k, var, ek, pk, pos) ==
    [an |-> an, cl |-> cl, k |-> k, var |-> var, ek |-> ek, pk |-> pk, pos |-> pos,
     fl |-> (IF an = "deps" THEN EffSeq[EffIx[k]] ELSE AllOff)]
Skip(an, k, var) == Fail(an, "SKIP", k, var, "", "", 0)

\* where does (a node ==-equal to) m sit in e: parent kind and child position of a
\* shallowest occurrence among the positions P
Where(e, m, P) ==
    LET occ == { p \in P : Canon(At(e, p)) = m } IN
    IF occ = {} THEN [pk |-> "absent", pos |-> 0]
    ELSE LET p == CHOOSE q \in occ : \A q2 \in occ : Len(q) <= Len(q2) IN
         IF p = << >> THEN [pk |-> "root", pos |-> 0]
         ELSE [pk |-> At(e, SubSeq(p, 1, Len(p) - 1)).t, pos |-> p[Len(p)]]

DepsVerdicts(rec) ==
    LET e == rec.e
        gotc == TLCEval([j \in 1..Len(rec.rs) |->
                    IF rec.rs[j].r = "ok" THEN CanonSet(SeqToSet(rec.rs[j].s)) ELSE {}])
        P == TLCEval(Paths(e))
        wantE == TLCEval([j \in 1..NEff |-> CanonSet(DepsIn(e, EffSeq[j], P))])
        refE == TLCEval([j \in 1..NEff |-> DepsRefusalIn(e, EffSeq[j], P)])
        PerFlag(k) ==
            LET fl == EffSeq[EffIx[k]]
                refusal == refE[EffIx[k]]
                want == wantE[EffIx[k]]
                Vd(var) ==
                    LET j == rec.ix[NVar * (k - 1) + var] r == rec.rs[j] IN
                    IF refusal THEN { Skip("deps", k, var) }
                    ELSE IF r.r = "err" THEN { Fail("deps", "raised", k, var, r.v.e, "", 0) }
                    ELSE IF r.r # "ok" THEN { Fail("deps", "bad-result", k, var, "", "", 0) }
                    ELSE IF gotc[j] = want THEN { }                          \* OK
                    ELSE IF want \ gotc[j] # {} THEN
                        LET m == CHOOSE mm \in want \ gotc[j] : TRUE
                            w == Where(e, m, VisibleIn(e, fl, P))
                        IN { Fail("deps", "missing", k, var, m.t, w.pk, w.pos) }
                    ELSE LET m == CHOOSE mm \in gotc[j] \ want : TRUE
                             w == Where(e, m, P)
                         IN { Fail("deps", "extra", k, var, m.t, w.pk, w.pos) }
            IN UNION { Vd(var) : var \in 1..NVar }
    IN UNION { PerFlag(k) : k \in 1..NRaw }

CountVerdict(an, var, r, ambiguous, refusal, want) ==
    IF r.r = "err" THEN (IF refusal THEN Skip(an, 0, var) ELSE Fail(an, "raised", 0, var, r.v.e, "", 0))
    ELSE IF r.r # "ok" THEN Fail(an, "bad-result", 0, var, "", "", 0)
    ELSE IF ambiguous \/ refusal THEN Skip(an, 0, var)
    ELSE IF r.n = want THEN Fail(an, "OK", 0, var, "", "", 0)
    ELSE Fail(an, (IF r.n < want THEN "undercount" ELSE "overcount"), 0, var, "", "", 0)

NodesVerdicts(rec) ==
    { CountVerdict("nodes", 1, rec.nn, NodeCountAmbiguous(rec.e), FALSE, NodeCount(rec.e)) }

FlopsVerdicts(rec) ==
    LET e == rec.e
        refusal == FlopsRefusalPossible(e)
    IN { CountVerdict("flops", 1, rec.fl[1], FlopsAmbiguous(e), refusal, Flops(e)),
         CountVerdict("flops", 2, rec.fl[2], FlopsAmbiguous(e), refusal, Flops(e)),
         CountVerdict("cseflops", 3, rec.fl[3], CSEFlopsAmbiguous(e), refusal, CSEFlops(e)) }

EvalVerdicts(rec) ==
    { LET o == rec.ev[i] IN
      IF o.r # "ok" THEN Skip("eval", i, 1)
      ELSE IF IsUnknownVar(o.v) /\ o.v.a \in DOMAIN Envs[i]
           THEN Fail("eval", "needs-unreported-variable", i, 1, "Var", o.v.a, 0)
      ELSE Fail("eval", "OK", i, 1, "", "", 0)
      : i \in 1..Len(rec.ev) }

Verdicts(rec) == DepsVerdicts(rec) \cup NodesVerdicts(rec) \cup FlopsVerdicts(rec) \cup EvalVerdicts(rec)

Report ==
    Idx <= Len(Recs) =>
      LET rec == Recs[Idx]
          vs == Verdicts(rec)
          fails == { v \in vs : v.cl \notin {"OK", "SKIP"} }
          nskip == Cardinality({ v \in vs : v.cl = "SKIP" })
      IN /\ fails = {} \/ PrintT(ToJson([id |-> rec.id, v |-> "FAIL", fails |-> fails]))
         /\ nskip = 0 \/ PrintT(ToJson([id |-> rec.id, v |-> "SKIP", n |-> nskip]))
=============================================================================
