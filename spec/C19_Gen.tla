------------------------------- MODULE C19_Gen -------------------------------
(***************************************************************************)
(* Stage (1) for C19.  TLC enumerates the behaviours of all five parts     *)
(* (Init = a seed: part + first parameter, Next = the remaining            *)
(* parameters, so that the work is spread over the workers), checks on     *)
(* the model that every implementation-shaped algorithm (A-layer) refines  *)
(* the meaning (M-layer) over the whole generated space -- or falls into a *)
(* *named* deviation class, which is printed with the case (field "ac";    *)
(* none is open at present) -- and prints each complete case as one JSON   *)
(* line for the driver.                                                    *)
(* Tier "random" draws the parameters with RandomElement (tlc -simulate).  *)
(***************************************************************************)
EXTENDS C19_Entry, Json
CONSTANT Tier
VARIABLE st

Quick == Tier = "quick"
I(n) == IntV(n)

(**************************** (a) integer_power ****************************)
PowSeeds ==
    LET zm7  == { [mon |-> "zm", m |-> 7, x |-> << v >>] : v \in 0..6 }
        zm10 == { [mon |-> "zm", m |-> 10, x |-> << v >>] : v \in (IF Quick THEN {0, 2, 3, 5, 7} ELSE 0..9) }
        zmT  == IF Quick THEN {} ELSE { [mon |-> "zm", m |-> 46337, x |-> << v >>] : v \in {2, 3, 46336, 12345} }
        mat5 == { [mon |-> "mat", m |-> 5, x |-> xx] :
                    xx \in { << 1, 1, 0, 1 >>, << 1, 1, 1, 0 >>, << 2, 3, 1, 4 >>, << 0, 1, 0, 0 >>,
                             << 0, 0, 0, 0 >>, << 1, 0, 0, 1 >> } }
        mat3 == IF Quick THEN {} ELSE
                { [mon |-> "mat", m |-> 3, x |-> << a, b, c, d >>] : a \in 0..2, b \in 0..2, c \in 0..2, d \in 0..2 }
        word == { [mon |-> "word", m |-> 0, x |-> xx] :
                    xx \in { << >>, << 1 >>, << 1, 2 >>, << 2, 1, 1 >> } }
        int  == { [mon |-> "int", m |-> 0, x |-> << v >>] : v \in -3..3 }
        rat  == { [mon |-> "rat", m |-> 0, x |-> xx] :
                    xx \in { << 1, 2 >>, << -2, 3 >>, << 3, 2 >>, << -1, 1 >>, << 0, 1 >>, << 5, 3 >> } }
    IN  { [part |-> "pow", ph |-> "seed", mon |-> s.mon, m |-> s.m, x |-> s.x, one |-> o] :
            s \in zm7 \cup zm10 \cup zmT \cup mat5 \cup mat3 \cup word \cup int \cup rat, o \in {"id", "default"} }
PowExps == IF Quick THEN -3..64 ELSE -3..130
PowNext(s) ==
    \E n \in PowExps :
        \* (IF, not \/ : TLC explores both disjuncts of an action)
        /\ (IF s.mon = "int" /\ n >= 0 THEN IntPowSmall(s.x[1], n) ELSE TRUE)
        /\ (IF s.mon = "word" THEN n * Len(s.x) <= 200 ELSE TRUE)
        /\ (IF s.mon = "rat" /\ n >= 0
            THEN IntPowSmall(s.x[1], n) /\ IntPowSmall(s.x[2], n) ELSE TRUE)
        /\ st' = [part |-> "pow", ph |-> "case", mon |-> s.mon, m |-> s.m, x |-> s.x, one |-> s.one,
                  n |-> n, ac |-> ""]

(**************************** (b) Euclid ***********************************)
EuclidRange == IF Quick THEN -12..12 ELSE -40..40
EuclidSeeds == { [part |-> "euclid", ph |-> "seed", q |-> q] : q \in EuclidRange }
\* every pair goes through every entry point of the routine (C19_Arith (b'), C19_Entry)
EuclidNext(s) == \E r \in EuclidRange : st' = [part |-> "euclid", ph |-> "case", q |-> s.q, r |-> r, eps |-> EntrySeq, ac |-> ""]
\* one operand beyond 32 bit / beyond the 53 bits of a float: 2^k + a against a small integer, in
\* both orders; the small exponents are there for the model check (BigJudgeSound)
BigPrimes == << 10007, 10009, 30011 >>
BigExps == {4, 10, 20} \cup (IF Quick THEN {31, 52, 53, 54, 64, 100, 1100} ELSE (30..70) \cup {100, 127, 128, 1000, 1100})
BigSmall == IF Quick THEN {-7, -3, 2, 5, 6, 10} ELSE {-7, -6, -3, -2, -1, 1, 2, 3, 5, 6, 10, 12, 210}
EuclidBigSeeds == { [part |-> "euclidbig", ph |-> "seed", k |-> k] : k \in BigExps }
EuclidBigNext(s) == \E a \in -2..3, sm \in BigSmall, sw \in {0, 1} :
                      st' = [part |-> "euclidbig", ph |-> "case", k |-> s.k, a |-> a, sm |-> sm, sw |-> sw,
                             ps |-> BigPrimes, eps |-> EntrySeq, ac |-> ""]
ManyPool == IF Quick THEN {-6, -4, 0, 4, 6, 9} ELSE {-12, -6, -4, -1, 0, 1, 4, 6, 9, 10}
ManySeeds == { [part |-> "gcdmany", ph |-> "seed", xs |-> << a >>] : a \in ManyPool }
ManyNext(s) ==
    \/ st' = [part |-> "gcdmany", ph |-> "case", xs |-> s.xs, ac |-> ""]
    \/ \E b \in ManyPool : st' = [part |-> "gcdmany", ph |-> "case", xs |-> s.xs \o << b >>, ac |-> ""]
    \/ \E b \in ManyPool, c \in ManyPool :
            st' = [part |-> "gcdmany", ph |-> "case", xs |-> s.xs \o << b, c >>, ac |-> ""]

(**************************** (c) FFT **************************************)
FFTLens == IF Quick THEN 1..64 ELSE (1..64) \cup {81, 96, 100, 101, 120, 125, 128}
FFTCombos == { << "fft", 1 >>, << "fft", -1 >>, << "ifft", 1 >>, << "round", 1 >>, << "round2", 1 >>,
               << "symfft", 1 >>, << "symfft", -1 >> }
FFTSeeds == UNION { LET p == PrimeFrom(97, n) w == RootFrom(1, n, p) IN
                    { [part |-> "fft", ph |-> "seed", n |-> n, p |-> p, w |-> w, kind |-> kc[1], sign |-> kc[2]] :
                        kc \in FFTCombos } : n \in FFTLens }
Impulse(n, j) == [i \in 1..n |-> IF i = j THEN 1 ELSE 0]
Dense(n, p, t) == [i \in 1..n |-> (i * i * (3 + 4 * t) + (7 - 2 * t) * i + 11 * t) % p]
\* impulses carry the whole index structure (the transform is linear in x and the code path
\* does not depend on the data); the dense vectors would show a non-linear fault
ImpulseLens(kind, sign) ==
    IF kind = "fft" /\ sign = 1 THEN FFTLens
    ELSE IF kind = "symfft" /\ sign = 1 THEN (IF Quick THEN 1..32 ELSE FFTLens)
    ELSE IF kind \in {"fft", "ifft"} THEN (IF Quick THEN (1..20) \cup {24, 30, 36, 49, 60, 64} ELSE FFTLens)
    ELSE {}
FFTVectors(n, p, kind, sign) ==
    (IF n \in ImpulseLens(kind, sign) THEN { Impulse(n, j) : j \in 1..n } ELSE {})
    \cup { Dense(n, p, t) : t \in (IF kind \in {"fft", "symfft"} THEN 1..2 ELSE {1}) }
FFTNext(s) ==
    \E xx \in FFTVectors(s.n, s.p, s.kind, s.sign) :
        st' = [part |-> "fft", ph |-> "case", kind |-> s.kind, n |-> s.n, p |-> s.p, w |-> s.w,
               sign |-> s.sign, x |-> Force(xx), ac |-> ""]

GaussPool == { << 1, 0 >>, << 0, 1 >>, << 2, -1 >>, << -1, 3 >> }
SymGSeeds == { [part |-> "symg", ph |-> "seed", n |-> n, sign |-> sg] : n \in {1, 2, 4}, sg \in {1, -1} }
SymGNext(s) ==
    \E xx \in [1..s.n -> GaussPool] :
        st' = [part |-> "symg", ph |-> "case", n |-> s.n, sign |-> s.sign, x |-> Force(xx), ac |-> ""]

(**************************** (d) polynomials ******************************)
Coefs4 == { I(-2), I(-1), I(1), I(2) }
ExpPairs(hi) == { pr \in (0..hi) \X (0..hi) : pr[1] < pr[2] }
OneTerm(hi, cs) == { << Ent(e, c) >> : e \in 0..hi, c \in cs }
TwoTerm(hi, cs) == UNION { { << Ent(pr[1], c1), Ent(pr[2], c2) >> : c1 \in cs, c2 \in cs } : pr \in ExpPairs(hi) }
ThreeTerm(es, cs) == { << Ent(es[1], c1), Ent(es[2], c2), Ent(es[3], c3) >> : c1 \in cs, c2 \in cs, c3 \in cs }
\* <= 2 terms, exponents 0..2, coefficients -2,-1,1,2 (61 polynomials)
A2 == { << >> } \cup OneTerm(2, Coefs4) \cup TwoTerm(2, Coefs4)
\* three terms on consecutive exponents: products and squares with cancelling middle terms
T3 == ThreeTerm(<< 0, 1, 2 >>, { I(-1), I(1), I(2) }) \cup ThreeTerm(<< 1, 2, 3 >>, { I(-1), I(1) })
RPolys == { << Ent(0, FracV(1, 2)), Ent(1, I(1)) >>, << Ent(1, FracV(-3, 2)), Ent(2, I(1)) >>,
            << Ent(0, I(-1)), Ent(2, FracV(1, 2)) >>, << Ent(0, FracV(2, 3)) >>,
            << Ent(0, I(1)), Ent(1, FracV(1, 2)), Ent(3, I(2)) >>, << Ent(1, FracV(1, 2)) >> }
Sparse4 == { << Ent(0, I(1)), Ent(4, I(-1)) >>, << Ent(1, I(2)), Ent(4, I(1)) >>,
             << Ent(0, I(-2)), Ent(2, I(1)), Ent(4, I(1)) >>, << Ent(3, I(1)), Ent(4, I(-2)) >>, << Ent(4, I(2)) >> }
\* thorough: every polynomial with <= 3 terms, degree <= 4, coefficients -2..2
Full4 == { << >> } \cup OneTerm(4, Coefs4) \cup TwoTerm(4, Coefs4)
         \cup UNION { ThreeTerm(es, Coefs4) :
                        es \in { t \in (0..4) \X (0..4) \X (0..4) : t[1] < t[2] /\ t[2] < t[3] } }
\* second operands: quick keeps all three-term, rational and sparse ones but thins the <= 2 term ones
A2small == { << >> } \cup OneTerm(2, { I(-1), I(2) }) \cup TwoTerm(2, { I(-1), I(2) })
PoolP(op) ==
    IF Quick
    THEN (IF op \in {"add", "sub"} THEN A2 \cup Sparse4 \cup RPolys
          ELSE IF op = "divmod" THEN A2small \cup T3 \cup RPolys \cup Sparse4
          ELSE A2small \cup T3 \cup RPolys \cup Sparse4)
    ELSE Full4 \cup RPolys
PoolQ(op) ==
    IF op \in {"add", "sub"} THEN A2small \cup Sparse4 \cup RPolys
    ELSE A2small \cup T3 \cup RPolys \cup Sparse4
MapPool == { << Ent(0, I(1)), Ent(1, I(2)) >>, << Ent(0, I(-1)), Ent(2, I(1)) >>, << Ent(1, I(1)) >>,
             << Ent(0, I(2)), Ent(1, I(-1)), Ent(3, I(1)) >>, << >>, << Ent(2, I(-2)), Ent(3, I(1)) >>,
             << Ent(0, I(-1)), Ent(1, I(1)), Ent(2, I(-1)) >> }
Scalars == { I(-2), I(0), I(1), I(3), FracV(1, 2) }
Pts == << I(-1), I(0), I(1), I(2), I(-3), FracV(1, 2) >>

(* Mappers (see C19_PolyRing): the constant rule, the selection of the constants it is      *)
(* applied to, the renaming of the base and the binding of parameter coefficients.          *)
Mapper(fn, mode, sel, base, bind) == [map |-> fn, mmode |-> mode, msel |-> sel, mbase |-> base, mbind |-> bind]
NoMapper == Mapper("none", "all", << >>, "x", << >>)
\* the mappers that rewrite every coefficient
AllMappers == { Mapper(fn, "all", << >>, "x", << >>) : fn \in Maps }
\* a set of numbers as a sequence (any order)
RECURSIVE SetToSeq(_)
SetToSeq(S) == IF S = {} THEN << >> ELSE LET x == CHOOSE x \in S : TRUE IN << x >> \o SetToSeq(S \ {x})
CoefSet(data) == { data[i].c : i \in 1..Len(data) }
\* the mappers that rewrite only the constants of a subset of P's coefficients - hence every
\* subset of the coefficient positions of a polynomial with distinct coefficients: the lowest
\* only, a middle one only, the leading one only, none, all - with and without renaming the base
SelMappers(data, fns, bases) ==
    { Mapper(fn, "only", SetToSeq(S), bn, << >>) : fn \in fns, S \in SUBSET CoefSet(data), bn \in bases }
\* operands for them: three terms, coefficients distinct or repeated, monic or not
SelCoefs == IF Quick THEN { I(1), I(2), I(-3) } ELSE { I(1), I(2), I(-3), I(4) }
SelShapes == IF Quick THEN { << 0, 1, 2 >> } ELSE { << 0, 1, 2 >>, << 0, 1, 3 >>, << 1, 2, 4 >> }
SelPool == (UNION { ThreeTerm(es, SelCoefs) : es \in SelShapes })
           \cup TwoTerm(IF Quick THEN 1 ELSE 2, SelCoefs) \cup OneTerm(1, { I(2) })
\* a thin pool for the cross product with the operations: all coefficients distinct (monic and
\* not), and a repeated coefficient
SelThin == { << Ent(0, I(2)), Ent(1, I(-3)), Ent(2, I(1)) >>, << Ent(0, I(1)), Ent(1, I(4)), Ent(3, I(-2)) >>,
             << Ent(0, I(2)), Ent(2, I(2)) >> }
            \cup (IF Quick THEN {} ELSE { << Ent(0, I(4)), Ent(1, I(6)), Ent(2, I(1)) >>, << Ent(1, I(-3)), Ent(2, I(2)) >> })
SelFns == {"dbl", "neg", "inc", "half"}
\* parameters among the coefficients, bound to numbers by the mapper (map_variable): every
\* non-empty subset of the positions of a three-term polynomial is a parameter, the other
\* coefficients are the number cf
Sym(i) == [k |-> "sym", n |-> i, d |-> 1]
ParamPoly(es, ps, cf) ==
    [j \in 1..3 |-> Ent(es[j], IF j \in ps THEN Sym(Cardinality({ l \in ps : l <= j })) ELSE cf)]
ParamPool == { ParamPoly(es, ps, cf) : es \in (IF Quick THEN { << 0, 1, 3 >> } ELSE SelShapes),
                                       ps \in (SUBSET (1..3)) \ { {} }, cf \in { I(1), I(2) } }
BindVals == << I(5), I(-7), I(3) >>
BindMappers == { Mapper(fn, "all", << >>, bn, BindVals) : fn \in {"keep", "dbl"}, bn \in {"x", "y"} }
MapOps == {"add", "mul", "sub", "divmod", "muls", "pow", "rsubs"}

PolySeed(op, pp, m) == [part |-> "poly", ph |-> "seed", op |-> op, P |-> pp, map |-> m.map, mmode |-> m.mmode,
                        msel |-> m.msel, mbase |-> m.mbase, mbind |-> m.mbind, fam |-> "all"]
PolySeeds ==
    UNION { { PolySeed(op, pp, NoMapper) : pp \in PoolP(op) } : op \in PolyOps }
    \cup { PolySeed(op, pp, m) : op \in MapOps, pp \in MapPool, m \in AllMappers }
    \* the mapper alone (followed by a negation), widely ...
    \cup UNION { { [PolySeed("neg", pp, m) EXCEPT !.fam = "sel"] : m \in SelMappers(pp, SelFns, {"x", "y"}) } : pp \in SelPool }
    \cup { [PolySeed("neg", pp, m) EXCEPT !.fam = "bind"] : pp \in ParamPool, m \in BindMappers }
    \cup { [PolySeed("neg", pp, Mapper("keep", "all", << >>, "y", << >>)) EXCEPT !.fam = "sel"] : pp \in MapPool }
    \* ... and before every operation, thinly
    \cup UNION { { [PolySeed(op, pp, m) EXCEPT !.fam = "sel"] :
                      op \in MapOps, m \in SelMappers(pp, IF Quick THEN {"dbl", "half"} ELSE SelFns, {"x", "y"}) } :
                    pp \in SelThin }
    \cup { [PolySeed(op, pp, m) EXCEPT !.fam = "bind"] :
              op \in {"add", "mul", "divmod", "pow"}, m \in BindMappers,
              pp \in { q \in ParamPool : Quick => q[1].c = I(2) \/ q[3].c = I(1) } }
PolyCase(s, qq, sc, k) ==
    [part |-> "poly", ph |-> "case", op |-> s.op, P |-> s.P, Q |-> qq, s |-> sc, k |-> k,
     map |-> s.map, mmode |-> s.mmode, msel |-> s.msel, mbase |-> s.mbase, mbind |-> s.mbind, pts |-> Pts,
     \* dv = 1: the result is also evaluated through pymbolic.evaluate() (the memoising default)
     dv |-> (IF Len(s.P) <= 1 /\ Len(qq) <= 1 THEN 1 ELSE 0)]
\* second operands when a mapper is applied to both
QForMapper(s) ==
    IF s.fam = "sel" THEN (IF Quick THEN { q \in SelThin : Len(q) = 3 } ELSE SelThin \cup MapPool)
    ELSE IF s.fam = "bind"
    THEN { ParamPoly(<< 0, 1, 2 >>, {2}, I(1)), ParamPoly(<< 0, 1, 2 >>, {1, 3}, I(-2)), << Ent(0, I(-1)), Ent(1, I(1)) >> }
    ELSE MapPool
PolyNext(s) ==
    \E cc \in
        (IF s.op \in BinOps2
         THEN { PolyCase(s, qq, I(0), 0) : qq \in (IF s.map = "none" THEN PoolQ(s.op) ELSE QForMapper(s)) }
         ELSE IF s.op \in ScalOps THEN { PolyCase(s, << >>, sc, 0) : sc \in Scalars }
         ELSE IF s.op = "pow" THEN { PolyCase(s, << >>, I(0), k) :
                                       k \in (IF s.fam = "all" THEN -1..(IF Len(s.P) <= 2 THEN 5 ELSE 4)
                                              ELSE IF Quick THEN {2, 3} ELSE 0..3) }
         ELSE { PolyCase(s, << >>, I(0), 0) }) :
      st' = cc @@ [ac |-> ""]

EuclidPolyPool ==
    { << >>, << Ent(0, I(2)) >>, << Ent(1, I(1)) >>, << Ent(0, I(1)), Ent(1, I(1)) >>,
      << Ent(0, I(-1)), Ent(1, I(1)) >>, << Ent(0, I(-1)), Ent(2, I(1)) >>,
      << Ent(1, I(1)), Ent(2, I(1)) >>, << Ent(0, I(1)), Ent(1, I(2)), Ent(2, I(1)) >>,
      << Ent(1, I(-1)), Ent(3, I(1)) >>, << Ent(0, I(2)), Ent(1, I(2)) >>,
      << Ent(0, I(1)), Ent(2, I(1)) >>, << Ent(0, I(-2)), Ent(1, I(1)), Ent(2, I(1)) >> }
    \ (IF Quick THEN { << Ent(0, I(2)), Ent(1, I(2)) >>, << Ent(0, I(1)), Ent(2, I(1)) >>,
                       << Ent(1, I(-1)), Ent(3, I(1)) >>, << Ent(0, I(2)) >> } ELSE {})
PEuclidSeeds == { [part |-> "peuclid", ph |-> "seed", P |-> pp] : pp \in EuclidPolyPool }
PEuclidNext(s) == \E qq \in EuclidPolyPool :
                    st' = [part |-> "peuclid", ph |-> "case", P |-> s.P, Q |-> qq, eps |-> EntrySeq, ac |-> ""]

(**************************** (e) quotient *********************************)
QuotRange == IF Quick THEN -12..12 ELSE -60..60
QuotSeeds == { [part |-> "quot", ph |-> "seed", n |-> n] : n \in QuotRange }
QuotNext(s) == \E d \in QuotRange : st' = [part |-> "quot", ph |-> "case", n |-> s.n, d |-> d, ac |-> ""]

\* integers beyond 32 bits: n = 2^k + a
QPrimes == << 10007, 10009, 30011 >>
ASSUME \A i \in 1..Len(QPrimes) : QPrimes[i] \in KnownPrimes /\ IsPrime(QPrimes[i])
QuotBigSeeds == { [part |-> "quotbig", ph |-> "seed", k |-> k] :
                    k \in (IF Quick THEN {31, 40, 52, 53, 54, 64, 100, 1100} ELSE (30..70) \cup {100, 127, 128, 1000, 1100}) }
QuotBigNext(s) == \E a \in -2..3, d \in {-7, -3, -2, -1, 1, 2, 3, 5, 6, 10} :
                    st' = [part |-> "quotbig", ph |-> "case", k |-> s.k, a |-> a, d |-> d, ps |-> QPrimes, ac |-> ""]

(**************************** random tier **********************************)
R(lo, hi) == RandomElement(lo..hi)
RandCoef == CHOOSE v \in { IF c = 0 THEN FracV(R(1, 5), 2) ELSE I(c) : c \in { R(-3, 3) } } : TRUE
\* a random polynomial: each exponent 0..dmax present with probability 1/2
RandData(dmax) ==
    LET RECURSIVE G(_)
        G(e) == IF e > dmax THEN << >>
                ELSE (IF R(0, 1) = 1 THEN << Ent(e, RandCoef) >> ELSE << >>) \o G(e + 1)
    IN G(0)
RandIntData(dmax) ==
    LET RECURSIVE G(_)
        G(e) == IF e > dmax THEN << >>
                ELSE (IF R(0, 1) = 1 THEN << Ent(e, I(RandomElement({-3, -2, -1, 1, 2, 3}))) >> ELSE << >>) \o G(e + 1)
    IN G(0)
RandSeeds == { [part |-> pt, ph |-> "seed"] : pt \in {"pow", "euclid", "euclidbig", "fft", "poly", "polymap", "quot", "gcdmany"} }
\* every random draw is bound by a quantifier over a singleton, so it is drawn exactly once
RandNext(s) ==
    CASE s.part = "pow" ->
            \E mon \in { RandomElement({"zm", "mat", "word"}) } :
            \E m \in { IF mon = "word" THEN 0 ELSE IF mon = "mat" THEN R(2, 30000) ELSE R(2, 46337) } :
            \E x \in { CASE mon = "zm" -> << R(0, m - 1) >>
                         [] mon = "mat" -> << R(0, m - 1), R(0, m - 1), R(0, m - 1), R(0, m - 1) >>
                         [] mon = "word" -> Force([i \in 1..R(0, 3) |-> R(1, 3)]) } :
               st' = [part |-> "pow", ph |-> "case", mon |-> mon, m |-> m, x |-> x,
                      one |-> RandomElement({"id", "default"}),
                      n |-> (IF mon = "word" THEN R(-1, 60) ELSE R(-2, 1000)), ac |-> ""]
      [] s.part = "euclid" ->
            st' = [part |-> "euclid", ph |-> "case", q |-> R(-3000, 3000), r |-> R(-3000, 3000), eps |-> EntrySeq, ac |-> ""]
      [] s.part = "euclidbig" ->
            st' = [part |-> "euclidbig", ph |-> "case", k |-> R(30, 1200), a |-> R(-1000, 1000),
                   sm |-> RandomElement((-3000..3000) \ {0}), sw |-> R(0, 1), ps |-> BigPrimes, eps |-> EntrySeq, ac |-> ""]
      [] s.part = "gcdmany" ->
            \E g \in { R(1, 30) } :
            st' = [part |-> "gcdmany", ph |-> "case",
                   xs |-> Force([i \in 1..R(1, 5) |-> g * R(-40, 40)]), ac |-> ""]
      [] s.part = "fft" ->
            \E n \in { R(65, 256) } : \E p \in { PrimeFrom(R(401, 20000), n) } :
            \E w \in { RootFrom(1, n, p) } :
            \E kind \in { RandomElement({"fft", "ifft", "round", "symfft"}) } :
               st' = [part |-> "fft", ph |-> "case", kind |-> kind, n |-> n, p |-> p, w |-> w,
                      sign |-> (IF kind = "fft" THEN RandomElement({1, -1}) ELSE 1),
                      x |-> Force([i \in 1..n |-> R(0, p - 1)]), ac |-> ""]
      [] s.part = "poly" ->
            \E op \in { RandomElement(PolyOps) } :
            st' = [part |-> "poly", ph |-> "case", op |-> op, P |-> RandData(6),
                   Q |-> (IF op \in BinOps2 THEN RandData(5) ELSE << >>),
                   s |-> (IF op \in ScalOps THEN RandCoef ELSE I(0)),
                   k |-> (IF op = "pow" THEN R(-1, 4) ELSE 0),
                   map |-> "none", mmode |-> "all", msel |-> << >>, mbase |-> "x", mbind |-> << >>,
                   pts |-> Pts, dv |-> R(0, 1), ac |-> ""]
      [] s.part = "polymap" ->
            \* a random integer polynomial under a random mapper: random rule, random selection of
            \* constants, random base name
            \E op \in { RandomElement(MapOps \cup {"neg"}) } :
            \E sel \in { RandomElement(SUBSET (-3..3)) } :
            st' = [part |-> "poly", ph |-> "case", op |-> op, P |-> RandIntData(6),
                   Q |-> (IF op \in BinOps2 THEN RandIntData(5) ELSE << >>),
                   s |-> (IF op \in ScalOps THEN RandCoef ELSE I(0)),
                   k |-> (IF op = "pow" THEN R(-1, 4) ELSE 0),
                   map |-> RandomElement(MapFns), mmode |-> RandomElement({"all", "only", "only"}),
                   msel |-> SetToSeq({ I(v) : v \in sel }), mbase |-> RandomElement({"x", "y"}), mbind |-> << >>,
                   pts |-> Pts, dv |-> 0, ac |-> ""]
      [] s.part = "quot" ->
            st' = [part |-> "quot", ph |-> "case", n |-> R(-20000, 20000), d |-> R(-3000, 3000), ac |-> ""]

(**************************** the state machine ****************************)
Init == IF Tier = "random" THEN st \in RandSeeds
        ELSE st \in PowSeeds \cup EuclidSeeds \cup EuclidBigSeeds \cup ManySeeds \cup FFTSeeds \cup SymGSeeds
                    \cup PolySeeds \cup PEuclidSeeds \cup QuotSeeds \cup QuotBigSeeds
Next == /\ st.ph = "seed"
        /\ IF Tier = "random" THEN RandNext(st)
           ELSE CASE st.part = "pow" -> PowNext(st)
                  [] st.part = "euclid" -> EuclidNext(st)
                  [] st.part = "euclidbig" -> EuclidBigNext(st)
                  [] st.part = "gcdmany" -> ManyNext(st)
                  [] st.part = "fft" -> FFTNext(st)
                  [] st.part = "symg" -> SymGNext(st)
                  [] st.part = "poly" -> PolyNext(st)
                  [] st.part = "peuclid" -> PEuclidNext(st)
                  [] st.part = "quot" -> QuotNext(st)
                  [] st.part = "quotbig" -> QuotBigNext(st)

Complete == st.ph = "case"

(***************************************************************************)
(* The property on the model: every implementation-shaped algorithm        *)
(* refines the meaning on every generated case.                            *)
(***************************************************************************)
PowRefines ==
    (Complete /\ st.part = "pow" /\ st.n >= 0) =>
        LET one == MOne(st.mon, st.m)
            a == SquareMultiply(st.mon, st.m, st.x, st.n, one)
            m == Pow(st.mon, st.m, st.x, st.n) IN
        /\ a = m
        /\ st.n <= 24 => PowLinear(st.mon, st.m, st.x, st.n) = m
        \* the judge accepts exactly this result (the integer 1 for an omitted unit and n = 0)
        /\ JudgePow(st, IF st.n = 0 /\ st.one = "default"
                        THEN [r |-> "ok", t |-> "int", v |-> << 1 >>, e |-> ""]
                        ELSE [r |-> "ok", t |-> (IF st.mon = "int" THEN "int" ELSE "mon"), v |-> a, e |-> ""]) = "OK"

EuclidRefines ==
    (Complete /\ st.part = "euclid") =>
        \A i \in 1..Len(st.eps) :
            LET ep == st.eps[i] e == EntryEE(ep, st.q, st.r) l == EntryLcm(ep, st.q, st.r) IN
            /\ ep \in Entries
            /\ Bezout(e[1], e[2], e[3], st.q, st.r) /\ IsGcd(e[1], st.q, st.r)
            /\ IsGcd(EntryGcd(ep, st.q, st.r), st.q, st.r)
            /\ IF l[1] = 0 THEN st.q = 0 /\ st.r = 0 ELSE IsLcm(l[2], st.q, st.r)
\* the judge accepts what the transcribed entry points return (no false alarm) ...
SmallPair(c) == Abs(c.q) <= 100 /\ Abs(c.r) <= 100
EntryJudgeAccepts ==
    (Complete /\ st.part = "euclid" /\ SmallPair(st)) => Fails(EuclidClauses(st, PredictedObs(st, ""))) = << >>
\* ... and is sharp: an entry that hands the operands on in the other order, or the coefficients
\* back in the other order, is rejected with the Bezout clause *of that entry* on every pair on
\* which the order matters; an lcm that divides by the gcd twice is rejected on every pair with
\* a proper common divisor
OrderMatters(c) == LET e == ExtEuclid(c.q, c.r) IN e[2] * c.q + e[3] * c.r # e[3] * c.q + e[2] * c.r
RejectedAt(cls, cl, ep) == \E j \in 1..Len(cls) : cls[j] = FE(cl, "", ep)
EntryJudgeSharp ==
    (Complete /\ st.part = "euclid" /\ SmallPair(st)) =>
        /\ \A fw \in {"forward_swapped", "coeffs_exchanged"} :
              LET cls == EuclidClauses(st, PredictedObs(st, fw))
                  sw == ExtEuclid(st.r, st.q) IN
              \A i \in 2..Len(st.eps) :
                  (IF fw = "forward_swapped" THEN ~Bezout(sw[1], sw[2], sw[3], st.q, st.r) ELSE OrderMatters(st))
                      <=> RejectedAt(cls, "ee-bezout", "ee@" \o st.eps[i])
        /\ LET cls == EuclidClauses(st, PredictedObs(st, "lcm_divides_twice")) IN
           (st.q # 0 /\ st.r # 0 /\ Gcd(st.q, st.r) > 1) => \E j \in 1..Len(cls) : cls[j].cl = "lcm-wrong"

\* big pairs: on the exponents TLC can hold, the residue judge accepts the transcribed routine
\* through every entry and rejects the exchanged order exactly when the order matters modulo
\* some prime
RECURSIVE TwoTo(_)
TwoTo(k) == IF k = 0 THEN 1 ELSE 2 * TwoTo(k - 1)
BigExact(c) == TwoTo(c.k) + c.a
BigOps(c) == IF c.sw = 0 THEN << BigExact(c), c.sm >> ELSE << c.sm, BigExact(c) >>
BigPredicted(c, fw) ==
    [es |-> [i \in 1..Len(c.eps) |->
        LET ops == BigOps(c)
            t == EntryEEB(c.eps[i], ops[1], ops[2], fw)
            l == EntryLcmB(c.eps[i], ops[1], ops[2], fw) IN
        [ep |-> c.eps[i],
         ee |-> [r |-> "ok", e |-> "", g |-> IntVal(t[1]),
                 res |-> [j \in 1..Len(c.ps) |-> << t[1] % c.ps[j], t[2] % c.ps[j], t[3] % c.ps[j] >>]],
         g |-> OkVals(<< t[1] >>),
         l |-> [r |-> "ok", e |-> "", res |-> [j \in 1..Len(c.ps) |-> << l[2] % c.ps[j], 1 >>]]]]]
BigJudgeSound ==
    (Complete /\ st.part = "euclidbig" /\ st.k <= 20) =>
        LET ops == BigOps(st) t == ExtEuclid(ops[1], ops[2]) IN
        /\ BigOK(st) /\ BigGcd(st) = Gcd(ops[1], ops[2])
        /\ Fails(EuclidBigClauses(st, BigPredicted(st, ""))) = << >>
        /\ LET cls == EuclidBigClauses(st, BigPredicted(st, "coeffs_exchanged")) IN
           \A i \in 2..Len(st.eps) :
               (\E j \in 1..Len(st.ps) :
                    LET p == st.ps[j] IN (MulMod(t[3], ops[1], p) + MulMod(t[2], ops[2], p)) % p # (t[1] % p))
                   <=> RejectedAt(cls, "ee-bezout", "ee@" \o st.eps[i])
ManyRefines ==
    (Complete /\ st.part = "gcdmany") =>
        LET RECURSIVE Red(_) Red(i) == IF i = 1 THEN st.xs[1] ELSE GcdImpl(Red(i - 1), st.xs[i])
        IN IsGcdMany(Red(Len(st.xs)), st.xs)

FFTRefines ==
    (Complete /\ st.part = "fft" /\ st.kind = "fft" /\ (st.sign = 1 \/ st.n <= 16 \/ st.x[1] # 0)) =>
        LET z == SignedRoot(st.w, st.n, st.p, st.sign) IN
        /\ GoodParams(st.n, st.p, st.w)
        /\ CooleyTukey(st.x, z, st.p) = DFT(st.x, z, st.p)
FFTInverse ==
    (Complete /\ st.part = "fft" /\ st.kind = "round") =>
        IDFT(DFT(st.x, st.w, st.p), st.w, st.p) = st.x

\* polynomials: the A-layer either agrees with the meaning or the case lies in a named deviation
\* (the operands of the operation are the mapped operands)
Mapped(c, data) == IF c.map = "none" THEN data ELSE MapData(c, data)
PolyDev(c) ==
    LET a == FromData(Mapped(c, c.P)) b == FromData(Mapped(c, c.Q)) IN
    IF HasSym(Mapped(c, c.P)) \/ HasSym(Mapped(c, c.Q)) THEN "UNNAMED"      \* never generated: every parameter is bound
    ELSE IF c.op \in {"divmod", "divmods"} \/ (c.op = "pow" /\ c.k < 0) THEN ""
    ELSE IF PEq(FromData(OpImpl(c.op, Mapped(c, c.P), Mapped(c, c.Q), c.s, c.k)), OpSpec(c.op, a, b, c.s, c.k)) THEN ""
    \* (no named deviation is open: Dev_GeneratorConsumed, Dev_RsubSign and Dev_PopKeepsLastExp were
    \* repaired in the code and the A-layer follows the code)
    ELSE "UNNAMED"
PolyRefinesOrNamed == (Complete /\ st.part = "poly") => PolyDev(st) # "UNNAMED"
\* the transcribed division satisfies the division identity and stops only legitimately
DivModRefines ==
    (Complete /\ st.part = "poly" /\ st.op = "divmod" /\ st.map = "none" /\ Len(st.Q) > 0) =>
        LET im == ImplDivMod(st.P, st.Q)
            q == FromData(im[1]) r == FromData(im[2]) a == FromData(st.P) d == FromData(st.Q) IN
        PBad(q) \/ PBad(r) \/ PBad(PAdd(PMul(q, d), r))
        \/ (/\ PEq(PAdd(PMul(q, d), r), a)
            /\ (Len(r) < Len(d) \/ ~IsZeroV(VMod(Lead(r), Lead(d)))))
\* the field division used by the judge is a division
DivQSound ==
    (Complete /\ st.part \in {"peuclid"} /\ Len(st.Q) > 0) =>
        LET a == FromData(st.P) d == FromData(st.Q) qr == PDivModQ(a, d) IN
        PBad(qr[1]) \/ (PEq(PAdd(PMul(qr[1], d), qr[2]), a) /\ Len(qr[2]) < Len(d))

Emit ==
    Complete =>
      PrintT(ToJson(IF st.part = "poly" THEN [st EXCEPT !.ac = PolyDev(st)] ELSE st))
=============================================================================
