CONSTANT Buggy = "RenameRhsOnly"
CONSTANT MaxOps = 1
CONSTANT MaxLen = 4
CONSTANT NIds = 5
CONSTANT NVars = 2
CONSTANT WithDaf = TRUE
INIT Init
NEXT Next
INVARIANT Step_NoSharedIdent
CHECK_DEADLOCK FALSE
