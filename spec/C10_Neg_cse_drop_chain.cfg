CONSTANT Bug = "cse_drop_chain"
INIT Init
NEXT Next
INVARIANT Refines
CHECK_DEADLOCK FALSE
