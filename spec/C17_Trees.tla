------------------------------ MODULE C17_Trees ------------------------------
(***************************************************************************)
(* M-layer for C17: the catalogue of objects that cross process            *)
(* boundaries, and the three relations the property speaks about, written  *)
(* from Python's data model (not from pymbolic's source):                   *)
(*                                                                         *)
(*   PyEq(a, b)     what `a == b` gives for two expression objects: same   *)
(*                  class, all fields `==` (numbers by value: 1 == 1.0 ==  *)
(*                  True; mappings order-insensitively; tuples pointwise)  *)
(*   StructId       type-sensitive identity: the tree record itself        *)
(*                  (constant kinds, keyword order included)               *)
(*   CompiledValue  what a compiled expression returns when called         *)
(*                  positionally: Eval under the binding                   *)
(*                  (listed variables, then the unlisted ones) := args     *)
(*                                                                         *)
(* Node kinds beyond Expr.tla (same JSON shapes towards the driver):        *)
(*   [t |-> "Subst", a, names, c]    [t |-> "Deriv", a, names]              *)
(*   [t |-> "Wild", cls, name]       [t |-> "FunctionSymbol"]               *)
(*   [t |-> "NaNNode"]               pymbolic.primitives.NaN()              *)
(*   [t |-> "User", cls, s, c]       user / legacy class of                 *)
(*                                   harness/c17_classes.py, or a node of   *)
(*                                   pymbolic.geometric_algebra.primitives: *)
(*                                   string fields s, other fields c        *)
(*   [t |-> "Poly", a, exps, c]      pymbolic.polynomial.Polynomial         *)
(*   [t |-> "Rat", a, b]             pymbolic.rational.Rational             *)
(*                                                                         *)
(* Round 2: a catalogue entry also says HOW the object is put together     *)
(* (mode: tree / "shared" DAG / defaults "omit"ted; src: parsed from text; *)
(* np: numpy constants).  None of that is structure: StructNorm erases it, *)
(* so equal structure => equal persistent key relates the variants.        *)
(***************************************************************************)
EXTENDS Eval

Subst(a, names, c) == [t |-> "Subst", a |-> a, names |-> names, c |-> c]
Deriv(a, names)    == [t |-> "Deriv", a |-> a, names |-> names]
Wild(cls, name)    == [t |-> "Wild", cls |-> cls, name |-> name]
FunSym             == [t |-> "FunctionSymbol"]
NaNNode            == [t |-> "NaNNode"]
User(cls, s, c)    == [t |-> "User", cls |-> cls, s |-> s, c |-> c]
Poly(a, exps, c)   == [t |-> "Poly", a |-> a, exps |-> exps, c |-> c]
Rat(a, b)          == [t |-> "Rat", a |-> a, b |-> b]

DataclassUser == {"C17Pair", "C17Tagged", "C17Unit", "C17NoHash", "C17Names",
                  "C17Kw", "C17KwMid", "C17Init", "C17Dfl", "C17Kw2",
                  \* (round 7)
                  "C17Oi", "C17OiLeaf", "C17OiMid", "C17OiVar", "C17OiSub", "C17OiNh", "C17OiNhLeaf",
                  "C17NoHashLeaf", "C17NhVar", "C17NhPair", "C17OiNhVar", "C17OiNhSub",
                  "C17Lg", "C17LgLeaf", "C17LgMid", "C17LgMidLeaf", "C17OiLg", "C17OiLgLeaf"}
\* user dataclass nodes whose field order is not the order of the positional parameters of
\* __init__ (keyword-only fields, fields __init__ does not take): c17_classes.py
ReorderedUser == {"C17Kw", "C17KwMid", "C17Init", "C17Dfl", "C17Kw2"}
LegacyUser    == {"C17Old", "C17OldLeaf", "C17OldVar"}
\* (round 5) leaf SUBCLASSES: classes derived from a stock leaf.  An instance IS a variable
\* (isinstance(o, Variable)) of the name in its first string field, but it is another class:
\* it never == the plain Variable of that name.  MultiVectorVariable ships with the library
\* (pymbolic.geometric_algebra.primitives), the others are user classes of c17_classes.py
\* (dataclass subclass, legacy subclass, subclass with a keyword-only field).  C17Fn is a
\* plain subclass of FunctionSymbol (no field of its own, only another mapper method).
VarLikeUser   == {"MultiVectorVariable", "C17Tagged", "C17OldVar", "C17Kw", "C17Kw2",
                  "C17OiVar", "C17NhVar", "C17OiNhVar"}

(***************************************************************************)
(* (round 7) The decorator's OPTIONS are part of the space of user node    *)
(* types: how a class of DataclassUser is DECLARED (c17_classes.py).        *)
(*   init   TRUE: the dataclass machinery writes __init__; FALSE            *)
(*          (expr_dataclass(init=False)): the class writes its own          *)
(*   hash   TRUE: the decorator installs its cached hash; FALSE             *)
(*          (expr_dataclass(hash=False)): it installs none                  *)
(*   own    the class body defines __hash__ (uncached)                      *)
(*   base   what the class derives from: "Expression" itself, a "plain"     *)
(*          (non-dataclass) intermediate class, a "stock" dataclass node of *)
(*          the library, a "user" dataclass node (parent)                   *)
(* Python's rule for where hash() of an instance comes from: the class's    *)
(* own __hash__, else the decorator's, else the nearest base's.  A class    *)
(* with no own, no generated hash and no dataclass node above it ends at    *)
(* the "legacy" Expression.__hash__, which caches the value on the          *)
(* instance.  That is a usable node type as well (it has to work in every   *)
(* interpreter mode, frozen dataclasses included) and is in the catalogue;  *)
(* an Expression.__hash__ that caches by plain attribute assignment is the  *)
(* negative control Buggy_LegacyHashAssigns of C17_Gen.                     *)
(***************************************************************************)
Decl(init, hash, own, base, parent) ==
    [init |-> init, hash |-> hash, own |-> own, base |-> base, parent |-> parent]
UserDecl(cls) ==
    CASE cls \in {"C17Pair", "C17Unit", "C17Names", "C17KwMid", "C17Init", "C17Dfl"}
                                    -> Decl(TRUE, TRUE, FALSE, "Expression", "")
      [] cls \in {"C17Tagged", "C17Kw"} -> Decl(TRUE, TRUE, FALSE, "stock", "")
      [] cls = "C17Kw2"             -> Decl(TRUE, TRUE, FALSE, "user", "C17Kw")
      [] cls \in {"C17NoHash", "C17NoHashLeaf"} -> Decl(TRUE, FALSE, TRUE, "Expression", "")
      [] cls \in {"C17Oi", "C17OiLeaf"} -> Decl(FALSE, TRUE, FALSE, "Expression", "")
      [] cls = "C17OiMid"           -> Decl(FALSE, TRUE, FALSE, "plain", "")
      [] cls = "C17OiVar"           -> Decl(FALSE, TRUE, FALSE, "stock", "")
      [] cls = "C17OiSub"           -> Decl(FALSE, TRUE, FALSE, "user", "C17Oi")
      [] cls \in {"C17OiNh", "C17OiNhLeaf"} -> Decl(FALSE, FALSE, TRUE, "Expression", "")
      [] cls = "C17NhVar"           -> Decl(TRUE, FALSE, FALSE, "stock", "")
      [] cls = "C17NhPair"          -> Decl(TRUE, FALSE, FALSE, "user", "C17Pair")
      [] cls = "C17OiNhVar"         -> Decl(FALSE, FALSE, FALSE, "stock", "")
      [] cls = "C17OiNhSub"         -> Decl(FALSE, FALSE, FALSE, "user", "C17Oi")
      [] cls \in {"C17Lg", "C17LgLeaf"} -> Decl(TRUE, FALSE, FALSE, "Expression", "")
      [] cls \in {"C17LgMid", "C17LgMidLeaf"} -> Decl(TRUE, FALSE, FALSE, "plain", "")
      [] cls = "C17OiLg"            -> Decl(FALSE, FALSE, FALSE, "Expression", "")
      [] cls = "C17OiLgLeaf"        -> Decl(FALSE, FALSE, FALSE, "plain", "")
\* how a declared class comes by its hash: the decorator's / its own / the one of the dataclass
\* node it derives from / the legacy Expression.__hash__
HashSource(cls) == LET d == UserDecl(cls) IN
                   IF d.own /\ ~d.hash THEN "own" ELSE IF d.hash THEN "gen"
                   ELSE IF d.base \in {"stock", "user"} THEN "inherit" ELSE "legacy"
\* does hash() of an instance stop BEFORE the legacy Expression.__hash__?  crossed = FALSE: the decorator as
\* documented (it installs its hash iff hash=True); crossed = TRUE (C17_Gen's negative control):
\* a decorator that reads the wrong one of its options (installs its hash iff init=True)
RECURSIVE HashProvided(_, _)
HashProvided(cls, crossed) ==
    LET d == UserDecl(cls) IN
    \/ d.own \/ (IF crossed THEN d.init ELSE d.hash) \/ d.base = "stock"
    \/ (d.base = "user" /\ HashProvided(d.parent, crossed))

\* children of every kind (the ones of Expr.tla plus the extensions)
XKids(e) ==
    CASE e.t = "User" -> e.c
      [] e.t = "Poly" -> << e.a >> \o e.c
      [] e.t = "Rat"  -> << e.a, e.b >>
      [] e.t \in {"NaNNode", "FunctionSymbol", "Wild"} -> << >>
      [] OTHER -> Kids(e)

\* the string-valued fields of a node, in field order
StrFields(e) ==
    CASE e.t = "Var"   -> << e.name >>
      [] e.t = "Look"  -> << e.name >>
      [] e.t = "Cmp"   -> << e.op >>
      [] e.t = "CSE"   -> << e.prefix, e.scope >>
      [] e.t = "Subst" -> e.names
      [] e.t = "Deriv" -> e.names
      [] e.t = "Wild"  -> << e.cls, e.name >>
      [] e.t = "User"  -> << e.cls >> \o e.s
      [] OTHER -> << >>

\* the integer-valued fields of a node
IntFields(e) == IF e.t = "Poly" THEN e.exps ELSE << >>

RECURSIVE PyEq(_, _)
SeqPyEq(s, u) == Len(s) = Len(u) /\ \A i \in 1..Len(s) : PyEq(s[i], u[i])
\* mapping equality: same key set, equal values per key (insertion order irrelevant)
KwPyEq(k1, k2) ==
    /\ {k1[i].name : i \in 1..Len(k1)} = {k2[i].name : i \in 1..Len(k2)}
    /\ Len(k1) = Len(k2)
    /\ \A i \in 1..Len(k1) : \A j \in 1..Len(k2) :
          k1[i].name = k2[j].name => PyEq(k1[i].e, k2[j].e)
PyEq(a, b) ==
    /\ a.t = b.t
    /\ CASE a.t = "Const" -> ValEq(a.v, b.v)
         [] a.t = "CallKw" -> PyEq(a.f, b.f) /\ SeqPyEq(a.c, b.c) /\ KwPyEq(a.kw, b.kw)
         [] OTHER -> /\ StrFields(a) = StrFields(b)
                     /\ IntFields(a) = IntFields(b)
                     /\ SeqPyEq(XKids(a), XKids(b))

RECURSIVE XSubExprs(_)
XSubExprs(e) == {e} \cup UNION {XSubExprs(XKids(e)[i]) : i \in 1..Len(XKids(e))}
KindsIn(e) == {s.t : s \in XSubExprs(e)}
UserClassesIn(e) == {s.cls : s \in {u \in XSubExprs(e) : u.t = "User"}}
IsSubLeaf(e) == e.t = "User" /\ e.cls \in VarLikeUser
IsVarLeaf(e) == e.t = "Var" \/ IsSubLeaf(e)
LeafName(e)  == IF e.t = "Var" THEN e.name ELSE e.s[1]
\* the variables an expression depends on, by name (leaf subclasses are variables)
VarLeaves(e) == {u \in XSubExprs(e) : IsVarLeaf(u)}
VarNames(e)  == {LeafName(u) : u \in VarLeaves(e)}
\* what a compiled function computes does not depend on the CLASS of a variable leaf: an
\* instance of a Variable subclass stands for the argument of its name
RECURSIVE Plain(_)
Plain(e) == IF IsSubLeaf(e) THEN V(e.s[1])
            ELSE IF e.t \in {"User", "Poly", "Rat", "NaNNode", "FunctionSymbol", "Wild"} THEN e
            ELSE LET ks == Kids(e) IN WithKids(e, [i \in 1..Len(ks) |-> Plain(ks[i])])

\* hash() is defined for the object (Polynomial / Rational define __eq__ without
\* __hash__: Python makes such classes unhashable)
Hashable(e) == KindsIn(e) \cap {"Poly", "Rat", "List"} = {}
\* has at least one str somewhere: only then can the hash depend on the seed
HasString(e) == \E s \in XSubExprs(e) : Len(StrFields(s)) > 0

(***************************************************************************)
(* The catalogue.  kind "expr": the object is the expression; kind         *)
(* "compiled": the object is CompiledExpression(e, vars).                  *)
(***************************************************************************)
vx == V("x")  vy == V("y")  vz == V("z")
xp1 == N("Sum", << vx, KI(1) >>)
cond == Cmp(V("lhs"), "<=", KI(0))
oldx == User("C17Old", << "o" >>, << vx >>)
pairx == User("C17Pair", << "tg" >>, << vx, KI(1) >>)
\* mode: HOW the object is put together from its constructors - not part of what it is:
\*   ""        every occurrence of a subexpression is an object of its own (a tree)
\*   "shared"  equal subexpressions are ONE object used in several places (u = x + y; u*u + f(u)):
\*             a DAG, the way programs build expressions; pickling preserves the sharing
\*   "omit"    constructor arguments equal to the field defaults are left out
\*   "alt"     constructor arguments in their alternative accepted spelling, normalised by the
\*             constructor itself (a comparison operator given by its name, "lt" for "<")
\* vobj (round 5): HOW the explicitly listed leading variables of a compiled expression are given
\*   ""       by name (strings)
\*   "plain"  as Variable objects
\*   "same"   as the variable objects the expression itself uses for these names - instances of a
\*            leaf subclass when the expression is written over such (a name the expression does
\*            not use is given as a plain Variable)
\* none of which is part of what the compiled function is: signature = listed names, then the rest
Ent(e, kind, vars, rest, np, src, mode) ==
    [e |-> e, kind |-> kind, vars |-> vars, rest |-> rest, np |-> np, src |-> src, mode |-> mode,
     vobj |-> ""]
E(e) == Ent(e, "expr", << >>, << >>, FALSE, FALSE, "")
ESH(e) == Ent(e, "expr", << >>, << >>, FALSE, FALSE, "shared")
EOM(e) == Ent(e, "expr", << >>, << >>, FALSE, FALSE, "omit")
EALT(e) == Ent(e, "expr", << >>, << >>, FALSE, FALSE, "alt")
\* the expression obtained by PARSING the printed form of e ("built from source"): a list
\* literal then is the parser's own hashable list class, so the entry can be hashed and keyed
EP(e) == Ent(e, "expr", << >>, << >>, FALSE, TRUE, "")
\* the same expression with its float constants given as numpy scalars (numpy.float64): equal to,
\* and structurally the same as, the plain one - the persistent key normalises numpy scalars
ENP(e) == Ent(e, "expr", << >>, << >>, TRUE, FALSE, "")
\* rest: the variables the expression uses beyond the listed ones, written down in
\* lexicographic order (TLC cannot order strings; CatalogueSane checks it is a
\* duplicate-free enumeration of exactly those variables)
\* Names the evaluation context of a compiled expression supplies (documented:
\* CompiledExpression.context, numpy when importable) are not arguments.
C(e, vars, rest) == Ent(e, "compiled", vars, rest, FALSE, FALSE, "")
CSH(e, vars, rest) == Ent(e, "compiled", vars, rest, FALSE, FALSE, "shared")
CV(e, vars, rest, vobj) == [C(e, vars, rest) EXCEPT !.vobj = vobj]
CSHV(e, vars, rest, vobj) == [CSH(e, vars, rest) EXCEPT !.vobj = vobj]
CtxNames == {"math", "numpy"}
mfn(n) == Look(V("math"), n)
P2(k, v) == N("Product", << KI(k), v >>)
\* (round 2) subexpressions that occur several times in one expression
uxy == N("Sum", << vx, vy >>)
ixt == N("Tup", << N("Sum", << V("i"), KI(1) >>), V("j") >>)
qnd == B("Quotient", V("num"), V("den"))
shA == N("Sum", << N("Product", << uxy, uxy >>), Call(V("f"), << uxy >>) >>)
shB == N("Sum", << B("Sub", V("a"), ixt), B("Sub", V("b"), ixt) >>)
shC == User("C17Pair", << "tg" >>, << qnd, User("C17Old", << "o" >>, << qnd >>) >>)
shD == CallKw(V("g"), << uxy >>, << KwArg("k1", uxy), KwArg("k2", N("Product", << uxy, KI(2) >>)) >>)
shE == IfE(N("LogAnd", << cond, U("LogNot", cond) >>), N("Min", << xp1, N("Max", << xp1, vy >>) >>), xp1)
\* (round 2) user nodes whose fields are not the positional parameters
tvk == User("C17Kw", << "acc", "global" >>, << KI(3) >>)
kwl == User("C17Kw", << "acc", "local" >>, << KI(0) >>)
ini == User("C17Init", << "nm" >>, << xp1 >>)
\* (round 5) leaf subclasses and expressions over them (prime weights tell the arguments apart)
MV(n)  == User("MultiVectorVariable", << n >>, << >>)
TGV(n) == User("C17Tagged", << n, "tg" >>, << >>)
OLV(n) == User("C17OldVar", << n, "ex" >>, << >>)
KWV(n) == User("C17Kw", << n, "loc" >>, << KI(0) >>)
fnu == User("C17Fn", << >>, << >>)
Sq(v) == B("Power", v, KI(2))
\* 2*r + 3*s*s - 5*t + 7*q  over a leaf constructor L for r, s, t and a plain q
wexp(L(_)) == N("Sum", << P2(2, L("r")), P2(3, Sq(L("s"))), P2(-5, L("t")), P2(7, V("q")) >>)
\* (b + 11*a) // 3 + c*d
fexp(L(_)) == N("Sum", << B("FloorDiv", N("Sum", << L("b"), P2(11, L("a")) >>), KI(3)),
                         N("Product", << L("c"), V("d") >>) >>)
mvs == N("Sum", << MV("r"), V("q") >>)
\* (round 7) user node types by decorator options: per way of coming by a hash x init, a leaf
\* and an inner node that carries the leaf below a stock node
oil  == User("C17OiLeaf", << "l", "t" >>, << >>)
oia  == User("C17Oi", << "n" >>, << N("Sum", << vx, oil >>) >>)
OIV(n) == User("C17OiVar", << n, "t" >>, << >>)
NHV(n) == User("C17NhVar", << n, "t" >>, << >>)
ONV(n) == User("C17OiNhVar", << n, "t" >>, << >>)
oim  == User("C17OiMid", << "m" >>, << OIV("v"), oia >>)
ois  == User("C17OiSub", << "s" >>, << vy, B("Power", oil, KI(2)) >>)
onl  == User("C17OiNhLeaf", << "l" >>, << >>)
onh  == User("C17OiNh", << "n" >>, << N("Sum", << vx, onl >>) >>)
nhl  == User("C17NoHashLeaf", << "l" >>, << >>)
nhi  == User("C17NoHash", << "n" >>, << N("Product", << vx, nhl >>) >>)
nhp  == User("C17NhPair", << "tg" >>, << N("Sum", << NHV("v"), KI(1) >>), vx, KI(2) >>)
ons  == User("C17OiNhSub", << "n" >>, << N("Product", << ONV("v"), vy >>), KI(3) >>)
\* hash=False without an own hash, not below a dataclass node (legacy Expression.__hash__)
lgl  == User("C17LgLeaf", << "l" >>, << >>)
lgi  == User("C17Lg", << "n" >>, << N("Sum", << vx, lgl >>) >>)
lml  == User("C17LgMidLeaf", << "v", "t" >>, << >>)
lgm  == User("C17LgMid", << "m" >>, << N("Sum", << lml, KI(1) >>), lgi >>)
oll  == User("C17OiLgLeaf", << "l" >>, << >>)
oli  == User("C17OiLg", << "n" >>, << N("Product", << vx, oll >>) >>)

Cat == <<
  (* 1*) E(vx),
  (* 2*) E(V("alpha_beta")),
  (* 3*) E(xp1),
  (* 4*) E(N("Sum", << vx, K(FltV(1, 1)) >>)),                \* == (3), other structure
  (* 5*) E(N("Sum", << vx, K(BoolV(TRUE)) >>)),               \* == (3), other structure
  (* 6*) E(N("Sum", << vx, KI(2) >>)),                        \* != (3)
  (* 7*) E(N("Product", << KI(2), vy, K(FracV(1, 2)) >>)),
  (* 8*) E(B("Quotient", V("num"), V("den"))),
  (* 9*) E(B("FloorDiv", vx, KI(3))),
  (*10*) E(B("Remainder", vx, vy)),
  (*11*) E(B("Power", vx, K(FltV(3, 2)))),
  (*12*) E(B("LShift", vx, KI(2))),
  (*13*) E(B("RShift", V("bits"), vy)),
  (*14*) E(U("BitNot", V("mask"))),
  (*15*) E(N("BitOr", << vx, N("BitAnd", << vy, KI(-1) >>), N("BitXor", << vz, vx >>) >>)),
  (*16*) E(cond),
  (*17*) E(Cmp(V("lhs"), "<", KI(0))),                         \* differs from (16) in the operator only
  (*18*) E(N("LogOr", << U("LogNot", cond), N("LogAnd", << V("p"), V("q") >>) >>)),
  (*19*) E(IfE(cond, V("then_v"), V("else_v"))),
  (*20*) E(N("Min", << vx, N("Max", << vy, KI(0) >>) >>)),
  (*21*) E(Call(V("f"), << vx, KI(3) >>)),
  (*22*) E(CallKw(V("g"), << vx >>, << KwArg("k1", vy), KwArg("k2", KI(2)) >>)),
  (*23*) E(CallKw(V("g"), << vx >>, << KwArg("k2", KI(2)), KwArg("k1", vy) >>)),   \* == (22), other order
  (*24*) E(CallKw(V("g"), << vx >>, << KwArg("k1", vy), KwArg("k2", KI(3)) >>)),   \* != (22)
  (*25*) E(B("Sub", V("arr"), N("Tup", << V("i"), V("j") >>))),
  (*26*) E(Look(V("obj"), "attr")),
  (*27*) E(Look(V("obj"), "other")),                          \* differs from (26) in the name only
  (*28*) E(CSE(xp1, "pre", "pymbolic_eval")),
  (*29*) E(CSE0(xp1)),
  (*30*) E(Subst(xp1, << "x" >>, << KI(1) >>)),
  (*31*) E(Deriv(N("Product", << vx, vy >>), << "x", "y" >>)),
  (*32*) E(N("Slice", << KI(1), NoneE, V("n") >>)),
  (*33*) E(Wild("Wildcard", "")),
  (*34*) E(Wild("DotWildcard", "dw")),
  (*35*) E(Wild("StarWildcard", "sw")),
  (*36*) E(FunSym),
  (*37*) E(NaNNode),
  (*38*) E(N("Tup", << vx, xp1 >>)),
  (*39*) E(N("Sum", << N("Product", << KI(2), B("Power", Call(V("sin"), << vx >>), KI(2)) >>),
                       B("Quotient", Look(V("obj"), "attr"), B("Sub", V("arr"), KI(0))),
                       IfE(cond, vy, KI(0)) >>)),
  (*40*) E(N("Sum", << KI(1), KI(2) >>)),                      \* no string anywhere: seed independent
  (*41*) E(pairx),
  (*42*) E(User("C17Pair", << "tg" >>, << vx, K(FltV(1, 1)) >>)),   \* == (41), other structure
  (*43*) E(User("C17Pair", << "other" >>, << vx, KI(1) >>)),        \* != (41)
  (*44*) E(User("C17Tagged", << "v", "tg" >>, << >>)),
  (*45*) E(User("C17Unit", << >>, << >>)),
  (*46*) E(User("C17NoHash", << "n" >>, << vx >>)),
  (*47*) E(User("C17Names", << "a", "b" >>, << vx, KI(2) >>)),
  (*48*) E(oldx),
  (*49*) E(User("C17OldLeaf", << >>, << >>)),
  (*50*) E(User("C17OldVar", << "w", "ex" >>, << >>)),
  (*51*) E(User("C17OldVar", << "w", "other" >>, << >>)),           \* != (50)
  (*52*) E(N("Product", << KI(3), User("C17OldLeaf", << >>, << >>) >>)),
  (*53*) E(N("Sum", << oldx, pairx, User("C17Tagged", << "v", "tg" >>, << >>) >>)),
  (*54*) E(User("C17Pair", << "outer" >>, << oldx, User("C17NoHash", << "n" >>, << pairx >>) >>)),
  (*55*) E(User("C17Old", << "o2" >>, << N("Sum", << oldx, vy >>) >>)),
  (*56*) C(N("Sum", << N("Product", << KI(2), vz >>), B("Power", vx, KI(2)), vy >>), << "y", "x", "z" >>, << >>),
  (*57*) C(B("Quotient", vx, vy), << "x" >>, << "y" >>),                     \* one unlisted variable (y)
  (*58*) C(N("Sum", << N("Product", << KI(3), vx >>), KI(1) >>), << >>, << "x" >>),
  (*59*) C(B("FloorDiv", N("Sum", << vx, N("Product", << KI(5), vy >>) >>), KI(2)), << "y", "x" >>, << >>),
  (*60*) C(B("FloorDiv", N("Sum", << vx, N("Product", << KI(5), vy >>) >>), KI(2)), << "x", "y" >>, << >>),  \* other binding
  (*61*) E(Poly(vx, << 0, 2 >>, << KI(1), KI(3) >>)),
  (*62*) E(Rat(KI(3), KI(4))),
  \* stock nodes of pymbolic.geometric_algebra.primitives (User shape: string fields, children)
  (*63*) E(User("MultiVectorVariable", << "mv" >>, << >>)),       \* plain subclass of Variable
  (*64*) E(User("Nabla", << "id0" >>, << >>)),
  (*65*) E(User("NablaComponent", << "id0" >>, << KI(1) >>)),
  (*66*) E(User("DerivativeSource", << "id0" >>, << xp1 >>)),
  (*67*) E(V("mv")),                                                \* != (63): other class
  \* two and three unlisted variables: their order must not depend on the hash seed
  (*68*) C(N("Sum", << N("Product", << KI(2), V("zeta") >>), B("Power", V("alpha"), KI(2)), V("mid") >>),
           << "mid" >>, << "alpha", "zeta" >>),
  (*69*) C(N("Sum", << B("FloorDiv", V("pear"), KI(2)), N("Product", << KI(5), V("apple") >>),
                       N("Product", << KI(7), V("fig") >>) >>),
           << >>, << "apple", "fig", "pear" >>),
  \* names that differ only in case: ASCII order puts "T" before "a" before "t"; a case-folding
  \* sort would tie T/t and fall back to a seed-dependent set order
  (*70*) C(N("Sum", << N("Product", << KI(2), V("T") >>), N("Product", << KI(3), V("t") >>),
                       N("Product", << KI(5), V("a") >>) >>),
           << >>, << "T", "a", "t" >>),
  (*71*) ENP(B("Power", vx, K(FltV(3, 2)))),                    \* same structure as (11), numpy constant
  (*72*) ENP(N("Product", << K(FltV(5, 2)), vy, Look(V("obj"), "attr") >>)),
  (*73*) E(N("Product", << K(FltV(5, 2)), vy, Look(V("obj"), "attr") >>)),
  \* expressions that come out of the parser
  (*74*) EP(Call(V("f"), << N("List", << vx, vy >>) >>)),
  (*75*) EP(N("Sum", << Call(V("f"), << N("List", << vx, KI(2) >>) >>), KI(1) >>)),
  (*76*) EP(xp1),                                                \* same structure as (3)
  (*77*) EP(IfE(cond, Call(V("g"), << vx, N("Tup", << vy, vz >>) >>), B("Sub", V("arr"), KI(0)))),
  \* ---- round 2 ----
  \* user dataclass nodes with keyword-only fields, fields __init__ does not take, defaults
  (*78*) E(tvk),                                                 \* C17Kw("acc", 3, tag="global")
  (*79*) EOM(kwl),                                               \* C17Kw("acc", tag="local")
  (*80*) E(kwl),                                                 \* the same, everything spelt out
  (*81*) E(User("C17Kw", << "acc", "global" >>, << KI(0) >>)),   \* != (78)
  (*82*) E(User("C17KwMid", << "sum", "i", "j" >>, << N("Sum", << N("Product", << vx, tvk >>), KI(1) >>) >>)),
  (*83*) EOM(User("C17KwMid", << "max" >>, << KI(0) >>)),        \* C17KwMid("max")
  (*84*) E(ini),
  (*85*) E(User("C17Dfl", << "d", "t" >>, << vx >>)),
  (*86*) EOM(User("C17Dfl", << "d", "dflt" >>, << KI(0) >>)),    \* C17Dfl("d")
  (*87*) E(User("C17Kw2", << "a", "q" >>, << KI(2), vy >>)),
  (*88*) EOM(User("C17Kw2", << "a", "" >>, << vx, KI(1) >>)),    \* C17Kw2("a", x)
  (*89*) E(N("Sum", << tvk, ini, Call(V("f"), << tvk, kwl >>) >>)),
  (*90*) E(User("C17Kw", << "acc", "" >>, << KI(3) >>)),         \* != (78): the keyword-only field alone
  \* compiled expressions that call into the evaluation context and leave >= 3 variables
  \* unlisted: the positional signature is "listed, then the others in lexicographic order" in
  \* every process - seen through the values computed (weights 2,3,5,7,11 tell the arguments apart)
  (*91*) C(N("Sum", << Call(mfn("fabs"), << N("Sum", << P2(2, V("alpha")), P2(-3, vx) >>) >>),
                       P2(5, V("beta")), P2(7, vy) >>),
           << >>, << "alpha", "beta", "x", "y" >>),
  (*92*) C(N("Sum", << Call(mfn("copysign"), << N("Sum", << P2(3, V("omega")), V("phi") >>), V("kappa") >>),
                       P2(2, V("amp")), P2(-5, V("offset")) >>),
           << "amp" >>, << "kappa", "offset", "omega", "phi" >>),
  (*93*) C(N("Sum", << Call(mfn("fabs"), << N("Sum", << V("north"), P2(-2, V("east")) >>) >>), P2(3, V("up")) >>),
           << >>, << "east", "north", "up" >>),
  (*94*) C(N("Sum", << P2(2, Call(mfn("fabs"), << V("delta") >>)), P2(3, V("gamma")), P2(5, vz),
                       P2(7, V("w")), P2(-11, V("k")) >>),
           << >>, << "delta", "gamma", "k", "w", "z" >>),
  (*95*) C(N("Sum", << Call(mfn("fabs"), << N("Product", << V("t"), V("omega") >>) >>),
                       Call(mfn("copysign"), << V("amp"), N("Sum", << V("phi"), P2(-2, V("kappa")) >>) >>),
                       P2(3, V("offset")) >>),
           << "t", "amp" >>, << "kappa", "offset", "omega", "phi" >>),
  \* the context name is there but only ONE variable is unlisted / none is
  (*96*) C(N("Sum", << Call(mfn("fabs"), << vx >>), P2(2, vy) >>), << "y" >>, << "x" >>),
  \* one structure, three ways of putting the objects together: tree / DAG / parsed from text
  (*97*) E(shA),   (*98*) ESH(shA),   (*99*) EP(shA),
  (*100*) E(shB),  (*101*) ESH(shB),  (*102*) EP(shB),
  (*103*) E(shC),  (*104*) ESH(shC),
  (*105*) E(shD),  (*106*) ESH(shD),
  (*107*) E(shE),  (*108*) ESH(shE),
  (*109*) ESH(N("Sum", << P2(2, vx), P2(3, vx), vx >>)),          \* only leaves are shared
  (*110*) E(N("Sum", << P2(2, vx), P2(3, vx), vx >>)),
  \* a compiled expression over a DAG (its pickle is the expression + the listed variables)
  (*111*) CSH(N("Sum", << N("Product", << uxy, uxy >>), P2(3, N("Product", << uxy, vz >>)) >>),
              << "z" >>, << "x", "y" >>),
  \* built from source with the literal words True / False in it (every interpreter mode,
  \* -O included, must be able to build it)
  (*112*) EP(N("LogAnd", << K(BoolV(TRUE)), Cmp(vx, "<", vy), U("LogNot", K(BoolV(FALSE))) >>)),
  \* comparisons whose operator was given by name: the constructor's normalisation must not
  \* depend on the interpreter's mode
  (*113*) EALT(Cmp(V("lhs"), "<", KI(0))),                        \* same structure as (17)
  (*114*) EALT(IfE(Cmp(vx, ">=", vy), N("Sum", << vx, Cmp(vy, "!=", KI(2)) >>), vz)),
  \* a parenthesised tuple as the LAST thing of the source text, built from source and from
  \* constructors: same structure, same persistent key
  (*115*) EP(IfE(cond, vx, N("Tup", << vy, KI(1) >>))),
  (*116*) E(IfE(cond, vx, N("Tup", << vy, KI(1) >>))),
  \* ---- round 5: leaf subclasses inside expressions; compiled expressions whose explicit
  \* variables are OBJECTS (plain / of the leaf subclass the expression is written over) ----
  (*117*) E(wexp(MV)),                                            \* library leaf subclass below stock nodes
  (*118*) E(wexp(V)),                                             \* != (117): other leaf class, same names
  (*119*) E(N("Sum", << P2(2, MV("p")), Sq(V("p")), Call(MV("f"), << V("f"), TGV("p") >>) >>)),  \* one name, three classes
  (*120*) E(Call(fnu, << vx, MV("x") >>)),                        \* a FunctionSymbol subclass as the function
  (*121*) E(Call(FunSym, << vx, MV("x") >>)),                     \* != (120)
  (*122*) ESH(N("Product", << mvs, mvs, MV("r") >>)),             \* DAG over a subclass leaf
  \* plain variables, listed as objects: same compiled function as listed by name
  (*123*) CV(wexp(V), << "t", "r" >>, << "q", "s" >>, "plain"),
  (*124*) C(wexp(V), << "t", "r" >>, << "q", "s" >>),
  \* the library's leaf subclass: all listed / partly listed (the others, of both classes, follow
  \* in lexicographic order of their names) / none listed
  (*125*) CV(wexp(MV), << "t", "s", "r" >>, << "q" >>, "same"),
  (*126*) CV(wexp(MV), << "s" >>, << "q", "r", "t" >>, "same"),
  (*127*) C(wexp(MV), << >>, << "q", "r", "s", "t" >>),
  (*128*) CV(fexp(MV), << "c", "a" >>, << "b", "d" >>, "same"),
  \* a listed variable the expression does not use is still an argument
  (*129*) CV(fexp(MV), << "z", "b" >>, << "a", "c", "d" >>, "same"),
  (*130*) CV(fexp(V), << "b", "z" >>, << "a", "c", "d" >>, "plain"),
  \* user leaf subclasses: dataclass subclass, legacy subclass, keyword-only field
  (*131*) CV(wexp(TGV), << "s", "t" >>, << "q", "r" >>, "same"),
  (*132*) CV(fexp(OLV), << "c", "b", "a" >>, << "d" >>, "same"),
  (*133*) CV(wexp(KWV), << "r" >>, << "q", "s", "t" >>, "same"),
  \* DAG: the listed objects ARE the expression's own leaves; with a context name
  (*134*) CSHV(N("Sum", << N("Product", << mvs, mvs >>), P2(3, N("Product", << mvs, MV("k") >>)) >>),
               << "k", "r" >>, << "q" >>, "same"),
  (*135*) CV(N("Sum", << Call(mfn("fabs"), << N("Sum", << P2(2, MV("u")), P2(-3, MV("h")) >>) >>),
                        P2(5, MV("e")), P2(7, V("g")) >>),
             << "u", "e" >>, << "g", "h" >>, "same"),
  \* ---- round 7: user node types declared with every option combination of the decorator
  \* (init=False with a hand-written __init__, hash=False with an own / an inherited hash), as
  \* root, below stock nodes, inside each other, as the leaves of a compiled expression ----
  (*136*) E(oia),                                                 \* init=False: inner (leaf below a Sum below it)
  (*137*) E(oil),                                                 \* init=False: leaf
  (*138*) E(User("C17Oi", << "n" >>, << N("Sum", << vx, User("C17OiLeaf", << "l", "u" >>, << >>) >>) >>)),  \* != (136)
  (*139*) E(oim),                                                 \* ... under a plain intermediate class
  (*140*) E(OIV("v")),                                            \* ... leaf under a stock dataclass node
  (*141*) E(ois),                                                 \* ... under a user dataclass node
  (*142*) E(onh),   (*143*) E(onl),                               \* init=False, hash=False, own hash
  (*144*) E(nhi),   (*145*) E(nhl),                               \* hash=False, own hash
  (*146*) E(nhp),   (*147*) E(NHV("v")),                          \* hash=False, inherited hash
  (*148*) E(ons),   (*149*) E(ONV("v")),                          \* init=False, hash=False, inherited hash
  \* all the inner ones below stock nodes
  (*150*) E(N("Sum", << P2(2, oia), B("Power", oim, KI(2)), Call(V("f"), << ois, onh >>),
                        IfE(cond, nhp, ons), nhi >>)),
  (*151*) ESH(N("Sum", << N("Product", << oia, oia >>), Call(V("f"), << oia, oil >>) >>)),   \* a DAG over them
  \* compiled expressions written over leaf subclasses declared with options
  (*152*) CV(wexp(OIV), << "s", "t" >>, << "q", "r" >>, "same"),
  (*153*) CV(fexp(NHV), << "c", "a" >>, << "b", "d" >>, "same"),
  (*154*) CV(wexp(ONV), << "r" >>, << "q", "s", "t" >>, "same"),
  \* hash=False without an own hash, under Expression / a plain intermediate class: the hash is
  \* the legacy Expression.__hash__, cached on the instance - in every interpreter mode
  (*155*) E(lgi),   (*156*) E(lgl),                               \* under Expression: inner, leaf
  (*157*) E(lgm),   (*158*) E(lml),                               \* under a plain intermediate class
  (*159*) E(oli),   (*160*) E(oll),                               \* with a hand-written __init__
  (*161*) E(N("Sum", << P2(2, lgi), B("Power", lgm, KI(2)), Call(V("f"), << oli, vx >>) >>)),
  (*162*) E(User("C17Lg", << "n" >>, << N("Sum", << vx, User("C17LgLeaf", << "k" >>, << >>) >>) >>))   \* != (155)
>>
NCat == Len(Cat)
CatIds == 1..NCat

\* equality of the *objects* of two catalogue entries.  Compiled expressions
\* have no == of their own: hash / == / lookups are asked of the source
\* expression they carry; that the listed variables survive as well is seen
\* through the values the compiled function computes (CompiledValue)
ObjPyEq(i, j) == /\ Cat[i].kind = Cat[j].kind
                 /\ PyEq(Cat[i].e, Cat[j].e)
\* where an entry came from is not structure - except that a parsed list literal is another
\* class than a Python list
\* (nor is the way the objects were put together: mode)
\* (nor is the order in which the keyword arguments of a call were written: they are a mapping,
\* and two calls that differ in it only are equal - the keyword sequence is read as a set)
RECURSIVE KwUnordered(_)
KwUnordered(e) ==
    IF e.t \in {"User", "Poly", "Rat", "NaNNode", "FunctionSymbol", "Wild"} THEN e
    ELSE LET ks == Kids(e)
             e2 == WithKids(e, [i \in 1..Len(ks) |-> KwUnordered(ks[i])])
         IN IF e.t = "CallKw" THEN [e2 EXCEPT !.kw = {e2.kw[i] : i \in 1..Len(e2.kw)}] ELSE e2
StructNorm(c) == [c EXCEPT !.np = FALSE, !.src = (c.src /\ "List" \in KindsIn(c.e)), !.mode = "",
                            !.vobj = "", !.e = KwUnordered(c.e)]
ObjSameStruct(i, j) == StructNorm(Cat[i]) = StructNorm(Cat[j])

\* canonical representative (least index) of the == class / of the structure
CanonTab  == [i \in CatIds |->
                CHOOSE j \in CatIds : ObjPyEq(j, i) /\ \A k \in 1..(j - 1) : ~ObjPyEq(k, i)]
StructTab == [i \in CatIds |->
                CHOOSE j \in CatIds : ObjSameStruct(j, i) /\ \A k \in 1..(j - 1) : ~ObjSameStruct(k, i)]
Canon(i)  == CanonTab[i]
StructOf(i) == StructTab[i]
\* pytools' KeyBuilder (third party) keys numpy scalars by their own type: for it a numpy
\* constant is a different structure; pymbolic's own walker normalises numpy scalars
KBNorm(c) == [c EXCEPT !.mode = "", !.vobj = "", !.e = KwUnordered(c.e)]
StructKBTab == [i \in CatIds |->
                CHOOSE j \in CatIds : KBNorm(Cat[j]) = KBNorm(Cat[i])
                                       /\ \A k \in 1..(j - 1) : KBNorm(Cat[k]) # KBNorm(Cat[i])]
StructFor(kind, i) == IF kind = "kb" THEN StructKBTab[i] ELSE StructTab[i]

IsCompiled(i) == Cat[i].kind = "compiled"
IsHashable(i) == Cat[i].src \/ Hashable(Cat[i].e)

\* argument names of the compiled function: the listed variables, then the
\* unlisted ones "in lexicographic order" (documented)
Unlisted(i) == (VarNames(Cat[i].e) \ CtxNames) \ SeqToSet(Cat[i].vars)
UsesCtx(i) == VarNames(Cat[i].e) \cap CtxNames # {}
\* what the context names stand for when the compiled function runs (Eval!ObjAttr knows "math";
\* for integer arguments its fabs / copysign ARE math.fabs / math.copysign by value)
CtxEnv(i) == [n \in (VarNames(Cat[i].e) \cap CtxNames) |-> [k |-> "obj", name |-> n]]
ArgNames(i) == Cat[i].vars \o Cat[i].rest
CompiledValue(i, args) ==
    LET names == ArgNames(i)
        env == [n \in SeqToSet(names) |->
                   IntV(args[CHOOSE k \in 1..Len(names) : names[k] = n])]
    IN Eval(Plain(Cat[i].e), env @@ CtxEnv(i))

\* (round 7) where instances of a user class occur in the catalogue: << is a leaf (no children),
\* "root" | "below-stock" (directly below a node that is not a user / legacy node) >>
OccursAt(cls) ==
    UNION { LET e == Cat[i].e IN
            (IF e.t = "User" /\ e.cls = cls THEN { << Len(e.c) = 0, "root" >> } ELSE {})
            \cup UNION { { << Len(XKids(u)[k].c) = 0, "below-stock" >> :
                             k \in {n \in 1..Len(XKids(u)) : XKids(u)[n].t = "User" /\ XKids(u)[n].cls = cls} }
                         : u \in {w \in XSubExprs(e) : w.t # "User"} }
          : i \in CatIds }

\* sanity of the catalogue and of PyEq itself (checked by TLC once, in C17_Gen)
CatalogueSane ==
    /\ \A i \in CatIds : ObjPyEq(i, i)
    /\ \A i, j \in CatIds : ObjPyEq(i, j) = ObjPyEq(j, i)
    /\ \A i, j, k \in CatIds : ObjPyEq(i, j) /\ ObjPyEq(j, k) => ObjPyEq(i, k)
    /\ \A i, j \in CatIds : ObjSameStruct(i, j) => ObjPyEq(i, j)
    /\ \A i \in CatIds : /\ SeqToSet(Cat[i].rest) = (IF IsCompiled(i) THEN Unlisted(i) ELSE {})
                          /\ Cardinality(SeqToSet(Cat[i].rest)) = Len(Cat[i].rest)
    \* the intended relations between neighbours
    /\ ObjPyEq(3, 4) /\ ObjPyEq(3, 5) /\ ~ObjSameStruct(3, 4) /\ ~ObjPyEq(3, 6)
    /\ ObjPyEq(22, 23) /\ ObjSameStruct(22, 23) /\ ~ObjPyEq(22, 24)
    /\ ~ObjPyEq(16, 17) /\ ~ObjPyEq(26, 27) /\ ObjPyEq(41, 42) /\ ~ObjPyEq(41, 43)
    /\ ~ObjPyEq(63, 67) /\ ~ObjPyEq(50, 51) /\ ObjPyEq(59, 60) /\ ~ObjSameStruct(59, 60) /\ ~ObjPyEq(28, 29)
    /\ ObjSameStruct(79, 80) /\ ~ObjPyEq(78, 81) /\ ~ObjPyEq(78, 90) /\ ~ObjPyEq(78, 80)
    /\ ObjSameStruct(97, 98) /\ ObjSameStruct(97, 99) /\ ObjSameStruct(100, 101) /\ ObjSameStruct(100, 102)
    /\ ObjSameStruct(103, 104) /\ ObjSameStruct(105, 106) /\ ObjSameStruct(107, 108) /\ ObjSameStruct(109, 110)
    \* listed variables and context names are not among the unlisted ones
    /\ \A i \in CatIds : SeqToSet(Cat[i].rest) \cap (CtxNames \cup SeqToSet(Cat[i].vars)) = {}
    /\ Cardinality({i \in CatIds : UsesCtx(i) /\ Len(Cat[i].rest) >= 3}) >= 3
    \* (round 5) a compiled entry is something that CAN be built from its description: no name
    \* is used by leaves of two classes, and a name the expression gives to a subclass leaf is
    \* listed as that object, not as a string / plain Variable (those name another variable)
    /\ \A i \in {k \in CatIds : IsCompiled(k)} :
          /\ Cardinality(VarLeaves(Cat[i].e)) = Cardinality(VarNames(Cat[i].e))
          /\ Cat[i].vobj \in {"", "plain", "same"}
          /\ Cat[i].vobj # "same" =>
                SeqToSet(Cat[i].vars) \cap {LeafName(u) : u \in {w \in VarLeaves(Cat[i].e) : IsSubLeaf(w)}} = {}
    /\ \A i \in {k \in CatIds : ~IsCompiled(k)} : Cat[i].vobj = ""
    /\ ~ObjPyEq(117, 118) /\ ~ObjPyEq(120, 121) /\ ObjSameStruct(123, 124) /\ ~ObjPyEq(125, 124)
    /\ ObjPyEq(125, 127) /\ ~ObjSameStruct(125, 127) /\ ~ObjPyEq(125, 131)
    \* leaf subclasses occur as listed objects of every flavour
    /\ \A cls \in VarLikeUser \ {"C17Kw2"} : \E i \in CatIds :
          /\ IsCompiled(i) /\ Cat[i].vobj = "same" /\ Len(Cat[i].vars) > 0
          /\ \E u \in VarLeaves(Cat[i].e) : IsSubLeaf(u) /\ u.cls = cls /\ LeafName(u) \in SeqToSet(Cat[i].vars)
    \* (round 7) the option space of the decorator is covered
    \* every declared class is used; the ones that end at Expression.__hash__ are exactly "legacy"
    /\ \A cls \in DataclassUser : OccursAt(cls) # {}
    /\ \A cls \in DataclassUser : HashProvided(cls, FALSE) <=> HashSource(cls) # "legacy"
    /\ \A cls \in DataclassUser : UserDecl(cls).base = "user" <=> UserDecl(cls).parent \in DataclassUser
    \* init x (generated / own / inherited hash) x (leaf / inner node) x (root / below a stock node)
    /\ \A init \in BOOLEAN : \A src \in {"gen", "own", "inherit", "legacy"} : \A leaf \in BOOLEAN :
         \A where \in {"root", "below-stock"} :
          \E cls \in DataclassUser :
             /\ UserDecl(cls).init = init /\ HashSource(cls) = src
             /\ << leaf, where >> \in OccursAt(cls)
    \* a hand-written __init__ under every kind of base
    /\ \A b \in {"Expression", "plain", "stock", "user"} : \E cls \in DataclassUser :
          ~UserDecl(cls).init /\ UserDecl(cls).hash /\ UserDecl(cls).base = b
    \* the legacy hash under both kinds of base that lead to it, with and without a generated __init__
    /\ \A b \in {"Expression", "plain"} : \A init \in BOOLEAN : \E cls \in DataclassUser :
          HashSource(cls) = "legacy" /\ UserDecl(cls).base = b /\ UserDecl(cls).init = init
    /\ ~ObjPyEq(136, 138) /\ ObjSameStruct(136, 136) /\ ~ObjPyEq(140, 147) /\ ~ObjPyEq(155, 162)
=============================================================================
