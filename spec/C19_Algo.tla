------------------------------ MODULE C19_Algo ------------------------------
(***************************************************************************)
(* S-layer for C19: the two loops of pymbolic/algorithm.py as state        *)
(* machines (one TLA+ step = one loop iteration), with their loop          *)
(* invariants, result properties and termination measures, plus the        *)
(* Cooley-Tukey recursion as a one-step machine.  The variable bug is      *)
(* fixed by Init: bug = "none" is the algorithm of the code, for which the *)
(* invariants below must hold (C19_Algo.cfg); every other value is a       *)
(* negative control for which TLC MUST report the matching Ctl_*           *)
(* invariant violated (C19_Algo_controls.cfg, run with -continue).         *)
(*                                                                         *)
(*  alg = "pow"    integer_power over Z_7, 2x2 matrices over Z_5 and words *)
(*  alg = "euclid" extended_euclidean / gcd / lcm over -R..R through every  *)
(*                 entry point (algorithm, the traits objects)             *)
(*  alg = "fft"    fft over Z_p for the lengths in FFTLens                 *)
(*  alg = "map"    IdentityMapper.map_polynomial on abstract objects (one  *)
(*                 step = one self.rec call, then the decision to return   *)
(*                 the argument or to build a new polynomial)              *)
(***************************************************************************)
EXTENDS C19_Arith
CONSTANTS Bugs, MaxN, R, FFTLens, MaxTerms
VARIABLES alg, pc, in, s, bug

vars == << alg, pc, in, s, bug >>
Bug == bug
PowBugs == {"none", "drop_last", "no_square", "accept_negative"}
EuBugs == {"none", "swap_forgot", "wrong_T", "forward_swapped", "coeffs_exchanged", "lcm_divides_twice"}
FFTBugs == {"none", "stride", "twiddle"}
MapBugs == {"none", "flag_overwritten", "base_ignored", "any_for_all", "generator_consumed"}

(**************************** integer_power ********************************)
PowInputs ==
    { [mon |-> "zm", m |-> 7, x |-> << v >>] : v \in 0..6 }
    \cup { [mon |-> "mat", m |-> 5, x |-> xx] : xx \in { << 1, 1, 1, 0 >>, << 2, 3, 1, 4 >>, << 0, 1, 0, 0 >> } }
    \cup { [mon |-> "word", m |-> 0, x |-> xx] : xx \in { << 1 >>, << 1, 2 >> } }

PowInit == /\ alg = "pow" /\ pc = "start" /\ bug \in Bugs \cap PowBugs
           /\ in \in { [mon |-> i.mon, m |-> i.m, x |-> i.x, n |-> n] : i \in PowInputs, n \in -2..MaxN }
           /\ s = [aux |-> << >>, x |-> << >>, n |-> 0, mults |-> 0]
Mul(a, b) == MMul(in.mon, in.m, a, b)
PowStart == /\ pc = "start"
            /\ IF in.n < 0 /\ Bug # "accept_negative" THEN pc' = "refused" /\ UNCHANGED s
               ELSE pc' = "loop" /\ s' = [aux |-> MOne(in.mon, in.m), x |-> in.x, n |-> in.n, mults |-> 0]
            /\ UNCHANGED << alg, in, bug >>
PowLoop ==
    /\ pc = "loop" /\ UNCHANGED << alg, in, bug >>
    /\ IF s.n > 0
       THEN LET odd  == (s.n % 2) = 1
                aux2 == IF odd THEN Mul(s.aux, s.x) ELSE s.aux
                m1   == s.mults + (IF odd THEN 1 ELSE 0)
            IN IF Bug = "drop_last" /\ s.n = 1
               THEN pc' = "done" /\ s' = s                                       \* returns before the last factor
               ELSE IF odd /\ s.n = 1
               THEN pc' = "done" /\ s' = [s EXCEPT !.aux = aux2, !.mults = m1]
               ELSE /\ pc' = "loop"
                    /\ s' = [aux |-> aux2,
                             x |-> (IF Bug = "no_square" THEN Mul(s.x, in.x) ELSE Mul(s.x, s.x)),
                             n |-> s.n \div 2, mults |-> m1 + 1]
       ELSE pc' = "done" /\ UNCHANGED s

\* loop invariant: aux * x^n = x0^n0
PowLoopInvB == (alg = "pow" /\ pc = "loop" /\ in.n >= 0) =>
                 Mul(s.aux, Pow(in.mon, in.m, s.x, s.n)) = Pow(in.mon, in.m, in.x, in.n)
PowResultB == (alg = "pow" /\ pc = "done" /\ in.n >= 0) => s.aux = Pow(in.mon, in.m, in.x, in.n)
PowRefusalB == (alg = "pow") => ((pc = "refused") => in.n < 0) /\ ((pc \in {"loop", "done"}) => in.n >= 0)
\* "using only multiplications", and few of them: at most 2*bitlength(n)
BitLen(n) == IF n = 0 THEN 0 ELSE CHOOSE k \in 1..31 : IPowG(2, k - 1) <= n /\ (k = 31 \/ n < IPowG(2, k))
PowCostB == (alg = "pow" /\ pc \in {"loop", "done"} /\ in.n >= 0) => s.mults <= 2 * BitLen(in.n)
\* termination: n strictly decreases while looping
PowDecreases == [][(alg = "pow" /\ pc = "loop" /\ pc' = "loop") => s'.n < s.n]_vars

(**************************** extended_euclidean ***************************)
(* The call enters through an entry point in.ep (C19_Arith, section (b')):  *)
(* the entry hands the caller's operands (in.q, in.r) to the routine       *)
(* (s.fq, s.fr), the routine loops, the entry hands the triple back; one   *)
(* more step computes the entry's lcm from the gcd.  The result properties *)
(* are about the CALLER's operands in the caller's order.                  *)
(***************************************************************************)
EuInit == /\ alg = "euclid" /\ pc = "start" /\ bug \in Bugs \cap EuBugs
          /\ in \in { [q |-> q, r |-> r, ep |-> ep] : q \in -R..R, r \in -R..R, ep \in Entries }
          /\ s = [q |-> 0, r |-> 0, QQ |-> << 0, 0 >>, RR |-> << 0, 0 >>, sw |-> FALSE, fq |-> 0, fr |-> 0,
                   l |-> << 0, 0 >>]
EuStart == /\ pc = "start" /\ UNCHANGED << alg, in, bug >>
           /\ pc' = "loop"
           \* the entry: "return algorithm.extended_euclidean(q, r)"; then the routine:
           \* "if norm(q) < norm(r): p, a, b = extended_euclidean(r, q); return p, b, a"
           /\ LET ops == FwdOperands(in.ep, in.q, in.r, Bug)
                  sw == Abs(ops[1]) < Abs(ops[2]) IN
              s' = [q |-> (IF sw THEN ops[2] ELSE ops[1]), r |-> (IF sw THEN ops[1] ELSE ops[2]),
                    QQ |-> << 1, 0 >>, RR |-> << 0, 1 >>, sw |-> sw, fq |-> ops[1], fr |-> ops[2], l |-> << 0, 0 >>]
EuLoop ==
    /\ pc = "loop" /\ UNCHANGED << alg, in, bug >>
    /\ IF s.r # 0
       THEN LET quot == PyDiv(s.q, s.r)
                t    == s.q - quot * s.r
                TT   == IF Bug = "wrong_T" THEN << s.QQ[1] - quot * s.RR[2], s.QQ[2] - quot * s.RR[1] >>
                        ELSE << s.QQ[1] - quot * s.RR[1], s.QQ[2] - quot * s.RR[2] >>
            IN pc' = "loop" /\ s' = [s EXCEPT !.q = s.r, !.r = t, !.QQ = s.RR, !.RR = TT]
       ELSE pc' = "done" /\ UNCHANGED s
\* the operands the loop works on (after the norm-based swap of what the routine was given)
Eq0 == IF s.sw THEN s.fr ELSE s.fq
Er0 == IF s.sw THEN s.fq ELSE s.fr
EuBezoutInvB == (alg = "euclid" /\ pc \in {"loop", "done"}) =>
                  /\ s.QQ[1] * Eq0 + s.QQ[2] * Er0 = s.q
                  /\ s.RR[1] * Eq0 + s.RR[2] * Er0 = s.r
\* the common divisors never change
EuGcdInvB == (alg = "euclid" /\ pc \in {"loop", "done"}) =>
                \A d \in 1..(2 * R + 1) : (Divides(d, s.q) /\ Divides(d, s.r)) <=> (Divides(d, in.q) /\ Divides(d, in.r))
\* the triple the routine returns (with the coefficients swapped back) ...
RtA == IF s.sw /\ Bug # "swap_forgot" THEN s.QQ[2] ELSE s.QQ[1]
RtB == IF s.sw /\ Bug # "swap_forgot" THEN s.QQ[1] ELSE s.QQ[2]
\* ... and the triple the caller gets from the entry
EuT == BackTriple(in.ep, << s.q, RtA, RtB >>, Bug)
EuG == EuT[1]
EuA == EuT[2]
EuB == EuT[3]
EuResultB == (alg = "euclid" /\ pc \in {"done", "lcm"}) =>
                Bezout(EuG, EuA, EuB, in.q, in.r) /\ IsGcd(EuG, in.q, in.r)
\* the entry's lcm from its gcd: algorithm.lcm = abs(q*r)//gcd(q, r), traits lcm = a*b/gcd(a, b)
EuLcmStep ==
    /\ pc = "done" /\ pc' = "lcm" /\ UNCHANGED << alg, in, bug >>
    /\ LET g == EuG IN
       s' = [s EXCEPT !.l = IF g = 0 THEN << 0, 0 >>
                            ELSE IF Bug = "lcm_divides_twice" THEN << 1, PyDiv(in.q, g) * PyDiv(in.r, g) >>
                            ELSE IF in.ep = "alg" THEN << 1, PyDiv(Abs(in.q * in.r), g) >>
                            ELSE << 1, PyDiv(in.q * in.r, g) >>]
\* "lcm is consistent with it": refused only for (0, 0), else a least common multiple
EuLcmB == (alg = "euclid" /\ pc = "lcm") =>
             IF s.l[1] = 0 THEN in.q = 0 /\ in.r = 0 ELSE IsLcm(s.l[2], in.q, in.r)
\* the transcription used by the generator computes the same triple and the same lcm
EuSameAsFunctionB == /\ (alg = "euclid" /\ pc \in {"done", "lcm"}) => << EuG, EuA, EuB >> = EntryEE(in.ep, in.q, in.r)
                     /\ (alg = "euclid" /\ pc = "lcm") => s.l = EntryLcm(in.ep, in.q, in.r)
EuDecreases == [][(alg = "euclid" /\ pc = "loop" /\ pc' = "loop") => Abs(s'.r) < Abs(s.r)]_vars

(**************************** fft ******************************************)
FFTInit == /\ alg = "fft" /\ pc = "start" /\ bug \in Bugs \cap FFTBugs
           /\ \E n \in FFTLens : \E j \in 1..n :
                LET p == PrimeFrom(97, n) IN
                in = [n |-> n, p |-> p, w |-> RootFrom(1, n, p), x |-> [i \in 1..n |-> IF i = j THEN 1 ELSE 0]]
           /\ s = << >>
FFTStep == /\ pc = "start" /\ pc' = "done" /\ UNCHANGED << alg, in, bug >>
           /\ s' = CooleyTukeyB(in.x, in.w, in.p, IF Bug \in {"stride", "twiddle"} THEN Bug ELSE "")
FFTResultB == (alg = "fft" /\ pc = "done") => s = DFT(in.x, in.w, in.p)

(**************************** IdentityMapper.map_polynomial ****************)
(* Objects are abstract.  The argument has a base and n coefficient slots; *)
(* the mapper hands a part back as the identical object ("old") or         *)
(* rewrites it ("new"): in.rb / in.rw[i] say which - every subset of the   *)
(* positions, with and without the base.  s.changed is "some part came     *)
(* back as another object", the condition under which the code builds a    *)
(* new polynomial instead of returning its argument                        *)
(* (base is expr.base and all(t[1] is orig_t[1] ...)).                     *)
(* Negative controls: flag_overwritten (a loop whose flag is assigned, not *)
(* or-ed: the last coefficient decides), base_ignored (the base is left    *)
(* out of the decision), any_for_all (one identical coefficient suffices), *)
(* generator_consumed (the data is a generator which the all() has         *)
(* advanced past the first rewritten coefficient).                         *)
(***************************************************************************)
Tok(rewritten) == IF rewritten THEN "new" ELSE "old"
MapInit == /\ alg = "map" /\ pc = "base" /\ bug \in Bugs \cap MapBugs
           /\ in \in UNION { { [n |-> n, rw |-> rw, rb |-> rb] : rw \in [1..n -> BOOLEAN], rb \in BOOLEAN } :
                                n \in 0..MaxTerms }
           /\ s = [i |-> 1, base |-> "", out |-> << >>, changed |-> FALSE, same |-> FALSE,
                    calls |-> 0, res |-> [base |-> "", data |-> << >>]]
MapBase == /\ pc = "base" /\ pc' = "coeff" /\ UNCHANGED << alg, in, bug >>
           /\ s' = [s EXCEPT !.base = Tok(in.rb), !.calls = 1,
                              !.changed = (IF Bug = "base_ignored" THEN FALSE ELSE in.rb)]
MapCoeffStep ==
    /\ pc = "coeff" /\ UNCHANGED << alg, in, bug >>
    /\ IF s.i <= in.n
       THEN /\ pc' = "coeff"
            /\ s' = [s EXCEPT !.i = s.i + 1, !.out = Append(s.out, Tok(in.rw[s.i])), !.calls = s.calls + 1,
                               !.changed = (IF Bug = "flag_overwritten" THEN in.rw[s.i] ELSE s.changed \/ in.rw[s.i])]
       ELSE /\ pc' = "done"
            /\ LET changed == IF Bug = "any_for_all"
                               THEN in.rb \/ (\A j \in 1..in.n : in.rw[j])
                               ELSE s.changed
                    \* how far the all(...) over zip(data, expr.data) reads: through the first rewritten one
                    k == IF \E j \in 1..in.n : in.rw[j]
                         THEN CHOOSE j \in 1..in.n : in.rw[j] /\ \A l \in 1..(j - 1) : ~in.rw[l] ELSE in.n
                    built == IF Bug = "generator_consumed" /\ ~in.rb THEN SubSeq(s.out, k + 1, in.n) ELSE s.out
                IN s' = [s EXCEPT !.same = ~changed,
                                  !.res = IF changed THEN [base |-> s.base, data |-> built]
                                          ELSE [base |-> "old", data |-> [j \in 1..in.n |-> "old"]]]
\* loop invariant: the flag says whether a part mapped so far came back as another object
MapFlagInvB == (alg = "map" /\ pc = "coeff") =>
                  (s.changed <=> (in.rb \/ \E j \in 1..(s.i - 1) : in.rw[j]))
\* the result is the polynomial over the mapped base with every coefficient mapped - in
\* particular the argument itself is returned only when no part was rewritten
MapResultB == (alg = "map" /\ pc = "done") =>
                 /\ s.res.base = Tok(in.rb)
                 /\ s.res.data = [j \in 1..in.n |-> Tok(in.rw[j])]
                 /\ s.same => (~in.rb /\ \A j \in 1..in.n : ~in.rw[j])
\* every part goes through the mapper exactly once
MapCallsB == (alg = "map" /\ pc = "done") => s.calls = in.n + 1

(**************************** invariants ***********************************)
\* the algorithm of the code
PowLoopInv == bug = "none" => PowLoopInvB
PowResult == bug = "none" => PowResultB
PowRefusal == bug = "none" => PowRefusalB
PowCost == bug = "none" => PowCostB
EuBezoutInv == bug = "none" => EuBezoutInvB
EuGcdInv == bug = "none" => EuGcdInvB
EuResult == bug = "none" => EuResultB
EuSameAsFunction == bug = "none" => EuSameAsFunctionB
EuLcm == bug = "none" => EuLcmB
FFTResult == bug = "none" => FFTResultB
MapFlagInv == bug = "none" => MapFlagInvB
MapResult == bug = "none" => MapResultB
MapCalls == bug = "none" => MapCallsB
\* negative controls: each of these MUST be reported violated
Ctl_drop_last == bug = "drop_last" => PowResultB
Ctl_no_square == bug = "no_square" => PowLoopInvB
Ctl_accept_negative == bug = "accept_negative" => PowRefusalB
Ctl_swap_forgot == bug = "swap_forgot" => EuResultB
Ctl_wrong_T == bug = "wrong_T" => EuBezoutInvB
\* the entry-point layer: operands handed on in the other order, coefficients handed back in the
\* other order (both leave the gcd right), an lcm that divides by the gcd twice
Ctl_forward_swapped == bug = "forward_swapped" => EuResultB
Ctl_coeffs_exchanged == bug = "coeffs_exchanged" => EuResultB
Ctl_lcm_divides_twice == bug = "lcm_divides_twice" => EuLcmB
\* ... and what they leave intact: the routine's own invariants and "g is a gcd" (so that only the
\* clause about the caller's order can see them) - checked with the code's invariants
EntryBugKeepsGcd == (bug \in {"forward_swapped", "coeffs_exchanged"} /\ alg = "euclid" /\ pc \in {"done", "lcm"}) =>
                       /\ IsGcd(EuG, in.q, in.r) /\ EuBezoutInvB /\ (in.ep = "alg" => EuResultB)
Ctl_stride == bug = "stride" => FFTResultB
Ctl_twiddle == bug = "twiddle" => FFTResultB
Ctl_flag_overwritten == bug = "flag_overwritten" => MapFlagInvB
Ctl_flag_overwritten_result == bug = "flag_overwritten" => MapResultB
Ctl_base_ignored == bug = "base_ignored" => MapResultB
Ctl_any_for_all == bug = "any_for_all" => MapResultB
Ctl_generator_consumed == bug = "generator_consumed" => MapResultB

(**************************** all together *********************************)
Init == PowInit \/ EuInit \/ FFTInit \/ MapInit
Next == \/ alg = "pow" /\ (PowStart \/ PowLoop)
        \/ alg = "euclid" /\ (EuStart \/ EuLoop \/ EuLcmStep)
        \/ alg = "fft" /\ FFTStep
        \/ alg = "map" /\ (MapBase \/ MapCoeffStep)
Spec == Init /\ [][Next]_vars
=============================================================================
