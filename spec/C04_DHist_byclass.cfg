CONSTANT Tier = "quick"
CONSTANT MemoMode = "byclass"
INIT Init
NEXT Next
INVARIANT EveryDispatchIsTheMeaning
INVARIANT HistoryFree
INVARIANT MemoSane
CHECK_DEADLOCK FALSE
