INIT JInit
NEXT JNext
INVARIANT Report
CHECK_DEADLOCK FALSE
