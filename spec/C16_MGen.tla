------------------------------- MODULE C16_MGen -------------------------------
(***************************************************************************)
(* Stage (1) for C16, matchpy part.  TLC enumerates                        *)
(*   kind "mp": wildcard patterns (dot and star wildcards, depth <= 2),    *)
(*              a substitution sg for the wildcards and a context; the     *)
(*              subject is Ctx[InstW(pattern, sg)] (or an independent      *)
(*              term), so that TLC knows one legitimate match;             *)
(*   kind "rt": terms for the conversion round trip (every node kind the   *)
(*              bridge converts, nested AC nodes, tuple and plain indices, *)
(*              and kinds it refuses);                                     *)
(* and checks on the model that the meaning layer is consistent with that  *)
(* construction and that the rewriting machine of C16_Matchpy behaves:     *)
(* the intended first step is enabled, a step puts the marker in, can be   *)
(* undone by replacing the marker back (Replace1 replaces exactly one      *)
(* occurrence) and never enlarges the term.                                *)
(***************************************************************************)
EXTENDS C16_Matchpy, Json
CONSTANT Tier
VARIABLES kind, pat, subj, sg, ctx

x == V("x")  y == V("y")  z == V("z")  f == V("f")  g == V("g")
K1 == KI(1)  K2 == KI(2)
S(cc) == N("Sum", cc)   P(cc) == N("Product", cc)   T(cc) == N("Tup", cc)
W == DotW("w_")  Vv == DotW("v_")  St == StarW("s_")
Quick == Tier = "quick"

HoleT(ty) == [t |-> "Hole", ty |-> ty]
\* hole types: L leaf, M leaf or a small depth-1 block, A leaf or any depth-1 block
A == HoleT("any")  M == HoleT("mid")  L == HoleT("leaf")

LeafPool == IF Quick THEN {W, Vv, x} ELSE {W, Vv, x, K2}
D1Quick == { S(<< W, x >>), P(<< W, Vv >>), Call(f, << W >>) }
D1More == { S(<< Vv, St >>), P(<< x, St >>), Call(g, << Vv, x >>), Call(f, << W, St >>),
            B("Power", W, K2), B("Sub", x, T(<< W >>)), Cmp(W, "<", Vv),
            N("LogAnd", << W, Vv >>) }
PoolFor(ty) ==
    CASE ty = "leaf" -> LeafPool
      [] ty = "mid"  -> LeafPool \cup D1Quick
      [] OTHER       -> IF Quick THEN LeafPool \cup D1Quick ELSE LeafPool \cup D1Quick \cup D1More

PatRoots ==
    IF Quick THEN
    { S(<< A, A >>), S(<< A, St >>), P(<< A, A >>), P(<< L, A, St >>),
      Call(f, << A >>), Call(f, << A, L >>), Call(f, << L, St >>),
      B("Quotient", A, A), B("Power", A, L), B("Sub", x, T(<< A >>)), B("Sub", L, L),
      B("Sub", x, T(<< L, St >>)), Cmp(A, "<", L), IfE(L, A, L), x }
    ELSE
    { S(<< A, M >>), S(<< A, St >>), S(<< M, M, L >>), S(<< L, L, St >>),
      P(<< A, M >>), P(<< L, M, St >>), P(<< M, M, L >>),
      Call(f, << A >>), Call(f, << A, L >>), Call(f, << L, St >>), Call(L, << A >>),
      Call(f, << St, L >>), Call(f, << L, St, L >>),
      B("Quotient", A, M), B("Power", A, L), B("FloorDiv", M, L), B("Remainder", L, M),
      B("LShift", M, L), B("RShift", L, M),
      B("Sub", x, T(<< A >>)), B("Sub", L, L), B("Sub", x, T(<< L, St >>)),
      B("Sub", L, T(<< M, L >>)), Cmp(A, "<", L), Cmp(L, "==", M),
      IfE(L, M, L), IfE(Cmp(W, "<", L), M, L),
      N("LogOr", << M, L >>), N("LogAnd", << L, St >>), N("BitOr", << M, L >>),
      N("BitXor", << L, L >>), N("BitAnd", << L, M >>), U("LogNot", A), U("BitNot", M), x }

RtLeaf == { x, y, K2 }
RtD1 == { S(<< x, y >>), S(<< y, x >>), P(<< y, x >>), B("Sub", x, y), B("Sub", x, T(<< y, z >>)),
          Call(f, << y, x >>), B("Quotient", x, y), Cmp(y, "<", x), N("LogOr", << y, x >>) }
        \cup (IF Quick THEN {} ELSE
             { S(<< >>), S(<< x >>), P(<< x, x >>), B("Sub", x, T(<< y >>)), B("Power", x, K2),
               IfE(x, y, z), U("LogNot", x), N("BitAnd", << y, x >>), N("Min", << x, y >>),
               Look(x, "attr"), K(BoolV(TRUE)), K(FltV(5, 2)), B("FloorDiv", y, x) })
RtPool(ty) == IF ty = "leaf" THEN RtLeaf ELSE RtLeaf \cup RtD1
RtRoots ==
    { S(<< A, A >>), S(<< A, L, A >>), P(<< A, A >>), B("Quotient", A, A), B("Power", A, L),
      B("FloorDiv", A, L), B("Remainder", A, L), B("LShift", A, L), B("RShift", A, L),
      Call(f, << A >>), Call(A, << L, A >>), B("Sub", A, L), B("Sub", x, T(<< A, L >>)),
      B("Sub", x, T(<< A >>)), B("Sub", x, A),
      Cmp(A, "<", A), Cmp(L, ">=", A), IfE(A, A, L), U("LogNot", A), U("BitNot", A),
      N("LogOr", << A, A >>), N("LogAnd", << A, L >>), N("BitOr", << A, A >>),
      N("BitXor", << A, L >>), N("BitAnd", << L, A >>),
      N("Min", << A, L >>), N("Max", << L, A >>), Look(A, "attr"), S(<< >>), S(<< A >>), P(<< A >>) }

RECURSIVE FirstHoleTy(_)
FirstHoleTy(e) ==
    IF e.t = "Hole" THEN e.ty
    ELSE LET ks == Kids(e)
             RECURSIVE Go(_)
             Go(i) == IF i > Len(ks) THEN "" ELSE
                      LET r == FirstHoleTy(ks[i]) IN IF r # "" THEN r ELSE Go(i + 1)
         IN Go(1)
\* NHoles of Expr.tla does not know wildcard leaves
RECURSIVE NHolesW(_), StarCount(_)
NHolesW(e) == IF e.t = "Hole" THEN 1
              ELSE SeqSum([i \in 1..Len(KidsW(e)) |-> NHolesW(KidsW(e)[i])])
StarCount(e) == IF IsStar(e) THEN 1
                ELSE SeqSum([i \in 1..Len(KidsW(e)) |-> StarCount(KidsW(e)[i])])

--------------------------------------------------------------------------
Bind(w, items) == [n |-> w.name, kind |-> IF IsStar(w) THEN "seq" ELSE "expr", items |-> items]
ValPool(w) ==
    IF w = W THEN (IF Quick THEN { << x >>, << S(<< y, z >>) >> }
                   ELSE { << x >>, << S(<< y, z >>) >>, << Call(f, << y >>) >> })
    ELSE IF w = Vv THEN (IF Quick THEN { << y >>, << K1 >> }
                         ELSE { << y >>, << K1 >>, << P(<< x, z >>) >> })
    ELSE (IF Quick THEN { << >>, << y, z >>, << y, y >> } ELSE { << >>, << z >>, << y, z >>, << y, y >>, << x, x, z >> })
\* all substitutions for the wildcards of p, as sequences of bindings (fixed order W, Vv, St)
Sigs(p) ==
    LET ws == WildsOf(p)
        opt(w) == IF w \in ws THEN {<< Bind(w, it) >> : it \in ValPool(w)} ELSE {<< >>}
    IN {a1 \o a2 \o a3 : a1 \in opt(W), a2 \in opt(Vv), a3 \in opt(St)}

Contexts == IF Quick THEN {"id", "call", "twice", "argsum"}
            ELSE {"id", "call", "twice", "pow", "deep", "sum", "mix", "argsum"}
\* thorough: every substitution in the two basic contexts, one substitution in the others
BasicContexts == {"id", "call"}
RECURSIVE MixM(_)
RevS(s) == [i \in 1..Len(s) |-> s[Len(s) + 1 - i]]
MixM(e) == LET ks == [i \in 1..Len(KidsW(e)) |-> MixM(KidsW(e)[i])] IN
           IF e.t \in ACKindsM THEN N(e.t, RevS(ks)) ELSE WithKidsW(e, ks)
InCtx(c, e) ==
    CASE c = "id" -> e
      [] c = "call" -> Call(g, << e >>)
      [] c = "twice" -> Call(g, << e, e >>)
      [] c = "pow" -> B("Power", e, K2)
      [] c = "deep" -> Call(g, << x, Cmp(e, "<", y) >>)
      [] c = "sum" -> S(<< e, z >>)
      [] c = "argsum" -> Call(g, << S(<< e, z >>) >>)
      [] c = "mix" -> Call(g, << MixM(e) >>)
IndepSubjects == { S(<< x, y, z >>), P(<< x, S(<< y, z >>) >>), Call(f, << x, y, z >>),
                   Call(g, << Call(f, << x >>), Call(f, << y >>) >>), B("Sub", x, T(<< y, z >>)),
                   B("Quotient", S(<< x, y >>), z), IfE(Cmp(x, "<", y), x, y), x }

Init == \/ kind = "mp" /\ pat \in PatRoots /\ subj = Hole /\ sg = << >> /\ ctx = ""
        \/ kind = "rt" /\ pat = Hole /\ subj \in RtRoots /\ sg = << >> /\ ctx = ""
PatDone == NHolesW(pat) = 0
Complete == IF kind = "mp" THEN subj.t # "Hole" ELSE NHoles(subj) = 0

\* fill the first hole of a tree that may contain wildcard leaves
RECURSIVE FillW(_, _)
FillW(e, s) ==
    IF e.t = "Hole" THEN s
    ELSE IF e.t = "Wild" THEN e
    ELSE LET ks == Kids(e)
             RECURSIVE Go(_, _)
             Go(i, done) == IF i > Len(ks) THEN << >>
                            ELSE IF ~done /\ NHolesW(ks[i]) > 0
                                 THEN << FillW(ks[i], s) >> \o Go(i + 1, TRUE)
                                 ELSE << ks[i] >> \o Go(i + 1, done)
         IN WithKids(e, Go(1, FALSE))
RECURSIVE FirstHoleTyW(_)
FirstHoleTyW(e) ==
    IF e.t = "Hole" THEN e.ty
    ELSE LET ks == KidsW(e)
             RECURSIVE Go(_)
             Go(i) == IF i > Len(ks) THEN "" ELSE
                      LET r == FirstHoleTyW(ks[i]) IN IF r # "" THEN r ELSE Go(i + 1)
         IN Go(1)
\* at most one star wildcard occurrence per pattern (nested AC nodes are flattened by
\* matchpy, two sequence wildcards in one commutative operand list are its known blow-up)
StarsOK(e) == StarCount(e) <= 1

FillPat ==
    /\ kind = "mp" /\ ~PatDone
    /\ \E s \in PoolFor(FirstHoleTyW(pat)) : pat' = FillW(pat, s)
    /\ UNCHANGED << kind, subj, sg, ctx >>
PickSubject ==
    /\ kind = "mp" /\ PatDone /\ ~Complete /\ StarsOK(pat)
    /\ UNCHANGED << kind, pat >>
    /\ \/ \E s \in Sigs(pat), c \in Contexts :
            /\ (Quick \/ c \in BasicContexts \/ s = CHOOSE s0 \in Sigs(pat) : TRUE)
            /\ subj' = InCtx(c, InstW(pat, SigFun(s))) /\ sg' = s /\ ctx' = c
       \/ \E u \in IndepSubjects :
            /\ (Quick => u.t = pat.t)
            /\ subj' = u /\ sg' = << >> /\ ctx' = "indep"
FillRt ==
    /\ kind = "rt" /\ ~Complete
    /\ \E s \in RtPool(FirstHoleTy(subj)) : subj' = FillFirst(subj, s)
    /\ UNCHANGED << kind, pat, sg, ctx >>
Next == FillPat \/ PickSubject \/ FillRt

--------------------------------------------------------------------------
\* contexts that keep the instance as a subterm of the subject's normal form
Embeds == {"id", "call", "twice", "pow", "deep", "mix"}
RECURSIVE NFSize(_)
NFSize(nf) ==     \* number of nodes of a normal form, operands counted with multiplicity
    LET seqsum(q) == SeqSum([i \in 1..Len(q) |-> NFSize(q[i])])
        bagsum(bg) == LET RECURSIVE Go(_)
                          Go(Sx) == IF Sx = {} THEN 0
                                    ELSE LET k == CHOOSE q \in Sx : TRUE IN
                                         bg[k] * NFSize(k) + Go(Sx \ {k})
                      IN Go(DOMAIN bg)
    IN 1 + CASE nf.t \in {"Var", "Const", "Wild", "None"} -> 0
             [] IsBagNF(nf) -> bagsum(nf.bag)
             [] nf.t \in {"Tup", "List", "Slice"} -> seqsum(nf.c)
             [] nf.t = "Sub" -> NFSize(nf.a) + seqsum(nf.c)
             [] nf.t = "Call" -> NFSize(nf.f) + seqsum(nf.c)
             [] nf.t \in (BinKinds \ {"Sub"}) \cup {"Cmp"} -> NFSize(nf.a) + NFSize(nf.b)
             [] nf.t \in UnKinds \cup {"Look"} -> NFSize(nf.a)
             [] nf.t = "If" -> NFSize(nf.i) + NFSize(nf.th) + NFSize(nf.el)

MeaningSelfCheck ==
    (Complete /\ kind = "mp" /\ ctx \in Embeds) =>
        LET inst == InstW(pat, SigFun(sg)) IN
        /\ SubstVerdict(pat, sg, inst) = "OK"
        /\ NFM(inst) \in SubNFs(NFM(subj))
        /\ NFM(MixM(subj)) = NFM(subj)
RewriteMachineOK ==
    (Complete /\ kind = "mp" /\ ctx \in Embeds) =>
      \A mode \in {"marker", "wrap"} :
        LET s1 == RwStep(RwInit(subj), pat, sg, 1, mode)
            r1 == ReplTerm(pat, 1, mode) IN
        /\ s1 # {}                                         \* the intended step is enabled
        /\ \A t1 \in s1 :
             /\ Marker(1) \in SubNFs(t1)                   \* the marker is in
             /\ mode = "marker" =>
                  /\ NFM(subj) \in Replace1(t1, Marker(1), NFM(InstW(pat, SigFun(sg))))  \* undo
                  /\ NFSize(t1) <= NFSize(NFM(subj))       \* never grows
        /\ (ctx = "twice" =>                               \* two occurrences, two steps
              LET s2 == RwStep(s1, pat, sg, 2, mode) IN
              s2 # {} /\ \A t2 \in s2 : Marker(1) \in SubNFs(t2) /\ Marker(2) \in SubNFs(t2))
        /\ ReplaceVerdict(subj, pat, << sg >>, InCtx(IF ctx = "twice" THEN "call" ELSE ctx, r1),
                          mode) \in (IF ctx = "twice" THEN {"rep_result"} ELSE {"OK"})
        /\ (ctx \in {"call", "mix", "deep"} => ReplacedInArgList(subj, pat, << sg >>, mode))
RoundTripMeaning ==
    (Complete /\ kind = "rt") => NFM(MixM(subj)) = NFM(subj)

Emit == Complete =>
    PrintT(ToJson([kind |-> kind, s |-> subj, p |-> IF kind = "mp" THEN pat ELSE NoneE,
                   c |-> ctx]))
=============================================================================
