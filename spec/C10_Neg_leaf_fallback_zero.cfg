CONSTANT Bug = "leaf_fallback_zero"
INIT Init
NEXT Next
INVARIANT Refines
CHECK_DEADLOCK FALSE
