------------------------------ MODULE C03_Judge ------------------------------
(***************************************************************************)
(* Stage (3) for C03: the object each operator program really built is     *)
(* judged against the plain computation in every environment (M-layer).    *)
(* The A-layer's prediction is compared too, but only reported as drift.   *)
(***************************************************************************)
EXTENDS C03_Operators, C03_Env, Json, IOUtils
VARIABLES blk, off

Recs == ndJsonDeserialize(IOEnv.TRACE_FILE)
BS == 64
NB == (Len(Recs) + BS - 1) \div BS
Init == blk \in 0..(NB - 1) /\ off = 0
Next == off < BS - 1 /\ off' = off + 1 /\ UNCHANGED blk
Idx == blk * BS + off + 1

\* dynamic operand classes of every binary operator application in the program,
\* as the transcription predicts them: the attribution patterns
KindOf(x) == IF IsRaise(x) THEN "raise"
             ELSE IF IsC(x) THEN (IF x.v.n = 0 THEN "zero" ELSE IF x.v.n = x.v.d THEN "one" ELSE "num")
             ELSE "expr"
RECURSIVE Patterns(_)
Patterns(p) ==
    (IF p.t \in {"bin", "aug"} THEN { << p.op, KindOf(Build(p.l)), KindOf(Build(p.r)) >> } ELSE {})
    \cup UNION { Patterns(PKids(p)[i]) : i \in 1..Len(PKids(p)) }
SetToSeq(S) == LET RECURSIVE Go(_) Go(T) == IF T = {} THEN << >>
                                            ELSE LET e == CHOOSE e \in T : TRUE IN << e >> \o Go(T \ {e})
               IN Go(S)

Built(rec) == IF rec.res.r = "ok" THEN [r |-> "ok", e |-> rec.res.e]
              ELSE IF rec.res.r = "err" THEN [r |-> "err", v |-> rec.res.v]
              ELSE [r |-> "unser"]

\* the REAL evaluator's reading of the built object, environment by environment, against the
\* plain computation (binds the node's meaning - operator tables, evaluation order - as the
\* code has it, not only as Eval has it)
JudgeReal(p, ev) ==
    LET vs == [i \in 1..Len(ev) |->
                 LET pv == Plain(p, Envs[i]) IN
                 IF IsErr(pv) \/ IsUnrep(pv) \/ IsUnrep(ev[i]) THEN "NA"
                 ELSE IF IsErr(ev[i]) THEN "evaluator-raises"
                 ELSE IF ValEq(pv, ev[i]) THEN "OK" ELSE "evaluator-wrong-value"]
        bad(i) == vs[i] \notin {"OK", "NA"}
    IN  IF HasOrd(p) \/ ~\E i \in 1..Len(vs) : bad(i) THEN [v |-> "OK", env |-> 0]
        ELSE LET i == CHOOSE i \in 1..Len(vs) : bad(i) /\ \A j \in 1..(i - 1) : ~bad(j)
             IN [v |-> vs[i], env |-> i]

Report ==
    Idx <= Len(Recs) =>
      LET rec == Recs[Idx]
          b == Built(rec)
      IN IF b.r = "unser" THEN PrintT(ToJson([id |-> rec.id, v |-> "SKIP"]))
         ELSE LET j0 == Judge(rec.p, b, Envs)
                  j == IF j0.v = "OK" THEN JudgeReal(rec.p, rec.ev) ELSE j0
                  pred == BuiltOf(Build(rec.p))
                  drift == IF pred.r = "ok" /\ b.r = "ok" THEN pred.e # b.e
                           ELSE pred.r # b.r
              IN /\ (j.v = "OK" \/ PrintT(ToJson([id |-> rec.id, v |-> j.v, env |-> j.env,
                                                 pats |-> SetToSeq(Patterns(rec.p))])))
                 /\ (~drift \/ PrintT(ToJson([id |-> rec.id, v |-> "DRIFT"])))
=============================================================================
