------------------------------ MODULE C03_Judge ------------------------------
(***************************************************************************)
(* Stage (3) for C03: the object each operator program really built is     *)
(* judged against the plain computation in every environment (M-layer).    *)
(* The A-layer's prediction is compared too, but only reported as drift.   *)
(***************************************************************************)
EXTENDS C03_Operators, C03_Env, Json, IOUtils
VARIABLES blk, off

Recs == ndJsonDeserialize(IOEnv.TRACE_FILE)
BS == 64
NB == (Len(Recs) + BS - 1) \div BS
Init == blk \in 0..(NB - 1) /\ off = 0
Next == off < BS - 1 /\ off' = off + 1 /\ UNCHANGED blk
Idx == blk * BS + off + 1

\* dynamic operand classes of every binary operator application in the program,
\* as the transcription predicts them: the attribution patterns
KindOf(x) == IF IsRaise(x) THEN "raise"
             ELSE IF IsC(x) THEN (IF x.v.n = 0 THEN "zero" ELSE IF x.v.n = x.v.d THEN "one" ELSE "num")
             ELSE "expr"
RECURSIVE Patterns(_)
Patterns(p) ==
    (IF p.t = "bin" THEN { << p.op, KindOf(Build(p.l)), KindOf(Build(p.r)) >> } ELSE {})
    \cup UNION { Patterns(PKids(p)[i]) : i \in 1..Len(PKids(p)) }
SetToSeq(S) == LET RECURSIVE Go(_) Go(T) == IF T = {} THEN << >>
                                            ELSE LET e == CHOOSE e \in T : TRUE IN << e >> \o Go(T \ {e})
               IN Go(S)

Built(rec) == IF rec.res.r = "ok" THEN [r |-> "ok", e |-> rec.res.e]
              ELSE IF rec.res.r = "err" THEN [r |-> "err", v |-> rec.res.v]
              ELSE [r |-> "unser"]

Report ==
    Idx <= Len(Recs) =>
      LET rec == Recs[Idx]
          b == Built(rec)
      IN IF b.r = "unser" THEN PrintT(ToJson([id |-> rec.id, v |-> "SKIP"]))
         ELSE LET j == Judge(rec.p, b, Envs)
                  pred == BuiltOf(Build(rec.p))
                  drift == IF pred.r = "ok" /\ b.r = "ok" THEN pred.e # b.e
                           ELSE pred.r # b.r
              IN /\ (j.v = "OK" \/ PrintT(ToJson([id |-> rec.id, v |-> j.v, env |-> j.env,
                                                 pats |-> SetToSeq(Patterns(rec.p))])))
                 /\ (~drift \/ PrintT(ToJson([id |-> rec.id, v |-> "DRIFT"])))
=============================================================================
