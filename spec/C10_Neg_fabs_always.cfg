CONSTANT Bug = "fabs_always"
INIT Init
NEXT Next
INVARIANT Refines
CHECK_DEADLOCK FALSE
