---------------------------- MODULE C09_Analyses ----------------------------
(***************************************************************************)
(* C09 - dependency, node-count and flop analyses are exact.               *)
(*                                                                         *)
(* M-layer (the oracle; written from the property's statement, by          *)
(* POSITIONS in the tree, not by structural recursion):                    *)
(*   Deps(e, fl)     the outermost selected Subscript/Lookup/Call/CSE      *)
(*                   nodes plus every Variable occurring outside them      *)
(*   NodeCount(e)    number of distinct subexpressions (up to Python ==)   *)
(*   Flops(e)        additions, multiplications, divisions, powers         *)
(*   CSEFlops(e)     the same, every distinct CSE's body counted once      *)
(*   Names0 / the restricted-environment lemma                             *)
(* A-layer (transcriptions of the handlers of pymbolic/mapper/             *)
(* dependency.py, analysis.py, flop_counter.py with their flag tests and   *)
(* caches): DepsImpl, NodeCountImpl, FlopsImpl, CSEFlopsImpl.  TLC checks  *)
(* A = M over the generated space in C09_Gen.  Only the M-layer judges     *)
(* the implementation (C09_Judge).                                         *)
(***************************************************************************)
EXTENDS Eval

\* ------------------------------------------------------------------------
\* Python == on trees (C01's equality): 1 == 1.0 == True == Fraction(1, 1),
\* keyword mappings compare order-insensitively, everything else is
\* class- and field-wise.  Canon picks a canonical representative.
\* ------------------------------------------------------------------------
KwRank(nm) == CASE nm = "k1" -> 1 [] nm = "k2" -> 2 [] OTHER -> 3
KwSorted(kw) == SelectSeq(kw, LAMBDA a : KwRank(a.name) = 1)
                \o SelectSeq(kw, LAMBDA a : KwRank(a.name) = 2)
                \o SelectSeq(kw, LAMBDA a : KwRank(a.name) = 3)

RECURSIVE Canon(_)
Canon(e) ==
    IF e.t = "Const"
    THEN (IF IsNum(e.v) THEN [t |-> "Const", v |-> [k |-> "num", n |-> e.v.n, d |-> e.v.d]]
          ELSE e)
    ELSE LET ks == Kids(e)
             e1 == WithKids(e, TLCEval([i \in 1..Len(ks) |-> Canon(ks[i])]))   \* strict
         IN  IF e.t = "CallKw" THEN [e1 EXCEPT !.kw = KwSorted(e1.kw)] ELSE e1

PyEqT(a, b) == Canon(a) = Canon(b)
CanonSet(S) == { Canon(s) : s \in S }

\* ------------------------------------------------------------------------
\* Leaf classes Expr.tla has no shape for (NaN, the three wildcards,
\* FunctionSymbol) travel as constants whose "value" is the class tag, so that
\* Kids / FillFirst / SubExprs of Expr.tla treat them as leaves.
\* ------------------------------------------------------------------------
ExoticKinds == {"NaN", "Wildcard", "DotWildcard", "StarWildcard", "FunctionSymbol"}
XLeaf(k) == [t |-> "Const", v |-> (IF k \in {"DotWildcard", "StarWildcard"}
                                   THEN [k |-> k, name |-> "w"] ELSE [k |-> k])]
IsExotic(e) == e.t = "Const" /\ e.v.k \in ExoticKinds

\* ------------------------------------------------------------------------
\* Positions
\* ------------------------------------------------------------------------
RECURSIVE Paths(_), At(_, _)
Paths(e) == { << >> } \cup
            UNION { { << i >> \o p : p \in Paths(Kids(e)[i]) } : i \in 1..Len(Kids(e)) }
At(e, p) == IF p = << >> THEN e ELSE At(Kids(e)[p[1]], Tail(p))
Anc(e, p, k) == At(e, SubSeq(p, 1, k))          \* the ancestor at depth k (k < Len(p))

\* an omitted slice part is not a subexpression
NodePaths(e) == { p \in Paths(e) : At(e, p).t # "None" }
Nodes(e) == { At(e, p) : p \in NodePaths(e) }
KindsIn(e) == { n.t : n \in Nodes(e) }

\* ------------------------------------------------------------------------
\* Flags.  A *raw* setting is what the caller passes:
\*   [is, il : BOOLEAN, ic : "yes"|"no"|"args", ics : BOOLEAN, cl : "none"|"true"|"false"]
\* An *effective* setting is [subs, look : BOOLEAN, calls : "yes"|"no"|"args", cses].
\* Documentation of composite_leaves: "Setting this is equivalent to setting
\* all preceding include_* flags" (subscripts, lookups, calls - not cses).
\* ------------------------------------------------------------------------
B2(i) == i = 1
CallModes == << "yes", "no", "args" >>
ClModes == << "none", "true", "false" >>
NRaw == 72
RawOf(i) == LET j == i - 1 IN
    [is  |-> B2(j % 2), il |-> B2((j \div 2) % 2), ic |-> CallModes[((j \div 4) % 3) + 1],
     ics |-> B2((j \div 12) % 2), cl |-> ClModes[((j \div 24) % 3) + 1]]
RawSeq == [i \in 1..NRaw |-> RawOf(i)]

Effective(raw) ==
    IF raw.cl = "none" THEN [subs |-> raw.is, look |-> raw.il, calls |-> raw.ic, cses |-> raw.ics]
    ELSE [subs |-> raw.cl = "true", look |-> raw.cl = "true",
          calls |-> (IF raw.cl = "true" THEN "yes" ELSE "no"), cses |-> raw.ics]
AllOff == [subs |-> FALSE, look |-> FALSE, calls |-> "no", cses |-> FALSE]
\* the 24 effective settings are the raw settings 1..24 (composite_leaves = None)
NEff == 24
EffSeq == [j \in 1..NEff |-> Effective(RawSeq[j])]
EffIx == [i \in 1..NRaw |-> CHOOSE j \in 1..NEff : EffSeq[j] = Effective(RawSeq[i])]

\* ------------------------------------------------------------------------
\* M-layer: Deps
\* ------------------------------------------------------------------------
IsCallNode(n) == n.t \in {"Call", "CallKw"}
Selected(n, fl) == \/ n.t = "Sub" /\ fl.subs
                   \/ n.t = "Look" /\ fl.look
                   \/ IsCallNode(n) /\ fl.calls = "yes"
                   \/ n.t = "CSE" /\ fl.cses
\* position p is looked at: no proper ancestor is a selected composite (which
\* stands for everything beneath it), and p is not in the function part of a
\* call whose arguments only are descended into (Kids puts the function first)
Visible(e, fl, p) ==
    \A k \in 0..(Len(p) - 1) :
        LET n == Anc(e, p, k) IN
        /\ ~Selected(n, fl)
        /\ ~(IsCallNode(n) /\ fl.calls = "args" /\ p[k + 1] = 1)
Reported(n, fl) == n.t = "Var" \/ Selected(n, fl)
\* (P is the set of all positions of e, passed in so that it is computed once)
VisibleIn(e, fl, P) == { p \in P : Visible(e, fl, p) }
DepsIn(e, fl, P) == { At(e, p) : p \in { q \in VisibleIn(e, fl, P) : Reported(At(e, q), fl) } }
VisiblePaths(e, fl) == VisibleIn(e, fl, Paths(e))
Deps(e, fl) == DepsIn(e, fl, Paths(e))

\* kinds the stock analysis documents no handler for: reaching one is a refusal
DepsUnsupported == {"Subst", "Deriv"}
DepsRefusalIn(e, fl, P) == \E p \in VisibleIn(e, fl, P) : At(e, p).t \in DepsUnsupported
DepsRefusalPossible(e, fl) == DepsRefusalIn(e, fl, Paths(e))

Names0(e) == { d.name : d \in Deps(e, AllOff) }
Restrict(env, names) == [nm \in (DOMAIN env) \cap names |-> env[nm]]
IsUnknownVar(v) == IsErr(v) /\ v.e = "UnknownVariableError"

\* ------------------------------------------------------------------------
\* M-layer: NodeCount
\* ------------------------------------------------------------------------
NodeCount(e) == Cardinality(CanonSet(Nodes(e)))
NodeCountStrict(e) == Cardinality(Nodes(e))
\* "distinct" is read up to Python ==; when type-sensitive identity would give
\* another number (1 vs 1.0 vs True, reordered keyword mappings) the statement
\* does not single out one answer
NodeCountAmbiguous(e) == NodeCount(e) # NodeCountStrict(e)

\* ------------------------------------------------------------------------
\* M-layer: Flops.  One slot per elementary operation: an n-ary sum/product
\* performs n-1 of them (none when empty), quotient / floor division / power
\* one each; nothing else is an addition, multiplication, division or power.
\* Whether a remainder is a "division" the statement leaves open.
\* ------------------------------------------------------------------------
OpsAt(n) == CASE n.t \in {"Sum", "Product"} -> (IF Len(n.c) = 0 THEN 0 ELSE Len(n.c) - 1)
              [] n.t \in {"Quotient", "FloorDiv", "Power"} -> 1
              [] OTHER -> 0
Slots(e, P) == UNION { { << p, i >> : i \in 1..OpsAt(At(e, p)) } : p \in P }
Flops(e) == Cardinality(Slots(e, Paths(e)))
FlopsAmbiguous(e) == "Remainder" \in KindsIn(e)
\* kinds the flop counters document no handler for: reaching one is a refusal
FlopsUnsupported == {"Slice", "None", "Subst", "Deriv"}
FlopsRefusalPossible(e) == \E p \in Paths(e) : At(e, p).t \in FlopsUnsupported \/ IsExotic(At(e, p))

OutsideCSE(e, p) == \A k \in 0..(Len(p) - 1) : Anc(e, p, k).t # "CSE"
OuterFlops(e) == Cardinality(Slots(e, { p \in Paths(e) : OutsideCSE(e, p) }))
CSENodes(e) == { n \in Nodes(e) : n.t = "CSE" }
CSEFlops(e) ==
    OuterFlops(e)
    + Cardinality(UNION { { << cc, s >> : s \in Slots(cc.a, { p \in Paths(cc.a) : OutsideCSE(cc.a, p) }) }
                          : cc \in CanonSet(CSENodes(e)) })
CSEFlopsAmbiguous(e) == FlopsAmbiguous(e)
                        \/ Cardinality(CSENodes(e)) # Cardinality(CanonSet(CSENodes(e)))

\* ------------------------------------------------------------------------
\* A-layer: DependencyMapper.  Marker elements carry exceptions through the
\* unions exactly as an exception propagates through combine().
\* ------------------------------------------------------------------------
Unsupported == [t |-> "!Unsupported"]
ForeignNone == [t |-> "!ValueError"]
IsMarker(x) == x.t \in {"!Unsupported", "!ValueError"}

\* DependencyMapper.__init__
InitAttrs(raw) ==
    LET a == IF raw.cl = "false" THEN [is |-> FALSE, il |-> FALSE, ic |-> "no"]
             ELSE [is |-> raw.is, il |-> raw.il, ic |-> raw.ic]
        b == IF raw.cl = "true" THEN [is |-> TRUE, il |-> TRUE, ic |-> "yes"] ELSE a
    IN  [is |-> b.is, il |-> b.il, ic |-> b.ic, ics |-> raw.ics, bug |-> "none"]

Combine(sets) == UNION { sets[i] : i \in 1..Len(sets) }     \* reduce(operator.or_, values, set())

RECURSIVE DI(_, _)
DISeq(es, m) == [i \in 1..Len(es) |-> DI(es[i], m)]
DI(e, m) ==
    CASE e.t = "Var"   -> { e }                                   \* map_variable
      [] e.t = "Const" -> { }                                     \* Collector.map_constant
      [] e.t = "Call"  ->                                         \* map_call
            IF m.ic = "args" THEN (IF m.bug = "argsfn" THEN Combine(<< DI(e.f, m) >> \o DISeq(e.c, m))
                                   ELSE Combine(DISeq(e.c, m)))
            ELSE IF m.ic = "yes" THEN { e }
            ELSE Combine(<< DI(e.f, m) >> \o DISeq(e.c, m))       \* CombineMapper.map_call
      [] e.t = "CallKw" ->                                        \* map_call_with_kwargs
            LET kws == [i \in 1..Len(e.kw) |-> e.kw[i].e] IN
            IF m.ic = "args" THEN Combine(DISeq(e.c, m) \o DISeq(kws, m))
            ELSE IF m.ic = "yes" THEN { e }
            ELSE IF m.bug = "kwdrop" THEN Combine(<< DI(e.f, m) >> \o DISeq(e.c, m))
            ELSE Combine(<< DI(e.f, m) >> \o DISeq(e.c, m) \o DISeq(kws, m))
      [] e.t = "Look"  -> IF m.il THEN { e }                      \* map_lookup
                          ELSE IF m.bug = "lookup" THEN { } ELSE DI(e.a, m)
      [] e.t = "Sub"   -> IF m.is THEN { e }                      \* map_subscript
                          ELSE Combine(<< DI(e.a, m), DI(e.b, m) >>)
      [] e.t = "CSE"   -> IF m.ics THEN { e }                     \* .._uncached (cache: C09_Inst)
                          ELSE IF m.bug = "cseoff" THEN { } ELSE DI(e.a, m)
      [] e.t = "Slice" -> Combine(DISeq(SelectSeq(
                              IF m.bug = "slicestep" /\ Len(e.c) = 3 THEN SubSeq(e.c, 1, 2) ELSE e.c,
                              LAMBDA c : c.t # "None"), m))
      [] e.t \in NaryKinds \ {"Slice"} -> Combine(DISeq(e.c, m))  \* map_sum & aliases, map_list/tuple
      [] e.t \in BinKinds \ {"Sub"} -> Combine(<< DI(e.a, m), DI(e.b, m) >>)
      [] e.t \in UnKinds -> DI(e.a, m)
      [] e.t = "Cmp"   -> Combine(<< DI(e.a, m), DI(e.b, m) >>)
      [] e.t = "If"    -> Combine(<< DI(e.i, m), DI(e.th, m), DI(e.el, m) >>)
      [] e.t \in {"Subst", "Deriv"} -> { Unsupported }            \* no map_substitution/derivative
      [] e.t = "None"  -> { ForeignNone }                         \* map_foreign(None)
DepsImplB(e, raw, bug) == DI(e, [InitAttrs(raw) EXCEPT !.bug = bug])
DepsImpl(e, raw) == DepsImplB(e, raw, "none")

\* ------------------------------------------------------------------------
\* A-layer: NodeCountMapper = CachedWalkMapper + post_visit counter.
\* The memo key is (type(expr), expr): type-sensitive at the dispatched
\* object only, Python == below it.
\* ------------------------------------------------------------------------
TypeTag(e) == IF e.t = "Const" THEN e.v.k ELSE e.t
MemoKey(e) == << TypeTag(e), Canon(e) >>

\* children in the order WalkMapper's handlers recurse into them
WalkKids(e) ==
    CASE e.t = "Slice" ->
            LET n == Len(e.c)
                start == IF n > 0 THEN << e.c[1] >> ELSE << >>
                stop  == IF n = 1 THEN << e.c[1] >> ELSE IF n > 1 THEN << e.c[2] >> ELSE << >>
                step  == IF n = 3 THEN << e.c[3] >> ELSE << >>
            IN  SelectSeq(start \o stop \o step, LAMBDA c : c.t # "None")
      [] e.t \in {"LShift", "RShift"} -> << e.b, e.a >>
      [] OTHER -> Kids(e)

RECURSIVE NCWalk(_, _)
NCWalk(e, st) ==      \* st = [seen : set of memo keys, n : count, bad : BOOLEAN]
    IF e.t = "None" THEN [st EXCEPT !.bad = TRUE]
    ELSE IF MemoKey(e) \in st.seen /\ st.bug # "ncall" THEN st
    ELSE LET ks == WalkKids(e)
             RECURSIVE Go(_, _)
             Go(i, s) == IF i > Len(ks) THEN s ELSE Go(i + 1, NCWalk(ks[i], s))
             s1 == Go(1, st)
         IN  [s1 EXCEPT !.seen = @ \cup { MemoKey(e) }, !.n = @ + 1]
NCInit == [seen |-> {}, n |-> 0, bad |-> FALSE, bug |-> "none"]
NodeCountImplB(e, bug) == NCWalk(e, [NCInit EXCEPT !.bug = bug]).n
NodeCountImpl(e) == NodeCountImplB(e, "none")

\* ------------------------------------------------------------------------
\* A-layer: FlopCounterBase / FlopCounter / CSEAwareFlopCounter.
\* -1 stands for a raised exception (no handler for the node kind).
\* ------------------------------------------------------------------------
RECURSIVE FI(_, _)
\* st = [n : count so far, seen : set of canonical CSEs, bad : BOOLEAN]; aware = CSE-aware variant
FISeq(es, aware, st) ==
    LET RECURSIVE Go(_, _)
        Go(i, s) == IF i > Len(es) THEN s ELSE Go(i + 1, FI(es[i], [aware |-> aware, st |-> s]))
        \* (the seeded-bug switch travels in st.bug)
    IN Go(1, st)
FI(e, a) ==
    LET st == a.st aware == a.aware
        Add(k, s) == [s EXCEPT !.n = @ + k] IN
    CASE IsExotic(e) -> [st EXCEPT !.bad = TRUE]                  \* map_algebraic_leaf: NotImplementedError
      [] e.t \in {"Var", "Const"} -> st                           \* map_variable / map_constant: 0
      [] e.t \in {"Sum", "Product"} ->                            \* map_sum
            IF Len(e.c) > 0 THEN Add(IF st.bug = "flopn" THEN Len(e.c) ELSE Len(e.c) - 1,
                                     FISeq(e.c, aware, st)) ELSE st
      [] e.t \in {"Quotient", "FloorDiv", "Power"} -> Add(1, FISeq(<< e.a, e.b >>, aware, st))
      [] e.t = "CSE" ->
            IF aware THEN (IF Canon(e) \in st.seen /\ st.bug # "cseper" THEN st
                           ELSE FI(e.a, [aware |-> aware,
                                         st |-> [st EXCEPT !.seen = @ \cup { Canon(e) }]]))
            ELSE FI(e.a, a)                                       \* CombineMapper.map_common_subexpression
      [] e.t \in {"Slice", "None", "Subst", "Deriv"} -> [st EXCEPT !.bad = TRUE]
      [] OTHER -> FISeq(Kids(e), aware, st)                       \* CombineMapper: combine = sum
FIInit == [n |-> 0, seen |-> {}, bad |-> FALSE, bug |-> "none"]
FlopsImplB(e, bug) == LET s == FI(e, [aware |-> FALSE, st |-> [FIInit EXCEPT !.bug = bug]])
                      IN IF s.bad THEN -1 ELSE s.n
CSEFlopsImplB(e, bug) == LET s == FI(e, [aware |-> TRUE, st |-> [FIInit EXCEPT !.bug = bug]])
                         IN IF s.bad THEN -1 ELSE s.n
FlopsImpl(e) == FlopsImplB(e, "none")
CSEFlopsImpl(e) == CSEFlopsImplB(e, "none")

\* ------------------------------------------------------------------------
\* "A refines M" statements checked by TLC on every generated tree
\* ------------------------------------------------------------------------
\* __init__ (A) against the documented meaning of composite_leaves (M), all 72 raw settings
FlagInitAgree ==
    \A i \in 1..NRaw : LET m == InitAttrs(RawSeq[i]) f == Effective(RawSeq[i]) IN
        /\ m.is = f.subs /\ m.il = f.look /\ m.ic = f.calls /\ m.ics = f.cses
        /\ EffSeq[EffIx[i]] = f
\* the handlers against Deps, per effective setting
DepsImplRefinesB(e, bug) ==
    \A j \in 1..NEff :
        LET a == DepsImplB(e, RawSeq[j], bug) fl == EffSeq[j]
            refuses == \E x \in a : IsMarker(x)
        IN  /\ refuses <=> DepsRefusalPossible(e, fl)
            /\ ~refuses => a = Deps(e, fl)
NodeCountImplRefinesB(e, bug) ==
    NodeCountAmbiguous(e) \/ NodeCountImplB(e, bug) = NodeCount(e)
FlopsImplRefinesB(e, bug) ==
    LET f == FlopsImplB(e, bug) c == CSEFlopsImplB(e, bug) IN
    /\ f = -1 \/ f = Flops(e)
    /\ c = -1 \/ CSEFlopsAmbiguous(e) \/ c = CSEFlops(e)
    /\ (f = -1) <=> FlopsRefusalPossible(e)
    /\ (f = -1) <=> (c = -1)
DepsImplRefines(e) == DepsImplRefinesB(e, "none")
NodeCountImplRefines(e) == NodeCountImplRefinesB(e, "none")
FlopsImplRefines(e) == FlopsImplRefinesB(e, "none")

\* ---- negative controls: every seeded bug of the transcriptions must be refuted ----
NegBugs == {"kwdrop", "argsfn", "cseoff", "slicestep", "lookup", "ncall", "flopn", "cseper"}
NegTrees ==
    LET nx == V("x") ny == V("y") nf == V("f") nt == V("t") no == V("o") IN
    { Call(nf, << nx >>),
      CallKw(nf, << nx >>, << KwArg("k1", ny) >>),
      Look(no, "p"),
      N("Sum", << CSE0(N("Product", << nx, ny >>)), CSE0(N("Product", << nx, ny >>)) >>),
      B("Sub", nt, N("Slice", << nx, NoneE, ny >>)),
      N("Product", << N("Sum", << nx, ny >>), N("Sum", << nx, ny >>) >>) }
AllRefineB(e, bug) == /\ DepsImplRefinesB(e, bug)
                      /\ NodeCountImplRefinesB(e, bug)
                      /\ FlopsImplRefinesB(e, bug)
NegControls == /\ \A t \in NegTrees : AllRefineB(t, "none")
               /\ \A b \in NegBugs : \E t \in NegTrees : ~AllRefineB(t, b)

\* sanity laws of the oracle itself
OracleLaws(e) ==
    /\ NodeCount(e) <= NodeCountStrict(e)
    /\ NodeCountStrict(e) <= Cardinality(NodePaths(e))
    /\ CSEFlops(e) <= Flops(e)
    /\ (CSENodes(e) = {}) => CSEFlops(e) = Flops(e)
    \* every flag setting reports a subset-by-coverage of the variables: anything reported
    \* with all composite kinds off is a variable of the tree
    /\ \A d \in Deps(e, AllOff) : d.t = "Var"
    \* switching a composite kind on never loses a variable without a composite standing for it
    /\ \A i \in 1..NEff : LET fl == EffSeq[i] IN
          \A v \in Deps(e, AllOff) :
              fl.calls = "args" \/ v \in Deps(e, fl)
              \/ \E c \in Deps(e, fl) : c.t # "Var" /\ v \in Nodes(c)

\* the restricted-environment lemma: with only the reported variables bound no
\* subexpression's evaluation asks for a variable the full environment could have
\* supplied, and the value is unchanged
RestrictedEvalLemma(e, env) ==
    LET renv == Restrict(env, Names0(e)) IN
    /\ \A s \in Nodes(e) : LET v == Eval(s, renv) IN IsUnknownVar(v) => v.a \in Names0(e) \ DOMAIN env
    /\ Eval(e, renv) = Eval(e, env)
=============================================================================
