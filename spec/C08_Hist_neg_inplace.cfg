CONSTANT Merge = "inplace"
CONSTANT MaxOps = 2
CONSTANT NPairs = 4
CONSTANT NTrees = 2
CONSTANT NKw = 4
CONSTANT WithPut = FALSE
CONSTANT Filter = FALSE
CONSTANT Rand = FALSE
INIT Init
NEXT Next
INVARIANT NotBothBroken
CHECK_DEADLOCK FALSE
