CONSTANTS
  Tier = "neg"
  Mode = "exh"
  Bug = "WrapNested"
INIT Init
NEXT Next
INVARIANT TagModelMeetsProperty
CHECK_DEADLOCK FALSE
