------------------------------- MODULE C15_Gen -------------------------------
(* Stage (1) for C15: TLC enumerates (expression, target set) pairs and     *)
(* small integer affine systems, and checks the oracle on the model:        *)
(* Cramer's solution of every regular generated system satisfies it.        *)
EXTENDS C15_Impl, Json
CONSTANT Tier
VARIABLES tree, tgt, sys

a0 == B("Sub", V("a"), KI(0))
ff == V("f")
Leaves == { x, y, pp, a0, KI(0), KI(2), KI(-1), KI(3) }
D1 == { N("Sum", << x, y >>), N("Sum", << x, KI(1) >>), N("Product", << KI(2), x >>),
        N("Product", << pp, x >>), N("Product", << x, y >>), N("Product", << x, x >>),
        N("Product", << KI(2), pp, y >>), B("Quotient", x, KI(2)), B("Quotient", x, pp),
        B("Quotient", KI(1), x), B("Power", pp, KI(2)), B("Power", x, KI(2)), B("Power", KI(2), KI(3)),
        N("Product", << KI(3), a0 >>), N("Sum", << pp, KI(-1) >>), Call(ff, << x >>),
        N("Product", << N("Sum", << x, KI(1) >>), KI(2) >>),
        N("Product", << KI(2), N("Product", << KI(3), x >>) >>) }
HoleT(ty) == [t |-> "Hole", ty |-> ty]
A == HoleT("any")  L == HoleT("leaf")
D1Q == { N("Sum", << x, KI(1) >>), N("Product", << KI(2), x >>), N("Product", << pp, x >>),
         N("Product", << x, y >>), B("Quotient", x, KI(2)), B("Quotient", KI(1), x), B("Power", pp, KI(2)),
         B("Power", x, KI(2)), N("Product", << KI(3), a0 >>), Call(ff, << x >>) }
SkelQ == { N("Sum", << A, A >>), N("Product", << A, A >>), N("Product", << L, A, L >>),
           B("Quotient", A, A), B("Power", A, L), N("Sum", << N("Product", << A, L >>), A >>),
           N("Product", << N("Sum", << A, L >>), L >>), B("Quotient", N("Sum", << A, L >>), L) }
SkelT == { N("Sum", << A, A >>), N("Sum", << A, L, A >>), N("Product", << A, A >>), N("Product", << L, A, L >>),
           B("Quotient", A, A), B("Power", A, L), N("Sum", << N("Product", << A, A >>), A >>),
           N("Product", << N("Sum", << A, A >>), L >>), B("Quotient", N("Sum", << A, A >>), L) }
Skel == IF Tier = "quick" THEN SkelQ ELSE SkelT
PoolFor(ty) == CASE ty = "any" -> Leaves \cup (IF Tier = "quick" THEN D1Q ELSE D1)
                 [] ty = "leaf" -> IF Tier = "quick" THEN { x, KI(2) } ELSE { x, pp, KI(2), KI(-1) }
RECURSIVE FirstHoleTy(_)
FirstHoleTy(e) ==
    IF e.t = "Hole" THEN e.ty
    ELSE LET ks == Kids(e)
             RECURSIVE Go(_)
             Go(i) == IF i > Len(ks) THEN "" ELSE
                      LET r == FirstHoleTy(ks[i]) IN IF r # "" THEN r ELSE Go(i + 1)
         IN Go(1)

Unset == << "?" >>
\* << >> is the empty collection of target names (nothing is an unknown: the whole expression
\* is the constant term) - not to be confused with "ALL" (target_names=None)
Targets == IF Tier = "quick" THEN { << "x" >>, << "x", "y" >>, << "ALL" >>, << >> }
           ELSE { << "x" >>, << "y" >>, << "x", "y" >>, << "ALL" >>, << "p" >>, << >> }
NoSys == << >>
Coef == {-1, 0, 1, 2}
EqSet == IF Tier = "quick" THEN [a1 : Coef, a2 : {-1, 0, 1}, r1 : {0}, l : {0}, b : {0, 1}, c : {0, -3}]
         ELSE [a1 : Coef, a2 : Coef, r1 : {0}, l : {0}, b : {0, 1, 2}, c : {0, 1, -3}]
EqSetB == [a1 : {1, 2}, a2 : {0, 1}, r1 : {0, 1, 2}, l : {0, 1}, b : {0, 2}, c : {0, 1}]   \* unknowns / parameters on both sides

\* overdetermined systems: three equations for the two unknowns - consistent ones (the third follows
\* from the others) must be solved, inconsistent ones refused
EqO == [a1 : {0, 1, -1}, a2 : {0, 1}, r1 : {0}, l : {0}, b : {0, 1}, c : {0, 2}]
EqO1 == IF Tier = "quick" THEN { q \in EqO : q.b = 0 } ELSE EqO

Init == \/ /\ tree \in (Skel \cup Leaves \cup D1) /\ tgt = Unset /\ sys = NoSys
        \/ /\ tree = KI(0) /\ tgt = << "SYS3" >> /\ \E q \in EqO1 : sys = << q >>
        \* four equations, one of them a repetition of an earlier one: redundant rows before
        \* (and, in the thorough tier, after) a possibly contradicting one
        \/ /\ tree = KI(0) /\ tgt = << "SYS4" >> /\ \E q \in EqO1 : sys = << q >>
        \/ /\ tree = KI(0) /\ tgt = << "SYS" >>
           /\ \/ \E q \in EqSet : sys = << q >>
              \/ \E q \in EqSetB : sys = << q >>
Next == \/ /\ tgt = Unset /\ NHoles(tree) > 0
           /\ \E s \in PoolFor(FirstHoleTy(tree)) : tree' = FillFirst(tree, s)
           /\ UNCHANGED << tgt, sys >>
        \/ /\ tgt = Unset /\ NHoles(tree) = 0
           /\ tgt' \in Targets /\ UNCHANGED << tree, sys >>
        \/ /\ tgt = << "SYS" >> /\ Len(sys) = 1
           /\ \E q \in (IF sys[1] \in EqSet THEN EqSet ELSE EqSetB) : sys' = Append(sys, q)
           /\ UNCHANGED << tree, tgt >>
        \/ /\ tgt = << "SYS3" >> /\ Len(sys) < 3
           /\ \E q \in (IF Len(sys) = 1 THEN EqO1 ELSE EqO) : sys' = Append(sys, q)
           /\ UNCHANGED << tree, tgt >>
        \/ /\ tgt = << "SYS4" >> /\ Len(sys) = 1
           /\ \E q \in EqO1 : sys' = Append(sys, q)
           /\ UNCHANGED << tree, tgt >>
        \/ /\ tgt = << "SYS4" >> /\ Len(sys) = 2
           /\ \/ \E i \in 1..2 : \E q \in EqO : sys' = sys \o << sys[i], q >>
              \/ /\ Tier # "quick"
                 /\ \E q \in EqO : \E i \in 1..3 : sys' = sys \o << q, (sys \o << q >>)[i] >>
           /\ UNCHANGED << tree, tgt >>

\* oracle sanity on the model: Cramer's rule gives a solution that Satisfies
CramerOK ==
    (tgt = << "SYS" >> /\ Len(sys) = 2) =>
      LET q1 == sys[1] q2 == sys[2] d == Det2(q1, q2) IN
      d # 0 =>
        LET m11 == q1.a1 - q1.r1 m12 == q1.a2 m21 == q2.a1 - q2.r1 m22 == q2.a2
            bp1 == q1.b - q1.l bp2 == q2.b - q2.l
            \* x = ((bp1*p + c1)*m22 - m12*(bp2*p + c2)) / d, y likewise
            xs == B("Quotient", N("Sum", << N("Product", << KI(bp1 * m22 - m12 * bp2), pp >>),
                                            KI(q1.c * m22 - m12 * q2.c) >>), KI(d))
            ys == B("Quotient", N("Sum", << N("Product", << KI(m11 * bp2 - bp1 * m21), pp >>),
                                            KI(m11 * q2.c - q1.c * m21) >>), KI(d))
            sol == << [name |-> "x", e |-> xs], [name |-> "y", e |-> ys] >>
        IN \A i \in 1..2 : REq(NF(SubstVars(Lhs(sys[i]), sol)), NF(SubstVars(Rhs(sys[i]), sol))) = "EQ"

\* design-level check: the transcribed collector against the M-layer clauses (JudgeCoeffs)
CollectOnModel ==
    LET names == SeqToSet(tgt) all == tgt = << "ALL" >> IN
    IF ~Covered(tree, names, all) THEN "SKIP"
    ELSE JudgeCoeffs(tree, names, all, CollectImpl(tree, names, all))
PrintSys(par) ==
    PrintT(ToJson([kind |-> "solve", eqs |-> sys, par |-> par,
                   exprs |-> [i \in 1..Len(sys) |-> [lhs |-> InPar(Lhs(sys[i]), par), rhs |-> InPar(Rhs(sys[i]), par)]]]))
RECURSIVE SysSumFrom(_)
SysSumFrom(i) == IF i > Len(sys) THEN 0
                 ELSE LET q == sys[i] IN 100 + i * (q.a1 + 2 * q.a2 + 3 * q.r1 + 5 * q.l + 7 * q.b + q.c) + SysSumFrom(i + 1)
SysSum == SysSumFrom(1)
Emit ==
    /\ (tgt = << "SYS3" >> /\ Len(sys) = 3) => PrintSys(pp)
    /\ (tgt = << "SYS4" >> /\ Len(sys) = 4) => PrintSys(pp)
    /\ (tgt # Unset /\ tgt \notin { << "SYS" >>, << "SYS3" >>, << "SYS4" >> }) =>
          /\ PrintT(ToJson([kind |-> "coeff", e |-> tree, tgt |-> tgt]))
          /\ (CollectOnModel \in {"OK", "SKIP"}
              \/ PrintT(ToJson([design |-> CollectOnModel, de |-> tree, dtgt |-> tgt])))
    /\ (tgt = << "SYS" >> /\ Len(sys) \in (IF Tier = "quick" THEN {2} ELSE {1, 2})) =>
           /\ PrintSys(pp)
           \* where the parameter occurs, the system once more with another form of parameter
           \* (rotating through ParForms with the system's coefficients)
           /\ (\E i \in 1..Len(sys) : sys[i].l # 0 \/ sys[i].b # 0) =>
                 PrintSys(ParForms[2 + (SysSum % (Len(ParForms) - 1))])
=============================================================================
