CONSTANT Tier = "sim"
CONSTANT Buggy = ""
INIT Init
NEXT Next
INVARIANT TypeOK
INVARIANT NamesUnique
INVARIANT DefinedBeforeUse
INVARIANT OncePerChild
INVARIANT PrefixCollisionFree
INVARIANT ReferencesRight
INVARIANT HoistAllowed
INVARIANT AllAssignedAtReturn
INVARIANT Emit
CHECK_DEADLOCK FALSE
