CONSTANTS
  OptPoolSel = "fb"
  OptArgSel = "three"
  MaxLen = 2
  Steps = 1
  ClassSel = "args"
  FirstSel = "four"
  CollectMode = "bound"
  FbMode = "faithful"
  InlineHit = "identity"
INIT Init
NEXT Next
INVARIANT Explained
INVARIANT ShippedUsageFine
INVARIANT Emit
CHECK_DEADLOCK FALSE
