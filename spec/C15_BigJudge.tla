----------------------------- MODULE C15_BigJudge -----------------------------
(* Stage (3) for the large-value systems of C15: every recorded solver result is judged by    *)
(* exact BigNum evaluation of both sides of every equation (C15_Big.tla).                      *)
EXTENDS C15_Big, IOUtils
VARIABLES blk, off
Recs == ndJsonDeserialize(IOEnv.TRACE_FILE)
BS == 16
NB == (Len(Recs) + BS - 1) \div BS
JInit == blk \in 0..(NB - 1) /\ off = 0 /\ sys = << >>
JNext == off < BS - 1 /\ off' = off + 1 /\ UNCHANGED << blk, sys >>
Idx == blk * BS + off + 1
Report ==
    Idx <= Len(Recs) =>
      LET rec == Recs[Idx] v == JudgeBigSolve(rec) IN
      v = "OK" \/ PrintT(ToJson([id |-> rec.id, v |-> v]))
=============================================================================
