CONSTANT KeyMode = "value"
CONSTANT MaxOps = 6
INIT Init
NEXT Next
INVARIANT EveryEvaluationIsTheMeaning
INVARIANT CacheCoherent
INVARIANT Emit
CHECK_DEADLOCK FALSE
