---------------------------- MODULE C04_Dispatch ----------------------------
(***************************************************************************)
(* C04, first half: which handler a mapper runs for an object.             *)
(*                                                                         *)
(* M-layer (written from the statement of C04 and the documentation of     *)
(* Mapper / expr_dataclass, not from the code):                            *)
(*   - a class has an *effective handler name*: the one it sets itself,    *)
(*     else - when it is declared with the dataclass decorator - the name  *)
(*     derived from its class name (CamelCase -> map_snake_case; an        *)
(*     inherited name counts as unset), else the one it inherits;          *)
(*   - Dispatch: the handler named by the node's class if the mapper       *)
(*     implements it, else the handler of the nearest ancestor class that  *)
(*     the mapper implements, else the unsupported-expression hook;        *)
(*   - objects that are not expressions: numbers / arrays / lists /        *)
(*     tuples go to map_constant / map_numpy_array / map_list / map_tuple, *)
(*     objects that carry a handler name themselves (MultiVector) go to    *)
(*     that handler when the mapper has it, anything else is an error.     *)
(*                                                                         *)
(* A-layer: DispatchImpl transcribes Mapper.__call__ / rec_fallback with   *)
(* Python's attribute lookup (class __dict__ + MRO); C04_DGen lets TLC     *)
(* check DispatchImpl = Dispatch on every generated hierarchy.             *)
(*                                                                         *)
(* Class names are sequences of one-character strings (TLC cannot index    *)
(* into strings); Join turns them back into strings.                       *)
(***************************************************************************)
EXTENDS Integers, Sequences, FiniteSets, TLC

\* ------------------------------------------------------------ characters
UpperSeq == << "A","B","C","D","E","F","G","H","I","J","K","L","M",
               "N","O","P","Q","R","S","T","U","V","W","X","Y","Z" >>
LowerSeq == << "a","b","c","d","e","f","g","h","i","j","k","l","m",
               "n","o","p","q","r","s","t","u","v","w","x","y","z" >>
IsUpper(ch) == \E i \in 1..26 : UpperSeq[i] = ch
IsLower(ch) == \E i \in 1..26 : LowerSeq[i] = ch
IsDigit(ch) == ch \in {"0","1","2","3","4","5","6","7","8","9"}
ToLower(ch) == IF IsUpper(ch) THEN LowerSeq[CHOOSE i \in 1..26 : UpperSeq[i] = ch] ELSE ch

Join(s) == LET RECURSIVE Go(_) Go(i) == IF i > Len(s) THEN "" ELSE s[i] \o Go(i + 1) IN Go(1)

\* --------------------------------------------- CamelCase -> snake_case
\* A word starts at position i > 1 when an upper-case letter follows a lower-case
\* letter ("fooBar" -> foo|Bar) or ends a run of capitals that is followed by a
\* lower-case letter ("HTTPNode" -> HTTP|Node).  Digits and underscores never
\* start a word and never end one.
WordStartsAt(s, i) ==
    /\ i > 1 /\ IsUpper(s[i])
    /\ \/ IsLower(s[i - 1])
       \/ IsUpper(s[i - 1]) /\ i < Len(s) /\ IsLower(s[i + 1])
Snake(s) ==
    LET RECURSIVE Go(_)
        Go(i) == IF i > Len(s) THEN << >>
                 ELSE (IF WordStartsAt(s, i) THEN << "_" >> ELSE << >>)
                      \o << ToLower(s[i]) >> \o Go(i + 1)
    IN Go(1)
DerivedHandler(name) == "map_" \o Join(Snake(name))

\* a Python identifier (the class statement needs one)
IsIdent(s) == Len(s) > 0 /\ ~IsDigit(s[1])

\* ---------------------------------------------------------------- classes
\* A class: [name: char sequence, deco: declared with @expr_dataclass,
\*           own: handler name it sets itself, "" when it sets none]
Cls(name, deco, own) == [name |-> name, deco |-> deco, own |-> own]
B_AlgebraicLeaf == Cls(<< "A","l","g","e","b","r","a","i","c","L","e","a","f" >>, TRUE, "")
B_Leaf          == Cls(<< "L","e","a","f" >>, TRUE, "")
B_Variable      == Cls(<< "V","a","r","i","a","b","l","e" >>, TRUE, "")
B_Sum           == Cls(<< "S","u","m" >>, TRUE, "")
B_CSE           == Cls(<< "C","o","m","m","o","n","S","u","b","e","x","p","r","e","s","s","i","o","n" >>, TRUE, "")
B_Call          == Cls(<< "C","a","l","l" >>, TRUE, "")
\* (AlgebraicLeaf and Leaf are abstract: no stock node is a direct instance, user node types are
\* rooted there as well as at Expression or at a concrete node class)
Bases == {"Expression", "AlgebraicLeaf", "Leaf", "Variable", "Sum", "CommonSubexpression", "Call"}
\* the documented ancestry of the built-in bases, root-most first (Expression itself,
\* which sets no handler name, is below position 1)
BuiltinLineage(base) ==
    CASE base = "Expression"          -> << >>
      [] base = "AlgebraicLeaf"       -> << B_AlgebraicLeaf >>
      [] base = "Leaf"                -> << B_AlgebraicLeaf, B_Leaf >>
      [] base = "Variable"            -> << B_AlgebraicLeaf, B_Leaf, B_Variable >>
      [] base = "Sum"                 -> << B_Sum >>
      [] base = "CommonSubexpression" -> << B_CSE >>
      [] base = "Call"                -> << B_AlgebraicLeaf, B_Call >>
\* a user hierarchy: [base, chain]; chain[1] derives from base, chain[i+1] from chain[i];
\* the object dispatched is an instance of the last class
Lineage(h) == BuiltinLineage(h.base) \o h.chain

\* effective handler name of class i of lineage L ("" = none)
RECURSIVE EffName(_, _)
EffName(L, i) ==
    IF i = 0 THEN ""
    ELSE IF L[i].own # "" THEN L[i].own
    ELSE IF L[i].deco THEN DerivedHandler(L[i].name)
    ELSE EffName(L, i - 1)
\* handler names along the method resolution order, the object's own class first
\* (built as an explicit tuple: TLC would re-evaluate a function expression at every use)
MRONames(L) == LET RECURSIVE Go(_)
                   Go(i) == IF i = 0 THEN << >> ELSE << EffName(L, i) >> \o Go(i - 1)
               IN Go(Len(L))

\* ---------------------------------------------------------------- dispatch
FirstImplemented(names, Impl, start) ==
    LET RECURSIVE Go(_)
        Go(k) == IF k > Len(names) THEN "unsupported"
                 ELSE IF names[k] # "" /\ names[k] \in Impl THEN names[k] ELSE Go(k + 1)
    IN Go(start)
Dispatch(L, Impl)    == FirstImplemented(MRONames(L), Impl, 1)
\* rec_fallback: the same search with the object's own class left out
RecFallback(L, Impl) == FirstImplemented(MRONames(L), Impl, 2)

\* ---------------------------------------------------------------- foreign objects
ForeignKinds == {"int", "negint", "float", "complex", "bool", "npint", "npfloat", "npbool",
                 "npcomplex", "intsub", "nparray", "nparray0d", "nparrayobj", "nparray2d",
                 "list", "emptylist", "listsub", "tuple", "emptytuple", "namedtuple",
                 "str", "bytes", "none", "dict", "set", "object", "function", "range",
                 "fraction", "decimal", "mv"}
Category(kind) ==
    CASE kind \in {"int", "negint", "float", "complex", "bool", "npint", "npfloat", "npbool",
                   "npcomplex", "intsub"}                          -> "number"
      [] kind \in {"nparray", "nparray0d", "nparrayobj", "nparray2d"} -> "array"
      [] kind \in {"list", "emptylist", "listsub"}                 -> "list"
      [] kind \in {"tuple", "emptytuple", "namedtuple"}            -> "tuple"
      [] kind \in {"fraction", "decimal"}                          -> "other-number"
      [] kind = "mv"                                               -> "carries-handler"
      [] OTHER                                                     -> "other"
\* reg: the number class was announced with register_constant_class
ForeignRoute(kind, reg) ==
    CASE Category(kind) = "number" -> "map_constant"
      [] Category(kind) = "array"  -> "map_numpy_array"
      [] Category(kind) = "list"   -> "map_list"
      [] Category(kind) = "tuple"  -> "map_tuple"
      \* a number of a class pymbolic was not told about: the statement does not say
      [] Category(kind) = "other-number" -> IF reg THEN "map_constant" ELSE "SKIP"
      [] OTHER -> "error"
OwnHandlerOfForeign(kind) == IF kind = "mv" THEN "map_multivector" ELSE ""
DispatchForeign(kind, reg, Impl) ==
    LET own == OwnHandlerOfForeign(kind) IN
    IF own # "" /\ own \in Impl THEN own ELSE ForeignRoute(kind, reg)
RecFallbackForeign(kind, reg, Impl) == ForeignRoute(kind, reg)

\* one entry point for both kinds of object; mode \in {"call", "fallback"}
Target(obj, Impl, mode) ==
    IF obj.ty = "user"
    THEN IF mode = "call" THEN Dispatch(Lineage(obj), Impl) ELSE RecFallback(Lineage(obj), Impl)
    ELSE IF mode = "call" THEN DispatchForeign(obj.kind, obj.reg, Impl)
         ELSE RecFallbackForeign(obj.kind, obj.reg, Impl)

\* ---------------------------------------------------------------- A-layer
\* Python attribute lookup on classes: the decorator *assigns* the derived name into the
\* class dict unless the class body already has one; getattr walks the MRO.
InClassDict(L, i) == L[i].own # "" \/ L[i].deco
DictValue(L, i)   == IF L[i].own # "" THEN L[i].own ELSE DerivedHandler(L[i].name)
RECURSIVE GetAttr(_, _)
GetAttr(L, i) == IF i = 0 THEN "" ELSE IF InClassDict(L, i) THEN DictValue(L, i) ELSE GetAttr(L, i - 1)
\* Mapper.rec_fallback: for cls in type(expr).__mro__[1:] ...
FallbackImpl(L, Impl) ==
    LET RECURSIVE Go(_)
        Go(i) == IF i < 1 THEN "unsupported"
                 ELSE LET nm == GetAttr(L, i) IN
                      IF nm # "" /\ nm \in Impl THEN nm ELSE Go(i - 1)
    IN Go(Len(L) - 1)
\* Mapper.__call__: getattr(expr, "mapper_method") first, then the fallback loop
DispatchImpl(L, Impl) ==
    LET nm == GetAttr(L, Len(L)) IN
    IF nm # "" /\ nm \in Impl THEN nm ELSE FallbackImpl(L, Impl)

\* ---------------------------------------------------------------- what the handler does (round 5)
\* What a handler DOES is an input of dispatch: it returns a value, or it raises an exception of
\* some class - among them the classes a dispatcher may use itself while it looks the handler up
\* (AttributeError: attribute lookup; KeyError / TypeError: a cache; ValueError: the rejection of
\* foreign objects; UnsupportedExpressionError / NotImplementedError: the hook and the stubs of
\* the base class), user classes derived from those, and an unrelated user class.
Excs == {"AttributeError", "UserAttributeError", "KeyError", "TypeError", "ValueError",
         "NotImplementedError", "UnsupportedExpressionError", "UserError"}
Outcomes == {"return"} \cup Excs
\* Python's exception hierarchy, as far as a handler of the dispatcher could tell the classes apart
ExcIsA(e, c) == e = c \/ (e = "UserAttributeError" /\ c = "AttributeError")
                      \/ (e = "UnsupportedExpressionError" /\ c = "ValueError")
\* an outcome assignment: handler `who` ("*" = every handler of the user, "unsupported" = the hook
\* when the user overrides it) has outcome `exc`, every other handler returns
HookName == "unsupported"
OcAll == [who |-> "*", exc |-> "return"]
OcOf(oc, h) == IF oc.who \in {"*", h} THEN oc.exc ELSE "return"

\* M-layer, from the statement: applying the mapper "invokes the handler named by the node's class,
\* else ... the nearest ancestor ..., else the hook": exactly ONE handler runs, once, and what it
\* does - the value it returns or the exception it raises - is what the application does.
Applied(target, oc) == [seq |-> << target >>, out |-> OcOf(oc, target)]

\* A-layer: Mapper.__call__ as a run: lookup (getattr with a default), then the call OUTSIDE any
\* exception handler; eafp = the design error "try: getattr(self, expr.mapper_method)(expr, ..)
\* except AttributeError: fall through", where the handler's own exception is taken for a failed
\* lookup and the fallback search runs as well.
RunImpl(L, Impl, oc, eafp) ==
    LET nm == GetAttr(L, Len(L))
        fb == FallbackImpl(L, Impl)
    IN IF nm # "" /\ nm \in Impl
       THEN IF eafp /\ ExcIsA(OcOf(oc, nm), "AttributeError")
            THEN [seq |-> << nm, fb >>, out |-> OcOf(oc, fb)]
            ELSE [seq |-> << nm >>, out |-> OcOf(oc, nm)]
       ELSE [seq |-> << fb >>, out |-> OcOf(oc, fb)]
FallbackRunImpl(L, Impl, oc) == LET fb == FallbackImpl(L, Impl) IN [seq |-> << fb >>, out |-> OcOf(oc, fb)]
\* foreign objects: an object that carries a handler name is looked up the same way, then map_foreign
ForeignRunImpl(kind, reg, Impl, oc, eafp) ==
    LET own == OwnHandlerOfForeign(kind)
        fb == ForeignRoute(kind, reg)
    IN IF own # "" /\ own \in Impl
       THEN IF eafp /\ ExcIsA(OcOf(oc, own), "AttributeError")
            THEN [seq |-> << own, fb >>, out |-> OcOf(oc, fb)]
            ELSE [seq |-> << own >>, out |-> OcOf(oc, own)]
       ELSE [seq |-> << fb >>, out |-> OcOf(oc, fb)]

\* ---------------------------------------------------------------- runs
\* the runs every case is put through: entry point x extra arguments x hook overridden
AP0 == [a |-> << >>, k |-> << >>]
AP1 == [a |-> << 1 >>, k |-> << >>]
AP2 == [a |-> << 1, 2 >>, k |-> << [k |-> "tag", v |-> 7] >>]
Runs == << [mode |-> "call", ap |-> AP0, hookret |-> FALSE], [mode |-> "call", ap |-> AP1, hookret |-> FALSE],
           [mode |-> "call", ap |-> AP2, hookret |-> TRUE],
           [mode |-> "ccall", ap |-> AP0, hookret |-> TRUE], [mode |-> "ccall", ap |-> AP2, hookret |-> FALSE],
           [mode |-> "fallback", ap |-> AP2, hookret |-> FALSE], [mode |-> "fallback", ap |-> AP0, hookret |-> TRUE],
           [mode |-> "cfallback", ap |-> AP1, hookret |-> FALSE] >>

\* histories of dispatches on ONE mapper instance (round 7, C04_DHist / C04_DHJudge):
\* extra arguments by position in the history - all different, so that a memoising mapper's
\* result cache (C04_Hist) is never consulted - and how a history is replayed:
\* mapper class x entry point by position x hook overridden
HArgs == << AP0, AP1, AP2 >>
HRuns == << [mapper |-> "plain", pat |-> << "call", "call", "call" >>, hookret |-> FALSE],
            [mapper |-> "plain", pat |-> << "fallback", "call", "call" >>, hookret |-> TRUE],
            [mapper |-> "plain", pat |-> << "call", "fallback", "call" >>, hookret |-> FALSE],
            [mapper |-> "cached", pat |-> << "call", "call", "call" >>, hookret |-> TRUE] >>

\* ---------------------------------------------------------------- judging one observation
\* o: [first: name of the first handler that ran ("" none), a, k: the extra arguments it
\*     received, n: how many handler invocations were logged, seq: their names in order,
\*     res: token returned ("" none), exc: exception class ("" none), same: the exception that
\*     came out is the very object the handler raised]
\* user handlers do what the case's outcome assignment oc says: return the token "ret:" \o name or
\* raise an exception of the named class; the hook is either left alone (raises) or overridden
\* (hookret) and then does what oc says for it, returning "ret:hook".
\* A handler of the user that is the target must be the ONLY handler that runs (clause
\* "extra-handler") and its outcome must come out unchanged (clauses "result" / "outcome").
OutcomeWhy(want, token, o) ==
    IF want = "return" THEN (IF o.res = token /\ o.exc = "" THEN "OK" ELSE "result")
    ELSE IF o.exc = want /\ o.res = "" /\ o.same THEN "OK" ELSE "outcome"
JudgeObs(target, o, args, kw, userImpl, hookret, oc) ==
    IF target = "SKIP" THEN "SKIP"
    ELSE IF target = "error"
         THEN (IF o.first # "" THEN "foreign-handled" ELSE IF o.exc = "" THEN "foreign-accepted" ELSE "OK")
    ELSE IF target = "unsupported"
         THEN (IF o.first # "handle_unsupported_expression" THEN "handler"
               ELSE IF o.a # args \/ o.k # kw THEN "args"
               ELSE IF hookret THEN (IF o.n # 1 THEN "extra-handler"
                                     ELSE OutcomeWhy(OcOf(oc, HookName), "ret:hook", o))
               ELSE IF o.exc \in {"UnsupportedExpressionError", "NotImplementedError"} THEN "OK"
               ELSE "silent")
    ELSE IF o.first # target THEN "handler"
    ELSE IF o.a # args \/ o.k # kw THEN "args"
    ELSE IF target \in userImpl
         THEN (IF o.n # 1 THEN "extra-handler" ELSE OutcomeWhy(OcOf(oc, target), "ret:" \o target, o))
    ELSE "OK"   \* a stub of the base class ran: what it does next is its own business
=============================================================================
