------------------------------- MODULE C13_Gen -------------------------------
(***************************************************************************)
(* Stage (1) for C13: TLC enumerates (tree, listed-variable tuple) pairs   *)
(* over the Python-expressible fragment and prints them for the driver.    *)
(* Logical operators only get boolean-valued operands (well-typedness:     *)
(* Python's and/or return an operand, pymbolic's evaluator a bool).        *)
(***************************************************************************)
EXTENDS C02_Env, C06_Stringify, C07_PyGrammar, Json
CONSTANT Tier
VARIABLES tree, listed

x == V("x")  y == V("y")  z == V("z")  bb == V("b")
ff == V("f") gg == V("g") tt == V("t") oo == V("o")

NumLeaves  == { x, y, z, V("Y"), KI(0), KI(2), KI(-1), K(FltV(3, 2)), K(FltV(-1, 2)) }
BoolLeaves == { bb, K(BoolV(TRUE)) }
Conds == BoolLeaves \cup { Cmp(x, "<", y), Cmp(x, "==", z), U("LogNot", bb),
                           N("LogAnd", << bb, Cmp(y, ">=", KI(0)) >>) }
D1Quick == {
  N("Sum", << x, y >>), N("Product", << KI(2), x >>), N("Sum", << x, KI(-1) >>),
  N("Product", << KI(-1), x >>), B("Quotient", x, y), B("FloorDiv", x, y),
  B("Remainder", x, KI(2)), B("Power", x, KI(2)), B("Power", KI(2), z), B("LShift", x, KI(1)),
  B("RShift", x, KI(1)), U("BitNot", x), N("BitXor", << x, z >>), N("BitOr", << x, y >>),
  N("BitAnd", << x, KI(-1) >>), IfE(bb, x, y), Call(ff, << x >>),
  CallKw(gg, << x >>, << KwArg("k2", y) >>), B("Sub", tt, KI(1)), Look(oo, "p") }
D1More == {
  N("Sum", << x, y, z >>), N("Product", << x, y, z >>), B("Quotient", x, KI(2)), B("Remainder", x, y),
  B("Power", x, y), B("RShift", x, y), Call(gg, << x, y >>),
  CallKw(ff, << >>, << KwArg("k2", x), KwArg("k1", y) >>), B("Sub", tt, x), Look(oo, "q"),
  N("Tup", << x, y >>), IfE(Cmp(z, "==", KI(0)), KI(2), B("Quotient", x, z)) }
D1 == IF Tier = "quick" THEN D1Quick ELSE D1Quick \cup D1More

HoleT(ty) == [t |-> "Hole", ty |-> ty]
A == HoleT("any")  L == HoleT("leaf")  Cn == HoleT("cond")
PoolFor(ty) ==
    CASE ty = "any"  -> NumLeaves \cup D1
      [] ty = "leaf" -> { x, y, KI(2), KI(-1) }
      [] ty = "cond" -> Conds

RECURSIVE FirstHoleTy(_)
FirstHoleTy(e) ==
    IF e.t = "Hole" THEN e.ty
    ELSE LET ks == Kids(e)
             RECURSIVE Go(_)
             Go(i) == IF i > Len(ks) THEN "" ELSE
                      LET r == FirstHoleTy(ks[i]) IN IF r # "" THEN r ELSE Go(i + 1)
         IN Go(1)

BinRootKinds == {"Quotient", "FloorDiv", "Remainder", "Power", "LShift", "RShift"}
NaryNum == {"Sum", "Product", "BitOr", "BitXor", "BitAnd"}
Roots ==
       { B(k, A, A) : k \in BinRootKinds }
  \cup { Cmp(A, op, A) : op \in {"<", "=="} } \cup { Cmp(L, op, A) : op \in {"!=", "<=", ">", ">="} }
  \cup { N(k, << A, A >>) : k \in NaryNum } \cup { N(k, << L, A, L >>) : k \in NaryNum }
  \cup { N(k, << Cn, Cn >>) : k \in {"LogOr", "LogAnd"} } \cup { N("LogOr", << Cn, Cn, Cn >>) }
  \cup { U("BitNot", A), U("LogNot", Cn) }
  \cup { IfE(Cn, A, L), IfE(Cn, L, A) }
  \cup { Call(ff, << >>), Call(ff, << A >>), Call(gg, << A, L >>),
         CallKw(ff, << A >>, << KwArg("k1", A) >>),
         CallKw(gg, << >>, << KwArg("k2", A), KwArg("k1", L) >>),
         B("Sub", tt, A), B("Sub", tt, N("Tup", << KI(0) >>)), Look(oo, "p"), Look(oo, "q") }
  \cup { N("Tup", << A, L >>), N("Tup", << A >>) }
  \cup NumLeaves \cup BoolLeaves
  \* degenerate arities are legal trees (the evaluator and every mapper accept them): a sum or a
  \* product of ONE operand in every operand position - no operator is written for it, but the
  \* grouping of what is inside must survive
  \cup UNION { { w, B("Power", w, L), B("Power", L, w), U("BitNot", w), N("Product", << L, w >>),
                 N("Product", << w, L >>), B("Quotient", L, w), B("Remainder", w, L), N("Sum", << L, w >>),
                 B("LShift", w, L), Cmp(w, "<", L) }
               : w \in { N("Product", << A >>), N("Sum", << A >>) } }
  \* comparisons and 'not' as operands: Python chains a < b < c and reads 'not' below comparisons
  \* and arithmetic, so the generated text needs parentheses the pymbolic syntax does not
  \cup { Cmp(Cmp(x, "<", y), "<", z), Cmp(x, "<", Cmp(y, "<", z)), Cmp(Cmp(x, "==", y), "!=", bb),
         Cmp(U("LogNot", bb), "<", x), N("Sum", << U("LogNot", bb), x >>),
         N("Product", << KI(2), U("LogNot", bb) >>), U("BitNot", U("LogNot", bb)),
         IfE(Cmp(Cmp(x, "<", y), "==", bb), x, y) }
  \* mixed-case names (ASCII order puts upper case first) and long n-ary nodes
  \cup { N("Sum", << V("N"), N("Product", << KI(10), V("a0") >>), A >>) }
  \cup { N(k, << x, y, z, KI(2), V("Y"), x, y, KI(-1), z >>) : k \in {"Sum", "Product", "BitXor"} }
  \cup { N("Sum", << x, y, z, KI(2), V("Y"), x, y, KI(-1), z, KI(3), y >>),
         N("Sum", << x, y, z, KI(2), V("Y"), x, y, KI(-1), z, KI(3), y, x, KI(5) >>) }

\* twin subtrees: two siblings of one kind that differ in ONE constant only - constants that a
\* careless identification confuses (hash(-1) = hash(-2) in CPython; 2 == 2.0 with equal hashes)
TwinPairs == { << KI(-1), KI(-2) >>, << KI(-2), KI(-1) >>, << KI(2), K(FltV(2, 1)) >>, << K(FltV(2, 1)), KI(2) >> }
TwinCtx(i, c) ==
    CASE i = 1 -> B("Power", x, c)            [] i = 2 -> N("Product", << c, y >>)
      [] i = 3 -> N("Sum", << x, c >>)        [] i = 4 -> B("FloorDiv", y, c)
      [] i = 5 -> Call(ff, << c >>)           [] i = 6 -> B("Quotient", x, N("Sum", << y, c >>))
Twins == UNION { { N("Sum", << TwinCtx(i, pr[1]), TwinCtx(i, pr[2]) >>),
                   N("Tup", << TwinCtx(i, pr[1]), TwinCtx(i, pr[2]) >>),
                   B("Quotient", TwinCtx(i, pr[1]), TwinCtx(i, pr[2])),
                   Call(gg, << TwinCtx(i, pr[1]), TwinCtx(i, pr[2]) >>) }
                 : i \in 1..6, pr \in TwinPairs }

\* multiplicative nodes whose text begins and ends with a parenthesis although the node as a whole is
\* not parenthesised - (x + y) // (y + 2) - as operands of another multiplicative node, where the
\* grouping decides the value
ParenEdge == { N("Sum", << x, y >>), N("Sum", << y, KI(2) >>), KI(-1), B("LShift", x, KI(1)) }
MulKinds == {"Quotient", "FloorDiv", "Remainder"}
Edged == { B(k, s1, s2) : k \in MulKinds, s1 \in ParenEdge, s2 \in ParenEdge }
         \cup { N("Product", << s1, s2 >>) : s1 \in ParenEdge, s2 \in ParenEdge }
EdgedRoots == UNION { { N("Product", << z, m >>), N("Product", << m, z >>) }
                      \cup { B(k, z, m) : k \in MulKinds } \cup { B(k, m, z) : k \in MulKinds } : m \in Edged }

\* a node directly below a node of its own kind (first and last operand) while the SAME inner node
\* also occurs elsewhere in the tree: what is generated for the shared inner node must not be
\* changed by generating the outer one
\* (conditions every translation path supports: the to-AST path documents comparisons as unsupported)
CondsS == { bb, U("LogNot", bb), K(BoolV(FALSE)), K(BoolV(TRUE)) }
SelfNest ==
  UNION { { N("Sum", << N("Product", << KI(100), IfE(N(k, << c1, c2 >>), x, y) >>),
                        IfE(N(k, << N(k, << c1, c2 >>), c3 >>), KI(1), KI(2)) >>),
            N("Sum", << IfE(N(k, << c3, N(k, << c1, c2 >>) >>), KI(1), KI(2)),
                        N("Product", << KI(100), IfE(N(k, << c1, c2 >>), x, y) >>) >>),
            N("Tup", << IfE(N(k, << N(k, << c1, c2 >>), c3 >>), x, y), IfE(N(k, << c1, c2 >>), x, y) >>) }
          : k \in {"LogOr", "LogAnd"}, c1 \in CondsS, c2 \in CondsS, c3 \in CondsS }
  \cup UNION { { N("Tup", << N(k, << N(k, << x, y >>), z >>), N(k, << x, y >>) >>),
                  N("Tup", << N(k, << x, y >>), N(k, << z, N(k, << x, y >>) >>) >>),
                  N("Sum", << N("Product", << KI(7), N(k, << N(k, << x, y >>), KI(2) >>) >>), N(k, << x, y >>) >>) }
                : k \in {"Sum", "Product", "BitOr", "BitXor", "BitAnd"} }

Unset == << "?" >>
Listings == { << >>, << "x" >>, << "y" >>, << "w" >>, << "x", "y" >>, << "y", "x" >>,
              << "w", "x" >>, << "z", "w" >> }
ListingsQ == { << >>, << "y" >>, << "y", "x" >>, << "w", "x" >> }

Init == tree \in (Roots \cup Twins \cup EdgedRoots \cup SelfNest) /\ listed = Unset
Next == \/ /\ NHoles(tree) > 0
           /\ \E s \in PoolFor(FirstHoleTy(tree)) : tree' = FillFirst(tree, s)
           /\ UNCHANGED listed
        \/ /\ NHoles(tree) = 0 /\ listed = Unset
           /\ listed' \in (IF Tier = "quick" THEN ListingsQ ELSE Listings)
           /\ UNCHANGED tree
Complete == NHoles(tree) = 0 /\ listed # Unset
\* design-level check of the compile path: the printer's text (C06_Stringify; the compile
\* mapper differs from it only in using repr for constants), read with PYTHON's grammar
\* (C07_PyGrammar), must mean what the tree means in every environment of the box
SourceMeansTree(e) ==
    LET toks == StringifyPy(e) IN
    IF ~Printable(toks) THEN "SKIP"
    ELSE LET r == PyParse(toks) IN
         IF ~r.ok THEN "generated-source-is-not-python"
         ELSE IF \A i \in 1..Len(Envs) :
                    LET a == Eval(e, Envs[i]) b == Eval(r.e, Envs[i]) IN
                    IsUnrep(a) \/ IsUnrep(b) \/ (IsErr(a) /\ IsErr(b))
                    \/ (~IsErr(a) /\ ~IsErr(b) /\ ValEq(a, b))
              THEN "OK" ELSE "generated-source-means-something-else"
Emit == Complete =>
    /\ PrintT(ToJson([e |-> tree, listed |-> listed]))
    /\ (listed # << >> \/ SourceMeansTree(tree) \in {"OK", "SKIP"}
        \/ PrintT(ToJson([design |-> SourceMeansTree(tree), de |-> tree])))
ASSUME PrintT(ToJson([envs |-> Envs]))
=============================================================================
