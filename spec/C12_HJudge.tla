------------------------------ MODULE C12_HJudge ------------------------------
(***************************************************************************)
(* Stage (3) for C12, evaluation histories: trace validation.  Every trace *)
(* recorded from instrumented EvaluationMapper instances is replayed       *)
(* through the S-layer machine of C12_CSE ONE TLC STEP PER RECORDED EVENT: *)
(* the event must be allowed (Check) in the instance state reached so far  *)
(* - ChildOncePerInstance, DoneClosed, OpsWithinBound, ReturnedAllDone,    *)
(* StackSane, ValuesRight - and the successor is Post.  The step relation  *)
(* is total: the first clause a trace contradicts becomes its verdict.     *)
(* The begin events must follow the generated history.  The event stream   *)
(* predicted by the A-layer evaluator is compared too (drift only).        *)
(*                                                                         *)
(* trace = [id, kind, cls, exprs, h, nodes, evs]; event = [i, ev, n | val]; *)
(* cls = "plain" (EvaluationMapper) or "cached" (CachedEvaluationMapper:    *)
(* the same invariants must hold, it only executes fewer operations).       *)
(***************************************************************************)
EXTENDS C12_CSE, C12_Env, Json, IOUtils
VARIABLES tid, l, nb, insts, verdict

Traces == ndJsonDeserialize(IOEnv.TRACE_FILE)

EvOf(rec, e) == IF e.ev \in {"ret", "raise"} THEN [ev |-> e.ev, val |-> e.val]
                ELSE [ev |-> e.ev, n |-> rec.nodes[e.n + 1]]

Init == /\ tid \in 1..Len(Traces)
        /\ l = 1 /\ nb = 0 /\ insts = << >> /\ verdict = ""

Next ==
    /\ verdict = ""
    /\ l <= Len(Traces[tid].evs)
    /\ LET rec   == Traces[tid]
           e     == rec.evs[l]
           i     == e.i
           known == i <= Len(insts)
           I     == IF known THEN insts[i] ELSE NewInst(EnvOfInst(i))
           ev    == EvOf(rec, e)
           c     == IF i < 1 \/ i > Len(insts) + 1 THEN "ill-formed-instance"
                    ELSE IF ev.ev = "begin" /\ (nb + 1 > Len(rec.h) \/ rec.h[nb + 1].i # i
                                                \/ rec.exprs[rec.h[nb + 1].x] # ev.n)
                         THEN "ill-formed-history"
                    ELSE Check(I, ev, Envs)
       IN IF c = "OK"
          THEN /\ insts' = IF known THEN [insts EXCEPT ![i] = Post(I, ev, Envs)]
                           ELSE Append(insts, Post(I, ev, Envs))
               /\ l' = l + 1
               /\ nb' = nb + (IF ev.ev = "begin" THEN 1 ELSE 0)
               /\ UNCHANGED verdict
          ELSE /\ verdict' = c
               /\ UNCHANGED << insts, l, nb >>
    /\ UNCHANGED tid

\* belt and braces: every state the judge accepts satisfies the S-layer invariants
JudgeInv == verdict = "" => \A i \in 1..Len(insts) : AllInstInv(insts[i])

\* the A-layer's prediction of the whole event stream
Predicted(exprs, h) ==
    LET RECURSIVE Go(_, _)
        Go(k, caches) ==
            IF k > Len(h) THEN << >>
            ELSE LET i  == h[k].i
                     ch == IF i <= Len(caches) THEN caches[i] ELSE EmptyBag
                     r  == TopEvents(exprs[h[k].x], ch, Envs[EnvOfInst(i)])
                     c2 == IF i <= Len(caches) THEN [caches EXCEPT ![i] = r.cache]
                           ELSE Append(caches, r.cache)
                 IN [j \in 1..Len(r.evs) |->
                        IF r.evs[j].ev \in {"ret", "raise"} THEN [i |-> i, ev |-> r.evs[j].ev, n |-> NoneE]
                        ELSE [i |-> i, ev |-> r.evs[j].ev, n |-> r.evs[j].n]] \o Go(k + 1, c2)
    IN Go(1, << >>)
Recorded(rec) ==
    [j \in 1..Len(rec.evs) |->
        IF rec.evs[j].ev \in {"ret", "raise"} THEN [i |-> rec.evs[j].i, ev |-> rec.evs[j].ev, n |-> NoneE]
        ELSE [i |-> rec.evs[j].i, ev |-> rec.evs[j].ev, n |-> rec.nodes[rec.evs[j].n + 1]]]

Done == verdict # "" \/ l > Len(Traces[tid].evs)
Report ==
    Done =>
      LET rec   == Traces[tid]
          v     == IF verdict # "" THEN verdict
                   ELSE IF nb # Len(rec.h) \/ (\E i \in 1..Len(insts) : insts[i].busy) THEN "ill-formed-end"
                   ELSE "OK"
          skip  == Cardinality({i \in 1..Len(insts) : "SKIP" \in insts[i].verdicts})
          \* the A-layer evaluator transcribes the plain EvaluationMapper only
          drift == rec.cls = "plain" /\ Recorded(rec) # Predicted(rec.exprs, rec.h)
      IN (v = "OK" /\ skip = 0 /\ ~drift)
         \/ PrintT(ToJson([id |-> rec.id, v |-> v, at |-> l, skip |-> skip,
                           drift |-> IF drift THEN 1 ELSE 0,
                           ev |-> IF l <= Len(rec.evs) THEN rec.evs[l].ev ELSE "",
                           i |-> IF l <= Len(rec.evs) THEN rec.evs[l].i ELSE 0]))
=============================================================================
