CONSTANTS
  Bugs = {"none"}
  MaxN = 64
  R = 12
  FFTLens = {1, 2, 3, 4, 6, 8, 9, 12, 15, 16}
  MaxTerms = 5
INIT Init
NEXT Next
INVARIANTS PowLoopInv PowResult PowRefusal PowCost EuBezoutInv EuGcdInv EuResult EuSameAsFunction EuLcm EntryBugKeepsGcd FFTResult MapFlagInv MapResult MapCalls
PROPERTIES PowDecreases EuDecreases
CHECK_DEADLOCK FALSE
