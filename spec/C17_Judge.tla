------------------------------ MODULE C17_Judge ------------------------------
(***************************************************************************)
(* Stage (3) for C17: trace validation.  One record = one schedule as it   *)
(* was executed by real interpreter processes:                             *)
(*   [id, ta, tb, proto, cfg, np, evs]   evs[l] = the command (fields of    *)
(*   C17_Gen!Cmd) plus what the process answered:                          *)
(*     ok, err          the call returned / raised (exception class name)  *)
(*     Build, Unpickle  c   (hash id in the new object's _hash_value slot, *)
(*                           0: empty), nc (how many nodes of the object   *)
(*                           graph have a filled slot)                     *)
(*     Hash             h   (hash id of the answer), c                     *)
(*     Pickle           carried (1: the payload contains b"_hash_value")   *)
(*     Eq               r, c1, c2        DictGet   fd, fs, c1, c2          *)
(*     ContGet          f, c1, c2                                          *)
(*     Digest           d   (digest id, 0: refused)                         *)
(*     Call             v   (PyNum value record or error record)           *)
(*   Hash ids are small integers naming the raw hash values of ONE process *)
(*   within ONE schedule (first occurrence = 1, ...); digest ids name hex  *)
(*   digests across all processes of one schedule.                         *)
(*                                                                         *)
(* TLC steps the S-layer machine C17_Pickle along evs: one TLC step per    *)
(* event, the event's action taken with the logged observation; the        *)
(* invariants of C17_Pickle are evaluated in every state reached.  So that *)
(* every trace gets a verdict the step relation is total: a state that     *)
(* breaks an invariant, or an event that is not enabled, ends the trace    *)
(* with the clause as verdict; running off the end gives "OK".             *)
(***************************************************************************)
EXTENDS C17_Pickle, Json, IOUtils

VARIABLES tid, l, verdict, notes
jvars == << heap, hfun, msgs, digs, obs, tid, l, verdict, notes >>

Recs == ndJsonDeserialize(IOEnv.TRACE_FILE)

Rec == Recs[tid]
NEv == Len(Rec.evs)

Init == /\ tid \in 1..Len(Recs) /\ l = 1 /\ verdict = "" /\ MInit
        /\ notes = [skip |-> 0, refused |-> 0]

EnabledEv(ev) ==
    /\ ev.p \in Proc
    /\ CASE ev.a = "Build"    -> ev.x \in CatIds
         [] ev.a = "Hash"     -> Live(ev.p, ev.x)
         [] ev.a = "Pickle"   -> Live(ev.p, ev.x) /\ ev.s \in Wraps
         [] ev.a = "Unpickle" -> ev.x \in DOMAIN msgs /\ msgs[ev.x].ok
         [] ev.a = "Eq"       -> Live(ev.p, ev.x) /\ Live(ev.p, ev.y)
         [] ev.a = "DictGet"  -> Live(ev.p, ev.x) /\ Live(ev.p, ev.y)
         [] ev.a = "ContGet"  -> Live(ev.p, ev.x) /\ Live(ev.p, ev.y) /\ heap[ev.p][ev.x].wrap # ""
         [] ev.a = "Digest"   -> Live(ev.p, ev.x) /\ ev.s \in DigestKinds
         [] ev.a = "Call"     -> Live(ev.p, ev.x) /\ IsCompiled(heap[ev.p][ev.x].tree)
         [] OTHER -> FALSE

\* the model action the event stands for, taken with the logged observation
TraceStep(ev) ==
    IF ~ev.ok THEN
        CASE ev.a = "Build"    -> Build(ev.p, ev.x, FALSE, 0)
          [] ev.a = "Pickle"   -> Pickle(ev.p, ev.x, ev.y, ev.s, FALSE, 0)
          [] ev.a = "Unpickle" -> Unpickle(ev.p, ev.x, FALSE, 0)
          [] OTHER             -> Raised(ev.p, ev.a)
    ELSE
        CASE ev.a = "Build"    -> Build(ev.p, ev.x, TRUE, ev.c)
          [] ev.a = "Hash"     -> Hash(ev.p, ev.x, ev.h, ev.c)
          [] ev.a = "Pickle"   -> Pickle(ev.p, ev.x, ev.y, ev.s, TRUE, ev.carried)
          [] ev.a = "Unpickle" -> Unpickle(ev.p, ev.x, TRUE, ev.c)
          [] ev.a = "Eq"       -> Eq(ev.p, ev.x, ev.y, ev.r, ev.c1, ev.c2)
          [] ev.a = "DictGet"  -> DictGet(ev.p, ev.x, ev.y, ev.fd, ev.fs, ev.c1, ev.c2)
          [] ev.a = "ContGet"  -> ContGet(ev.p, ev.x, ev.y, ev.f, ev.c1, ev.c2)
          [] ev.a = "Digest"   -> Digest(ev.p, ev.x, ev.s, ev.d)
          [] ev.a = "Call"     -> CallC(ev.p, ev.x, ev.args, ev.v)

\* the first invariant of the property the current state breaks ("" : none)
Clause ==
    IF ~NothingRaised THEN "NothingRaised"
    ELSE IF ~NoForeignHash THEN "NoForeignHash"
    ELSE IF ~HashIsLocal THEN "HashIsLocal"
    ELSE IF ~EqIsPyEq THEN "EqIsPyEq"
    ELSE IF ~LookupFinds THEN "LookupFinds"
    ELSE IF ~CompiledComputes THEN "CompiledComputes"
    ELSE IF ~DigestIsStructural THEN "DigestIsStructural"
    ELSE ""

NoteOf(ev) ==
    IF ev.ok /\ ev.a = "Call"
          /\ (IsUnrep(ev.v) \/ IsUnrep(CompiledValue(heap[ev.p][ev.x].tree, ev.args)))
    THEN [notes EXCEPT !.skip = @ + 1]
    ELSE IF ev.ok /\ ev.a = "Digest" /\ ev.d = 0 THEN [notes EXCEPT !.refused = @ + 1]
    ELSE notes

Next ==
    /\ verdict = ""
    /\ UNCHANGED tid
    /\ IF Clause # ""
       THEN verdict' = Clause /\ UNCHANGED << heap, hfun, msgs, digs, obs, l, notes >>
       ELSE IF l > NEv
       THEN verdict' = "OK" /\ UNCHANGED << heap, hfun, msgs, digs, obs, l, notes >>
       ELSE LET ev == Rec.evs[l] IN
            IF ~EnabledEv(ev)
            THEN verdict' = "not-enabled" /\ UNCHANGED << heap, hfun, msgs, digs, obs, l, notes >>
            ELSE TraceStep(ev) /\ l' = l + 1 /\ verdict' = "" /\ notes' = NoteOf(ev)

\* ---- reporting -----------------------------------------------------------
RootOf(t) == LET e == Cat[t].e IN IF e.t = "User" THEN e.cls ELSE e.t
\* the event the verdict is about: the last one applied (an invariant broke in
\* the state it led to) or the one that could not be applied
Culprit == IF verdict = "not-enabled" THEN l ELSE l - 1
\* catalogue entry of the object the culprit event is about (0: none)
TreeOfEv(ev) ==
    CASE ev.a = "Build" -> (IF ev.x \in CatIds THEN ev.x ELSE 0)
      [] ev.a = "Unpickle" -> (IF ev.x \in DOMAIN msgs THEN msgs[ev.x].tree ELSE 0)
      [] OTHER -> (IF ev.p \in Proc /\ ev.x \in DOMAIN heap[ev.p] THEN heap[ev.p][ev.x].tree ELSE 0)
OriginOfEv(ev) ==
    IF ev.a \in {"Build", "Unpickle"} THEN ev.a
    ELSE IF ev.p \in Proc /\ ev.x \in DOMAIN heap[ev.p] THEN heap[ev.p][ev.x].origin ELSE ""

Report ==
    verdict # "" =>
      IF verdict = "OK"
      THEN PrintT(ToJson([id |-> Rec.id, v |-> "OK",
                          skip |-> notes.skip, refused |-> notes.refused,
                          carries |-> Cardinality({m \in DOMAIN msgs : msgs[m].carried # 0}),
                          filled |-> Cardinality(UNION { { << p, o >> : o \in
                                         { i \in DOMAIN heap[p] : /\ heap[p][i].origin = "unpickled"
                                                                  /\ heap[p][i].wrap = ""
                                                                  /\ heap[p][i].c0 # 0 } } : p \in Proc }),
                          coll |-> IF DigestInjective THEN 0 ELSE 1]))
      ELSE LET ev == Rec.evs[Culprit]  t == TreeOfEv(ev) IN
           PrintT(ToJson([id |-> Rec.id, v |-> verdict, at |-> Culprit, a |-> ev.a,
                          p |-> ev.p, t |-> t,
                          root |-> IF t = 0 THEN "" ELSE RootOf(t),
                          kind |-> IF t = 0 THEN "" ELSE Cat[t].kind,
                          origin |-> OriginOfEv(ev),
                          err |-> IF ev.ok THEN "" ELSE ev.err]))
=============================================================================
