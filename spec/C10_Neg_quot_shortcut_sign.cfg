CONSTANT Bug = "quot_shortcut_sign"
INIT Init
NEXT Next
INVARIANT Refines
CHECK_DEADLOCK FALSE
