---------------------------- MODULE C06_Stringify ----------------------------
(***************************************************************************)
(* A-layer: pymbolic.mapper.stringifier.StringifyMapper transcribed as the *)
(* code has it - the PREC_* constants, parenthesize_if_needed, the forced  *)
(* parentheses among * / // %, the +1 of the shift operators and of the    *)
(* base of a power, signed constants parenthesised above PREC_SUM, tuple / *)
(* one-tuple / subscript-index rules, slices, keyword arguments, If - as a *)
(* function from trees to TOKEN SEQUENCES (white space dropped).           *)
(* Tokens are strings; the driver tokenises the real printed text with     *)
(* harness/lexer.py into the same alphabet.                                *)
(***************************************************************************)
EXTENDS Expr

PREC_CALL == 15        PREC_POWER == 14       PREC_UNARY == 13
PREC_PRODUCT == 12     PREC_SUM == 11         PREC_SHIFT == 10
PREC_BITWISE_AND == 9  PREC_BITWISE_XOR == 8  PREC_BITWISE_OR == 7
PREC_COMPARISON == 6   PREC_LOGICAL_AND == 5  PREC_LOGICAL_OR == 4
PREC_IF == 3           PREC_NONE == 0

Paren(s) == << "(" >> \o s \o << ")" >>
ParenIf(s, enc, my) == IF enc > my THEN Paren(s) ELSE s

\* str() of a Python number as tokens (sign separate, as the lexer reads it)
FloatText(n, d) ==      \* repr of the exactly representable floats the generators use
    IF d = 1 THEN ToString(n) \o ".0"
    ELSE IF d = 2 /\ n = 1 THEN "0.5" ELSE IF d = 2 /\ n = 3 THEN "1.5"
    ELSE IF d = 2 /\ n = 5 THEN "2.5" ELSE IF d = 4 /\ n = 1 THEN "0.25"
    ELSE "?float"
ConstTokens(v) ==
    CASE v.k = "bool" -> << IF v.n = 1 THEN "True" ELSE "False" >>
      [] v.k = "int"  -> IF v.n < 0 THEN << "-", ToString(-v.n) >> ELSE << ToString(v.n) >>
      [] v.k = "flt"  -> IF v.n < 0 THEN << "-", FloatText(-v.n, v.d) >> ELSE << FloatText(v.n, v.d) >>
      [] v.k = "fstr" -> << v.s >>
      [] OTHER -> << "?const" >>
\* "-" in text or "+" in text
HasSign(v) == (v.k \in {"int", "flt"} /\ v.n < 0) \/ (v.k = "fstr" /\ v.s \in {"1e-05", "1e+20", "-1e-05"})

BinSym(t) == CASE t = "Quotient" -> "/" [] t = "FloorDiv" -> "//" [] t = "Remainder" -> "%"
               [] t = "LShift" -> "<<" [] t = "RShift" -> ">>"
NarySym(t) == CASE t = "Sum" -> "+" [] t = "Product" -> "*" [] t = "BitOr" -> "|" [] t = "BitXor" -> "^"
                [] t = "BitAnd" -> "&" [] t = "LogOr" -> "or" [] t = "LogAnd" -> "and"
NaryPrec(t) == CASE t = "Sum" -> PREC_SUM [] t = "Product" -> PREC_PRODUCT [] t = "BitOr" -> PREC_BITWISE_OR
                 [] t = "BitXor" -> PREC_BITWISE_XOR [] t = "BitAnd" -> PREC_BITWISE_AND
                 [] t = "LogOr" -> PREC_LOGICAL_OR [] t = "LogAnd" -> PREC_LOGICAL_AND
MultPrims == {"Product", "Quotient", "FloorDiv", "Remainder"}

RECURSIVE StrM(_, _, _)
\* rec_with_force_parens_around
RecForce(py, x, prec, kinds) == LET r == StrM(py, x, prec) IN IF x.t \in kinds THEN Paren(r) ELSE r
\* join_rec(joiner, children, prec, force_parens_around=kinds)
JoinRec(py, sep, xs, prec, kinds) ==
    LET RECURSIVE Go(_)
        Go(i) == IF i > Len(xs) THEN << >>
                 ELSE (IF i > 1 THEN << sep >> ELSE << >>) \o RecForce(py, xs[i], prec, kinds) \o Go(i + 1)
    IN Go(1)

StrM(py, e, enc) ==
    CASE e.t = "Var" -> << e.name >>
      [] e.t = "Const" -> LET t == ConstTokens(e.v) IN
                          IF HasSign(e.v) /\ enc > PREC_SUM THEN Paren(t) ELSE t
      [] e.t = "Call" -> StrM(py, e.f, PREC_CALL) \o << "(" >> \o JoinRec(py, ",", e.c, PREC_NONE, {}) \o << ")" >>
      [] e.t = "CallKw" ->
            LET kws == [i \in 1..Len(e.kw) |-> << e.kw[i].name, "=" >> \o StrM(py, e.kw[i].e, PREC_NONE)]
                RECURSIVE GoK(_, _)
                GoK(i, first) == IF i > Len(kws) THEN << >>
                                 ELSE (IF first THEN << >> ELSE << "," >>) \o kws[i] \o GoK(i + 1, FALSE)
            IN StrM(py, e.f, PREC_CALL) \o << "(" >> \o JoinRec(py, ",", e.c, PREC_NONE, {})
               \o GoK(1, Len(e.c) = 0) \o << ")" >>
      [] e.t = "Sub" ->
            LET idx == IF e.b.t = "Tup" THEN JoinRec(py, ",", e.b.c, PREC_NONE, {}) ELSE StrM(py, e.b, PREC_NONE)
            IN ParenIf(StrM(py, e.a, PREC_CALL) \o << "[" >> \o idx \o << "]" >>, enc, PREC_CALL)
      [] e.t = "Look" -> ParenIf(StrM(py, e.a, PREC_CALL) \o << ".", e.name >>, enc, PREC_CALL)
      [] e.t = "Product" ->
            ParenIf(JoinRec(py, "*", e.c, PREC_PRODUCT, {"Quotient", "FloorDiv", "Remainder"}), enc, PREC_PRODUCT)
      [] e.t \in {"Sum", "BitOr", "BitXor", "BitAnd", "LogOr", "LogAnd"} ->
            ParenIf(JoinRec(py, NarySym(e.t), e.c, NaryPrec(e.t), {}), enc, NaryPrec(e.t))
      [] e.t \in {"Quotient", "FloorDiv", "Remainder"} ->
            ParenIf(RecForce(py, e.a, PREC_PRODUCT, MultPrims) \o << BinSym(e.t) >>
                    \o RecForce(py, e.b, PREC_PRODUCT, MultPrims), enc, PREC_PRODUCT)
      [] e.t = "Power" ->
            ParenIf(StrM(py, e.a, PREC_POWER + 1) \o << "**" >> \o StrM(py, e.b, PREC_POWER), enc, PREC_POWER)
      [] e.t \in {"LShift", "RShift"} ->
            ParenIf(StrM(py, e.a, PREC_SHIFT + 1) \o << BinSym(e.t) >> \o StrM(py, e.b, PREC_SHIFT + 1), enc, PREC_SHIFT)
      [] e.t = "BitNot" -> ParenIf(<< "~" >> \o StrM(py, e.a, PREC_UNARY), enc, PREC_UNARY)
      \* py = TRUE: the compile mapper (compiler.py), which writes Python: 'not' binds more loosely
      \* than comparisons and arithmetic there, and a < b < c would be a chain
      [] e.t = "LogNot" -> ParenIf(<< "not" >> \o StrM(py, e.a, PREC_UNARY), enc,
                                   IF py THEN PREC_LOGICAL_AND ELSE PREC_UNARY)
      [] e.t = "Cmp" ->
            LET cp == IF py THEN PREC_BITWISE_OR ELSE PREC_COMPARISON IN
            ParenIf(StrM(py, e.a, cp) \o << e.op >> \o StrM(py, e.b, cp), enc, PREC_COMPARISON)
      [] e.t = "If" ->
            ParenIf(StrM(py, e.th, PREC_LOGICAL_OR) \o << "if" >> \o StrM(py, e.i, PREC_LOGICAL_OR) \o << "else" >>
                    \o StrM(py, e.el, PREC_LOGICAL_OR), enc, PREC_IF)
      [] e.t = "Tup" -> << "(" >> \o JoinRec(py, ",", e.c, PREC_NONE, {})
                        \o (IF Len(e.c) = 1 THEN << "," >> ELSE << >>) \o << ")" >>
      [] e.t = "List" -> << "[" >> \o JoinRec(py, ",", e.c, PREC_NONE, {}) \o << "]" >>
      [] e.t = "Slice" ->
            LET RECURSIVE Go(_)
                Go(i) == IF i > Len(e.c) THEN << >>
                         ELSE (IF i > 1 THEN << ":" >> ELSE << >>)
                              \o (IF e.c[i].t = "None" THEN << >> ELSE StrM(py, e.c[i], PREC_NONE)) \o Go(i + 1)
            IN ParenIf(Go(1), enc, PREC_NONE)
      [] e.t \in {"Min", "Max"} ->
            << IF e.t = "Min" THEN "min" ELSE "max", "(" >> \o JoinRec(py, ",", e.c, PREC_NONE, {}) \o << ")" >>
      [] e.t = "CSE" -> << "CSE", "(" >> \o StrM(py, e.a, PREC_NONE) \o << ")" >>
      [] OTHER -> << "?node" >>

Stringify(e) == StrM(FALSE, e, PREC_NONE)      \* StringifyMapper: what str(expr) prints
StringifyPy(e) == StrM(TRUE, e, PREC_NONE)     \* CompileMapper: the source pymbolic.compile generates
Printable(toks) == \A i \in 1..Len(toks) : toks[i] \notin {"?node", "?const", "?float"}
=============================================================================
