CONSTANTS
  PoolSel = "consts"
  ArgSel = "core"
  MaxLen = 2
  KeyMode = "notype"
  StoreMode = "store"
  HitMode = "identity"
  Random = FALSE
  FbMode = "faithful"
  ShareSel = "parity"
  RbMode = "faithful"
INIT Init
NEXT Next
INVARIANT NotSharedTypes
CHECK_DEADLOCK FALSE
