CONSTANTS
  Tier = "quick"
  Mode = "exh"
  Bug = "none"
INIT Init
NEXT Next
INVARIANT HelperModelInv
INVARIANT ModelCacheInv_Emit
CHECK_DEADLOCK FALSE
