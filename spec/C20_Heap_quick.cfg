CONSTANT HBuggy = "none"
CONSTANT Alias = TRUE
CONSTANT MaxOps = 2
CONSTANT MaxLen = 8
CONSTANT MaxObj = 20
INIT Init
NEXT Next
INVARIANT HInv_Frame
INVARIANT HInv_FrameClause
INVARIANT HInv_FrameComplete
INVARIANT HInv_Value
INVARIANT HInv_HandlesKeep
INVARIANT HInv_HandlesWF
CHECK_DEADLOCK FALSE
