CONSTANTS
  Tier = "neg"
  Mode = "exh"
  Bug = "KeyDropsCounts"
INIT Init
NEXT Next
INVARIANT TagModelMeetsProperty
CHECK_DEADLOCK FALSE
