CONSTANT KeyMode = "address"
CONSTANT MaxOps = 6
INIT Init
NEXT Next
INVARIANT EveryEvaluationIsTheMeaning
CHECK_DEADLOCK FALSE
