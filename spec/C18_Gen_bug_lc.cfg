CONSTANT Tier = "quick"
CONSTANT Kinds = {"pair"}
CONSTANT MaxN = 2
CONSTANT Bug = "lc_swapped"
INIT Init
NEXT Next
INVARIANT ModelHolds
CHECK_DEADLOCK FALSE
