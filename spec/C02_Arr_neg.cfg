CONSTANT Mode = "flatK"
INIT Init
NEXT Next
INVARIANT EntrywiseMeaning
CHECK_DEADLOCK FALSE
