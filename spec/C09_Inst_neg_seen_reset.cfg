CONSTANT Tier = "quick"
CONSTANT Buggy = "seen_reset"
INIT Init
NEXT Next
INVARIANT InstInvHolds
CHECK_DEADLOCK FALSE
