CONSTANT Buggy = "none"
CONSTANT MaxOps = 3
CONSTANT MaxLen = 4
CONSTANT NIds = 5
CONSTANT NVars = 2
CONSTANT WithDaf = FALSE
INIT Init
NEXT Next
INVARIANT Inv_IdsDistinct
INVARIANT Inv_DepsClosed
INVARIANT Inv_Acyclic
INVARIANT Inv_StreamOK
INVARIANT Step_FuseClauses
INVARIANT Step_DafClauses
INVARIANT Step_PrefixKept
INVARIANT Step_DepIso
INVARIANT Step_NoSharedIdent
CHECK_DEADLOCK FALSE
