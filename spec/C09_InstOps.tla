----------------------------- MODULE C09_InstOps -----------------------------
(***************************************************************************)
(* S-layer of C09: ONE analysis instance used for a history of calls.      *)
(* The property quantifies over "cached and uncached"; the hidden state    *)
(* behind that is                                                          *)
(*   CachedMapper._cache            (CachedDependencyMapper, FlopCounter,  *)
(*                                   NodeCountMapper)                      *)
(*   CSECachingMapperMixin._cse_cache_dict  (both dependency mappers)      *)
(*   CSEAwareFlopCounter.cse_seen_set                                      *)
(*   NodeCountMapper.count                                                 *)
(* An instance state is a record; Step(st, e) is the transition "call the  *)
(* instance on e" (implementation-shaped: the memo look-ups of             *)
(* CachedMapper.__call__ and of the CSE mix-in are threaded through the    *)
(* handlers of C09_Analyses); the invariants below are the property's      *)
(* content for histories:                                                  *)
(*   - every cache entry is exact for its key (a cache is never stale),    *)
(*   - every call returns exactly the meaning of its argument,             *)
(*   - the CSE-aware counter has charged every distinct CSE of the whole   *)
(*     history exactly once, and its seen-set is exactly those CSEs,       *)
(*   - the node counter has counted every distinct node of the whole       *)
(*     history exactly once.                                               *)
(* C09_Inst model-checks them over all histories up to a bound,            *)
(* C09_InstJudge evaluates the same invariants on the states projected     *)
(* from the real objects after every call.                                 *)
(***************************************************************************)
EXTENDS C09_Analyses

Kinds == {"dm", "cdm", "fc", "cse", "ncm"}

\* memo tables are sets of [key, val] pairs with functional keys
Has(tab, k) == \E p \in tab : p.key = k
Get(tab, k) == (CHOOSE p \in tab : p.key = k).val
Put(tab, k, v) == IF Has(tab, k) THEN tab ELSE tab \cup { [key |-> k, val |-> v] }

NewInst(kind, rawIx) ==
    [kind |-> kind, raw |-> rawIx,
     memo |-> {},       \* CachedMapper._cache of a dependency mapper: MemoKey -> set of nodes
     csememo |-> {},    \* _cse_cache_dict: canonical CSE -> set of nodes
     imemo |-> {},      \* CachedMapper._cache of FlopCounter: MemoKey -> integer
     seen |-> {},       \* cse_seen_set (canonical CSEs) / NodeCountMapper._cache keys
     count |-> 0,       \* NodeCountMapper.count
     total |-> 0,       \* sum of everything a flop counter instance has returned
     hist |-> << >>,    \* the history (arguments of the calls so far)
     last |-> {}, lastn |-> 0]

\* ---- dependency mappers with their two caches ------------------------------
RECURSIVE DC(_, _, _), DCSeq(_, _, _), DCHandler(_, _, _)
\* [r |-> set, st |-> state]; m = mapper attributes + [cached |-> BOOLEAN]
DCSeq(es, m, st) ==
    LET RECURSIVE Go(_, _, _)
        Go(i, acc, s) == IF i > Len(es) THEN [r |-> acc, st |-> s]
                         ELSE LET o == DC(es[i], m, s) IN Go(i + 1, acc \cup o.r, o.st)
    IN Go(1, {}, st)
DCHandler(e, m, st) ==
    CASE e.t = "Var"   -> [r |-> { e }, st |-> st]
      [] e.t = "Const" -> [r |-> { }, st |-> st]
      [] e.t = "Call"  ->
            IF m.ic = "args" THEN DCSeq(e.c, m, st)
            ELSE IF m.ic = "yes" THEN [r |-> { e }, st |-> st]
            ELSE DCSeq(<< e.f >> \o e.c, m, st)
      [] e.t = "CallKw" ->
            LET kws == [i \in 1..Len(e.kw) |-> e.kw[i].e] IN
            IF m.ic = "args" THEN DCSeq(e.c \o kws, m, st)
            ELSE IF m.ic = "yes" THEN [r |-> { e }, st |-> st]
            ELSE DCSeq(<< e.f >> \o e.c \o kws, m, st)
      [] e.t = "Look"  -> IF m.il THEN [r |-> { e }, st |-> st] ELSE DC(e.a, m, st)
      [] e.t = "Sub"   -> IF m.is THEN [r |-> { e }, st |-> st] ELSE DCSeq(<< e.a, e.b >>, m, st)
      [] e.t = "CSE"   ->                 \* CSECachingMapperMixin.map_common_subexpression
            IF Has(st.csememo, Canon(e)) THEN [r |-> Get(st.csememo, Canon(e)), st |-> st]
            ELSE LET o == IF m.ics THEN [r |-> { e }, st |-> st] ELSE DC(e.a, m, st)
                 IN  [r |-> o.r, st |-> [o.st EXCEPT !.csememo = Put(@, Canon(e), o.r)]]
      [] e.t = "Slice" -> DCSeq(SelectSeq(e.c, LAMBDA c : c.t # "None"), m, st)
      [] OTHER -> DCSeq(Kids(e), m, st)
DC(e, m, st) ==                              \* CachedMapper.__call__ / Mapper.__call__
    IF m.cached /\ Has(st.memo, MemoKey(e)) THEN [r |-> Get(st.memo, MemoKey(e)), st |-> st]
    ELSE LET o == DCHandler(e, m, st) IN
         IF m.cached THEN [r |-> o.r, st |-> [o.st EXCEPT !.memo = Put(@, MemoKey(e), o.r)]]
         ELSE o

\* ---- FlopCounter = CachedMapper + FlopCounterBase ---------------------------------
RECURSIVE FC(_, _), FCSeq(_, _)
FCSeq(es, st) ==
    LET RECURSIVE Go(_, _, _)
        Go(i, acc, s) == IF i > Len(es) THEN [n |-> acc, st |-> s]
                         ELSE LET o == FC(es[i], s) IN Go(i + 1, acc + o.n, o.st)
    IN Go(1, 0, st)
FC(e, st) ==
    IF Has(st.imemo, MemoKey(e)) THEN [n |-> Get(st.imemo, MemoKey(e)), st |-> st]
    ELSE LET o == CASE e.t \in {"Var", "Const"} -> [n |-> 0, st |-> st]
                    [] e.t \in {"Sum", "Product"} ->
                          IF Len(e.c) > 0 THEN LET q == FCSeq(e.c, st) IN
                                               [n |-> Len(e.c) - 1 + q.n, st |-> q.st]
                          ELSE [n |-> 0, st |-> st]
                    [] e.t \in {"Quotient", "FloorDiv", "Power"} ->
                          LET q == FCSeq(<< e.a, e.b >>, st) IN [n |-> 1 + q.n, st |-> q.st]
                    [] OTHER -> FCSeq(Kids(e), st)
         IN  [n |-> o.n, st |-> [o.st EXCEPT !.imemo = Put(@, MemoKey(e), o.n)]]

\* ---- the transition ---------------------------------------------------------------
Attrs(st) == InitAttrs(RawSeq[st.raw]) @@ [cached |-> st.kind = "cdm"]
Step(st, e) ==
    LET h == Append(st.hist, e) IN
    CASE st.kind \in {"dm", "cdm"} ->
            LET o == DC(e, Attrs(st), st) IN [o.st EXCEPT !.hist = h, !.last = o.r]
      [] st.kind = "fc" ->
            LET o == FC(e, st) IN [o.st EXCEPT !.hist = h, !.lastn = o.n, !.total = @ + o.n]
      [] st.kind = "cse" ->
            LET s == FI(e, [aware |-> TRUE, st |-> [FIInit EXCEPT !.seen = st.seen]]) IN
            [st EXCEPT !.hist = h, !.seen = s.seen, !.lastn = s.n, !.total = @ + s.n]
      [] st.kind = "ncm" ->
            LET s == NCWalk(e, [NCInit EXCEPT !.seen = st.seen, !.n = st.count]) IN
            [st EXCEPT !.hist = h, !.seen = s.seen, !.count = s.n]

\* ---- the property on instance states (M-layer statements) ----------------------
Fl(st) == Effective(RawSeq[st.raw])
HistTup(st) == N("Tup", st.hist)
DepsEq(S, e, fl) == CanonSet(S) = CanonSet(Deps(e, fl))

\* a cache is never stale: every entry is exact for its key (keys carry the tree)
MemoSound(st) ==
    /\ \A p \in st.memo : DepsEq(p.val, p.key[2], Fl(st))
    /\ \A p \in st.csememo : DepsEq(p.val, p.key, Fl(st))
    /\ \A p \in st.imemo : p.val = Flops(p.key[2])
\* every call returns the meaning of its argument
ResultExact(st) ==
    Len(st.hist) > 0 =>
        LET e == st.hist[Len(st.hist)] IN
        CASE st.kind \in {"dm", "cdm"} -> DepsEq(st.last, e, Fl(st))
          [] st.kind = "fc" -> st.lastn = Flops(e)
          [] OTHER -> TRUE
\* each distinct CSE of the whole history has been charged exactly once
CSEOnce(st) ==
    st.kind = "cse" =>
        /\ st.seen = CanonSet(CSENodes(HistTup(st)))
        /\ CSEFlopsAmbiguous(HistTup(st)) \/ st.total = CSEFlops(HistTup(st))
\* each distinct node of the whole history has been counted exactly once
NodesOnce(st) ==
    st.kind = "ncm" =>
        NodeCountAmbiguous(HistTup(st)) \/ st.count = NodeCount(HistTup(st)) - 1
InstInv(st) == MemoSound(st) /\ ResultExact(st) /\ CSEOnce(st) /\ NodesOnce(st)
=============================================================================
