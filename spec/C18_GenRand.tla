----------------------------- MODULE C18_GenRand -----------------------------
(***************************************************************************)
(* Stage (1), random part (run with  tlc -simulate num=N -depth D -seed S).*)
(* A behaviour draws ND random integers, one per step (the draw happens in *)
(* Next, so every behaviour is different and the run is reproducible from  *)
(* the seed); the completed sequence is decoded into                       *)
(*   bilin  a space (dimension 1..TopN, random diagonal metric over        *)
(*          {1,-1,0,2}), three random multivectors with up to 4 terms,     *)
(*          two random scalars: bilinearity of all six products;           *)
(*   prog   the same three multivectors as registers 1..3 and a random     *)
(*          straight-line program of 4 instructions over the registers     *)
(*          (products, +, -, rev, invol, neg, dual, scalar multiple,       *)
(*          scalar + / - multivector).                                     *)
(* TLC checks the M-layer laws / the A-layer refinement on each decoded    *)
(* case and prints it as one JSON line.                                    *)
(***************************************************************************)
EXTENDS C18_Bitmap, Json
CONSTANTS Tier
VARIABLES draws

I(a) == << a, 1, 0 >>
F(a, b) == << a, b, 1 >>
R == 2520
ND == 62
TopN == IF Tier = "quick" THEN 4 ELSE 5

Init == draws = << >>
Next == /\ Len(draws) < ND
        /\ draws' = Append(draws, RandomElement(0..(R - 1)))
Complete == Len(draws) = ND

MetricSeq == << 1, -1, 0, 2 >>
CoefSeq == << I(1), I(-1), I(2), I(-3), F(1, 2), F(-2, 3), F(3, 2), I(1), I(-2), I(0) >>
ScalSeq == << I(2), I(-1), F(1, 2), F(-3, 2), I(0), I(3) >>
ProgOps == << "geo", "out", "inn", "lc", "rc", "add", "sub", "rev", "invol", "neg",
              "dual", "smul", "geo", "geo", "add", "out", "radd", "rsub" >>
Pick(seq, d) == seq[1 + (d % Len(seq))]

\* keep the first term of every blade (a dict cannot hold a key twice)
RECURSIVE Dedup(_, _)
Dedup(ts, i) ==
    IF i > Len(ts) THEN << >>
    ELSE IF \E j \in 1..(i - 1) : ts[j][1] = ts[i][1] THEN Dedup(ts, i + 1)
    ELSE << ts[i] >> \o Dedup(ts, i + 1)

Dim(d) == 1 + (d[2] % TopN)
Metric(d) == [i \in 1..Dim(d) |-> Pick(MetricSeq, d[2 + i])]
\* multivector j (0..2): four candidate terms at draws 8 + 12 j ..
RandMV(d, j) ==
    LET bs == BladeSeq(Dim(d))
        cand == [t \in 1..4 |->
                   LET base == 8 + 12 * j + 3 * (t - 1)
                   IN  << Pick(bs, d[base]), Pick(CoefSeq, d[base + 1]), (d[base + 2] % 4) # 0 >>]
        RECURSIVE Sel(_)
        Sel(t) == IF t > 4 THEN << >>
                  ELSE IF cand[t][3] THEN << << cand[t][1], cand[t][2] >> >> \o Sel(t + 1)
                  ELSE Sel(t + 1)
    IN  Dedup(Sel(1), 1)
Instr(d, k) ==          \* k = 1..4, draws 46 + 4 (k - 1) ..
    LET base == 46 + 4 * (k - 1)
        nreg == 3 + (k - 1)
    IN  [op |-> Pick(ProgOps, d[base]), i |-> 1 + (d[base + 1] % nreg),
         j |-> 1 + (d[base + 2] % nreg), q |-> Pick(ScalSeq, d[base + 3])]

Case(d) ==
    IF (d[1] % 2) = 0
    THEN [k |-> "bilin", n |-> Dim(d), g |-> Metric(d), a |-> RandMV(d, 0), b |-> RandMV(d, 1),
          c |-> RandMV(d, 2), l |-> Pick(ScalSeq, d[44]), m |-> Pick(ScalSeq, d[45])]
    ELSE [k |-> "prog", n |-> Dim(d), g |-> Metric(d),
          regs |-> << RandMV(d, 0), RandMV(d, 1), RandMV(d, 2) >>,
          ins |-> [k \in 1..4 |-> Instr(d, k)]]

Emit == Complete => PrintT(ToJson(Case(draws)))

(************************ the property on the model ************************)
BilinModel(c) ==
    LET g == c.g
        A == MVOfTerms(c.a, g)
        B == MVOfTerms(c.b, g)
        C == MVOfTerms(c.c, g)
        l == QOf(c.l)
        m == QOf(c.m)
        L == MVLin(l, A, m, B)
    IN  \A op \in Ops :
          LET l1 == MVProd(op, L, C, g)
              r1 == MVLin(l, MVProd(op, A, C, g), m, MVProd(op, B, C, g))
              l2 == MVProd(op, C, L, g)
              r2 == MVLin(l, MVProd(op, C, A, g), m, MVProd(op, C, B, g))
          IN  /\ (MVBad(l1) \/ MVBad(r1) \/ l1 = r1)
              /\ (MVBad(l2) \/ MVBad(r2) \/ l2 = r2)
              /\ (MVBad(l1) \/ ImplProd(op, L, C, g) = l1)

\* every product of the program: the bitmap algorithm agrees with the meaning;
\* the unary sign tables likewise
RECURSIVE ProgModel(_, _, _)
ProgModel(c, regs, k) ==
    IF k > Len(c.ins) THEN TRUE
    ELSE LET x  == regs[c.ins[k].i]
             y  == regs[c.ins[k].j]
             op == c.ins[k].op
             v  == CASE op \in Ops   -> MVProd(op, x, y, c.g)
                     [] op = "add"   -> MVAdd(x, y)
                     [] op = "sub"   -> MVSub(x, y)
                     [] op = "rev"   -> MVRev(x)
                     [] op = "invol" -> MVInvol(x)
                     [] op = "neg"   -> MVNeg(x)
                     [] op = "dual"  -> MVDual(x, c.n, c.g)
                     [] op = "smul"  -> MVScale(QOf(c.ins[k].q), x)
                     [] op = "radd"  -> MVAdd(MVScalar(QOf(c.ins[k].q)), x)
                     [] op = "rsub"  -> MVSub(MVScalar(QOf(c.ins[k].q)), x)
             ok == CASE op \in Ops   -> MVBad(v) \/ ImplProd(op, x, y, c.g) = v
                     [] op = "rev"   -> ImplRev(x) = v
                     [] op = "invol" -> ImplInvol(x) = v
                     [] op = "dual"  -> MVBad(v) \/ ImplDual(x, c.n, c.g) = v
                     [] OTHER -> TRUE
         IN  ok /\ ProgModel(c, Append(regs, v), k + 1)

ModelHolds ==
    Complete =>
      LET c == Case(draws) IN
      IF c.k = "bilin" THEN BilinModel(c)
      ELSE ProgModel(c, [i \in 1..3 |-> MVOfTerms(c.regs[i], c.g)], 1)
=============================================================================
