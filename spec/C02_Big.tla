------------------------------- MODULE C02_Big -------------------------------
(***************************************************************************)
(* C02, "random larger values": the integer operators on operands of 15 to *)
(* 31 digits, where a detour through floating point is no longer exact.    *)
(* Values are BigNum integers; the meaning of + - * compare min max is      *)
(* computed exactly, the meaning of // % >> is their defining relation.     *)
(* The environments are fixed large values around 2**53, 2**64, 2**100      *)
(* (and 3**39, 10**17+3, negative ones); the driver evaluates every tree    *)
(* with the real evaluators and C02_BigJudge judges every result.           *)
(***************************************************************************)
EXTENDS BigEval, Json
VARIABLE ix

va == V("a")  vb == V("b")  vc == V("c")
BigEnvs == <<
  [a |-> [s |-> 1, m |-> << 993, 5474, 1992, 9007 >>],
   b |-> [s |-> 1, m |-> << 3 >>],
   c |-> [s |-> 1, m |-> << 7 >>]],
  [a |-> [s |-> 1, m |-> << 993, 5474, 1992, 9007 >>],
   b |-> [s |-> 1, m |-> << 1 >>],
   c |-> [s |-> 1, m |-> << 2 >>]],
  [a |-> [s |-> 1, m |-> << 1615, 955, 737, 6744, 1844 >>],
   b |-> [s |-> 1, m |-> << 7297, 9496, 42 >>],
   c |-> [s |-> 1, m |-> << 5 >>]],
  [a |-> [s |-> -1, m |-> << 993, 5474, 1992, 9007 >>],
   b |-> [s |-> 1, m |-> << 7 >>],
   c |-> [s |-> 1, m |-> << 3 >>]],
  [a |-> [s |-> 1, m |-> << 3, 0, 0, 0, 10 >>],
   b |-> [s |-> -1, m |-> << 7, 0, 10 >>],
   c |-> [s |-> 1, m |-> << 11 >>]],
  [a |-> [s |-> 1, m |-> << 6267, 1897, 1530, 2555, 405 >>],
   b |-> [s |-> 1, m |-> << 7 >>],
   c |-> [s |-> 1, m |-> << 7776, 1162, 995, 1 >>]],
  [a |-> [s |-> -1, m |-> << 7909, 2738, 184, 1686, 461 >>],
   b |-> [s |-> -1, m |-> << 3 >>],
   c |-> [s |-> 1, m |-> << 993, 5474, 1992, 9007 >>]],
  [a |-> [s |-> 1, m |-> << 5377, 320, 4967, 9401, 2822, 6002, 7650, 126 >>],
   b |-> [s |-> 1, m |-> << 2623, 684, 8999, 1125 >>],
   c |-> [s |-> 1, m |-> << 9 >>]],
  [a |-> [s |-> 1, m |-> << 992, 5474, 1992, 9007 >>],
   b |-> [s |-> 1, m |-> << 992, 5474, 1992, 9007 >>],
   c |-> [s |-> -1, m |-> << 1 >>]],
  [a |-> [s |-> 1, m |-> << 993, 5474, 1992, 9007 >>],
   b |-> [s |-> 1, m |-> << 992, 5474, 1992, 9007 >>],
   c |-> [s |-> 1, m |-> << 4 >>]]
>>
Trees == <<
  N("Sum", << va, vb >>), N("Sum", << va, N("Product", << KI(-1), vb >>) >>), N("Product", << va, vb >>),
  N("Product", << va, vb, vc >>), N("Sum", << N("Product", << va, va >>), N("Product", << KI(-1), vb, vb >>) >>),
  B("Power", va, KI(2)), B("FloorDiv", va, vb), B("Remainder", va, vb),
  B("FloorDiv", N("Sum", << va, vc >>), vb), B("Remainder", N("Product", << va, vc >>), vb),
  B("FloorDiv", va, KI(1)), B("FloorDiv", va, KI(-1)), B("Remainder", va, KI(2)), B("FloorDiv", N("Product", << va, vb >>), vb),
  B("LShift", va, KI(3)), B("RShift", va, KI(2)), B("RShift", N("Product", << va, vb >>), KI(5)),
  Cmp(va, "<", vb), Cmp(N("Sum", << va, KI(1) >>), "==", va), Cmp(N("Sum", << va, KI(1) >>), ">", va),
  Cmp(N("Product", << va, vb >>), "==", N("Product", << vb, va >>)), N("Max", << va, vb >>), N("Min", << va, vb, vc >>),
  IfE(Cmp(va, ">", vb), N("Sum", << va, KI(-1) >>), vb), N("Sum", << va >>), N("Product", << vb >>),
  B("FloorDiv", va, N("Sum", << vb, N("Product", << KI(-1), vb >>) >>))       \* division by zero
>>

\* verdict on one observed value: "OK" or the failing clause.  aux: for a remainder at the root, the
\* quotient the same evaluator gave for the same operands
JudgeBig(e, env, got, aux) ==
    IF e.t \in {"FloorDiv", "Remainder", "RShift"} THEN
        LET a == BEval(e.a, env)
            b == IF e.t = "RShift" THEN BigV(FromInt(2 ^ e.b.v.n)) ELSE BEval(e.b, env)
        IN IF (a.k = "err" /\ a.e = "ZeroDivisionError") \/ (IsBig(a) /\ b.k = "err" /\ b.e = "ZeroDivisionError")
           THEN (IF got.k = "err" /\ got.e = "ZeroDivisionError" THEN "OK" ELSE "value-instead-of-error")
           ELSE IF ~IsBig(a) \/ ~IsBig(b) THEN "SKIP"
           ELSE IF b.v.s = 0 THEN (IF got.k = "err" /\ got.e = "ZeroDivisionError" THEN "OK" ELSE "value-instead-of-error")
           ELSE IF got.k = "err" THEN "error-instead-of-value"
           ELSE IF got.k # "big" THEN "wrong-type"
           ELSE IF e.t = "Remainder" THEN
                (IF aux.k # "big" THEN "SKIP"
                 ELSE IF IsDivMod(a.v, b.v, aux.v, got.v) THEN "OK" ELSE "wrong-value")
           ELSE IF IsDivMod(a.v, b.v, got.v, BigSub(a.v, BigMul(got.v, b.v))) THEN "OK" ELSE "wrong-value"
    ELSE LET m == BEval(e, env) IN
         IF m.k = "err" /\ m.e = "ZeroDivisionError"
         THEN (IF got.k = "err" /\ got.e = "ZeroDivisionError" THEN "OK" ELSE "value-instead-of-error")
         ELSE IF m.k = "err" THEN "SKIP"
         ELSE IF got.k = "err" THEN "error-instead-of-value"
         ELSE IF m.k = "bool" THEN (IF got.k = "bool" /\ got.b = m.b THEN "OK"
                                    ELSE IF got.k = "bool" THEN "wrong-value" ELSE "wrong-type")
         ELSE IF got.k # "big" THEN "wrong-type"
         ELSE IF BigEq(m.v, got.v) THEN "OK" ELSE "wrong-value"

\* two levels of operators over the large variables: every inner operator in every operand
\* position of every outer one (the float detour, a truncating quotient, a sign error in the
\* remainder show only when the large value is an OPERAND of the next operator)
CONSTANT Tier
Ops2(l, r) == { N("Sum", << l, r >>), N("Product", << l, r >>), B("FloorDiv", l, r), B("Remainder", l, r),
                N("Max", << l, r >>), N("Min", << l, r >>) }
Ops1(l) == { B("Power", l, KI(2)), B("Power", l, KI(3)), B("RShift", l, KI(7)), B("LShift", l, KI(5)) }
Leaves3 == { va, vb, vc }
LeavesK == Leaves3 \cup { KI(-1), KI(3) }
Inner == UNION { Ops2(l, r) : l \in Leaves3, r \in Leaves3 } \cup UNION { Ops1(l) : l \in Leaves3 }
Outer(i, z) == Ops2(i, z) \cup Ops2(z, i) \cup Ops1(i)
               \cup { Cmp(i, "<", z), Cmp(i, "==", z), Cmp(z, ">=", i), IfE(Cmp(i, ">", z), i, z) }
Gen2 == UNION { Outer(i, z) : i \in Inner, z \in LeavesK }
AllTrees == { Trees[k] : k \in 1..Len(Trees) } \cup Gen2
EnvIxs == IF Tier = "quick" THEN {2, 3, 5, 7} ELSE 1..Len(BigEnvs)
\* generator: one state per (tree, environment)
Init == ix \in (({ Trees[k] : k \in 1..Len(Trees) } \X (1..Len(BigEnvs))) \cup (Gen2 \X EnvIxs))
Next == FALSE /\ UNCHANGED ix
Emit == PrintT(ToJson([e |-> ix[1], benv |-> ix[2]]))
ASSUME PrintT(ToJson([bigenvs |-> BigEnvs]))
\* the oracle's own laws on the values of the box
BoxVals == UNION { { BigEnvs[i].a, BigEnvs[i].b, BigEnvs[i].c } : i \in 1..Len(BigEnvs) } \cup { BZero, FromInt(1), FromInt(-1) }
ASSUME LawsOn(BoxVals)
ASSUME BigDivLaw(BoxVals)
\* a float detour is refuted: (2**53 + 1) // 1 is not 2**53
ASSUME LET e == BigEnvs[2] IN
       /\ IsDivMod(e.a, e.b, e.a, BZero)
       /\ ~IsDivMod(e.a, e.b, BigSub(e.a, FromInt(1)), BZero)
       /\ ~IsDivMod(e.a, e.b, BigSub(e.a, FromInt(1)), FromInt(1))
=============================================================================
