---------------------------- MODULE C05_MemoImpl ----------------------------
(***************************************************************************)
(* A-layer for C05: the look-aside algorithm as the code has it            *)
(* (CachedMapper.__call__ / rec and the CSE-caching mix-in), transcribed:  *)
(*                                                                         *)
(*     key = get_cache_key(expr, *args, **kwargs)                          *)
(*     if key in table: return table[key]           -- no handler runs     *)
(*     result = handler(expr, *args, **kwargs)      -- recursion re-enters *)
(*     table[key] = result; return result                                  *)
(*                                                                         *)
(* with the table being a Python dict, i.e. keys are found by ==           *)
(* (KeyMode "pyeq": (type(expr), expr, args, frozen kwargs)).  The other   *)
(* key modes and StoreMode "nostore" are the seeded bugs of the negative   *)
(* controls; KeyMode "ideal" is the key the statement asks for.            *)
(* mk.scope = "cse" is the mix-in: only CommonSubexpression nodes are      *)
(* looked up / stored (key (expr, *args)), every other node is recomputed. *)
(*                                                                         *)
(* Round 2 - the HIT TEST.  `table.get(key, SENTINEL)` followed by a test  *)
(* of the looked-up value against the sentinel decides "hit".  HitMode     *)
(* "identity" (`is not SENTINEL`) never consults the cached value.         *)
(* HitMode "ne" (`!= SENTINEL`) runs the cached RESULT's own comparison    *)
(* protocol (NeProto): an object that claims to be equal to everything     *)
(* makes the hit look like a miss (the handler runs again), an object      *)
(* whose comparison yields a non-boolean (numpy arrays: elementwise)       *)
(* makes the truth test raise ValueError out of the call.  "ne" is the     *)
(* seeded design error of the negative controls C05_Gen_Buggy_HitByNe_*.   *)
(* A raise unwinds every running handler (X with ok = FALSE, nothing is    *)
(* stored for them).                                                       *)
(*                                                                         *)
(* Round 7: the hit test may also consult the cached value's Python        *)
(* "nothingness": HitMode "notnone" (`table.get(key) is not None`) and     *)
(* "truthy" (`if table.get(key):` / `table.get(key) or compute()`) take a  *)
(* stored result that is None / false in a truth test (C05_Fresh!          *)
(* LooksNothing) for a miss: the handler runs again for a key it already   *)
(* computed.  Negative controls C05_Gen_Buggy_HitNotNone / _HitByTruth.    *)
(*                                                                         *)
(* Round 4 - the DISPATCH PATH.  A miss runs "the handler of the node with  *)
(* the caller's extra arguments".  CachedMapper.__call__ reaches the        *)
(* handler in two ways: directly (the node's own mapper_method) or through  *)
(* rec_fallback (class-hierarchy search / map_foreign), C05_Fresh!          *)
(* DispatchPath.  FbMode "faithful" hands the handler exactly (args,        *)
(* kwargs) on every path - the design.  "mro-dropkw" is the seeded design   *)
(* error of the negative controls *_Buggy_FallbackDropsKw: the method found *)
(* through the node's MRO is called with *args only.  The handler then      *)
(* logs, recurses and computes with the arguments it RECEIVED (HandlerArgs) *)
(* while the result is stored under the caller's key.  The CSE mix-in       *)
(* (scope "cse") has no dispatch of its own.                                *)
(*                                                                         *)
(* CRec produces the result together with the events an instrumented       *)
(* mapper would log, so that TLC can run the S-layer machine (C05_Memo)    *)
(* on them: "the algorithm refines the memo machine".                      *)
(***************************************************************************)
EXTENDS C05_Memo

InScope(mk, e) == mk.scope = "all" \/ e.t = "CSE"

\* what `cached != SENTINEL` amounts to, by the cached value's own protocol
NeProto(r) == IF r.rk = "obj" THEN r.eq ELSE "std"
HitOutcome(hit, r) ==
    IF hit = "identity" THEN "hit"
    ELSE IF hit = "notnone" THEN (IF LooksNone(r) THEN "miss" ELSE "hit")
    ELSE IF hit = "truthy" THEN (IF LooksNothing(r) THEN "miss" ELSE "hit")
    ELSE CASE NeProto(r) = "alleq"       -> "miss"     \* __ne__ is falsy: looks absent
           [] NeProto(r) = "elementwise" -> "raise"    \* bool(non-boolean) raises
           [] OTHER                      -> "hit"
ResErr(r) == r.rk = "err"

\* the extra arguments the handler of e receives when the caller passed a
HandlerArgs(fb, mk, e, a) ==
    IF fb = "mro-dropkw" /\ mk.scope = "all" /\ DispatchPath(e) = "mro"
    THEN Args(a.pos, << >>) ELSE a

RECURSIVE CRecH(_, _, _, _, _, _, _, _)
CRecH(keyMode, storeMode, hit, fb, st, mk, e, a) ==
    LET ik == KeyOf(keyMode, e, a)
        ho == IF InScope(mk, e) /\ ik \in DOMAIN st.tab THEN HitOutcome(hit, st.tab[ik])
              ELSE "miss"
    IN
    IF ho = "hit" THEN [tab |-> st.tab, evs |-> st.evs, r |-> st.tab[ik]]
    ELSE IF ho = "raise" THEN [tab |-> st.tab, evs |-> st.evs, r |-> ErrR("ValueError")]
    ELSE LET ha == HandlerArgs(fb, mk, e, a)
             k  == KeyOf("ideal", e, ha)       \* the handler logs what it received
             ks == RecKids(mk, e)
             RECURSIVE Go(_, _, _)
             Go(s, i, rs) ==
                 IF i > Len(ks) \/ (Len(rs) > 0 /\ ResErr(rs[Len(rs)])) THEN [s |-> s, rs |-> rs]
                 ELSE LET x == CRecH(keyMode, storeMode, hit, fb, s, mk, ks[i], ha) IN
                      Go([tab |-> x.tab, evs |-> x.evs], i + 1, Append(rs, x.r))
             s0 == [tab |-> st.tab,
                    evs |-> IF InScope(mk, e) THEN Append(st.evs, [ev |-> "H", k |-> k])
                            ELSE st.evs]
             g  == Go(s0, 1, << >>)
             bad == Len(g.rs) > 0 /\ ResErr(g.rs[Len(g.rs)])
             r  == IF bad THEN g.rs[Len(g.rs)] ELSE Combine(mk, e, ha, g.rs)
         IN [tab |-> IF InScope(mk, e) /\ storeMode = "store" /\ ~bad THEN (ik :> r) @@ g.s.tab
                     ELSE g.s.tab,
             evs |-> IF InScope(mk, e)
                     THEN Append(g.s.evs, [ev |-> "X", k |-> k, ok |-> ~bad]) ELSE g.s.evs,
             r |-> r]
CRec(keyMode, storeMode, st, mk, e, a) ==
    CRecH(keyMode, storeMode, "identity", "faithful", st, mk, e, a)

TouchedKeys(mk, e, a) ==
    { KeyOf("ideal", s, a) : s \in { t \in Touched(mk, e) : InScope(mk, t) } }

\* one top-level call on an instance whose table is tab: new table, the logged
\* events including the top-level return, and the result
TopCallH(keyMode, storeMode, hit, fb, tab, mk, e, a) ==
    LET x == CRecH(keyMode, storeMode, hit, fb, [tab |-> tab, evs |-> << >>], mk, e, a)
        k == KeyOf("ideal", e, a)
    IN  [tab |-> x.tab, r |-> x.r,
         evs |-> Append(x.evs,
                   IF mk.m = "walk" THEN [ev |-> "W", k |-> k, F |-> TouchedKeys(mk, e, a)]
                   ELSE [ev |-> "R", k |-> k, r |-> x.r, f |-> Fresh(mk, e, a)])]
TopCall(keyMode, storeMode, tab, mk, e, a) ==
    TopCallH(keyMode, storeMode, "identity", "faithful", tab, mk, e, a)
=============================================================================
