---------------------------- MODULE C05_MemoImpl ----------------------------
(***************************************************************************)
(* A-layer for C05: the look-aside algorithm as the code has it            *)
(* (CachedMapper.__call__ / rec and the CSE-caching mix-in), transcribed:  *)
(*                                                                         *)
(*     key = get_cache_key(expr, *args, **kwargs)                          *)
(*     if key in table: return table[key]           -- no handler runs     *)
(*     result = handler(expr, *args, **kwargs)      -- recursion re-enters *)
(*     table[key] = result; return result                                  *)
(*                                                                         *)
(* with the table being a Python dict, i.e. keys are found by ==           *)
(* (KeyMode "pyeq": (type(expr), expr, args, frozen kwargs)).  The other   *)
(* key modes and StoreMode "nostore" are the seeded bugs of the negative   *)
(* controls; KeyMode "ideal" is the key the statement asks for.            *)
(* mk.scope = "cse" is the mix-in: only CommonSubexpression nodes are      *)
(* looked up / stored (key (expr, *args)), every other node is recomputed. *)
(*                                                                         *)
(* CRec produces the result together with the events an instrumented       *)
(* mapper would log, so that TLC can run the S-layer machine (C05_Memo)    *)
(* on them: "the algorithm refines the memo machine".                      *)
(***************************************************************************)
EXTENDS C05_Memo

InScope(mk, e) == mk.scope = "all" \/ e.t = "CSE"

RECURSIVE CRec(_, _, _, _, _, _)
CRec(keyMode, storeMode, st, mk, e, a) ==
    LET ik == KeyOf(keyMode, e, a) IN
    IF InScope(mk, e) /\ ik \in DOMAIN st.tab
    THEN [tab |-> st.tab, evs |-> st.evs, r |-> st.tab[ik]]
    ELSE LET k  == KeyOf("ideal", e, a)
             ks == RecKids(mk, e)
             RECURSIVE Go(_, _, _)
             Go(s, i, rs) ==
                 IF i > Len(ks) THEN [s |-> s, rs |-> rs]
                 ELSE LET x == CRec(keyMode, storeMode, s, mk, ks[i], a) IN
                      Go([tab |-> x.tab, evs |-> x.evs], i + 1, Append(rs, x.r))
             s0 == [tab |-> st.tab,
                    evs |-> IF InScope(mk, e) THEN Append(st.evs, [ev |-> "H", k |-> k])
                            ELSE st.evs]
             g  == Go(s0, 1, << >>)
             r  == Combine(mk, e, a, g.rs)
         IN [tab |-> IF InScope(mk, e) /\ storeMode = "store" THEN (ik :> r) @@ g.s.tab
                     ELSE g.s.tab,
             evs |-> IF InScope(mk, e)
                     THEN Append(g.s.evs, [ev |-> "X", k |-> k, ok |-> TRUE]) ELSE g.s.evs,
             r |-> r]

TouchedKeys(mk, e, a) ==
    { KeyOf("ideal", s, a) : s \in { t \in Touched(mk, e) : InScope(mk, t) } }

\* one top-level call on an instance whose table is tab: new table, the logged
\* events including the top-level return, and the result
TopCall(keyMode, storeMode, tab, mk, e, a) ==
    LET x == CRec(keyMode, storeMode, [tab |-> tab, evs |-> << >>], mk, e, a)
        k == KeyOf("ideal", e, a)
    IN  [tab |-> x.tab, r |-> x.r,
         evs |-> Append(x.evs,
                   IF mk.m = "walk" THEN [ev |-> "W", k |-> k, F |-> TouchedKeys(mk, e, a)]
                   ELSE [ev |-> "R", k |-> k, r |-> x.r, f |-> Fresh(mk, e, a)])]
=============================================================================
