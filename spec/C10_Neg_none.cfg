CONSTANT Bug = "none"
INIT Init
NEXT Next
INVARIANT Refines
CHECK_DEADLOCK FALSE
