CONSTANTS
  HashMode = "real"
  Bug = "none"
  Sweeps = {"near", "deepq", "hier", "xtwin", "xdeep", "self", "forms", "heap", "heapd"}
  PairDepth = 2
  NearDepth = 2
  DeepDepth = 2
  HierDepth = 2
  XDepth = 1
  SelfDepth = 2
  FormDepth = 2
  HeapDepth = 3
  Wide = FALSE
  EmitCases = TRUE
INIT Init
NEXT Next
INVARIANT StepAllowed
INVARIANT EqIsPyEq
INVARIANT HashRespectsEq
INVARIANT DictFindsEqual
INVARIANT NeverStale
INVARIANT NoSkipInModel
INVARIANT Emit
PROPERTY Immutable
PROPERTY HashStable
CHECK_DEADLOCK FALSE
