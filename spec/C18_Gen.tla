------------------------------- MODULE C18_Gen -------------------------------
(***************************************************************************)
(* Stage (1) for C18.  TLC                                                 *)
(*  (a) enumerates the behaviours that are replayed through the real       *)
(*      MultiVector class:                                                 *)
(*        pair    all pairs of basis blades, every dimension 0..MaxN and   *)
(*                every diagonal metric over {1,-1,0,2}: six products,     *)
(*                both orders, reverse/involution of the product;          *)
(*        triple  all triples of basis blades: associativity;              *)
(*        unary   every basis blade with several coefficients plus a pool  *)
(*                of multi-term multivectors: rev/invol/dual/norm/inverse; *)
(*        bilin   small multivectors a,b,c and scalars l,m: bilinearity of *)
(*                all six products (random ones come from C18_GenRand);    *)
(*        eq      pairs of construction recipes: == / != / hash / bool and *)
(*                data normalisation from index tuples;                    *)
(*        sym     pairs of multivectors with symbolic coefficients;        *)
(*        homog   multi-term homogeneous multivectors (2..4 basis blades   *)
(*                of one grade, every grade) -- among them the vectors and *)
(*                pseudovectors, which are always blades: the unary        *)
(*                observations, and the inverse law on whatever inv()      *)
(*                answers (emitted as "unary" cases);                      *)
(*        symeq   pairs of construction recipes whose coefficients are     *)
(*                expression trees (Variable / Sum / Product / numbers):   *)
(*                == / != / hash / bool against tree-wise comparison;      *)
(*        hist    histories on ONE object: multivectors a, b are built,    *)
(*                used as operands of a sequence of operations (sums with  *)
(*                each other and with bare scalars, products, unary ops,   *)
(*                comparisons), their stored data is observed after every  *)
(*                step, and afterwards ==, !=, hash, bool, get_pure_grade  *)
(*                and inv() are asked of the SAME objects against twins    *)
(*                that were built separately and never used;               *)
(*        spc     the WAY the space is constructed is an input: Space(n),  *)
(*                Space(names), get_euclidean_space(n), MultiVector(numpy  *)
(*                vector) -- all without a metric_matrix, Euclidean -- and *)
(*                an explicit metric given as object array / integer array *)
(*                / Fraction entries / without a basis; operands a, b with *)
(*                exact coefficients whose float images are NOT exact      *)
(*                (1/3, 1/7, 3/7, -5/7, ..): the six products both ways,   *)
(*                norm_squared, dual, square, inverse, the metric entries  *)
(*                themselves, and the KIND of number of every coefficient  *)
(*                (exact operands over an exact metric give exact kinds);  *)
(*  (b) checks the property on the model: the Clifford axioms on the       *)
(*      M-layer (C18_Clifford) and "the bitmap algorithm (C18_Bitmap)      *)
(*      refines the meaning" on every generated case;                      *)
(*  (c) prints every complete case as one JSON line.                       *)
(***************************************************************************)
EXTENDS C18_Bitmap, Json, IOUtils
CONSTANTS Tier, Kinds, MaxN
VARIABLES kind, n, g, args

I(a) == << a, 1, 0 >>            \* Python int
F(a, b) == << a, b, 1 >>         \* fractions.Fraction
Fl(a, b) == << a, b, 2 >>        \* float (dyadic)
T(w, c) == << w, c >>
Min2(a, b) == IF a < b THEN a ELSE b

MetricVals == {1, -1, 0, 2}
Metrics(nn) == [1..nn -> MetricVals]
TopN == Min2(MaxN, IF Tier = "quick" THEN 4 ELSE 5)

Metrics4Few == { << 1, 1, 1, 1 >>, << 1, -1, 2, 0 >>, << -1, -1, -1, 1 >>, << 2, -1, 1, -1 >> }
Metrics5Few == { << 1, 1, 1, 1, 1 >>, << 1, -1, 2, 0, -1 >>, << -1, -1, -1, -1, 1 >>,
                 << 2, -1, 1, -1, 2 >>, << 0, 1, -1, 2, 1 >>, << -1, 2, 2, 1, -1 >>,
                 << 1, 1, 1, -1, -1 >>, << 2, 2, -1, 0, 1 >> }
SmallMetrics(nn) ==
    CASE nn = 0 -> { << >> }
      [] nn = 1 -> { << 1 >>, << -1 >>, << 0 >> }
      [] nn = 2 -> { << 1, 1 >>, << 1, -1 >>, << 0, 2 >>, << -1, -1 >> }
      [] nn = 3 -> { << 1, 1, 1 >>, << 1, -1, 2 >>, << 0, 1, -1 >>, << -1, -1, -1 >> }
      [] nn = 4 -> { << 1, 1, 1, 1 >>, << 1, -1, 2, 0 >>, << -1, 1, 1, 1 >> }
      [] OTHER  -> { [i \in 1..nn |-> 1] }

\* a spread-out subset selector for the top dimensions: weighted digit sum mod 8
MetricDigit(v) == CASE v = 1 -> 0 [] v = -1 -> 1 [] v = 0 -> 2 [] v = 2 -> 3
RECURSIVE SpreadFrom(_, _)
SpreadFrom(gg, i) == IF i > Len(gg) THEN 0 ELSE MetricDigit(gg[i]) * (2 * i + 1) + SpreadFrom(gg, i + 1)
Spread(gg) == SpreadFrom(gg, 1) % 8

DimsFor(kd) ==
    CASE kd \in {"pair", "triple", "unary"} -> 0..TopN
      [] kd = "homog" -> 2..TopN
      [] kd = "symeq" -> 2..Min2(MaxN, 3)
      [] kd = "bilin" -> 2..Min2(MaxN, IF Tier = "quick" THEN 3 ELSE 4)
      [] kd = "eq"    -> 0..Min2(MaxN, 3)
      [] kd = "sym"   -> 2..Min2(MaxN, 3)
      [] kd = "hist"  -> 2..Min2(MaxN, IF Tier = "quick" THEN 3 ELSE 4)
      [] kd = "spc"   -> 1..Min2(MaxN, IF Tier = "quick" THEN 3 ELSE 4)
MetricsFor(kd, nn) ==
    CASE kd = "pair"   -> Metrics(nn)
      [] kd = "unary"  -> IF nn <= 4 THEN Metrics(nn) ELSE { gg \in Metrics(nn) : Spread(gg) = 0 }
      [] kd = "triple" -> IF nn <= 3 THEN Metrics(nn)
                          ELSE IF nn = 4 THEN (IF Tier = "quick" THEN Metrics4Few
                                               ELSE { gg \in Metrics(4) : (Spread(gg) % 4) = 0 })
                          ELSE Metrics5Few
      [] kd = "bilin"  -> SmallMetrics(nn)
      [] kd = "sym"    -> SmallMetrics(nn)
      [] kd = "homog"  -> IF nn <= 3 THEN Metrics(nn)
                          ELSE IF nn = 4 THEN (IF Tier = "quick" THEN { gg \in Metrics(4) : Spread(gg) = 0 }
                                               ELSE Metrics(4))
                          ELSE Metrics5Few
      [] kd = "symeq"  -> IF nn = 2 THEN { << 1, -1 >> } ELSE { << 1, 1, 1 >>, << 0, 2, -1 >> }
      [] kd = "hist"   -> IF nn = 2 THEN { << 1, -1 >> } \cup (IF Tier = "quick" THEN {} ELSE { << 0, 2 >> })
                          ELSE IF nn = 3 THEN { << 2, 1, -1 >> } \cup (IF Tier = "quick" THEN {} ELSE { << 0, 1, -1 >> })
                          ELSE { << 1, -1, 2, 0 >> }
      [] kd = "spc"    -> { [i \in 1..nn |-> 1] } \cup
                          (CASE nn = 1 -> { << 2 >> } \cup (IF Tier = "quick" THEN {} ELSE { << -1 >> })
                             [] nn = 2 -> { << 2, -1 >> } \cup (IF Tier = "quick" THEN {} ELSE { << 0, 1 >> })
                             [] nn = 3 -> { << -1, 2, 1 >> } \cup (IF Tier = "quick" THEN {} ELSE { << 0, 1, -1 >> })
                             [] OTHER  -> { << 1, -1, 2, 0 >> })
      [] kd = "eq"     -> IF nn = 0 THEN { << >> } ELSE IF nn = 1 THEN { << -1 >> }
                          ELSE IF nn = 2 THEN { << 1, -1 >> } ELSE { << 1, 1, 1 >>, << 0, 2, -1 >> }
Arity(kd) == CASE kd = "pair" -> 3 [] kd = "triple" -> 3 [] kd = "unary" -> 1
               [] kd = "bilin" -> 4 [] kd = "eq" -> 3 [] kd = "sym" -> 2
               [] kd = "homog" -> 1 [] kd = "symeq" -> 2 [] kd = "hist" -> 3
               [] kd = "spc" -> 3

(* pools of multi-term multivectors (term lists) *)
Multi(nn) ==
    CASE nn = 2 -> {
      << T(<< 1 >>, I(1)), T(<< 2 >>, I(2)) >>,
      << T(<< 1 >>, F(1, 2)), T(<< 2 >>, I(-3)) >>,
      << T(<< 1 >>, I(1)), T(<< 2 >>, I(1)) >>,
      << T(<< >>, I(1)), T(<< 1, 2 >>, I(1)) >>,
      << T(<< 1 >>, I(2)), T(<< 1, 2 >>, I(-1)) >>,
      << T(<< >>, I(-1)), T(<< 2 >>, F(2, 3)), T(<< 1, 2 >>, I(3)) >>,
      << T(<< >>, I(2)), T(<< 1 >>, I(-1)), T(<< 2 >>, I(1)), T(<< 1, 2 >>, F(-1, 2)) >> }
      [] nn = 3 -> {
      << T(<< 1 >>, I(1)), T(<< 2 >>, I(2)), T(<< 3 >>, I(-1)) >>,
      << T(<< 1 >>, F(1, 2)), T(<< 3 >>, I(-3)) >>,
      << T(<< 1 >>, I(1)), T(<< 2 >>, I(1)) >>,
      << T(<< >>, I(1)), T(<< 1, 2 >>, I(1)) >>,
      << T(<< 1 >>, I(2)), T(<< 2, 3 >>, I(1)), T(<< 1, 2, 3 >>, I(-1)) >>,
      << T(<< 1, 2 >>, I(1)), T(<< 1, 3 >>, I(1)), T(<< 2, 3 >>, F(1, 2)) >>,
      << T(<< >>, I(-1)), T(<< 2 >>, F(2, 3)), T(<< 1, 3 >>, I(1)), T(<< 1, 2, 3 >>, I(3)) >>,
      << T(<< >>, I(2)), T(<< 3 >>, I(-1)), T(<< 1, 2 >>, I(1)), T(<< 1, 2, 3 >>, F(-1, 2)) >> }
      [] nn = 4 -> {
      << T(<< 1 >>, I(1)), T(<< 2 >>, I(2)), T(<< 4 >>, I(-1)) >>,
      << T(<< 1 >>, F(1, 2)), T(<< 3 >>, I(-3)), T(<< 4 >>, I(1)) >>,
      << T(<< >>, I(1)), T(<< 1, 4 >>, I(1)) >>,
      << T(<< 2 >>, I(2)), T(<< 2, 3 >>, I(1)), T(<< 1, 2, 4 >>, I(-1)) >>,
      << T(<< 1, 2 >>, I(1)), T(<< 3, 4 >>, I(1)) >>,
      << T(<< >>, I(-1)), T(<< 3 >>, F(2, 3)), T(<< 1, 3 >>, I(1)), T(<< 1, 2, 3, 4 >>, I(3)) >>,
      << T(<< 4 >>, I(-1)), T(<< 2, 4 >>, I(1)), T(<< 2, 3, 4 >>, F(-1, 2)), T(<< 1, 2, 3, 4 >>, I(1)) >> }
      [] OTHER -> {}
Scalars2 == IF Tier = "thorough" THEN { << I(2), I(-3) >>, << F(1, 2), I(1) >>, << I(0), F(-2, 3) >> }
            ELSE { << F(1, 2), I(-3) >>, << I(0), F(-2, 3) >> }

UnaryCoefs(nn) == IF Tier = "thorough" /\ nn <= 4 THEN { F(1, 1), F(-2, 1), F(2, 3), I(-2), I(1) }
                  ELSE IF nn <= 3 THEN { F(-2, 1), F(2, 3), I(-2) }
                  ELSE { F(2, 3), I(-2) }
UnaryPool(nn) == { << T(b, c) >> : b \in Blades(nn), c \in UnaryCoefs(nn) } \cup Multi(nn)
\* quick tier: a and b of the bilinearity cases come from sub-pools
BilinPool(nn, pos) ==
    IF Tier = "thorough" \/ pos = 3 THEN Multi(nn)
    ELSE IF pos = 1 THEN { m \in Multi(nn) : Len(m) >= 3 }
    ELSE { m \in Multi(nn) : Len(m) <= 3 }

(* construction recipes for the eq kind:                                   *)
(*  via "t" dict with index-tuple keys (any order of indices, no repeats)  *)
(*      "b" dict with bitmap keys (blades written as increasing words)     *)
(*      "s" MultiVector(scalar, space)     "r" the bare Python scalar      *)
(*      "v" numpy vector (one term per basis vector, in order)             *)
(*      "d" derived: (X + Y) - Y with X = ts, Y = ts2, both via "t"        *)
(*      "z" derived: X * 0   (ts = X)                                      *)
Rc(via, ts, ts2) == [via |-> via, ts |-> ts, ts2 |-> ts2]
Recipes0 == {
    Rc("t", << >>, << >>),
    Rc("s", << T(<< >>, I(0)) >>, << >>),
    Rc("s", << T(<< >>, I(3)) >>, << >>),
    Rc("s", << T(<< >>, F(3, 1)) >>, << >>),
    Rc("r", << T(<< >>, I(0)) >>, << >>),
    Rc("r", << T(<< >>, I(3)) >>, << >>),
    Rc("b", << T(<< >>, I(3)) >>, << >>),
    Rc("b", << T(<< >>, I(0)) >>, << >>),
    Rc("t", << T(<< >>, I(3)) >>, << >>),
    Rc("t", << T(<< >>, I(0)) >>, << >>),
    Rc("d", << >>, << T(<< >>, I(2)) >>),
    Rc("z", << T(<< >>, I(3)) >>, << >>) }
Recipes1 == {
    Rc("t", << T(<< 1 >>, I(1)) >>, << >>),
    Rc("b", << T(<< 1 >>, Fl(1, 1)) >>, << >>),
    Rc("b", << T(<< 1 >>, I(0)) >>, << >>),
    Rc("t", << T(<< 1 >>, I(0)) >>, << >>),
    Rc("t", << T(<< 1 >>, I(1)), T(<< >>, I(3)) >>, << >>),
    Rc("d", << T(<< 1 >>, I(1)) >>, << T(<< >>, I(5)), T(<< 1 >>, F(1, 2)) >>),
    Rc("z", << T(<< 1 >>, I(1)), T(<< >>, I(3)) >>, << >>) }
Recipes2 == {
    Rc("t", << T(<< 1, 2 >>, I(2)) >>, << >>),
    Rc("t", << T(<< 2, 1 >>, I(-2)) >>, << >>),
    Rc("b", << T(<< 1, 2 >>, I(2)) >>, << >>),
    Rc("b", << T(<< 1, 2 >>, F(2, 1)) >>, << >>),
    Rc("b", << T(<< 1, 2 >>, Fl(2, 1)) >>, << >>),
    Rc("t", << T(<< 1, 2 >>, I(1)), T(<< 2, 1 >>, I(1)) >>, << >>),
    Rc("t", << T(<< 1, 2 >>, I(3)), T(<< 2, 1 >>, I(1)) >>, << >>),
    Rc("b", << T(<< 1 >>, I(1)), T(<< 1, 2 >>, I(2)) >>, << >>),
    Rc("t", << T(<< 2, 1 >>, I(-2)), T(<< 1 >>, I(1)) >>, << >>),
    Rc("d", << T(<< 1 >>, I(1)), T(<< 1, 2 >>, I(2)) >>, << T(<< 2, 1 >>, I(5)), T(<< 2 >>, I(1)) >>),
    Rc("b", << T(<< 2 >>, I(1)), T(<< 1, 2 >>, I(0)) >>, << >>),
    Rc("t", << T(<< 2 >>, I(1)) >>, << >>) }
Recipes3 == {
    Rc("t", << T(<< 3, 1, 2 >>, I(5)) >>, << >>),
    Rc("t", << T(<< 3, 2, 1 >>, I(-5)) >>, << >>),
    Rc("b", << T(<< 1, 2, 3 >>, I(5)) >>, << >>),
    Rc("t", << T(<< 1, 3 >>, I(1)), T(<< 3, 1 >>, F(1, 2)), T(<< 2 >>, I(-1)) >>, << >>),
    Rc("b", << T(<< 1, 3 >>, F(1, 2)), T(<< 2 >>, I(-1)) >>, << >>) }
Vec(nn, c1, c2) == [i \in 1..nn |-> T(<< i >>, IF i = 1 THEN c1 ELSE IF i = nn THEN c2 ELSE I(0))]
RecipesV(nn) == IF nn = 0 THEN {}
                ELSE { Rc("v", Vec(nn, I(1), I(0)), << >>), Rc("v", Vec(nn, I(0), I(0)), << >>),
                       Rc("v", Vec(nn, I(1), I(1)), << >>) }
RecipePool(nn) == Recipes0 \cup (IF nn >= 1 THEN Recipes1 ELSE {})
                           \cup (IF nn >= 2 THEN Recipes2 ELSE {})
                           \cup (IF nn >= 3 THEN Recipes3 ELSE {}) \cup RecipesV(nn)

(* multivectors with symbolic coefficients: a coefficient << cx, cy, c0 >> is the *)
(* linear form cx*x + cy*y + c0 in the variables x, y (built as a pymbolic       *)
(* expression by the driver); results are compared through evaluation at SymPts *)
L3(cx, cy, c0) == << cx, cy, c0 >>
SymPool(nn) ==
    IF nn = 2 THEN {
      << T(<< 1 >>, L3(1, 0, 0)), T(<< 2 >>, L3(0, 1, 0)) >>,
      << T(<< >>, L3(1, 0, 0)), T(<< 1 >>, L3(2, 0, 1)), T(<< 1, 2 >>, L3(0, 1, -3)) >>,
      << T(<< 2 >>, L3(1, 1, 0)), T(<< 1, 2 >>, L3(0, 0, 2)) >>,
      << T(<< >>, L3(0, 0, -1)), T(<< 1 >>, L3(1, -1, 0)), T(<< 2 >>, L3(0, 2, 1)), T(<< 1, 2 >>, L3(1, 0, 0)) >> }
    ELSE {
      << T(<< 1 >>, L3(1, 0, 0)), T(<< 2 >>, L3(0, 1, 0)), T(<< 3 >>, L3(0, 0, 2)) >>,
      << T(<< >>, L3(1, 0, 0)), T(<< 1 >>, L3(2, 0, 1)), T(<< 2, 3 >>, L3(0, 1, -3)) >>,
      << T(<< 2 >>, L3(1, 1, 0)), T(<< 1, 3 >>, L3(0, 0, 2)), T(<< 1, 2, 3 >>, L3(0, 1, 0)) >>,
      << T(<< 1, 2 >>, L3(1, 0, 0)), T(<< 1, 3 >>, L3(0, 1, 0)), T(<< 2, 3 >>, L3(1, 1, 1)) >>,
      << T(<< >>, L3(0, 0, -1)), T(<< 3 >>, L3(1, -1, 0)), T(<< 1, 2 >>, L3(0, 2, 1)), T(<< 1, 2, 3 >>, L3(1, 0, 0)) >> }
SymPts == << << I(2), I(-3) >>, << F(1, 2), I(5) >>, << I(0), F(-2, 3) >> >>

(* multi-term homogeneous multivectors: every set of 2..3 (4 in the thorough *)
(* tier, dimensions <= 4) basis blades of one grade, for every grade, with   *)
(* two coefficient patterns (Fractions, so that divisions stay exact).       *)
(* Grade 1 and grade n-1 elements are always blades; the others mostly are   *)
(* not (inv() may refuse them; what it answers is judged).                   *)
HomCoefs == { << F(3, 1), F(-2, 1), F(5, 1), F(1, 1) >>, << I(1), F(-1, 2), F(2, 1), F(2, 3) >> }
HomSizes(nn) == IF Tier = "thorough" /\ nn <= 4 THEN {2, 3, 4} ELSE {2, 3}
BladesOfGrade(nn, r) == { b \in Blades(nn) : Len(b) = r }
HomTerms(nn, S, cs) ==
    LET sq == SelectSeq(BladeSeq(nn), LAMBDA b : b \in S)
    IN  [i \in 1..Len(sq) |-> T(sq[i], cs[i])]
HomogPool(nn) ==
    UNION { { HomTerms(nn, S, cs) :
                S \in { S0 \in SUBSET BladesOfGrade(nn, r) : Cardinality(S0) \in HomSizes(nn) },
                cs \in HomCoefs } : r \in 0..nn }

(* construction recipes with symbolic coefficients (symeq): a coefficient is *)
(* an expression tree (see C18_Clifford); via "b" bitmap-keyed dict, "t"     *)
(* index-tuple keys (increasing words), "s" MultiVector(expression, space).  *)
(* Every recipe is built twice, separately, by the driver (case (a, a)): the *)
(* twin must be equal to the original and hash like it.                      *)
Num(q) == [k |-> "num", q |-> q, nm |-> "", a |-> << >>]
Var(s) == [k |-> "var", q |-> I(0), nm |-> s, a |-> << >>]
SumT(ar) == [k |-> "sum", q |-> I(0), nm |-> "", a |-> ar]
ProdT(ar) == [k |-> "prod", q |-> I(0), nm |-> "", a |-> ar]
X == Var("x")
Y == Var("y")
TRc(via, ts) == [via |-> via, ts |-> ts]
SymEqPool(nn) ==
    { TRc("b", << T(<< 1 >>, X) >>),
      TRc("t", << T(<< 1 >>, X) >>),
      TRc("b", << T(<< 1 >>, Y) >>),
      TRc("b", << T(<< 1 >>, Num(I(3))) >>),
      TRc("b", << T(<< 1, 2 >>, X) >>),
      TRc("b", << T(<< 1 >>, X), T(<< 1, 2 >>, Num(I(3))) >>),
      TRc("t", << T(<< 1 >>, Y), T(<< 1, 2 >>, Num(I(3))) >>),
      TRc("b", << T(<< 1 >>, SumT(<< X, Y >>)), T(<< 1, 2 >>, ProdT(<< X, Y >>)) >>),
      TRc("b", << T(<< 1 >>, SumT(<< X, Y >>)), T(<< 1, 2 >>, ProdT(<< Y, X >>)) >>),
      TRc("t", << T(<< 1 >>, SumT(<< Y, X >>)), T(<< 1, 2 >>, ProdT(<< X, Y >>)) >>),
      TRc("b", << T(<< >>, ProdT(<< Num(I(2)), X >>)), T(<< 2 >>, Num(F(1, 2))) >>),
      TRc("b", << T(<< >>, ProdT(<< Num(F(2, 1)), X >>)), T(<< 2 >>, Num(F(1, 2))) >>),
      TRc("s", << T(<< >>, X) >>),
      TRc("b", << T(<< >>, X) >>),
      TRc("s", << T(<< >>, SumT(<< ProdT(<< Num(I(2)), X >>), Num(I(1)) >>)) >>),
      TRc("b", << T(<< 2 >>, SumT(<< X, X >>)) >>),
      TRc("b", << T(<< 2 >>, ProdT(<< Num(I(2)), X >>)) >>),
      TRc("b", << T(<< 1 >>, SumT(<< ProdT(<< Num(I(2)), X >>), Num(I(1)) >>)), T(<< 2 >>, Y) >>) }
    \cup (IF nn < 3 THEN {} ELSE
    { TRc("b", << T(<< 1, 3 >>, X), T(<< 1, 2, 3 >>, SumT(<< X, Num(I(1)) >>)) >>),
      TRc("t", << T(<< 1, 3 >>, X), T(<< 1, 2, 3 >>, SumT(<< X, Num(F(1, 1)) >>)) >>),
      TRc("b", << T(<< 1, 3 >>, X), T(<< 1, 2, 3 >>, SumT(<< X, Num(I(-1)) >>)) >>),
      TRc("b", << T(<< 3 >>, ProdT(<< X, SumT(<< Y, Num(I(1)) >>) >>)), T(<< 2, 3 >>, Num(F(-2, 3))) >>) })

(* histories on one object (hist).  A history is a sequence of steps; every  *)
(* step uses the two live objects a, b (and the bare scalar HistQ) as        *)
(* operands:  add a+b, radd b+a, sub a-b, rsub b-a, sadd q+a, adds a+q,      *)
(* ssub q-a, the six products a op b, x (commutator), neg/rev/invol/dual of  *)
(* a, eq a==b, hash hash(a) (memoises), bool.  The tracked objects are never *)
(* rebuilt between the steps.                                                *)
HistQ == F(2, 3)
HistAdditive == { "add", "radd", "sub", "rsub", "sadd", "ssub" }
HistStepsQuick == HistAdditive \cup { "geo", "inn", "eq" }
HistStepsAll == HistStepsQuick \cup { "adds", "out", "lc", "rc", "scl", "x", "neg", "rev", "invol",
                                      "dual", "hash", "bool" }
HistSeqs == IF Tier = "quick" THEN { << s >> : s \in HistStepsQuick }
            ELSE { << s >> : s \in HistStepsAll }
                 \cup { << s, t >> : s \in HistAdditive \cup { "hash", "geo" }, t \in HistAdditive }
HistBlades(nn) == { << T(b, F(3, 5)) >> : b \in Blades(nn) }
HistPoolA(nn) ==
    { << >> } \cup HistBlades(nn)
    \cup (IF nn = 2 \/ Tier = "thorough"
          THEN { << T(b, I(-2)) >> : b \in { x \in Blades(nn) : Len(x) <= 1 } } \cup Multi(nn)
          ELSE {})
HistPoolB(nn) ==
    IF Tier = "thorough" /\ nn = 2 THEN HistPoolA(nn)
    ELSE { << T(<< >>, F(3, 1)) >>, << T(<< >>, I(1)), T(<< 1, 2 >>, I(2)) >> }
         \cup (IF nn = 2 \/ Tier = "thorough" THEN { << >>, << T(<< 2 >>, F(1, 2)) >> } ELSE {})
         \cup (IF nn >= 3 THEN { << T(<< 1, 3 >>, I(-1)), T(<< 2, 3 >>, F(1, 2)) >> } ELSE {})

(* space construction (spc).  Modes without a metric_matrix (the metric is   *)
(* then Euclidean, so they exist for the all-ones metric only):              *)
(*   default Space(n)    names Space([names])    euclid get_euclidean_space  *)
(*   nd      MultiVector(numpy vector), no space given (vector operands)     *)
(* modes with an explicit diagonal metric_matrix:                            *)
(*   obj   object array of ints         int   integer (int64) array          *)
(*   frac  object array, Fraction diagonal     monly  Space(None, matrix)    *)
(* Coefficients: exact numbers whose float images are not exact, and small   *)
(* integers; the products of two of them have denominators 3, 7, 9, 21, 49.  *)
AllOnes(gg) == \A i \in 1..Len(gg) : gg[i] = 1
SpcModes(gg) ==
    IF AllOnes(gg)
    THEN { "default", "names", "euclid", "nd", "obj", "int" }
         \cup (IF Tier = "quick" THEN {} ELSE { "frac", "monly" })
    ELSE { "obj", "int", "frac", "monly" }
SpcCoefs(pos) ==
    IF pos = 2 THEN { F(1, 3), F(-5, 7), I(2) } \cup (IF Tier = "quick" THEN {} ELSE { F(3, 7) })
    ELSE { F(1, 7), I(-3) } \cup (IF Tier = "quick" THEN {} ELSE { F(2, 3) })
SpcMulti(nn) ==
    CASE nn = 1 -> { << T(<< >>, F(2, 3)), T(<< 1 >>, F(1, 3)) >> }
      [] nn = 2 -> {
      << T(<< 1 >>, F(1, 3)), T(<< 2 >>, F(-5, 7)) >>,
      << T(<< >>, F(2, 3)), T(<< 1 >>, F(1, 7)), T(<< 1, 2 >>, F(3, 7)) >>,
      << T(<< 2 >>, I(2)), T(<< 1, 2 >>, F(1, 7)) >> }
      [] nn = 3 -> {
      << T(<< 1 >>, F(1, 3)), T(<< 2 >>, F(1, 7)), T(<< 3 >>, I(2)) >>,
      << T(<< >>, F(2, 3)), T(<< 2 >>, F(-1, 3)), T(<< 1, 3 >>, F(3, 7)), T(<< 1, 2, 3 >>, I(-2)) >>,
      << T(<< 1 >>, F(2, 7)), T(<< 1, 2 >>, F(-5, 7)), T(<< 2, 3 >>, F(1, 3)) >> }
      [] OTHER -> {
      << T(<< 1 >>, F(1, 3)), T(<< 3 >>, F(1, 7)), T(<< 4 >>, I(-2)) >>,
      << T(<< >>, F(1, 3)), T(<< 2, 4 >>, F(3, 7)), T(<< 1, 2, 3, 4 >>, F(-2, 3)) >>,
      << T(<< 2 >>, F(2, 7)), T(<< 1, 2 >>, F(-5, 7)), T(<< 1, 3, 4 >>, F(1, 3)) >> }
IsVecTerms(ts) == \A i \in 1..Len(ts) : Len(ts[i][1]) = 1
SpcPool(nn, pos, sm) ==
    LET all == { << T(b, c) >> : b \in Blades(nn), c \in SpcCoefs(pos) } \cup SpcMulti(nn)
    IN  IF sm = "nd" THEN { m \in all : IsVecTerms(m) } ELSE all

PairCoefs(nn) == IF nn <= 3 \/ (Tier = "thorough" /\ nn = 4)
                 THEN { << I(2), I(-3) >>, << F(3, 2), F(-2, 3) >> }
                 ELSE { << I(2), I(-3) >> }

Pool(kd, nn, pos) ==
    CASE kd = "pair"   -> IF pos <= 2 THEN Blades(nn) ELSE PairCoefs(nn)
      [] kd = "triple" -> Blades(nn)
      [] kd = "unary"  -> UnaryPool(nn)
      [] kd = "bilin"  -> IF pos <= 3 THEN BilinPool(nn, pos) ELSE Scalars2
      [] kd = "sym"    -> SymPool(nn)
      [] kd = "homog"  -> HomogPool(nn)
      [] kd = "symeq"  -> SymEqPool(nn)
      [] kd = "hist"   -> IF pos = 1 THEN HistPoolA(nn) ELSE IF pos = 2 THEN HistPoolB(nn) ELSE HistSeqs
      [] kd = "spc"    -> IF pos = 1 THEN SpcModes(g) ELSE SpcPool(nn, pos, args[1])
      [] kd = "eq"     -> IF pos <= 2 THEN RecipePool(nn)
                          ELSE IF pos = 3 /\ args[1].via \in {"t", "b"} /\ args[2].via \in {"t", "b"}
                               THEN {0, 1} ELSE {0}

\* The thorough tier is generated in slices (environment C18_KIND restricts the
\* kinds, C18_SLICE / C18_NSLICE select the metrics with index = slice mod nslices)
\* so that no batch outgrows the memory of the driver; together the slices are
\* the whole space.
EnvKinds == IF "C18_KIND" \in DOMAIN IOEnv THEN { IOEnv.C18_KIND } ELSE Kinds
SliceK == IF "C18_SLICE" \in DOMAIN IOEnv THEN atoi(IOEnv.C18_SLICE) ELSE 0
NSlice == IF "C18_NSLICE" \in DOMAIN IOEnv THEN atoi(IOEnv.C18_NSLICE) ELSE 1
RECURSIVE MetricIndexFrom(_, _)
MetricIndexFrom(gg, i) == IF i > Len(gg) THEN 0 ELSE MetricDigit(gg[i]) + 4 * MetricIndexFrom(gg, i + 1)
MetricIndex(gg) == MetricIndexFrom(gg, 1)

Init == /\ kind \in Kinds \cap EnvKinds
        /\ n \in DimsFor(kind)
        /\ g \in MetricsFor(kind, n)
        /\ (MetricIndex(g) % NSlice) = SliceK
        /\ args = << >>
Next == /\ Len(args) < Arity(kind)
        /\ \E x \in Pool(kind, n, Len(args) + 1) :
              \* two bare scalars involve no multivector at all
              /\ ~(kind = "eq" /\ Len(args) = 1 /\ args[1].via = "r" /\ x.via = "r")
              /\ args' = Append(args, x)
        /\ UNCHANGED << kind, n, g >>
Complete == Len(args) = Arity(kind)

\* pairs of dimension 5 outside the spread subset of metrics are driven "lite":
\* the six products only
Lite == kind = "pair" /\ n = 5 /\ Spread(g) # 0

(*************************** the case as JSON ******************************)
TripleCoefs == << I(2), I(-1), I(3) >>
Case ==
    CASE kind = "pair"   -> [k |-> kind, n |-> n, g |-> g, a |-> args[1], b |-> args[2],
                             ca |-> args[3][1], cb |-> args[3][2], lite |-> IF Lite THEN 1 ELSE 0]
      [] kind = "triple" -> [k |-> kind, n |-> n, g |-> g, a |-> args[1], b |-> args[2],
                             c |-> args[3], cf |-> TripleCoefs]
      [] kind = "unary"  -> [k |-> kind, n |-> n, g |-> g, a |-> args[1]]
      [] kind = "bilin"  -> [k |-> kind, n |-> n, g |-> g, a |-> args[1], b |-> args[2],
                             c |-> args[3], l |-> args[4][1], m |-> args[4][2]]
      [] kind = "eq"     -> [k |-> kind, n |-> n, g |-> g, ra |-> args[1], rb |-> args[2],
                             xs |-> args[3]]
      [] kind = "sym"    -> [k |-> kind, n |-> n, g |-> g, a |-> args[1], b |-> args[2],
                             pts |-> SymPts]
      [] kind = "homog"  -> [k |-> "unary", n |-> n, g |-> g, a |-> args[1]]
      [] kind = "symeq"  -> [k |-> kind, n |-> n, g |-> g, ra |-> args[1], rb |-> args[2],
                             pts |-> SymPts]
      [] kind = "hist"   -> [k |-> kind, n |-> n, g |-> g, a |-> args[1], b |-> args[2],
                             q |-> HistQ, steps |-> args[3]]
      [] kind = "spc"    -> [k |-> kind, n |-> n, g |-> g, sm |-> args[1], a |-> args[2],
                             b |-> args[3]]
Emit == Complete => PrintT(ToJson(Case))

(************************ the property on the model ************************)
PairModel ==
    LET A  == Mono(args[1], QOf(args[3][1]))
        B  == Mono(args[2], QOf(args[3][2]))
        E  == [geo |-> MVProd("geo", A, B, g), out |-> MVProd("out", A, B, g),
               inn |-> MVProd("inn", A, B, g), scl |-> MVProd("scl", A, B, g),
               lc  |-> MVProd("lc", A, B, g),  rc  |-> MVProd("rc", A, B, g)]
        AB == E.geo
        BA == MVProd("geo", B, A, g)
        r  == Len(args[1])
        s  == Len(args[2])
    IN  \* the insertion form of the word reduction agrees with its definition
        /\ ReduceAgrees(args[1] \o args[2], g) /\ ReduceAgrees(args[2] \o args[1], g)
        \* the bitmap algorithm refines the meaning
        /\ \A op \in Ops : ImplProd(op, A, B, g) = E[op]
        \* the five derived products are grade parts of the geometric product
        /\ \A op \in Ops : E[op] = GradeSel(AB, SelGrades(op, r, s, n))
        /\ \/ Lite
           \/ \* basis vectors anticommute and square to the metric entry
              /\ (r = 1 /\ s = 1 /\ args[1] # args[2]) => MVAdd(AB, BA) = MVZero
              /\ (r = 1 /\ args[1] = args[2]) =>
                    AB = MVScalar(QMul(QInt(g[args[1][1]]), QMul(QOf(args[3][1]), QOf(args[3][2]))))
              \* reverse is an anti-automorphism, grade involution an automorphism
              /\ MVRev(AB) = MVProd("geo", MVRev(B), MVRev(A), g)
              /\ MVInvol(AB) = MVProd("geo", MVInvol(A), MVInvol(B), g)
              /\ ImplRev(A) = MVRev(A) /\ ImplInvol(A) = MVInvol(A)

TripleModel ==
    LET A == Mono(args[1], QOf(TripleCoefs[1]))
        B == Mono(args[2], QOf(TripleCoefs[2]))
        C == Mono(args[3], QOf(TripleCoefs[3]))
        P(op, x, y) == MVProd(op, x, y, g)
    IN  /\ ReduceAgrees(args[1] \o args[2] \o args[3], g)
        /\ P("geo", P("geo", A, B), C) = P("geo", A, P("geo", B, C))
        /\ P("out", P("out", A, B), C) = P("out", A, P("out", B, C))
        \* (3.20) in Dorst/Fontijne/Mann
        /\ P("lc", P("out", A, B), C) = P("lc", A, P("lc", B, C))
        /\ P("rc", A, P("out", B, C)) = P("rc", P("rc", A, B), C)
        /\ ImplProd("geo", ImplProd("geo", A, B, g), C, g) = P("geo", P("geo", A, B), C)

\* X is a two-sided inverse of M (undecided when a product leaves the guarded rationals)
IsInverseG(x, a, gg) ==
    LET p1 == MVProd("geo", x, a, gg)
        p2 == MVProd("geo", a, x, gg)
    IN  MVBad(p1) \/ MVBad(p2) \/ (p1 = MVOne /\ p2 = MVOne)
UnaryModel ==
    LET M == MVOfTerms(args[1], g)
        R == ImplInv(M, n, g)
    IN
    MVBad(M) \/
    /\ MVRev(MVRev(M)) = M /\ MVInvol(MVInvol(M)) = M
    /\ ImplRev(M) = MVRev(M) /\ ImplInvol(M) = MVInvol(M)
    /\ ImplNormSq(M, g) = MVNormSq(M, g)
    /\ ImplDual(M, n, g) = MVDual(M, n, g)
    \* two definitions of the dual agree
    /\ MVProd("lc", M, MVRev(MVPseudo(n)), g) = MVDual(M, n, g)
    /\ MVProd("inn", M, MVRev(MVPseudo(n)), g) = MVDual(M, n, g)
    \* whenever rev(A) A is a non-zero scalar, rev(A) / (rev(A) A) is the inverse
    /\ (RevProdScalar(M, g) /\ NonNull(M, g) /\ ~MVBad(MVInv(M, g))) =>
          IsInverseG(MVInv(M, g), M, g)
    \* vectors and pseudovectors are blades, however many terms they are written with
    /\ (Grades(M) \subseteq {1} \/ Grades(M) \subseteq {n - 1}) => RevProdScalar(M, g)
    \* whatever inv() answers is a two-sided inverse (it may refuse)
    /\ (R.ok /\ ~MVBad(R.v)) => IsInverseG(R.v, M, g)
    /\ (IsMonomial(M) \/ IsVector(M)) =>
          /\ RevProdScalar(M, g)
          /\ (NonNull(M, g) /\ ~MVBad(MVInv(M, g))) =>
                /\ IsInverse(MVInv(M, g), M, g)
                /\ R.ok /\ R.v = MVInv(M, g)
                /\ IsMonomial(M) => ImplInvMono(M, g) = MVInv(M, g)
                /\ (~IsMonomial(M)) => ImplInvPure(M, g) = MVInv(M, g)

\* dict equality refines tree-wise coefficient comparison; tree-wise equal
\* multivectors denote the same rational multivector at every point
SymEqModel ==
    LET ta == args[1].ts
        tb == args[2].ts
        same == TMV(ta) = TMV(tb)
    IN  /\ TWellFormed(ta, n) /\ TWellFormed(tb, n)
        /\ ImplEq(ta, tb) = same
        /\ ImplEq(ta, ta) /\ ImplEq(tb, tb)
        /\ same => \A j \in 1..Len(SymPts) :
                      LET p == << QOf(SymPts[j][1]), QOf(SymPts[j][2]) >>
                      IN  EvalTMV(ta, p) = EvalTMV(tb, p)

(* S-layer for histories: the state is the pair of STORED dicts of the two   *)
(* live objects; a step is a transition of that state (C18_Bitmap.ImplAddD   *)
(* for everything that goes through __add__; products, unary operations and  *)
(* comparisons build new dicts from reads only).  The property on the model: *)
(* no step changes the stored data of an operand, hence after any history    *)
(* what ==, bool, get_pure_grade and inv() see of the used object is what    *)
(* they see of a never used twin, which is the coefficient-wise meaning.     *)
HistStep(st, s) ==
    LET qd == DictOf(MVScalar(QOf(HistQ))) IN
    CASE s = "add"  -> LET r == ImplAddD(st.a, st.b) IN [a |-> r.self, b |-> r.other]
      [] s = "radd" -> LET r == ImplAddD(st.b, st.a) IN [a |-> r.other, b |-> r.self]
      \* a - b is a + (-b): -b is a new object
      [] s = "sub"  -> [a |-> ImplAddD(st.a, ImplNegD(st.b)).self, b |-> st.b]
      [] s = "rsub" -> [a |-> st.a, b |-> ImplAddD(st.b, ImplNegD(st.a)).self]
      \* q + a is a.__radd__(q) = a.__add__(q), the scalar is cast to a new object;
      \* q - a is q + (-a)
      [] s \in {"sadd", "adds"} -> [a |-> ImplAddD(st.a, qd).self, b |-> st.b]
      [] OTHER -> st
RECURSIVE HistRun(_, _, _)
HistRun(st, steps, i) == IF i > Len(steps) THEN st ELSE HistRun(HistStep(st, steps[i]), steps, i + 1)
HistModel ==
    LET A  == MVOfTerms(args[1], g)
        B  == MVOfTerms(args[2], g)
        s0 == [a |-> DictOf(A), b |-> DictOf(B)]
        sN == HistRun(s0, args[3], 1)
        \* d: stored dict of the used object, M: its meaning = the never used twin
        Obs(d, M) ==
            /\ d = DictOf(M)
            /\ ImplEqD(d, DictOf(M)) /\ ImplEqD(DictOf(M), d)
            /\ ImplBoolD(d) = (M # MVZero)
            /\ ImplPureGradeD(d) = PureGrade(M)
            /\ ImplInvD(d, n, g) = ImplInv(M, n, g)
    IN  MVBad(A) \/ MVBad(B) \/ (Obs(sN.a, A) /\ Obs(sN.b, B))

(* space construction: whatever way the space was constructed, the bitmap  *)
(* algorithm over its metric refines the meaning, and -- the operands being  *)
(* exact and the metric entries of every construction being exact numbers -- *)
(* no term of any product is computed with a float.                          *)
SpcModel ==
    LET A  == MVOfTerms(args[2], g)
        B  == MVOfTerms(args[3], g)
        mk == ImplMetricKind(args[1])
    IN  /\ (args[1] \in DefaultMetricModes) => AllOnes(g)
        /\ \A op \in Ops :
              /\ LET m == MVProd(op, A, B, g)
                     i == ImplProd(op, A, B, g)
                 IN  MVBad(m) \/ MVBad(i) \/ m = i
              /\ ~ImplProdInexact(op, A, B, g, mk) /\ ~ImplProdInexact(op, B, A, g, mk)
        /\ ~ImplProdInexact("scl", MVRev(A), A, g, mk)

BilinModel ==
    LET A == MVOfTerms(args[1], g)
        B == MVOfTerms(args[2], g)
        C == MVOfTerms(args[3], g)
        l == QOf(args[4][1])
        m == QOf(args[4][2])
        L == MVLin(l, A, m, B)
    IN  \A op \in Ops :
          LET l1 == MVProd(op, L, C, g)
              r1 == MVLin(l, MVProd(op, A, C, g), m, MVProd(op, B, C, g))
              l2 == MVProd(op, C, L, g)
              r2 == MVLin(l, MVProd(op, C, A, g), m, MVProd(op, C, B, g))
          IN  /\ (MVBad(l1) \/ MVBad(r1) \/ l1 = r1)
              /\ (MVBad(l2) \/ MVBad(r2) \/ l2 = r2)
              /\ (MVBad(l1) \/ ImplProd(op, L, C, g) = l1)
              /\ (MVBad(l2) \/ ImplProd(op, C, L, g) = l2)

ModelHolds ==
    Complete =>
      CASE kind = "pair"   -> PairModel
        [] kind = "triple" -> TripleModel
        [] kind = "unary"  -> UnaryModel
        [] kind = "homog"  -> UnaryModel
        [] kind = "symeq"  -> SymEqModel
        [] kind = "bilin"  -> BilinModel
        [] kind = "hist"   -> HistModel
        [] kind = "spc"    -> SpcModel
        [] OTHER -> TRUE
=============================================================================
