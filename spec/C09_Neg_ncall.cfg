CONSTANT Bug = "ncall"
INIT Init
NEXT Next
INVARIANT NegRefines
CHECK_DEADLOCK FALSE
