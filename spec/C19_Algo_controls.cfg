CONSTANTS
  Bugs = {"drop_last", "no_square", "accept_negative", "swap_forgot", "wrong_T", "stride", "twiddle",
          "forward_swapped", "coeffs_exchanged", "lcm_divides_twice",
          "flag_overwritten", "base_ignored", "any_for_all", "generator_consumed"}
  MaxN = 6
  R = 3
  FFTLens = {4, 6}
  MaxTerms = 3
INIT Init
NEXT Next
INVARIANTS EntryBugKeepsGcd Ctl_forward_swapped Ctl_coeffs_exchanged Ctl_lcm_divides_twice
           Ctl_drop_last Ctl_no_square Ctl_accept_negative Ctl_swap_forgot Ctl_wrong_T Ctl_stride Ctl_twiddle
           Ctl_flag_overwritten Ctl_flag_overwritten_result Ctl_base_ignored Ctl_any_for_all Ctl_generator_consumed
CHECK_DEADLOCK FALSE
