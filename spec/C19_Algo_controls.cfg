CONSTANTS
  Bugs = {"drop_last", "no_square", "accept_negative", "swap_forgot", "wrong_T", "stride", "twiddle"}
  MaxN = 6
  R = 3
  FFTLens = {4, 6}
INIT Init
NEXT Next
INVARIANTS Ctl_drop_last Ctl_no_square Ctl_accept_negative Ctl_swap_forgot Ctl_wrong_T Ctl_stride Ctl_twiddle
CHECK_DEADLOCK FALSE
