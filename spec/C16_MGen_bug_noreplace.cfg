CONSTANT Tier = "quick"
CONSTANT BugM = "noreplace"
INIT Init
NEXT Next
INVARIANT MeaningSelfCheck
INVARIANT RewriteMachineOK
INVARIANT RoundTripMeaning
CHECK_DEADLOCK FALSE
