CONSTANT Bug = "slicestep"
INIT Init
NEXT Next
INVARIANT NegRefines
CHECK_DEADLOCK FALSE
