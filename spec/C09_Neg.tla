------------------------------- MODULE C09_Neg -------------------------------
(***************************************************************************)
(* Negative controls for stage (1) of C09: the transcriptions of           *)
(* C09_Analyses carry seeded-bug switches; with any of them on, TLC MUST   *)
(* report NegRefines violated on this small set of trees (harness/c09.py   *)
(* checks that).  With Bug = "none" the invariant must hold.               *)
(***************************************************************************)
EXTENDS C09_Analyses
CONSTANT Bug
VARIABLE tree

x == V("x")  y == V("y")  z == V("z")  ff == V("f")  tt == V("t")  oo == V("o")
Trees == {
  Call(ff, << x >>),
  CallKw(ff, << x >>, << KwArg("k1", y) >>),
  Look(oo, "p"),
  N("Sum", << CSE0(N("Product", << x, y >>)), CSE0(N("Product", << x, y >>)) >>),
  B("Sub", tt, N("Slice", << x, NoneE, y >>)),
  N("Product", << N("Sum", << x, y >>), N("Sum", << x, y >>) >>) }

Init == tree \in Trees
Next == UNCHANGED tree
NegRefines == /\ DepsImplRefinesB(tree, Bug)
              /\ NodeCountImplRefinesB(tree, Bug)
              /\ FlopsImplRefinesB(tree, Bug)
=============================================================================
