------------------------------- MODULE C09_Neg -------------------------------
(***************************************************************************)
(* Negative controls for stage (1) of C09: the transcriptions of           *)
(* C09_Analyses carry seeded-bug switches; with any of them on, TLC MUST   *)
(* report NegRefines violated on this small set of trees (harness/c09.py   *)
(* checks that).  With Bug = "none" the invariant must hold.               *)
(***************************************************************************)
EXTENDS C09_Analyses
CONSTANT Bug
VARIABLE tree

Trees == NegTrees

Init == tree \in Trees
Next == UNCHANGED tree
NegRefines == AllRefineB(tree, Bug)
=============================================================================
