------------------------------- MODULE C02_Arr -------------------------------
(***************************************************************************)
(* C02, arrays: an object array of expressions means the array of the      *)
(* meanings of its entries, entry for entry at the same index - whatever   *)
(* the memory layout of the array (C order, Fortran order, a transposed or *)
(* reversed view).  In the model an array is a shape, an entry function    *)
(* over logical indices and a layout giving each logical index its place   *)
(* in memory; its denotation as an expression tree is the rectangular      *)
(* nested List of its entries (so Eval and C02_Judge apply unchanged, and   *)
(* the driver compares result.tolist()).                                    *)
(*                                                                          *)
(* A-layer: EvaluationMapper.map_numpy_array walks numpy.ndindex(shape)     *)
(* and stores rec(expr[i]) at result[i] (Mode = "indexwise").  The negative *)
(* control Mode = "flatK" reads the entries in memory order and writes      *)
(* them in C order: TLC must reject it on every non-C layout.               *)
(***************************************************************************)
EXTENDS C02_Env, Json
CONSTANT Mode
VARIABLES shape, lay, par

x == V("x")  y == V("y")  z == V("z")  tt == V("t")
P == << x, y, KI(2), N("Sum", << x, KI(1) >>), B("Quotient", x, z), N("Product", << x, y >>),
        B("Sub", tt, KI(1)) >>
Shapes == { << 3 >>, << 2, 2 >>, << 2, 3 >>, << 3, 2 >>, << 1, 3 >>, << 2, 2, 2 >>, << 2, 1, 3 >> }
Layouts == { "C", "F", "T", "R" }

Dim(sh, k) == IF k <= Len(sh) THEN sh[k] ELSE 1
Idxs(sh) == { << i, j, k >> : i \in 0..(Dim(sh, 1) - 1), j \in 0..(Dim(sh, 2) - 1), k \in 0..(Dim(sh, 3) - 1) }
Entry(idx) == P[((par.a * idx[1] + par.b * idx[2] + par.c * idx[3] + par.s) % Len(P)) + 1]

COrd(sh, idx) == (idx[1] * Dim(sh, 2) + idx[2]) * Dim(sh, 3) + idx[3]
FOrd(sh, idx) == (idx[3] * Dim(sh, 2) + idx[2]) * Dim(sh, 1) + idx[1]
\* place in memory of a logical index
Mem(sh, l, idx) ==
    CASE l = "C" -> COrd(sh, idx)
      [] l \in {"F", "T"} -> FOrd(sh, idx)
      [] l = "R" -> COrd(sh, << Dim(sh, 1) - 1 - idx[1], idx[2], idx[3] >>)

\* what the evaluator stores at logical index idx of its (C-ordered) result
ImplAt(idx, env) ==
    IF Mode = "indexwise" THEN Eval(Entry(idx), env)
    ELSE \* k-th entry in memory order lands at the k-th place in C order
         \* (numpy's order "K" undoes negative strides, so a reversed view reads in logical order)
         LET src == CHOOSE s \in Idxs(shape) :
                        (IF lay = "R" THEN COrd(shape, s) ELSE Mem(shape, lay, s)) = COrd(shape, idx)
         IN Eval(Entry(src), env)

EntrywiseMeaning ==
    \A i \in 1..Len(Envs), idx \in Idxs(shape) :
        LET m == Eval(Entry(idx), Envs[i]) a == ImplAt(idx, Envs[i]) IN
        IsUnrep(m) \/ IsUnrep(a) \/ (IsErr(m) /\ IsErr(a)) \/ (~IsErr(m) /\ ~IsErr(a) /\ ValEq(m, a))

\* the denotation: nested List, innermost axis last
Nest ==
    LET L3(i, j) == N("List", [k \in 1..Dim(shape, 3) |-> Entry(<< i, j, k - 1 >>)])
        L2(i) == IF Len(shape) = 2 THEN N("List", [j \in 1..shape[2] |-> Entry(<< i, j - 1, 0 >>)])
                 ELSE N("List", [j \in 1..shape[2] |-> L3(i, j - 1)])
    IN  IF Len(shape) = 1 THEN N("List", [i \in 1..shape[1] |-> Entry(<< i - 1, 0, 0 >>)])
        ELSE N("List", [i \in 1..shape[1] |-> L2(i - 1)])

Init == /\ shape \in Shapes
        /\ lay \in Layouts
        /\ par \in [a : 0..2, b : 0..2, c : 0..1, s : 0..(Len(P) - 1)]
Next == FALSE /\ UNCHANGED << shape, lay, par >>

Emit == PrintT(ToJson([e |-> Nest, lay |-> lay, shape |-> shape]))
=============================================================================
