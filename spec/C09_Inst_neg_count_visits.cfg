CONSTANT Tier = "quick"
CONSTANT Buggy = "count_visits"
INIT Init
NEXT Next
INVARIANT InstInvHolds
CHECK_DEADLOCK FALSE
