------------------------------ MODULE C19_Arith ------------------------------
(***************************************************************************)
(* C19, parts (a) integer_power, (b) extended Euclid / gcd / lcm on        *)
(* integers, (c) FFT.                                                      *)
(*                                                                         *)
(* M-layer (decides): Pow by repeated multiplication in a monoid; Divides, *)
(* IsGcd, Bezout, IsLcm from the definitions of elementary number theory;  *)
(* the discrete Fourier transform by its defining sum over Z_p and over    *)
(* the Gaussian integers.  Written from the mathematics, not from          *)
(* pymbolic.                                                               *)
(*                                                                         *)
(* A-layer (never decides about the implementation): SquareMultiply,       *)
(* ExtEuclid, FindFactors and CooleyTukey transcribed from                 *)
(* pymbolic/algorithm.py as the code has them.  C19_Gen lets TLC check     *)
(* "A-layer = M-layer" over the whole generated space before any code      *)
(* runs; C19_Algo re-states the two loops as state machines with their     *)
(* loop invariants.                                                        *)
(***************************************************************************)
EXTENDS PyNum

Max2(a, b) == IF a < b THEN b ELSE a
Force(s) == s \o << >>          \* makes TLC materialise a lazily defined sequence

(***************************************************************************)
(* (a) Monoids.  An element is a sequence of integers, the monoid is named *)
(* by (mon, m):                                                            *)
(*   "zm"   <<v>>          integers modulo m                               *)
(*   "mat"  <<a,b,c,d>>    2x2 matrices ((a b)(c d)) modulo m              *)
(*   "word" <<l1,...,lk>>  the free monoid over letters (non-commutative)  *)
(*   "int"  <<v>>          the integers (generator keeps |x|^n small)      *)
(*   "rat"  <<num, den>>   the rationals, in lowest terms with den > 0     *)
(*                         (fractions.Fraction; generator keeps them small)*)
(***************************************************************************)
Monoids == {"zm", "mat", "word", "int", "rat"}
RatNorm(n, d) == LET g == Gcd(n, d) IN << n \div g, d \div g >>

MMul(mon, m, a, b) ==
    CASE mon = "zm"   -> << (a[1] * b[1]) % m >>
      [] mon = "mat"  -> << (a[1] * b[1] + a[2] * b[3]) % m, (a[1] * b[2] + a[2] * b[4]) % m,
                            (a[3] * b[1] + a[4] * b[3]) % m, (a[3] * b[2] + a[4] * b[4]) % m >>
      [] mon = "word" -> a \o b
      [] mon = "int"  -> << a[1] * b[1] >>
      [] mon = "rat"  -> RatNorm(a[1] * b[1], a[2] * b[2])

MOne(mon, m) ==
    CASE mon = "zm"   -> << 1 % m >>
      [] mon = "mat"  -> << 1 % m, 0, 0, 1 % m >>
      [] mon = "word" -> << >>
      [] mon = "int"  -> << 1 >>
      [] mon = "rat"  -> << 1, 1 >>

WellFormedElt(mon, m, a) ==
    CASE mon = "zm"   -> m > 0 /\ Len(a) = 1 /\ a[1] \in 0..(m - 1)
      [] mon = "mat"  -> m > 0 /\ Len(a) = 4 /\ \A i \in 1..4 : a[i] \in 0..(m - 1)
      [] mon = "word" -> TRUE
      [] mon = "int"  -> Len(a) = 1
      [] mon = "rat"  -> Len(a) = 2 /\ a[2] > 0 /\ Gcd(a[1], a[2]) = 1

\* M-layer: the product of n copies of x (n >= 0); the empty product is the unit.
\* In a monoid every bracketing of x * x * ... * x is the same element; the copies are
\* bracketed as a balanced tree only to keep TLC's recursion shallow (PowLinear is the
\* left-to-right bracketing; C19_Gen checks that both agree).
RECURSIVE Pow(_, _, _, _)
Pow(mon, m, x, n) ==
    IF n = 0 THEN MOne(mon, m) ELSE IF n = 1 THEN x
    ELSE MMul(mon, m, Pow(mon, m, x, n \div 2), Pow(mon, m, x, n - (n \div 2)))
RECURSIVE PowLinear(_, _, _, _)
PowLinear(mon, m, x, n) ==
    IF n = 0 THEN MOne(mon, m) ELSE MMul(mon, m, PowLinear(mon, m, x, n - 1), x)

\* |x|^n stays below the guard (used by the generator for the plain integers)
IntPowSmall(x, n) == IF Abs(x) <= 1 THEN TRUE ELSE IF n < 0 \/ n > 15 THEN FALSE ELSE IPowG(Abs(x), n) # BIG

\* A-layer: pymbolic.algorithm.integer_power, n >= 0, as the code has it
\*   aux = one
\*   while n > 0:
\*       if n & 1: aux *= x ; if n == 1: return aux
\*       x = x * x ; n //= 2
\*   return aux
SquareMultiply(mon, m, x0, n0, one) ==
    LET RECURSIVE Loop(_, _, _)
        Loop(aux, x, n) ==
            IF n > 0
            THEN LET aux2 == IF (n % 2) = 1 THEN MMul(mon, m, aux, x) ELSE aux IN
                 IF (n % 2) = 1 /\ n = 1 THEN aux2
                 ELSE Loop(aux2, MMul(mon, m, x, x), n \div 2)
            ELSE aux
    IN  Loop(one, x0, n0)

(* Observation of one integer_power call:                                  *)
(*   [r |-> "ok", t |-> "mon" | "int" | "other", v |-> <<ints>>, e |-> ""]   *)
(*   [r |-> "err", e |-> exception class, t |-> "", v |-> <<>>]             *)
(*   [r |-> "timeout", ...]                                                *)
(* case: [mon, m, x, n, one] with one \in {"id", "default"} ("default" =   *)
(* the parameter is omitted and the code starts from the integer 1).       *)
JudgePow(c, o) ==
    IF ~WellFormedElt(c.mon, c.m, c.x) THEN "SKIP"
    ELSE IF c.n < 0 THEN (IF o.r = "err" THEN "OK" ELSE "pow-negative-not-refused")
    ELSE IF o.r = "err" THEN "pow-raised"
    ELSE IF o.r = "timeout" THEN "pow-timeout"
    ELSE IF o.t = "other" THEN "SKIP"
    ELSE IF c.n = 0 /\ c.one = "default"
         \* the empty product is the unit that was passed: the integer 1
         THEN (IF o.t = "int" /\ o.v = << 1 >> THEN "OK" ELSE "pow-value")
    ELSE IF o.v = Pow(c.mon, c.m, c.x, c.n)
            /\ (o.t = "mon" \/ (c.mon = "int" /\ o.t = "int")) THEN "OK"
    ELSE "pow-value"

(***************************************************************************)
(* (b) Euclid on the integers.                                             *)
(***************************************************************************)
Divides(d, a) == IF d = 0 THEN a = 0 ELSE (a % Abs(d)) = 0

\* g is a greatest common divisor of q and r: a common divisor that every
\* common divisor divides (so gcd(0,0) = 0 and the sign of g is free)
IsGcd(g, q, r) ==
    /\ Divides(g, q) /\ Divides(g, r)
    /\ \A d \in 1..(Abs(q) + Abs(r) + Abs(g) + 1) :
          (Divides(d, q) /\ Divides(d, r)) => Divides(d, g)

Bezout(g, a, b, q, r) == g = a * q + b * r

\* l is a least common multiple of q and r: a common multiple that divides every
\* common multiple (sign free; lcm(0, r) = 0)
IsLcm(l, q, r) ==
    /\ Divides(q, l) /\ Divides(r, l)
    /\ IF Abs(q) * Abs(r) <= 4000
       THEN \A mm \in 0..(Abs(q) * Abs(r)) : (Divides(q, mm) /\ Divides(r, mm)) => Divides(l, mm)
       \* large operands: the classical identity |l| * gcd = |q * r| with the gcd itself
       \* characterised by IsGcd (checking every common multiple would take millions of steps)
       ELSE LET g == Gcd(q, r) IN IsGcd(g, q, r) /\ Abs(l) * g = Abs(q) * Abs(r)

IsGcdMany(g, xs) ==
    /\ \A i \in 1..Len(xs) : Divides(g, xs[i])
    /\ LET bound == Abs(g) + 1 + (IF Len(xs) = 0 THEN 0 ELSE
                                  LET RECURSIVE S(_) S(i) == IF i = 0 THEN 0 ELSE Abs(xs[i]) + S(i - 1)
                                  IN S(Len(xs)))
       IN \A d \in 1..bound : (\A i \in 1..Len(xs) : Divides(d, xs[i])) => Divides(d, g)

\* Python's divmod on integers (floor division), r # 0
PyDiv(a, b) == IF b > 0 THEN a \div b ELSE (-a) \div (-b)
PyMod(a, b) == a - b * PyDiv(a, b)

\* A-layer: pymbolic.algorithm.extended_euclidean on integers (norm = abs)
RECURSIVE EELoop(_, _, _, _)
EELoop(q, r, QQ, RR) ==
    IF r = 0 THEN << q, QQ[1], QQ[2] >>
    ELSE LET quot == PyDiv(q, r) t == PyMod(q, r) IN
         EELoop(r, t, RR, << QQ[1] - quot * RR[1], QQ[2] - quot * RR[2] >>)
RECURSIVE ExtEuclid(_, _)
ExtEuclid(q, r) ==
    IF Abs(q) < Abs(r) THEN LET s == ExtEuclid(r, q) IN << s[1], s[3], s[2] >>
    ELSE EELoop(q, r, << 1, 0 >>, << 0, 1 >>)
GcdImpl(q, r) == ExtEuclid(q, r)[1]
\* abs(q*r)//gcd(q, r) as <<1, value>>; <<0, 0>> = ZeroDivisionError (the gcd is 0)
LcmImpl(q, r) == LET g == GcdImpl(q, r) IN IF g = 0 THEN << 0, 0 >> ELSE << 1, PyDiv(Abs(q * r), g) >>

(* Observations: a result is [r |-> "ok"|"err"|"timeout", v |-> <<value records>>, e |-> class] *)
IntRes(o, k) == o.r = "ok" /\ Len(o.v) = k /\ \A i \in 1..k : IsNum(o.v[i]) /\ o.v[i].d = 1
                                                              /\ Abs(o.v[i].n) <= LIMIT

JudgeEE(c, o) ==
    IF o.r = "err" THEN "ee-raised" ELSE IF o.r = "timeout" THEN "ee-timeout"
    ELSE IF ~IntRes(o, 3) THEN "SKIP"
    ELSE LET g == o.v[1].n a == o.v[2].n b == o.v[3].n IN
         IF ~Bezout(g, a, b, c.q, c.r) THEN "ee-bezout"
         ELSE IF ~IsGcd(g, c.q, c.r) THEN "ee-not-gcd" ELSE "OK"
JudgeGcd(c, o) ==
    IF o.r = "err" THEN "gcd-raised" ELSE IF o.r = "timeout" THEN "gcd-timeout"
    ELSE IF ~IntRes(o, 1) THEN "SKIP"
    ELSE IF IsGcd(o.v[1].n, c.q, c.r) THEN "OK" ELSE "gcd-not-gcd"
JudgeLcm(c, o) ==
    \* lcm(0,0): |q*r|/gcd is 0/0; both an exception and 0 are consistent
    IF c.q = 0 /\ c.r = 0 THEN
        (IF o.r = "err" \/ (IntRes(o, 1) /\ o.v[1].n = 0) THEN "OK"
         ELSE IF o.r = "ok" /\ ~IntRes(o, 1) THEN "SKIP" ELSE "lcm-wrong")
    ELSE IF o.r = "err" THEN "lcm-raised" ELSE IF o.r = "timeout" THEN "lcm-timeout"
    ELSE IF ~IntRes(o, 1) THEN "SKIP"
    ELSE IF IsLcm(o.v[1].n, c.q, c.r) THEN "OK" ELSE "lcm-wrong"
JudgeGcdMany(c, o) ==
    IF Len(c.xs) = 0 THEN "SKIP"
    ELSE IF o.r = "err" THEN "gcdmany-raised" ELSE IF o.r = "timeout" THEN "gcdmany-timeout"
    ELSE IF ~IntRes(o, 1) THEN "SKIP"
    ELSE IF IsGcdMany(o.v[1].n, c.xs) THEN "OK" ELSE "gcdmany-not-gcd"

(***************************************************************************)
(* (b') Entry points.  "The extended Euclidean routine ... and lcm is      *)
(* consistent with it" is exposed through several doors: the functions of  *)
(* pymbolic.algorithm ("alg") and the traits objects of the operands -     *)
(* traits(q) ("traits_q"), traits(r) ("traits_r"), common_traits(q, r)     *)
(* ("common") and the generic class EuclideanRingTraits itself ("ring") -  *)
(* each with gcd_extended / gcd / lcm.  The statement is about the         *)
(* operands in the order the CALLER gave them, whatever door was used:     *)
(* every entry is driven with the same pairs and judged with the same      *)
(* clauses (JudgeEE, JudgeGcd, JudgeLcm above).                            *)
(*                                                                         *)
(* A-layer (pymbolic/traits.py as the code has it): gcd_extended(q, r) is  *)
(* extended_euclidean(q, r), gcd its first component, lcm = a*b/gcd(a, b)  *)
(* (no abs; a true division whose result is exact in the model).  An       *)
(* entry is modelled as "forward the operands, hand the triple back"; fw   *)
(* = "" is the code, the other values are negative controls of C19_Algo.   *)
(***************************************************************************)
Entries == {"alg", "traits_q", "traits_r", "common", "ring"}
EntrySeq == << "alg", "traits_q", "traits_r", "common", "ring" >>
FwdOperands(e, q, r, fw) == IF e # "alg" /\ fw = "forward_swapped" THEN << r, q >> ELSE << q, r >>
BackTriple(e, t, fw) == IF e # "alg" /\ fw = "coeffs_exchanged" THEN << t[1], t[3], t[2] >> ELSE t
EntryEEB(e, q, r, fw) == LET ops == FwdOperands(e, q, r, fw) IN BackTriple(e, ExtEuclid(ops[1], ops[2]), fw)
EntryEE(e, q, r) == EntryEEB(e, q, r, "")
EntryGcd(e, q, r) == EntryEE(e, q, r)[1]
\* <<1, value>>; <<0, 0>> = ZeroDivisionError
EntryLcmB(e, q, r, fw) ==
    LET g == GcdImpl(q, r) IN
    IF g = 0 THEN << 0, 0 >>
    ELSE IF fw = "lcm_divides_twice" THEN << 1, PyDiv(q, g) * PyDiv(r, g) >>
    ELSE IF e = "alg" THEN << 1, PyDiv(Abs(q * r), g) >>
    ELSE << 1, PyDiv(q * r, g) >>                 \* g divides q*r: the true division is exact
EntryLcm(e, q, r) == EntryLcmB(e, q, r, "")

(***************************************************************************)
(* (c) The discrete Fourier transform over Z_p.                            *)
(*   F[x]_k = sum_j z^(k j) x_j ,  z = w^sign, w of multiplicative order n *)
(* pymbolic's z = exp(-2 i pi sign / n); the exact shim of the driver maps *)
(* exp(-2 i pi t / n) to w^t, a ring homomorphic image of the same sums.   *)
(***************************************************************************)
RECURSIVE PowMod(_, _, _)
PowMod(b, e, p) ==
    IF e = 0 THEN 1 % p
    ELSE IF (e % 2) = 0 THEN LET h == PowMod(b, e \div 2, p) IN (h * h) % p
    ELSE (b * PowMod(b, e - 1, p)) % p

IsPrime(p) == p > 1 /\ \A d \in 2..(p - 1) : d * d > p \/ (p % d) # 0
HasOrder(w, n, p) ==
    /\ w \in 1..(p - 1) /\ PowMod(w, n, p) = 1
    /\ \A d \in 1..(n - 1) : (n % d) = 0 => PowMod(w, d, p) # 1
MAXP == 46337                    \* p*p stays below 2^31
GoodParams(n, p, w) == n >= 1 /\ p <= MAXP /\ IsPrime(p) /\ ((p - 1) % n) = 0 /\ HasOrder(w, n, p)

\* smallest prime >= lo that is 1 modulo n, smallest element of order n
\* (TLC's CHOOSE takes the first witness in the order of the interval)
PrimeFrom(lo, n) == CHOOSE q \in lo..MAXP : ((q - 1) % n) = 0 /\ IsPrime(q)
RootFrom(c, n, p) == CHOOSE w \in c..(p - 1) : HasOrder(w, n, p)

\* <<w^0, ..., w^(n-1)>>
PowTab(w, n, p) == Force([i \in 1..n |-> PowMod(w, i - 1, p)])
\* (s[1] + ... + s[k]) mod p, summed as a balanced tree (shallow recursion)
SumModSeq(s, p) ==
    LET RECURSIVE S(_, _)
        S(lo, hi) == IF lo > hi THEN 0 ELSE IF lo = hi THEN s[lo] % p
                     ELSE LET mid == (lo + hi) \div 2 IN (S(lo, mid) + S(mid + 1, hi)) % p
    IN S(1, Len(s))

\* M-layer: the definition (O(n^2)), z of order dividing n
DFT(x, z, p) ==
    LET n == Len(x) tab == PowTab(z, n, p) IN
    Force([k \in 1..n |->
        SumModSeq([j \in 1..n |-> (tab[(((j - 1) * (k - 1)) % n) + 1] * x[j]) % p], p)])
InvMod(a, p) == PowMod(a % p, p - 2, p)
ZInv(w, n, p) == PowMod(w, n - 1, p)          \* w^-1 for w of order n
IDFT(y, w, p) ==
    LET n == Len(y) d == DFT(y, ZInv(w, n, p), p) ni == InvMod(n, p) IN
    Force([k \in 1..n |-> (ni * d[k]) % p])
SignedRoot(w, n, p, sign) == IF sign = 1 THEN w ELSE ZInv(w, n, p)

\* A-layer: pymbolic.algorithm.find_factors
ISqrt(n) == CHOOSE s \in 0..n : s * s <= n /\ (s + 1) * (s + 1) > n
FindFactors(n) ==
    LET mx == ISqrt(n) + 1
        RECURSIVE Go(_)
        Go(n1) == IF (n % n1) # 0 /\ n1 <= mx THEN Go(n1 + 1) ELSE n1
        f  == Go(2)
        n1 == IF f > mx THEN n ELSE f
    IN  << n1, n \div n1 >>

\* A-layer: pymbolic.algorithm.fft (mixed-radix Cooley-Tukey), z = root of order Len(x).
\* bug = "" is the code; the other values are the negative controls of C19_Algo.
RECURSIVE CooleyTukeyB(_, _, _, _)
CooleyTukeyB(x, z, p, bug) ==
    LET n == Len(x) IN
    IF n = 1 THEN x
    ELSE LET ff  == FindFactors(n)
             N1  == ff[1]
             N2  == ff[2]
             zN1 == PowMod(z, N2, p)          \* exp(-2 i pi sign / N1)
             zN2 == PowMod(z, N1, p)          \* root for the sub-transforms of length N2
             \* x[n1::N1]
             Slice(n1) == Force([i \in 1..N2 |->
                              x[(IF bug = "stride" THEN n1 * N2 + i
                                 ELSE n1 + (i - 1) * N1 + 1)]])
             \* fft(x[n1::N1]) * exp(sign*-2j*pi*n1/(N1*N2) * arange(N2))
             Sub(n1) == LET s == CooleyTukeyB(Slice(n1), zN2, p, bug) IN
                        Force([k2 \in 1..N2 |->
                            (s[k2] * PowMod(z, (IF bug = "twiddle" THEN (n1 + 1) ELSE n1) * (k2 - 1), p)) % p])
             subs == Force([j \in 1..N1 |-> Sub(j - 1)])
             \* sum(subvec * exp(sign*(-2j)*pi*n1*k1/N1) for n1, subvec in enumerate(sub_ffts))
             Out(k1, k2) == SumModSeq([j \in 1..N1 |->
                                (subs[j][k2] * PowMod(zN1, (j - 1) * k1, p)) % p], p)
         IN  Force([idx \in 1..n |-> Out((idx - 1) \div N2, ((idx - 1) % N2) + 1)])
CooleyTukey(x, z, p) == CooleyTukeyB(x, z, p, "")

FirstDiff(a, b) ==
    IF Len(a) # Len(b) THEN 0
    ELSE IF \E i \in 1..Len(a) : a[i] # b[i]
         THEN CHOOSE i \in 1..Len(a) : a[i] # b[i] /\ \A j \in 1..(i - 1) : a[j] = b[j]
         ELSE -1

\* what the transform named c.kind must give
FFTExpected(c) ==
    CASE c.kind \in {"fft", "symfft"} -> DFT(c.x, SignedRoot(c.w, c.n, c.p, c.sign), c.p)
      [] c.kind = "ifft"  -> IDFT(c.x, c.w, c.p)
      [] c.kind = "round" -> c.x                 \* ifft(fft(x)) = x
      [] c.kind = "round2" -> c.x                \* fft(ifft(x)) = x
FFTKinds == {"fft", "symfft", "ifft", "round", "round2"}

(* Observation: [r |-> "ok"|"err"|"timeout", y |-> <<ints>>, e |-> class] *)
JudgeFFT(c, o) ==
    IF ~(c.kind \in FFTKinds /\ GoodParams(c.n, c.p, c.w) /\ Len(c.x) = c.n /\ c.sign \in {1, -1}
         /\ \A i \in 1..c.n : c.x[i] \in 0..(c.p - 1)) THEN "SKIP"
    ELSE IF o.r = "err" THEN "fft-raised" ELSE IF o.r = "timeout" THEN "fft-timeout"
    ELSE IF o.r # "ok" THEN "SKIP"
    ELSE IF Len(o.y) # c.n THEN "fft-length"
    ELSE IF o.y = FFTExpected(c) THEN "OK" ELSE "fft-value"

(***************************************************************************)
(* The same transform over the Gaussian integers for the lengths whose     *)
(* roots of unity are Gaussian integers (n divides 4): z = (-i)^(4/n).     *)
(* A Gaussian integer is <<re, im>>.                                       *)
(***************************************************************************)
GAdd(a, b) == << a[1] + b[1], a[2] + b[2] >>
\* a * (-i)^k
GRot(a, k) == CASE (k % 4) = 0 -> a
                [] (k % 4) = 1 -> << a[2], -a[1] >>
                [] (k % 4) = 2 -> << -a[1], -a[2] >>
                [] (k % 4) = 3 -> << -a[2], a[1] >>
GaussDFT(x, sign) ==
    LET n == Len(x) step == 4 \div n
        RECURSIVE S(_, _)
        S(k, j) == IF j = 0 THEN << 0, 0 >>
                   ELSE GAdd(S(k, j - 1), GRot(x[j], sign * step * (j - 1) * (k - 1)))
    IN  [k \in 1..n |-> S(k, n)]

(* case [n, sign, x |-> <<<<re,im>>,...>>], observation [r, y |-> <<<<re,im>>..>>, e] *)
JudgeSymGauss(c, o) ==
    IF ~(c.n \in {1, 2, 4} /\ Len(c.x) = c.n /\ c.sign \in {1, -1}) THEN "SKIP"
    ELSE IF o.r = "err" THEN "symfft-raised" ELSE IF o.r = "timeout" THEN "symfft-timeout"
    ELSE IF o.r # "ok" THEN "SKIP"
    ELSE IF Len(o.y) # c.n THEN "symfft-length"
    ELSE IF o.y = GaussDFT(c.x, c.sign) THEN "OK" ELSE "symfft-value"

(***************************************************************************)
(* (b'') Pairs beyond 32 bit (and beyond the 53 bits of a float): one      *)
(* operand is big = 2^k + a, the other a small integer sm # 0; sw = 1      *)
(* means the caller passes (sm, big).  TLC cannot hold big, but it holds   *)
(* big modulo any small modulus: the driver reports the triple as residues *)
(* modulo the primes c.ps (and g itself when it is small), the lcm as      *)
(* residues of numerator and denominator of the exact rational it is.      *)
(*   - Bezout modulo every prime (a mismatch is a sound refutation);       *)
(*   - g is a gcd: |g| = gcd(sm, big mod |sm|), decided exactly;           *)
(*   - lcm consistent with the gcd: l * gcd = +- q*r modulo every prime    *)
(*     with one sign for all of them.                                      *)
(***************************************************************************)
BigMod(c, m) == (PowMod(2 % m, c.k, m) + (c.a % m)) % m          \* (2^k + a) mod m, m >= 1
BigGcd(c) == Gcd(c.sm, BigMod(c, Abs(c.sm)))                     \* gcd(2^k + a, sm) > 0
BigOK(c) == c.sm # 0 /\ Abs(c.sm) <= LIMIT /\ c.k >= 0 /\ c.k <= 4000 /\ Abs(c.a) <= LIMIT /\ c.sw \in {0, 1}
            /\ \A i \in 1..Len(c.ps) : c.ps[i] > 1 /\ c.ps[i] <= MAXP
\* residues of the caller's first and second operand
BigQ(c, p) == IF c.sw = 0 THEN BigMod(c, p) ELSE c.sm % p
BigR(c, p) == IF c.sw = 0 THEN c.sm % p ELSE BigMod(c, p)
MulMod(x, y, p) == ((x % p) * (y % p)) % p
\* observation of gcd_extended: [r, e, g |-> value record, res |-> << <<g, a, b>> mod p, ... >>]
JudgeBigEE(c, o) ==
    IF ~BigOK(c) THEN "SKIP"
    ELSE IF o.r = "err" THEN "ee-raised" ELSE IF o.r = "timeout" THEN "ee-timeout"
    ELSE IF o.r # "ok" \/ Len(o.res) # Len(c.ps) \/ \E i \in 1..Len(o.res) : Len(o.res[i]) # 3 THEN "SKIP"
    ELSE IF \E i \in 1..Len(c.ps) :
               LET p == c.ps[i] t == o.res[i] IN
               (t[1] % p) # (MulMod(t[2], BigQ(c, p), p) + MulMod(t[3], BigR(c, p), p)) % p
         THEN "ee-bezout"
    ELSE IF ~(IsNum(o.g) /\ o.g.d = 1) THEN "SKIP"
    ELSE IF Abs(o.g.n) # BigGcd(c) THEN "ee-not-gcd" ELSE "OK"
JudgeBigGcd(c, o) ==
    IF ~BigOK(c) THEN "SKIP"
    ELSE IF o.r = "err" THEN "gcd-raised" ELSE IF o.r = "timeout" THEN "gcd-timeout"
    ELSE IF ~IntRes(o, 1) THEN "SKIP"
    ELSE IF Abs(o.v[1].n) # BigGcd(c) THEN "gcd-not-gcd" ELSE "OK"
\* observation of lcm: [r, e, res |-> << <<N mod p, D mod p>>, ... >>] for the result N/D
JudgeBigLcm(c, o) ==
    IF ~BigOK(c) THEN "SKIP"
    ELSE IF o.r = "err" THEN "lcm-raised" ELSE IF o.r = "timeout" THEN "lcm-timeout"
    ELSE IF o.r # "ok" \/ Len(o.res) # Len(c.ps) \/ \E i \in 1..Len(o.res) : Len(o.res[i]) # 2 THEN "SKIP"
    ELSE LET g == BigGcd(c)
             \* N * g = sg * D * q * r  (mod p)
             Holds(sg) == \A i \in 1..Len(c.ps) :
                            LET p == c.ps[i] t == o.res[i]
                                lhs == MulMod(t[1], g, p)
                                rhs == MulMod(t[2], MulMod(BigQ(c, p), BigR(c, p), p), p)
                            IN lhs = (IF sg = 1 THEN rhs ELSE (p - rhs) % p)
         IN IF Holds(1) \/ Holds(-1) THEN "OK" ELSE "lcm-wrong"
\* is the lcm (2^k + a) * (|sm| / gcd) at least 2^53, i.e. beyond the integers a float holds
\* exactly (|a|, |sm| <= LIMIT < 2^15: below k = 38 it never is, from k = 53 on it always is, in
\* between |a| * m < 2^k decides it by comparing m = |sm| / gcd with 2^(53 - k))
BeyondFloat(c) ==
    IF c.k >= 53 THEN TRUE ELSE IF c.k < 38 THEN FALSE
    ELSE LET m == Abs(c.sm) \div BigGcd(c)
             t == PowMod(2, 53 - c.k, MAXP)          \* 2^(53-k) <= 2^15 < MAXP
         IN m > t \/ (m = t /\ c.a >= 0)
=============================================================================
