------------------------------ MODULE C05_Pool ------------------------------
(***************************************************************************)
(* The bounded universe of C05: expression pool (heavy sharing, repeated   *)
(* equal-but-not-identical subtrees, constants that are == but of          *)
(* different type, both directly dispatched and below a node), extra       *)
(* argument tuples, and the table of cached / uncached mapper pairs.       *)
(***************************************************************************)
EXTENDS C05_MemoImpl, Eval

x == V("x")  y == V("y")  ff == V("f")  tt == V("t")  oo == V("o")
K4 == KI(4)  K4f == K(FltV(4, 1))  K1 == KI(1)  KT == K(BoolV(TRUE))  K0 == KI(0)
S1  == N("Sum", << x, K4 >>)
S1f == N("Sum", << x, K4f >>)
SXY == N("Sum", << x, y >>)

PoolCore == <<
    x, K4, K4f, K1, KT,
    S1, S1f,
    N("Product", << S1, S1 >>),                       \* the same subtree twice
    N("Product", << S1, S1f >>),                      \* ==-equal, differently typed subtrees
    B("Quotient", SXY, N("Product", << SXY, K4 >>)),  \* sharing across levels
    Call(ff, << x, S1 >>),
    CSE0(S1),
    N("Sum", << CSE0(S1), CSE0(S1), y >>),            \* one wrapper twice
    Look(B("Sub", tt, K1), "p"),                      \* a lookup of a subscript (dependency flags)
    N("BitAnd", << y, K4 >>),
    N("BitAnd", << y, K4f >>),                        \* evaluates to an error, its == twin does not
    \* round 8: UNEQUAL keys whose hashes collide (CPython: hash(-1) = hash(-2), and a node's hash
    \* is built from its fields' hashes) - a table must still compare the keys themselves
    N("Sum", << x, KI(-1) >>), N("Sum", << x, KI(-2) >>)
>>
PoolMore == <<
    y, K0, K(FltV(1, 1)),
    N("Sum", << x, K1 >>), N("Sum", << x, KT >>),
    B("Sub", tt, K1), B("Sub", tt, KT),
    Look(oo, "p"),
    IfE(Cmp(x, "<", y), S1, S1f),
    CallKw(ff, << S1 >>, << KwArg("k1", S1f) >>),
    CSE0(S1f),
    CSE(N("Product", << K0, x >>), "pre", "pymbolic_expr"),
    CSE0(N("Sum", << y, K0 >>)),
    N("Tup", << x, K4 >>), N("Tup", << x, K4f >>),
    N("List", << x, K1 >>),
    B("Power", SXY, B("Power", SXY, K(FltV(1, 2)))),
    N("Min", << S1, N("Max", << S1, y >>) >>),
    Call(ff, << Call(ff, << x >>), Call(ff, << x >>) >>)
>>
PoolMini == << x, K4, K4f, S1, S1f, N("Product", << S1, S1f >>), CSE0(S1),
              N("Sum", << CSE0(S1), CSE0(S1), y >>) >>
\* round 4: leaves of classes the stock mappers know only through a BASE class (they reach
\* map_variable through the class-hierarchy fallback, C05_Fresh!DispatchPath = "mro"), next
\* to the plain Variable of the same name, repeated below nodes, and under a CSE wrapper
VC(name, cls) == [t |-> "Var", name |-> name, cls |-> cls]
xs == VC("x", "sub")   \* a user subclass of Variable whose own mapper_method no mapper defines
xm == VC("x", "mv")    \* geometric_algebra.primitives.MultiVectorVariable
ys == VC("y", "sub")
SM4 == N("Sum", << xm, K4 >>)
PoolFb == <<
    xs, xm,
    N("Sum", << x, xs, xm >>),                            \* one name, three leaf classes
    N("Product", << SM4, B("Power", SM4, KI(2)) >>),      \* the same fallback leaf below two nodes
    Call(ff, << ys, N("Product", << SM4, ys >>) >>),
    CSE0(N("Sum", << xs, K1 >>))
>>
\* round 5: EVERY FIELD of a node is input alphabet.  TLC chooses the node kind that carries
\* fields, the value of each field (optional ones at their default and away from it: a
\* wrapper's prefix and its three scopes; required ones: the name of a lookup, the
\* operator of a comparison, the keyword of a call) and the arrangement: the node alone (an
\* equal child was mapped in an EARLIER call of the history, FieldPre) or next to a
\* separately written equal child under another parent.  With the build mode "distinct
\* objects for equal subtrees" (C05_Gen!bm) the memoizing mappers then meet an equal but
\* not identical object in the table and take the rebuild branches (C05_Rebuild).
FScopes == << "pymbolic_eval", "pymbolic_expr", "pymbolic_global" >>
FPrefixes == << "", "pre" >>
WrapNodes(c) ==
    [i \in 1..(Len(FScopes) * Len(FPrefixes)) |->
        CSE(c, FPrefixes[((i - 1) % Len(FPrefixes)) + 1], FScopes[((i - 1) \div Len(FPrefixes)) + 1])]
NamedNodes(c) == << Look(c, "p"), Look(c, "q"), Cmp(c, "<", K1), Cmp(c, ">=", K1),
                    CallKw(ff, << c >>, << KwArg("k1", c) >>),
                    CallKw(ff, << c >>, << KwArg("k2", c) >>) >>
Arranged(c, fs) == fs \o [i \in 1..Len(fs) |-> N("Product", << c, fs[i] >>)]
FC1 == S1                     \* its variable is substituted by the substitution pair
FC2 == B("Sub", tt, K1)       \* untouched by every identity-shaped pair
FieldPre == << FC1, FC2 >>
PoolFields == FieldPre \o Arranged(FC1, WrapNodes(FC1))
                       \o Arranged(FC2, WrapNodes(FC2) \o NamedNodes(FC2))
NFieldPre == Len(FieldPre)
PoolConsts == << K4, K4f, K1, KT, K(FltV(1, 1)), K0, K(BoolV(FALSE)) >>

ArgCore == << NoArgs, Args(<< IntV(1) >>, << >>), Args(<< >>, << [name |-> "k", v |-> IntV(1)] >>) >>
ArgMore == << Args(<< IntV(1), IntV(2) >>, << >>),
              Args(<< IntV(2) >>, << >>),
              Args(<< IntV(1) >>, << [name |-> "k", v |-> IntV(2)] >>),
              Args(<< FltV(1, 1) >>, << >>),            \* == (1,) but another type
              Args(<< BoolV(TRUE) >>, << >>) >>

(***************************************************************************)
(* Mapper pairs.  `model` says whether C05_Fresh / C05_MemoImpl have the   *)
(* kind (then TLC also model checks it); the others are driven and judged  *)
(* against their cache-free counterpart only.  args: does the pair accept  *)
(* extra arguments (pos) / keyword arguments (kw).                         *)
(***************************************************************************)
Dep(calls, sub, look, cse, scope) ==
    [m |-> "dep", calls |-> calls, sub |-> sub, look |-> look, cse |-> cse, scope |-> scope]
SubstMap == [x |-> N("Sum", << y, K1 >>), y |-> K4f]

Modelled == <<
    [m |-> "ident", scope |-> "all"],
    [m |-> "ident", scope |-> "cse"],                 \* renaming identity mapper + the mix-in only
    [m |-> "pident", scope |-> "all"],                \* round 5: the STOCK identity pair (no renaming)
    [m |-> "coll",  scope |-> "all"],
    [m |-> "count", scope |-> "all"],
    [m |-> "walk",  scope |-> "all"],
    Dep("yes", TRUE, TRUE, FALSE, "all"),
    Dep("no", FALSE, FALSE, FALSE, "all"),
    Dep("descend", TRUE, FALSE, TRUE, "all"),
    Dep("no", FALSE, TRUE, FALSE, "cse"),             \* DependencyMapper: the mix-in only
    [m |-> "subst", scope |-> "all", map |-> SubstMap],
    \* round 2: results are foreign objects with their own equality protocol; a cache hit
    \* must hand them back without ever consulting it
    [m |-> "probe", scope |-> "all", eq |-> "alleq"],        \* == everything, != nothing
    [m |-> "probe", scope |-> "all", eq |-> "elementwise"],  \* comparisons give a non-boolean
    \* round 7: every handler returns a value that looks like nothing (None, 0, False, ());
    \* it must be kept like any other result (observed through the handler runs per key)
    [m |-> "nil", scope |-> "all", val |-> "none"],
    [m |-> "nil", scope |-> "all", val |-> "zero"],
    [m |-> "nil", scope |-> "all", val |-> "false"],
    [m |-> "nil", scope |-> "all", val |-> "empty"]
>>
\* kinds that take no extra arguments at all
NoArgKinds == {"subst"}
\* ("bcoll", the stock Collector, is modelled for the optimizer part only)
ModelledNames == { Modelled[i].m : i \in 1..Len(Modelled) } \cup {"bcoll"}

\* environments of the evaluation mappers (materialised by the driver from here)
FnV(n) == [k |-> "fn", name |-> n]
ObjV(n) == [k |-> "obj", name |-> n]
TupV(s) == [k |-> "tup", items |-> s]
\* a numpy array (vectorised evaluation): its comparisons are elementwise, so a cached
\* array must never be compared with anything by the look-aside (round 2)
ArrV(s) == [k |-> "arr", items |-> s]
Envs == <<
  [x |-> IntV(2), y |-> IntV(5), f |-> FnV("f"),
   t |-> TupV(<< IntV(10), IntV(20), FracV(5, 2) >>), o |-> ObjV("o1")],
  [x |-> FltV(3, 2), y |-> BoolV(TRUE), f |-> FnV("g"),
   t |-> TupV(<< IntV(10), IntV(20) >>), o |-> ObjV("o2")],
  [x |-> ArrV(<< IntV(1), IntV(2), IntV(3) >>), y |-> ArrV(<< FltV(1, 2), FltV(2, 1), FltV(4, 1) >>),
   f |-> FnV("f"), t |-> TupV(<< IntV(10), IntV(20) >>), o |-> ObjV("o1")]
>>

\* pairs that are driven and judged against their counterpart only
Unmodelled == <<
    [m |-> "eval", scope |-> "all", env |-> 1],
    [m |-> "eval", scope |-> "all", env |-> 2],
    [m |-> "eval", scope |-> "cse", env |-> 1],       \* EvaluationMapper: the mix-in only
    [m |-> "eval", scope |-> "all", env |-> 3],       \* array-valued results
    [m |-> "eval", scope |-> "cse", env |-> 3],
    [m |-> "ncount", scope |-> "all"],
    [m |-> "flop", scope |-> "all"],
    [m |-> "str", scope |-> "all"],
    [m |-> "pyast", scope |-> "all"],
    [m |-> "fold", scope |-> "cse"],
    [m |-> "diff", scope |-> "cse"]
>>
\* which extra arguments a pair accepts: "full" (positional and keyword), "pos", "none"
ArgCap(mk) == CASE mk.scope = "cse" /\ mk.m \in {"ident", "dep"} -> "pos"   \* the mix-in takes *args only
                [] mk.m \in {"ident", "pident", "coll", "count", "walk", "probe"} -> "full"
                [] mk.m = "dep" -> "pos"
                [] OTHER -> "none"
ArgFits(mk, a) == CASE ArgCap(mk) = "full" -> TRUE
                    [] ArgCap(mk) = "pos" -> Len(a.kw) = 0
                    [] OTHER -> a = NoArgs
=============================================================================
