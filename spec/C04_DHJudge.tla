----------------------------- MODULE C04_DHJudge -----------------------------
(***************************************************************************)
(* Stage (3) for the dispatch histories of C04 (round 7): one record = one *)
(* history of C04_DHist replayed on ONE real mapper instance per run       *)
(* (harness/c04drv.py, drive_dhist).  Every dispatch of every run is       *)
(* judged by the meaning of C04_Dispatch on the class of ITS node alone    *)
(* (Target: Dispatch / RecFallback; JudgeObs: first handler, arguments,    *)
(* no second handler, the handler's token comes back) - the history has no *)
(* say.  A failing verdict names the first failing dispatch and how its    *)
(* class relates to the classes the instance dispatched before (rel).      *)
(***************************************************************************)
EXTENDS C04_Dispatch, Json, IOUtils
VARIABLES blk, off

Recs == ndJsonDeserialize(IOEnv.TRACE_FILE)
BS == 64
NB == (Len(Recs) + BS - 1) \div BS
Init == blk \in 0..(NB - 1) /\ off = 0
Next == off < BS - 1 /\ off' = off + 1 /\ UNCHANGED blk
Idx == blk * BS + off + 1

SeqToSet(s) == { s[i] : i \in 1..Len(s) }
ObjOf(e) == [ty |-> "user", base |-> e.base,
             chain |-> [i \in 1..Len(e.chain) |-> Cls(e.chain[i].chars, e.chain[i].deco, e.chain[i].own)]]
NamesOf(L) == LET nm == MRONames(L) IN { nm[k] : k \in 1..Len(nm) } \ {""}

\* how the class dispatched at step i relates to what the instance saw before (attribution only)
Rel(objs, i) ==
    LET Li == Lineage(objs[i])
        own == IF Len(Li) = 0 THEN "" ELSE EffName(Li, Len(Li)) IN
    IF i = 1 THEN "first-dispatch"
    ELSE IF \E j \in 1..(i - 1) : objs[j] # objs[i] /\ own # "" /\ own \in NamesOf(Lineage(objs[j]))
         THEN "handler-name-seen-before-on-another-class"
    ELSE IF \E j \in 1..(i - 1) : objs[j] # objs[i] /\ NamesOf(Lineage(objs[j])) \cap NamesOf(Li) # {}
         THEN "ancestor-handler-name-seen-before-on-another-class"
    ELSE IF \E j \in 1..(i - 1) : objs[j] = objs[i] THEN "same-class-before"
    ELSE "unrelated-classes-before"

JudgeRec(rec) ==
    LET c == rec.case
        n == Len(c.hist)
        objs == [i \in 1..n |-> ObjOf(c.hist[i])]
        userImpl == SeqToSet(c.impl)
        Impl == userImpl \cup SeqToSet(rec.stubs)
        hr == HRuns
        \* clause "name": the handler name every user class ended up with
        badName == { ij \in { << i, j >> : i \in 1..n, j \in 1..3 } :
                       /\ ij[2] <= Len(c.hist[ij[1]].chain)
                       /\ LET L == Lineage(objs[ij[1]])
                              nb == Len(BuiltinLineage(c.hist[ij[1]].base)) IN
                          rec.names[ij[1]][ij[2]] # EffName(L, nb + ij[2]) }
        Entry(r, i) == hr[r].pat[i]
        TargetOf(r, i) == Target(objs[i], Impl, Entry(r, i))
        V(r, i) == JudgeObs(TargetOf(r, i), rec.obs[r][i], HArgs[i].a, HArgs[i].k,
                            userImpl, hr[r].hookret, OcAll)
        bad == { ri \in { << r, i >> : r \in 1..Len(hr), i \in 1..n } : V(ri[1], ri[2]) \notin {"OK", "SKIP"} }
    IN IF Len(rec.obs) # Len(hr) \/ \E r \in 1..Len(hr) : Len(rec.obs[r]) # n THEN [v |-> "MALFORMED"]
       ELSE IF badName # {}
       THEN LET ij == CHOOSE ij \in badName : TRUE IN
            [v |-> "name", step |-> ij[1], pos |-> ij[2], got |-> rec.names[ij[1]][ij[2]]]
       ELSE IF bad # {}
       THEN LET ri == CHOOSE ri \in bad : \A q \in bad : ri[1] < q[1] \/ (ri[1] = q[1] /\ ri[2] <= q[2])
                r == ri[1]  i == ri[2] IN
            [v |-> V(r, i), run |-> r, step |-> i, mapper |-> hr[r].mapper, mode |-> Entry(r, i),
             target |-> TargetOf(r, i), first |-> rec.obs[r][i].first, exc |-> rec.obs[r][i].exc,
             seq |-> rec.obs[r][i].seq, rel |-> Rel(objs, i),
             nfail |-> Cardinality(bad)]
       ELSE [v |-> "OK"]

Report ==
    Idx <= Len(Recs) =>
      LET rec == Recs[Idx]  j == JudgeRec(rec) IN
      j.v = "OK" \/ PrintT(ToJson([id |-> rec.id] @@ j))
=============================================================================
