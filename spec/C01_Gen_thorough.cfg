CONSTANTS
  HashMode = "real"
  Bug = "none"
  Sweeps = {"pairs", "deep"}
  PairDepth = 3
  DeepDepth = 3
  EmitCases = TRUE
INIT Init
NEXT Next
INVARIANT StepAllowed
INVARIANT EqIsPyEq
INVARIANT HashRespectsEq
INVARIANT DictFindsEqual
INVARIANT NeverStale
INVARIANT NoSkipInModel
INVARIANT Emit
PROPERTY Immutable
PROPERTY HashStable
CHECK_DEADLOCK FALSE
