CONSTANTS
  HashMode = "real"
  Bug = "none"
  Sweeps = {"pairs", "near", "deep", "hier", "xtwin", "xnear", "xdeep", "self", "selfn", "forms", "heap", "heapd", "heapx"}
  PairDepth = 2
  NearDepth = 3
  DeepDepth = 2
  HierDepth = 3
  XDepth = 2
  SelfDepth = 2
  FormDepth = 3
  HeapDepth = 3
  Wide = TRUE
  EmitCases = TRUE
INIT Init
NEXT Next
INVARIANT StepAllowed
INVARIANT EqIsPyEq
INVARIANT HashRespectsEq
INVARIANT DictFindsEqual
INVARIANT NeverStale
INVARIANT NoSkipInModel
INVARIANT Emit
PROPERTY Immutable
PROPERTY HashStable
CHECK_DEADLOCK FALSE
