CONSTANT Tier = "quick"
CONSTANT MemoMode = "byname"
INIT Init
NEXT Next
INVARIANT EveryDispatchIsTheMeaning
CHECK_DEADLOCK FALSE
