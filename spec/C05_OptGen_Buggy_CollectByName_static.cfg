CONSTANTS
  OptPoolSel = "alias"
  OptArgSel = "two"
  MaxLen = 1
  Steps = 1
  ClassSel = "alias"
  FirstSel = "four"
  CollectMode = "byname"
  FbMode = "faithful"
  InlineHit = "identity"
INIT Init
NEXT Next
INVARIANT HandlersPreserved
CHECK_DEADLOCK FALSE
