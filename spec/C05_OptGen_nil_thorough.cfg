CONSTANTS
  OptPoolSel = "small"
  OptArgSel = "two"
  MaxLen = 2
  Steps = 1
  ClassSel = "nilall"
  FirstSel = "four"
  CollectMode = "bound"
  FbMode = "faithful"
  InlineHit = "identity"
INIT Init
NEXT Next
INVARIANT Explained
INVARIANT ShippedUsageFine
INVARIANT Emit
CHECK_DEADLOCK FALSE
