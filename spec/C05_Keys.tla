------------------------------ MODULE C05_Keys ------------------------------
(***************************************************************************)
(* M-layer for C05: the equalities and the keys the statement talks about. *)
(*                                                                         *)
(*   structural identity   e1 = e2 as Expr.tla records: same node classes, *)
(*                         same constants *of the same type* (4 # 4.0 #    *)
(*                         True-as-1): what "exactly" and "distinct (ex-   *)
(*                         pression, arguments) key" mean in the statement *)
(*   PyEq                  what Python's == says: 4 == 4.0, 1 == True,     *)
(*                         also inside tuples and node fields; decided by  *)
(*                         comparing canonical forms (Canon)               *)
(*                                                                         *)
(* An extra-argument tuple is a record [pos |-> <<values>>, kw |-> <<[name,*)
(* v]>>] (kw sorted by name: keyword order is irrelevant in Python).       *)
(* Written from the Python data model (numeric equality across int / bool  *)
(* / float / Fraction, tuple and dataclass equality), not from pymbolic.   *)
(***************************************************************************)
EXTENDS Expr

CanonVal(v) == IF IsNum(v) THEN [k |-> "num", n |-> v.n, d |-> v.d] ELSE v

RECURSIVE Canon(_)
Canon(e) ==
    IF e.t = "Const" THEN [t |-> "Const", v |-> CanonVal(e.v)]
    ELSE LET ks == Kids(e) IN WithKids(e, [i \in 1..Len(ks) |-> Canon(ks[i])])

PyEq(e1, e2) == Canon(e1) = Canon(e2)

Args(pos, kw) == [pos |-> pos, kw |-> kw]
NoArgs == Args(<< >>, << >>)
CanonArgs(a) == [pos |-> [i \in 1..Len(a.pos) |-> CanonVal(a.pos[i])],
                 kw  |-> [i \in 1..Len(a.kw) |-> [name |-> a.kw[i].name,
                                                  v |-> CanonVal(a.kw[i].v)]]]
ArgsPyEq(a1, a2) == CanonArgs(a1) = CanonArgs(a2)

\* the class of the object that is dispatched: for a number its Python type
TypeTag(e) == IF e.t = "Const" THEN e.v.k ELSE e.t

(***************************************************************************)
(* Keys.  The statement's key: the (expression, arguments) pair itself,    *)
(* distinct as soon as anything, including a constant's type, differs.     *)
(* The other modes are what a look-aside table keyed through Python's      *)
(* dict (hash / ==) can realise and the classical ways of getting it       *)
(* wrong; they are used by the A-layer (C05_MemoImpl) and by the negative  *)
(* controls.                                                               *)
(***************************************************************************)
KeyOf(mode, e, a) ==
    CASE mode = "ideal"   -> [tag |-> TypeTag(e), e |-> e, a |-> a]
      \* (type(expr), expr, args, immutabledict(kwargs)) compared with ==
      [] mode = "pyeq"    -> [tag |-> TypeTag(e), e |-> Canon(e), a |-> CanonArgs(a)]
      [] mode = "noargs"  -> [tag |-> TypeTag(e), e |-> Canon(e), a |-> NoArgs]
      [] mode = "nokw"    -> [tag |-> TypeTag(e), e |-> Canon(e),
                              a |-> CanonArgs(Args(a.pos, << >>))]
      [] mode = "notype"  -> [tag |-> "", e |-> Canon(e), a |-> CanonArgs(a)]

\* is there, among the composite subtrees Now of the current call, one that is PyEq to
\* but not identical with a composite subtree seen so far (Seen includes Now)?  This is
\* the situation in which a table that finds keys by == cannot honour "exactly".
\* Directly dispatched constants do not count: their Python type is part of the key.
Composite(S) == { s \in S : s.t # "Const" }
TypeCollision(Now, Seen) ==
    \E s1 \in Composite(Now), s2 \in Composite(Seen) : s1 # s2 /\ PyEq(s1, s2)
=============================================================================
