------------------------------ MODULE C04_Walk ------------------------------
(***************************************************************************)
(* C04, second half: what it means for a traversal to reach every node     *)
(* correctly.                                                              *)
(*                                                                         *)
(* M-layer (from the statement): MWalk - over a finished event list, every *)
(* node occurrence all of whose ancestors answered "true" is visited       *)
(* exactly once, before everything below it, and post-visited exactly once *)
(* after everything below it; a node whose visit answered "false" has no   *)
(* events below it; nothing else is touched.  MDFS adds that the events    *)
(* between a node's visit and post-visit all belong to its subtree.        *)
(*                                                                         *)
(* S-layer: the stack acceptor - state = stack of open nodes, each with    *)
(* the set of children still to be visited.  Visit(n, ret) is enabled iff  *)
(* n is the root (nothing seen yet) or a pending child of the top;         *)
(* PostVisit(n) iff n is the top and has no pending children.  Child order *)
(* is free.  C04_WalkModel lets TLC explore the whole state graph of the   *)
(* acceptor on all small tree shapes and check acceptor = MDFS; C04_WJudge *)
(* steps the acceptor along event lists recorded from the real mappers.    *)
(*                                                                         *)
(* Events: [e |-> "visit", n, r] and [e |-> "post", n, r] (r: visit's      *)
(* answer; ignored for post).  tab[i] = ids of the children of node i.     *)
(***************************************************************************)
EXTENDS C04_Trees
CONSTANT Bug      \* "none"; other values switch on a deliberately wrong acceptor (negative controls)

\* ------------------------------------------------------------------ S-layer: the acceptor
StInit == [stack |-> << >>, done |-> {}, seen |-> {}]
TopOf(st) == st.stack[Len(st.stack)]
OnStack(st, n) == \E i \in 1..Len(st.stack) : st.stack[i].n = n
\* a node whose visit answered "false" stays on top until the next event: its post-visit
\* is optional (the stock walk mapper issues it for leaves, not for inner nodes)
DropOpt(st) == IF Len(st.stack) > 0 /\ TopOf(st).opt
               THEN [st EXCEPT !.stack = SubSeq(@, 1, Len(@) - 1)] ELSE st

\* "" when Visit(n, ret) is enabled, else the guard that fails
\* (root: the node the mapper was applied to - node 1 for a call on the whole tree, any node
\* when a history of calls on one mapper instance applies it to subexpressions)
VisitWhyR(tab, st, n, root) ==
    LET s == DropOpt(st) IN
    IF n \notin 1..Len(tab) THEN "unknown-node"
    ELSE IF n \in st.seen THEN "visited-twice"
    ELSE IF Len(s.stack) = 0
         THEN (IF st.seen # {} THEN "visit-after-end" ELSE IF n = root THEN "" ELSE "root-not-first")
    ELSE IF n \in TopOf(s).pend \/ Bug = "visit_anywhere" THEN ""
    ELSE "visit-out-of-place"
VisitWhy(tab, st, n) == VisitWhyR(tab, st, n, 1)
VisitDo(tab, st, n, ret) ==
    LET s  == DropOpt(st)
        s1 == IF Len(s.stack) = 0 THEN s.stack
              ELSE [s.stack EXCEPT ![Len(s.stack)].pend = @ \ {n}]
    IN [stack |-> Append(s1, [n |-> n, pend |-> IF ret THEN SeqToSet(tab[n]) ELSE {}, opt |-> ~ret]),
        done  |-> IF ret THEN st.done ELSE st.done \cup {n},
        seen  |-> st.seen \cup {n}]

\* a memoising mapper legitimately skips an occurrence that is Python-equal (same class in
\* cls) to one it has already finished
\* ... in this call, or (ext: the classes of the occurrences) in an earlier call on the same
\* mapper instance that was made with the same extra positional and keyword arguments
MemoCoveredX(cls, st, pend, ext) == \A c \in pend : cls[c] \in ext \/ \E m \in st.done : cls[m] = cls[c]
MemoCovered(cls, st, pend) == MemoCoveredX(cls, st, pend, {})
PostView(st, n) == IF Len(st.stack) > 0 /\ TopOf(st).n # n THEN DropOpt(st) ELSE st
PostWhyX(cls, cached, st, n, ext) ==
    LET s == PostView(st, n) IN
    IF n \notin st.seen THEN "post-before-visit"
    ELSE IF ~OnStack(s, n) THEN "post-twice-or-late"
    ELSE IF TopOf(s).n # n THEN "post-while-descendant-open"
    ELSE IF TopOf(s).pend = {} \/ Bug = "post_ignores_pending" THEN ""
    ELSE IF cached /\ MemoCoveredX(cls, st, TopOf(s).pend, ext) THEN ""
    ELSE "post-with-children-pending"
PostWhy(cls, cached, st, n) == PostWhyX(cls, cached, st, n, {})
PostDo(st, n) ==
    LET s == PostView(st, n) IN
    [stack |-> SubSeq(s.stack, 1, Len(s.stack) - 1), done |-> st.done \cup {n}, seen |-> st.seen]

\* "" when the finished event list is accepted in state st
\* (a memoising mapper applied once more to an expression it has finished with the same extra
\* arguments may answer from its memory: nothing is visited)
EndWhyX(cls, cached, st, root, ext) ==
    LET s == DropOpt(st) IN
    IF st.seen = {} THEN (IF cached /\ cls[root] \in ext THEN "" ELSE "nothing-visited")
    ELSE IF Len(s.stack) = 0 \/ Bug = "end_anywhere" THEN ""
    ELSE IF TopOf(s).pend # {} /\ ~(cached /\ MemoCoveredX(cls, st, TopOf(s).pend, ext))
         THEN "returned-with-children-pending"
    ELSE "returned-without-post"
EndWhy(cls, cached, st) == EndWhyX(cls, cached, st, 1, {})

StepWhy(tab, cls, cached, st, ev) ==
    IF ev.e = "visit" THEN VisitWhy(tab, st, ev.n) ELSE PostWhy(cls, cached, st, ev.n)
StepDo(tab, st, ev) ==
    IF ev.e = "visit" THEN VisitDo(tab, st, ev.n, ev.r) ELSE PostDo(st, ev.n)

\* run the acceptor over a whole list: "" = accepted, else the first failing guard
RunWhy(tab, cls, cached, evs) ==
    LET RECURSIVE Go(_, _)
        Go(i, st) == IF i > Len(evs) THEN EndWhy(cls, cached, st)
                     ELSE LET w == StepWhy(tab, cls, cached, st, evs[i]) IN
                          IF w # "" THEN w ELSE Go(i + 1, StepDo(tab, st, evs[i]))
    IN Go(1, StInit)
Accepts(tab, evs) == RunWhy(tab, MkSeq(Len(tab), LAMBDA i : i), FALSE, evs) = ""
\* the same for one call of a history: applied to node root, ext = classes finished before
RunWhyX(tab, cls, cached, evs, root, ext) ==
    LET RECURSIVE Go(_, _)
        Go(i, st) == IF i > Len(evs) THEN EndWhyX(cls, cached, st, root, ext)
                     ELSE LET w == IF evs[i].e = "visit" THEN VisitWhyR(tab, st, evs[i].n, root)
                                   ELSE PostWhyX(cls, cached, st, evs[i].n, ext) IN
                          IF w # "" THEN w ELSE Go(i + 1, StepDo(tab, st, evs[i]))
    IN Go(1, StInit)

\* ------------------------------------------------------------------ M-layer: the contract
RECURSIVE DescOf(_, _)
DescOf(tab, n) == UNION { {tab[n][j]} \cup DescOf(tab, tab[n][j]) : j \in 1..Len(tab[n]) }
ParentOf(tab, n) == IF \E p \in 1..Len(tab) : \E j \in 1..Len(tab[p]) : tab[p][j] = n
                    THEN CHOOSE p \in 1..Len(tab) : \E j \in 1..Len(tab[p]) : tab[p][j] = n
                    ELSE 0
ChildPos(tab, p, n) == CHOOSE j \in 1..Len(tab[p]) : tab[p][j] = n
EvPos(s, kind, n) == { i \in 1..Len(s) : s[i].e = kind /\ s[i].n = n }

MWalkGen(s, tab, strictNesting) ==
    LET NN == Len(tab)
        VP(n) == EvPos(s, "visit", n)
        PP(n) == EvPos(s, "post", n)
        One(S) == Cardinality(S) = 1
        The(S) == CHOOSE i \in S : TRUE
        Ret(n) == s[The(VP(n))].r
        RECURSIVE Reached(_)
        Reached(n) == n = 1 \/ LET p == ParentOf(tab, n) IN Reached(p) /\ One(VP(p)) /\ Ret(p)
    IN /\ \A i \in 1..Len(s) : s[i].n \in 1..NN
       /\ \A n \in 1..NN :
            IF Reached(n)
            THEN /\ One(VP(n))                                       \* visited exactly once
                 /\ \A i \in PP(n) : i > The(VP(n))                  \* post-visit after visit
                 /\ IF Ret(n)
                    THEN /\ One(PP(n))                               \* post-visited exactly once
                         /\ \A d \in DescOf(tab, n) : \A i \in VP(d) \cup PP(d) :
                               The(VP(n)) < i /\ i < The(PP(n))      \* around everything below
                    ELSE Cardinality(PP(n)) <= 1
                 /\ strictNesting =>
                      \A q \in PP(n) : \A i \in (The(VP(n)) + 1)..(q - 1) : s[i].n \in DescOf(tab, n)
            ELSE VP(n) = {} /\ PP(n) = {}                            \* skipped subtrees untouched
MWalk(s, tab) == MWalkGen(s, tab, FALSE)     \* the statement
MDFS(s, tab)  == MWalkGen(s, tab, TRUE)      \* the statement + depth-first nesting

\* the canonical walk of a tree when visit answers "false" exactly on the nodes in F
Ev(kind, n, r) == [e |-> kind, n |-> n, r |-> r]
RECURSIVE WalkOf(_, _, _)
WalkOf(tab, n, F) ==
    IF n \in F THEN << Ev("visit", n, FALSE) >>
    ELSE << Ev("visit", n, TRUE) >>
         \o Concat(MkSeq(Len(tab[n]), LAMBDA j : WalkOf(tab, tab[n][j], F)))
         \o << Ev("post", n, TRUE) >>

\* every single-fault variant of an event list: one event dropped, duplicated somewhere,
\* moved somewhere else, or a visit answer flipped
Without(s, i) == SubSeq(s, 1, i - 1) \o SubSeq(s, i + 1, Len(s))
InsertAt(s, j, x) == SubSeq(s, 1, j) \o << x >> \o SubSeq(s, j + 1, Len(s))   \* after position j
Mutations(s) ==
       { Without(s, i) : i \in 1..Len(s) }
  \cup { InsertAt(s, j, s[i]) : i \in 1..Len(s), j \in 0..Len(s) }
  \cup { InsertAt(Without(s, i), j, s[i]) : i \in 1..Len(s), j \in 0..(Len(s) - 1) }
  \cup { [s EXCEPT ![i].r = ~@] : i \in { k \in 1..Len(s) : s[k].e = "visit" } }

\* ------------------------------------------------------------------ contracts on results
\* identity traversal: the instrumented leaf handler renames the variables in R
\* (the new name carries the extra arguments the leaf handler received: "_new" followed by
\* "_<n>" for every positional and "_<key><n>" for every keyword argument)
ArgSuffix(a, k) ==
    LET RECURSIVE GoA(_), GoK(_)
        GoA(i) == IF i > Len(a) THEN "" ELSE "_" \o ToString(a[i]) \o GoA(i + 1)
        GoK(i) == IF i > Len(k) THEN "" ELSE "_" \o k[i].k \o ToString(k[i].v) \o GoK(i + 1)
    IN "_new" \o GoA(1) \o GoK(1)
RECURSIVE RenameS(_, _, _)
RenameS(e, R, sfx) ==
    IF ~IsNode(e) THEN e
    ELSE LET me == SWithKids(e, [i \in 1..Len(SKids(e)) |-> RenameS(SKids(e)[i], R, sfx)]) IN
         IF e.t \in {"Var", "UVar"} /\ e.name \in R THEN [me EXCEPT !.name = @ \o sfx] ELSE me
Rename(e, R) == RenameS(e, R, "_new")
ChangedBelow(e, R) == Contains(e, LAMBDA x : x.t \in {"Var", "UVar"} /\ x.name \in R)
MutableBelow(e)    == Contains(e, IsMutable)
\* "an equal tree": equal as Python compares (constants by value)
IdentityTreeOKS(tree, R, sfx, got) == Norm(ZeroIds(RenameS(tree, R, sfx))) = Norm(got)
IdentityTreeOK(tree, R, got) == IdentityTreeOKS(tree, R, "_new", got)
\* verdict on the `same object` flag of node nd: "" fine, else the clause
SameWhy(nd, R, same, undecidable) ==
    IF ChangedBelow(nd, R) THEN (IF same THEN "same-object-but-changed-below" ELSE "")
    ELSE IF undecidable \/ MutableBelow(nd) THEN ""
    ELSE IF same THEN "" ELSE "rebuilt-although-unchanged"

\* where two trees first differ (preorder), for attribution only
Shallow(e) == SWithKids(e, [i \in 1..Len(SKids(e)) |-> NoneE])
RECURSIVE FirstDiffAt(_, _, _, _)
FirstDiffAt(exp, got, parent, pos) ==
    \* exp, got already normalised; returns the place of the first difference: the kind of the
    \* parent and the child position ("falsy-child": the collapsed wrapper itself)
    IF exp = got THEN [who |-> "", why |-> "", pos |-> 0]
    ELSE IF ~IsNode(exp) \/ ~IsNode(got) \/ exp.t # got.t \/ Len(SKids(exp)) # Len(SKids(got))
            \/ Shallow(exp) # Shallow(got)
    THEN IF IsNode(exp) /\ exp.t = "CSE" /\ IsNode(got) /\ got.t = "Const" /\ Falsy(exp.a)
         THEN [who |-> "CSE", why |-> "falsy-child", pos |-> 0]
         ELSE [who |-> parent, why |-> "differs", pos |-> pos]
    ELSE LET ke == SKids(exp)  kg == SKids(got)
             i == CHOOSE i \in 1..Len(ke) : ke[i] # kg[i] /\ \A j \in 1..(i - 1) : ke[j] = kg[j]
         IN FirstDiffAt(ke[i], kg[i], exp.t, i)
FirstDiff(exp, got) == FirstDiffAt(exp, got, "ROOT", 0)

\* combine / collector traversals: the instrumented leaf handlers return {occurrence id};
\* every child occurrence must have contributed
ContributingLeaves(tree) ==
    LET p == Pre(tree) IN { p[i].id : i \in { j \in 1..Len(p) : p[j].t \in {"Var", "UVar", "Const"} } }
CombineWhy(tree, cls, cached, got) ==
    LET want == ContributingLeaves(tree) IN
    IF ~(got \subseteq want) THEN "combine-extra"
    ELSE IF cached THEN (IF \A i \in want : \E j \in got : cls[j] = cls[i] THEN "" ELSE "combine-missing")
    ELSE IF want \subseteq got THEN "" ELSE "combine-missing"
=============================================================================
