------------------------------ MODULE C19_Judge ------------------------------
(***************************************************************************)
(* Stage (3) for C19: every observation recorded from the real pymbolic is *)
(* judged by TLC against the M-layer of C19_Arith / C19_PolyRing.          *)
(* One record = [id, part, c |-> the generated case, o |-> what the driver *)
(* saw].  The verdict is total: every record gets OK (nothing printed), or *)
(* one JSON line [id, v, fs, dr] with                                      *)
(*    v   "SKIP" | the first failing clause                                *)
(*    fs  all failing clauses as [cl |-> clause, at |-> attribution]       *)
(*    dr  model drift ("" or a note; never a verdict)                      *)
(*    sk  1 when some clause of the record could not be decided            *)
(***************************************************************************)
EXTENDS C19_Entry, Json, IOUtils
VARIABLES blk, off

Recs == ndJsonDeserialize(IOEnv.TRACE_FILE)
BS == 64
NB == (Len(Recs) + BS - 1) \div BS

Init == blk \in 0..(NB - 1) /\ off = 0
Next == off < BS - 1 /\ off' = off + 1 /\ UNCHANGED blk
Idx == blk * BS + off + 1

\* a simple verdict string as a clause list
One(v) == IF v = "OK" THEN << >> ELSE IF v = "SKIP" THEN << F("SKIP", "") >> ELSE << F(v, "") >>

Clauses(rec) ==
    LET c == rec.c o == rec.o IN
    CASE rec.part = "pow" ->
            LET v == JudgePow(c, o) IN
            (IF v \in {"OK", "SKIP"} THEN One(v)
             ELSE << F(v, c.mon \o (IF c.one = "default" THEN "/default-unit" ELSE "")) >>)
            \* "x multiplied by itself n times" is about the caller's x: the call must leave it alone
            \o (IF o.xa # o.xb THEN << F("pow-argument-modified", c.mon) >> ELSE << >>)
      \* every entry point of the routine, same clauses (C19_Entry)
      [] rec.part = "euclid" -> EuclidClauses(c, o)
      [] rec.part = "euclidbig" -> EuclidBigClauses(c, o)
      [] rec.part = "gcdmany" -> One(JudgeGcdMany(c, o))
      [] rec.part = "fft" ->
            LET v == JudgeFFT(c, o) IN
            IF v \in {"OK", "SKIP"} THEN One(v) ELSE << F(v, c.kind) >>
      [] rec.part = "symg" -> One(JudgeSymGauss(c, o))
      [] rec.part = "poly" -> PolyClauses(c, o)
      [] rec.part = "peuclid" -> PEuclidClauses(c, o)
      [] rec.part = "quot" -> QuotClauses(c, o)
      [] rec.part = "quotbig" -> QuotBigClauses(c, o)
      [] OTHER -> << F("SKIP", "unknown-part") >>

Drift(rec) ==
    LET c == rec.c o == rec.o IN
    CASE rec.part = "poly" ->
            LET d == PolyDrift(c, o) IN
            IF d # "" THEN d ELSE IF NonNormal(o) THEN "non-normal-data" ELSE ""
      [] rec.part = "euclid" -> EuclidDrift(c, o)
      [] rec.part = "quot" ->
            IF c.d # 0 /\ o.b \notin {"Rational", "int"} THEN "node-kind-" \o o.b
            ELSE IF c.d # 0 /\ o.b = "Rational" /\ o.fk # "int" THEN "rational-fields-" \o o.fk ELSE ""
      [] OTHER -> ""

Report ==
    Idx <= Len(Recs) =>
      LET rec == Recs[Idx]
          cls == Clauses(rec)
          fs  == Fails(cls)
          dr  == Drift(rec)
      IN  (Len(cls) = 0 /\ dr = "")
          \/ PrintT(ToJson([id |-> rec.id,
                            v  |-> (IF Len(fs) > 0 THEN fs[1].cl ELSE IF HasSkip(cls) THEN "SKIP" ELSE "DRIFT"),
                            fs |-> fs, dr |-> dr, sk |-> (IF HasSkip(cls) THEN 1 ELSE 0)]))
=============================================================================
