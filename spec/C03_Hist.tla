------------------------------ MODULE C03_Hist ------------------------------
(***************************************************************************)
(* S-layer for C03: operator applications as a HISTORY in one process.     *)
(* The statement speaks of "the tree that results" from a computation; it  *)
(* leaves no room for what was built earlier.  The state is whatever an    *)
(* implementation keeps between two operator applications:                 *)
(*   Memo = "none"   - nothing (the code: every application computes       *)
(*                     C03_Operators!BuildBin afresh),                     *)
(*   Memo = "strict" - a process-wide table keyed by the operator and the  *)
(*                     operand trees themselves (harmless),                *)
(*   Memo = "pyeq"   - the same table keyed the way a Python dict / an     *)
(*                     lru_cache compares keys: numbers by ==, so that 2   *)
(*                     and 2.0 are one key (negative control: TLC must     *)
(*                     refute HistoryFree - x / 2 after x / 2.0 returns    *)
(*                     the quotient by the float, which is another value   *)
(*                     for a Fraction or a large integer x).               *)
(* The driver realises the histories: before every generated operator      *)
(* program its type twin (every 2 <-> 2.0) is run in the same process and  *)
(* thrown away (harness/c03.py, _twin).                                    *)
(***************************************************************************)
EXTENDS C03_Operators, TLC
CONSTANT Memo, MaxLen
VARIABLES tab, last, n

hx == V("x")
HNums == { KI(2), K(FltV(2, 1)), KI(-1), K(FltV(-1, 1)), K(FltV(1, 2)), K(BoolV(TRUE)), KI(1) }
HOps == { "/", "//", "%", "*", "+", "-", "**" }
HCalls == (HOps \X {hx} \X HNums) \cup (HOps \X HNums \X {hx})

OperandEq(a, b) == IF IsC(a) /\ IsC(b) THEN ValEq(a.v, b.v) ELSE a = b
KeyEq(k1, k2) == IF Memo = "pyeq"
                 THEN k1[1] = k2[1] /\ OperandEq(k1[2], k2[2]) /\ OperandEq(k1[3], k2[3])
                 ELSE k1 = k2

\* what one application returns and leaves behind
Apply(c) ==
    IF Memo = "none" THEN [res |-> BuildBin(c[1], c[2], c[3]), tab |-> tab]
    ELSE IF \E i \in 1..Len(tab) : KeyEq(tab[i].key, c)
         THEN [res |-> tab[CHOOSE i \in 1..Len(tab) : KeyEq(tab[i].key, c)].val, tab |-> tab]
         ELSE LET r == BuildBin(c[1], c[2], c[3]) IN
              [res |-> r, tab |-> Append(tab, [key |-> c, val |-> r])]

Init == tab = << >> /\ last = [c |-> << >>, res |-> << >>] /\ n = 0
Next == n < MaxLen /\ \E c \in HCalls :
           LET a == Apply(c) IN tab' = a.tab /\ last' = [c |-> c, res |-> a.res] /\ n' = n + 1

\* every application returns what the computation alone determines
HistoryFree == n > 0 => last.res = BuildBin(last.c[1], last.c[2], last.c[3])
=============================================================================
