CONSTANTS
  Tier = "neg"
  Bug = "SharedCache"
  MaxH = 2
  NInst = 2
INIT Init
NEXT Next
INVARIANT Inv_ChildOncePerInstance
INVARIANT Inv_DoneClosed
INVARIANT Inv_OpsWithinBound
INVARIANT Inv_ReturnedAllDone
INVARIANT Inv_StackSane
INVARIANT Inv_ValuesRight
CHECK_DEADLOCK FALSE
