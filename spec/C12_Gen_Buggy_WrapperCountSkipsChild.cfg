CONSTANTS
  Tier = "neg"
  Mode = "exh"
  Bug = "WrapperCountSkipsChild"
INIT Init
NEXT Next
INVARIANT TagModelMeetsProperty
CHECK_DEADLOCK FALSE
