CONSTANTS
  Tier = "neg"
  Mode = "exh"
  Bug = "KeyDropsType"
INIT Init
NEXT Next
INVARIANT TagModelMeetsProperty
CHECK_DEADLOCK FALSE
