CONSTANT Tier = "thorough"
CONSTANT Bug = "none"
INIT Init
NEXT Next
INVARIANT OracleLaws
INVARIANT Emit
CHECK_DEADLOCK FALSE
