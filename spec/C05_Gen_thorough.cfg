CONSTANTS
  PoolSel = "full"
  ArgSel = "core"
  MaxLen = 2
  KeyMode = "ideal"
  StoreMode = "store"
  HitMode = "identity"
  Random = FALSE
  FbMode = "faithful"
INIT Init
NEXT Next
INVARIANT Accepted
INVARIANT NoComputedTwice
INVARIANT Transparent
INVARIANT NotSharedArgs
INVARIANT NotSharedTypes
INVARIANT SoundCache
INVARIANT Emit
CHECK_DEADLOCK FALSE
