----------------------------- MODULE C04_WJudge -----------------------------
(***************************************************************************)
(* Stage (3) for the traversal half of C04: trace validation.  Every       *)
(* record is one run of an instrumented stock traversal on one tree        *)
(* (harness/c04drv.py, drive_walk): the list of events it logged, how the  *)
(* call ended, and what it returned.  The judge steps the stack acceptor   *)
(* of C04_Walk along the events - one TLC step per event; the event must   *)
(* be enabled in the acceptor state reached so far and must carry exactly  *)
(* the extra arguments of the call - and at the end applies the outcome    *)
(* rule (accepted and finished, or reported by raising) and the result     *)
(* contracts.  The step relation is total: the first guard a trace         *)
(* contradicts becomes its verdict; every trace gets exactly one verdict.  *)
(*                                                                         *)
(* Which logged events move the acceptor depends on the family:            *)
(*   walk, cwalk       visit / post_visit       (handler entry/exit noted) *)
(*   ident .. ccoll    handler entry / exit     (as Visit(n, TRUE) / Post) *)
(*   cbident           callback entry / exit    (fallback handlers noted)  *)
(* "noted" events only have their arguments checked.                       *)
(***************************************************************************)
EXTENDS C04_Walk, Json, IOUtils
VARIABLES tid, l, st, deleg, tab, cls, kinds, verd

Recs == ndJsonDeserialize(IOEnv.TRACE_FILE)

Cached(fam) == fam \in {"cwalk", "cident", "ccomb", "ccoll"}
Role(fam, e) ==
    IF fam \in {"walk", "cwalk"}
    THEN (IF e = "visit" THEN "visit" ELSE IF e = "post" THEN "post" ELSE "note")
    ELSE IF fam = "cbident"
    THEN (IF e = "cb-enter" THEN "visit" ELSE IF e = "cb-exit" THEN "post" ELSE "note")
    ELSE (IF e = "enter" THEN "visit" ELSE IF e = "exit" THEN "post" ELSE "note")
IsIdentFam(fam) == fam \in {"ident", "cident", "cbident"}
IsCombFam(fam) == fam \in {"comb", "ccomb", "coll", "ccoll"}

KindOf(n) == IF n \in 1..Len(kinds) THEN kinds[n] ELSE "UNKNOWN"
ParentKind(n) == IF n \in 2..Len(kinds) THEN KindOf(ParentOf(tab, n)) ELSE "ROOT"
TopKind(s) == IF Len(s.stack) = 0 THEN "ROOT" ELSE KindOf(TopOf(s).n)
MinOf(S) == CHOOSE m \in S : \A q \in S : m <= q
FirstPendingPos(s) == IF Len(s.stack) = 0 \/ TopOf(s).pend = {} THEN 0
                      ELSE ChildPos(tab, TopOf(s).n, MinOf(TopOf(s).pend))
Verd(v, ev, who, p) == [v |-> v, ev |-> ev, who |-> who, pos |-> p, at |-> l]
NoVerd == [v |-> ""]

\* initial states are computed sequentially: keep them cheap, the first step of every trace
\* (l = 0) loads the tables of its tree
Init == /\ tid \in 1..Len(Recs)
        /\ l = 0 /\ st = StInit /\ deleg = 0
        /\ tab = << >> /\ cls = << >> /\ kinds = << >> /\ verd = NoVerd
Load == /\ l = 0 /\ l' = 1
        /\ tab' = Tab(Recs[tid].tree) /\ cls' = ClsTab(Recs[tid].tree)
        /\ kinds' = KindTab(Recs[tid].tree)
        \* a constructor that normalised the generated tree away: the case says nothing
        /\ verd' = IF Recs[tid].built = ZeroIds(Recs[tid].tree) THEN NoVerd ELSE [v |-> "SKIP"]
        /\ UNCHANGED << tid, st, deleg >>

\* ---- one recorded event
StepVerdict(rec, ev) ==   \* NoVerd when the event is allowed
    LET fam == rec.cfg.fam
        role == Role(fam, ev.e)
        delegated == role = "visit" /\ fam \notin {"walk", "cwalk"} /\ Len(st.stack) > 0
                     /\ TopOf(st).n = ev.n /\ ~TopOf(st).opt
        undeleg == role = "post" /\ deleg > 0 /\ Len(st.stack) > 0 /\ TopOf(st).n = ev.n
    IN IF ev.a # rec.cfg.a \/ ev.k # rec.cfg.k
       THEN Verd("args", ev.e, IF ev.e \in {"enter", "cb-enter"} THEN ParentKind(ev.n) ELSE KindOf(ev.n), 0)
       ELSE IF role = "note" \/ delegated \/ undeleg THEN NoVerd
       ELSE IF role = "visit"
       THEN LET w == VisitWhy(tab, st, ev.n) IN
            IF w = "" THEN NoVerd
            ELSE Verd(w, ev.e, TopKind(DropOpt(st)),      \* blamed on the node in charge; pos = its arity
                      IF Len(DropOpt(st).stack) = 0 THEN 0 ELSE Len(tab[TopOf(DropOpt(st)).n]))
       ELSE LET w == PostWhy(cls, Cached(fam), st, ev.n) IN
            IF w = "" THEN NoVerd
            ELSE Verd(w, ev.e, KindOf(ev.n), FirstPendingPos(PostView(st, ev.n)))
StepState(rec, ev) ==
    LET fam == rec.cfg.fam
        role == Role(fam, ev.e)
        delegated == role = "visit" /\ fam \notin {"walk", "cwalk"} /\ Len(st.stack) > 0
                     /\ TopOf(st).n = ev.n /\ ~TopOf(st).opt
        undeleg == role = "post" /\ deleg > 0 /\ Len(st.stack) > 0 /\ TopOf(st).n = ev.n
    IN IF role = "note" THEN << st, deleg >>
       ELSE IF delegated THEN << st, deleg + 1 >>
       ELSE IF undeleg THEN << st, deleg - 1 >>
       ELSE IF role = "visit"
       THEN << VisitDo(tab, st, ev.n, IF fam \in {"walk", "cwalk"} THEN ev.r ELSE TRUE), deleg >>
       ELSE << PostDo(st, ev.n), deleg >>

\* ---- the end of the trace
\* A-layer: the node kinds each stock traversal has handlers for (read off the source);
\* only used to report drift, never for a verdict
Unhandled(fam) ==
    LET never == {"ULeaf", "Str"} IN
    CASE fam \in {"walk", "cwalk", "ident", "cident"} -> never
      [] fam \in {"comb", "ccomb"} -> never \cup {"Slice", "Subst", "Deriv", "Wild", "FunctionSymbol", "NaN"}
      [] fam \in {"coll", "ccoll"} -> never \cup {"Slice", "Subst", "Deriv", "NaN"}
      [] fam = "cbident" -> never \cup {"CallKw", "Slice", "Subst", "Deriv", "Min", "Max", "Wild", "NaN", "MV"}
AllHandled(rec) ==
    /\ \A i \in 1..Len(kinds) : kinds[i] \notin Unhandled(rec.cfg.fam)
    /\ ~Contains(rec.tree, IsInvalidForeign)
Drift(rec, how) == IF how = "finished" THEN rec.cfg.F = << >> /\ ~AllHandled(rec) ELSE AllHandled(rec)
\* the node an exception is blamed on: the root when nothing ran, a pending container child
\* that cannot be a cache key when there is one, else the node being handled
FirstKindIn(tree, K) == LET p == Pre(tree)  is == { i \in 1..Len(p) : p[i].t \in K } IN
                        IF is = {} THEN "" ELSE p[MinOf(is)].t
Culprit(rec, s) ==
    IF st.seen = {}
    THEN (IF Cached(rec.cfg.fam) /\ FirstKindIn(rec.tree, MutableKinds) # ""
          THEN FirstKindIn(rec.tree, MutableKinds) ELSE KindOf(1))
    ELSE IF Len(s.stack) = 0 THEN "ROOT"
    ELSE LET mp == { c \in TopOf(s).pend : kinds[c] \in MutableKinds } IN
         IF mp # {} THEN kinds[MinOf(mp)] ELSE TopKind(s)
HasInvalid(tree) == Contains(tree, IsInvalidForeign)
ExitEvents(rec) == SelectSeq(rec.evs, LAMBDA ev : ev.e = "exit")
FinalVerdict(rec) ==
    LET fam == rec.cfg.fam
        R == SeqToSet(rec.cfg.R)
        s == DropOpt(st)
    IN IF rec.out.r = "err"
       THEN IF rec.out.exc \in {"UnsupportedExpressionError", "NotImplementedError"}
            THEN [v |-> "OK", how |-> "reported"]
            ELSE IF HasInvalid(rec.tree) THEN [v |-> "OK", how |-> "rejected"]
            \* a MultiVector is not an expression: a mapper without a handler for it rejects it
            ELSE IF rec.out.exc = "ValueError" /\ FirstKindIn(rec.tree, {"MV"}) # ""
            THEN [v |-> "OK", how |-> "rejected"]
            ELSE [v |-> "error", ev |-> rec.out.exc, who |-> Culprit(rec, s), pos |-> 0, at |-> l]
       ELSE LET w == EndWhy(cls, Cached(fam), st) IN
            IF w # "" THEN Verd(w, "return", TopKind(s), FirstPendingPos(s))
            ELSE IF IsIdentFam(fam)
            THEN IF rec.res.t = "Unser" THEN [v |-> "SKIP"]
                 ELSE IF ~IdentityTreeOK(rec.tree, R, rec.res)
                 THEN LET d == FirstDiff(Norm(ZeroIds(Rename(rec.tree, R))), Norm(rec.res)) IN
                      [v |-> "tree", ev |-> d.why, who |-> d.who, pos |-> d.pos, at |-> l]
                 ELSE LET p == Pre(rec.tree)
                          xs == ExitEvents(rec)
                          und == Cached(fam) /\ HasTwins(rec.tree)
                          bad == { i \in 1..Len(xs) : xs[i].n \in 1..Len(p)
                                                      /\ SameWhy(p[xs[i].n], R, xs[i].same, und) # "" }
                      IN IF bad # {}
                         THEN LET i == MinOf(bad) IN
                              [v |-> SameWhy(p[xs[i].n], R, xs[i].same, und), ev |-> "exit",
                               who |-> KindOf(xs[i].n), pos |-> 0, at |-> l]
                         ELSE IF rec.eq = 0 /\ ~ChangedBelow(rec.tree, R)
                         THEN [v |-> "not-equal", ev |-> "return", who |-> KindOf(1), pos |-> 0, at |-> l]
                         ELSE IF rec.eq = 1 /\ ChangedBelow(rec.tree, R)
                         THEN [v |-> "equal-but-changed", ev |-> "return", who |-> KindOf(1), pos |-> 0, at |-> l]
                         ELSE [v |-> "OK", how |-> "finished"]
            ELSE IF IsCombFam(fam)
            THEN IF ~rec.resok THEN [v |-> "combine-result-type", ev |-> "return", who |-> KindOf(1), pos |-> 0, at |-> l]
                 ELSE LET cw == CombineWhy(rec.tree, cls, Cached(fam), SeqToSet(rec.res)) IN
                      IF cw # "" THEN [v |-> cw, ev |-> "return", who |-> KindOf(1), pos |-> 0, at |-> l]
                      ELSE [v |-> "OK", how |-> "finished"]
            ELSE [v |-> "OK", how |-> "finished"]

Step ==
    /\ verd.v = "" /\ l >= 1
    /\ LET rec == Recs[tid] IN
       IF l <= Len(rec.evs)
       THEN LET ev == rec.evs[l]  sv == StepVerdict(rec, ev) IN
            IF sv.v = ""
            THEN /\ st' = StepState(rec, ev)[1] /\ deleg' = StepState(rec, ev)[2]
                 /\ l' = l + 1 /\ UNCHANGED verd
            ELSE /\ verd' = sv /\ UNCHANGED << st, deleg, l >>
       ELSE /\ verd' = FinalVerdict(rec) /\ UNCHANGED << st, deleg, l >>
    /\ UNCHANGED << tid, tab, cls, kinds >>

Next == Load \/ Step

\* the acceptor's structural invariant holds in every state the judge goes through
JudgeInv ==
    /\ Len(st.stack) > 0 => st.stack[1].n = 1
    /\ \A i \in 2..Len(st.stack) : st.stack[i].n \in SeqToSet(tab[st.stack[i - 1].n])
    /\ \A i \in 1..Len(st.stack) : st.stack[i].pend \cap st.seen = {}

Report == verd.v # "" =>
    PrintT(ToJson([id |-> Recs[tid].id] @@
                  (IF verd.v = "OK" THEN [drift |-> Drift(Recs[tid], verd.how)] @@ verd ELSE verd)))
=============================================================================
