----------------------------- MODULE C04_WJudge -----------------------------
(***************************************************************************)
(* Stage (3) for the traversal half of C04: trace validation.  Every       *)
(* record is one instrumented stock traversal (ONE mapper instance) on one *)
(* tree and a history of calls on it (harness/c04drv.py, drive_walk): per  *)
(* call the node the mapper was applied to, the extra arguments, the list  *)
(* of events it logged, how the call ended, and what it returned.  The     *)
(* judge steps the stack acceptor of C04_Walk along the events - one TLC   *)
(* step per event; the event must be enabled in the acceptor state reached *)
(* so far and must carry exactly the extra arguments of THIS call - and at *)
(* the end of each call applies the outcome rule (accepted and finished,   *)
(* or reported by raising) and the result contracts.  A memoising variant  *)
(* may leave out an occurrence that is Python-equal to one it has finished *)
(* in this call or in an earlier call of the history that was made with    *)
(* the same positional and keyword arguments (memo: class x arguments);    *)
(* nothing else may be left out.  The step relation is total: the first    *)
(* guard a trace contradicts becomes its verdict; every trace gets exactly *)
(* one verdict.                                                            *)
(*                                                                         *)
(* Which logged events move the acceptor depends on the family:            *)
(*   walk, cwalk       visit / post_visit       (handler entry/exit noted) *)
(*   ident .. ccoll    handler entry / exit     (as Visit(n, TRUE) / Post) *)
(*   cbident           callback entry / exit    (fallback handlers noted)  *)
(* "noted" events only have their arguments checked - and, for an instance *)
(* of a user node class, that the handler entered is the one the dispatch  *)
(* rule names (C04_UCls).  A traversal that returns normally although the  *)
(* tree holds an instance of a user node class for which neither the class *)
(* nor an ancestor has a handler was silently skipping it.                 *)
(***************************************************************************)
EXTENDS C04_Walk, C04_UCls, Json, IOUtils
VARIABLES tid, ci, l, st, deleg, memo, tab, cls, kinds, utab, verd

Recs == ndJsonDeserialize(IOEnv.TRACE_FILE)

Cached(fam) == fam \in {"cwalk", "cident", "ccomb", "ccoll"}
Role(fam, e) ==
    IF fam \in {"walk", "cwalk"}
    THEN (IF e = "visit" THEN "visit" ELSE IF e = "post" THEN "post" ELSE "note")
    ELSE IF fam = "cbident"
    THEN (IF e = "cb-enter" THEN "visit" ELSE IF e = "cb-exit" THEN "post" ELSE "note")
    ELSE (IF e = "enter" THEN "visit" ELSE IF e = "exit" THEN "post" ELSE "note")
IsIdentFam(fam) == fam \in {"ident", "cident", "cbident"}
IsCombFam(fam) == fam \in {"comb", "ccomb", "coll", "ccoll"}

KindOf(n) == IF n \in 1..Len(kinds) THEN kinds[n] ELSE "UNKNOWN"
ParentKind(n) == IF n \in 2..Len(kinds) THEN KindOf(ParentOf(tab, n)) ELSE "ROOT"
TopKind(s) == IF Len(s.stack) = 0 THEN "ROOT" ELSE KindOf(TopOf(s).n)
MinOf(S) == CHOOSE m \in S : \A q \in S : m <= q
FirstPendingPos(s) == IF Len(s.stack) = 0 \/ TopOf(s).pend = {} THEN 0
                      ELSE ChildPos(tab, TopOf(s).n, MinOf(TopOf(s).pend))
Verd(v, ev, who, p) == [v |-> v, ev |-> ev, who |-> who, pos |-> p, at |-> l]
NoVerd == [v |-> ""]

\* ---- histories: the call being judged, what the mapper may remember for it
CallOf(rec) == rec.calls[ci]
\* the classes of the occurrences finished in earlier calls made with the same arguments
ExtFor(call) == { m[1] : m \in { q \in memo : q[2] = call.a /\ q[3] = call.k } }
\* how the arguments of call number c relate to those of the earlier calls (attribution only)
Rel(rec, c) ==
    LET me == rec.calls[c]
        KwNames(k) == [i \in 1..Len(k) |-> k[i].k]
        prev == 1..(c - 1)
    IN IF c = 1 THEN "first-call"
       ELSE IF \E j \in prev : rec.calls[j].a = me.a /\ rec.calls[j].k = me.k THEN "arguments-seen-before"
       ELSE IF \E j \in prev : rec.calls[j].a = me.a /\ KwNames(rec.calls[j].k) = KwNames(me.k)
            THEN "keyword-values-differ"
       ELSE IF \E j \in prev : rec.calls[j].k = me.k THEN "positional-arguments-differ"
       ELSE "other-arguments"
\* the subtree the call was applied to (occurrence numbers are those of the whole tree)
SubOf(rec, call) == Pre(rec.tree)[call.n]
\* two model nodes that CPython makes one object (the empty tuple, equal small constants,
\* equal strings): the driver cannot tell their occurrences apart
Ambiguous(tree) ==
    LET p == Pre(tree)
        Shared(e) == \/ e.t = "Const" \/ e.t = "Str" \/ (e.t = "Tup" /\ Len(e.c) = 0)
    IN \E i, j \in 1..Len(p) : i < j /\ Shared(p[i]) /\ ZeroIds(p[i]) = ZeroIds(p[j])

\* ---- user node classes: the handler the dispatch rule names for node n ("" not a user node)
UserImpl(rec) == SeqToSet(rec.cfg.impl)
UserTargetAt(rec, n) ==
    IF n \notin 1..Len(utab) \/ utab[n] = 0 THEN ""
    ELSE IF rec.cfg.fam = "cbident" THEN "unsupported"     \* no place for user handlers
    ELSE UTarget(utab[n], UserImpl(rec))
\* the user node occurrences below node r that no handler is named for
UnhandledUsers(rec, r) ==
    { n \in {r} \cup DescOf(tab, r) : kinds[n] = "ULeaf" \/ UserTargetAt(rec, n) = "unsupported" }
UserBase(n) == IF kinds[n] = "ULeaf" THEN "Expression" ELSE UBase(utab[n])

\* initial states are computed sequentially: keep them cheap, the first step of every trace
\* (l = 0) loads the tables of its tree
Init == /\ tid \in 1..Len(Recs)
        /\ l = 0 /\ ci = 1 /\ st = StInit /\ deleg = 0 /\ memo = {}
        /\ tab = << >> /\ cls = << >> /\ kinds = << >> /\ utab = << >> /\ verd = NoVerd
Load == /\ l = 0 /\ l' = 1
        /\ tab' = Tab(Recs[tid].tree) /\ cls' = ClsTab(Recs[tid].tree)
        /\ kinds' = KindTab(Recs[tid].tree) /\ utab' = UTab(Recs[tid].tree)
        \* a constructor that normalised the generated tree away, or two occurrences that are one
        \* object: the case says nothing
        /\ verd' = IF Recs[tid].built = ZeroIds(Recs[tid].tree) /\ ~Ambiguous(Recs[tid].tree)
                       /\ Len(Recs[tid].calls) > 0
                    THEN NoVerd ELSE [v |-> "SKIP"]
        /\ UNCHANGED << tid, ci, st, deleg, memo >>

\* ---- one recorded event
StepVerdict(rec, ev) ==   \* NoVerd when the event is allowed
    LET fam == rec.cfg.fam
        call == CallOf(rec)
        role == Role(fam, ev.e)
        delegated == role = "visit" /\ fam \notin {"walk", "cwalk"} /\ Len(st.stack) > 0
                     /\ TopOf(st).n = ev.n /\ ~TopOf(st).opt
        undeleg == role = "post" /\ deleg > 0 /\ Len(st.stack) > 0 /\ TopOf(st).n = ev.n
        ut == IF ev.e = "enter" THEN UserTargetAt(rec, ev.n) ELSE ""
    IN IF ev.a # call.a \/ ev.k # call.k
       THEN Verd("args", ev.e, IF ev.e \in {"enter", "cb-enter"} THEN ParentKind(ev.n) ELSE KindOf(ev.n), 0)
       \* dispatch inside a traversal: the handler entered for an instance of a user node class
       ELSE IF ut \notin {"", "unsupported"} /\ ("h" \notin DOMAIN ev \/ ev.h # ut)
       THEN Verd("handler", ev.e, UserBase(ev.n), 0)
       ELSE IF role = "note" \/ delegated \/ undeleg THEN NoVerd
       ELSE IF role = "visit"
       THEN LET w == VisitWhyR(tab, st, ev.n, call.n) IN
            IF w = "" THEN NoVerd
            ELSE Verd(w, ev.e, TopKind(DropOpt(st)),      \* blamed on the node in charge; pos = its arity
                      IF Len(DropOpt(st).stack) = 0 THEN 0 ELSE Len(tab[TopOf(DropOpt(st)).n]))
       ELSE LET w == PostWhyX(cls, Cached(fam), st, ev.n, ExtFor(call)) IN
            IF w = "" THEN NoVerd
            ELSE Verd(w, ev.e, KindOf(ev.n), FirstPendingPos(PostView(st, ev.n)))
StepState(rec, ev) ==
    LET fam == rec.cfg.fam
        role == Role(fam, ev.e)
        delegated == role = "visit" /\ fam \notin {"walk", "cwalk"} /\ Len(st.stack) > 0
                     /\ TopOf(st).n = ev.n /\ ~TopOf(st).opt
        undeleg == role = "post" /\ deleg > 0 /\ Len(st.stack) > 0 /\ TopOf(st).n = ev.n
    IN IF role = "note" THEN << st, deleg >>
       ELSE IF delegated THEN << st, deleg + 1 >>
       ELSE IF undeleg THEN << st, deleg - 1 >>
       ELSE IF role = "visit"
       THEN << VisitDo(tab, st, ev.n, IF fam \in {"walk", "cwalk"} THEN ev.r ELSE TRUE), deleg >>
       ELSE << PostDo(st, ev.n), deleg >>

\* ---- the end of the trace
\* A-layer: the node kinds each stock traversal has handlers for (read off the source);
\* only used to report drift, never for a verdict
Unhandled(fam) ==
    LET never == {"ULeaf", "Str"} IN
    CASE fam \in {"walk", "cwalk", "ident", "cident"} -> never
      [] fam \in {"comb", "ccomb"} -> never \cup {"Slice", "Subst", "Deriv", "Wild", "FunctionSymbol", "NaN"}
      [] fam \in {"coll", "ccoll"} -> never \cup {"Slice", "Subst", "Deriv", "NaN"}
      [] fam = "cbident" -> never \cup {"CallKw", "Slice", "Subst", "Deriv", "Min", "Max", "Wild", "NaN", "MV"}
\* (a generic map_algebraic_leaf the user adds also serves the stock leaf kinds a traversal has
\* no handler of its own for)
ViaGeneric(rec) == (IF "map_algebraic_leaf" \in UserImpl(rec) THEN {"Wild", "FunctionSymbol", "NaN"} ELSE {})
                   \cup (IF "map_leaf" \in UserImpl(rec) THEN {"Wild"} ELSE {})
AllHandled(rec, sub) ==
    /\ \A i \in {sub.id} \cup DescOf(tab, sub.id) : kinds[i] \notin (Unhandled(rec.cfg.fam) \ ViaGeneric(rec))
    /\ UnhandledUsers(rec, sub.id) = {}
    /\ ~Contains(sub, IsInvalidForeign)
Drift(rec, sub, how) == IF how = "finished" THEN rec.cfg.F = << >> /\ ~AllHandled(rec, sub)
                        ELSE AllHandled(rec, sub)
\* the node an exception is blamed on: the root when nothing ran, a pending container child
\* that cannot be a cache key when there is one, else the node being handled
FirstKindIn(tree, K) == LET p == Pre(tree)  is == { i \in 1..Len(p) : p[i].t \in K } IN
                        IF is = {} THEN "" ELSE p[MinOf(is)].t
Culprit(rec, sub, s) ==
    IF st.seen = {}
    THEN (IF Cached(rec.cfg.fam) /\ FirstKindIn(sub, MutableKinds) # ""
          THEN FirstKindIn(sub, MutableKinds) ELSE KindOf(sub.id))
    ELSE IF Len(s.stack) = 0 THEN "ROOT"
    ELSE LET mp == { c \in TopOf(s).pend : kinds[c] \in MutableKinds } IN
         IF mp # {} THEN kinds[MinOf(mp)] ELSE TopKind(s)
HasInvalid(tree) == Contains(tree, IsInvalidForeign)
ExitEvents(call) == SelectSeq(call.evs, LAMBDA ev : ev.e = "exit")
\* combine / collector results: the leaf handlers return (occurrence, arguments received)
ResIds(call) == { call.res[i].n : i \in 1..Len(call.res) }
StaleArgs(call) == \E i \in 1..Len(call.res) : call.res[i].a # call.a \/ call.res[i].k # call.k
\* (for a memoising variant a contribution may come from an equal occurrence anywhere in the
\* tree, remembered from an earlier call)
CombineWhyX(sub, cached, got) ==
    LET want == ContributingLeaves(sub) IN
    IF ~cached THEN CombineWhy(sub, cls, FALSE, got)
    ELSE IF ~(\A j \in got : j \in 1..Len(cls) /\ \E i \in want : cls[i] = cls[j]) THEN "combine-extra"
    ELSE IF \A i \in want : \E j \in got : cls[j] = cls[i] THEN "" ELSE "combine-missing"
FinalVerdict(rec) ==
    LET fam == rec.cfg.fam
        call == CallOf(rec)
        sub == SubOf(rec, call)
        ext == ExtFor(call)
        R == SeqToSet(rec.cfg.R)
        sfx == ArgSuffix(call.a, call.k)
        s == DropOpt(st)
        OK(how) == [v |-> "OK", how |-> how, drift |-> Drift(rec, sub, how)]
    IN IF call.out.r = "err"
       THEN IF call.out.exc \in {"UnsupportedExpressionError", "NotImplementedError"}
            THEN OK("reported")
            ELSE IF HasInvalid(sub) THEN OK("rejected")
            \* a MultiVector is not an expression: a mapper without a handler for it rejects it
            ELSE IF call.out.exc = "ValueError" /\ FirstKindIn(sub, {"MV"}) # ""
            THEN OK("rejected")
            ELSE [v |-> "error", ev |-> call.out.exc, who |-> Culprit(rec, sub, s), pos |-> 0, at |-> l]
       ELSE LET w == EndWhyX(cls, Cached(fam), st, call.n, ext) IN
            IF w # "" THEN Verd(w, "return", TopKind(s), FirstPendingPos(s))
            \* a node type the traversal does not handle has to be reported by raising
            ELSE IF rec.cfg.F = << >> /\ UnhandledUsers(rec, call.n) # {}
            THEN [v |-> "silently-skipped", ev |-> "return",
                  who |-> UserBase(MinOf(UnhandledUsers(rec, call.n))), pos |-> 0, at |-> l]
            ELSE IF IsIdentFam(fam)
            THEN IF call.res.t = "Unser" THEN [v |-> "SKIP"]
                 ELSE IF ~IdentityTreeOKS(sub, R, sfx, call.res)
                 THEN LET d == FirstDiff(Norm(ZeroIds(RenameS(sub, R, sfx))), Norm(call.res)) IN
                      [v |-> "tree", ev |-> d.why, who |-> d.who, pos |-> d.pos, at |-> l]
                 ELSE LET p == Pre(rec.tree)
                          xs == ExitEvents(call)
                          und == Cached(fam) /\ HasTwins(rec.tree)
                          bad == { i \in 1..Len(xs) : xs[i].n \in 1..Len(p)
                                                      /\ SameWhy(p[xs[i].n], R, xs[i].same, und) # "" }
                      IN IF bad # {}
                         THEN LET i == MinOf(bad) IN
                              [v |-> SameWhy(p[xs[i].n], R, xs[i].same, und), ev |-> "exit",
                               who |-> KindOf(xs[i].n), pos |-> 0, at |-> l]
                         ELSE IF call.eq = 0 /\ ~ChangedBelow(sub, R)
                         THEN [v |-> "not-equal", ev |-> "return", who |-> KindOf(call.n), pos |-> 0, at |-> l]
                         ELSE IF call.eq = 1 /\ ChangedBelow(sub, R)
                         THEN [v |-> "equal-but-changed", ev |-> "return", who |-> KindOf(call.n), pos |-> 0, at |-> l]
                         ELSE OK("finished")
            ELSE IF IsCombFam(fam)
            THEN IF ~call.resok THEN [v |-> "combine-result-type", ev |-> "return", who |-> KindOf(call.n), pos |-> 0, at |-> l]
                 ELSE IF StaleArgs(call)
                 THEN [v |-> "combine-stale-arguments", ev |-> "return", who |-> KindOf(call.n), pos |-> 0, at |-> l]
                 ELSE LET cw == CombineWhyX(sub, Cached(fam), ResIds(call)) IN
                      IF cw # "" THEN [v |-> cw, ev |-> "return", who |-> KindOf(call.n), pos |-> 0, at |-> l]
                      ELSE OK("finished")
            ELSE OK("finished")

\* what a memoising mapper remembers after a call: every occurrence it finished, under the
\* arguments of that call
Remembered(rec) ==
    IF Cached(rec.cfg.fam)
    THEN memo \cup { << cls[m], CallOf(rec).a, CallOf(rec).k >> : m \in st.done }
    ELSE memo
Step ==
    /\ verd.v = "" /\ l >= 1
    /\ LET rec == Recs[tid]  call == CallOf(rec) IN
       IF l <= Len(call.evs)
       THEN LET ev == call.evs[l]  sv == StepVerdict(rec, ev) IN
            IF sv.v = ""
            THEN /\ st' = StepState(rec, ev)[1] /\ deleg' = StepState(rec, ev)[2]
                 /\ l' = l + 1 /\ UNCHANGED << verd, ci, memo >>
            ELSE /\ verd' = [call |-> ci, rel |-> Rel(rec, ci)] @@ sv /\ UNCHANGED << st, deleg, l, ci, memo >>
       ELSE LET fv == FinalVerdict(rec) IN
            IF fv.v = "OK" /\ ci < Len(rec.calls)
            THEN \* the next call on the same mapper instance
                 /\ ci' = ci + 1 /\ l' = 1 /\ st' = StInit /\ deleg' = 0
                 /\ memo' = Remembered(rec) /\ UNCHANGED verd
            ELSE /\ verd' = [call |-> ci, rel |-> Rel(rec, ci)] @@ fv
                 /\ UNCHANGED << st, deleg, l, ci, memo >>
    /\ UNCHANGED << tid, tab, cls, kinds, utab >>

Next == Load \/ Step

\* the acceptor's structural invariant holds in every state the judge goes through
JudgeInv ==
    /\ Len(st.stack) > 0 => st.stack[1].n = CallOf(Recs[tid]).n
    /\ \A i \in 2..Len(st.stack) : st.stack[i].n \in SeqToSet(tab[st.stack[i - 1].n])
    /\ \A i \in 1..Len(st.stack) : st.stack[i].pend \cap st.seen = {}

Report == verd.v # "" => PrintT(ToJson([id |-> Recs[tid].id] @@ verd))
=============================================================================
