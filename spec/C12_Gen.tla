------------------------------- MODULE C12_Gen -------------------------------
(***************************************************************************)
(* Stage (1) for C12, tagging and helper families.                         *)
(*                                                                         *)
(* TLC enumerates                                                          *)
(*   - lists of 1-3 expressions over {Variable, Const, Sum, Product,       *)
(*     Quotient, FloorDiv, Remainder, Power, Call}: list skeletons whose   *)
(*     typed holes are filled left to right from a pool built for heavy    *)
(*     sharing (the same subterm repeated, commuted twins a+b / b+a and    *)
(*     a*b / b*a, multiplicity twins a+a+b / a+b+b, subterms nested in     *)
(*     repeated subterms, pre-existing wrappers with and without prefix    *)
(*     and scope, wrappers of variables and constants, nested wrappers);   *)
(*   - round 2: a repeated operation in EVERY child position of EVERY node *)
(*     kind (Puts over HostTemplates: function / parameter / keyword        *)
(*     positions of calls, a call in the function position of a call,      *)
(*     aggregate / index / index-tuple of subscripts, lookups, condition    *)
(*     and branches of conditionals, operands of comparisons, logical,     *)
(*     bitwise, min / max, every operand position of the seven operation   *)
(*     kinds, wrapper children) with leaves as siblings, as "host + bare   *)
(*     repeat" and as "two hosts with other siblings";                     *)
(*   - every cell (helper, argument class, prefix, scope) of the two wrap  *)
(*     helpers, object arrays and multivectors included;                   *)
(* checks ON THE MODEL for every list                                      *)
(*   - the S-layer invariants of the evaluator cache along the event       *)
(*     stream the caching evaluator MEval produces for "one instance       *)
(*     evaluates every output of TagImpl once" (TLC invariant              *)
(*     ModelCacheInv_Emit), the helper transcriptions against their        *)
(*     tables (TLC invariant HelperModelInv),                              *)
(*   - whether the transcribed tagger TagImpl meets the property           *)
(*     (ValuePreserved in every environment, NoWrapperOnWrapper,           *)
(*     RepeatedIsShared, RepeatedOpOnce): failures are design-level        *)
(*     classes, printed, never an error of the run (DESIGN 3.1) - except   *)
(*     in the negative-control configurations, where                       *)
(*     TagModelMeetsProperty is the invariant TLC must refute;             *)
(* and prints every complete case as one JSON line for the driver.         *)
(* Round 3: every list is printed with its object-sharing layouts          *)
(* (LayoutsOf in C12_CSE: which equal occurrences are ONE object - all     *)
(* occurrences of a repeated value, only the operands of one node, pairs,  *)
(* two values at once, everything hash-consed); the driver builds the list *)
(* once per layout.  SameNodeRoots: every taggable kind repeated ONLY as   *)
(* operands of one node (sum, product, call, quotient, power; also nested  *)
(* in a denominator).  The identity negative controls check the model for  *)
(* every layout.                                                           *)
(* Round 4: pre-existing wrappers carry repeated subterms at every depth    *)
(* below the wrapper (WrapperTemplates under Puts, WrapDepthRoots,          *)
(* WrapHoleRoots); negative controls WrapperCountStopsAtChild /            *)
(* WrapperCountSkipsChild cut the use counter's descent below a wrapper.    *)
(* Mode "rand": -simulate grows random deeper lists.                       *)
(***************************************************************************)
EXTENDS C12_CSE, C12_Env, Json
CONSTANTS Tier, Mode
VARIABLES cas, fuel

va == V("a")  vb == V("b")  vc == V("c")  ff == V("f")  gg == V("g")  tt == V("t")
S   == N("Sum", << va, vb >>)          Sc  == N("Sum", << vb, va >>)
P   == N("Product", << va, vb >>)      Pc  == N("Product", << vb, va >>)
Q   == B("Quotient", va, vb)           Qs  == B("Quotient", vb, va)
T1  == N("Sum", << va, va, vb >>)      T2  == N("Sum", << va, vb, vb >>)
S3  == N("Sum", << va, vb, vc >>)
C1  == Call(ff, << S >>)               C2  == Call(ff, << va, vb >>)
C2s == Call(ff, << vb, va >>)          Pw  == B("Power", S, KI(2))
W0  == CSE0(S)                         Wp  == CSE(S, "s", EvalScope)
Wx  == CSE(Sc, "", "pymbolic_expr")    Wg  == CSE(P, "p", "pymbolic_global")

PoolAQuick == { Pw, S, Sc, P, W0, Wp, Wx, Q, C1, T1, T2 }
PoolAMore  == { Pc, Qs, S3, C2, C2s, va, Wg, CSE0(va), CSE0(KI(2)), CSE(W0, "o", EvalScope),
                B("FloorDiv", va, vb), B("Remainder", va, vb), KI(3),
                CSE(N("Product", << S, vc >>), "n", EvalScope) }
PoolA == IF Tier = "neg" THEN { S, Sc, P, T1, T2, W0 }      \* negative controls: tiny space
         ELSE IF Tier = "quick" THEN PoolAQuick ELSE PoolAQuick \cup PoolAMore
PoolB == IF Tier = "quick" THEN { vc, S, Sc, W0 } ELSE { vc, S, Sc, W0, Wp, P }
\* thorough: a middle pool for the skeletons with three and more holes, a small one
PoolM == PoolAQuick \cup { Pc, Wx, Wg, va, CSE(N("Product", << S, vc >>), "n", EvalScope) }
PoolC == { vc, S, Sc, W0 }

HoleT(ty) == [t |-> "Hole", ty |-> ty]
A == HoleT("A")  Bh == HoleT("B")  M == HoleT("M")  Cc == HoleT("C")
PoolFor(ty) == CASE ty = "A" -> PoolA [] ty = "B" -> PoolB [] ty = "M" -> PoolM [] ty = "C" -> PoolC

\* hole counting / filling in one pass (Expr's NHoles / FillFirst re-evaluate lazy function
\* expressions: exponential in the depth of the tree, which the host skeletons made deeper)
RECURSIVE NH(_), Fill1(_, _)
NH(e) == IF e.t = "Hole" THEN 1 ELSE SumOver(Kids(e), NH)
\* e with its first hole (left to right) replaced by s; e itself when it has none
Fill1(e, s) ==
    IF e.t = "Hole" THEN s
    ELSE LET ks == Kids(e)
             RECURSIVE Go(_)
             Go(i) == IF i > Len(ks) THEN << >>
                      ELSE LET k2 == Fill1(ks[i], s) IN
                           IF k2 # ks[i] THEN << k2 >> \o SubSeq(ks, i + 1, Len(ks))
                           ELSE << ks[i] >> \o Go(i + 1)
             ks2 == Go(1)
         IN IF ks2 = ks THEN e ELSE WithKids(e, ks2)

RECURSIVE FirstHoleTy(_)
FirstHoleTy(e) ==
    IF e.t = "Hole" THEN e.ty
    ELSE LET ks == Kids(e)
             RECURSIVE Go(_)
             Go(i) == IF i > Len(ks) THEN "" ELSE
                      LET r == FirstHoleTy(ks[i]) IN IF r # "" THEN r ELSE Go(i + 1)
         IN Go(1)

\* binary skeletons over two holes
Ops2(X, Y) == { N("Sum", << X, Y >>), N("Product", << X, Y >>), B("Quotient", X, Y),
                Call(ff, << X, Y >>) }
Ops2More(X, Y) == { B("FloorDiv", X, Y), B("Remainder", X, Y), B("Power", X, Y),
                    N("Sum", << X, vc, Y >>), Call(gg, << Y, X >>) }
Ops1(X) == { B("Power", X, KI(2)), Call(ff, << X >>), N("Product", << KI(2), X >>) }

\* a list under construction is carried as a Tup node so that Expr's hole filling applies
L(es) == N("Tup", es)
TagRootsNeg == { L(<< N("Sum", << A, A >>) >>), L(<< N("Product", << A, A >>) >>) }
\* round 3: a repeated operation that occurs ONLY as operands of one node (whether the two
\* operands are one object or two is the layout's business)
SameNodeRoots ==
    UNION { { L(<< N("Sum", << X, vc, X >>) >>), L(<< N("Product", << X, X, vc >>), vc >>),
              L(<< B("Quotient", KI(2), N("Product", << X, X >>)) >>),
              L(<< Call(ff, << X, X >>) >>), L(<< B("Quotient", X, X) >>),
              L(<< N("Sum", << N("Product", << X, vc, X >>), KI(1) >>), N("Sum", << X, X >>) >>) } :
            X \in { S, P, Q, B("FloorDiv", va, vb), B("Remainder", va, vb), B("Power", va, KI(2)), C2,
                    C1, W0 } }
TagRootsQuick ==
       { L(<< o >>) : o \in Ops2(A, A) \cup Ops1(A)
                          \cup { B("FloorDiv", A, A), B("Remainder", A, A), B("Power", A, A) } }
  \cup { L(<< o, A >>) : o \in { N("Sum", << A, Bh >>), N("Product", << A, Bh >>), B("Quotient", A, Bh) } }
  \cup { L(<< N("Sum", << A, Bh >>), N("Product", << Bh, A >>) >>) }
  \cup { L(<< B("Quotient", N("Product", << A, Bh >>), Bh), Bh >>) }
  \cup { L(<< A, A, Bh >>) }
TagRootsThorough ==
       { L(<< o >>) : o \in Ops2(A, A) \cup Ops2More(A, A) \cup Ops1(A) }
  \cup { L(<< o, M >>) : o \in Ops2(M, Bh) \cup { B("Remainder", M, Bh), Call(gg, << Bh, M >>) } }
  \cup { L(<< o1, N("Product", << Cc, M >>) >>) : o1 \in { N("Sum", << M, Cc >>), B("Quotient", M, Cc) } }
  \cup { L(<< o, M >>) : o \in { B("Quotient", N("Product", << M, Cc >>), Cc),
                                 N("Sum", << B("Power", M, KI(2)), Cc, Cc >>) } }
  \cup { L(<< A, A, Bh >>) }
  \cup { L(<< o1, Call(ff, << Cc, M >>) >>) : o1 \in { N("Product", << M, Cc >>), Call(ff, << M, Cc >>) } }
  \cup { L(<< o, Bh, M >>) : o \in { N("Sum", << M, Cc >>), B("Quotient", M, Cc) } }
  \cup { L(<< N("Product", << N("Sum", << Cc, Cc >>), Cc >>), o >>) :
            o \in { B("Quotient", Cc, M), N("Sum", << Cc, M >>) } }
\* every taggable node kind repeated once across two expressions and once inside one
\* expression (complete lists, no holes)
KindReps == { S, P, Q, B("FloorDiv", va, vb), B("Remainder", va, vb), B("Power", va, KI(2)), C2 }
KindRoots == { L(<< N("Product", << X, vc >>), N("Sum", << X, KI(2) >>) >>) : X \in KindReps }
        \cup { L(<< B("Quotient", X, N("Sum", << X, vc >>)) >>) : X \in KindReps }
        \cup { L(<< N("Product", << P, vc >>), N("Sum", << Pc, KI(2) >>) >>),      \* commuted twins
               L(<< N("Product", << S, vc >>), N("Sum", << Sc, KI(2) >>) >>),
               L(<< B("Quotient", Q, Qs) >>), L(<< N("Sum", << C2, C2s >>) >>) }  \* not twins

(***************************************************************************)
(* Round 2: a repeated subexpression in EVERY child position of EVERY node *)
(* kind, the siblings being leaves the tagger leaves alone.  The tagger    *)
(* rebuilds a node through the handler of the node's kind, and every       *)
(* handler decides on its own whether "nothing changed" - so the wrapper   *)
(* placed around a child survives or is lost per (kind, position).         *)
(* Host templates: every node kind the stock mappers handle, also the ones *)
(* that are no operations of the statement (they carry operations).        *)
(* Puts(t): t with exactly one node below the root replaced by a typed     *)
(* hole ("F": the function position of a call, "X": any other position),   *)
(* at any depth (the index tuple of a subscript, the comparison in a       *)
(* condition).                                                             *)
(***************************************************************************)
oo == V("o")  mm == V("m")
\* round 4: pre-existing wrappers whose child is itself built from operations - Puts puts the
\* repeated operation at EVERY depth below the wrapper (the direct child, an operand of the
\* child, deeper, the function position of a call inside), without / with scope / with prefix
WrapperTemplates ==
  { CSE0(N("Product", << va, vc >>)),
    CSE(B("Quotient", N("Sum", << vc, Call(gg, << va >>) >>), vc), "", "pymbolic_global"),
    CSE(B("Power", Call(ff, << va, vc >>), KI(2)), "w", "pymbolic_expr") }
HostTemplates ==
  { Call(ff, << va, vc >>), Call(gg, << vc >>), Call(ff, << >>), Call(ff, << va, KI(2), vc >>),
    Call(Call(gg, << va >>), << vc >>),             \* a call in the function position of a call
    N("Sum", << va, KI(1), vc >>), B("Power", KI(2), va), CSE(va, "", "pymbolic_global"),
    CallKw(ff, << va >>, << KwArg("k1", vc) >>),
    CallKw(gg, << >>, << KwArg("k2", vc), KwArg("k1", va) >>),
    B("Sub", tt, KI(1)), B("Sub", mm, N("Tup", << KI(0), KI(1) >>)),
    Look(oo, "p"),
    IfE(Cmp(va, "<", vc), vb, vc), Cmp(va, "<=", vc),
    N("LogOr", << va, vc >>), N("LogAnd", << va, vc >>), U("LogNot", va),
    N("Min", << va, vc >>), N("Max", << vc, va >>),
    N("BitOr", << va, vc >>), N("BitXor", << va, vc >>), N("BitAnd", << va, vc >>), U("BitNot", va),
    B("LShift", va, KI(1)), B("RShift", va, KI(1)),
    N("Sum", << va, vc >>), N("Product", << vc, va >>), B("Quotient", va, vc),
    B("FloorDiv", va, vc), B("Remainder", va, vc), B("Power", va, KI(2)),
    CSE0(va), CSE(va, "w", "pymbolic_expr") }
  \cup WrapperTemplates
HostTemplatesNeg == { Call(ff, << va, vc >>), CallKw(ff, << va >>, << KwArg("k1", vc) >>),
                      B("Sub", tt, KI(1)), IfE(Cmp(va, "<", vc), vb, vc), B("Quotient", va, vc),
                      CSE0(N("Product", << va, vc >>)) }
XH == HoleT("X")  FH == HoleT("F")
RECURSIVE Puts(_)
Puts(t) ==
    LET ks == Kids(t) IN
    UNION { { WithKids(t, [ks EXCEPT ![i] = IF t.t \in {"Call", "CallKw"} /\ i = 1 THEN FH ELSE XH]) }
            \cup { WithKids(t, [ks EXCEPT ![i] = p]) : p \in Puts(ks[i]) } : i \in 1..Len(ks) }
\* the same skeleton with other leaves as siblings
RECURSIVE Ren(_)
Ren(e) == IF e.t = "Var" THEN (IF e.name = "a" THEN vc ELSE IF e.name = "c" THEN vb ELSE e)
          ELSE WithKids(e, [i \in 1..Len(Kids(e)) |-> Ren(Kids(e)[i])])
\* what is repeated: operations of every taggable kind; in the function position of a
\* call also a function-valued conditional that carries a repeated operation (the call
\* then evaluates without raising)
FX == IfE(Cmp(S, "<", vc), ff, gg)
XPool == IF Tier = "thorough" THEN { S, P, Q, C2, Pw, B("Remainder", va, vb), W0 } ELSE { S, C2 }
XFor(s) == IF FirstHoleTy(s) = "F" THEN XPool \cup { FX } ELSE XPool
Partner(X) == IF X = FX THEN S ELSE X
Twin(X) == IF X = S THEN Sc ELSE IF X = P THEN Pc ELSE X
PosLists(s, X) ==
    LET h  == Fill1(s, X)
        h2 == Fill1(Ren(s), X)
    IN { L(<< h, Partner(X) >>),                                  \* host and the bare repeat
         L(<< N("Sum", << h, KI(1) >>), N("Product", << h2, KI(2) >>) >>) }   \* two hosts
       \cup (IF Tier = "thorough" THEN { L(<< Twin(Partner(X)), h >>), L(<< h, h2, vc >>) } ELSE {})
PosRoots(tmpls) == UNION { UNION { PosLists(s, X) : X \in XFor(s) } : s \in UNION { Puts(t) : t \in tmpls } }
PosRootsNeg == { L(<< Fill1(s, S), S >>) : s \in UNION { Puts(t) : t \in HostTemplatesNeg } }
\* hole-filled hosts: whatever the pools hold, in a host position next to a pool element
PosHoleRoots ==
    IF Tier = "quick"
    THEN { L(<< Call(A, << vc >>), A >>), L(<< IfE(Cmp(A, "<", vc), Bh, vb), A >>),
           L(<< B("Sub", tt, A), Bh >>), L(<< Call(IfE(Cmp(A, "<", vc), ff, gg), << va >>), Bh >>) }
    ELSE { L(<< Fill1(s, M), Bh >>) : s \in UNION { Puts(t) : t \in HostTemplates } }
         \cup { L(<< Call(IfE(Cmp(M, "<", vc), ff, gg), << Cc >>), M >>) }
(***************************************************************************)
(* Round 4: inputs that ALREADY contain wrappers carry the repeated subterm *)
(* at every depth below the wrapper.  PosRoots over WrapperTemplates gives  *)
(* "wrapper host + bare repeat after it" and "two pre-existing wrappers of  *)
(* the same shape with other siblings"; WrapDepthRoots adds, for wrapper    *)
(* contexts D with the repeat X at depth 2 / 3 / as the parameter of a call *)
(* (no scope / scope given), the other placements of the further            *)
(* occurrence(s): outside BEFORE the wrapper, outside in the SAME           *)
(* expression, inside ANOTHER pre-existing wrapper of another shape, twice  *)
(* inside the SAME wrapper and nowhere else, below NESTED pre-existing      *)
(* wrappers, as a commuted twin, and twice outside (the use count then is   *)
(* right whatever happens below the wrapper - the wrapper still must share).*)
(* WrapHoleRoots: whatever the pools hold (wrappers included) as an operand *)
(* of a pre-existing wrapper's child next to a pool element.                *)
(***************************************************************************)
WrapCtx(X) == << CSE0(N("Product", << X, vc >>)),
                 CSE0(B("Quotient", KI(2), N("Sum", << vc, X >>))),
                 CSE(Call(gg, << X >>), "", "pymbolic_global") >>
WXPool == IF Tier = "thorough" THEN { S, C1, P, Q, Pw, C2, B("Remainder", va, vb) } ELSE { S, C1 }
WrapDepthLists(X) ==
    LET D == WrapCtx(X) IN
    UNION { { L(<< N("Sum", << X, KI(1) >>), D[i] >>),                      \* outside, before
              L(<< N("Product", << D[i], X >>) >>),                         \* outside, same expression
              L(<< D[i], D[(i % Len(D)) + 1] >>),                           \* another wrapper, other shape
              L(<< CSE0(N("Sum", << D[i], X >>)) >>),                       \* nested pre-existing wrappers
              L(<< D[i], N("Sum", << Twin(X), KI(1) >>) >>),                \* (commuted) twin after
              L(<< D[i], N("Sum", << X, KI(1) >>), N("Product", << KI(2), X >>) >>) } : i \in 1..Len(D) }
    \cup { L(<< CSE0(N("Sum", << N("Product", << X, vc >>), B("Quotient", X, vb) >>)) >>),  \* same wrapper only
           L(<< CSE(N("Product", << X, vc >>), "n", EvalScope), N("Sum", << X, KI(1) >>) >>) }  \* prefixed
WrapDepthRoots == UNION { WrapDepthLists(X) : X \in WXPool }
WrapHoleRoots == { L(<< CSE0(N("Product", << A, vc >>)), Bh >>) }
TagRoots == IF Tier = "neg" THEN TagRootsNeg \cup PosRootsNeg
            ELSE KindRoots \cup SameNodeRoots \cup PosRoots(HostTemplates) \cup PosHoleRoots
                 \cup WrapDepthRoots \cup WrapHoleRoots
                 \cup (IF Tier = "quick" THEN TagRootsQuick ELSE TagRootsThorough)

\* ---- the helper cells -----------------------------------------------------
Arr1 == [t |-> "Arr", shape |-> << 3 >>, c |-> << S, KI(2), va >>]
Arr2 == [t |-> "Arr", shape |-> << 2, 2 >>, c |-> << S, KI(2), W0, P >>]
Arr3 == [t |-> "Arr", shape |-> << 2 >>, c |-> << Wx, C1 >>]
MV1  == [t |-> "MV", bits |-> << 0, 1, 3 >>, c |-> << S, KI(2), va >>]
MV2  == [t |-> "MV", bits |-> << 1, 2 >>, c |-> << Wp, Q >>]
Scalars == { KI(5), K(FltV(3, 2)), K(BoolV(TRUE)), va, B("Sub", tt, KI(1)), S, P, Q, C1, Pw,
             W0, Wp, Wx, Wg, CSE(S, "", "pymbolic_global") }
Prefixes == { "", "q" }
WrapCells ==
       { [k |-> "wrap", fn |-> "wrap_in_cse", arg |-> e, prefix |-> p, scope |-> ""] :
            e \in Scalars, p \in Prefixes }
  \cup { [k |-> "wrap", fn |-> "make_cse", arg |-> e, prefix |-> p, scope |-> s] :
            e \in Scalars \cup { Arr1, Arr2, Arr3, MV1, MV2 }, p \in Prefixes,
            s \in { "", EvalScope, "pymbolic_expr", "pymbolic_global" } }

\* ---- state machine of the generator ----------------------------------------
TagCase(tr) == [k |-> "tag", tr |-> tr]
RandRoots == { L(<< A >>), L(<< A, A >>), L(<< A, A, A >>) }
\* (no Power over two holes here: towers of powers make the real evaluator compute
\* astronomically large integers)
RandSkel == Ops2(A, A) \cup (Ops2More(A, A) \ { B("Power", A, A) }) \cup Ops1(A)
            \cup { CSE0(A), CSE(A, "r", EvalScope), CSE(A, "", "pymbolic_expr") }
            \* round 2: hosts that are no operations themselves, every position a hole
            \cup { Call(A, << vc >>), Call(IfE(Cmp(A, "<", vc), ff, gg), << A >>),
                   CallKw(ff, << A >>, << KwArg("k1", A) >>), CallKw(A, << >>, << KwArg("k2", va) >>),
                   IfE(Cmp(A, "<", A), A, A), IfE(A, vb, A), B("Sub", tt, A), B("Sub", A, KI(1)),
                   B("Sub", mm, N("Tup", << KI(0), A >>)), Look(A, "p"),
                   N("LogOr", << A, A >>), N("LogAnd", << A, A >>), N("Max", << A, vc >>) }

Init == /\ fuel = (IF Mode = "rand" THEN 6 ELSE 0)
        /\ IF Mode = "rand" THEN cas \in { TagCase(r) : r \in RandRoots }
           ELSE IF Mode = "envs" THEN cas = TagCase(L(<< S >>))     \* replay: prints the box only
           ELSE cas \in { TagCase(r) : r \in TagRoots } \cup WrapCells

IsTag == cas.k = "tag"
Next == /\ IsTag /\ NH(cas.tr) > 0
        /\ IF Mode = "rand" /\ fuel > 0
           THEN \/ \E s \in RandSkel : cas' = TagCase(Fill1(cas.tr, s)) /\ fuel' = fuel - 1
                \/ \E s \in PoolA : cas' = TagCase(Fill1(cas.tr, s)) /\ fuel' = fuel
           ELSE \E s \in PoolFor(IF Mode = "rand" THEN "A" ELSE FirstHoleTy(cas.tr)) :
                   cas' = TagCase(Fill1(cas.tr, s)) /\ fuel' = fuel

Complete == ~IsTag \/ NH(cas.tr) = 0
Ins == cas.tr.c

\* ---- everything the model says about one list, computed once ---------------------
\*   inv : S-layer self-consistency - the cache invariants hold along the model's own
\*         event stream for the canonical history (every event allowed, the final state
\*         satisfies every invariant), and the event-level sharing predicate implies the
\*         (more lenient) tree-level one
\*   d   : does the transcribed tagger meet the property?  (design level)
ModelData(ins, lay) ==
    LET outs == TagImplL(ins, lay)
        evs  == CanonicalEvents(outs, Envs[1])
        run  == RunEvents(NewInst(1), evs, Envs)
        I    == run.I
        cls  == InClasses(ins)
        sbad == SharedBadRsC(cls, SeqOccs(outs))
        obad == IF AllReturned(evs) THEN OpBadRsC(cls, I) ELSE {}
        vals == [i \in 1..Len(Envs) |-> ValuePreservedV(ins, outs, Envs[i])]
        d == IF \E i \in 1..Len(vals) : vals[i] \notin {"OK", "SKIP"}
             THEN [v |-> "value", pat |-> vals[CHOOSE i \in 1..Len(vals) : vals[i] \notin {"OK", "SKIP"}]]
             ELSE IF ~NoWrapperOnWrapper(ins, outs) THEN [v |-> "wrapper-on-wrapper", pat |-> ""]
             ELSE IF ~InScope(ins) THEN
                (IF sbad # {} \/ obad # {} THEN [v |-> "OK", pat |-> "out-of-scope-not-shared"]
                 ELSE [v |-> "OK", pat |-> ""])
             ELSE IF sbad # {} THEN [v |-> "not-shared", pat |-> SharingPattern(ins, sbad)]
             ELSE IF obad # {} THEN [v |-> "RepeatedOpOnce", pat |-> SharingPattern(ins, obad)]
             ELSE [v |-> "OK", pat |-> ""]
        \* conditionals skip operands: there the event-level predicate sees less than the tree
        lazy == \E j \in 1..Len(outs) : \E n \in SubExprs(outs[j]) : n.t \in {"If", "LogOr", "LogAnd"}
    IN [inv |-> /\ run.bad = ""
                /\ AllInstInv(I)
                /\ ((AllReturned(evs) /\ obad = {} /\ ~lazy) => sbad = {}),
        d |-> d]

\* negative controls only: the transcription meets the property up to the one
\* design-level class known on the unchanged code
\* (the walk of the unchanged transcription never looks at the layout: one layout says all;
\* the identity controls are checked under every layout of the list)
Rich == Tier = "thorough" /\ Mode # "rand"
Lays(ins) == LayoutsOf(ins, Rich)
LaysForModel(ins) == IF Bug \in IdentityBugs THEN {NoLayout} \cup SeqToSet(LayoutsOf(ins, TRUE))
                     ELSE {NoLayout}
TagModelMeetsProperty ==
    (Complete /\ IsTag) =>
        \A lay \in LaysForModel(Ins) :
            LET d == ModelData(Ins, lay).d IN
            d.v = "OK" \/ (d.v \in {"not-shared", "RepeatedOpOnce"}
                           /\ d.pat = "in-preexisting-prefixed-wrapper")

\* ---- TLC invariants of every run ---------------------------------------------
\* the helper transcriptions satisfy their tables in every cell
HelperModelInv ==
    (~IsTag) =>
        LET res == IF cas.fn = "wrap_in_cse" THEN WrapInCseImpl(cas.arg, cas.prefix)
                   ELSE MakeCSEImpl(cas.arg, cas.prefix, cas.scope)
            v   == IF cas.fn = "wrap_in_cse" THEN WICVerdict(cas.arg, cas.prefix, res)
                   ELSE MCVerdict(cas.arg, cas.prefix, cas.scope, res)
        IN v \in {"OK", "UNSPEC"} /\ WrapValueVerdict(cas.arg, res, Envs) = "OK"

\* one invariant so that the model data is computed once per list: FALSE (a TLC error,
\* machinery failure) iff the S-layer is not self-consistent on the model; prints the
\* case, and the design-level class if the transcribed tagger misses the property
ModelCacheInv_Emit ==
    Complete =>
      IF IsTag
      THEN LET m  == ModelData(Ins, NoLayout)
               sh == Lays(Ins)
           IN
           /\ m.inv
           \* every generated layout is in normal form
           /\ \A i \in 1..Len(sh) : LayoutOK(L(Ins), sh[i])
           /\ PrintT(ToJson([kind |-> "tag", ins |-> Ins, shs |-> sh]))
           /\ ((m.d.v = "OK" /\ m.d.pat = "")
               \/ PrintT(ToJson([design |-> m.d.v, pat |-> m.d.pat, dins |-> Ins])))
      ELSE PrintT(ToJson([kind |-> "wrap", fn |-> cas.fn, arg |-> cas.arg,
                          prefix |-> cas.prefix, scope |-> cas.scope]))

ASSUME PrintT(ToJson([envs |-> Envs]))
=============================================================================
