---------------------------- MODULE C02_LogicJudge ----------------------------
(* Stage (3) for the family of C02_Logic: every value the real evaluators returned is judged    *)
(* against Python's meaning of the logical operators (PyEval), value and kind.                   *)
EXTENDS C02_Logic, IOUtils
VARIABLES blk, off
Recs == ndJsonDeserialize(IOEnv.TRACE_FILE)
BS == 16
NB == (Len(Recs) + BS - 1) \div BS
JInit == blk \in 0..(NB - 1) /\ off = 0 /\ tree = x
JNext == off < BS - 1 /\ off' = off + 1 /\ UNCHANGED << blk, tree >>
Idx == blk * BS + off + 1
VerdictAt(rec, i) ==
    LET exp == PyEval(rec.e, Envs[i])
        vs == [j \in 1..Len(rec.r[i]) |-> JudgeValT(exp, rec.r[i][j], rec.e, Envs[i])]
        bad == { j \in 1..Len(vs) : vs[j] \notin {"OK", "SKIP"} }
    IN IF bad = {} THEN "OK" ELSE vs[CHOOSE j \in bad : \A k \in bad : j <= k]
\* which meaning the observed values have: "bool-of-python" = exactly bool(Python's value) where
\* Python's value is no bool (the known deviation), anything else is unexplained
Explained(rec, i) ==
    LET exp == PyEval(rec.e, Envs[i]) IN
    ~IsErr(exp) /\ ~IsUnrep(exp)
    /\ \A j \in 1..Len(rec.r[i]) : rec.r[i][j] = BoolV(Truthy(exp))
Report ==
    Idx <= Len(Recs) =>
      LET rec == Recs[Idx]
          badenvs == { i \in 1..Len(Envs) : VerdictAt(rec, i) # "OK" } IN
      badenvs = {} \/
        LET i == CHOOSE i \in badenvs : \A k \in badenvs : i <= k IN
        PrintT(ToJson([id |-> rec.id, env |-> i, v |-> VerdictAt(rec, i),
                       bool_of_python |-> \A k \in badenvs : Explained(rec, k)]))
=============================================================================
