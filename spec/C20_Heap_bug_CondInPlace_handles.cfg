CONSTANT HBuggy = "CondInPlace"
CONSTANT Alias = FALSE
CONSTANT MaxOps = 2
CONSTANT MaxLen = 8
CONSTANT MaxObj = 20
INIT Init
NEXT Next
INVARIANT HInv_HandlesKeep
CHECK_DEADLOCK FALSE
