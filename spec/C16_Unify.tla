------------------------------ MODULE C16_Unify ------------------------------
(***************************************************************************)
(* C16, M-layer: what it MEANS for a pattern-matching result to be sound.  *)
(* Written from the mathematics of matching modulo associativity and       *)
(* commutativity, not from pymbolic's source.                              *)
(*                                                                         *)
(*   Inst(p, s)        simultaneous substitution of the variables in       *)
(*                     DOMAIN s (a function name -> expression)            *)
(*   NF(e)             normal form modulo AC of Sum / Product: the node    *)
(*                     becomes a BAG, i.e. a function                      *)
(*                          child normal form -> multiplicity              *)
(*                     after flattening nested nodes of the same kind, so  *)
(*                     that "equal up to reordering and regrouping" is     *)
(*                     TLA+ function equality.  Subscript indices are      *)
(*                     written as sequences (x[i] and x[(i,)] coincide).   *)
(*   ACEq(e1, e2)      NF(e1) = NF(e2)                                      *)
(*   NFU / ACUEq       the same after the identities x+0 = x, x*1 = x,     *)
(*                     x*0 = 0, 0/x = 0: an empty group of a sum is 0, of  *)
(*                     a product 1, a group of one operand is the          *)
(*                     operand.  Only                                      *)
(*                     used to SEPARATE "differs by an arithmetic          *)
(*                     simplification" from "wrong".                       *)
(*   Sound(p,t,C,r)    the statement's three clauses for one record        *)
(*   IsInjRenaming     the hypothesis of the completeness clause           *)
(*                                                                         *)
(* Expression shapes are those of Expr.tla; in addition wildcards          *)
(*   [t |-> "Wild", cls |-> "DotWildcard" | "StarWildcard", name |-> ..]   *)
(* are leaves here (they matter in C16_Matchpy.tla).                       *)
(***************************************************************************)
EXTENDS Expr

ACKinds == {"Sum", "Product"}
\* commutative but (in pymbolic's matcher) not regrouped; not named by the statement.
\* We are lenient: operand ORDER of these never makes a verdict fail.
CKinds  == {"BitOr", "BitXor", "BitAnd", "LogOr", "LogAnd", "Min", "Max"}

--------------------------------------------------------------------------
\* children / rebuild, extended to wildcards (leaves)
KidsW(e) == IF e.t = "Wild" THEN << >> ELSE Kids(e)
WithKidsW(e, ks) == IF e.t = "Wild" THEN e ELSE WithKids(e, ks)

RECURSIVE VarsOf(_), Inst(_, _), SizeW(_)
VarsOf(e) == IF e.t = "Var" THEN {e.name}
             ELSE UNION {VarsOf(KidsW(e)[i]) : i \in 1..Len(KidsW(e))}
SizeW(e) == 1 + SeqSum([i \in 1..Len(KidsW(e)) |-> SizeW(KidsW(e)[i])])

\* simultaneous substitution (NOT iterated: a |-> b, b |-> a swaps)
Inst(e, s) ==
    IF e.t = "Var" THEN (IF e.name \in DOMAIN s THEN s[e.name] ELSE e)
    ELSE WithKidsW(e, [i \in 1..Len(KidsW(e)) |-> Inst(KidsW(e)[i], s)])

--------------------------------------------------------------------------
\* bags as functions element -> positive multiplicity
EmptyBag == [x \in {} |-> 0]
BagOf1(e) == [x \in {e} |-> 1]
BagUnion(b1, b2) ==
    [x \in DOMAIN b1 \cup DOMAIN b2 |->
        (IF x \in DOMAIN b1 THEN b1[x] ELSE 0) + (IF x \in DOMAIN b2 THEN b2[x] ELSE 0)]
BagSize(b) == LET RECURSIVE Go(_)
                  Go(S) == IF S = {} THEN 0
                           ELSE LET x == CHOOSE y \in S : TRUE IN b[x] + Go(S \ {x})
              IN Go(DOMAIN b)
BagRemove1(b, e) ==      \* e \in DOMAIN b
    IF b[e] = 1 THEN [x \in DOMAIN b \ {e} |-> b[x]] ELSE [b EXCEPT ![e] = @ - 1]

ConstNF(n, d) == [t |-> "Const", n |-> n, d |-> d]
IsConstNF(x, n) == x.t = "Const" /\ x.n = n /\ x.d = 1

\* NFg(e, unit, AK): unit = FALSE strict AC, unit = TRUE AC with neutral elements;
\* AK = the kinds treated as associative AND commutative (flattened bags)
RECURSIVE NFg(_, _, _)
FlatBag(kind, s) ==
    LET RECURSIVE Go(_)
        Go(i) == IF i > Len(s) THEN EmptyBag
                 ELSE BagUnion(IF s[i].t = kind THEN s[i].bag ELSE BagOf1(s[i]), Go(i + 1))
    IN Go(1)
DropUnit(kind, b) ==
    LET u == IF kind = "Sum" THEN 0 ELSE 1
    IN [x \in {y \in DOMAIN b : ~IsConstNF(y, u)} |-> b[x]]
ACNode(kind, b, unit) ==
    IF ~unit THEN [t |-> kind, bag |-> b]
    ELSE LET b2 == DropUnit(kind, b) IN
         IF kind = "Product" /\ \E x \in DOMAIN b : IsConstNF(x, 0) THEN ConstNF(0, 1)
         ELSE IF DOMAIN b2 = {} THEN ConstNF(IF kind = "Sum" THEN 0 ELSE 1, 1)
         ELSE IF Cardinality(DOMAIN b2) = 1 /\ b2[CHOOSE x \in DOMAIN b2 : TRUE] = 1
              THEN CHOOSE x \in DOMAIN b2 : TRUE
              ELSE [t |-> kind, bag |-> b2]
NFg(e, unit, AK) ==
    LET nfs(s) == [i \in 1..Len(s) |-> NFg(s[i], unit, AK)] IN
    CASE e.t = "Var"   -> [t |-> "Var", name |-> e.name]
      [] e.t = "Const" -> ConstNF(e.v.n, e.v.d)       \* 1 == 1.0 == True, as Python's ==
      [] e.t = "Wild"  -> e
      [] e.t = "None"  -> e
      [] e.t \in AK -> ACNode(e.t, FlatBag(e.t, nfs(e.c)), unit /\ e.t \in ACKinds)
      [] e.t \in CKinds \ AK ->
            LET s == nfs(e.c)
                RECURSIVE Go(_)
                Go(i) == IF i > Len(s) THEN EmptyBag ELSE BagUnion(BagOf1(s[i]), Go(i + 1))
            IN [t |-> e.t, bag |-> Go(1)]
      [] e.t \in {"Tup", "List", "Slice"} -> [t |-> e.t, c |-> nfs(e.c)]
      [] e.t = "Sub" ->       \* index always as a sequence ("index tupling")
            [t |-> "Sub", a |-> NFg(e.a, unit, AK),
             c |-> IF e.b.t = "Tup" THEN nfs(e.b.c) ELSE << NFg(e.b, unit, AK) >>]
      [] e.t \in BinKinds \ {"Sub"} ->
            \* unit: 0/e = 0 (pymbolic's is_zero calls a quotient with a zero numerator zero,
            \* so flattened_sum drops it and flattened_product is absorbed by it)
            LET na == NFg(e.a, unit, AK) IN
            IF unit /\ e.t \in {"Quotient", "FloorDiv", "Remainder"} /\ IsConstNF(na, 0)
            THEN ConstNF(0, 1)
            ELSE [t |-> e.t, a |-> na, b |-> NFg(e.b, unit, AK)]
      [] e.t \in UnKinds -> [t |-> e.t, a |-> NFg(e.a, unit, AK)]
      [] e.t = "Cmp" -> [t |-> "Cmp", a |-> NFg(e.a, unit, AK), op |-> e.op, b |-> NFg(e.b, unit, AK)]
      [] e.t = "If"  -> [t |-> "If", i |-> NFg(e.i, unit, AK), th |-> NFg(e.th, unit, AK),
                         el |-> NFg(e.el, unit, AK)]
      [] e.t = "Call" -> [t |-> "Call", f |-> NFg(e.f, unit, AK), c |-> nfs(e.c)]
      [] e.t = "Look" -> [t |-> "Look", a |-> NFg(e.a, unit, AK), name |-> e.name]

NF(e)  == NFg(e, FALSE, ACKinds)
NFU(e) == NFg(e, TRUE, ACKinds)
ACEq(e1, e2)  == NF(e1) = NF(e2)
ACUEq(e1, e2) == NFU(e1) = NFU(e2)

\* all sub-normal-forms of a normal form (bag elements are children)
RECURSIVE SubNFs(_)
NFKids(x) ==
    CASE x.t \in {"Var", "Const", "Wild", "None"} -> {}
      [] x.t \in ACKinds \cup CKinds -> DOMAIN x.bag
      [] x.t \in {"Tup", "List", "Slice"} -> SeqToSet(x.c)
      [] x.t = "Sub" -> {x.a} \cup SeqToSet(x.c)
      [] x.t \in BinKinds \ {"Sub"} -> {x.a, x.b}
      [] x.t \in UnKinds -> {x.a}
      [] x.t = "Cmp" -> {x.a, x.b}
      [] x.t = "If" -> {x.i, x.th, x.el}
      [] x.t = "Call" -> {x.f} \cup SeqToSet(x.c)
      [] x.t = "Look" -> {x.a}
SubNFs(x) == {x} \cup UNION {SubNFs(k) : k \in NFKids(x)}

--------------------------------------------------------------------------
(* One recorded unification record:                                        *)
(*   eqs  : sequence of [l |-> lhs expression, r |-> rhs expression]       *)
(*   lmap : sequence of [n |-> name, e |-> bound expression]               *)
(* "binds only declared pattern variables"  -> DomainOK                    *)
(* "binds each of them to one value"        -> Functional                  *)
(* "instantiating the pattern gives the target up to AC" -> InstOK         *)

EqNames(r)  == {r.eqs[i].l.name : i \in {j \in 1..Len(r.eqs) : r.eqs[j].l.t = "Var"}}
LmapNames(r) == {r.lmap[i].n : i \in 1..Len(r.lmap)}
LmapFun(r) == [nm \in LmapNames(r) |->
                 r.lmap[CHOOSE i \in 1..Len(r.lmap) : r.lmap[i].n = nm].e]

LhsAreVars(r) == \A i \in 1..Len(r.eqs) : r.eqs[i].l.t = "Var"
\* C = {"*"} stands for "no restriction declared" (lhs_mapping_candidates=None)
DomainOK(p, C, r) ==
    LET D == LmapNames(r) \cup EqNames(r) IN
    D \subseteq VarsOf(p) /\ (C = {"*"} \/ D \subseteq C)
Functional(r) ==
    /\ \A i, j \in 1..Len(r.eqs) :
          (r.eqs[i].l.t = "Var" /\ r.eqs[j].l.t = "Var" /\ r.eqs[i].l.name = r.eqs[j].l.name)
             => r.eqs[i].r = r.eqs[j].r
    /\ \A i, j \in 1..Len(r.lmap) : r.lmap[i].n = r.lmap[j].n => r.lmap[i].e = r.lmap[j].e
    \* the binding table and the equations say the same thing
    /\ LmapNames(r) = EqNames(r)
    /\ \A i \in 1..Len(r.eqs) : r.eqs[i].l.t = "Var" => LmapFun(r)[r.eqs[i].l.name] = r.eqs[i].r
InstOK(p, t, r)     == ACEq(Inst(p, LmapFun(r)), t)
InstUnitOK(p, t, r) == ACUEq(Inst(p, LmapFun(r)), t)

\* verdict for one binding table f (a function name -> expression): "OK",
\* "simplified" (equal to the target only after applying x+0 = x, x*1 = x, x*0 = 0 and
\* dropping one-operand groups - see the report; never counted as unsound, never as OK)
\* or the name of the failing clause
BindVerdict(p, t, C, f) ==
    IF ~(DOMAIN f \subseteq VarsOf(p) /\ (C = {"*"} \/ DOMAIN f \subseteq C)) THEN "domain"
    ELSE IF ACEq(Inst(p, f), t) THEN "OK"
    ELSE IF ACUEq(Inst(p, f), t) THEN "simplified"
    ELSE "inst"
\* verdict for one recorded record
RecVerdict(p, t, C, r) ==
    IF ~LhsAreVars(r) THEN "lhs_not_variable"
    ELSE IF ~DomainOK(p, C, r) THEN "domain"
    ELSE IF ~Functional(r) THEN "functional"
    ELSE BindVerdict(p, t, C, LmapFun(r))
Sound(p, t, C, r) == RecVerdict(p, t, C, r) = "OK"

--------------------------------------------------------------------------
(* Completeness hypothesis: t is p under an injective renaming of p's      *)
(* variables that moves only declared (candidate) variables.  Computed by  *)
(* a parallel walk (t must have p's shape literally).                      *)
BadPair == << "!", "!" >>
SameHead(p, t) ==
    /\ p.t = t.t
    /\ Len(KidsW(p)) = Len(KidsW(t))
    /\ (p.t = "Const" => p.v.n = t.v.n /\ p.v.d = t.v.d)
    /\ (p.t = "Cmp" => p.op = t.op)
    /\ (p.t = "Look" => p.name = t.name)
    /\ (p.t = "Wild" => p = t)
RECURSIVE RenPairs(_, _)
RenPairs(p, t) ==
    IF p.t = "Var" THEN (IF t.t = "Var" THEN {<< p.name, t.name >>} ELSE {BadPair})
    ELSE IF ~SameHead(p, t) THEN {BadPair}
    ELSE UNION {RenPairs(KidsW(p)[i], KidsW(t)[i]) : i \in 1..Len(KidsW(p))}
IsInjRenaming(p, t, C) ==
    LET R == RenPairs(p, t) IN
    /\ BadPair \notin R
    /\ \A u, v \in R : (u[1] = v[1]) <=> (u[2] = v[2])        \* functional and injective
    /\ \A u \in R : (C # {"*"} /\ u[1] \notin C) => u[1] = u[2]

\* the node kinds the property's quantifier names ("sums, products, quotients, powers, calls,
\* subscripts, comparisons and conditionals", with variables and numbers as leaves).  The
\* generated space is wider (floor division, remainder, shifts, bitwise/logical operators,
\* min/max, attribute lookup); for patterns outside the quantifier a failing verdict is
\* reported as an EXTENSION finding, never as a violation of C16.
QuantKinds == {"Var", "Const", "Sum", "Product", "Quotient", "Power", "Call", "Sub", "Tup",
               "Cmp", "If"}
RECURSIVE InQuantifier(_)
InQuantifier(e) == e.t \in QuantKinds
                   /\ \A i \in 1..Len(KidsW(e)) : InQuantifier(KidsW(e)[i])

\* feature used for attribution: an AC node without operands occurs in the pattern
RECURSIVE HasEmptyAC(_)
HasEmptyAC(e) == (e.t \in ACKinds /\ Len(e.c) = 0)
                 \/ \E i \in 1..Len(KidsW(e)) : HasEmptyAC(KidsW(e)[i])
=============================================================================
