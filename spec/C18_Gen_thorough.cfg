CONSTANT Tier = "thorough"
CONSTANT Kinds = {"pair", "triple", "unary", "bilin", "eq", "sym", "homog", "symeq", "hist", "spc"}
CONSTANT MaxN = 5
CONSTANT Bug = "none"
INIT Init
NEXT Next
INVARIANT ModelHolds
INVARIANT Emit
CHECK_DEADLOCK FALSE
