CONSTANT Tier = "quick"
CONSTANT EAFP = TRUE
INIT Init
NEXT Next
INVARIANT OutcomeRefinesMeaning
CHECK_DEADLOCK FALSE
