CONSTANT Tier = "quick"
CONSTANT EAFP = FALSE
INIT Init
NEXT Next
INVARIANT ImplRefinesMeaning
INVARIANT DispatchSane
INVARIANT OutcomeRefinesMeaning
INVARIANT ForeignSane
INVARIANT Emit
CHECK_DEADLOCK FALSE
