CONSTANTS
  KeyMode = "full"
  Tier = "thorough"
  MaxCalls = 3
  Free = FALSE
  Bug = "none"
INIT Init
NEXT Next
INVARIANT EveryCallIsTheMeaning
INVARIANT ModelWalkAccepted
INVARIANT CacheCoherent
INVARIANT Emit
CHECK_DEADLOCK FALSE
