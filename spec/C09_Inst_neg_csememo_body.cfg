CONSTANT Tier = "quick"
CONSTANT Buggy = "csememo_body"
INIT Init
NEXT Next
INVARIANT InstInvHolds
CHECK_DEADLOCK FALSE
