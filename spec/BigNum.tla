------------------------------- MODULE BigNum -------------------------------
(***************************************************************************)
(* Exact integers beyond TLC's 32-bit arithmetic: sign and magnitude, the  *)
(* magnitude a sequence of limbs in base 10000, least significant first,   *)
(* without leading zero limbs.  Enough arithmetic to state what Python's   *)
(* integer operators mean on values of 15..40 digits: + - * compare, and   *)
(* floor division / remainder through their defining relation              *)
(*        a = q*b + r,   0 <= r < b  (b > 0)   or   b < r <= 0  (b < 0)     *)
(* (no long division is needed to JUDGE a quotient).                       *)
(***************************************************************************)
EXTENDS Integers, Sequences

BASE == 10000
IsLimbs(m) == \A i \in 1..Len(m) : m[i] \in 0..(BASE - 1)
RECURSIVE Strip(_)
Strip(m) == IF Len(m) > 0 /\ m[Len(m)] = 0 THEN Strip(SubSeq(m, 1, Len(m) - 1)) ELSE m
Big(s, m) == LET n == Strip(m) IN [s |-> IF Len(n) = 0 THEN 0 ELSE s, m |-> n]
BZero == [s |-> 0, m |-> << >>]
WellFormed(x) == /\ x.s \in {-1, 0, 1} /\ IsLimbs(x.m)
                 /\ (x.s = 0 <=> Len(x.m) = 0) /\ (Len(x.m) > 0 => x.m[Len(x.m)] # 0)

\* small integers of the model (|n| < BASE * BASE) as big integers
FromInt(n) ==
    LET a == IF n < 0 THEN -n ELSE n IN
    Big(IF n < 0 THEN -1 ELSE IF n = 0 THEN 0 ELSE 1, << a % BASE, a \div BASE >>)

Limb(m, i) == IF i <= Len(m) THEN m[i] ELSE 0
Max2(a, b) == IF a > b THEN a ELSE b

\* magnitudes -----------------------------------------------------------------
RECURSIVE MagCmpFrom(_, _, _)
MagCmpFrom(a, b, i) ==      \* compare from limb i downwards; lengths equal
    IF i = 0 THEN 0
    ELSE IF a[i] < b[i] THEN -1 ELSE IF a[i] > b[i] THEN 1 ELSE MagCmpFrom(a, b, i - 1)
MagCmp(a, b) == IF Len(a) < Len(b) THEN -1 ELSE IF Len(a) > Len(b) THEN 1 ELSE MagCmpFrom(a, b, Len(a))

RECURSIVE MagAddFrom(_, _, _, _)
MagAddFrom(a, b, i, carry) ==
    IF i > Max2(Len(a), Len(b)) THEN (IF carry = 0 THEN << >> ELSE << carry >>)
    ELSE LET t == Limb(a, i) + Limb(b, i) + carry IN << t % BASE >> \o MagAddFrom(a, b, i + 1, t \div BASE)
MagAdd(a, b) == MagAddFrom(a, b, 1, 0)

RECURSIVE MagSubFrom(_, _, _, _)
MagSubFrom(a, b, i, borrow) ==      \* a >= b
    IF i > Len(a) THEN << >>
    ELSE LET t == a[i] - Limb(b, i) - borrow IN
         IF t < 0 THEN << t + BASE >> \o MagSubFrom(a, b, i + 1, 1)
         ELSE << t >> \o MagSubFrom(a, b, i + 1, 0)
MagSub(a, b) == Strip(MagSubFrom(a, b, 1, 0))

RECURSIVE MagMulSmallFrom(_, _, _, _)
MagMulSmallFrom(a, k, i, carry) ==
    IF i > Len(a) THEN (IF carry = 0 THEN << >> ELSE << carry >>)
    ELSE LET t == a[i] * k + carry IN << t % BASE >> \o MagMulSmallFrom(a, k, i + 1, t \div BASE)
MagMulSmall(a, k) == Strip(MagMulSmallFrom(a, k, 1, 0))
RECURSIVE MagMulFrom(_, _, _)
MagMulFrom(a, b, j) ==      \* sum over limbs of b, shifted
    IF j > Len(b) THEN << >>
    ELSE MagAdd([i \in 1..(j - 1) |-> 0] \o MagMulSmall(a, b[j]), MagMulFrom(a, b, j + 1))
MagMul(a, b) == Strip(MagMulFrom(a, b, 1))

\* long division of magnitudes (b non-empty): limbs of a from the most significant down, each
\* quotient limb found by bisection (largest d with b*d <= running remainder)
RECURSIVE DigitSearch(_, _, _, _)
DigitSearch(r, b, lo, hi) ==
    IF lo = hi THEN lo
    ELSE LET mid == (lo + hi + 1) \div 2 IN
         IF MagCmp(MagMulSmall(b, mid), r) <= 0 THEN DigitSearch(r, b, mid, hi)
         ELSE DigitSearch(r, b, lo, mid - 1)
RECURSIVE MagDivFrom(_, _, _, _)
MagDivFrom(a, b, i, r) ==
    IF i = 0 THEN [q |-> << >>, r |-> r]
    ELSE LET r1 == Strip(<< a[i] >> \o r)
             d == DigitSearch(r1, b, 0, BASE - 1)
             rest == MagDivFrom(a, b, i - 1, MagSub(r1, MagMulSmall(b, d)))
         IN [q |-> rest.q \o << d >>, r |-> rest.r]
MagDivMod(a, b) == LET x == MagDivFrom(a, b, Len(a), << >>) IN [q |-> Strip(x.q), r |-> x.r]

\* signed -------------------------------------------------------------------
BigNeg(x) == [s |-> -x.s, m |-> x.m]
BigAdd(x, y) ==
    IF x.s = 0 THEN y ELSE IF y.s = 0 THEN x
    ELSE IF x.s = y.s THEN Big(x.s, MagAdd(x.m, y.m))
    ELSE LET c == MagCmp(x.m, y.m) IN
         IF c = 0 THEN BZero
         ELSE IF c > 0 THEN Big(x.s, MagSub(x.m, y.m)) ELSE Big(y.s, MagSub(y.m, x.m))
BigSub(x, y) == BigAdd(x, BigNeg(y))
BigMul(x, y) == IF x.s = 0 \/ y.s = 0 THEN BZero ELSE Big(x.s * y.s, MagMul(x.m, y.m))
BigCmp(x, y) ==
    IF x.s # y.s THEN (IF x.s < y.s THEN -1 ELSE 1)
    ELSE IF x.s = 0 THEN 0 ELSE x.s * MagCmp(x.m, y.m)
BigEq(x, y) == x.s = y.s /\ x.m = y.m

\* Python's a // b and a % b through their defining relation
IsDivMod(a, b, q, r) ==
    /\ b.s # 0
    /\ BigEq(BigAdd(BigMul(q, b), r), a)
    /\ IF b.s > 0 THEN r.s >= 0 /\ BigCmp(r, b) < 0
       ELSE r.s <= 0 /\ BigCmp(r, b) > 0

\* Python's floor division and remainder, COMPUTED (b # 0); BigDivLaw ties them to the relation
BigDivMod(a, b) ==
    LET x == MagDivMod(a.m, b.m) IN
    IF a.s = 0 THEN [q |-> BZero, r |-> BZero]
    ELSE IF a.s = b.s THEN [q |-> Big(1, x.q), r |-> Big(b.s, x.r)]
    ELSE IF Len(x.r) = 0 THEN [q |-> Big(-1, x.q), r |-> BZero]
    ELSE [q |-> Big(-1, MagAdd(x.q, << 1 >>)), r |-> Big(b.s, MagSub(b.m, x.r))]
BigDivLaw(S) == \A a, b \in S : b.s # 0 => LET x == BigDivMod(a, b) IN
                    WellFormed(x.q) /\ WellFormed(x.r) /\ IsDivMod(a, b, x.q, x.r)
RECURSIVE BigPow(_, _)
BigPow(x, n) == IF n = 0 THEN FromInt(1) ELSE BigMul(x, BigPow(x, n - 1))

\* sanity laws (checked by TLC on a box in C02_Big)
LawsOn(S) ==
    /\ \A x \in S : WellFormed(x) /\ BigEq(BigSub(x, x), BZero) /\ BigEq(BigAdd(x, BZero), x)
    /\ \A x, y \in S : /\ BigEq(BigAdd(x, y), BigAdd(y, x)) /\ BigEq(BigMul(x, y), BigMul(y, x))
                       /\ BigEq(BigSub(BigAdd(x, y), y), x) /\ WellFormed(BigMul(x, y))
                       /\ BigCmp(x, y) = -BigCmp(y, x)
    /\ \A x, y, z \in S : BigEq(BigMul(x, BigAdd(y, z)), BigAdd(BigMul(x, y), BigMul(x, z)))
=============================================================================
