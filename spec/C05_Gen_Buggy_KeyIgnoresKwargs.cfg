CONSTANTS
  PoolSel = "core"
  ArgSel = "full"
  MaxLen = 2
  KeyMode = "nokw"
  StoreMode = "store"
  HitMode = "identity"
  Random = FALSE
  FbMode = "faithful"
  ShareSel = "parity"
  RbMode = "faithful"
INIT Init
NEXT Next
INVARIANT NotSharedArgs
CHECK_DEADLOCK FALSE
