------------------------------ MODULE C02_Logic ------------------------------
(***************************************************************************)
(* C02, logical operators by the letter of the statement: "the ordinary    *)
(* Python operator each node denotes".  Python's  a or b  /  a and b  give  *)
(* back the OPERAND that decides (3 or 0 is 3), evaluating no operand after *)
(* it.  Eval.tla, like pymbolic's evaluator, gives the nodes the meaning of *)
(* any() / all() (a bool); the two agree on boolean operands only.  This    *)
(* family states Python's meaning (PyEval) next to Eval and judges what the *)
(* real evaluators return for logical nodes over NON-boolean operands       *)
(* against it; what it finds is the listed finding C02-F3.                  *)
(***************************************************************************)
EXTENDS C02_Env, Json
VARIABLE tree

x == V("x")  y == V("y")  z == V("z")  bb == V("b")
RECURSIVE PyEval(_, _)
PyAndOr(es, env, isOr) ==
    LET RECURSIVE Go(_)
        Go(i) == LET v == PyEval(es[i], env) IN
                 IF IsUnrep(v) \/ IsErr(v) THEN v
                 ELSE IF i = Len(es) \/ Truthy(v) = isOr THEN v
                 ELSE Go(i + 1)
    IN IF Len(es) = 0 THEN BoolV(~isOr) ELSE Go(1)
\* logical nodes occur at the root, below logical nodes, below 'not' and in the three positions
\* of a conditional; everything else is arithmetic without logical nodes (Eval)
PyEval(e, env) ==
    CASE e.t = "LogOr"  -> PyAndOr(e.c, env, TRUE)
      [] e.t = "LogAnd" -> PyAndOr(e.c, env, FALSE)
      [] e.t = "LogNot" -> LET v == PyEval(e.a, env) IN
                           IF IsUnrep(v) \/ IsErr(v) THEN v ELSE BoolV(~Truthy(v))
      [] e.t = "If" -> LET c == PyEval(e.i, env) IN
                       IF IsUnrep(c) \/ IsErr(c) THEN c
                       ELSE IF Truthy(c) THEN PyEval(e.th, env) ELSE PyEval(e.el, env)
      [] OTHER -> Eval(e, env)

Ops == { x, y, z, bb, KI(0), KI(3), N("Sum", << x, KI(-2) >>), B("Quotient", y, z), K(FltV(0, 1)) }
Pairs == { << a, b >> : a \in Ops, b \in Ops }
Roots == UNION { { N("LogOr", << p[1], p[2] >>), N("LogAnd", << p[1], p[2] >>),
                   N("LogOr", << p[1], p[2], z >>), N("LogAnd", << y, p[1], p[2] >>),
                   N("LogOr", << N("LogAnd", << p[1], p[2] >>), x >>),
                   N("LogAnd", << N("LogOr", << p[1], p[2] >>), y >>),
                   U("LogNot", N("LogOr", << p[1], p[2] >>)),
                   IfE(N("LogAnd", << p[1], p[2] >>), x, y),
                   IfE(bb, N("LogOr", << p[1], p[2] >>), N("LogAnd", << p[1], p[2] >>)) } : p \in Pairs }
Init == tree \in Roots
Next == FALSE /\ UNCHANGED tree
Emit == PrintT(ToJson([e |-> tree]))
ASSUME PrintT(ToJson([envs |-> Envs]))
\* the two meanings agree wherever only the truth VALUE is consumed and on boolean operands
ASSUME \A i \in 1..Len(Envs) :
         /\ PyEval(IfE(N("LogOr", << x, y >>), KI(1), KI(2)), Envs[i]) = Eval(IfE(N("LogOr", << x, y >>), KI(1), KI(2)), Envs[i])
         /\ PyEval(N("LogAnd", << bb, U("LogNot", bb) >>), Envs[i]) = Eval(N("LogAnd", << bb, U("LogNot", bb) >>), Envs[i])
\* and differ on others: 2 or -3 is 2, not True
ASSUME PyEval(N("LogOr", << x, y >>), Envs[1]) = IntV(2) /\ Eval(N("LogOr", << x, y >>), Envs[1]) = BoolV(TRUE)
=============================================================================
