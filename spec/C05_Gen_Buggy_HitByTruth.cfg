CONSTANTS
  PoolSel = "mini"
  ArgSel = "core"
  MaxLen = 1
  KeyMode = "ideal"
  StoreMode = "store"
  HitMode = "truthy"
  Random = FALSE
  FbMode = "faithful"
  ShareSel = "parity"
  RbMode = "faithful"
INIT Init
NEXT Next
INVARIANT NoComputedTwice
CHECK_DEADLOCK FALSE
