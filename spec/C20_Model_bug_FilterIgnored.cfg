CONSTANT Buggy = "FilterIgnored"
CONSTANT MaxOps = 1
CONSTANT MaxLen = 4
CONSTANT NIds = 5
CONSTANT NVars = 2
CONSTANT WithDaf = TRUE
INIT Init
NEXT Next
INVARIANT Step_DafClauses
CHECK_DEADLOCK FALSE
