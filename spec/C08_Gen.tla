------------------------------- MODULE C08_Gen -------------------------------
(***************************************************************************)
(* Stage (1) for C08.  TLC enumerates (tree, substitution map) pairs -     *)
(* trees: every node kind at the root with typed holes filled left to      *)
(* right, so that keys sit under keyword arguments, slices, CSEs, If       *)
(* conditions, tuples, call functions ...; maps: up to two (thorough:      *)
(* three) entries whose keys are names, Variables, Subscript or Lookup     *)
(* nodes and whose values may mention other keys (swaps, chains, self      *)
(* reference, a name and the Variable of the same name; round 5: a        *)
(* non-key Subscript / Lookup that the other entries turn INTO a compound  *)
(* key of the same map) - and checks ON                                    *)
(* THE MODEL, for every pair:                                              *)
(*   Lemma          the substitution lemma for Subst (M-layer, all envs)   *)
(*   AggLemma       its aggregate-update form for keys t[j]                *)
(*   ImplMatches    the transcribed SubstitutionMapper builds Subst's tree *)
(*                  except under the named deviation Dev_CSEZeroFold       *)
(*   ImplIdentity   it hands back the identical object at every position   *)
(*                  of MustSame except under a named deviation             *)
(*   CachedMatches  the transcribed memoizing mapper builds an equal tree  *)
(*   CachedIdentity and hands back an untouched shared input               *)
(* The classes in which the transcription breaks the property (named       *)
(* deviations) are printed as "design" lines; every pair worth driving is  *)
(* printed as one JSON line.  Bug # "none" replaces Subst by a broken      *)
(* variant: the negative controls of the lemma.                            *)
(***************************************************************************)
EXTENDS C08_Env, Json
CONSTANTS Tier, Mode, Bug
VARIABLES tree, sg, fuel

x == V("x")  y == V("y")  z == V("z")  bb == V("b")  uu == V("u")
ff == V("f") gg == V("g") tt == V("t") oo == V("o")
S1 == B("Sub", tt, KI(1))
LP == Look(oo, "p")
TRUEK == K(BoolV(TRUE))

\* ---- pools ---------------------------------------------------------------------
Tiny == { y, KI(2) }
LeavesQ == { x, y, S1, LP, KI(2) }
LeavesT == LeavesQ \cup { z, bb, tt, uu, TRUEK, Look(oo, "q"), B("Sub", tt, x) }
Leaves(big) == IF big THEN LeavesT ELSE LeavesQ

D1Q == { N("Sum", << x, y >>), B("Sub", tt, x), Call(ff, << x >>),
         CallKw(ff, << y >>, << KwArg("k1", x) >>), CSE0(x), N("Tup", << x, S1 >>),
         N("Product", << KI(2), LP >>), B("Sub", tt, TRUEK), B("Power", y, x) }
D1T == { N("Product", << x, y >>), B("Quotient", x, y), Cmp(x, "<", y), IfE(bb, x, y),
         U("LogNot", bb), N("Min", << x, y >>), CSE0(N("Sum", << x, S1 >>)),
         Call(gg, << S1, LP >>), B("Sub", tt, N("Sum", << x, KI(1) >>)),
         B("Sub", N("Tup", << x, y >>), KI(0)), Look(B("Sub", tt, KI(1)), "p"),
         N("Slice", << x, NoneE >>), CSE0(KI(0)) }
D1(big) == IF big THEN D1Q \cup D1T ELSE D1Q

HoleT(ty) == [t |-> "Hole", ty |-> ty]
PoolFor(ty, big) ==
    CASE ty = "any"  -> Leaves(big) \cup D1(big)
      [] ty = "leaf" -> Leaves(big)
      [] ty = "tiny" -> Tiny
      [] ty = "key"  -> { x, S1, LP }
      [] ty = "rnd"  -> {}          \* rand mode: see RandPool

RECURSIVE FirstHoleTy(_)
FirstHoleTy(e) ==
    IF e.t = "Hole" THEN e.ty
    ELSE LET ks == Kids(e)
             RECURSIVE Go(_)
             Go(i) == IF i > Len(ks) THEN "" ELSE
                      LET r == FirstHoleTy(ks[i]) IN IF r # "" THEN r ELSE Go(i + 1)
         IN Go(1)

\* ---- root skeletons: every node kind, keys reachable in every child position ----
SubstNode(a, names, c) == [t |-> "Subst", a |-> a, names |-> names, c |-> c]
DerivNode(a, names) == [t |-> "Deriv", a |-> a, names |-> names]
NaryOther == {"BitOr", "BitXor", "BitAnd", "LogOr", "LogAnd", "Min", "Max", "Tup"}
BinArith == {"Quotient", "FloorDiv", "Remainder", "Power", "LShift", "RShift"}

Skel(A, L, M, O) ==
       { N("Sum", << A, L >>), N("Product", << L, A >>), N("Sum", << O, A, KI(2) >>),
         N("Product", << A >>), N("Sum", << >>) }
  \cup { N(k, << A, O >>) : k \in NaryOther } \cup { N("Tup", << M, L >>) }
  \cup { B(k, A, O) : k \in BinArith } \cup { B(k, KI(2), A) : k \in {"Quotient", "Power", "RShift"} }
  \cup { B("Sub", A, M), B("Sub", tt, A), B("Sub", S1, A) }
  \cup { U(k, A) : k \in UnKinds }
  \cup { Cmp(A, op, O) : op \in {"<", "=="} } \cup { Cmp(O, op, L) : op \in {"!=", "<=", ">", ">="} }
  \cup { IfE(A, M, O), IfE(M, A, O), IfE(M, O, A) }
  \cup { Call(ff, << A >>), Call(A, << M >>), Call(gg, << M, A, O >>), Call(L, << >>) }
  \cup { CallKw(ff, << M >>, << KwArg("k1", A) >>),
         CallKw(gg, << >>, << KwArg("k2", A), KwArg("k1", M) >>),
         CallKw(A, << O >>, << KwArg("k2", M) >>) }
  \cup { Look(A, "p"), Look(L, "q") }
  \cup { CSE0(A), CSE(A, "pre", "pymbolic_global") }
  \cup { N("Slice", << A >>), B("Sub", tt, N("Slice", << A, NoneE >>)),
         B("Sub", tt, N("Slice", << NoneE, M, A >>)),
         B("Sub", tt, N("Tup", << M, N("Slice", << A, NoneE >>) >>)) }
  \cup { SubstNode(A, << "x" >>, << M >>), DerivNode(A, << "x" >>) }

\* special shapes: the zero fold of CSEs, lists, bare leaves, key nodes inside key nodes
Specials ==
       { CSE0(KI(0)), CSE0(K(FltV(0, 1))), CSE0(K(BoolV(FALSE))), CSE0(N("Tup", << >>)),
         N("Sum", << x, CSE0(KI(0)) >>), N("Sum", << y, CSE0(x) >>), CSE0(CSE0(x)),
         N("Product", << CSE0(N("Tup", << >>)), x >>),
         CSE0(B("Quotient", x, y)), CSE0(N("Product", << x, y >>)), CSE0(N("Sum", << x >>)),
         N("Sum", << z, CSE0(B("Quotient", x, z)) >>), CSE0(N("Product", << x, uu >>)),
         CSE0(B("Remainder", N("Product", << y, x >>), z)),
         N("List", << x, y >>), N("List", << y, KI(2) >>), N("Sum", << x, N("List", << y >>) >>),
         Call(ff, << N("List", << x >>), y >>), B("Sub", tt, N("List", << KI(1) >>)),
         N("Tup", << N("List", << >>), x >>),
         x, y, S1, LP, KI(2), tt, ff,
         B("Sub", B("Sub", tt, KI(1)), x), Look(Look(oo, "p"), "q"), B("Sub", tt, B("Sub", tt, KI(1))),
         N("Sum", << x, x, x >>), N("Sum", << N("Product", << y, z >>), N("Product", << y, z >>), x >>),
         N("Sum", << N("Product", << KI(1), z >>), N("Product", << TRUEK, z >>), x >>),
         N("Tup", << >>), N("Tup", << N("Tup", << x, y >>), N("Tup", << y, KI(2) >>) >>),
         \* a look-up whose attribute name is a key name; falsy slice bounds; constants whose
         \* Python hashes collide (hash(-1) == hash(-2))
         Look(oo, "x"), N("Sum", << Look(oo, "x"), x >>), N("Sum", << Look(oo, "y"), y, x >>),
         B("Sub", tt, N("Slice", << KI(0), x >>)), B("Sub", tt, N("Slice", << x, KI(0) >>)),
         B("Sub", tt, N("Slice", << y, x, KI(0) >>)), B("Sub", tt, N("Slice", << K(BoolV(FALSE)), x >>)),
         N("Sum", << B("Power", x, KI(-1)), B("Power", x, KI(-2)) >>),
         N("Sum", << N("Product", << KI(-1), x >>), N("Product", << KI(-2), x >>) >>),
         N("Tup", << KI(-1), KI(-2), x >>), N("Tup", << KI(-2), x, KI(-1) >>) }

A == HoleT("any")  L == HoleT("leaf")  M == HoleT("tiny")  Rn == HoleT("rnd")
Roots(big) == Skel(A, L, M, IF big THEN M ELSE y) \cup Specials

\* ---- substitution maps -------------------------------------------------------------
NX(v) == NameEntry("x", v)   NY(v) == NameEntry("y", v)
VX(v) == ExprEntry(x, v)     VY(v) == ExprEntry(y, v)
ES1(v) == ExprEntry(S1, v)   ELP(v) == ExprEntry(LP, v)
X1 == N("Sum", << x, KI(1) >>)
XY == N("Product", << x, y >>)
T3 == N("Tup", << x, y, KI(2) >>)

\* the first NSQ single-entry maps are the quick tier's
NSQ == 17
Singles == <<
  NX(y), NX(X1), NX(KI(0)), NX(uu), VX(y), VX(XY), NY(x), VY(KI(2)),
  ES1(x), ExprEntry(B("Sub", tt, x), y), ExprEntry(B("Sub", tt, TRUEK), z),
  ELP(y), ELP(N("Sum", << LP, KI(1) >>)), NameEntry("f", gg), NameEntry("t", T3),
  NX(B("Quotient", y, z)), NameEntry("o", V("o2")),
  NX(S1), ES1(KI(0)), NameEntry("b", Cmp(x, "<", y)), VX(K(BoolV(FALSE))),
  NameEntry("z", x), NameEntry("o", V("o")), ExprEntry(Look(oo, "q"), x) >>

PairsQ == {
  << NX(y), NY(x) >>, << VX(y), VY(x) >>, << NX(y), VY(x) >>,             \* swaps
  << NX(y), NY(KI(2)) >>, << VY(KI(2)), VX(y) >>,                          \* chains
  << NX(X1), NY(XY) >>,                                                    \* self reference
  << NX(KI(2)), VX(y) >>, << VX(y), NX(KI(2)) >>,                          \* name and Variable of one name
  << ES1(x), NX(KI(2)) >>, << NX(S1), ES1(x) >>,                           \* node key and name key meet
  << ExprEntry(B("Sub", tt, x), y), NX(KI(1)) >>,                          \* key contains another key
  << ELP(y), NY(x) >>, << ELP(x), ES1(LP) >>,
  << NameEntry("t", T3), ES1(x) >>, << NameEntry("o", V("o2")), ELP(z) >>, \* aggregate is a key too
  << NameEntry("f", gg), NameEntry("g", ff) >>,
  << NY(z), NameEntry("z", y) >> }

KeyId(en) == IF en.kf = "name" THEN << "n", V(en.name) >> ELSE << "e", Norm(en.key) >>
NS == Len(Singles)
PairsT == { << Singles[q[1]], Singles[q[2]] >> : q \in { r \in (1..NS) \X (1..NS) : r[1] < r[2] } }
TriplesT == { << NX(y), NY(z), NameEntry("z", x) >>, << VX(y), NY(z), ES1(x) >>,
              << ES1(LP), ELP(x), NX(S1) >>, << NX(KI(2)), VX(y), NY(x) >> }
SigmasQ == { << >> } \cup { << Singles[i] >> : i \in 1..NSQ } \cup PairsQ
SigmasT == SigmasQ \cup { << Singles[i] >> : i \in 1..Len(Singles) }
           \cup { p \in PairsT : KeyId(p[1]) # KeyId(p[2]) } \cup TriplesT
\* the maps that meet the big tree pools of the thorough tier
SigmasBig == { << NX(y), NY(x) >>, << VX(y), NX(KI(2)) >>, << ES1(x), NX(KI(2)) >>,
               << ELP(x), ES1(LP) >>, << ExprEntry(B("Sub", tt, x), y), NX(KI(1)) >>,
               << NX(X1), NY(XY) >>, << NameEntry("t", T3), ES1(x) >>, << NX(KI(0)) >> }

\* maps under which even an untouched tree is driven (root identity)
IdleSigmas == { << >>, << NX(y) >>, << ES1(x), NX(KI(2)) >> }

\* ---- round 4: a node directly below a node of its OWN kind --------------------------------
\* Collapsing / flattening / associativity short cuts of a traversal live exactly there
\* ("~~a is a", "a sum in a sum is one sum", "a CSE of a CSE is one CSE"), and what is exact for
\* one kind is wrong for its sibling (not not v is bool(v), not v).  The nest is generated
\*   (a) pre-existing in the tree, with a key underneath so that every level is rebuilt
\*       (NestSkel: the unary kinds in all four combinations, three deep, below other nodes;
\*       every n-ary / binary kind, CSE, If, Call inside itself), and
\*   (b) CREATED by the replacement: the inserted value has the kind of the node it is inserted
\*       under (KindSigmas: one value per node kind, met by every root kind with the key in
\*       every child position; swap, self reference, Variable / Subscript / Lookup keys).
\* The box of environments binds x, y, z to integers other than 0 / 1 and to rationals, so a
\* truth value in place of the operand (or the reverse) changes the value.
LNot(a) == U("LogNot", a)   BNot(a) == U("BitNot", a)
K2 == HoleT("key")
NestSkel(AA, LL, MM, KK) ==
       { U(k1, U(k2, AA)) : k1 \in UnKinds, k2 \in UnKinds }
  \cup { U(k1, U(k2, U(k1, LL))) : k1 \in UnKinds, k2 \in UnKinds }
  \cup { N("Sum", << KI(3), U(k, U(k, LL)) >>) : k \in UnKinds }
  \cup { IfE(U(k, U(k, KK)), MM, z) : k \in UnKinds } \cup { U(k, N("LogAnd", << U(k, KK), bb >>)) : k \in UnKinds }
  \cup { N(k, << N(k, << KK, y >>), z >>) : k \in {"Sum", "Product"} \cup NaryOther }
  \cup { N(k, << z, N(k, << y, KK >>) >>) : k \in {"Sum", "Product", "LogAnd", "LogOr", "Min"} }
  \cup { B(k, B(k, KK, y), KI(2)) : k \in BinArith } \cup { B(k, KI(2), B(k, y, KK)) : k \in {"Power", "Quotient"} }
  \cup { CSE0(CSE0(LL)), IfE(IfE(bb, KK, y), z, KI(2)), IfE(bb, IfE(bb, y, KK), z),
         Call(ff, << Call(ff, << KK >>) >>), Cmp(Cmp(KK, "<", y), "==", z),
         B("Sub", B("Sub", tt, KK), KI(0)), Look(Look(KK, "p"), "q") }

KindVals ==
       { LNot(y), BNot(y), LNot(LNot(y)), BNot(BNot(y)), LNot(BNot(y)), BNot(LNot(y)) }
  \cup { N(k, << y, z >>) : k \in {"Sum", "Product"} \cup NaryOther }
  \cup { B(k, y, KI(2)) : k \in BinArith }
  \cup { CSE0(y), IfE(bb, y, z), Cmp(y, "<", z), Call(ff, << y >>) }
KindSigmas == { << NX(v) >> : v \in KindVals } \cup
              { << NX(LNot(y)), NY(x) >>,                 \* a swap that negates
                << NX(LNot(x)) >>, << VX(BNot(x)) >>,     \* self reference: inserted, not mapped again
                << ES1(LNot(x)) >>, << ELP(BNot(LP)) >>,  \* node keys
                << VX(LNot(y)), VY(BNot(x)) >> }
\* the same addition in both tiers (fuel 0: the small pools)
Nest == \/ tree \in NestSkel(A, L, M, K2) /\ sg \in SigmasQ \cup KindSigmas /\ fuel = 0
        \/ tree \in Skel(x, x, y, y) \cup NestSkel(x, x, y, x) /\ sg \in KindSigmas /\ fuel = 0

\* ---- round 5: a compound node that is NOT a key but BECOMES one by the other replacements ----
\* The mapper consults its map for Variables, Subscripts and Lookups.  "Simultaneous, single pass"
\* has to hold for every one of these key kinds: a compound node of the ORIGINAL that is no key is
\* traversed, and what the traversal builds is not looked up again - even when the replacements made
\* in its aggregate / index turn it into (something == to) a compound key of the same map.
\* TLC chooses: the compound key K (t[x], t[1], o.p), which child position(s) of K the other
\* replacement produces, what is replaced by that child (a variable - given by name or as a
\* Variable - or another compound key), the value K is mapped to (a constant, or an expression that
\* mentions K itself and further keys), and the place of the near-key K' in the tree (alone, next to
\* the real key K, below / above Subscript and Lookup nodes, under the other node kinds).
KSX == B("Sub", tt, x)
CompKeys == { KSX, S1, LP }
Poss(KK) == IF KK.t = "Sub" THEN {"a", "b"} ELSE {"a"}
ChildAt(KK, pos) == IF pos = "a" THEN KK.a ELSE KK.b
PutAt(KK, pos, w) == IF pos = "a" THEN [KK EXCEPT !.a = w] ELSE [KK EXCEPT !.b = w]
PreImg(KK, pos) == (IF pos = "b" THEN { y, z, LP }
                    ELSE IF KK.t = "Sub" THEN { uu, z } ELSE { uu, V("o2"), S1 }) \ { ChildAt(KK, pos) }
Forms(w) == IF w.t = "Var" THEN {"name", "expr"} ELSE {"expr"}
EntryOf(w, form, v) == IF form = "name" THEN NameEntry(w.name, v) ELSE ExprEntry(w, v)
QVals(KK) == { KI(7), N("Sum", << KK, y >>) }
\* [sg: the map, nk: the near-key, k: the key it must not be taken for, w: what is replaced]
OvFor(KK, pos, w) ==
    { [sg |-> << EntryOf(w, f, ChildAt(KK, pos)), ExprEntry(KK, q) >>,
       nk |-> PutAt(KK, pos, w), k |-> KK, w |-> w] : f \in Forms(w), q \in QVals(KK) }
OvOne == UNION { UNION { UNION { OvFor(KK, pos, w) : w \in PreImg(KK, pos) } : pos \in Poss(KK) }
                 : KK \in CompKeys }
\* both child positions at once; the index swapped; the key entry first; an index that is only == to
\* the key's (t[True] is the key t[1] for a dict, but t[y] is not a key of the original)
OvMore ==
    { [sg |-> << EntryOf(uu, fa, tt), EntryOf(y, fb, KK.b), ExprEntry(KK, q) >>,
       nk |-> B("Sub", uu, y), k |-> KK, w |-> y]
      : KK \in {KSX, S1}, fa \in {"name", "expr"}, fb \in {"name"}, q \in {KI(7)} } \cup
    { [sg |-> << ExprEntry(KSX, q), EntryOf(x, f, y), EntryOf(y, f, x) >>,
       nk |-> B("Sub", tt, y), k |-> KSX, w |-> y] : f \in {"name", "expr"}, q \in QVals(KSX) } \cup
    { [sg |-> << ExprEntry(KK, KI(7)), NameEntry(w.name, ChildAt(KK, pos)) >>,
       nk |-> PutAt(KK, pos, w), k |-> KK, w |-> w]
      : KK \in CompKeys, pos \in {"a"}, w \in {uu} } \cup
    { [sg |-> << NY(TRUEK), ES1(q) >>, nk |-> B("Sub", tt, y), k |-> S1, w |-> y] : q \in QVals(S1) } \cup
    { [sg |-> << ES1(oo), ELP(q), NY(KI(1)) >>, nk |-> Look(B("Sub", tt, y), "p"), k |-> LP, w |-> y]
      : q \in {KI(7)} }
OvChoices == OvOne \cup OvMore
OvSigmas == { o.sg : o \in OvChoices }
\* where the near-key NK stands (KK: the real key, W: what is replaced below NK)
OvSkelQ(NK, KK, W) ==
    { NK, N("Sum", << KK, NK >>), N("Sum", << NK, N("Product", << KI(10), KK >>) >>),
      N("Tup", << NK, W, KK >>), B("Sub", NK, KI(0)), B("Sub", tt, NK), Look(NK, "p"),
      Call(ff, << NK >>), CallKw(ff, << KK >>, << KwArg("k1", NK) >>), IfE(bb, NK, KK),
      CSE0(NK), B("Power", NK, KI(2)), N("Sum", << NK, NK, W >>),
      B("Sub", tt, N("Slice", << NK, NoneE >>)) }
OvSkel(NK, KK, W) == IF Tier = "quick" THEN OvSkelQ(NK, KK, W)
                     ELSE OvSkelQ(NK, KK, W) \cup Skel(NK, NK, y, KK)
Overlap == \E o \in OvChoices : sg = o.sg /\ tree \in OvSkel(o.nk, o.k, o.w) /\ fuel = 0

\* ---- the state machine that enumerates ------------------------------------------------
RandSkel == { s \in Skel(Rn, Rn, Rn, Rn) : s.t \notin {"Subst", "Deriv"} } \cup
            { N("Sum", << Rn, Rn, Rn >>), Call(Rn, << Rn, Rn >>), IfE(Rn, Rn, Rn),
              CallKw(Rn, << Rn >>, << KwArg("k1", Rn), KwArg("k2", Rn) >>),
              B("Sub", Rn, N("Tup", << Rn, Rn >>)), CSE0(N("Sum", << Rn, Rn >>)) }
RandPool == IF fuel > 0 THEN RandSkel \cup LeavesT ELSE LeavesT \cup D1Q \cup D1T

\* exh mode: fuel only selects the pools (0: small, 1: big)
Init == IF Mode = "exh" /\ Tier = "quick" THEN ((tree \in Roots(FALSE) /\ sg \in SigmasQ /\ fuel = 0) \/ Nest \/ Overlap)
        ELSE IF Mode = "exh" THEN \/ tree \in Roots(FALSE) /\ sg \in SigmasT /\ fuel = 0
                                  \/ tree \in Roots(TRUE) /\ sg \in SigmasBig /\ fuel = 1
                                  \/ Nest \/ Overlap
        ELSE tree = Rn /\ sg \in SigmasT \cup KindSigmas \cup OvSigmas /\ fuel \in {2, 3, 4, 5}
Next == /\ NHoles(tree) > 0
        /\ UNCHANGED sg
        /\ IF Mode = "exh"
           THEN (\E s \in PoolFor(FirstHoleTy(tree), fuel = 1) : tree' = FillFirst(tree, s)) /\ fuel' = fuel
           ELSE tree' = FillFirst(tree, RandomElement(RandPool))   \* one draw per step
                /\ fuel' = (IF fuel > 0 THEN fuel - 1 ELSE 0)

Complete == NHoles(tree) = 0

\* ---- negative controls: broken notions of substitution --------------------------------
HitB(node, s) ==
    IF Bug = "namefirst" /\ node.t = "Var" /\ NameHits(node.name, s) # {}
    THEN SetMax(NameHits(node.name, s)) ELSE Hit(node, s)
RECURSIVE SubstB(_, _)
SubstB(e, s) ==
    LET h == HitB(e, s)
        mapped == WithKids(e, [i \in 1..Len(Kids(e)) |-> SubstB(Kids(e)[i], s)])
    IN IF Bug = "innermost" /\ e.t \in {"Sub", "Look"}
       THEN (IF HitB(mapped, s) # 0 THEN s[HitB(mapped, s)].val ELSE mapped)
       ELSE IF h # 0 THEN (IF Bug = "recursive" THEN Subst(s[h].val, s) ELSE s[h].val)
       \* a compound node that is no key is rebuilt and then looked up AGAIN ("the entry may only be
       \* recognisable once its index is known"): the output of the substitution is substituted
       ELSE IF Bug = "relookup" /\ e.t \in {"Sub", "Look"} /\ mapped # e /\ HitB(mapped, s) # 0
            THEN s[HitB(mapped, s)].val
       ELSE IF Bug = "skipkw" /\ e.t = "CallKw" THEN [mapped EXCEPT !.kw = e.kw]
       \* "k(k(a)) is a" applied to every unary kind when the node is rebuilt (exact for ~, wrong for not)
       ELSE IF Bug = "collapse" /\ e.t \in UnKinds /\ mapped # e /\ mapped.a.t = e.t THEN mapped.a.a
       ELSE IF Bug = "skipslice" /\ e.t = "Slice" THEN e
       ELSE mapped
SubstUT(e, s) ==
    IF Bug = "sequential"
    THEN LET RECURSIVE Go(_, _)
             Go(i, acc) == IF i > Len(s) THEN acc ELSE Go(i + 1, Subst(acc, << s[i] >>))
         IN Go(1, e)
    ELSE IF Bug = "none" THEN Subst(e, s) ELSE SubstB(e, s)

\* ---- checked on the model ----------------------------------------------------------------
Lemma ==
    Complete => LET l == Lower(SubstUT(tree, sg)) r == LemmaRhsTree(tree, sg) IN
                \A i \in 1..Len(Envs) : Eval(l, Envs[i]) = Eval(r, EnvOf(sg, Envs[i]))

AggKeyShape(k) == sg[k].kf = "expr" /\ sg[k].key.t = "Sub"
AggLemma ==
    Complete => \A k \in { kk \in 1..Len(sg) : AggKeyShape(kk) }, i \in 1..Len(Envs) :
        AggApplicable(tree, sg, k, Envs[i]) =>
            LemmaLhs(Subst(tree, sg), Envs[i]) = AggRhs(tree, sg, k, Envs[i])

\* non-vacuity witnesses for AggLemma are counted through the design lines below

ImplMatches ==
    Complete => \/ Norm(Impl(tree, sg).e) = Norm(Subst(tree, sg))
                \/ Dev_CSEZeroFold(tree, sg)

\* the positions of MustSame at which the transcription does not return the input object
BadIdent == LET same == ImplSameSet(tree, sg) IN
            { p \in MustSame(tree, sg) : Prefixes(p) \cap same = {} }
ImplIdentity ==
    Complete => \A p \in BadIdent : DevAt(tree, sg, p) # "none"

AllTrees == SubExprs(tree) \cup
            UNION { SubExprs(sg[i].val) \cup (IF sg[i].kf = "expr" THEN SubExprs(sg[i].key) ELSE {})
                    : i \in 1..Len(sg) }
Shareable == Cardinality({ Norm(s) : s \in AllTrees }) = Cardinality(AllTrees)

CachedMatches ==
    Complete => Norm(ImplC(tree, sg, << >>).e) = Norm(Impl(tree, sg).e)

CachedIdentity ==
    (Complete /\ ~Touched(tree, sg) /\ DevOfSubtree(tree, sg) = "none" /\ Shareable)
        => ImplC(tree, sg, << >>).same

\* ---- design-level failure classes: where the transcription breaks the property -----------
ValueBreaks(res) ==
    \E i \in 1..Len(Envs) :
        JudgeVal(LemmaRhs(tree, sg, Envs[i]), LemmaLhs(res, Envs[i]),
                 LemmaRhsTree(tree, sg), EnvOf(sg, Envs[i])) \notin {"OK", "SKIP"}
Classes ==
    LET devs == { DevAt(tree, sg, p) : p \in BadIdent }
        IdentityBreaks(dev) == dev \in devs
    IN
    (IF PlainRaises(tree, sg) THEN {"plain-raises/Unhashable"} ELSE {}) \cup
    (IF CachedRaises(tree, sg) THEN {"cached-raises/Unhashable"} ELSE {}) \cup
    (IF IdentityBreaks("ListCopied") THEN {"identity/ListCopied"} ELSE {}) \cup
    (IF IdentityBreaks("CSEZeroFold") THEN {"identity/CSEZeroFold"} ELSE {}) \cup
    (IF Dev_CSEZeroFold(tree, sg) /\ ValueBreaks(Impl(tree, sg).e)
     THEN {"value/CSEZeroFold"} ELSE {})
SetToSeq(S) == LET RECURSIVE Go(_)
                   Go(T) == IF T = {} THEN << >>
                            ELSE LET e == CHOOSE e \in T : TRUE IN << e >> \o Go(T \ {e})
               IN Go(S)
AggWitness == \E k \in { kk \in 1..Len(sg) : AggKeyShape(kk) }, i \in 1..Len(Envs) :
                  AggApplicable(tree, sg, k, Envs[i])

Worth == Touched(tree, sg) \/ sg \in IdleSigmas \/ Mode = "rand"
Emit ==
    Complete =>
      /\ (~Worth \/ PrintT(ToJson([e |-> tree, sg |-> sg])))
      /\ (Classes = {} \/ PrintT(ToJson([design |-> SetToSeq(Classes)])))
      /\ (~(AggWitness /\ Touched(tree, sg)) \/ PrintT(ToJson([agg |-> 1])))

ASSUME PrintT(ToJson([envs |-> Envs]))
=============================================================================
