--------------------------- MODULE C12_CSEEvalCache ---------------------------
(***************************************************************************)
(* S-layer state machine for C12: evaluator instances, each with its own   *)
(* wrapper cache, fed with histories of top-level evaluations              *)
(* ("all sequences of evaluations on fresh and reused evaluator            *)
(* instances").                                                            *)
(*                                                                         *)
(* TLC (a) enumerates every history of <= MaxH evaluations over <= NInst   *)
(* instances for every expression list of the catalogue (hand-placed       *)
(* wrappers: repeated, nested, directly nested, prefixed/unprefixed twins, *)
(* wrappers whose child raises, raising after the wrapper was computed),   *)
(* (b) lets the implementation-shaped caching evaluator MEval produce the  *)
(* event stream of every evaluation and steps the instance records over    *)
(* it ONE EVENT PER TLC STEP, checking the invariants in every state and   *)
(* the action property CacheOnlyGrows on every step, (c) prints every      *)
(* complete history for the driver.                                        *)
(*                                                                         *)
(* Negative controls (constant Bug): NoCache, SharedCache,                 *)
(* KeyIgnoresPrefix - each must make TLC report a violated invariant.      *)
(***************************************************************************)
EXTENDS C12_CSE, C12_Env, Json
CONSTANTS Tier, MaxH, NInst
VARIABLES exprs, hist, insts, caches, pending
vars == << exprs, hist, insts, caches, pending >>

va == V("a")  vb == V("b")  vc == V("c")  ff == V("f")
S   == N("Sum", << va, vb >>)
W   == CSE0(S)
Wp  == CSE(S, "p", EvalScope)
Wx  == CSE(S, "", "pymbolic_expr")
N1  == CSE0(N("Product", << W, vc >>))

HEQuick == {
  W,                                   \* one wrapper
  N("Sum", << W, W >>),                \* the same wrapper twice in one expression
  N("Product", << W, Wp >>),           \* two distinct wrappers around the same child
  N("Product", << W, S >>),            \* wrapper next to its bare child
  B("Quotient", N1, W),                \* wrapper nested inside a wrapper's child, and outside
  CSE0(W),                             \* wrapper directly around a wrapper
  B("Quotient", vc, W),                 \* raises in E2 after the wrapper was computed
  CSE0(B("Quotient", vc, S)),           \* the wrapper's child itself raises in E2
  \* round 2: wrappers in the positions of a host that is no operation, one of them lazy
  IfE(Cmp(W, "<", vc), B("Quotient", vc, W), Wp) }
HEMore == {
  Call(ff, << W >>),
  N("Sum", << Wx, W >>),               \* twins differing in scope only
  B("Power", W, KI(2)),
  N("Sum", << N1, N1, W >>),
  B("Quotient", CSE0(B("Quotient", vc, S)), W),
  CSE(N("Product", << Wp, CSE0(B("Remainder", vc, KI(2))) >>), "q", "pymbolic_global"),
  N("Product", << CSE0(KI(2)), CSE0(va), W >>),
  Call(CSE0(IfE(Cmp(W, "<", vc), ff, V("g"))), << W, Wp >>),     \* a wrapper in the function position
  N("LogOr", << Cmp(W, "<", vc), Cmp(Wp, "<", vc) >>),
  CSE0(IfE(Cmp(vc, "<", W), Wx, N1)) }                             \* a lazy child of a wrapper
HENeg == { N("Sum", << W, W >>), N("Product", << W, Wp >>), CSE0(B("Quotient", vc, S)), B("Quotient", N1, W) }
HE == IF Tier = "quick" THEN HEQuick ELSE IF Tier = "neg" THEN HENeg ELSE HEQuick \cup HEMore
Catalogue == { << x >> : x \in HE } \cup { p \in { << x, y >> : x \in HE, y \in HE } : p[1] # p[2] }

NoPending == [i |-> 0, evs |-> << >>]
Init == /\ exprs \in Catalogue
        /\ hist = << >> /\ insts = << >> /\ caches = << >> /\ pending = NoPending

\* a top-level evaluation of exprs[x] on instance i (i = Len(insts) + 1: a fresh one)
Start(i, x) ==
    /\ pending.evs = << >>
    /\ Len(hist) < MaxH
    /\ LET fresh   == i > Len(insts)
           insts1  == IF fresh THEN Append(insts, NewInst(EnvOfInst(i))) ELSE insts
           caches1 == IF fresh THEN Append(caches, EmptyBag) ELSE caches
           cache   == IF Bug = "SharedCache" THEN caches1[1] ELSE caches1[i]
           r       == TopEvents(exprs[x], cache, Envs[EnvOfInst(i)])
       IN /\ insts' = insts1
          /\ caches' = IF Bug = "SharedCache" THEN [j \in 1..Len(caches1) |-> r.cache]
                       ELSE [caches1 EXCEPT ![i] = r.cache]
          /\ pending' = [i |-> i, evs |-> r.evs]
    /\ hist' = Append(hist, [i |-> i, x |-> x])
    /\ UNCHANGED exprs

\* the instance performs the next event of the evaluation in progress
Step ==
    /\ pending.evs # << >>
    /\ insts' = [insts EXCEPT ![pending.i] = Post(@, Head(pending.evs), Envs)]
    /\ pending' = [pending EXCEPT !.evs = Tail(@)]
    /\ UNCHANGED << exprs, hist, caches >>

Next == \/ Step
        \/ \E i \in 1..(IF Len(insts) < NInst THEN Len(insts) + 1 ELSE NInst),
              x \in 1..Len(exprs) : Start(i, x)

\* ---- invariants (every state) --------------------------------------------
Inv_ChildOncePerInstance == \A i \in 1..Len(insts) : ChildOncePerInstance(insts[i])
Inv_DoneClosed           == \A i \in 1..Len(insts) : DoneClosed(insts[i])
Inv_OpsWithinBound       == \A i \in 1..Len(insts) : OpsWithinBound(insts[i])
Inv_ReturnedAllDone      == \A i \in 1..Len(insts) : ReturnedAllDone(insts[i])
Inv_StackSane            == \A i \in 1..Len(insts) : StackSane(insts[i])
Inv_ValuesRight          == \A i \in 1..Len(insts) : ValuesRight(insts[i])
\* the abstract cache (done) is exactly the implementation-shaped cache's key set
\* whenever no evaluation is in progress
Inv_CacheIsDone == (pending.evs = << >> /\ Bug = "none") =>
    \A i \in 1..Len(insts) : insts[i].done = DOMAIN caches[i]

\* ---- action property (every step) ----------------------------------------
CacheOnlyGrows == [][ /\ Len(insts') >= Len(insts)
                      /\ \A i \in 1..Len(insts) : insts[i].done \subseteq insts'[i].done ]_vars

Emit == (pending.evs = << >> /\ hist # << >>) =>
            PrintT(ToJson([kind |-> "hist", exprs |-> exprs, h |-> hist]))
=============================================================================
