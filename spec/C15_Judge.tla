------------------------------ MODULE C15_Judge ------------------------------
EXTENDS C15_Impl, Json, IOUtils
VARIABLES blk, off
Recs == ndJsonDeserialize(IOEnv.TRACE_FILE)
BS == 16
NB == (Len(Recs) + BS - 1) \div BS
Init == blk \in 0..(NB - 1) /\ off = 0
Next == off < BS - 1 /\ off' = off + 1 /\ UNCHANGED blk
Idx == blk * BS + off + 1

Verdict(rec) ==
    IF rec.kind = "coeff"
    THEN JudgeCoeffs(rec.e, SeqToSet(rec.tgt), rec.tgt = << "ALL" >>, rec.res)
    ELSE JudgeSolve(rec.eqs, << "x", "y" >>, rec.res, rec.par)
\* drift: what the collector really returned against the transcription's prediction
Drift(rec) ==
    rec.kind = "coeff" /\ rec.res.r \in {"ok", "err"}
    /\ LET names == SeqToSet(rec.tgt) all == rec.tgt = << "ALL" >> IN
       Covered(rec.e, names, all)
       /\ LET pr == CollectImpl(rec.e, names, all) IN
          IF pr.r = "ok" THEN (rec.res.r # "ok" \/ rec.res.coeffs # pr.coeffs)
          ELSE (rec.res.r # "err" \/ rec.res.v.e # pr.v.e)
Report ==
    Idx <= Len(Recs) =>
      LET rec == Recs[Idx] v == Verdict(rec) IN
      /\ (v = "OK" \/ PrintT(ToJson([id |-> rec.id, v |-> v])))
      /\ (~Drift(rec) \/ PrintT(ToJson([id |-> rec.id, drift |-> "collect"])))
=============================================================================
