------------------------------ MODULE C08_Judge ------------------------------
(***************************************************************************)
(* Stage (3) for C08: every recorded substitution is judged by TLC.        *)
(* One record = [id, e, sg, res, same_p, same_c]:                          *)
(*   res[1] SubstitutionMapper(make_subst_func(sg))(e)        plain        *)
(*   res[2] CachedSubstitutionMapper(make_subst_func(sg))(e)  memoizing,   *)
(*          on an input whose equal subtrees are one shared object         *)
(*   res[3] substitute(e, sg)              (the default entry point)       *)
(*   res[4] substitute(e, part of sg, **names)   (keyword assignments)     *)
(*   res[5] substitute(e, sg, mapper_cls=SubstitutionMapper)               *)
(*   each [r |-> "ok", e |-> tree] | [r |-> "err", v |-> exception]        *)
(*        | [r |-> "same"] (serialises exactly like res[1]) | [r |-> "na"] *)
(*        | [r |-> "unser"]                                                 *)
(*   same_p / same_c: the maximal positions at which the plain / memoizing *)
(*   result is the identical object (is) of the input.                     *)
(*   mod[j]: the argument objects of entry point j (the expression and the *)
(*   dict that was passed / captured) serialised before and after the      *)
(*   call: [r |-> "same"] when the two serialisations are the same text,   *)
(*   else [r |-> "mod", e0, sg0, e1, sg1] | [r |-> "unser"].                *)
(* Clauses (all decided by the M-layer of C08_Subst):                      *)
(*   value            the substitution lemma, in every environment of the  *)
(*                    box, for every entry point                           *)
(*   identity         every position of MustSame came back identical       *)
(*   identity-cached  the same for the memoizing mapper (shared input,     *)
(*                    judged when equal subtrees are identical subtrees)   *)
(*   variants-differ  all entry points return == trees                     *)
(*   raised / variant-raised   an entry point raised instead               *)
(*   input-modified   the call changed one of its argument objects (the    *)
(*                    property speaks of THE expression and THE map: a     *)
(*                    later use of either must find what the caller put    *)
(*                    there - see C08_Hist for the histories)              *)
(* Each failing clause is printed with the named deviation of the A-layer  *)
(* (C08_SubstImpl) that explains it, "none" if there is none; differences  *)
(* between the recorded tree / flags and the A-layer's prediction that do  *)
(* not break the property are reported as DRIFT.                           *)
(***************************************************************************)
EXTENDS C08_Env, Json, IOUtils
VARIABLES blk, off

Recs == ndJsonDeserialize(IOEnv.TRACE_FILE)
BS == 64
NB == (Len(Recs) + BS - 1) \div BS
Init == blk \in 0..(NB - 1) /\ off = 0
Next == off < BS - 1 /\ off' = off + 1 /\ UNCHANGED blk
Idx == blk * BS + off + 1

NV == 5
Res(rec, j) == IF rec.res[j].r = "same" THEN rec.res[1] ELSE rec.res[j]
Cachedish(j) == j \in {2, 3, 4}

\* ---- value ------------------------------------------------------------------
\* the verdicts of one result tree in every environment of the box
ValVerdicts(rec, tr) ==
    LET l == Lower(tr) r == LemmaRhsTree(rec.e, rec.sg) IN
    [i \in 1..Len(Envs) |->
        LET env1 == EnvOf(rec.sg, Envs[i]) IN
        JudgeVal(Eval(r, env1), Eval(l, Envs[i]), r, env1)]
SetMin(S) == CHOOSE m \in S : \A o \in S : m <= o

\* ---- identity ----------------------------------------------------------------
Covered(p, same) == \E k \in 1..Len(same) : same[k] \in Prefixes(p)
AllTrees(rec) ==
    SubExprs(rec.e) \cup
    UNION { SubExprs(rec.sg[i].val) \cup
            (IF rec.sg[i].kf = "expr" THEN SubExprs(rec.sg[i].key) ELSE {}) : i \in 1..Len(rec.sg) }
Shareable(rec) == Cardinality({ Norm(s) : s \in AllTrees(rec) }) = Cardinality(AllTrees(rec))

\* one line per (clause, named deviation) among the positions that failed
IdentityLines(rec, clause, bad) ==
    LET devs == { DevAt(rec.e, rec.sg, p) : p \in bad } IN
    \A d \in devs :
         LET p == CHOOSE q \in bad : DevAt(rec.e, rec.sg, q) = d IN
         PrintT(ToJson([id |-> rec.id, v |-> clause, dev |-> d, var |-> 0, env |-> 0,
                        why |-> At(rec.e, p).t, path |-> p]))

\* ---- the report ----------------------------------------------------------------
Judge(rec) ==
    LET plain == rec.res[1]
        ms == MustSame(rec.e, rec.sg)
        badP == { p \in ms : ~Covered(p, rec.same_p) }
        badC == { p \in ms : ~Covered(p, rec.same_c) }
        predicted == Impl(rec.e, rec.sg)
        cseFold == Dev_CSEZeroFold(rec.e, rec.sg)
    IN
    /\ \* the plain mapper raised
       (plain.r # "err" \/
        PrintT(ToJson([id |-> rec.id, v |-> "raised",
                       dev |-> (IF PlainRaises(rec.e, rec.sg) THEN "Unhashable" ELSE "none"),
                       var |-> 1, env |-> 0, why |-> plain.v.e, path |-> << >>])))
    /\ (plain.r # "unser" \/ PrintT(ToJson([id |-> rec.id, v |-> "SKIP", n |-> Len(Envs)])))
    /\ \* value, for every entry point that returned a tree of its own; out-of-model
       \* values are counted, not judged
       \A j \in 1..NV :
         rec.res[j].r # "ok" \/
         LET tr == rec.res[j].e
             vv == ValVerdicts(rec, tr)
             bad == { i \in 1..Len(Envs) : vv[i] \notin {"OK", "SKIP"} }
             skip == { i \in 1..Len(Envs) : vv[i] = "SKIP" }
         IN /\ (bad = {} \/
                PrintT(ToJson([id |-> rec.id, v |-> "value",
                       dev |-> (IF cseFold /\ Norm(tr) = Norm(predicted.e)
                                THEN "CSEZeroFold" ELSE "none"),
                       var |-> j, env |-> SetMin(bad), why |-> vv[SetMin(bad)],
                       path |-> << >>])))
            /\ (j # 1 \/ skip = {} \/
                PrintT(ToJson([id |-> rec.id, v |-> "SKIP", n |-> Cardinality(skip)])))
    /\ \* identity of what was not touched
       (plain.r # "ok" \/ IdentityLines(rec, "identity", badP))
    /\ (Res(rec, 2).r # "ok" \/ badC = {} \/ ~Shareable(rec)
        \/ IdentityLines(rec, "identity-cached", badC))
    /\ \* the other entry points against the plain mapper
       \A j \in 2..NV :
         LET r == Res(rec, j) IN
         /\ (r.r # "err" \/
             PrintT(ToJson([id |-> rec.id, v |-> "variant-raised",
                  dev |-> (IF (Cachedish(j) /\ CachedRaises(rec.e, rec.sg))
                              \/ PlainRaises(rec.e, rec.sg) THEN "Unhashable" ELSE "none"),
                  var |-> j, env |-> 0, why |-> r.v.e, path |-> << >>])))
         /\ (rec.res[j].r # "ok" \/ plain.r # "ok" \/ Norm(r.e) = Norm(plain.e) \/
             PrintT(ToJson([id |-> rec.id, v |-> "variants-differ", dev |-> "none",
                            var |-> j, env |-> 0, why |-> r.e.t, path |-> << >>])))
    /\ \* the argument objects after the call against the same objects before it
       \A j \in 1..NV :
         rec.mod[j].r # "mod" \/
         LET m == rec.mod[j] IN
         /\ (Norm(m.e0) = Norm(m.e1) \/
             PrintT(ToJson([id |-> rec.id, v |-> "input-modified", dev |-> "none", var |-> j,
                            env |-> 0, why |-> "expression", path |-> << >>])))
         /\ (SameDict(m.sg0, m.sg1) \/
             PrintT(ToJson([id |-> rec.id, v |-> "input-modified", dev |-> "none", var |-> j,
                            env |-> 0, why |-> "map", path |-> << >>])))
    /\ \* drift of the transcription (never a verdict)
       (plain.r # "ok" \/ Norm(plain.e) = Norm(predicted.e) \/
        PrintT(ToJson([id |-> rec.id, v |-> "DRIFT", what |-> "tree"])))
    /\ (plain.r # "ok" \/
        { p \in ms : Prefixes(p) \cap ImplSameSet(rec.e, rec.sg) # {} } = ms \ badP \/
        PrintT(ToJson([id |-> rec.id, v |-> "DRIFT", what |-> "identity"])))

Report == Idx <= Len(Recs) => Judge(Recs[Idx])
=============================================================================
