------------------------------- MODULE C06_Gen -------------------------------
(***************************************************************************)
(* Stage (1) for C06: TLC enumerates the printable fragment - every        *)
(* (parent kind, child position, child kind) combination and three-level   *)
(* nestings over a reduced alphabet - and prints each tree for the driver. *)
(***************************************************************************)
EXTENDS C06_Model, Json
CONSTANT Tier
VARIABLE tree

x == V("x")  y == V("y")  z == V("z")  ff == V("f")  tt == V("t")  oo == V("o")
FStr(s) == K([k |-> "fstr", s |-> s])
Consts == { KI(2), KI(-1), K(FltV(3, 2)), K(FltV(-3, 2)), K(BoolV(TRUE)), FStr("1e-05"), FStr("1e+20") }
Leaves == { x, y } \cup Consts

HoleT(ty) == [t |-> "Hole", ty |-> ty]
A == HoleT("any")  L == HoleT("leaf")  M == HoleT("mid")  I == HoleT("idx")

\* one representative per printable composite kind (children are plain variables)
D1 == {
  N("Sum", << x, y >>), N("Product", << x, y >>), B("Quotient", x, y), B("FloorDiv", x, y),
  B("Remainder", x, y), B("Power", x, y), B("LShift", x, y), B("RShift", x, y),
  U("BitNot", x), N("BitOr", << x, y >>), N("BitXor", << x, y >>), N("BitAnd", << x, y >>),
  U("LogNot", x), N("LogOr", << x, y >>), N("LogAnd", << x, y >>),
  Cmp(x, "<", y), Cmp(x, "==", y), IfE(x, y, z),
  Call(ff, << x >>), CallKw(ff, << x >>, << KwArg("k1", y) >>), B("Sub", tt, x), Look(oo, "p"),
  N("Sum", << x, KI(-1) >>), N("Product", << KI(-1), x >>), N("Sum", << x, y, z >>),
  N("Tup", << x, y >>) }

BinK == {"Quotient", "FloorDiv", "Remainder", "Power", "LShift", "RShift"}
NaryK == {"Sum", "Product", "BitOr", "BitXor", "BitAnd", "LogOr", "LogAnd"}
\* skeletons: every printable kind with every child position open
Skel(h) ==
       { B(k, h, L) : k \in BinK } \cup { B(k, L, h) : k \in BinK }
  \cup { N(k, << h, L >>) : k \in NaryK } \cup { N(k, << L, h >>) : k \in NaryK }
  \cup { N(k, << L, h, L >>) : k \in {"Sum", "Product", "LogAnd", "BitOr"} }
  \cup { U(k, h) : k \in UnKinds }
  \cup { Cmp(h, op, L) : op \in CmpOps } \cup { Cmp(L, op, h) : op \in {"<", "==", ">="} }
  \cup { IfE(h, L, L), IfE(L, h, L), IfE(L, L, h) }
  \cup { Call(h, << L >>), Call(ff, << h >>), Call(ff, << L, h >>), Call(ff, << h, L >>), Call(ff, << >>),
         CallKw(ff, << h, L >>, << KwArg("k1", L) >>), N("Tup", << L, h, L >>),
         CallKw(ff, << h >>, << KwArg("k1", L) >>), CallKw(ff, << >>, << KwArg("k2", h), KwArg("k1", L) >>),
         B("Sub", h, L), B("Sub", tt, h), Look(h, "p") }
SliceForms == { N("Slice", << L >>), N("Slice", << L, L >>), N("Slice", << NoneE, L >>),
                N("Slice", << L, NoneE >>), N("Slice", << NoneE, NoneE >>),
                N("Slice", << L, L, L >>), N("Slice", << NoneE, NoneE, L >>), N("Slice", << NoneE >>),
                \* a conditional as a bound: its else branch ends at the colon
                N("Slice", << IfE(x, y, z), L >>), N("Slice", << L, IfE(x, y, z) >>),
                N("Slice", << L, IfE(x, y, z), L >>), N("Slice", << NoneE, IfE(x, y, z), NoneE >>),
                \* falsy bounds are bounds, not omissions
                N("Slice", << KI(0), L >>), N("Slice", << L, KI(0) >>), N("Slice", << KI(0), L, KI(0) >>),
                N("Slice", << K(BoolV(FALSE)), L >>), N("Slice", << N("Product", << KI(0), x >>), L >>) }
Extra == { B("Sub", tt, N("Tup", << A, L >>)), B("Sub", tt, N("Tup", << L >>)), B("Sub", tt, I),
           N("Tup", << A >>), N("Tup", << A, L >>), N("Tup", << >>),
           B("Sub", tt, N("Tup", << L, I >>)),
           \* a slice that is not the last index: its bounds end at the comma
           B("Sub", tt, N("Tup", << I, L >>)), B("Sub", tt, N("Tup", << I, I >>)),
           B("Sub", tt, N("Tup", << L, I, L >>)) }
\* containers as elements of containers: tuples of 0, 1 and 2 elements in every position of a
\* tuple, an index tuple, an argument list, a keyword value
TupElems == { N("Tup", << >>), N("Tup", << x >>), N("Tup", << x, y >>) }
Nest == UNION { { N("Tup", << t, L >>), N("Tup", << L, t >>), N("Tup", << t >>), N("Tup", << L, t, L >>),
                  B("Sub", tt, N("Tup", << t, L >>)), B("Sub", tt, N("Tup", << L, t >>)),
                  Call(ff, << t >>), Call(ff, << t, L >>), Call(ff, << L, t >>),
                  CallKw(ff, << L >>, << KwArg("k1", N("Tup", << t, L >>)) >>),
                  CallKw(ff, << t >>, << KwArg("k1", t) >>) } : t \in TupElems }
        \cup { N("Tup", << t, u >>) : t \in TupElems, u \in TupElems }
\* names a sloppy lexer splits: keyword / literal-word prefixes, digits, underscores
TrickyNames == {"not_x", "not1", "or_1", "and2", "if_", "else_9", "note", "iffy", "orb", "Truex",
                "Nonesuch", "_y", "x_1", "a_b"}
NameRoots == UNION { { V(nm), N("Sum", << V(nm), x >>), N("Product", << KI(2), V(nm) >>),
                       U("LogNot", V(nm)), U("BitNot", V(nm)), Call(V(nm), << x >>), Look(oo, nm),
                       B("Sub", tt, V(nm)), IfE(V(nm), x, V(nm)), N("LogAnd", << x, V(nm) >>) }
                     : nm \in TrickyNames }

\* reduced alphabet for the three-level nestings
MidSkel(h) ==
       { B(k, h, L) : k \in {"Quotient", "Power", "LShift", "Remainder"} }
  \cup { B(k, L, h) : k \in {"Quotient", "Power", "LShift", "FloorDiv"} }
  \cup { N(k, << h, L >>) : k \in {"Sum", "Product", "BitOr", "BitAnd", "LogOr"} }
  \cup { N(k, << L, h >>) : k \in {"Sum", "Product", "BitXor", "LogAnd"} }
  \cup { U("BitNot", h), U("LogNot", h), Cmp(h, "<", L), Cmp(L, "==", h), IfE(L, h, L),
         Call(ff, << h >>), B("Sub", tt, h) }

PoolFor(ty) ==
    CASE ty = "any"  -> Leaves \cup D1
      [] ty = "leaf" -> IF Tier = "quick" THEN { x, KI(-1) } ELSE { x, KI(2), KI(-1), K(FltV(-3, 2)) }
      [] ty = "mid"  -> MidSkel(A)
      [] ty = "idx"  -> SliceForms

RECURSIVE FirstHoleTy(_)
FirstHoleTy(e) ==
    IF e.t = "Hole" THEN e.ty
    ELSE LET ks == Kids(e)
             RECURSIVE Go(_)
             Go(i) == IF i > Len(ks) THEN "" ELSE
                      LET r == FirstHoleTy(ks[i]) IN IF r # "" THEN r ELSE Go(i + 1)
         IN Go(1)

Roots == Skel(A) \cup Extra \cup Leaves \cup NameRoots \cup Nest
         \cup (IF Tier = "quick" THEN MidSkel(M) ELSE Skel(M))

Init == tree \in Roots
Next == /\ NHoles(tree) > 0
        /\ \E s \in PoolFor(FirstHoleTy(tree)) : tree' = FillFirst(tree, s)
Complete == NHoles(tree) = 0
\* design-level check: the transcribed printer and parser against the statement; the classes
\* of failing trees are reported (implementation-level verdicts are the judge's)
Emit == Complete =>
    /\ PrintT(ToJson([e |-> tree]))
    /\ LET m == ModelRoundTrip(tree) IN
       (m = << >> \/ m = << "SKIP" >> \/ PrintT(ToJson([design |-> m, de |-> tree])))
=============================================================================
