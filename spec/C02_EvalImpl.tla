----------------------------- MODULE C02_EvalImpl -----------------------------
(***************************************************************************)
(* A-layer: pymbolic.mapper.evaluator.EvaluationMapper transcribed as the  *)
(* code has it -- sum() starting from 0, pytools.product starting from 1,  *)
(* functools.reduce without initialiser for the bitwise operators,         *)
(* any()/all() for the logical ones, operator-module look-up for           *)
(* comparisons, keyword calls that evaluate the callee last, a per-        *)
(* instance cache for common subexpressions.  TLC checks in C02_Gen that   *)
(* this refines Eval; the conformance run checks that the real evaluator   *)
(* agrees with both.                                                       *)
(***************************************************************************)
EXTENDS Eval

RECURSIVE EvalImpl(_, _)
ImplSeq(es, env) == [i \in 1..Len(es) |-> EvalImpl(es[i], env)]

ImplAnyAll(es, env, isOr) ==
    LET RECURSIVE Go(_)
        Go(i) == IF i > Len(es) THEN BoolV(~isOr)
                 ELSE LET v == EvalImpl(es[i], env) IN
                      IF IsUnrep(v) \/ IsErr(v) THEN v
                      ELSE IF Truthy(v) = isOr THEN BoolV(isOr) ELSE Go(i + 1)
    IN Go(1)

\* functools.reduce(op, iterable) : TypeError on an empty iterable
Reduce(op, vs) == IF Len(vs) = 0 THEN Err("TypeError") ELSE FoldL(op, vs[1], Tail(vs))

EvalImpl(e, env) ==
    CASE e.t = "Var" -> IF e.name \in DOMAIN env THEN env[e.name]     \* map_variable
                        ELSE ErrA("UnknownVariableError", e.name)
      [] e.t = "Const" -> e.v                                          \* map_constant
      [] e.t = "Sum" -> FoldL("+", IntV(0), ImplSeq(e.c, env))         \* sum(...)
      [] e.t = "Product" -> FoldL("*", IntV(1), ImplSeq(e.c, env))     \* pytools.product
      [] e.t = "BitOr"  -> Reduce("|", ImplSeq(e.c, env))
      [] e.t = "BitXor" -> Reduce("^", ImplSeq(e.c, env))
      [] e.t = "BitAnd" -> Reduce("&", ImplSeq(e.c, env))
      [] e.t = "Quotient"  -> PyBin("/",  EvalImpl(e.a, env), EvalImpl(e.b, env))
      [] e.t = "FloorDiv"  -> PyBin("//", EvalImpl(e.a, env), EvalImpl(e.b, env))
      [] e.t = "Remainder" -> PyBin("%",  EvalImpl(e.a, env), EvalImpl(e.b, env))
      [] e.t = "Power"     -> PyBin("**", EvalImpl(e.a, env), EvalImpl(e.b, env))
      [] e.t = "LShift"    -> PyBin("<<", EvalImpl(e.a, env), EvalImpl(e.b, env))
      [] e.t = "RShift"    -> PyBin(">>", EvalImpl(e.a, env), EvalImpl(e.b, env))
      [] e.t = "BitNot" -> PyUn("~", EvalImpl(e.a, env))
      [] e.t = "LogNot" -> PyUn("not", EvalImpl(e.a, env))
      [] e.t = "LogOr"  -> ImplAnyAll(e.c, env, TRUE)                  \* any(...)
      [] e.t = "LogAnd" -> ImplAnyAll(e.c, env, FALSE)                 \* all(...)
      [] e.t = "Cmp" -> PyCompare(e.op, EvalImpl(e.a, env), EvalImpl(e.b, env))
      [] e.t = "If" -> LET c == EvalImpl(e.i, env) IN
                       IF IsUnrep(c) \/ IsErr(c) THEN c
                       ELSE IF Truthy(c) THEN EvalImpl(e.th, env) ELSE EvalImpl(e.el, env)
      [] e.t \in {"Min", "Max"} ->
            LET vs == ImplSeq(e.c, env) IN
            IF \E i \in 1..Len(vs) : IsObjLike(vs[i]) THEN Unrep
            ELSE Strict(vs, IF Len(vs) = 0 THEN Err("ValueError")
                            ELSE Extremum(e.t = "Min", vs))
      [] e.t = "Call" ->                               \* rec(function)(*[rec(par)...])
            LET fv == EvalImpl(e.f, env) vs == ImplSeq(e.c, env) IN
            Strict(<< fv >> \o vs,
                   IF fv.k = "fn" THEN FnApply(fv.name, vs, << >>) ELSE Err("TypeError"))
      [] e.t = "CallKw" ->                             \* args, kwargs, then rec(function)
            LET vs == ImplSeq(e.c, env)
                ks == [i \in 1..Len(e.kw) |->
                          [name |-> e.kw[i].name, v |-> EvalImpl(e.kw[i].e, env)]]
                fv == EvalImpl(e.f, env)
            IN Strict(vs \o [i \in 1..Len(ks) |-> ks[i].v] \o << fv >>,
                      IF fv.k = "fn" THEN FnApply(fv.name, vs, ks) ELSE Err("TypeError"))
      [] e.t = "Sub" -> LET a == EvalImpl(e.a, env) i == EvalImpl(e.b, env) IN
                        Strict(<< a, i >>, Index(a, i))
      [] e.t = "Look" -> LET a == EvalImpl(e.a, env) IN
                         IF IsUnrep(a) \/ IsErr(a) THEN a
                         ELSE IF a.k = "obj" THEN ObjAttr(a.name, e.name)
                         ELSE Err("AttributeError")
      [] e.t = "CSE" -> EvalImpl(e.a, env)         \* cached per instance, value = child
      [] e.t \in {"Tup", "List"} ->
            LET vs == ImplSeq(e.c, env) IN
            Strict(vs, [k |-> (IF e.t = "Tup" THEN "tup" ELSE "list"), items |-> vs])
      [] OTHER -> Err("UnsupportedExpressionError")
=============================================================================
