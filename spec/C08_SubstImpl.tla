---------------------------- MODULE C08_SubstImpl ----------------------------
(***************************************************************************)
(* A-layer for C08: pymbolic/mapper/substitutor.py transcribed as the code *)
(* has it, together with the traversal it inherits from IdentityMapper     *)
(* (pymbolic/mapper/__init__.py) and the memo table of CachedMapper.       *)
(*                                                                         *)
(*   SubstFunc       make_subst_func: variable_assignments[var] (dict       *)
(*                   look-up by hash / ==), on KeyError and only for a     *)
(*                   Variable: variable_assignments[var.name]               *)
(*   Impl            SubstitutionMapper: map_variable / map_subscript /     *)
(*                   map_lookup ask SubstFunc first; everything else is     *)
(*                   IdentityMapper: map the children, hand back the very   *)
(*                   same object when every child came back identical.      *)
(*                   The result carries that identity bit ("same").         *)
(*   ImplC           CachedSubstitutionMapper: the same methods behind a    *)
(*                   memo table keyed by (type(expr), expr) and threaded    *)
(*                   left to right through the traversal; object identity   *)
(*                   of the input is structural identity (the driver        *)
(*                   builds equal subtrees as one shared object for this    *)
(*                   entry point)                                          *)
(*                                                                         *)
(* Deviations of the code from the meaning that reading it reveals are     *)
(* named:                                                                  *)
(*   Dev_ListCopied    map_list builds a new list unconditionally, so a     *)
(*                     list and all its ancestors never come back identical *)
(*   Dev_CSEZeroFold   map_common_subexpression returns the int 0 when the  *)
(*                     mapped child is_zero (0, 0.0, False, and - bool() of  *)
(*                     a container - the empty tuple / list)                *)
(*   Dev_Unhashable    a list below a Subscript / Lookup (plain mapper:     *)
(*                     dict look-up hashes the node) or anywhere (cached    *)
(*                     mapper: the memo key hashes the whole tree) raises   *)
(*                     TypeError                                            *)
(***************************************************************************)
EXTENDS C08_Subst

R(e, same) == [e |-> e, same |-> same]

\* make_subst_func(variable_assignments)(var)
SubstFunc(node, sg) ==
    LET byExpr == { i \in 1..Len(sg) : sg[i].kf = "expr" /\ sg[i].key.t = node.t
                                         /\ PyEqT(sg[i].key, node) } IN
    IF byExpr # {} THEN SetMax(byExpr)                       \* variable_assignments[var]
    ELSE IF node.t = "Var"                                   \* except KeyError: isinstance Variable
         THEN LET byName == { i \in 1..Len(sg) : sg[i].kf = "name" /\ sg[i].name = node.name } IN
              IF byName # {} THEN SetMax(byName) ELSE 0      \* variable_assignments[var.name]
         ELSE 0

\* primitives.is_zero(result) == not bool(result): a number is zero when it is 0, a
\* container when it is empty; of the expression classes only Sum, Product and
\* QuotientBase define __bool__ (Sum: one child -> that child's; Product: no child
\* is_zero; Quotient / FloorDiv / Remainder: the numerator's), every other node is true
RECURSIVE IsZeroTree(_)
IsZeroTree(r) ==
    CASE r.t = "Const" -> IsNum(r.v) /\ r.v.n = 0
      [] r.t \in {"Tup", "List"} -> Len(r.c) = 0
      [] r.t = "Sum" -> Len(r.c) = 1 /\ IsZeroTree(r.c[1])
      [] r.t = "Product" -> \E i \in 1..Len(r.c) : IsZeroTree(r.c[i])
      [] r.t \in {"Quotient", "FloorDiv", "Remainder"} -> IsZeroTree(r.a)
      [] OTHER -> FALSE

AllSame(rs) == \A i \in 1..Len(rs) : rs[i].same
\* "if all children are identical return expr, else type(expr)(*children)"
Rebuild(e, rs) == IF AllSame(rs) THEN R(e, TRUE)
                  ELSE R(WithKids(e, [i \in 1..Len(rs) |-> rs[i].e]), FALSE)
Copy(e, rs) == R(WithKids(e, [i \in 1..Len(rs) |-> rs[i].e]), FALSE)

\* one mapper method, given the already mapped children
Method(e, sg, rs) ==
    CASE e.t \in {"Const", "None"} -> R(e, TRUE)                                \* map_constant
      [] e.t = "List" -> Copy(e, rs)                                            \* map_list
      [] e.t = "CSE" -> IF IsZeroTree(rs[1].e) THEN R(KI(0), FALSE)             \* is_zero(result)
                        ELSE Rebuild(e, rs)
      [] OTHER -> Rebuild(e, rs)

\* ---- SubstitutionMapper ------------------------------------------------------
RECURSIVE Impl(_, _)
ImplKids(e, sg) == [i \in 1..Len(Kids(e)) |-> Impl(Kids(e)[i], sg)]
Impl(e, sg) ==
    IF e.t \in {"Var", "Sub", "Look"}
    THEN LET h == SubstFunc(e, sg) IN
         IF h # 0 THEN R(sg[h].val, FALSE)
         ELSE IF e.t = "Var" THEN R(e, TRUE)
         ELSE Rebuild(e, ImplKids(e, sg))               \* IdentityMapper.map_subscript / map_lookup
    ELSE Method(e, sg, ImplKids(e, sg))

\* ---- CachedSubstitutionMapper -----------------------------------------------------
\* get_cache_key: (type(expr), expr): constants keep their Python type, composite
\* nodes compare by ==
CacheKey(e) == IF e.t = "Const" THEN e ELSE Norm(e)
RC(e, same, cache) == [e |-> e, same |-> same, cache |-> cache]

RECURSIVE ImplC(_, _, _)
ImplCKids(ks, sg, cache) ==
    LET RECURSIVE Go(_, _, _)
        Go(i, acc, c) == IF i > Len(ks) THEN [rs |-> acc, cache |-> c]
                         ELSE LET r == ImplC(ks[i], sg, c) IN
                              Go(i + 1, Append(acc, R(r.e, r.same)), r.cache)
    IN Go(1, << >>, cache)
ImplC(e, sg, cache) ==
    IF e.t = "None" THEN RC(e, TRUE, cache)             \* map_slice does not recurse into None
    ELSE
    LET k == CacheKey(e)
        hits == { i \in 1..Len(cache) : cache[i].k = k }
    IN IF hits # {}
       THEN LET c == cache[CHOOSE i \in hits : TRUE] IN RC(c.r, c.same /\ c.orig = e, cache)
       ELSE LET h == IF e.t \in {"Var", "Sub", "Look"} THEN SubstFunc(e, sg) ELSE 0
                kr == IF h # 0 \/ e.t = "Var" THEN [rs |-> << >>, cache |-> cache]
                      ELSE ImplCKids(Kids(e), sg, cache)
                res == IF h # 0 THEN R(sg[h].val, FALSE)
                       ELSE IF e.t = "Var" THEN R(e, TRUE)
                       ELSE IF e.t \in {"Sub", "Look"} THEN Rebuild(e, kr.rs)
                       ELSE Method(e, sg, kr.rs)
            IN RC(res.e, res.same,
                  Append(kr.cache, [k |-> k, r |-> res.e, same |-> res.same, orig |-> e]))

\* ---- where the code raises instead -------------------------------------------------
RECURSIVE ContainsList(_), PlainRaises(_, _), Dev_CSEZeroFold(_, _)
ContainsList(e) == e.t = "List" \/ \E i \in 1..Len(Kids(e)) : ContainsList(Kids(e)[i])
\* a Subscript / Lookup that is reached (no ancestor replaced wholesale) and holds a list
PlainRaises(e, sg) ==
    \/ e.t \in {"Sub", "Look"} /\ ContainsList(e)
    \/ Hit(e, sg) = 0 /\ \E i \in 1..Len(Kids(e)) : PlainRaises(Kids(e)[i], sg)
CachedRaises(e, sg) == ContainsList(e)

\* ---- named deviations, located -------------------------------------------------------
\* a CSE node that is reached and whose mapped child is_zero
Dev_CSEZeroFold(e, sg) ==
    Hit(e, sg) = 0 /\ \/ e.t = "CSE" /\ IsZeroTree(Impl(e.a, sg).e)
                      \/ \E i \in 1..Len(Kids(e)) : Dev_CSEZeroFold(Kids(e)[i], sg)

\* why an untouched subtree would not come back identical
DevOfSubtree(s, sg) == IF ContainsList(s) THEN "ListCopied"
                       ELSE IF Dev_CSEZeroFold(s, sg) THEN "CSEZeroFold"
                       ELSE "none"

\* ---- the positions at which the result holds the identical object of the input --------
\* (what the driver records by walking input and result in parallel for as long as
\* the classes and arities agree)
IsFoldPoint(e, sg) == e.t = "CSE" /\ IsZeroTree(Impl(e.a, sg).e)
RECURSIVE ImplSameFrom(_, _, _)
ImplSameFrom(e, sg, p) ==
    IF Impl(e, sg).same THEN { p }
    ELSE IF Hit(e, sg) # 0 \/ IsFoldPoint(e, sg) THEN {}
    ELSE UNION { ImplSameFrom(Kids(e)[i], sg, Append(p, i)) : i \in 1..Len(Kids(e)) }
ImplSameSet(e, sg) == ImplSameFrom(e, sg, << >>)

\* the deviation that explains why position p of MustSame did not come back identical:
\* one inside the subtree, or a CSE above it that was folded to 0 as a whole
FoldAbove(e, sg, p) == \E q \in ProperPrefixes(p) : IsFoldPoint(At(e, q), sg)
DevAt(e, sg, p) == IF DevOfSubtree(At(e, p), sg) # "none" THEN DevOfSubtree(At(e, p), sg)
                   ELSE IF FoldAbove(e, sg, p) THEN "CSEZeroFold" ELSE "none"
=============================================================================
