CONSTANTS
  Bug = "twiddle"
  MaxN = 12
  R = 6
  FFTLens = {4, 6}
INIT Init
NEXT Next
INVARIANTS PowLoopInv PowResult PowRefusal PowCost EuBezoutInv EuGcdInv EuResult EuSameAsFunction FFTResult
PROPERTIES PowDecreases EuDecreases
CHECK_DEADLOCK FALSE
