------------------------------- MODULE C10_Gen -------------------------------
(***************************************************************************)
(* Stage (1) for C10: TLC enumerates (expression, differentiation          *)
(* variable) pairs of the differentiable fragment (root skeleton x typed   *)
(* holes filled left to right), checks on the model                        *)
(*   - laws of the dual-number oracle itself (hard invariant),             *)
(*   - "the transcribed differentiator (DiffRules, A-layer) refines the    *)
(*     dual-number meaning (DEval, M-layer)" at every point of the box and *)
(*     for all three non-smoothness settings; every failure is reported as *)
(*     a design-level class (the verdict on the code is the judge's),      *)
(* and prints every complete pair, with its object-sharing variants, as    *)
(* one JSON line for the driver.                                           *)
(***************************************************************************)
EXTENDS C10_Diff, Json
CONSTANT Tier
VARIABLES tree, var

x == V("x")  y == V("y")  z == V("z")  ff == V("f")
a0 == B("Sub", V("a"), KI(0))
a1 == B("Sub", V("a"), KI(1))
half == K(FltV(1, 2))
Fn(nm, u) == MCall(nm, << u >>)
Lt0 == Cmp(x, "<", KI(0))

Quick == Tier = "quick"
Sim == Tier = "sim"

LeavesQ == { x, y, a0, KI(2), KI(-1) }
LeavesT == LeavesQ \cup { z, a1, KI(0), KI(1), KI(3), half }
Leaves == IF Quick THEN LeavesQ ELSE LeavesT

\* depth-1 representatives: every rule, every short cut, every table entry
D1Q == {
  N("Sum", << x, y >>), N("Sum", << x, KI(1) >>),
  N("Product", << KI(2), x >>), N("Product", << x, y >>), N("Product", << x, x >>),
  B("Quotient", x, y), B("Quotient", KI(1), x), B("Quotient", y, KI(2)),
  B("Power", x, KI(2)), B("Power", x, KI(-1)), B("Power", x, y), B("Power", KI(2), x),
  Fn("sin", x), Fn("cos", x), Fn("tan", x), Fn("log", x), Fn("exp", x), Fn("sinh", x),
  Fn("cosh", x), Fn("tanh", x), Fn("expm1", x), Fn("sin", y),
  Fn("fabs", x), MCall("copysign", << KI(1), x >>), MCall("copysign", << x, y >>),
  IfE(Lt0, y, x), CSE0(N("Product", << x, y >>)), Call(ff, << x >>),
  N("Product", << a0, x >>),
  \* the same wrapper twice: the second derivative comes from the mapper's CSE cache
  N("Sum", << CSE0(Fn("sin", x)), N("Product", << y, CSE0(Fn("sin", x)) >>) >>) }
D1More == {
  N("Sum", << x, x, y >>), N("Sum", << a0, a1 >>), N("Product", << x, y, x >>),
  N("Product", << KI(-1), x, y >>), N("Product", << KI(0), x >>), N("Product", << KI(1), x >>),
  B("Quotient", y, x), B("Quotient", x, KI(2)), B("Quotient", x, x), B("Quotient", x, a0),
  B("Power", x, KI(3)), B("Power", x, KI(0)), B("Power", x, KI(1)), B("Power", y, x),
  B("Power", x, x), B("Power", a0, KI(2)), B("Power", half, x), B("Power", x, KI(-2)),
  Fn("cos", y), Fn("log", y), Fn("exp", a0), Fn("tanh", y), Fn("sin", half), Fn("log", half),
  Fn("fabs", y), Fn("fabs", KI(-1)), MCall("copysign", << KI(-1), x >>), MCall("copysign", << x, KI(1) >>),
  MCall("copysign", << y, x >>), IfE(Cmp(x, ">=", y), x, y), IfE(Lt0, KI(-1), KI(1)),
  CSE(Fn("sin", x), "pre", "pymbolic_expr"), Fn("sqrt", x), Call(ff, << x, y >>), MCall("sin", << x, y >>),
  MCall("atan2", << y, x >>), N("Sum", << x >>), N("Product", << x >>) }
\* round 4: a power of a power with a half-integer float exponent over a base that is negative at
\* points of the box: (u**2)**1.5 is |u|**3, not u**3 (PyNum models x ** (k/2) on perfect squares)
HalfF(k) == K(FltV(k, 2))
PowPow == { B("Power", B("Power", u, KI(2)), HalfF(k)) : u \in { x, N("Sum", << x, y >>) }, k \in { 1, 3 } }
          \cup { N("Product", << y, B("Power", B("Power", x, KI(2)), HalfF(3)) >>),
                 B("Quotient", KI(1), B("Power", B("Power", x, KI(2)), HalfF(1))),
                 B("Power", B("Power", x, KI(4)), HalfF(1)), B("Power", B("Power", x, HalfF(1)), KI(2)) }
\* roots only (not in the pools): witnesses of the named deviations and wrapped constants
RootsOnly == { B("Power", x, CSE0(KI(2))), B("Power", N("Sum", << x, y >>), CSE0(y)),
               B("Power", x, IfE(Cmp(y, "<", KI(0)), KI(2), KI(3))), B("Power", CSE0(y), x),
               B("Quotient", x, CSE0(y)), B("Quotient", CSE0(y), x),
               N("Product", << x, Fn("log", KI(3)) >>), Fn("log", KI(1)), Fn("log", half),
               \* table functions called with an arity the table does not know: must be refused
               MCall("log", << x, y >>), MCall("log", << x, KI(2) >>), MCall("log", << KI(2), x >>),
               MCall("exp", << x, y >>), MCall("cos", << x, x >>), MCall("tanh", << y, x >>),
               MCall("fabs", << x, y >>), MCall("copysign", << x >>), MCall("copysign", << x, y, y >>),
               N("Sum", << x, MCall("log", << x, KI(2) >>) >>) }
             \cup PowPow
D1 == IF Quick THEN D1Q ELSE D1Q \cup D1More

\* Round 4: node kinds the differentiator has no rule of its own for ("foreign" kinds, C10_Diff):
\* calls with keyword arguments - of the environment's table function f (positional / keyword
\* argument depending on the variable, both, neither) and of a table function of math held in a
\* CallKw node -, attribute lookups (a constant attribute of an object; of something depending on
\* the variable), FunctionSymbol() and NaN().
Kw(nm, u) == KwArg(nm, u)
ForeignQ == {
  CallKw(ff, << x >>, << Kw("k1", KI(1)) >>),
  CallKw(ff, << KI(2) >>, << Kw("k1", x) >>),
  CallKw(ff, << x, y >>, << Kw("k2", N("Product", << x, y >>)) >>),
  CallKw(ff, << y >>, << Kw("k1", KI(1)) >>),
  CallKw(MF("sin"), << x >>, << >>),
  Look(V("o1"), "p"), Look(x, "p"),
  V("<FunctionSymbol>"), V("<NaN>") }
ForeignMore == {
  CallKw(ff, << x, x, y >>, << Kw("k1", y), Kw("k2", x) >>),
  CallKw(ff, << >>, << Kw("k2", N("Sum", << x, KI(1) >>)) >>),
  CallKw(ff, << a0 >>, << Kw("k1", x) >>),
  CallKw(MF("exp"), << N("Product", << KI(2), x >>) >>, << >>),
  CallKw(MF("sin"), << x >>, << Kw("k1", KI(1)) >>),
  CallKw(V("g"), << x >>, << Kw("k1", KI(1)) >>),
  Look(V("o1"), "q"), Look(a0, "p"), Look(N("Sum", << x, y >>), "real") }

HoleT(ty) == [t |-> "Hole", ty |-> ty]
A == HoleT("any")  L == HoleT("leaf")  S == HoleT("small")  Cn == HoleT("cond")  Ex == HoleT("exp")
M == HoleT("mid")

Conds == { Lt0, Cmp(x, ">=", y), Cmp(y, "<", KI(2)) }
SmallSet == { x, y, KI(1), KI(-1) }
ExpSet == { KI(2), KI(-1), KI(0), KI(1), KI(3) }

\* second-level skeletons (thorough / random tiers): one more level below the root
Mid(h) == { N("Sum", << h, h >>), N("Product", << h, h >>), B("Quotient", h, h), B("Power", h, Ex),
            B("Power", S, h), Fn("sin", h), Fn("cos", h), Fn("log", h), Fn("exp", h), Fn("tanh", h),
            Fn("fabs", h), MCall("copysign", << S, h >>), MCall("copysign", << h, S >>),
            IfE(Cn, h, S), CSE0(h) }

PoolFor(ty) ==
    CASE ty = "any"   -> Leaves \cup D1
      [] ty = "leaf"  -> IF Quick THEN { x, KI(2) } ELSE { x, y, KI(2), KI(-1) }
      [] ty = "small" -> SmallSet
      [] ty = "cond"  -> Conds
      [] ty = "exp"   -> ExpSet
      [] ty = "mid"   -> Mid(S) \cup SmallSet \cup { a0, KI(2) }
      [] ty = "frn"   -> IF Quick THEN ForeignQ ELSE ForeignQ \cup ForeignMore

FnNames == Smooth1 \cup { "fabs", "sqrt" }
Roots(h) ==
       { N("Sum", << h, h >>), N("Product", << h, h >>), N("Product", << L, h, L >>),
         B("Quotient", h, h), B("Power", h, h), B("Power", h, Ex), B("Power", S, h),
         N("Sum", << L, h, L >>) }
  \cup { Fn(nm, h) : nm \in FnNames }
  \cup { MCall("copysign", << h, S >>), MCall("copysign", << S, h >>), Call(ff, << h >>),
         IfE(Cn, h, S), IfE(Cn, S, h), CSE0(h), CSE(h, "pre", "pymbolic_global") }
\* depth 3 with a reduced alphabet in the middle
Deep == { N("Sum", << M, L >>), N("Product", << M, L >>), N("Product", << L, M >>), B("Quotient", M, L),
          B("Quotient", L, M), B("Power", M, Ex), B("Power", S, M), Fn("sin", M), Fn("log", M), Fn("tan", M),
          Fn("cosh", M), Fn("expm1", M), Fn("fabs", M), IfE(Cn, M, L), CSE0(M) }

\* a foreign node as the root and inside sums / products / quotients / powers / calls / wrappers
Fr == HoleT("frn")
ForeignRoots ==
    { Fr, N("Sum", << Fr, A >>), N("Product", << A, Fr >>), B("Quotient", Fr, S), B("Quotient", S, Fr),
      B("Power", Fr, Ex), B("Power", S, Fr), Fn("sin", Fr), Fn("fabs", Fr), CSE0(Fr), IfE(Lt0, Fr, S),
      Call(ff, << Fr >>) }

AllRoots == Roots(A) \cup Leaves \cup D1 \cup RootsOnly \cup ForeignRoots \cup (IF Quick THEN {} ELSE Deep)

\* differentiation variables: x (and y beyond the quick tier) for every tree; a[0] where it occurs;
\* a[0] and z where they do NOT occur only for trees with at most one non-leaf child
VarsT == { x, y, a0, z }
NearLeaf(e) == Cardinality({ i \in 1..Len(DKids(e)) : Len(DKids(DKids(e)[i])) > 0 }) <= 1
VarsFor(e) == { x } \cup (IF Quick THEN {} ELSE { y })
              \cup (IF Occurs(a0, e) \/ NearLeaf(e) THEN { a0 } ELSE {})
              \cup (IF NearLeaf(e) THEN { z } ELSE {})
Unset == V("?")

RECURSIVE FirstHoleTy(_)
FirstHoleTy(e) ==
    IF e.t = "Hole" THEN e.ty
    ELSE LET ks == Kids(e)
             RECURSIVE Go(_)
             Go(i) == IF i > Len(ks) THEN "" ELSE
                      LET r == FirstHoleTy(ks[i]) IN IF r # "" THEN r ELSE Go(i + 1)
         IN Go(1)

Init == tree \in AllRoots /\ var = Unset
Next == \/ /\ NHoles(tree) > 0
           /\ \E s \in PoolFor(FirstHoleTy(tree)) : tree' = FillFirst(tree, s)
           /\ UNCHANGED var
        \/ /\ NHoles(tree) = 0 /\ var = Unset
           /\ var' \in VarsFor(tree) /\ UNCHANGED tree

\* ---- random tier: deeper trees, random fills (tlc -simulate) ----------------
M2 == HoleT("mid2")
SimRoots == Roots(M) \cup Deep \cup { N("Sum", << Fr, M >>), N("Product", << M, Fr >>), B("Quotient", M, Fr) }
SimPool(ty) == CASE ty = "any"  -> Leaves \cup D1 \cup Mid(S)
                 [] ty = "mid"  -> Mid(M2) \cup { x, y }
                 [] ty = "mid2" -> Mid(S) \cup SmallSet \cup { a0, KI(2) }
                 [] OTHER -> PoolFor(ty)
SimVars == << x, x, x, y, y, a0, z >>
SimInit == tree \in SimRoots /\ var = Unset
SimNext == \/ /\ NHoles(tree) > 0
              /\ tree' = FillFirst(tree, RandomElement(SimPool(FirstHoleTy(tree))))
              /\ UNCHANGED var
           \/ /\ NHoles(tree) = 0 /\ var = Unset
              /\ var' = SimVars[RandomElement(1..Len(SimVars))] /\ UNCHANGED tree

Complete == NHoles(tree) = 0 /\ var # Unset

(***************************************************************************)
(* Laws of the oracle (hard invariant: a failure is a self-contradiction   *)
(* of the specification, exit 2)                                           *)
(***************************************************************************)
\* equal wherever both sides stay inside the exact model
NumEq(a, b) == ~IsNum(a) \/ ~IsNum(b) \/ ValEq(a, b)
OracleLaws ==
    Complete => \A i \in (IF Quick THEN {1, 3} ELSE 1..Len(Envs)) :
        LET env == Envs[i]
            d == DEval(tree, env, var)
            sq == DEval(N("Product", << tree, tree >>), env, var)       \* (e*e)' = 2 e e'
            two == DEval(N("Sum", << tree, tree >>), env, var)          \* (e+e)' = 2 e'
            inv == DEval(B("Quotient", KI(1), tree), env, var)          \* (1/e)' = -e'/e^2
            p2 == DEval(B("Power", tree, KI(2)), env, var)              \* (e^2)' = (e*e)'
        IN Defined(d) =>
            /\ (~Occurs(var, tree)) => d.der.n = 0
            /\ NumEq(sq.der, Mul2(Two, Mul2(d.val, d.der)))
            /\ NumEq(two.der, Mul2(Two, d.der))
            /\ NumEq(sq.der, p2.der)
            /\ NumEq(inv.der, Sub2(Zero, Div2(d.der, sq.val)))
            /\ NumEq(d.val, Rat(Eval(tree, env)))

\* identities of the function model and consistency of the table with them, on a box of arguments
BoxArgs == { FracV(n, d) : n \in -4..4, d \in {1, 2, 3} }
ASSUME \A u \in BoxArgs :
    LET sn == Ap("sin", u) cs == Ap("cos", u) sh == Ap("sinh", u) ch == Ap("cosh", u) IN
    /\ NumEq(Add2(Mul2(sn, sn), Mul2(cs, cs)), One)
    /\ NumEq(Sub2(Mul2(ch, ch), Mul2(sh, sh)), One)
    /\ NumEq(Ap("expm1", u), Sub2(Ap("exp", u), One))
    /\ cs.n # 0 => /\ NumEq(Ap("tan", u), Div2(sn, cs))
                   \* (sin/cos)' by the quotient rule equals the table entry of tan
                   /\ NumEq(DTab("tan", u), Div2(Sub2(Mul2(DTab("sin", u), cs), Mul2(DTab("cos", u), sn)), Mul2(cs, cs)))
    /\ NumEq(Ap("tanh", u), Div2(sh, ch))
    /\ NumEq(DTab("tanh", u), Div2(Sub2(Mul2(DTab("sinh", u), ch), Mul2(DTab("cosh", u), sh)), Mul2(ch, ch)))
    \* (sin^2 + cos^2)' = 0 and (cosh^2 - sinh^2)' = 0 under the table
    /\ NumEq(Add2(Mul2(Mul2(Two, sn), DTab("sin", u)), Mul2(Mul2(Two, cs), DTab("cos", u))), Zero)
    /\ NumEq(Sub2(Mul2(Mul2(Two, ch), DTab("cosh", u)), Mul2(Mul2(Two, sh), DTab("sinh", u))), Zero)
    /\ NumEq(DTab("expm1", u), DTab("exp", u))

(***************************************************************************)
(* A-layer refines M-layer?  Reported, not enforced (DESIGN 3.1).          *)
(***************************************************************************)
ModelVerdict(ns) ==
    LET pred == Predicted(tree, var, ns) IN
    IF pred.r = "err" /\ pred.v.e \notin {"ValueError", "RuntimeError", "AttributeError", "NotImplementedError"}
    THEN [v |-> "SKIP", env |-> 0]       \* constant folding left the exact model
    ELSE JudgeOut(tree, var, ns, pred)

\* the three settings share one judgement whenever they predict the same thing
ModelVerdicts ==
    LET same(a, b) == Predicted(tree, var, a) = Predicted(tree, var, b)
                      /\ MustRefuse(tree, a) = MustRefuse(tree, b)
        mN == ModelVerdict("none")
        mC == IF same("continuous", "none") THEN mN ELSE ModelVerdict("continuous")
        mD == IF same("discontinuous", "continuous") THEN mC
              ELSE IF same("discontinuous", "none") THEN mN ELSE ModelVerdict("discontinuous")
    IN << mN, mC, mD >>

\* Object sharing of the pair: rep = the subtrees that occur more than once (in the expression
\* and the variable together), shs = the sharing variants beyond "nothing shared", each the
\* indices into rep of the subtrees that are ONE Python object.  The driver builds the pair once
\* per variant; the meaning, hence the judgement, is the same for all of them.
ShareCase(e, v) ==
    LET rep == SetToSeq(Repeated(e, v))
        idx(SS) == SetToSeq({ i \in 1..Len(rep) : rep[i] \in SS })
        vs == SetToSeq(ShareVariants(e, v, ~Quick) \ {{}})
    IN [rep |-> rep, shs |-> [k \in 1..Len(vs) |-> idx(vs[k])]]

Emit ==
    Complete =>
      /\ LET sc == ShareCase(tree, var) IN
         PrintT(ToJson([e |-> tree, v |-> var, rep |-> sc.rep, shs |-> sc.shs]))
      /\ LET mvs == ModelVerdicts IN
         \A k \in 1..Len(NSs) :
            mvs[k].v \in {"OK", "SKIP"}
            \/ PrintT(ToJson([design |-> mvs[k].v, ns |-> NSs[k], env |-> mvs[k].env, de |-> tree, dv |-> var,
                              feats |-> SetToSeq(Features(tree, var))]))

ASSUME PrintT(ToJson([envs |-> Envs]))
=============================================================================
