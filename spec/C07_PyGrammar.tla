---------------------------- MODULE C07_PyGrammar ----------------------------
(***************************************************************************)
(* M-layer: Python's expression grammar for the fragment pymbolic's syntax *)
(* shares with Python, written from the Python language reference          *)
(* (section 6, "Expressions") as a recursive-descent parser over the same  *)
(* token alphabet:                                                         *)
(*   expression_list > conditional > or > and > not > comparison (chained) *)
(*   > | > ^ > & > shifts > + - > * / // % > unary + - ~ > ** > primary    *)
(* The result is an Expr tree carrying Python's MEANING: a - b is          *)
(* a + (-1)*b, -a is (-1)*a, +a is a, a < b < c is (a < b) and (b < c),    *)
(* and/or keep Python's operand-returning semantics (encoded as If).       *)
(* Its evaluation (Eval) is bound to CPython's own eval by the C07 judge.  *)
(***************************************************************************)
EXTENDS C07_Parser

PyOk(e, pos) == [ok |-> TRUE, e |-> e, pos |-> pos]
PyFail == [ok |-> FALSE, err |-> "SyntaxError"]

\* binary operator levels, loosest first
PyLevels == << {"|"}, {"^"}, {"&"}, {"<<", ">>"}, {"+", "-"}, {"*", "/", "//", "%"} >>
PyBinNode(op, l, r) ==
    CASE op = "|" -> N("BitOr", << l, r >>)   [] op = "^" -> N("BitXor", << l, r >>)
      [] op = "&" -> N("BitAnd", << l, r >>)  [] op = "<<" -> B("LShift", l, r)
      [] op = ">>" -> B("RShift", l, r)       [] op = "+" -> N("Sum", << l, r >>)
      [] op = "-" -> N("Sum", << l, N("Product", << KI(-1), r >>) >>)
      [] op = "*" -> N("Product", << l, r >>) [] op = "/" -> B("Quotient", l, r)
      [] op = "//" -> B("FloorDiv", l, r)     [] op = "%" -> B("Remainder", l, r)

RECURSIVE PyList(_, _), PyTest(_, _), PyOr(_, _), PyAnd(_, _), PyNot(_, _), PyCmp(_, _),
          PyBinLvl(_, _, _), PyFactor(_, _), PyPower(_, _), PyPrimary(_, _), PyTrailers(_, _, _),
          PyCallArgs(_, _, _, _)

\* a or b == a if a else b ; a and b == b if a else a
PyOrNode(l, r) == IfE(l, l, r)
PyAndNode(l, r) == IfE(l, r, l)

\* expression list: test ("," test)* [","]  -> a tuple when a comma is present
PyList(toks, pos) ==
    LET first == PyTest(toks, pos) IN
    IF ~first.ok THEN first
    ELSE IF Tok(toks, first.pos) # "," THEN first
    ELSE LET RECURSIVE Go(_, _)
             Go(p, acc) ==       \* p is just after a comma
                 IF AtEnd(toks, p) \/ Tok(toks, p) \in {")", "]"} THEN PyOk(N("Tup", acc), p)
                 ELSE LET r == PyTest(toks, p) IN
                      IF ~r.ok THEN r
                      ELSE IF Tok(toks, r.pos) = "," THEN Go(r.pos + 1, Append(acc, r.e))
                      ELSE PyOk(N("Tup", Append(acc, r.e)), r.pos)
         IN Go(first.pos + 1, << first.e >>)

PyTest(toks, pos) ==
    LET a == PyOr(toks, pos) IN
    IF ~a.ok THEN a
    ELSE IF Tok(toks, a.pos) # "if" THEN a
    ELSE LET c == PyOr(toks, a.pos + 1) IN
         IF ~c.ok THEN c
         ELSE IF Tok(toks, c.pos) # "else" THEN PyFail
         ELSE LET el == PyTest(toks, c.pos + 1) IN
              IF ~el.ok THEN el ELSE PyOk(IfE(c.e, a.e, el.e), el.pos)

PyOr(toks, pos) ==
    LET a == PyAnd(toks, pos) IN
    IF ~a.ok THEN a
    ELSE IF Tok(toks, a.pos) # "or" THEN a
    ELSE LET r == PyOr(toks, a.pos + 1) IN      \* right-nested: same value, operands in order
         IF ~r.ok THEN r ELSE PyOk(PyOrNode(a.e, r.e), r.pos)
PyAnd(toks, pos) ==
    LET a == PyNot(toks, pos) IN
    IF ~a.ok THEN a
    ELSE IF Tok(toks, a.pos) # "and" THEN a
    ELSE LET r == PyAnd(toks, a.pos + 1) IN
         IF ~r.ok THEN r ELSE PyOk(PyAndNode(a.e, r.e), r.pos)
PyNot(toks, pos) ==
    IF Tok(toks, pos) = "not" THEN
        LET r == PyNot(toks, pos + 1) IN IF ~r.ok THEN r ELSE PyOk(U("LogNot", r.e), r.pos)
    ELSE PyCmp(toks, pos)

\* a op1 b op2 c ...  ==  (a op1 b) and (b op2 c) and ...
PyCmp(toks, pos) ==
    LET a == PyBinLvl(toks, pos, 1) IN
    IF ~a.ok THEN a
    ELSE LET RECURSIVE Go(_, _, _)
             Go(p, prev, acc) ==     \* acc: the conjunction so far ("" when empty)
                 IF Tok(toks, p) \notin CmpToks THEN PyOk(acc, p)
                 ELSE LET r == PyBinLvl(toks, p + 1, 1) IN
                      IF ~r.ok THEN r
                      ELSE LET c == Cmp(prev, toks[p], r.e) IN
                           Go(r.pos, r.e, IF acc.t = "None" THEN c ELSE PyAndNode(acc, c))
         IN IF Tok(toks, a.pos) \notin CmpToks THEN a ELSE Go(a.pos, a.e, NoneE)

PyBinLvl(toks, pos, lvl) ==
    IF lvl > Len(PyLevels) THEN PyFactor(toks, pos)
    ELSE LET a == PyBinLvl(toks, pos, lvl + 1) IN
         IF ~a.ok THEN a
         ELSE LET RECURSIVE Go(_, _)
                  Go(p, left) ==
                      IF Tok(toks, p) \notin PyLevels[lvl] THEN PyOk(left, p)
                      ELSE LET r == PyBinLvl(toks, p + 1, lvl + 1) IN
                           IF ~r.ok THEN r ELSE Go(r.pos, PyBinNode(toks[p], left, r.e))
              IN Go(a.pos, a.e)

PyFactor(toks, pos) ==
    LET tk == Tok(toks, pos) IN
    IF tk \in {"+", "-", "~"} THEN
        LET r == PyFactor(toks, pos + 1) IN
        IF ~r.ok THEN r
        \* +e means 0 + e: same value for a number (a bool becomes an int), TypeError otherwise
        ELSE PyOk(CASE tk = "+" -> N("Sum", << r.e >>)
                    [] tk = "-" -> N("Product", << KI(-1), r.e >>)
                    [] tk = "~" -> U("BitNot", r.e), r.pos)
    ELSE PyPower(toks, pos)

PyPower(toks, pos) ==
    LET a == PyPrimary(toks, pos) IN
    IF ~a.ok THEN a
    ELSE IF Tok(toks, a.pos) # "**" THEN a
    ELSE LET r == PyFactor(toks, a.pos + 1) IN
         IF ~r.ok THEN r ELSE PyOk(B("Power", a.e, r.e), r.pos)

PyPrimary(toks, pos) ==
    LET tk == Tok(toks, pos) IN
    LET atom ==
        CASE tk = "(" ->
                IF Tok(toks, pos + 1) = ")" THEN PyOk(N("Tup", << >>), pos + 2)
                ELSE LET r == PyList(toks, pos + 1) IN
                     IF ~r.ok THEN r ELSE IF Tok(toks, r.pos) # ")" THEN PyFail ELSE PyOk(r.e, r.pos + 1)
          [] tk = "[" ->
                IF Tok(toks, pos + 1) = "]" THEN PyOk(N("List", << >>), pos + 2)
                ELSE LET r == PyList(toks, pos + 1) IN
                     IF ~r.ok THEN r ELSE IF Tok(toks, r.pos) # "]" THEN PyFail
                     ELSE PyOk(N("List", IF r.e.t = "Tup" /\ Tok(toks, r.pos - 1) # ")" THEN r.e.c ELSE << r.e >>),
                               r.pos + 1)
          [] IsIntTok(tk)   -> PyOk(KI(IntTokVal(tk)), pos + 1)
          [] IsFloatTok(tk) -> PyOk(FloatTokConst(tk), pos + 1)
          [] tk = "True"    -> PyOk(K(BoolV(TRUE)), pos + 1)
          [] tk = "False"   -> PyOk(K(BoolV(FALSE)), pos + 1)
          [] tk \in Idents  -> PyOk(V(tk), pos + 1)
          [] OTHER -> PyFail
    IN IF ~atom.ok THEN atom ELSE PyTrailers(toks, atom.pos, atom.e)

PyTrailers(toks, pos, left) ==
    LET tk == Tok(toks, pos) IN
    CASE tk = "(" ->
            LET a == PyCallArgs(toks, pos + 1, << >>, << >>) IN
            IF ~a.ok THEN a
            ELSE PyTrailers(toks, a.pos, IF Len(a.kw) > 0 THEN CallKw(left, a.args, a.kw) ELSE Call(left, a.args))
      [] tk = "[" ->
            LET r == PyList(toks, pos + 1) IN
            IF ~r.ok THEN r ELSE IF Tok(toks, r.pos) # "]" THEN PyFail
            ELSE PyTrailers(toks, r.pos + 1, B("Sub", left, r.e))
      [] tk = "." ->
            IF Tok(toks, pos + 1) \in Idents THEN PyTrailers(toks, pos + 2, Look(left, toks[pos + 1])) ELSE PyFail
      [] OTHER -> PyOk(left, pos)

\* positional arguments, then keyword arguments; trailing comma allowed
PyCallArgs(toks, pos, args, kw) ==
    IF Tok(toks, pos) = ")" THEN [ok |-> TRUE, args |-> args, kw |-> kw, pos |-> pos + 1]
    ELSE LET isKw == Tok(toks, pos) \in Idents /\ Tok(toks, pos + 1) = "="
             r == PyTest(toks, IF isKw THEN pos + 2 ELSE pos)
         IN IF ~r.ok THEN r
            ELSE IF ~isKw /\ Len(kw) > 0 THEN PyFail
            ELSE IF isKw /\ \E i \in 1..Len(kw) : kw[i].name = toks[pos] THEN PyFail
            ELSE LET args2 == IF isKw THEN args ELSE Append(args, r.e)
                     kw2 == IF isKw THEN Append(kw, KwArg(toks[pos], r.e)) ELSE kw
                 IN IF Tok(toks, r.pos) = "," THEN PyCallArgs(toks, r.pos + 1, args2, kw2)
                    ELSE IF Tok(toks, r.pos) = ")" THEN [ok |-> TRUE, args |-> args2, kw |-> kw2, pos |-> r.pos + 1]
                    ELSE PyFail

PyParse(toks) ==
    IF Len(toks) = 0 THEN PyFail
    ELSE LET r == PyList(toks, 1) IN
         IF ~r.ok THEN r ELSE IF ~AtEnd(toks, r.pos) THEN PyFail ELSE r
=============================================================================
