CONSTANTS
  OptPoolSel = "fb"
  OptArgSel = "three"
  MaxLen = 1
  Steps = 1
  ClassSel = "args"
  FirstSel = "four"
  CollectMode = "bound"
  FbMode = "mro-dropkw"
  InlineHit = "identity"
INIT Init
NEXT Next
INVARIANT Explained
CHECK_DEADLOCK FALSE
