----------------------------- MODULE C05_Rebuild -----------------------------
(***************************************************************************)
(* A-layer for C05, round 5: the identity-shaped handlers WITH OBJECT      *)
(* IDENTITY.                                                               *)
(*                                                                         *)
(* The meaning of an identity-shaped mapper (stock identity "pident",      *)
(* renaming identity "ident", substitution "subst") is a tree (C05_Fresh). *)
(* The handlers of IdentityMapper do not compute that tree the same way    *)
(* every time:                                                             *)
(*                                                                         *)
(*     children = [rec(c) for c in the node's children]                    *)
(*     if every result IS the child object it came from: return expr       *)
(*     return type(expr)(children..., and the node's OTHER FIELDS)         *)
(*                                                                         *)
(* Which branch runs depends on object identity, and a look-aside table    *)
(* changes object identity: a hit hands back the object that was stored    *)
(* for an earlier, key-equal input - which is the child at hand only if    *)
(* that earlier input was the very same object.  So with equal but not     *)
(* identical subtrees in the input (two separately built equal children    *)
(* under different parents, or an equal tree in an earlier call on the     *)
(* instance) the memoizing mapper takes rebuild branches that the          *)
(* cache-free mapper never takes.  Observational transparency therefore    *)
(* needs: the rebuild branch is FAITHFUL - it carries every field of the   *)
(* node (required and optional, default or not) into the new node.         *)
(*                                                                         *)
(* Build mode (an input dimension, chosen by TLC in C05_Gen):              *)
(*   share = TRUE   structurally (type-exactly) equal subtrees of one      *)
(*                  history are ONE object                                 *)
(*   share = FALSE  every occurrence of a subtree is an object of its own  *)
(* An object identity is a record [o, c, p, n]:                            *)
(*   "in"   an input object: in distinct mode named by call number c and   *)
(*          path p from the root, in shared mode by its tree alone         *)
(*   "new"  built by the handler that ran at (c, p)                        *)
(*   "val"  the substitution value of the variable n (one object)          *)
(*   "num"  a number: a value, no identity of its own                      *)
(*                                                                         *)
(* RbMode "faithful" is the design.  RbMode f (an optional field name) is  *)
(* the seeded design error of the negative control                         *)
(* C05_Gen_Buggy_RebuildDropsScope: the rebuild branch forgets field f,    *)
(* which silently takes its default.  TLC must then find a history on      *)
(* which the memoizing algorithm differs from the SAME handlers run        *)
(* without a table - and must find none in the shared build mode alone.    *)
(***************************************************************************)
EXTENDS C05_MemoImpl

IdKinds == {"pident", "ident", "subst"}

\* optional fields of a node and the value an omitted one takes
OptDefault == [prefix |-> "", scope |-> "pymbolic_eval"]
OptFields(e) == IF e.t = "CSE" THEN {"prefix", "scope"} ELSE {}
Rebuild(rb, e, ks) ==
    LET n == WithKids(e, ks) IN
    IF rb \in OptFields(e) THEN [n EXCEPT ![rb] = OptDefault[rb]] ELSE n

InObj(share, call, path) ==
    IF share THEN [o |-> "in", c |-> 0, p |-> << >>, n |-> ""]
    ELSE [o |-> "in", c |-> call, p |-> path, n |-> ""]
NewObj(call, path) == [o |-> "new", c |-> call, p |-> path, n |-> ""]
ValObj(name) == [o |-> "val", c |-> 0, p |-> << >>, n |-> name]
NumObj == [o |-> "num", c |-> 0, p |-> << >>, n |-> ""]
ObjOf(cf, e, path) == IF e.t = "Const" THEN NumObj ELSE InObj(cf.share, cf.call, path)

\* `result is child`: x = [r, id] is what rec(child) returned
SameObj(cf, kid, path, x) ==
    /\ x.r.rk = "tree" /\ x.r.e = kid
    /\ (kid.t = "Const" \/ x.id = ObjOf(cf, kid, path))

\* cf = [rb, share, cached, key, mk, a, call]; returns [tab, r, id]
RECURSIVE IdRec(_, _, _, _)
IdRec(cf, tab, e, path) ==
    LET mk == cf.mk
        a  == cf.a
        ik == KeyOf(cf.key, e, a)
        me == ObjOf(cf, e, path)
        look == cf.cached /\ InScope(mk, e)
    IN
    IF look /\ ik \in DOMAIN tab THEN [tab |-> tab, r |-> tab[ik].r, id |-> tab[ik].id]
    ELSE LET ks == RecKids(mk, e)
             RECURSIVE Go(_, _, _)
             Go(tb, i, xs) ==
                 IF i > Len(ks) THEN [tab |-> tb, xs |-> xs]
                 ELSE LET x == IdRec(cf, tb, ks[i], Append(path, i)) IN
                      Go(x.tab, i + 1, Append(xs, x))
             g  == Go(tab, 1, << >>)
             rs == [i \in 1..Len(ks) |-> g.xs[i].r.e]
             untouched == \A i \in 1..Len(ks) : SameObj(cf, ks[i], Append(path, i), g.xs[i])
             out ==
                 IF e.t = "Var" THEN
                     (IF mk.m = "ident"
                      THEN [r |-> TreeR(RenamedLeaf(e, a)), id |-> NewObj(cf.call, path)]
                      ELSE IF mk.m = "subst" /\ e.name \in DOMAIN mk.map
                      THEN [r |-> TreeR(mk.map[e.name]), id |-> ValObj(e.name)]
                      ELSE [r |-> TreeR(e), id |-> me])
                 ELSE IF e.t = "Const" THEN [r |-> TreeR(e), id |-> NumObj]
                 ELSE IF e.t = "CSE" /\ Falsy(rs[1]) THEN [r |-> TreeR(KI(0)), id |-> NumObj]
                 \* (a list is always built anew)
                 ELSE IF untouched /\ e.t # "List" THEN [r |-> TreeR(e), id |-> me]
                 ELSE [r |-> TreeR(Rebuild(cf.rb, e, rs)), id |-> NewObj(cf.call, path)]
         IN [tab |-> IF look THEN (ik :> out) @@ g.tab ELSE g.tab, r |-> out.r, id |-> out.id]

\* a whole history (sequence of [e, a]) on one memoizing instance, every call also on
\* the same handlers without a table, applied afresh:
\*   "memo-differs"     the two results differ               (transparency)
\*   "meaning-differs"  they agree but not with the meaning  (the handlers lose a field)
IdVerdict(rb, share, key, mk, calls) ==
    LET Cf(cached, i) == [rb |-> rb, share |-> share, cached |-> cached, key |-> key,
                          mk |-> mk, a |-> calls[i].a, call |-> i]
        RECURSIVE Go(_, _)
        Go(i, tab) ==
            IF i > Len(calls) THEN "OK"
            ELSE LET c == IdRec(Cf(TRUE, i), tab, calls[i].e, << >>)
                     u == IdRec(Cf(FALSE, i), EmptyFn, calls[i].e, << >>)
                 IN IF c.r # u.r THEN "memo-differs"
                    ELSE IF u.r # Fresh(mk, calls[i].e, calls[i].a) THEN "meaning-differs"
                    ELSE Go(i + 1, c.tab)
    IN Go(1, EmptyFn)
=============================================================================
