------------------------------ MODULE C07_Judge ------------------------------
(***************************************************************************)
(* Stage (3) for C07.  One record per token string:                        *)
(*   pp   what pymbolic.parse returned (tree / exception class)            *)
(*   ai   what the Python-AST importer returned for ast.parse of the text  *)
(*   syn  TRUE when CPython rejects the text (not in the shared syntax)    *)
(*   py   CPython's eval of the text in each environment (the ground       *)
(*        truth named by the property statement)                           *)
(* TLC evaluates the returned trees with Eval and compares.  `and`/`or`    *)
(* are read with Python's operand-returning semantics (PyLogic) because    *)
(* the comparison is against Python's own value.                           *)
(***************************************************************************)
EXTENDS C07_Model, Json, IOUtils
VARIABLES blk, off

Recs == ndJsonDeserialize(IOEnv.TRACE_FILE)
BS == 32
NB == (Len(Recs) + BS - 1) \div BS
Init == blk \in 0..(NB - 1) /\ off = 0
Next == off < BS - 1 /\ off' = off + 1 /\ UNCHANGED blk
Idx == blk * BS + off + 1

Verdicts(rec) ==
    LET parserV ==
          IF rec.pp.r = "err" THEN
              (IF rec.pp.v.e # "ParseError" THEN [v |-> "parser-raised-other-than-ParseError", env |-> 0]
               ELSE IF rec.syn THEN [v |-> "OK", env |-> 0]
               ELSE [v |-> "parse-error-on-shared-syntax", env |-> 0])
          ELSE IF rec.pp.r # "ok" THEN [v |-> "SKIP", env |-> 0]
          ELSE IF rec.syn THEN [v |-> "OK", env |-> 0]       \* outside the shared syntax
          ELSE JudgeTree(rec.pp.e, rec.py)
        astV ==
          IF rec.syn THEN [v |-> "OK", env |-> 0]
          ELSE IF rec.ai.r = "err" THEN [v |-> "importer-raised", env |-> 0]
          ELSE IF rec.ai.r # "ok" THEN [v |-> "SKIP", env |-> 0]
          ELSE JudgeTree(rec.ai.e, rec.py)
        \* the same importer instance reused over the whole stream of strings
        ast2V ==
          IF rec.syn THEN [v |-> "OK", env |-> 0]
          ELSE IF rec.ai2.r = "err" THEN [v |-> "importer-raised", env |-> 0]
          ELSE IF rec.ai2.r # "ok" THEN [v |-> "SKIP", env |-> 0]
          ELSE JudgeTree(rec.ai2.e, rec.py)
    IN [p |-> parserV, a |-> astV, a2 |-> ast2V]

\* drift: the real parser's tree against the transcription's prediction (exact)
Drift(rec) ==
    LET p == Parse(rec.toks) IN
    IF rec.pp.r = "ok" /\ p.ok THEN (IF p.e # rec.pp.e THEN "parsed-tree" ELSE "")
    ELSE IF rec.pp.r = "err" /\ ~p.ok THEN (IF p.err # rec.pp.v.e THEN "error-class" ELSE "")
    ELSE IF rec.pp.r = "unser" THEN "" ELSE "parse-outcome"

\* oracle binding: the reference grammar (M-layer) against CPython itself
OracleCheck(rec) ==
    LET r == PyParse(rec.toks) IN
    IF rec.syn THEN (IF r.ok THEN "reference-accepts-what-CPython-rejects" ELSE "")
    ELSE IF ~r.ok THEN "reference-rejects-what-CPython-accepts"
    ELSE LET j == JudgeTree(r.e, rec.py) IN IF j.v \in {"OK", "SKIP"} THEN "" ELSE "reference-" \o j.v

\* Attribution of a failing parser verdict to the NAMED deviations of C07_Parser: the real
\* parser returned exactly what the unrepaired transcription predicts, the transcription with
\* every named deviation repaired reads the string as Python does (same values / errors, or a
\* parse error exactly where CPython has a syntax error), and at least one deviation is active.
Explained(rec) ==
    IF Drift(rec) # "" THEN << >>
    ELSE LET f == ParseRepaired(rec.toks)
             okNow == IF rec.syn THEN TRUE
                      ELSE IF ~f.ok THEN FALSE
                      ELSE JudgeTree(f.e, rec.py).v \in {"OK", "SKIP"}
         IN IF okNow THEN ActiveDevs(rec.toks) ELSE << >>

Report ==
    Idx <= Len(Recs) =>
      LET rec == Recs[Idx] v == Verdicts(rec) d == Drift(rec) o == OracleCheck(rec) IN
      /\ ((v.p.v = "OK" /\ v.a.v = "OK" /\ v.a2.v = "OK")
          \/ PrintT(ToJson([id |-> rec.id, p |-> v.p, a |-> v.a, a2 |-> v.a2,
                            devs |-> IF v.p.v \in {"OK", "SKIP"} THEN << >> ELSE Explained(rec)])))
      /\ (d = "" \/ PrintT(ToJson([id |-> rec.id, drift |-> d])))
      /\ (o = "" \/ PrintT(ToJson([id |-> rec.id, oracle |-> o])))
=============================================================================
