------------------------------ MODULE C07_Judge ------------------------------
(***************************************************************************)
(* Stage (3) for C07.  One record per token string:                        *)
(*   pp   what pymbolic.parse returned (tree / exception class)            *)
(*   ai   what the Python-AST importer returned for ast.parse of the text  *)
(*   syn  TRUE when CPython rejects the text (not in the shared syntax)    *)
(*   py   CPython's eval of the text in each environment (the ground       *)
(*        truth named by the property statement)                           *)
(* TLC evaluates the returned trees with Eval and compares.  `and`/`or`    *)
(* are read with Python's operand-returning semantics (PyLogic) because    *)
(* the comparison is against Python's own value.                           *)
(***************************************************************************)
EXTENDS C07_Env, Json, IOUtils
VARIABLES blk, off

Recs == ndJsonDeserialize(IOEnv.TRACE_FILE)
BS == 32
NB == (Len(Recs) + BS - 1) \div BS
Init == blk \in 0..(NB - 1) /\ off = 0
Next == off < BS - 1 /\ off' = off + 1 /\ UNCHANGED blk
Idx == blk * BS + off + 1

\* a or b == a if a else b ;  a and b == b if a else a   (operands are pure)
RECURSIVE PyLogic(_)
Chain(kind, ks) ==
    LET RECURSIVE Go(_)
        Go(i) == IF i = Len(ks) THEN ks[i]
                 ELSE IF kind = "LogOr" THEN IfE(ks[i], ks[i], Go(i + 1))
                 ELSE IfE(ks[i], Go(i + 1), ks[i])
    IN Go(1)
PyLogic(e) ==
    LET ks == [i \in 1..Len(Kids(e)) |-> PyLogic(Kids(e)[i])] IN
    IF e.t \in {"LogOr", "LogAnd"} /\ Len(ks) > 0 THEN Chain(e.t, ks)
    ELSE WithKids(e, ks)

JudgeOne(tree, pyv, env) ==
    IF IsUnrep(pyv) THEN "SKIP"
    ELSE LET tv == Eval(PyLogic(tree), env) IN
         IF IsUnrep(tv) THEN "SKIP"
         ELSE IF IsErr(pyv) THEN (IF IsErr(tv) THEN "OK" ELSE "value-instead-of-error")
         ELSE IF IsErr(tv) THEN "error-instead-of-value"
         ELSE IF ValEq(pyv, tv) /\ (IsNum(pyv) <=> IsNum(tv)) THEN "OK" ELSE "wrong-value"

JudgeTree(tree, py) ==
    LET vs == [i \in 1..Len(Envs) |-> JudgeOne(tree, py[i], Envs[i])]
        bad(i) == vs[i] \notin {"OK", "SKIP"}
    IN IF \E i \in 1..Len(vs) : bad(i)
       THEN LET i == CHOOSE i \in 1..Len(vs) : bad(i) /\ \A j \in 1..(i - 1) : ~bad(j)
            IN [v |-> vs[i], env |-> i]
       ELSE IF \A i \in 1..Len(vs) : vs[i] = "SKIP" THEN [v |-> "SKIP", env |-> 0]
       ELSE [v |-> "OK", env |-> 0]

Verdicts(rec) ==
    LET parserV ==
          IF rec.pp.r = "err" THEN
              (IF rec.pp.v.e # "ParseError" THEN [v |-> "parser-raised-other-than-ParseError", env |-> 0]
               ELSE IF rec.syn THEN [v |-> "OK", env |-> 0]
               ELSE [v |-> "parse-error-on-shared-syntax", env |-> 0])
          ELSE IF rec.pp.r # "ok" THEN [v |-> "SKIP", env |-> 0]
          ELSE IF rec.syn THEN [v |-> "OK", env |-> 0]       \* outside the shared syntax
          ELSE JudgeTree(rec.pp.e, rec.py)
        astV ==
          IF rec.syn THEN [v |-> "OK", env |-> 0]
          ELSE IF rec.ai.r = "err" THEN [v |-> "importer-raised", env |-> 0]
          ELSE IF rec.ai.r # "ok" THEN [v |-> "SKIP", env |-> 0]
          ELSE JudgeTree(rec.ai.e, rec.py)
    IN [p |-> parserV, a |-> astV]

Report ==
    Idx <= Len(Recs) =>
      LET rec == Recs[Idx] v == Verdicts(rec) IN
      (v.p.v = "OK" /\ v.a.v = "OK") \/ PrintT(ToJson([id |-> rec.id, p |-> v.p, a |-> v.a]))
=============================================================================
