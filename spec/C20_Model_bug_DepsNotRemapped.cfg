CONSTANT Buggy = "DepsNotRemapped"
CONSTANT MaxOps = 2
CONSTANT MaxLen = 4
CONSTANT NIds = 5
CONSTANT NVars = 2
CONSTANT WithDaf = FALSE
INIT Init
NEXT Next
INVARIANT Step_DepIso
CHECK_DEADLOCK FALSE
