CONSTANT Tier = "quick"
CONSTANT Kinds = {"homog"}
CONSTANT MaxN = 3
CONSTANT Bug = "inv_any_pure"
INIT Init
NEXT Next
INVARIANT ModelHolds
CHECK_DEADLOCK FALSE
