-------------------------------- MODULE Poly --------------------------------
(***************************************************************************)
(* M-layer: exact multivariate polynomials and rational functions over Q,  *)
(* independent of pymbolic.  Used as the per-instance, exact decision      *)
(* procedure for "evaluates to the same value in every environment"        *)
(* (C11, C15, C10) instead of sampling.                                    *)
(*                                                                         *)
(* A monomial is an exponent vector (sequence of naturals, one entry per   *)
(* atom of Atoms).  A polynomial is [ok |-> BOOLEAN, ts |-> set of terms]  *)
(* with terms [e |-> exponent vector, n |-> numerator, d |-> denominator], *)
(* canonical: one term per exponent vector, no zero coefficient, reduced   *)
(* fractions with positive denominator - so polynomial equality is record  *)
(* equality.  ok = FALSE marks a 32-bit overflow guard hit (never judged). *)
(* A rational function is [def, num, den]; equality by cross               *)
(* multiplication.                                                         *)
(***************************************************************************)
EXTENDS Expr

CLIM == 1000000                       \* coefficient guard: products stay < 2^31

\* ---- rationals <<n, d>> with overflow flag --------------------------------
QOk(a, b) == Abs(a) <= CLIM /\ Abs(b) <= CLIM
QNorm(n, d) == LET g == Gcd(n, d) s == IF d < 0 THEN -1 ELSE 1
               IN << s * (n \div g), s * (d \div g) >>

\* ---- polynomials -----------------------------------------------------------
NAtoms == 6
ZeroExp == [i \in 1..NAtoms |-> 0]
UnitExp(k) == [i \in 1..NAtoms |-> IF i = k THEN 1 ELSE 0]
Bad == [ok |-> FALSE, ts |-> {}]
PZero == [ok |-> TRUE, ts |-> {}]
PConst(n, d) == IF n = 0 THEN PZero
                ELSE LET q == QNorm(n, d) IN
                     [ok |-> TRUE, ts |-> {[e |-> ZeroExp, n |-> q[1], d |-> q[2]]}]
PAtom(k) == [ok |-> TRUE, ts |-> {[e |-> UnitExp(k), n |-> 1, d |-> 1]}]

\* sum of the coefficients of a set of terms (all with the same exponent), as
\* <<n, d, ok>>
RECURSIVE SumCoef(_)
SumCoef(S) ==
    IF S = {} THEN << 0, 1, TRUE >>
    ELSE LET t == CHOOSE t \in S : TRUE
             r == SumCoef(S \ {t})
         IN IF ~r[3] \/ ~QOk(r[1], t.d) \/ ~QOk(t.n, r[2]) \/ ~QOk(r[2], t.d) THEN << 0, 1, FALSE >>
            ELSE LET q == QNorm(r[1] * t.d + t.n * r[2], r[2] * t.d) IN
                 IF ~QOk(q[1], q[2]) THEN << 0, 1, FALSE >> ELSE << q[1], q[2], TRUE >>

\* canonical polynomial from a set of tagged terms [e, n, d, tag]
Collect(T) ==
    LET exps == { t.e : t \in T }
        co(e) == SumCoef({ t \in T : t.e = e })
    IN IF \E e \in exps : ~co(e)[3] THEN Bad
       ELSE [ok |-> TRUE,
             ts |-> { [e |-> e, n |-> co(e)[1], d |-> co(e)[2]] : e \in { e \in exps : co(e)[1] # 0 } }]

PAdd(p, q) ==
    IF ~p.ok \/ ~q.ok THEN Bad
    ELSE Collect({ [e |-> t.e, n |-> t.n, d |-> t.d, tag |-> 1] : t \in p.ts }
                 \cup { [e |-> t.e, n |-> t.n, d |-> t.d, tag |-> 2] : t \in q.ts })
PNeg(p) == IF ~p.ok THEN Bad ELSE [ok |-> TRUE, ts |-> { [t EXCEPT !.n = -t.n] : t \in p.ts }]
PSub(p, q) == PAdd(p, PNeg(q))
PMul(p, q) ==
    IF ~p.ok \/ ~q.ok THEN Bad
    ELSE IF \E t \in p.ts, u \in q.ts : ~QOk(t.n, u.n) \/ ~QOk(t.d, u.d) THEN Bad
    ELSE Collect({ LET c == QNorm(t.n * u.n, t.d * u.d) IN
                   [e |-> [i \in 1..NAtoms |-> t.e[i] + u.e[i]], n |-> c[1], d |-> c[2],
                    tag |-> << t.e, u.e >>] : t \in p.ts, u \in q.ts })
RECURSIVE PPow(_, _)
PPow(p, k) == IF k = 0 THEN PConst(1, 1) ELSE PMul(p, PPow(p, k - 1))
PIsZero(p) == p.ok /\ p.ts = {}
PIsConst(p) == p.ok /\ \A t \in p.ts : t.e = ZeroExp
PDegIn(p, k) == IF p.ts = {} THEN 0
                ELSE LET ds == { t.e[k] : t \in p.ts } IN CHOOSE m \in ds : \A o \in ds : o <= m
\* coefficient polynomial of atom_k ^ j  (the other atoms stay)
PCoefOf(p, k, j) ==
    [ok |-> p.ok, ts |-> { [t EXCEPT !.e = [t.e EXCEPT ![k] = 0]] : t \in { t \in p.ts : t.e[k] = j } }]

\* ---- rational functions ------------------------------------------------------
RF(num, den) == [def |-> TRUE, num |-> num, den |-> den]
RUndef == [def |-> FALSE, num |-> PZero, den |-> PZero]     \* not a rational function / not in fragment
ROk(r) == r.def /\ r.num.ok /\ r.den.ok
RConst(n, d) == RF(PConst(n, d), PConst(1, 1))
RAtom(k) == RF(PAtom(k), PConst(1, 1))
RAdd(a, b) == IF ~a.def \/ ~b.def THEN RUndef
              ELSE IF a.den = b.den THEN RF(PAdd(a.num, b.num), a.den)
              ELSE RF(PAdd(PMul(a.num, b.den), PMul(b.num, a.den)), PMul(a.den, b.den))
RMul(a, b) == IF ~a.def \/ ~b.def THEN RUndef ELSE RF(PMul(a.num, b.num), PMul(a.den, b.den))
RNeg(a) == IF ~a.def THEN RUndef ELSE RF(PNeg(a.num), a.den)
\* division by the zero function is undefined everywhere
RDiv(a, b) == IF ~a.def \/ ~b.def THEN RUndef
              ELSE IF PIsZero(b.num) THEN RUndef
              ELSE RF(PMul(a.num, b.den), PMul(a.den, b.num))
RECURSIVE RPow(_, _)
RPow(a, k) == IF ~a.def THEN RUndef
              ELSE IF k >= 0 THEN RF(PPow(a.num, k), PPow(a.den, k))
              ELSE IF PIsZero(a.num) THEN RUndef
              ELSE RF(PPow(a.den, -k), PPow(a.num, -k))
\* "EQ" | "NE" | "NA" (overflow guard or undefined: not judged)
REq(a, b) ==
    IF ~a.def \/ ~b.def THEN "NA"
    ELSE LET l == PMul(a.num, b.den) r == PMul(b.num, a.den) IN
         IF ~l.ok \/ ~r.ok THEN "NA" ELSE IF l = r THEN "EQ" ELSE "NE"

(***************************************************************************)
(* NF(e): the rational function an expression of the polynomial/rational   *)
(* fragment denotes.  AtomIx(e) > 0 says that e is an atom (a variable of  *)
(* the fixed list, or a subscripted variable used as an indeterminate).    *)
(***************************************************************************)
AtomNames == << "x", "y", "z", "p" >>
AtomIx(e) ==
    IF e.t = "Var" THEN
        (IF \E i \in 1..Len(AtomNames) : AtomNames[i] = e.name
         THEN CHOOSE i \in 1..Len(AtomNames) : AtomNames[i] = e.name ELSE 0)
    ELSE IF e.t = "Sub" /\ e.a.t = "Var" /\ e.a.name = "a" /\ e.b.t = "Const" /\ IsNum(e.b.v)
         THEN (IF e.b.v.n = 0 /\ e.b.v.d = 1 THEN 5 ELSE IF e.b.v.n = 1 /\ e.b.v.d = 1 THEN 6 ELSE 0)
    ELSE 0

RECURSIVE NF(_)
NFSeq(es) == [i \in 1..Len(es) |-> NF(es[i])]
RFold(op(_, _), init, rs) ==
    LET RECURSIVE Go(_, _)
        Go(i, acc) == IF i > Len(rs) THEN acc ELSE Go(i + 1, op(acc, rs[i]))
    IN Go(1, init)
NF(e) ==
    IF AtomIx(e) > 0 THEN RAtom(AtomIx(e))
    ELSE CASE e.t = "Const" -> IF IsNum(e.v) /\ Abs(e.v.n) <= CLIM /\ e.v.d <= CLIM
                               THEN RConst(e.v.n, e.v.d) ELSE RUndef
           [] e.t = "Sum" -> RFold(RAdd, RConst(0, 1), NFSeq(e.c))
           [] e.t = "Product" -> RFold(RMul, RConst(1, 1), NFSeq(e.c))
           [] e.t = "Quotient" -> RDiv(NF(e.a), NF(e.b))
           [] e.t = "Power" ->
                 IF e.b.t = "Const" /\ IsNum(e.b.v) /\ e.b.v.d = 1 /\ Abs(e.b.v.n) <= 8
                 THEN RPow(NF(e.a), e.b.v.n) ELSE RUndef
           [] e.t = "CSE" -> NF(e.a)
           [] OTHER -> RUndef

InPolyFragment(e) == NF(e).def
=============================================================================
