------------------------------- MODULE C03_Env -------------------------------
EXTENDS Eval
FnV(n) == [k |-> "fn", name |-> n]
ObjV(n) == [k |-> "obj", name |-> n]
TupV(s) == [k |-> "tup", items |-> s]
WordV(w) == [k |-> "word", w |-> w]
Common == [f |-> FnV("f"), g |-> FnV("g"),
           t |-> TupV(<< IntV(10), IntV(20), FracV(5, 2) >>), o |-> ObjV("o1"),
           m |-> [k |-> "map", name |-> "m1"]]
Envs == <<
  [x |-> IntV(2),      y |-> IntV(-3),     z |-> IntV(1)]     @@ Common,
  [x |-> FracV(1, 2),  y |-> IntV(2),      z |-> IntV(-1)]    @@ Common,
  [x |-> FracV(-3, 2), y |-> FracV(2, 3),  z |-> IntV(3)]     @@ Common,
  [x |-> IntV(0),      y |-> IntV(1),      z |-> IntV(-2)]    @@ Common,
  [x |-> IntV(3),      y |-> IntV(0),      z |-> FracV(1, 2)] @@ Common,
  [x |-> IntV(1),      y |-> IntV(-1),     z |-> IntV(0)]     @@ Common,
  [x |-> IntV(-2),     y |-> FracV(5, 2),  z |-> IntV(2)]     @@ Common,
  \* the boundary of every comparison: all operands equal
  [x |-> IntV(2),      y |-> IntV(2),      z |-> IntV(2)]     @@ Common,
  \* non-commuting operands: products must keep their order
  [x |-> WordV(<< "a" >>), y |-> WordV(<< "b" >>), z |-> WordV(<< "c" >>)] @@ Common
>>
=============================================================================
