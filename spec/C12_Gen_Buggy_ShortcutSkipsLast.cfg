CONSTANTS
  Tier = "neg"
  Mode = "exh"
  Bug = "ShortcutSkipsLast"
INIT Init
NEXT Next
INVARIANT TagModelMeetsProperty
CHECK_DEADLOCK FALSE
