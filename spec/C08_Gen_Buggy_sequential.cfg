CONSTANT Tier = "quick"
CONSTANT Mode = "exh"
CONSTANT Bug = "sequential"
INIT Init
NEXT Next
INVARIANT Lemma
CHECK_DEADLOCK FALSE
