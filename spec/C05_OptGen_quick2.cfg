CONSTANTS
  OptPoolSel = "small"
  OptArgSel = "two"
  MaxLen = 2
  Steps = 2
  ClassSel = "three"
  FirstSel = "four"
  CollectMode = "bound"
  FbMode = "faithful"
  InlineHit = "identity"
INIT Init
NEXT Next
INVARIANT Explained
INVARIANT Emit
CHECK_DEADLOCK FALSE
