------------------------------- MODULE C11_Gen -------------------------------
(* Stage (1) for C11: TLC enumerates the polynomial / rational fragment    *)
(* (three levels over a reduced alphabet) and all-kind trees for the       *)
(* flatten / fold rewrites.                                                *)
EXTENDS C11_Impl, Json
CONSTANT Tier
VARIABLE tree

x == V("x")  y == V("y")  pp == V("p")  ff == V("f")  tt == V("t")  bb == V("b")
Leaves == { x, y, pp, KI(0), KI(1), KI(2), KI(-1), KI(3) }
SmallLeaves == { x, pp, KI(1), KI(2) }
D1 == {
  N("Sum", << x, y >>), N("Sum", << x, KI(1) >>), N("Sum", << x, KI(0) >>), N("Sum", << x, x >>),
  N("Sum", << KI(2), KI(3) >>), N("Sum", << pp, x >>), N("Sum", << x, KI(-1), y >>),
  N("Product", << KI(2), x >>), N("Product", << x, y >>), N("Product", << x, KI(1) >>),
  N("Product", << x, x >>), N("Product", << KI(2), KI(3) >>), N("Product", << pp, x >>),
  N("Product", << KI(0), x >>), N("Product", << x, KI(-1), y >>),
  B("Power", x, KI(2)), B("Power", x, KI(3)), B("Power", y, KI(-1)), B("Power", x, KI(0)),
  B("Quotient", x, KI(2)), B("Quotient", KI(1), x), B("Quotient", x, pp), B("Quotient", x, y) }
D1Q == { N("Sum", << x, y >>), N("Sum", << x, KI(1) >>), N("Sum", << x, x >>), N("Sum", << pp, x >>),
         N("Product", << KI(2), x >>), N("Product", << x, y >>), N("Product", << x, x >>),
         N("Product", << pp, x >>), B("Power", x, KI(2)), B("Power", y, KI(-1)),
         B("Quotient", x, KI(2)), B("Quotient", KI(1), x) }

HoleT(ty) == [t |-> "Hole", ty |-> ty]
A == HoleT("any")  L == HoleT("leaf")  M == HoleT("mid")  S == HoleT("small")
Mid(h) == {
  N("Sum", << h, h >>), N("Product", << h, h >>), N("Sum", << h, L, h >>), N("Product", << L, h, L >>),

  B("Power", h, KI(2)), B("Power", h, KI(3)), B("Power", h, KI(-1)), B("Power", h, KI(-2)),
  B("Power", h, KI(0)), B("Power", h, KI(1)), B("Quotient", h, L), B("Quotient", L, h),
  B("Quotient", h, h) }
Other(h) == {   \* node kinds outside the polynomial fragment (flatten / fold must cope)
  Cmp(h, "<", h), IfE(bb, h, h), Call(ff, << h >>), B("FloorDiv", h, L), B("Remainder", h, L),
  N("Min", << h, h >>), CSE0(h), B("Sub", tt, h), U("BitNot", h), N("Tup", << h, h >>),
  B("Power", h, h), N("LogAnd", << Cmp(h, "<", L), bb >>), B("LShift", h, KI(1)),
  \* neutral elements as operands of the non-polynomial kinds - literally and as what an operand
  \* flattens / folds to: x % 1 is 0 and x // 1 is floor(x), not x
  B("FloorDiv", h, KI(1)), B("Remainder", h, KI(1)), B("Remainder", h, N("Product", << KI(1), KI(1) >>)),
  B("FloorDiv", h, N("Sum", << KI(1) >>)), B("Remainder", h, N("Sum", << KI(0), KI(1) >>)),
  B("Remainder", KI(1), h), B("FloorDiv", KI(0), h), B("LShift", h, KI(0)), B("RShift", h, KI(0)),
  B("Remainder", h, KI(-1)), B("Quotient", h, N("Product", << KI(1), KI(1) >>)) }
Top(h) == { N("Sum", << h, L >>), N("Product", << h, L >>), N("Product", << L, h >>),
            B("Power", h, KI(2)), B("Quotient", h, L), N("Sum", << h, h >>) }

\* operands that only BECOME a sum (product) through their own folding - neutral factors around
\* a sum, cancelling terms around a product - next to a constant of the enclosing sum (product):
\* the folders must merge what the operand collapsed to
Collapse(h) == {
  N("Sum", << KI(2), L, N("Product", << KI(1), N("Sum", << h, KI(3) >>) >>) >>),
  N("Sum", << KI(1), N("Product", << KI(-1), KI(-1), N("Sum", << h, KI(3) >>) >>) >>),
  N("Sum", << N("Product", << KI(1), N("Sum", << h, KI(3) >>) >>), KI(2) >>),
  N("Sum", << KI(2), B("Power", N("Sum", << h, KI(3) >>), KI(1)) >>),
  N("Product", << KI(3), N("Sum", << KI(1), N("Product", << KI(2), h >>), KI(-1) >>) >>),
  N("Product", << KI(2), L, N("Sum", << KI(0), N("Product", << h, KI(3) >>) >>) >>),
  N("Product", << N("Sum", << KI(0), N("Product", << h, KI(3) >>) >>), KI(2) >>),
  N("Product", << KI(3), B("Power", N("Product", << KI(2), h >>), KI(1)) >>) }

\* a non-sum factor in front of / between / behind two or three sum factors
Sm == HoleT("sum")
Lead == { N("Product", << L, Sm, Sm >>), N("Product", << Sm, L, Sm >>), N("Product", << Sm, Sm, L >>),
          N("Product", << L, Sm, L, Sm >>), N("Product", << L, Sm, Sm, Sm >>),
          N("Sum", << N("Product", << L, Sm, Sm >>), L >>), B("Power", N("Product", << L, Sm, Sm >>), KI(2)) }

\* operands that LOOK like zero to a truth test but are not zero: a power of a zero-like base with
\* a zero (or possibly zero) exponent is 1; next to them the operands that really are zero
ZeroLike == { B("Power", KI(0), KI(0)), B("Power", N("Product", << KI(0), x >>), KI(0)),
              B("Power", B("Quotient", KI(0), x), KI(0)),      \* (0**y with a symbolic exponent is C03-F1's)
              N("Sum", << KI(0) >>), N("Product", << KI(0), x >>), B("Quotient", KI(0), x) }
ZeroLikeRoots == UNION { { N("Sum", << x, f >>), N("Product", << x, f >>), N("Sum", << KI(2), x, f >>),
                           N("Product", << KI(2), x, KI(3), f >>), N("Product", << f, x, N("Sum", << y, KI(1) >>) >>),
                           N("Sum", << f, f >>), B("Power", N("Sum", << x, f >>), KI(2)) } : f \in ZeroLike }

PoolFor(ty) ==
    CASE ty = "sum" -> { N("Sum", << x, KI(1) >>), N("Sum", << y, pp >>), N("Sum", << x, KI(-1), y >>), x }
      [] ty = "any"   -> Leaves \cup (IF Tier = "quick" THEN D1Q ELSE D1)
      [] ty = "leaf"  -> IF Tier = "quick" THEN { x, KI(2) } ELSE { x, pp, KI(2), KI(-1) }
      [] ty = "mid"   -> Mid(S)
      [] ty = "small" -> SmallLeaves \cup (IF Tier = "quick" THEN {} ELSE { N("Sum", << x, KI(1) >>), N("Product", << KI(2), x >>) })

RECURSIVE FirstHoleTy(_)
FirstHoleTy(e) ==
    IF e.t = "Hole" THEN e.ty
    ELSE LET ks == Kids(e)
             RECURSIVE Go(_)
             Go(i) == IF i > Len(ks) THEN "" ELSE
                      LET r == FirstHoleTy(ks[i]) IN IF r # "" THEN r ELSE Go(i + 1)
         IN Go(1)

Roots == Mid(A) \cup Other(A) \cup Top(M) \cup Collapse(A) \cup Lead \cup ZeroLikeRoots \cup Leaves \cup D1
Init == tree \in Roots
Next == /\ NHoles(tree) > 0
        /\ \E s \in PoolFor(FirstHoleTy(tree)) : tree' = FillFirst(tree, s)
Complete == NHoles(tree) = 0

\* model-level sanity of the oracle: ring laws of NF on the generated trees
OracleLaws ==
    Complete =>
      LET r == NF(tree) IN
      ROk(r) => /\ REq(RAdd(r, RNeg(r)), RConst(0, 1)) \in {"EQ", "NA"}
                /\ REq(RMul(r, RConst(1, 1)), r) \in {"EQ", "NA"}
                /\ REq(RMul(r, r), RPow(r, 2)) \in {"EQ", "NA"}
\* design-level check: the transcribed flatten against value preservation and IsFlat
Emit == Complete =>
    /\ PrintT(ToJson([e |-> tree]))
    /\ (FlattenOnModel(tree) = "OK" \/ PrintT(ToJson([design |-> FlattenOnModel(tree), de |-> tree])))
    /\ (FoldOnModel(tree, FALSE) \in {"OK", "SKIP"}
        \/ PrintT(ToJson([design |-> "fold: " \o FoldOnModel(tree, FALSE), de |-> tree])))
    /\ (FoldOnModel(tree, TRUE) \in {"OK", "SKIP"}
        \/ PrintT(ToJson([design |-> "cfold: " \o FoldOnModel(tree, TRUE), de |-> tree])))
=============================================================================
