----------------------------- MODULE C18_Bitmap -----------------------------
(***************************************************************************)
(* A-layer for C18: a transcription of what                                *)
(* pymbolic/geometric_algebra/__init__.py does -- blades as bitmaps        *)
(* (bit i-1 set <=> basis vector i present), canonical_reordering_sign     *)
(* (figure 19.1 of Dorst/Fontijne/Mann), bit_count, the six                *)
(* orthogonal_blade_product_weight functions, _shared_metric_coeff and the *)
(* double loop with zero pruning of MultiVector._generic_product, and the  *)
(* sign tables of rev / invol / inv, inv() as a whole (which inputs it     *)
(* answers), __eq__ as dict equality, and __add__ over the stored data     *)
(* dicts of live objects (what it leaves behind in its operands), and the  *)
(* kind of number (exact / float) the metric entries of a space are,       *)
(* depending on how the space was constructed.                             *)
(*                                                                         *)
(* This layer never decides a verdict on the implementation.  TLC checks   *)
(* that it refines the meaning (C18_Clifford) over the bounded space, and  *)
(* the constant Bug switches in one-line deviations (the negative          *)
(* controls: TLC must then report the refinement invariant violated).      *)
(***************************************************************************)
EXTENDS C18_Clifford
CONSTANT Bug

RECURSIVE BitAnd(_, _), BitXor(_, _), BitCount(_), Pow2(_)
BitAnd(a, b) == IF a = 0 \/ b = 0 THEN 0
                ELSE 2 * BitAnd(a \div 2, b \div 2) + ((a % 2) * (b % 2))
BitXor(a, b) == IF a = 0 THEN b ELSE IF b = 0 THEN a
                ELSE 2 * BitXor(a \div 2, b \div 2) + (((a % 2) + (b % 2)) % 2)
\* bit_count: Kernighan's loop  i &= i - 1
BitCount(i) == IF i = 0 THEN 0 ELSE 1 + BitCount(BitAnd(i, i - 1))
Pow2(k) == IF k = 0 THEN 1 ELSE 2 * Pow2(k - 1)

RECURSIVE BladeToBitsFrom(_, _)
BladeToBitsFrom(b, i) == IF i > Len(b) THEN 0 ELSE Pow2(b[i] - 1) + BladeToBitsFrom(b, i + 1)
BladeToBits(b) == BladeToBitsFrom(b, 1)
RECURSIVE BitsToBladeFrom(_, _)
BitsToBladeFrom(bits, i) ==
    IF bits = 0 THEN << >>
    ELSE IF (bits % 2) = 1 THEN << i >> \o BitsToBladeFrom(bits \div 2, i + 1)
    ELSE BitsToBladeFrom(bits \div 2, i + 1)
BitsToBlade(bits) == BitsToBladeFrom(bits, 1)

\* canonical_reordering_sign(a_bits, b_bits)
CanonSign(a, b) ==
    LET RECURSIVE Loop(_, _)
        Loop(x, s) == IF x = 0 THEN s ELSE Loop(x \div 2, s + BitCount(BitAnd(x, b)))
        start == IF Bug = "crs_noshift" THEN a ELSE a \div 2
    IN  IF (Loop(start, 0) % 2) = 1 THEN -1 ELSE 1

\* _shared_metric_coeff(shared_bits, space)
SharedMetric(shared, g) ==
    LET RECURSIVE Loop(_, _, _)
        Loop(sb, idx, res) ==
            IF sb = 0 THEN res
            ELSE IF (sb % 2) = 1
                 THEN IF Bug = "metric_first_only" THEN res * g[idx + 1]
                      ELSE Loop(sb \div 2, idx + 1, res * g[idx + 1])
                 ELSE Loop(sb \div 2, idx + 1, res)
    IN  Loop(shared, 0, 1)

\* <product class>.orthogonal_blade_product_weight(a_bits, b_bits, space)
Weight(op, a, b, g) ==
    LET sh == BitAnd(a, b) IN
    CASE op = "out" -> IF sh = 0 THEN 1 ELSE 0
      [] op = "geo" -> IF sh # 0 THEN SharedMetric(sh, g) ELSE 1
      [] op = "inn" -> IF (IF Bug = "inner_and" THEN sh = a /\ sh = b ELSE sh = a \/ sh = b)
                       THEN SharedMetric(sh, g) ELSE 0
      [] op = "lc"  -> IF sh = (IF Bug = "lc_swapped" THEN b ELSE a)
                       THEN SharedMetric(sh, g) ELSE 0
      [] op = "rc"  -> IF sh = b THEN SharedMetric(sh, g) ELSE 0
      [] op = "scl" -> IF a = b THEN SharedMetric(a, g) ELSE 0

\* a dict {bits: coeff} is a function; iteration order cannot influence exact
\* rational results, so it is not modelled
DictOf(mv) == LET D == { BladeToBits(x) : x \in DOMAIN mv }
              IN  [k \in D |-> mv[BitsToBlade(k)]]
MVOfDict(d) == LET D == { BitsToBlade(k) : k \in DOMAIN d }
               IN  [x \in D |-> d[BladeToBits(x)]]

\* MultiVector._generic_product: double loop, zero weights pruned, zero sums deleted
GenericProduct(op, sd, od, g) ==
    LET pairs == (DOMAIN sd) \X (DOMAIN od)
        RECURSIVE Acc(_, _)
        Acc(todo, nd) ==
            IF todo = {} THEN nd
            ELSE LET p  == CHOOSE q \in todo : TRUE
                     w  == Weight(op, p[1], p[2], g)
                     nb == BitXor(p[1], p[2])
                 IN  IF w = 0 THEN Acc(todo \ {p}, nd)
                     ELSE LET c   == QMul(QInt(w * CanonSign(p[1], p[2])), QMul(sd[p[1]], od[p[2]]))
                              old == IF nb \in DOMAIN nd THEN nd[nb] ELSE Q0
                              nc  == QAdd(old, c)
                          IN  IF QIsZero(nc) /\ Bug # "no_prune"
                              THEN Acc(todo \ {p}, [k \in (DOMAIN nd) \ {nb} |-> nd[k]])
                              ELSE Acc(todo \ {p}, [k \in (DOMAIN nd) \cup {nb} |->
                                                       IF k = nb THEN nc ELSE nd[k]])
    IN  Acc(pairs, [k \in {} |-> Q0])

ImplProd(op, a, b, g) == MVOfDict(GenericProduct(op, DictOf(a), DictOf(b), g))

\* rev / invol sign tables
ImplRev(a) ==
    [x \in DOMAIN a |->
        LET gr == BitCount(BladeToBits(x))
            tri == IF Bug = "rev_off" THEN (gr * (gr + 1)) \div 2 ELSE (gr * (gr - 1)) \div 2
        IN  IF (tri % 2) = 0 THEN a[x] ELSE QNeg(a[x])]
ImplInvol(a) ==
    [x \in DOMAIN a |-> IF (BitCount(BladeToBits(x)) % 2) = 0 THEN a[x] ELSE QNeg(a[x])]
ImplNormSq(a, g) == ScalarPart(ImplProd("scl", ImplRev(a), a, g))
ImplDual(a, n, g) == ImplProd("inn", a, ImplRev(MVPseudo(n)), g)
\* inv() of a single-term multivector: sign by grade, divided by norm_squared
ImplInvMono(a, g) ==
    LET x   == CHOOSE y \in DOMAIN a : TRUE
        gr  == Len(x)
        c   == IF (((gr * (gr - 1)) \div 2) % 2) = 1 THEN QNeg(a[x]) ELSE a[x]
    IN  Mono(x, QMul(c, QInv(ImplNormSq(a, g))))
\* inv() of a multi-term multivector of pure grade 0, 1 or n
ImplInvPure(a, g) == MVScale(QInv(ImplNormSq(a, g)), a)

\* get_pure_grade(): the single grade of all components, None (-1) when mixed
PureGrade(a) == IF a = MVZero THEN 0
                ELSE IF Cardinality(Grades(a)) = 1 THEN CHOOSE r \in Grades(a) : TRUE
                ELSE -1
\* MultiVector.inv() as a whole: which inputs it answers ([ok |-> TRUE, v |-> value])
\* and which it refuses.  A multi-term input is accepted when it is of pure grade
\* 0, 1 or n and is then only divided by its squared norm (no reverse sign: the
\* reverse of a vector is the vector).  Bug = "inv_any_pure": every pure grade is
\* accepted by that branch.
InvRefuse(why) == [ok |-> FALSE, why |-> why, v |-> MVZero]
ImplInv(a, n, g) ==
    LET ns == ImplNormSq(a, g) IN
    IF a = MVZero THEN InvRefuse("ZeroDivisionError")
    ELSE IF Cardinality(DOMAIN a) > 1
    THEN IF PureGrade(a) \in ({0, 1, n} \cup (IF Bug = "inv_any_pure" THEN 0..n ELSE {}))
         THEN (IF QIsZero(ns) THEN InvRefuse("ZeroDivisionError")
               ELSE [ok |-> TRUE, why |-> "", v |-> MVScale(QInv(ns), a)])
         ELSE InvRefuse("NotImplementedError")
    ELSE IF QIsZero(ns) THEN InvRefuse("ZeroDivisionError")
    ELSE [ok |-> TRUE, why |-> "", v |-> ImplInvMono(a, g)]

\* __eq__: self.data == other.data -- dict equality: the same keys, and the values
\* equal by the coefficients' own == (numbers by value, expression nodes node by
\* node).  ta, tb: term lists << increasing word, coefficient tree >>.
\* Bug = "eq_iszero_diff": coefficients compared through is_zero(c1 - c2); the
\* difference of two numbers is a number, any other difference is an unsimplified
\* expression node, which is_zero does not call zero.
ImplCoefEq(s, t) ==
    IF Bug = "eq_iszero_diff"
    THEN s.k = "num" /\ t.k = "num" /\ QIsZero(QSub(QOf(s.q), QOf(t.q)))
    ELSE NormT(s) = NormT(t)
TreeDict(ts) == LET D == { BladeToBits(x) : x \in TWords(ts) }
                IN  [k \in D |-> TreeAt(ts, BitsToBlade(k))]
ImplEq(ta, tb) ==
    LET da == TreeDict(ta)
        db == TreeDict(tb)
    IN  /\ DOMAIN da = DOMAIN db
        /\ \A k \in DOMAIN da : ImplCoefEq(da[k], db[k])

(* The STORED data dicts of live objects (histories on one instance).  A    *)
(* stored dict is a function bits -> rational in which a key may carry an   *)
(* explicit zero (that is exactly what ==, hash, bool, get_pure_grade and   *)
(* inv() of the real class look at).  __add__ returns a new dict and must   *)
(* leave the dicts of both operands as they are: the unchanged code reads   *)
(* them with dict.get(bits, 0).  Bug = "add_setdefault": the reads are      *)
(* dict.setdefault(bits, 0), which stores the default into the operand.     *)
DGet(d, k) == IF k \in DOMAIN d THEN d[k] ELSE Q0
ImplAddD(sd, od) ==
    LET all  == (DOMAIN sd) \cup (DOMAIN od)
        sum  == [k \in all |-> QAdd(DGet(sd, k), DGet(od, k))]
        keep == { k \in all : ~QIsZero(sum[k]) }
        After(d) == IF Bug = "add_setdefault" THEN [k \in all |-> DGet(d, k)] ELSE d
    IN  [res |-> [k \in keep |-> sum[k]], self |-> After(sd), other |-> After(od)]
ImplNegD(d) == [k \in DOMAIN d |-> QNeg(d[k])]
\* the observations of the class on a stored dict
ImplEqD(d1, d2) == d1 = d2                   \* self.data == other.data
ImplBoolD(d) == DOMAIN d # {}                \* bool(self.data)
ImplPureGradeD(d) ==                         \* get_pure_grade(): -1 stands for None
    LET gs == { BitCount(k) : k \in DOMAIN d }
    IN  IF DOMAIN d = {} THEN 0
        ELSE IF Cardinality(gs) = 1 THEN CHOOSE r \in gs : TRUE ELSE -1
\* inv() looks at len(self.data) and get_pure_grade(): the stored keys, zeros included
ImplInvD(d, n, g) == ImplInv(MVOfDict(d), n, g)

(* Space.__init__ and the KIND of number a product computes with.  How the   *)
(* space was constructed (sm) decides what the metric entries are: an        *)
(* explicitly given metric keeps the (exact) entries it was given; every     *)
(* construction without a metric_matrix -- Space(n), Space(names),           *)
(* get_euclidean_space(n), MultiVector(ndarray) -- builds the Euclidean      *)
(* metric as numpy.eye(n, dtype=object), whose entries are the exact         *)
(* integers 1 and 0.  Bug = "eye_float": numpy.eye(n), whose entries are     *)
(* floats.  A coefficient product that takes a float factor is a float (an   *)
(* approximation); _shared_metric_coeff reads the metric exactly for the     *)
(* basis vectors two blades share, the weight of disjoint blades is the      *)
(* literal 1.                                                                *)
DefaultMetricModes == {"default", "names", "euclid", "nd"}
ImplMetricKind(sm) ==
    IF sm \in DefaultMetricModes /\ Bug = "eye_float" THEN "float" ELSE "exact"
\* some term of the product of the EXACT multivectors a, b is computed with a float
ImplProdInexact(op, a, b, g, mk) ==
    \E p \in (DOMAIN DictOf(a)) \X (DOMAIN DictOf(b)) :
        /\ Weight(op, p[1], p[2], g) # 0
        /\ BitAnd(p[1], p[2]) # 0
        /\ mk = "float"
=============================================================================
