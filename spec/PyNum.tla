------------------------------- MODULE PyNum -------------------------------
(***************************************************************************)
(* M-layer: the fragment of Python's numeric tower that pymbolic's         *)
(* properties talk about, written from the Python language reference and   *)
(* the documentation of fractions.Fraction -- not from pymbolic.           *)
(*                                                                         *)
(* A value is a record                                                     *)
(*    [k |-> "bool"|"int"|"frac"|"flt", n |-> numerator, d |-> denominator]*)
(*    [k |-> "err",  e |-> exception class name, a |-> argument]           *)
(*    [k |-> "unrep"]      outside what TLC can decide (see DESIGN 5.3)     *)
(*    [k |-> "tup"|"list", items |-> <<values>>]                            *)
(*    [k |-> "fn"|"obj", name |-> id]                                       *)
(* Floats are admitted only as exact dyadic rationals.  Every operation is *)
(* magnitude guarded (TLC integers are 32 bit) and answers Unrep beyond    *)
(* the guard; Unrep is never judged.                                       *)
(***************************************************************************)
EXTENDS Integers, Sequences, FiniteSets, TLC

LIMIT == 30000
BIG == 1073741824

Abs(x) == IF x < 0 THEN -x ELSE x
Sgn(x) == IF x < 0 THEN -1 ELSE IF x = 0 THEN 0 ELSE 1
RECURSIVE GcdN(_, _)
GcdN(a, b) == IF b = 0 THEN a ELSE GcdN(b, a % b)
Gcd(a, b) == GcdN(Abs(a), Abs(b))

Err(e) == [k |-> "err", e |-> e, a |-> ""]
ErrA(e, a) == [k |-> "err", e |-> e, a |-> a]
Unrep == [k |-> "unrep"]

NumKinds == {"bool", "int", "frac", "flt"}
IsNum(v) == v.k \in NumKinds
IsErr(v) == v.k = "err"
IsUnrep(v) == v.k = "unrep"
IsIntLike(v) == v.k \in {"bool", "int"}

\* normalised rational of a given kind; d must be non-zero
MkNum(kind, n, d) ==
    LET g == Gcd(n, d)
        s == IF d < 0 THEN -1 ELSE 1
    IN  [k |-> kind, n |-> s * (n \div g), d |-> s * (d \div g)]

IntV(n) == [k |-> "int", n |-> n, d |-> 1]
BoolV(b) == [k |-> "bool", n |-> (IF b THEN 1 ELSE 0), d |-> 1]
FracV(n, d) == MkNum("frac", n, d)
FltV(n, d) == MkNum("flt", n, d)

Small(v) == Abs(v.n) <= LIMIT /\ v.d <= LIMIT
Pow2s == {1, 2, 4, 8, 16, 32, 64, 128, 256, 512, 1024, 2048, 4096, 8192, 16384}
IsPow2(d) == d \in Pow2s
Dyadic(v) == IsPow2(v.d)

\* result kind of + - * %
ArithKind(a, b) ==
    IF a.k = "flt" \/ b.k = "flt" THEN "flt"
    ELSE IF a.k = "frac" \/ b.k = "frac" THEN "frac" ELSE "int"

\* a float result is only modelled when both operands are exactly representable
FltGuard(kd, a, b) == kd # "flt" \/ (Dyadic(a) /\ Dyadic(b))

\* shrink the kind of a value whose magnitude left the guard
Chk(v) == IF IsNum(v) /\ ~Small(v) THEN Unrep ELSE v

NumAdd(a, b) ==
    LET kd == ArithKind(a, b) IN
    IF ~(Small(a) /\ Small(b)) \/ ~FltGuard(kd, a, b) THEN Unrep
    ELSE Chk(MkNum(kd, a.n * b.d + b.n * a.d, a.d * b.d))

NumNeg(a) == [k |-> (IF a.k = "bool" THEN "int" ELSE a.k), n |-> -a.n, d |-> a.d]
NumPos(a) == [k |-> (IF a.k = "bool" THEN "int" ELSE a.k), n |-> a.n, d |-> a.d]

NumSub(a, b) ==
    LET kd == ArithKind(a, b) IN
    IF ~(Small(a) /\ Small(b)) \/ ~FltGuard(kd, a, b) THEN Unrep
    ELSE Chk(MkNum(kd, a.n * b.d - b.n * a.d, a.d * b.d))

NumMul(a, b) ==
    LET kd == ArithKind(a, b) IN
    IF ~(Small(a) /\ Small(b)) \/ ~FltGuard(kd, a, b) THEN Unrep
    ELSE Chk(MkNum(kd, a.n * b.n, a.d * b.d))

\* Python 3 true division: int/int -> float, Fraction involved -> Fraction,
\* float involved -> float
NumTrueDiv(a, b) ==
    IF ~(Small(a) /\ Small(b)) THEN Unrep
    ELSE IF b.n = 0 THEN Err("ZeroDivisionError")
    ELSE LET kd == IF a.k = "flt" \/ b.k = "flt" \/ (IsIntLike(a) /\ IsIntLike(b))
                   THEN "flt" ELSE "frac"
             r  == MkNum(kd, a.n * b.d, a.d * b.n)
         IN  IF kd = "flt" /\ ~(Dyadic(a) /\ Dyadic(b) /\ Dyadic(r)) THEN Unrep
             ELSE Chk(r)

\* floor of the exact quotient a/b, b # 0
FloorQ(a, b) == (a.n * b.d * Sgn(b.n)) \div (a.d * Abs(b.n))

NumFloorDiv(a, b) ==
    IF ~(Small(a) /\ Small(b)) THEN Unrep
    ELSE IF b.n = 0 THEN Err("ZeroDivisionError")
    ELSE LET kd == IF a.k = "flt" \/ b.k = "flt" THEN "flt" ELSE "int" IN
         IF ~FltGuard(kd, a, b) THEN Unrep
         ELSE Chk(MkNum(kd, FloorQ(a, b), 1))

NumMod(a, b) ==
    IF ~(Small(a) /\ Small(b)) THEN Unrep
    ELSE IF b.n = 0 THEN Err("ZeroDivisionError")
    ELSE LET kd == ArithKind(a, b)
             q  == FloorQ(a, b)
         IN  IF ~FltGuard(kd, a, b) \/ Abs(q) > LIMIT THEN Unrep
             \* a - b*q  =  (a.n*b.d - q*b.n*a.d) / (a.d*b.d)
             ELSE Chk(MkNum(kd, a.n * b.d - q * b.n * a.d, a.d * b.d))

\* guarded integer power, BIG when the guard is exceeded
RECURSIVE IPowG(_, _)
IPowG(x, e) ==
    IF e = 0 THEN 1
    ELSE LET r == IPowG(x, e - 1) IN
         IF r = BIG \/ Abs(r) * Abs(x) > LIMIT THEN BIG ELSE r * x

\* x ** e for a rational x and an integer e (|e| small), as <<n, d>> or <<BIG, 1>>
RatPow(x, e) ==
    IF e >= 0 THEN << IPowG(x.n, e), IPowG(x.d, e) >>
    ELSE << IPowG(x.d * Sgn(x.n), -e), IPowG(Abs(x.n), -e) >>

\* exact square roots of small perfect squares (float pow is exact on them)
IsSquare(n) == n >= 0 /\ \E r \in 0..180 : r * r = n
Sqrt(n) == CHOOSE r \in 0..180 : r * r = n
RECURSIVE NumPow(_, _)
NumPow(a, b) ==
    IF ~(Small(a) /\ Small(b)) THEN Unrep
    ELSE IF b.d = 2 THEN
        \* x ** (k/2): a float; modelled when x is a non-negative perfect square (k # 0 odd)
        (IF a.n > 0 /\ IsSquare(a.n) /\ IsSquare(a.d)
         THEN LET r == NumPow(FltV(Sqrt(a.n), Sqrt(a.d)), FltV(b.n, 1)) IN
              IF IsNum(r) /\ Dyadic(a) THEN r ELSE Unrep
         ELSE Unrep)
    ELSE IF b.d # 1 THEN Unrep                         \* irrational / complex territory
    ELSE LET e == b.n IN
    IF Abs(e) > 12 THEN Unrep
    ELSE IF a.n = 0 /\ e < 0 THEN Err("ZeroDivisionError")
    ELSE LET p  == RatPow(a, e)
             kd == IF a.k = "flt" \/ b.k = "flt" THEN "flt"
                   ELSE IF a.k = "frac" THEN "frac"
                   ELSE IF b.k = "frac" THEN (IF e >= 0 THEN "int" ELSE "frac")
                   ELSE (IF e >= 0 THEN "int" ELSE "flt")
         IN  IF p[1] = BIG \/ p[2] = BIG THEN Unrep
             ELSE LET r == MkNum(kd, p[1], p[2]) IN
                  IF kd = "flt" /\ ~(Dyadic(a) /\ Dyadic(r)) THEN Unrep ELSE Chk(r)

Pow2(k) == IPowG(2, k)

NumLShift(a, b) ==
    IF ~(IsIntLike(a) /\ IsIntLike(b)) THEN Err("TypeError")
    ELSE IF b.n < 0 THEN Err("ValueError")
    ELSE IF b.n > 14 \/ ~Small(a) THEN Unrep
    ELSE Chk(IntV(a.n * Pow2(b.n)))

NumRShift(a, b) ==
    IF ~(IsIntLike(a) /\ IsIntLike(b)) THEN Err("TypeError")
    ELSE IF b.n < 0 THEN Err("ValueError")
    ELSE IF b.n > 14 \/ ~Small(a) THEN Unrep
    ELSE IntV(a.n \div Pow2(b.n))

\* two's complement bit operations on unbounded integers
RECURSIVE BAnd(_, _), BOr(_, _), BXor(_, _)
BAnd(a, b) == IF a = 0 \/ b = 0 THEN 0 ELSE IF a = -1 THEN b ELSE IF b = -1 THEN a
              ELSE 2 * BAnd(a \div 2, b \div 2) + (a % 2) * (b % 2)
BOr(a, b)  == IF a = 0 THEN b ELSE IF b = 0 THEN a ELSE IF a = -1 \/ b = -1 THEN -1
              ELSE 2 * BOr(a \div 2, b \div 2) + (IF (a % 2) = 1 \/ (b % 2) = 1 THEN 1 ELSE 0)
BXor(a, b) == IF a = 0 THEN b ELSE IF b = 0 THEN a
              ELSE IF a = -1 THEN -b - 1 ELSE IF b = -1 THEN -a - 1
              ELSE 2 * BXor(a \div 2, b \div 2) + (((a % 2) + (b % 2)) % 2)

BitKind(a, b) == IF a.k = "bool" /\ b.k = "bool" THEN "bool" ELSE "int"
NumBit(op, a, b) ==
    IF ~(IsIntLike(a) /\ IsIntLike(b)) THEN Err("TypeError")
    ELSE IF ~(Small(a) /\ Small(b)) THEN Unrep
    ELSE [k |-> BitKind(a, b),
          n |-> CASE op = "and" -> BAnd(a.n, b.n)
                  [] op = "or"  -> BOr(a.n, b.n)
                  [] op = "xor" -> BXor(a.n, b.n),
          d |-> 1]

NumInvert(a) == IF ~IsIntLike(a) THEN Err("TypeError") ELSE IntV(-a.n - 1)

\* three-way comparison of the exact values
NumCmp3(a, b) == Sgn(a.n * b.d - b.n * a.d)
CmpHolds(op, c) ==
    CASE op = "==" -> c = 0   [] op = "!=" -> c # 0
      [] op = "<"  -> c < 0   [] op = "<=" -> c <= 0
      [] op = ">"  -> c > 0   [] op = ">=" -> c >= 0
NumCompare(op, a, b) ==
    IF ~(Small(a) /\ Small(b)) THEN Unrep ELSE BoolV(CmpHolds(op, NumCmp3(a, b)))

RECURSIVE ValEq(_, _)
ValEq(a, b) ==
    IF IsNum(a) /\ IsNum(b) THEN a.n * b.d = b.n * a.d
    ELSE IF a.k \in {"tup", "list"} /\ b.k = a.k
         THEN Len(a.items) = Len(b.items)
              /\ \A i \in 1..Len(a.items) : ValEq(a.items[i], b.items[i])
    ELSE a.k = b.k /\ a = b

\* truth value of a Python object (numbers and sequences)
Truthy(v) == IF IsNum(v) THEN v.n # 0
             ELSE IF v.k \in {"tup", "list"} THEN Len(v.items) > 0 ELSE TRUE

(***************************************************************************)
(* Binary operators by name, on values that may be non-numeric.            *)
(* Sequence concatenation/repetition is not modelled (Unrep).              *)
(***************************************************************************)
BinOps == {"+", "-", "*", "/", "//", "%", "**", "<<", ">>", "&", "|", "^"}

PyBin(op, a, b) ==
    IF IsUnrep(a) \/ IsUnrep(b) THEN Unrep
    ELSE IF IsErr(a) THEN a
    \* "words": elements of a free monoid, the non-commuting witness of C03 / C11 / C19
    \* ([k |-> "word", w |-> sequence of letters]); only * is defined, 1 is neutral
    ELSE IF a.k = "word" THEN
        (IF IsErr(b) THEN b
         ELSE IF op = "*" /\ b.k = "word" THEN [k |-> "word", w |-> a.w \o b.w]
         ELSE IF op = "*" /\ IsNum(b) /\ b.n = b.d THEN a
         ELSE Unrep)
    ELSE IF ~IsNum(a) THEN Unrep
    ELSE IF IsErr(b) THEN b
    ELSE IF b.k = "word" THEN (IF op = "*" /\ a.n = a.d THEN b ELSE Unrep)
    ELSE IF ~IsNum(b) THEN Unrep
    ELSE CASE op = "+"  -> NumAdd(a, b)
           [] op = "-"  -> NumSub(a, b)
           [] op = "*"  -> NumMul(a, b)
           [] op = "/"  -> NumTrueDiv(a, b)
           [] op = "//" -> NumFloorDiv(a, b)
           [] op = "%"  -> NumMod(a, b)
           [] op = "**" -> NumPow(a, b)
           [] op = "<<" -> NumLShift(a, b)
           [] op = ">>" -> NumRShift(a, b)
           [] op = "&"  -> NumBit("and", a, b)
           [] op = "|"  -> NumBit("or", a, b)
           [] op = "^"  -> NumBit("xor", a, b)

PyCompare(op, a, b) ==
    IF IsUnrep(a) \/ IsUnrep(b) THEN Unrep
    ELSE IF IsErr(a) THEN a ELSE IF IsErr(b) THEN b
    ELSE IF IsNum(a) /\ IsNum(b) THEN NumCompare(op, a, b)
    ELSE IF op = "==" THEN BoolV(a.k = b.k /\ ValEq(a, b))
    ELSE IF op = "!=" THEN BoolV(~(a.k = b.k /\ ValEq(a, b)))
    ELSE Unrep

PyUn(op, a) ==
    IF IsUnrep(a) \/ IsErr(a) THEN a
    ELSE IF op = "not" THEN BoolV(~Truthy(a))
    ELSE IF ~IsNum(a) THEN Unrep
    ELSE CASE op = "-" -> NumNeg(a) [] op = "+" -> NumPos(a) [] op = "~" -> NumInvert(a)

(***************************************************************************)
(* Sanity laws of the oracle itself; checked by TLC over a box of values   *)
(* in C02's model run (a wrong oracle must show up there, not as a bogus   *)
(* violation of pymbolic).                                                 *)
(***************************************************************************)
DivModLaw(a, b) ==
    LET q == NumFloorDiv(a, b) r == NumMod(a, b) IN
    (IsNum(q) /\ IsNum(r)) =>
        LET back == NumAdd(NumMul(q, b), r) IN IsNum(back) => ValEq(back, a)
ModSignLaw(a, b) ==
    LET r == NumMod(a, b) IN IsNum(r) => (r.n = 0 \/ Sgn(r.n) = Sgn(b.n))
ShiftLaw(a, k) ==
    LET s == NumLShift(a, k) IN
    (IsNum(s) /\ IsNum(k) /\ k.n >= 0) => ValEq(s, NumMul(a, IntV(Pow2(k.n))))
DeMorganLaw(a, b) ==
    (IsIntLike(a) /\ IsIntLike(b)) =>
        NumInvert(NumBit("and", a, b)).n = NumBit("or", NumInvert(a), NumInvert(b)).n
XorLaw(a, b) ==
    (IsIntLike(a) /\ IsIntLike(b)) =>
        NumBit("xor", a, b).n = NumBit("or", a, b).n - NumBit("and", a, b).n
=============================================================================
