------------------------------ MODULE C02_Hist ------------------------------
(***************************************************************************)
(* S-layer for C02: ONE evaluation mapper (one environment) over a history *)
(* of build / evaluate / drop operations on expressions that carry common   *)
(* subexpressions.  The mapper keeps a per-instance cache of CSE results    *)
(* (CSECachingMapperMixin._cse_cache_dict); the property says a common      *)
(* subexpression means its child, so every evaluation in every history      *)
(* must return Eval(expression, env) - whatever was evaluated, and freed,   *)
(* before.                                                                  *)
(*                                                                          *)
(* The model has the heap in it: every CSE node of a live expression        *)
(* occupies an address, dropping the expression frees the addresses nobody  *)
(* else holds, and a later build reuses them (lowest free first).  The      *)
(* cache is keyed                                                           *)
(*    KeyMode = "value"   by the CSE node itself (what the code does: the   *)
(*                        dict holds a reference, so the node stays alive)  *)
(*    KeyMode = "address" by the node's address (negative control: TLC      *)
(*                        must find the stale hit after a free + reuse).    *)
(*                                                                          *)
(* Every complete history is printed; the driver replays it on one real     *)
(* EvaluationMapper and one real CachedEvaluationMapper per environment and *)
(* C02_Judge judges every evaluation step against Eval.                     *)
(***************************************************************************)
EXTENDS C02_Env, Json
CONSTANTS KeyMode, MaxOps
VARIABLES live, used, cache, hist, wrong

x == V("x")  y == V("y")  z == V("z")
c(k) == CSE0(N("Sum", << x, KI(k) >>))
Pool == <<
  N("Sum", << N("Product", << c(1), c(1) >>), y >>),
  N("Sum", << N("Product", << c(2), c(2) >>), y >>),
  N("Product", << CSE0(N("Product", << x, y >>)), KI(2) >>),
  \* an error-valued child (z = 0 in one environment): nothing may be cached for it
  B("Quotient", CSE0(B("Quotient", y, z)), KI(2)),
  \* same child as Pool[1]'s CSE under another prefix, wrapped once more
  N("Sum", << CSE(c(1), "p", "pymbolic_eval"), x >>)
>>
Slots == {1, 2}
Addrs == 1..4
NoExpr == [i |-> 0, am |-> << >>]
NE == Len(Envs)

CSEs(e) == { s \in SubExprs(e) : s.t = "CSE" }
\* CSE nodes innermost first (by size; ties cannot nest)
RECURSIVE SortBySize(_)
SortBySize(S) == IF S = {} THEN << >>
                 ELSE LET m == CHOOSE s \in S : \A o \in S : Size(s) <= Size(o)
                      IN << m >> \o SortBySize(S \ {m})

RECURSIVE Replace(_, _, _)
Replace(e, what, by) ==
    IF e = what THEN by
    ELSE LET ks == Kids(e) IN WithKids(e, [i \in 1..Len(ks) |-> Replace(ks[i], what, by)])

Key(s, am) == IF KeyMode = "value" THEN s ELSE am[s]
Keys == { p[1] : p \in cache }
Cached(k) == (CHOOSE p \in cache : p[1] = k)[2]

\* what one evaluation of expression e does to the cache, and what it returns, in environment ei:
\* CSE nodes are met innermost first; a hit returns the stored value, a miss evaluates the child
\* (with the inner CSEs already replaced by their values) and stores it unless it raised
RECURSIVE Walk(_, _, _, _, _)
Walk(e, order, am, ei, cch) ==      \* order: << [orig, cur] >>, cur = orig with inner CSEs already valued
    IF order = << >> THEN [v |-> Eval(e, Envs[ei]), cache |-> cch]
    ELSE LET s == Head(order)
             k == Key(s.orig, am)
             hit == \E p \in cch : p[1] = k /\ p[2] = ei
             v == IF hit THEN (CHOOSE p \in cch : p[1] = k /\ p[2] = ei)[3]
                  ELSE Eval(s.cur.a, Envs[ei])
         IN  IF IsErr(v) \/ IsUnrep(v) THEN [v |-> v, cache |-> cch]
             ELSE Walk(Replace(e, s.cur, K(v)),
                       [j \in 1..(Len(order) - 1) |->
                            [orig |-> order[j + 1].orig, cur |-> Replace(order[j + 1].cur, s.cur, K(v))]],
                       am, ei, IF hit THEN cch ELSE cch \cup { << k, ei, v >> })
Order(e) == LET o == SortBySize(CSEs(e)) IN [j \in 1..Len(o) |-> [orig |-> o[j], cur |-> o[j]]]

Init == /\ live = [s \in Slots |-> NoExpr]
        /\ used = {}
        /\ cache = {}
        /\ hist = << >>
        /\ wrong = FALSE

FreeAddrs == Addrs \ used
RECURSIVE Alloc(_, _)
Alloc(nodes, free) ==   \* lowest free address first, innermost node first
    IF nodes = << >> THEN << >>
    ELSE LET a == CHOOSE a \in free : \A b \in free : a <= b
         IN << a >> \o Alloc(Tail(nodes), free \ {a})

Build(s, i) ==
    /\ live[s] = NoExpr /\ \A o \in Slots : o < s => live[o] # NoExpr   \* lowest empty slot
    /\ LET nodes == SortBySize(CSEs(Pool[i]))
       IN /\ Cardinality(FreeAddrs) >= Len(nodes)
          /\ LET as == Alloc(nodes, FreeAddrs)
                 am == [n \in CSEs(Pool[i]) |->
                          as[CHOOSE j \in 1..Len(nodes) : nodes[j] = n]]
             IN /\ live' = [live EXCEPT ![s] = [i |-> i, am |-> am]]
                /\ used' = used \cup { as[j] : j \in 1..Len(as) }
    /\ hist' = Append(hist, [op |-> "build", s |-> s, i |-> i])
    /\ UNCHANGED << cache, wrong >>

\* the whole cache after evaluating in every environment (one mapper per environment: the
\* cache entries carry the environment index)
RECURSIVE EvalAll(_, _, _, _)
EvalAll(e, am, ei, cch) ==
    IF ei > NE THEN [cache |-> cch, bad |-> FALSE]
    ELSE LET r == Walk(e, Order(e), am, ei, cch)
             m == Eval(e, Envs[ei])
             ok == IsUnrep(m) \/ IsUnrep(r.v) \/ (IsErr(m) /\ IsErr(r.v))
                   \/ (~IsErr(m) /\ ~IsErr(r.v) /\ ValEq(m, r.v))
             rest == EvalAll(e, am, ei + 1, r.cache)
         IN [cache |-> rest.cache, bad |-> rest.bad \/ ~ok]

Evaluate(s) ==
    /\ live[s] # NoExpr
    /\ LET r == EvalAll(Pool[live[s].i], live[s].am, 1, cache)
       IN cache' = r.cache /\ wrong' = (wrong \/ r.bad)
    /\ hist' = Append(hist, [op |-> "eval", s |-> s, i |-> live[s].i])
    /\ UNCHANGED << live, used >>

Drop(s) ==
    /\ live[s] # NoExpr
    /\ LET am == live[s].am
           other == UNION { { live[o].am[n] : n \in DOMAIN live[o].am } : o \in Slots \ {s} }
           \* a node that is a key of the cache is kept alive by the cache
           held == IF KeyMode = "value"
                   THEN { am[n] : n \in { n \in DOMAIN am : \E p \in cache : p[1] = n } }
                   ELSE {}
       IN used' = (used \ { am[n] : n \in DOMAIN am }) \cup held \cup other
    /\ live' = [live EXCEPT ![s] = NoExpr]
    /\ hist' = Append(hist, [op |-> "drop", s |-> s, i |-> live[s].i])
    /\ UNCHANGED << cache, wrong >>

Next == /\ Len(hist) < MaxOps
        /\ \/ \E s \in Slots, i \in 1..Len(Pool) : Build(s, i)
           \/ \E s \in Slots : Evaluate(s)
           \/ \E s \in Slots : Drop(s)

\* the property on the design: a CSE means its child, in every history
EveryEvaluationIsTheMeaning == ~wrong

\* the cache never holds anything but the child's meaning (value mode: the key is the node)
CacheCoherent ==
    KeyMode = "value" => \A p \in cache : ValEq(p[3], Eval(p[1].a, Envs[p[2]]))

NEvals == Cardinality({ j \in 1..Len(hist) : hist[j].op = "eval" })
Emit == (Len(hist) = MaxOps /\ hist[MaxOps].op = "eval" /\ NEvals >= 2)
            => PrintT(ToJson([hist |-> hist]))
ASSUME PrintT(ToJson([pool |-> Pool]))
=============================================================================
