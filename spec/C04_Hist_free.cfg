CONSTANTS
  KeyMode = "full"
  Tier = "quick"
  MaxCalls = 3
  Free = TRUE
  Bug = "none"
INIT Init
NEXT Next
INVARIANT EveryCallIsTheMeaning
INVARIANT ModelWalkAccepted
INVARIANT CacheCoherent
CHECK_DEADLOCK FALSE
