INIT JInit
NEXT JNext
INVARIANT Report
CHECK_DEADLOCK FALSE
CONSTANT Tier = "quick"
