------------------------------ MODULE C04_WGen ------------------------------
(***************************************************************************)
(* Stage (1) for the traversal half of C04.  TLC enumerates expression     *)
(* trees: every node kind as root (with its arities / omitted slice parts  *)
(* / keyword arguments), plain leaves in the open positions, and one       *)
(* "item" - any inner node kind with plain leaves, or a special leaf (zero *)
(* / typed constants, wildcards, NaN, function symbol, user node classes,  *)
(* an invalid foreign object) - in one of the positions (quick: item i in  *)
(* position i mod arity; thorough: every position); plus hand-picked trees *)
(* with Python-equal twin subtrees for the memoising variants; tier        *)
(* "random" (-simulate): up to six items anywhere, nested to any depth.    *)
(* User node classes (C04_UCls: rooted at Expression / AlgebraicLeaf /     *)
(* Leaf, one or two user levels, with and without expression fields) occur *)
(* as items and as roots; their trees are run on every stock traversal x   *)
(* every subset of the handler names on the class's resolution order as    *)
(* the handlers the user adds to the traversal.                            *)
(* For every tree it computes the list of                                  *)
(* traversal configurations to run (mapper family x extra arguments x      *)
(* visit-answer pattern x renamed leaves) and checks on the model that     *)
(*   - the occurrence numbering is the preorder,                           *)
(*   - the canonical walk for every configured visit-answer pattern is     *)
(*     accepted by the stack acceptor and satisfies the declarative        *)
(*     contract (the acceptor's general equivalence with the contract is   *)
(*     C04_WalkModel's job),                                               *)
(*   - the identity / combine contracts are satisfiable (the expected      *)
(*     result passes them).                                                *)
(***************************************************************************)
EXTENDS C04_Walk, C04_UCls, Json
CONSTANT Tier
VARIABLES tree, budget, nh, pos, inner

H == Hole
\* an instance of user node class u with open positions for its expression fields
UItem(u) == UN(u, [i \in 1..UClasses[u].ar |-> H])
UserItems == [u \in 1..NU |-> UItem(u)]
NaryRoot == {"Sum", "Product", "BitOr", "BitXor", "BitAnd", "LogOr", "LogAnd", "Min", "Max",
             "Tup", "List", "USum", "Arr", "MV"}
BinRoot  == {"Quotient", "FloorDiv", "Remainder", "Power", "LShift", "RShift", "Sub"}

Roots ==
       { N(k, << H, H >>) : k \in NaryRoot }
  \cup { N(k, << >>) : k \in {"Sum", "Tup", "List", "Min"} }
  \cup { N(k, << H >>) : k \in {"Sum", "Product", "Tup", "LogAnd"} }
  \cup { N(k, << H, H, H >>) : k \in {"Sum", "Max", "Tup", "List", "BitXor", "Arr"} }
  \cup { N("Slice", c) : c \in { << >>, << H >>, << H, H >>, << H, H, H >>, << NoneE, H >>,
                                << H, NoneE >>, << NoneE, NoneE, H >>, << H, NoneE, NoneE >>,
                                << NoneE, H, NoneE >>, << NoneE >>, << H, NoneE, H >> } }
  \cup { B(k, H, H) : k \in BinRoot }
  \cup { Cmp(H, op, H) : op \in {"<", "=="} }
  \cup { U(k, H) : k \in {"BitNot", "LogNot"} }
  \cup { IfE(H, H, H) }
  \cup { Call(H, << >>), Call(H, << H >>), Call(H, << H, H >>) }
  \cup { CallKw(H, << >>, << KwArg("k1", H) >>), CallKw(H, << H >>, << KwArg("k1", H) >>),
         CallKw(H, << H >>, << KwArg("k2", H), KwArg("k1", H) >>),
         CallKw(H, << H, H >>, << >>) }
  \cup { Look(H, "attr"), CSE(H), CSEp(H, "pre", "pymbolic_global"),
         Deriv(H, << "x" >>), Deriv(H, << "x", "y" >>),
         Subst(H, << "x" >>, << H >>), Subst(H, << "x", "y" >>, << H, H >>), Subst(H, << >>, << >>) }
  \cup { UItem(u) : u \in 1..NU }

\* items: one inner node of every kind (its own positions are filled with plain leaves) ...
InnerItems == <<
  N("Sum", << H, H >>), N("Product", << H, H >>), N("BitOr", << H, H >>), N("BitXor", << H, H >>),
  N("BitAnd", << H, H >>), N("LogOr", << H, H >>), N("LogAnd", << H, H >>), N("Min", << H, H >>),
  N("Max", << H, H >>), N("Tup", << H, H >>), N("List", << H, H >>), N("USum", << H, H >>),
  N("Arr", << H, H >>), N("MV", << H, H >>), N("Sum", << >>), N("Tup", << >>),
  N("Slice", << H, NoneE, H >>), N("Slice", << NoneE, H >>),
  B("Quotient", H, H), B("FloorDiv", H, H), B("Remainder", H, H), B("Power", H, H),
  B("LShift", H, H), B("RShift", H, H), B("Sub", H, H), Cmp(H, "<=", H),
  U("BitNot", H), U("LogNot", H), Look(H, "attr"), CSE(H), CSEp(H, "pre", "pymbolic_expr"),
  Deriv(H, << "x" >>), IfE(H, H, H), Call(H, << H >>), Call(H, << >>),
  CallKw(H, << H >>, << KwArg("k1", H) >>), CallKw(H, << >>, << KwArg("k2", H), KwArg("k1", H) >>),
  Subst(H, << "x" >>, << H >>) >>
\* ... and the special leaves
LeafItems == <<
  KAuto, KI(0), KV("bool", 0, 1), KV("bool", 1, 1), KV("flt", 5, 2), KV("flt", 0, 1),
  KV("cplx", 1, 2), KV("npint", 7, 1), KV("npflt", 3, 2), KV("frac", 1, 2), StrE("s"),
  Wild("Wildcard", ""), Wild("DotWildcard", "w"), Wild("StarWildcard", "w"), FunSym, NaNE,
  ULeaf, UVar(""), V("x") >>
Items == InnerItems \o LeafItems \o UserItems

x == V("x")  y == V("y")
TwinRoots == {
  N("Sum", << x, x >>),
  N("Product", << N("Sum", << x, y >>), N("Sum", << x, y >>) >>),
  Call(V("f"), << V("f"), V("f") >>),
  N("Tup", << KI(1), KV("bool", 1, 1), KV("flt", 1, 1) >>),
  N("Sum", << N("Product", << KI(1), x >>), N("Product", << KV("bool", 1, 1), x >>) >>),
  IfE(V("c"), CSE(x), CSE(x)),
  N("Sum", << CSE(x), CSE(x), x >>),
  B("Power", N("Sum", << x, KI(2) >>), N("Sum", << x, KV("flt", 2, 1) >>)),
  CallKw(V("f"), << x >>, << KwArg("k1", x) >>),
  N("Max", << Look(x, "attr"), Look(x, "attr"), Look(x, "other") >>) }

ItemBudget == IF Tier = "random" THEN 6 ELSE 1
Init == /\ tree \in Roots \cup TwinRoots
        /\ budget = ItemBudget /\ nh = NHoles(tree) /\ pos = 0 /\ inner = 0

\* quick: item number i goes to root position (i mod nh) + 1 only; thorough: everywhere
\* (user node items: quick - below a selection of root kinds only, nothing but plain leaves
\* below a user node root; thorough - every position of the wider selection, one position of
\* every other root)
UserHosts == {"Sum", "Call", "CallKw", "If", "CSE", "Tup", "Quotient"}
UserHostsMore == UserHosts \cup {"Power", "Slice", "Sub", "UNode"}
ItemAllowedAt(i, p) ==
    IF Tier = "quick"
    THEN /\ (i % nh) + 1 = p
         /\ tree.t # "UNode"
         /\ Items[i].t = "UNode" => tree.t \in UserHosts
    ELSE /\ Items[i].t = "UNode" => (tree.t \in UserHostsMore \/ (i % nh) + 1 = p)
         /\ tree.t = "UNode" => (Items[i].t = "UNode" \/ ((i % nh) + 1 = p /\ i % 3 = 0))
\* objects CPython shares: equal small constants, the empty tuple, equal strings - two
\* occurrences would be one object and the occurrence numbers could not be told apart
NoSameConst(s) ==
    /\ s.t = "Const" => \A q \in SeqToSet(Pre(tree)) : q.t = "Const" => q.v # s.v
    /\ (s.t = "Tup" /\ Len(s.c) = 0) => \A q \in SeqToSet(Pre(tree)) : ~(q.t = "Tup" /\ Len(q.c) = 0)
    /\ s.t = "Str" => \A q \in SeqToSet(Pre(tree)) : q.t # "Str"
FillWith(s, cost) ==
    /\ NoSameConst(s)      \* equal small constants would be the same Python object
    /\ tree' = FillFirst(tree, s)
    /\ budget' = budget - cost
    /\ IF inner > 0 THEN inner' = inner - 1 + NHoles(s) /\ pos' = pos
       ELSE inner' = NHoles(s) /\ pos' = pos + 1
    /\ UNCHANGED nh
ExhNext ==
    /\ NHoles(tree) > 0
    /\ \/ FillWith(VAuto, 0)
       \/ /\ budget = ItemBudget /\ inner = 0
          /\ \E i \in 1..Len(Items) : ItemAllowedAt(i, pos + 1) /\ FillWith(Items[i], 1)
\* -simulate: beyond the exhaustive bounds - up to six items anywhere, nested to any depth;
\* the draws are made here so that every step of every behaviour draws anew
RandNext ==
    /\ NHoles(tree) > 0
    /\ LET coin == RandomElement(1..5)
           it == Items[RandomElement(1..Len(Items))]
           \* at most two instances of user node classes per tree (the handler subsets multiply)
           nUser == Cardinality({ i \in 1..Len(Pre(tree)) : Pre(tree)[i].t = "UNode" })
       IN IF coin <= 2 /\ budget > 0 /\ NoSameConst(it) /\ (it.t = "UNode" => nUser < 2)
          THEN FillWith(it, 1) ELSE FillWith(VAuto, 0)
Next == IF Tier = "random" THEN RandNext ELSE ExhNext

Complete == NHoles(tree) = 0

\* ------------------------------------------------------------------ configurations
AP0 == [a |-> << >>, k |-> << >>]
AP1 == [a |-> << 1 >>, k |-> << >>]
AP2 == [a |-> << 1, 2 >>, k |-> << [k |-> "tag", v |-> 7] >>]
AP3 == [a |-> << >>, k |-> << [k |-> "tag", v |-> 7] >>]
\* impl: the handlers for user node classes the user's subclass of the traversal adds
CfgU(fam, ap, F, R, impl) == [fam |-> fam, a |-> ap.a, k |-> ap.k, F |-> F, R |-> R, impl |-> impl]
Cfg(fam, ap, F, R) == CfgU(fam, ap, F, R, << >>)
SetToSeq(S) == LET RECURSIVE Go(_) Go(X) == IF X = {} THEN << >>
                                            ELSE LET m == CHOOSE m \in X : TRUE IN << m >> \o Go(X \ {m})
               IN Go(S)
IsPlain(t) == \A i \in 2..Len(Pre(t)) : Pre(t)[i].t = "Var" /\ Pre(t)[i].name # "x"
InnerIds(t) == { i \in 2..Len(Pre(t)) : Len(WKids(Pre(t)[i])) > 0 }
VarNames(t) == { Pre(t)[i].name : i \in { j \in 1..Len(Pre(t)) : Pre(t)[j].t \in {"Var", "UVar"} } }
LastVar(t) == LET is == { j \in 1..Len(Pre(t)) : Pre(t)[j].t \in {"Var", "UVar"} } IN
              IF is = {} THEN {} ELSE { Pre(t)[CHOOSE j \in is : \A j2 \in is : j2 <= j].name }
WalkFams == {"walk", "cwalk"}
AllFams == {"walk", "cwalk", "ident", "cident", "comb", "ccomb", "coll", "ccoll", "cbident"}

\* the memoising variants differ from the plain ones only through the cache: in the quick tier
\* they are run where that can matter (twins) and on the shallow trees
QuickSet(t) ==
         { Cfg("walk", AP2, << >>, << >>), Cfg("ident", AP2, << >>, << >>),
           Cfg("coll", AP2, << >>, << >>), Cfg("cbident", AP2, << >>, << >>) }
    \cup (IF InnerIds(t) = {} \/ HasTwins(t)
          THEN { Cfg("cwalk", AP2, << >>, << >>), Cfg("cident", AP2, << >>, SetToSeq(LastVar(t))),
                 Cfg("ccomb", AP2, << >>, << >>) }
          ELSE { Cfg("cwalk", AP2, << >>, << >>) })
    \cup { Cfg("walk", AP2, << n >>, << >>) : n \in InnerIds(t) \cup (IF Len(Pre(t)) > 1 THEN {2} ELSE {}) }
    \cup { Cfg("ident", AP2, << >>, SetToSeq(LastVar(t))) }
    \cup (IF IsPlain(t)
          THEN { Cfg(f, ap, << >>, << >>) : f \in AllFams, ap \in {AP0, AP1, AP3} }
               \cup { Cfg(f, AP2, << >>, << >>) : f \in {"comb", "ccoll"} }
               \cup { Cfg(f, AP1, << 1 >>, << >>) : f \in WalkFams }
               \cup { Cfg("cbident", AP1, << >>, SetToSeq(LastVar(t))) }
          ELSE {})
MoreSet(t) ==
         { Cfg("walk", AP2, << n >>, << >>) : n \in 1..Len(Pre(t)) }
    \cup { Cfg("cwalk", AP1, << n >>, << >>) : n \in InnerIds(t) }
    \cup UNION { { Cfg("walk", AP1, << n, m >>, << >>) : m \in { q \in InnerIds(t) : q > n } } : n \in InnerIds(t) }
    \cup { Cfg(f, AP2, << >>, << nm >>) : f \in {"ident", "cbident"}, nm \in VarNames(t) }
    \cup { Cfg(f, AP1, << >>, SetToSeq(VarNames(t))) : f \in {"ident", "cident"} }
    \cup { Cfg(f, AP1, << >>, << >>) : f \in {"comb", "ccoll", "coll", "cbident"} }
    \cup { Cfg(f, AP3, << >>, << >>) : f \in {"walk", "cident"} }
\* trees with instances of user node classes: every traversal x every set of handlers the user
\* may add for the classes on their resolution orders (quick: at most one handler, or all);
\* the callback mapper has no place for user handlers
UsersOf(t) == { Pre(t)[i].u : i \in { j \in 1..Len(Pre(t)) : Pre(t)[j].t = "UNode" } }
ImplChoices(t) ==
    LET Uni == UNION { UUniverse(u) : u \in UsersOf(t) }
        nu == Cardinality(Uni) IN
    IF Tier = "quick" THEN { I \in SUBSET Uni : Cardinality(I) <= 1 \/ I = Uni }
    ELSE { I \in SUBSET Uni : Cardinality(I) <= 1 \/ Cardinality(I) >= nu - 1 }
FewImpls(t) == IF Tier = "quick" THEN { UNION { UUniverse(u) : u \in UsersOf(t) } }
               ELSE { {}, UNION { UUniverse(u) : u \in UsersOf(t) } }
UserSet(t) ==
         { CfgU(f, AP2, << >>, << >>, SetToSeq(I)) : f \in AllFams \ {"cbident"}, I \in ImplChoices(t) }
    \cup { CfgU("cbident", AP2, << >>, << >>, << >>) }
    \cup { CfgU("walk", AP1, << n >>, << >>, SetToSeq(I)) :
             n \in { i \in 1..Len(Pre(t)) : Pre(t)[i].t = "UNode" }, I \in FewImpls(t) }
    \cup { CfgU("ident", AP3, << >>, SetToSeq(LastVar(t)), SetToSeq(I)) : I \in FewImpls(t) }
ConfigSet(t) == IF UsersOf(t) # {}
                THEN UserSet(t)
                ELSE IF Tier = "quick" THEN QuickSet(t) ELSE QuickSet(t) \cup MoreSet(t)

\* ------------------------------------------------------------------ checked on the model
\* (one invariant, so that the numbered tree and its configurations are computed once)
NumberingIsPreorder(t) ==
    LET p == Pre(t) IN
    /\ \A i \in 1..Len(p) : p[i].id = i
    /\ Len(p) = Size(t) /\ Len(p) = Size(tree)
    /\ \A i \in 1..Len(p) : p[i].t \in {"Var", "UVar"} => p[i].name # ""
CanonicalWalksAccepted(t, cs) ==
    LET tab == Tab(t)
        Fs == { SeqToSet(c.F) : c \in cs }
    IN \A F \in Fs : LET w == WalkOf(tab, 1, F) IN Accepts(tab, w) /\ MDFS(w, tab)
ContractsSatisfiable(t, cs) ==
    LET Rs == { SeqToSet(c.R) : c \in cs }  ct == ClsTab(t) IN
    /\ \A R \in Rs :
         /\ IdentityTreeOK(t, R, ZeroIds(Rename(t, R)))
         /\ SameWhy(t, R, ~ChangedBelow(t, R), FALSE) = ""
    /\ CombineWhy(t, ct, FALSE, ContributingLeaves(t)) = ""
    /\ CombineWhy(t, ct, TRUE, { ct[i] : i \in ContributingLeaves(t) }) = ""

\* the transcription of Mapper.__call__ finds the handler the statement names for every user
\* class in the tree and every set of added handlers - also with the base class's stub
\* map_algebraic_leaf (which raises) counted as implemented
UserDispatchOK(t, cs) ==
    \A u \in UsersOf(t) : \A I \in { SeqToSet(c.impl) : c \in cs } :
        LET nm == UNames(u) IN
        /\ UTargetImpl(u, I) = UTarget(u, I)
        /\ UTarget(u, I) = "unsupported" <=> \A k \in 1..Len(nm) : nm[k] \notin I
        /\ UTarget(u, I) = "unsupported" =>
              D!DispatchImpl(ULineage(u), I \cup {"map_algebraic_leaf"}) \in {"unsupported", "map_algebraic_leaf"}

ModelOK == Complete =>
    LET t == Numbered(tree)  cs == ConfigSet(t) IN
    /\ NumberingIsPreorder(t)
    /\ CanonicalWalksAccepted(t, cs)
    /\ ContractsSatisfiable(t, cs)
    /\ UserDispatchOK(t, cs)
    /\ PrintT(ToJson([tree |-> t, cfgs |-> SetToSeq(cs)]))

ASSUME PrintT(ToJson([uclasses |-> UClassesJson]))
=============================================================================
