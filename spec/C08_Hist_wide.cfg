CONSTANT Merge = "copy"
CONSTANT MaxOps = 2
CONSTANT NPairs = 6
CONSTANT NTrees = 3
CONSTANT NKw = 5
CONSTANT WithPut = FALSE
CONSTANT Filter = FALSE
CONSTANT Rand = FALSE
INIT Init
NEXT Next
INVARIANT CallerMapsUnchanged
INVARIANT EveryCallMeansItsArguments
INVARIANT Emit
CHECK_DEADLOCK FALSE
