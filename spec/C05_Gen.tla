------------------------------- MODULE C05_Gen -------------------------------
(***************************************************************************)
(* Stage (1) for C05, memoization part.                                    *)
(*                                                                         *)
(* A state is a call history on ONE mapper instance: hist = sequence of    *)
(* (pool index, argument-tuple index); different orders are different      *)
(* states, all histories up to MaxLen are explored (G-hist), -simulate     *)
(* walks longer random ones.  For every modelled mapper kind the state     *)
(* also carries that instance's look-aside table (A-layer, C05_MemoImpl,   *)
(* keyed as KeyMode says) and the S-layer memo machine (C05_Memo) that has *)
(* been stepped along the events the algorithm logs.  TLC checks           *)
(*   - the algorithm's event stream is accepted by the memo machine        *)
(*     (Accepted, split by rejection clause),                              *)
(*   - at-most-once, cache soundness w.r.t. Fresh, no sharing across       *)
(*     types / arguments as invariants of the machine state,               *)
(* and prints every history as a JSON line for the driver (Emit).          *)
(*                                                                         *)
(* KeyMode "ideal" + StoreMode "store" is the design the statement asks    *)
(* for: everything must hold.  KeyMode "pyeq" is the key the code has:     *)
(* TLC shows it is right except for NotSharedTypes on composite nodes      *)
(* (Dev_CompositeKeyPyEq).  "noargs" / "notype" / "nostore" are the        *)
(* negative controls.  HitMode "identity" is the hit test the design needs *)
(* (the cached value is never consulted); "ne" (compare the looked-up      *)
(* value with the sentinel by !=) is a negative control: with result       *)
(* objects that have their own equality protocol (kind "probe") TLC must   *)
(* find a key computed twice / a call that raises.                         *)
(* Round 4: FbMode "faithful" - the handler receives the caller's extra    *)
(* arguments on every dispatch path; "mro-dropkw" (negative control        *)
(* C05_Gen_Buggy_FallbackDropsKw): the class-hierarchy fallback forgets    *)
(* the keyword arguments - on PoolSel "fb" (leaves known through a base    *)
(* class only) TLC must find a call that is not transparent.               *)
(***************************************************************************)
EXTENDS C05_Pool, Json
CONSTANTS PoolSel, ArgSel, MaxLen, KeyMode, StoreMode, HitMode, FbMode, Random
VARIABLES hist, sts

Pool == CASE PoolSel = "core"   -> PoolCore
          [] PoolSel = "full"   -> PoolCore \o PoolMore
          [] PoolSel = "consts" -> PoolConsts
          [] PoolSel = "mini"   -> PoolMini
          [] PoolSel = "fb"     -> PoolFb       \* round 4: class-hierarchy fallback dispatch
ArgTab == CASE ArgSel = "core" -> ArgCore
            [] ArgSel = "full" -> ArgCore \o ArgMore
            [] ArgSel = "two"  -> << NoArgs, Args(<< IntV(1) >>, << >>) >>
            [] ArgSel = "none" -> << NoArgs >>

NM == Len(Modelled)
ArgOk(mk, q) == ArgFits(mk, ArgTab[q])

Init == /\ hist = << >>
        /\ sts = [i \in 1..NM |-> [tab |-> EmptyFn, memo |-> MemoInit, v |-> "OK", live |-> TRUE]]

Step(st, mk, p, q) ==
    IF ~st.live \/ ~ArgOk(mk, q) THEN [st EXCEPT !.live = FALSE]
    ELSE LET c  == TopCallH(KeyMode, StoreMode, HitMode, FbMode, st.tab, mk, Pool[p], ArgTab[q])
             rn == RunEvents(st.memo, c.evs)
         IN  [tab |-> c.tab, memo |-> rn.ms, live |-> TRUE,
              v |-> IF st.v # "OK" THEN st.v ELSE rn.v]

Extend(p, q) ==
    /\ hist' = Append(hist, [e |-> p, a |-> q])
    /\ sts' = [i \in 1..NM |-> Step(sts[i], Modelled[i], p, q)]

Next ==
    /\ Len(hist) < MaxLen
    /\ IF Random
       THEN Extend(RandomElement(1..Len(Pool)), RandomElement(1..Len(ArgTab)))
       ELSE \E p \in 1..Len(Pool), q \in 1..Len(ArgTab) : Extend(p, q)

\* ---- the property on the model ---------------------------------------------
Live == { i \in 1..NM : sts[i].live }
FreshOf(i, k) == Fresh(Modelled[i], k.e, k.a)
Accepted        == \A i \in Live : sts[i].v = "OK"
NoComputedTwice == \A i \in Live : sts[i].v # "computed-twice" /\ AtMostOnce(sts[i].memo)
Transparent     == \A i \in Live : sts[i].v \notin {"not-transparent", "ill-nested"}
NotSharedArgs   == \A i \in Live : sts[i].v # "shared-across-args"
NotSharedTypes  == \A i \in Live : sts[i].v # "shared-across-types"
SoundCache ==
    \A i \in Live : sts[i].v = "OK" =>
        LET F(k) == FreshOf(i, k) IN
        /\ CacheSound(sts[i].memo, F)
        /\ NotSharedAcrossTypes(sts[i].memo, F)
        /\ NotSharedAcrossArgs(sts[i].memo, F)

\* ---- emission ----------------------------------------------------------------
HSum == SeqSum([i \in 1..Len(hist) |-> hist[i].e + hist[i].a])
Emit == Len(hist) >= 1 =>
          PrintT(ToJson([h |-> hist, sh |-> HSum % 2]))
Kinds == Modelled \o Unmodelled
Tables == [pool |-> Pool, args |-> ArgTab, envs |-> Envs,
           kinds |-> [i \in 1..Len(Kinds) |-> [mk |-> Kinds[i], cap |-> ArgCap(Kinds[i])]]]
ASSUME PrintT(ToJson([tables |-> Tables]))
=============================================================================
