------------------------------- MODULE C05_Gen -------------------------------
(***************************************************************************)
(* Stage (1) for C05, memoization part.                                    *)
(*                                                                         *)
(* A state is a call history on ONE mapper instance: hist = sequence of    *)
(* (pool index, argument-tuple index); different orders are different      *)
(* states, all histories up to MaxLen are explored (G-hist), -simulate     *)
(* walks longer random ones.  For every modelled mapper kind the state     *)
(* also carries that instance's look-aside table (A-layer, C05_MemoImpl,   *)
(* keyed as KeyMode says) and the S-layer memo machine (C05_Memo) that has *)
(* been stepped along the events the algorithm logs.  TLC checks           *)
(*   - the algorithm's event stream is accepted by the memo machine        *)
(*     (Accepted, split by rejection clause),                              *)
(*   - at-most-once, cache soundness w.r.t. Fresh, no sharing across       *)
(*     types / arguments as invariants of the machine state,               *)
(* and prints every history as a JSON line for the driver (Emit).          *)
(*                                                                         *)
(* KeyMode "ideal" + StoreMode "store" is the design the statement asks    *)
(* for: everything must hold.  KeyMode "pyeq" is the key the code has:     *)
(* TLC shows it is right except for NotSharedTypes on composite nodes      *)
(* (Dev_CompositeKeyPyEq).  "noargs" / "notype" / "nostore" are the        *)
(* negative controls.  HitMode "identity" is the hit test the design needs *)
(* (the cached value is never consulted); "ne" (compare the looked-up      *)
(* value with the sentinel by !=) is a negative control: with result       *)
(* objects that have their own equality protocol (kind "probe") TLC must   *)
(* find a key computed twice / a call that raises.                         *)
(* Round 4: FbMode "faithful" - the handler receives the caller's extra    *)
(* arguments on every dispatch path; "mro-dropkw" (negative control        *)
(* C05_Gen_Buggy_FallbackDropsKw): the class-hierarchy fallback forgets    *)
(* the keyword arguments - on PoolSel "fb" (leaves known through a base    *)
(* class only) TLC must find a call that is not transparent.               *)
(* Round 5: the BUILD MODE of the history's expression objects is an input  *)
(* dimension (variable bm): 1 = structurally equal subtrees are one object, *)
(* 0 = every occurrence is an object of its own, 2 = decided by the parity  *)
(* of the history (the cheap sampling the older cfgs keep).  ShareSel "both" *)
(* lets TLC choose.  For the identity-shaped kinds the handlers' "return    *)
(* the node itself / rebuild it" algorithm with object identity             *)
(* (C05_Rebuild) is run on every history: RebuildTransparent (memoizing =   *)
(* the same handlers without a table) and FieldsSurvive (= the meaning).    *)
(* RbMode "faithful" is the design; RbMode "scope" (negative control        *)
(* C05_Gen_Buggy_RebuildDropsScope: the rebuild branch forgets an optional  *)
(* field) must be refuted on PoolSel "fields" - and must NOT be refutable   *)
(* in the shared build mode alone (C05_Gen_RebuildDropsScope_shared holds). *)
(* PoolSel "fields": every history is a prelude of plain subtrees followed  *)
(* by one field-carrying expression (Pre).                                  *)
(***************************************************************************)
EXTENDS C05_Pool, C05_Rebuild, Json
CONSTANTS PoolSel, ArgSel, MaxLen, KeyMode, StoreMode, HitMode, FbMode, Random, ShareSel, RbMode
VARIABLES hist, sts, bm

Pool == CASE PoolSel = "core"   -> PoolCore
          [] PoolSel = "full"   -> PoolCore \o PoolMore
          [] PoolSel = "consts" -> PoolConsts
          [] PoolSel = "mini"   -> PoolMini
          [] PoolSel = "fb"     -> PoolFb       \* round 4: class-hierarchy fallback dispatch
          [] PoolSel = "fields" -> PoolFields   \* round 5: field values x arrangements
\* only the first Pre pool entries may be followed by another call
Pre == IF PoolSel = "fields" THEN NFieldPre ELSE Len(Pool)
BmSet == CASE ShareSel = "parity"   -> {2}
           [] ShareSel = "both"     -> {0, 1}
           [] ShareSel = "shared"   -> {1}
           [] ShareSel = "distinct" -> {0}
ArgTab == CASE ArgSel = "core" -> ArgCore
            [] ArgSel = "full" -> ArgCore \o ArgMore
            [] ArgSel = "two"  -> << NoArgs, Args(<< IntV(1) >>, << >>) >>
            [] ArgSel = "none" -> << NoArgs >>

NM == Len(Modelled)
ArgOk(mk, q) == ArgFits(mk, ArgTab[q])

Init == /\ hist = << >>
        /\ bm \in BmSet
        /\ sts = [i \in 1..NM |-> [tab |-> EmptyFn, memo |-> MemoInit, v |-> "OK", live |-> TRUE]]

Step(st, mk, p, q) ==
    IF ~st.live \/ ~ArgOk(mk, q) THEN [st EXCEPT !.live = FALSE]
    ELSE LET c  == TopCallH(KeyMode, StoreMode, HitMode, FbMode, st.tab, mk, Pool[p], ArgTab[q])
             rn == RunEvents(st.memo, c.evs)
         IN  [tab |-> c.tab, memo |-> rn.ms, live |-> TRUE,
              v |-> IF st.v # "OK" THEN st.v ELSE rn.v]

Extend(p, q) ==
    /\ hist' = Append(hist, [e |-> p, a |-> q])
    /\ sts' = [i \in 1..NM |-> Step(sts[i], Modelled[i], p, q)]
    /\ UNCHANGED bm

Next ==
    /\ Len(hist) < MaxLen
    /\ (IF Len(hist) = 0 THEN TRUE ELSE hist[Len(hist)].e <= Pre)
    /\ IF Random
       THEN Extend(RandomElement(1..Len(Pool)), RandomElement(1..Len(ArgTab)))
       ELSE \E p \in 1..Len(Pool), q \in 1..Len(ArgTab) : Extend(p, q)

\* ---- the property on the model ---------------------------------------------
Live == { i \in 1..NM : sts[i].live }
FreshOf(i, k) == Fresh(Modelled[i], k.e, k.a)
Accepted        == \A i \in Live : sts[i].v = "OK"
NoComputedTwice == \A i \in Live : sts[i].v # "computed-twice" /\ AtMostOnce(sts[i].memo)
Transparent     == \A i \in Live : sts[i].v \notin {"not-transparent", "ill-nested"}
NotSharedArgs   == \A i \in Live : sts[i].v # "shared-across-args"
NotSharedTypes  == \A i \in Live : sts[i].v # "shared-across-types"
SoundCache ==
    \A i \in Live : sts[i].v = "OK" =>
        LET F(k) == FreshOf(i, k) IN
        /\ CacheSound(sts[i].memo, F)
        /\ NotSharedAcrossTypes(sts[i].memo, F)
        /\ NotSharedAcrossArgs(sts[i].memo, F)

\* ---- round 5: the rebuild algorithm of the identity-shaped kinds --------------
HSum == SeqSum([i \in 1..Len(hist) |-> hist[i].e + hist[i].a])
Sh == IF bm = 2 THEN HSum % 2 ELSE bm
Calls == [j \in 1..Len(hist) |-> [e |-> Pool[hist[j].e], a |-> ArgTab[hist[j].a]]]
IdLive == { i \in Live : Modelled[i].m \in IdKinds }
IdV(i) == IdVerdict(RbMode, Sh = 1, KeyMode, Modelled[i], Calls)
RebuildTransparent == \A i \in IdLive : IdV(i) # "memo-differs"
FieldsSurvive      == \A i \in IdLive : IdV(i) # "meaning-differs"

\* ---- emission ----------------------------------------------------------------
Emit == Len(hist) >= 1 =>
          PrintT(ToJson([h |-> hist, sh |-> Sh]))
Kinds == Modelled \o Unmodelled
Tables == [pool |-> Pool, args |-> ArgTab, envs |-> Envs, ninit |-> Cardinality(BmSet),
           kinds |-> [i \in 1..Len(Kinds) |-> [mk |-> Kinds[i], cap |-> ArgCap(Kinds[i])]]]
ASSUME PrintT(ToJson([tables |-> Tables]))
=============================================================================
