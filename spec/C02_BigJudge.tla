----------------------------- MODULE C02_BigJudge -----------------------------
(* Stage (3) for the large-value family of C02: every value the real evaluators returned for a   *)
(* tree of C02_Big in a large-value environment is judged by exact BigNum arithmetic.             *)
EXTENDS C02_Big, IOUtils
VARIABLES blk, off
Recs == ndJsonDeserialize(IOEnv.TRACE_FILE)
BS == 16
NB == (Len(Recs) + BS - 1) \div BS
JInit == blk \in 0..(NB - 1) /\ off = 0 /\ ix = << 1, 1 >>
JNext == off < BS - 1 /\ off' = off + 1 /\ UNCHANGED << blk, ix >>
Idx == blk * BS + off + 1
Report ==
    Idx <= Len(Recs) =>
      LET rec == Recs[Idx]
          vs == [j \in 1..Len(rec.r) |-> JudgeBig(rec.e, BigEnvs[rec.benv], rec.r[j], rec.aux)]
          bad == { j \in 1..Len(vs) : vs[j] \notin {"OK", "SKIP"} }
      IN bad = {} \/ PrintT(ToJson([id |-> rec.id, v |-> vs[CHOOSE j \in bad : \A k \in bad : j <= k],
                                    pv |-> vs, big |-> TRUE]))
=============================================================================
