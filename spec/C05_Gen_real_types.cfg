CONSTANTS
  PoolSel = "core"
  ArgSel = "core"
  MaxLen = 2
  KeyMode = "pyeq"
  StoreMode = "store"
  HitMode = "identity"
  Random = FALSE
  FbMode = "faithful"
  ShareSel = "parity"
  RbMode = "faithful"
INIT Init
NEXT Next
INVARIANT NotSharedTypes
CHECK_DEADLOCK FALSE
