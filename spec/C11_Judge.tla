------------------------------ MODULE C11_Judge ------------------------------
EXTENDS C11_Rewrites, Json, IOUtils
VARIABLES blk, off
Recs == ndJsonDeserialize(IOEnv.TRACE_FILE)
BS == 16
NB == (Len(Recs) + BS - 1) \div BS
Init == blk \in 0..(NB - 1) /\ off = 0
Next == off < BS - 1 /\ off' = off + 1 /\ UNCHANGED blk
Idx == blk * BS + off + 1

Names == << "flatten", "fold", "cfold", "collect", "expand", "expand_nc", "expand_p", "cfold_reused", "expand_reused" >>
Report ==
    Idx <= Len(Recs) =>
      LET rec == Recs[Idx]
          vs == [i \in 1..Len(Names) |-> [rw |-> Names[i], cl |-> JudgeRewrite(Names[i], rec.e, rec.out[i])]]
          bad == SelectSeq(vs, LAMBDA v : v.cl # << >>)
      IN bad = << >> \/ PrintT(ToJson([id |-> rec.id, bad |-> bad]))
=============================================================================
