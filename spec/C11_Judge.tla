------------------------------ MODULE C11_Judge ------------------------------
EXTENDS C11_Impl, Json, IOUtils
VARIABLES blk, off
Recs == ndJsonDeserialize(IOEnv.TRACE_FILE)
BS == 16
NB == (Len(Recs) + BS - 1) \div BS
Init == blk \in 0..(NB - 1) /\ off = 0
Next == off < BS - 1 /\ off' = off + 1 /\ UNCHANGED blk
Idx == blk * BS + off + 1

Names == << "flatten", "fold", "cfold", "collect", "expand", "expand_nc", "expand_p", "cfold_reused", "expand_reused" >>
Report ==
    Idx <= Len(Recs) =>
      LET rec == Recs[Idx]
          vs == [i \in 1..Len(Names) |-> [rw |-> Names[i], cl |-> JudgeRewrite(Names[i], rec.e, rec.out[i])]]
          bad == SelectSeq(vs, LAMBDA v : v.cl # << >>)
          \* drift: what flatten() really returned against the transcription's prediction
          fl == rec.out[1]
          drift == fl.r = "ok" /\ fl.e # FlattenImpl(rec.e)
          \* likewise the two constant folders against FoldImpl
          FoldDrift(i, comm) ==
              LET pr == FoldImpl(rec.e, comm) got == rec.out[i] IN
              IF IsRaise(pr) THEN (pr.e # "unrep" /\ got.r = "ok")
              ELSE (got.r = "ok" /\ got.e # pr) \/ got.r = "err"
      IN /\ (bad = << >> \/ PrintT(ToJson([id |-> rec.id, bad |-> bad])))
         /\ (~drift \/ PrintT(ToJson([id |-> rec.id, drift |-> "flatten"])))
         /\ (~FoldDrift(2, FALSE) \/ PrintT(ToJson([id |-> rec.id, drift |-> "fold"])))
         /\ (~FoldDrift(3, TRUE) \/ PrintT(ToJson([id |-> rec.id, drift |-> "cfold"])))
=============================================================================
