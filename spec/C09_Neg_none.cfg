CONSTANT Bug = "none"
INIT Init
NEXT Next
INVARIANT NegRefines
CHECK_DEADLOCK FALSE
