CONSTANT Tier = "thorough"
CONSTANT Mode = "exh"
INIT Init
NEXT Next
INVARIANT ImplRefinesMeaning
INVARIANT OracleSane
INVARIANT EvalLemma
INVARIANT Emit
CHECK_DEADLOCK FALSE
