CONSTANT Tier = "tiny"
CONSTANT Buggy = "NameReuse"
INIT Init
NEXT Next
INVARIANT NamesUnique
CHECK_DEADLOCK FALSE
