------------------------------ MODULE C10_Hist ------------------------------
(***************************************************************************)
(* S-layer for C10: ONE DifferentiationMapper (one differentiation         *)
(* variable, one non-smoothness setting) over a history of build /         *)
(* differentiate / drop operations on expressions that carry common        *)
(* subexpressions.  The mapper keeps a per-instance cache of the           *)
(* derivatives of CSE nodes (CSECachingMapperMixin._cse_cache_dict).  The  *)
(* property speaks about every expression, so in every history every call  *)
(* must return the derivative of ITS OWN input - whatever was              *)
(* differentiated, and freed, before: the mapper with its cache refines    *)
(* the history-free rules DiffRules (which C10_Gen checks against the      *)
(* dual-number meaning).                                                   *)
(*                                                                         *)
(* The model has the heap in it: every CSE node of a live expression       *)
(* occupies an address (equal CSE nodes of one expression are one object), *)
(* dropping the expression frees the addresses nobody else holds, and a    *)
(* later build reuses them (lowest free first).  The cache is keyed        *)
(*    KeyMode = "value"   by the CSE node itself (what the code does: the  *)
(*                        dict holds a reference, so the node stays alive) *)
(*    KeyMode = "address" by the node's address (negative control: TLC     *)
(*                        must find the stale hit after a free + reuse).   *)
(*                                                                         *)
(* Every complete history is printed; the driver replays it on one real    *)
(* DifferentiationMapper - expressions really built, really deleted, a new *)
(* CSE node placed on the address of a dead one whenever the real heap     *)
(* allows it - and C10_Judge judges the tree returned by every             *)
(* differentiate step against the dual-number meaning of that step's input.*)
(***************************************************************************)
EXTENDS C10_Diff, Json
CONSTANTS KeyMode, MaxOps, NPool
VARIABLES mp, live, used, cache, hist, wrong

x == V("x")  y == V("y")
sq == B("Power", x, KI(2))
xy == N("Product", << x, y >>)
Pool == <<
  N("Product", << y, CSE0(sq) >>),
  N("Sum", << CSE0(xy), x >>),
  \* a CSE inside a CSE
  N("Sum", << CSE0(N("Product", << x, CSE0(B("Power", x, KI(3))) >>)), x >>),
  \* the same node twice; equal to the node of Pool[1] (a legitimate hit across expressions)
  N("Sum", << N("Product", << CSE0(sq), CSE0(sq) >>), y >>),
  B("Quotient", CSE0(MCall("sin", << x >>)), y),
  \* the child of Pool[1]'s node under another prefix: another key
  B("Power", CSE(sq, "p", "pymbolic_eval"), KI(2)),
  \* need a permission: only built on a mapper that has it
  MCall("fabs", << CSE0(xy) >>),
  IfE(Cmp(x, "<", KI(0)), CSE0(xy), CSE0(sq))
>>
Mappers == << [v |-> x, ns |-> "none"], [v |-> y, ns |-> "continuous"], [v |-> x, ns |-> "discontinuous"] >>
Slots == {1, 2}
Addrs == 1..MaxOps
NoExpr == [i |-> 0, am |-> << >>]
M == Mappers[mp]

CSEs(e) == { s \in SubExprs(e) : s.t = "CSE" }
\* innermost first (by size; ties cannot nest)
RECURSIVE SortBySize(_)
SortBySize(S) == IF S = {} THEN << >>
                 ELSE LET m == CHOOSE s \in S : \A o \in S : Size(s) <= Size(o)
                      IN << m >> \o SortBySize(S \ {m})

KeyOf(s, am) == IF KeyMode = "value" THEN s ELSE am[s]
Hit(s, am, cch) == \E p \in cch : p[1] = KeyOf(s, am)
Ans(s, am, cch) == (CHOOSE p \in cch : p[1] = KeyOf(s, am))[2]

\* the CSE nodes one call meets: below a node the cache answers for nothing is visited.
\* (A node stored during the call can only answer for an equal node, i.e. for itself.)
DiffKids(e) == IF e.t = "If" THEN << e.th, e.el >> ELSE DKids(e)
RECURSIVE Visited(_, _, _)
Visited(e, am, cch) ==
    IF e.t = "CSE" THEN {e} \cup (IF Hit(e, am, cch) THEN {} ELSE Visited(e.a, am, cch))
    ELSE UNION { Visited(DiffKids(e)[i], am, cch) : i \in 1..Len(DiffKids(e)) }

\* what the mapper answers for every visited CSE node, innermost first: the cache's entry, else
\* the rules (with the inner nodes' answers in the context)
RECURSIVE Answers(_, _, _, _)
Answers(order, am, cch, acc) ==
    IF order = << >> THEN acc
    ELSE LET s == Head(order)
             d == IF Hit(s, am, cch) THEN Ans(s, am, cch) ELSE RecX(s, M.v, Cx(M.ns, {}, acc))
         IN Answers(Tail(order), am, cch, [t \in DOMAIN acc \cup {s} |-> IF t = s THEN d ELSE acc[t]])

\* one call mapper(e): the returned tree and the cache afterwards
Diff(e, am, cch) ==
    LET vis == Visited(e, am, cch)
        ans == Answers(SortBySize(vis), am, cch, NoCache)
    IN [r |-> RecX(e, M.v, Cx(M.ns, {}, ans)),
        cache |-> cch \cup { << KeyOf(s, am), ans[s] >> : s \in { s \in vis : ~Hit(s, am, cch) /\ ~IsRaise(ans[s]) } }]

Init == /\ mp \in 1..Len(Mappers)
        /\ live = [s \in Slots |-> NoExpr]
        /\ used = {}
        /\ cache = {}
        /\ hist = << >>
        /\ wrong = FALSE

FreeAddrs == Addrs \ used
RECURSIVE Alloc(_, _)
Alloc(nodes, free) ==   \* lowest free address first, innermost node first
    IF nodes = << >> THEN << >>
    ELSE LET a == CHOOSE a \in free : \A b \in free : a <= b
         IN << a >> \o Alloc(Tail(nodes), free \ {a})

Build(s, i) ==
    /\ live[s] = NoExpr /\ \A o \in Slots : o < s => live[o] # NoExpr   \* lowest empty slot
    /\ ~MustRefuse(Pool[i], M.ns)
    /\ LET nodes == SortBySize(CSEs(Pool[i]))
       IN /\ Cardinality(FreeAddrs) >= Len(nodes)
          /\ LET as == Alloc(nodes, FreeAddrs)
                 am == [n \in CSEs(Pool[i]) |->
                          as[CHOOSE j \in 1..Len(nodes) : nodes[j] = n]]
             IN /\ live' = [live EXCEPT ![s] = [i |-> i, am |-> am]]
                /\ used' = used \cup { as[j] : j \in 1..Len(as) }
    /\ hist' = Append(hist, [op |-> "build", s |-> s, i |-> i])
    /\ UNCHANGED << mp, cache, wrong >>

Differentiate(s) ==
    /\ live[s] # NoExpr
    /\ LET e == Pool[live[s].i]
           r == Diff(e, live[s].am, cache)
       IN /\ cache' = r.cache
          /\ wrong' = (wrong \/ r.r # DiffRules(e, M.v, M.ns))
    /\ hist' = Append(hist, [op |-> "diff", s |-> s, i |-> live[s].i])
    /\ UNCHANGED << mp, live, used >>

Drop(s) ==
    /\ live[s] # NoExpr
    /\ LET am == live[s].am
           other == UNION { { live[o].am[n] : n \in DOMAIN live[o].am } : o \in Slots \ {s} }
           \* a node that is a key of the cache is kept alive by the cache
           held == IF KeyMode = "value"
                   THEN { am[n] : n \in { n \in DOMAIN am : \E p \in cache : p[1] = n } }
                   ELSE {}
       IN used' = (used \ { am[n] : n \in DOMAIN am }) \cup held \cup other
    /\ live' = [live EXCEPT ![s] = NoExpr]
    /\ hist' = Append(hist, [op |-> "drop", s |-> s, i |-> live[s].i])
    /\ UNCHANGED << mp, cache, wrong >>

Next == /\ Len(hist) < MaxOps
        /\ \/ \E s \in Slots, i \in 1..NPool : Build(s, i)
           \/ \E s \in Slots : Differentiate(s)
           \/ \E s \in Slots : Drop(s)

\* the property on the design: in every history the mapper returns what a fresh mapper returns
EveryDerivativeIsOfItsOwnInput == ~wrong

\* the cache never holds anything but the derivative of its key (value mode: the key is the node)
CacheCoherent ==
    KeyMode = "value" => \A p \in cache : p[2] = DiffRules(p[1], M.v, M.ns)

NDiffs == Cardinality({ j \in 1..Len(hist) : hist[j].op = "diff" })
Emit == (Len(hist) = MaxOps /\ hist[MaxOps].op = "diff" /\ NDiffs >= 2)
            => PrintT(ToJson([hist |-> hist, m |-> mp]))
ASSUME NPool <= Len(Pool)
ASSUME PrintT(ToJson([pool |-> Pool, mappers |-> Mappers]))
=============================================================================
