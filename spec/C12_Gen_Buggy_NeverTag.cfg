CONSTANTS
  Tier = "neg"
  Mode = "exh"
  Bug = "NeverTag"
INIT Init
NEXT Next
INVARIANT TagModelMeetsProperty
CHECK_DEADLOCK FALSE
