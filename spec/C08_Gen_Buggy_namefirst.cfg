CONSTANT Tier = "quick"
CONSTANT Mode = "exh"
CONSTANT Bug = "namefirst"
INIT Init
NEXT Next
INVARIANT Lemma
CHECK_DEADLOCK FALSE
