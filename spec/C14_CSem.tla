------------------------------- MODULE C14_CSem -------------------------------
(***************************************************************************)
(* M-layer for C14, value half.                                            *)
(*                                                                         *)
(* The statement: "for every expression of the C-expressible fragment the  *)
(* C text emitted by the C code mapper together with the hoisted           *)
(* assignments, compiled and run, yields the evaluator's value: exactly    *)
(* for integer expressions (floor division and remainder on non-negative   *)
(* operands) and within rounding error for floating point".                *)
(*                                                                         *)
(* This module fixes, independently of pymbolic's code,                    *)
(*   - the two fragments and the environments they are run in (long        *)
(*     variables / double variables with dyadic values),                   *)
(*   - the *boundary* of the C-expressible fragment, as a C typing         *)
(*     discipline written from ISO C (6.5.5 multiplicative operators,      *)
(*     6.5.7 shifts, 6.5.10-12 bitwise, 7.12.7.4 pow): an expression whose *)
(*     Python meaning needs an operator C does not have at that type       *)
(*     (true division of two integers, floor division / remainder /        *)
(*     bit operations of a double) is outside the fragment -> SKIP,        *)
(*   - the statement's range restriction (non-negative operands of // and  *)
(*     %, shift counts in range),                                          *)
(*   - the verdict on one recorded run of the compiled program against     *)
(*     Eval (spec/Eval.tla), the meaning of the evaluator.                 *)
(* Rounding-level agreement of inexact doubles is not decidable by TLC     *)
(* (DESIGN 12): every float value that is not an exact small dyadic is     *)
(* Unrep in PyNum and the case is SKIPped, never judged.                   *)
(***************************************************************************)
EXTENDS Eval

FnV(n)  == [k |-> "fn", name |-> n]
ObjV(n) == [k |-> "obj", name |-> n]
TupV(s) == [k |-> "tup", items |-> s]

\* f(a,b) = 1+2a+3b, g(a) = 2+3a (Eval!FnApply); t = (10,20,5); o.p = 5
CommonEnv == [f |-> FnV("f"), g |-> FnV("g"),
              t |-> TupV(<< IntV(10), IntV(20), IntV(5) >>), o |-> ObjV("o1")]

IntEnvs == <<
  [x |-> IntV(6),  y |-> IntV(3), z |-> IntV(2)] @@ CommonEnv,
  [x |-> IntV(0),  y |-> IntV(1), z |-> IntV(5)] @@ CommonEnv,
  [x |-> IntV(7),  y |-> IntV(2), z |-> IntV(0)] @@ CommonEnv,
  [x |-> IntV(-3), y |-> IntV(4), z |-> IntV(1)] @@ CommonEnv,
  [x |-> IntV(2),  y |-> IntV(0), z |-> IntV(3)] @@ CommonEnv,
  [x |-> IntV(5),  y |-> IntV(5), z |-> IntV(4)] @@ CommonEnv
>>
\* dyadic doubles; z is always +-2^k so that division by z is exact
FltEnvs == <<
  [x |-> FltV(3, 2),  y |-> FltV(-1, 4), z |-> FltV(2, 1)]  @@ CommonEnv,
  [x |-> FltV(-5, 2), y |-> FltV(3, 1),  z |-> FltV(1, 2)]  @@ CommonEnv,
  [x |-> FltV(0, 1),  y |-> FltV(1, 8),  z |-> FltV(4, 1)]  @@ CommonEnv,
  [x |-> FltV(7, 4),  y |-> FltV(-2, 1), z |-> FltV(-1, 2)] @@ CommonEnv,
  [x |-> FltV(2, 1),  y |-> FltV(2, 1),  z |-> FltV(-4, 1)] @@ CommonEnv
>>
EnvsOf(frag) == IF frag = "int" THEN IntEnvs ELSE FltEnvs
FragTy(frag) == IF frag = "int" THEN "long" ELSE "double"

(***************************************************************************)
(* The REPRESENTATION of a constant is an input dimension of its own: the  *)
(* same number may sit in the tree as a Python int / float or as a numpy   *)
(* scalar (coefficients read out of arrays are numpy.int64 / numpy.float64 *)
(* / numpy.int32 / numpy.float32 objects).  A constant of the model is its *)
(* VALUE: Eval, CTy and the verdict do not depend on the representation,   *)
(* so the statement demands that the generated C text denotes the same     *)
(* value whichever way the constant was built.  The generator emits every  *)
(* constant-bearing tree once per representation of RepsFor; the driver    *)
(* builds all int / float constants of the tree in that representation.    *)
(*    "py"   int / float            "np64"  numpy.int64 / numpy.float64    *)
(*    "np32" numpy.int32 / numpy.float32 (exact on the model's dyadics)    *)
(* bool / numpy.bool_ / Fraction constants have no C literal: outside the  *)
(* fragment in every representation (CTy = "bad").                         *)
(***************************************************************************)
Reps == {"py", "np64", "np32"}
HasNumConst(e) == \E s \in SubExprs(e) : s.t = "Const" /\ s.v.k \in {"int", "flt"}
\* a tree without numeric constants is the same object in every representation
RepsFor(e) == IF HasNumConst(e) THEN Reps ELSE {"py"}

(***************************************************************************)
(* C typing of the translation of a tree, per ISO C's usual arithmetic     *)
(* conversions; "bad" = no C operator with the Python meaning exists at    *)
(* these operand types.  Variables, calls, subscripts, attribute look-ups  *)
(* and hoisted CSE temporaries have the fragment's type (the harness       *)
(* declares them so); an integer constant is a long, a float constant a    *)
(* double; pow() is a double; comparisons and logical operators are int.   *)
(***************************************************************************)
Join(a, b) == IF a = "bad" \/ b = "bad" THEN "bad"
              ELSE IF a = "double" \/ b = "double" THEN "double" ELSE "long"
JoinSeq(s) == LET RECURSIVE Go(_, _)
                  Go(i, acc) == IF i > Len(s) THEN acc ELSE Go(i + 1, Join(acc, s[i]))
              IN Go(1, "long")
AllLong(s) == IF \E i \in 1..Len(s) : s[i] = "bad" THEN "bad"
              ELSE IF \E i \in 1..Len(s) : s[i] # "long" THEN "bad" ELSE "long"
NoBad(s, ty) == IF \E i \in 1..Len(s) : s[i] = "bad" THEN "bad" ELSE ty

RECURSIVE CTy(_, _)
CTy(e, frag) ==
    LET ks == [i \in 1..Len(Kids(e)) |-> CTy(Kids(e)[i], frag)] IN
    CASE e.t = "Var" -> FragTy(frag)
      [] e.t = "Const" -> IF e.v.k = "int" THEN "long"
                          ELSE IF e.v.k = "flt" THEN "double" ELSE "bad"   \* True/Fraction: no C literal
      [] e.t \in {"Sum", "Product"} -> IF Len(ks) = 0 THEN "bad" ELSE JoinSeq(ks)
      \* Python's true division: C's / is that only when an operand is a double
      [] e.t = "Quotient" -> IF Join(ks[1], ks[2]) = "double" THEN "double" ELSE "bad"
      \* Python's floor division / remainder: C's / and % are that only on integers
      [] e.t \in {"FloorDiv", "Remainder", "LShift", "RShift"} -> AllLong(ks)
      [] e.t \in {"BitOr", "BitXor", "BitAnd"} -> IF Len(ks) = 0 THEN "bad" ELSE AllLong(ks)
      [] e.t = "BitNot" -> AllLong(ks)
      \* x**0, x**1, x**2 may be expanded (type of the base); anything else needs pow()
      [] e.t = "Power" ->
            IF e.b.t = "Const" /\ e.b.v.k = "int" /\ e.b.v.n \in {1, 2} THEN ks[1]
            ELSE IF e.b.t = "Const" /\ e.b.v.k = "int" /\ e.b.v.n = 0 THEN NoBad(ks, "long")
            ELSE NoBad(ks, "double")
      [] e.t \in {"Cmp", "LogNot"} -> NoBad(ks, "long")
      \* && and || are binary; a 0- or 1-ary LogicalAnd/Or (Python: all/any of one
      \* operand, a bool) has no C operator
      [] e.t \in {"LogOr", "LogAnd"} -> IF Len(ks) < 2 THEN "bad" ELSE NoBad(ks, "long")
      [] e.t = "If" -> IF ks[1] = "bad" THEN "bad" ELSE Join(ks[2], ks[3])
      \* only the two C functions the harness defines, called with their arity
      [] e.t = "Call" -> IF e.f = V("f") /\ Len(e.c) = 2 THEN NoBad(ks, FragTy(frag))
                         ELSE IF e.f = V("g") /\ Len(e.c) = 1 THEN NoBad(ks, FragTy(frag))
                         ELSE "bad"
      [] e.t = "Sub" -> IF e.a = V("t") /\ ks[2] = "long" THEN FragTy(frag) ELSE "bad"
      [] e.t = "Look" -> IF e.a = V("o") /\ e.name = "p" THEN FragTy(frag) ELSE "bad"
      [] e.t = "CSE" -> NoBad(ks, FragTy(frag))
      [] OTHER -> "bad"          \* Min/Max, tuples, slices, kwargs, ...: no C counterpart

\* f, g, t, o must not be used as plain numbers
RECURSIVE NamesOK(_)
NamesOK(e) ==
    CASE e.t = "Var" -> e.name \in {"x", "y", "z"}
      [] e.t = "Call" -> \A i \in 1..Len(e.c) : NamesOK(e.c[i])
      [] e.t = "Sub" -> NamesOK(e.b)
      [] e.t = "Look" -> TRUE
      [] OTHER -> \A i \in 1..Len(Kids(e)) : NamesOK(Kids(e)[i])

CExpressible(e, frag) == NamesOK(e) /\ CTy(e, frag) # "bad"

(***************************************************************************)
(* The statement's range: // and % only on non-negative operands (C        *)
(* truncates, Python floors), shift counts 0..14, subscripts inside the    *)
(* array.  Checked on every subexpression whose operands have a numeric    *)
(* meaning in the environment (conservative: also in branches not taken).  *)
(***************************************************************************)
InRange(e, env) ==
    \A s \in SubExprs(e) :
        CASE s.t \in {"FloorDiv", "Remainder"} ->
                LET a == Eval(s.a, env) b == Eval(s.b, env) IN
                (IsNum(a) /\ IsNum(b)) => (a.n >= 0 /\ b.n > 0)
          [] s.t \in {"LShift", "RShift"} ->
                LET b == Eval(s.b, env) IN IsNum(b) => (b.n >= 0 /\ b.n <= 14)
          [] s.t = "Sub" ->
                LET b == Eval(s.b, env) IN IsNum(b) => (b.n >= 0 /\ b.n <= 2)
          [] OTHER -> TRUE

(***************************************************************************)
(* Verdict on one recorded value of the compiled program.                  *)
(*   got : value record printed by the program ([k,n,d]), Unrep when it    *)
(*         left the model, Err("SIGFPE") when the program trapped          *)
(*   pv  : what pymbolic's own evaluator returned for the tree (recorded   *)
(*         so that "the evaluator's value" is literally the evaluator's;   *)
(*         when it disagrees with Eval the oracle is in doubt -> SKIP-O)   *)
(***************************************************************************)
\* (the fragment test is the caller's: it does not depend on the environment)
\* rep: the representation the tree's constants were built in.  Eval is the meaning
\* of Python's arithmetic; with numpy scalars in the tree the evaluator computes in
\* numpy's (ValueError for a negative integer power, ~ of a numpy.bool_ is "not",
\* fixed-width wrap-around): where its value then departs from Eval the statement's
\* "evaluator's value" is not the model's and nothing is decided (plain SKIP, not an
\* oracle doubt).
JudgeEnvR(e, frag, env, got, pv, rep) ==
    LET exp == Eval(e, env) IN
    IF IsUnrep(exp) \/ IsErr(exp) THEN "SKIP"               \* the evaluator has no value
    ELSE IF ~IsNum(exp) THEN "SKIP"
    ELSE IF ~InRange(e, env) THEN "SKIP"
    ELSE IF IsUnrep(pv) THEN "SKIP"
    ELSE IF ~(IsNum(pv) /\ ValEq(exp, pv)) THEN (IF rep = "py" THEN "SKIP-O" ELSE "SKIP")
    ELSE IF IsUnrep(got) THEN "SKIP"
    ELSE IF IsErr(got) THEN "c-trap-instead-of-value"
    \* an integer program whose meaning is a non-integral float (x ** -1): not an
    \* integer expression
    ELSE IF frag = "int" /\ exp.d # 1 THEN "SKIP"
    ELSE IF ValEq(exp, got) THEN "OK" ELSE "wrong-value"

JudgeEnv(e, frag, env, got, pv) == JudgeEnvR(e, frag, env, got, pv, "py")

JudgeC(e, frag, env, got, pv) ==
    IF ~CExpressible(e, frag) THEN "SKIP" ELSE JudgeEnv(e, frag, env, got, pv)

\* all environments in one pass: [bad |-> first failing clause or "", env |-> its index,
\* skip |-> number of SKIP / SKIP-O environments, skipo |-> number of SKIP-O]
JudgeAllR(e, frag, r, pv, rep) ==
    LET envs == EnvsOf(frag)
        RECURSIVE Go(_, _)
        Go(i, acc) ==
            IF i > Len(envs) THEN acc
            ELSE LET v == JudgeEnvR(e, frag, envs[i], r[i], pv[i], rep) IN
                 Go(i + 1,
                    IF v = "OK" THEN acc
                    ELSE IF v = "SKIP" THEN [acc EXCEPT !.skip = @ + 1]
                    ELSE IF v = "SKIP-O" THEN [acc EXCEPT !.skip = @ + 1, !.skipo = @ + 1]
                    ELSE IF acc.bad = "" THEN [acc EXCEPT !.bad = v, !.env = i] ELSE acc)
        zero == [bad |-> "", env |-> 0, skip |-> 0, skipo |-> 0]
    IN IF ~CExpressible(e, frag) THEN [zero EXCEPT !.skip = Len(envs)] ELSE Go(1, zero)
JudgeAll(e, frag, r, pv) == JudgeAllR(e, frag, r, pv, "py")
=============================================================================
