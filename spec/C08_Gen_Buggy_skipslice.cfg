CONSTANT Tier = "quick"
CONSTANT Mode = "exh"
CONSTANT Bug = "skipslice"
INIT Init
NEXT Next
INVARIANT Lemma
CHECK_DEADLOCK FALSE
