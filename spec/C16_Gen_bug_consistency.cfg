CONSTANT Tier = "quick"
CONSTANT Bug = "consistency"
INIT Init
NEXT Next
INVARIANT ImplSound
INVARIANT ImplComplete
INVARIANT MeaningSelfCheck
CHECK_DEADLOCK FALSE
