------------------------------ MODULE C07_Model ------------------------------
(***************************************************************************)
(* C07 on the model: the transcribed parser (A-layer, C07_Parser) against  *)
(* the reference Python grammar (M-layer, C07_PyGrammar), compared by      *)
(* evaluation (Eval) in the environments of the box.  Shared by C07_Gen    *)
(* (design-level check) and C07_Judge (verdicts, drift, oracle binding).   *)
(***************************************************************************)
EXTENDS C07_PyGrammar, C07_Env

\* a or b == a if a else b ;  a and b == b if a else a   (operands are pure)
RECURSIVE PyLogic(_)
Chain(kind, ks) ==
    LET RECURSIVE Go(_)
        Go(i) == IF i = Len(ks) THEN ks[i]
                 ELSE IF kind = "LogOr" THEN IfE(ks[i], ks[i], Go(i + 1))
                 ELSE IfE(ks[i], Go(i + 1), ks[i])
    IN Go(1)
PyLogic(e) ==
    LET ks == [i \in 1..Len(Kids(e)) |-> PyLogic(Kids(e)[i])] IN
    IF e.t \in {"LogOr", "LogAnd"} /\ Len(ks) > 0 THEN Chain(e.t, ks)
    ELSE WithKids(e, ks)

\* compare a tree's value with the reference value in one environment
JudgeOne(tree, pyv, env) ==
    IF IsUnrep(pyv) THEN "SKIP"
    ELSE LET tv == Eval(PyLogic(tree), env) IN
         IF IsUnrep(tv) THEN "SKIP"
         ELSE IF IsErr(pyv) THEN (IF IsErr(tv) THEN "OK" ELSE "value-instead-of-error")
         ELSE IF IsErr(tv) THEN "error-instead-of-value"
         ELSE IF ValEq(pyv, tv) /\ (IsNum(pyv) <=> IsNum(tv)) THEN "OK" ELSE "wrong-value"

JudgeTree(tree, py) ==
    LET vs == [i \in 1..Len(Envs) |-> JudgeOne(tree, py[i], Envs[i])]
        bad(i) == vs[i] \notin {"OK", "SKIP"}
    IN IF \E i \in 1..Len(vs) : bad(i)
       THEN LET i == CHOOSE i \in 1..Len(vs) : bad(i) /\ \A j \in 1..(i - 1) : ~bad(j)
            IN [v |-> vs[i], env |-> i]
       ELSE IF \A i \in 1..Len(vs) : vs[i] = "SKIP" THEN [v |-> "SKIP", env |-> 0]
       ELSE [v |-> "OK", env |-> 0]

\* design level: what the reference grammar says the text means, in every environment
RefValues(toks) ==
    LET r == PyParse(toks) IN
    IF ~r.ok THEN << >> ELSE [i \in 1..Len(Envs) |-> Eval(r.e, Envs[i])]
ModelVerdict(toks) ==
    LET r == PyParse(toks) p == Parse(toks) IN
    IF ~r.ok THEN (IF p.ok \/ p.err = "ParseError" THEN [v |-> "OK", env |-> 0]
                   ELSE [v |-> "parser-raised-other-than-ParseError", env |-> 0])
    ELSE IF ~p.ok THEN [v |-> (IF p.err = "ParseError" THEN "parse-error-on-shared-syntax"
                               ELSE "parser-raised-other-than-ParseError"), env |-> 0]
    ELSE JudgeTree(p.e, RefValues(toks))
\* the transcription with every named deviation repaired, against the reference grammar: what
\* remains here is an UNNAMED deviation of the parser (or of its transcription)
RepairedVerdict(toks) ==
    LET r == PyParse(toks) p == ParseRepaired(toks) IN
    IF ~r.ok THEN [v |-> "OK", env |-> 0]
    ELSE IF ~p.ok THEN [v |-> (IF p.err = "ParseError" THEN "parse-error-on-shared-syntax"
                               ELSE "parser-raised-other-than-ParseError"), env |-> 0]
    ELSE JudgeTree(p.e, RefValues(toks))
=============================================================================
