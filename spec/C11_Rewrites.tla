---------------------------- MODULE C11_Rewrites ----------------------------
(***************************************************************************)
(* C11 - algebraic rewrites preserve value and reach their normal forms.   *)
(* M-layer only: exact value preservation through Poly!NF (rational        *)
(* function normal form, decided per instance), Eval on a box for node     *)
(* kinds outside the polynomial fragment, and the shape post-conditions    *)
(* of the statement.                                                       *)
(***************************************************************************)
EXTENDS Poly, Eval

RECURSIVE AllNodes(_)
AllNodes(e) == SubExprs(e)

IsConstNode(e) == e.t = "Const" /\ IsNum(e.v)
ConstIs(e, n) == IsConstNode(e) /\ e.v.n = n /\ e.v.d = 1

\* flatten: no sum directly under a sum, no product directly under a product, no
\* neutral element left
IsFlat(e) ==
    \A s \in SubExprs(e) :
        /\ (s.t = "Sum" => \A i \in 1..Len(s.c) : s.c[i].t # "Sum" /\ ~ConstIs(s.c[i], 0))
        /\ (s.t = "Product" => \A i \in 1..Len(s.c) : s.c[i].t # "Product" /\ ~ConstIs(s.c[i], 1))

RECURSIVE HasVar(_)
HasVar(e) == e.t = "Var" \/ \E i \in 1..Len(Kids(e)) : HasVar(Kids(e)[i])
\* constant folding: at most one variable-free operand in each sum (and product, for the
\* commutative folder)
AtMostOneConstant(e, kinds) ==
    \A s \in SubExprs(e) :
        s.t \in kinds => Cardinality({ i \in 1..Len(s.c) : ~HasVar(s.c[i]) }) <= 1

\* expansion: no sum beneath a product or an integer power
IntPow(s) == s.t = "Power" /\ s.b.t = "Const" /\ IsNum(s.b.v) /\ s.b.v.d = 1
RECURSIVE HasSum(_)
HasSum(e) == e.t = "Sum" \/ \E i \in 1..Len(Kids(e)) : HasSum(Kids(e)[i])
Expanded(e) ==
    \A s \in SubExprs(e) :
        /\ (s.t = "Product" => \A i \in 1..Len(s.c) : ~HasSum(s.c[i]))
        /\ (IntPow(s) => ~HasSum(s.a))
\* like terms merged: the top-level terms are monomials with pairwise distinct exponent vectors
Terms(e) == IF e.t = "Sum" THEN e.c ELSE << e >>
IsMonomial(r) == ROk(r) /\ Cardinality(r.num.ts) <= 1 /\ PIsConst(r.den)
MonoExp(r) == IF r.num.ts = {} THEN ZeroExp ELSE (CHOOSE t \in r.num.ts : TRUE).e
LikeTermsMerged(e) ==
    LET ts == Terms(e) rs == [i \in 1..Len(ts) |-> NF(ts[i])] IN
    IF \E i \in 1..Len(rs) : ~IsMonomial(rs[i]) THEN "NA"
    ELSE IF \E i, j \in 1..Len(rs) : i < j /\ MonoExp(rs[i]) = MonoExp(rs[j]) THEN "NO"
    ELSE IF Len(ts) > 1 /\ \E i \in 1..Len(rs) : rs[i].num.ts = {} THEN "NO"
    ELSE "YES"
\* polynomial (no atom in a denominator, no negative power of a non-constant)
IsPolynomial(e) == LET r == NF(e) IN ROk(r) /\ PIsConst(r.den)
RECURSIVE NoNegPow(_)
NoNegPow(e) == (IntPow(e) => e.b.v.n >= 0) /\ (e.t = "Quotient" => ~HasVar(e.b))
               /\ \A i \in 1..Len(Kids(e)) : NoNegPow(Kids(e)[i])

\* the term collector's input fragment: a sum of multiplicative terms
MultiplicativeTerm(c) == c.t \in {"Product", "Power", "Var", "Call", "CallKw", "Sub", "Look"} \/ ~HasVar(c)
\* (the collector is an identity mapper: it collects in EVERY sum of the input, so every sum - not
\* only the root - has to be a sum of multiplicative terms)
CollectFragment(e) == \A s \in SubExprs(e) : s.t = "Sum" => \A i \in 1..Len(s.c) : MultiplicativeTerm(s.c[i])

Box == <<
  [x |-> IntV(2), y |-> IntV(-3), z |-> IntV(1), p |-> IntV(3), b |-> BoolV(TRUE),
   f |-> [k |-> "fn", name |-> "f"], t |-> [k |-> "tup", items |-> << IntV(10), IntV(20), IntV(30) >>]],
  [x |-> FracV(1, 2), y |-> IntV(2), z |-> IntV(-1), p |-> FracV(-2, 3), b |-> BoolV(FALSE),
   f |-> [k |-> "fn", name |-> "f"], t |-> [k |-> "tup", items |-> << IntV(10), IntV(20), IntV(30) >>]],
  [x |-> IntV(-1), y |-> IntV(1), z |-> IntV(2), p |-> IntV(-2), b |-> BoolV(TRUE),
   f |-> [k |-> "fn", name |-> "f"], t |-> [k |-> "tup", items |-> << IntV(10), IntV(20), IntV(30) >>]],
  [x |-> IntV(3), y |-> FracV(-3, 2), z |-> IntV(0), p |-> IntV(1), b |-> BoolV(FALSE),
   f |-> [k |-> "fn", name |-> "f"], t |-> [k |-> "tup", items |-> << IntV(10), IntV(20), IntV(30) >>]],
  \* zero where an exponent may stand (0**0 = 1)
  [x |-> IntV(1), y |-> IntV(0), z |-> IntV(3), p |-> IntV(2), b |-> BoolV(TRUE),
   f |-> [k |-> "fn", name |-> "f"], t |-> [k |-> "tup", items |-> << IntV(10), IntV(20), IntV(30) >>]]
>>

\* value preservation: exact when both sides are in the rational fragment, else on the box
\* ("in every environment where the input evaluates")
ValuePreserved(in, out) ==
    LET q == REq(NF(in), NF(out)) IN
    IF q = "EQ" THEN "OK"
    ELSE IF q = "NE" THEN "value-changed"
    ELSE LET vs == [i \in 1..Len(Box) |->
                      LET a == Eval(in, Box[i]) b == Eval(out, Box[i]) IN
                      IF IsUnrep(a) \/ IsErr(a) \/ IsUnrep(b) THEN "NA"
                      ELSE IF IsErr(b) THEN "BAD"
                      ELSE IF ValEq(a, b) /\ (IsNum(a) <=> IsNum(b)) THEN "OK" ELSE "BAD"]
         IN IF \E i \in 1..Len(vs) : vs[i] = "BAD" THEN "value-changed"
            ELSE IF \A i \in 1..Len(vs) : vs[i] = "NA" THEN "SKIP" ELSE "OK"

\* res: [r |-> "ok", e |-> tree] | [r |-> "err", v |-> err] | [r |-> "unser"]
JudgeRewrite(name, in, res) ==
    IF res.r = "unser" THEN << "SKIP" >>
    ELSE IF res.r = "err" THEN
        (IF name = "collect" /\ ~CollectFragment(in) THEN << "SKIP" >>
         ELSE IF name \in {"collect", "expand", "expand_nc", "expand_p", "expand_reused"} /\ ~NF(in).def THEN << "SKIP" >>
         ELSE << "fails-on-fragment" >>)
    ELSE LET out == res.e
             vp == ValuePreserved(in, out)
             shape ==
               CASE name = "flatten" -> IF IsFlat(out) THEN "OK" ELSE "not-flat"
                 [] name = "fold"    -> IF AtMostOneConstant(out, {"Sum"}) THEN "OK"
                                        ELSE "several-constants"
                 [] name \in {"cfold", "cfold_reused"} -> IF AtMostOneConstant(out, {"Sum", "Product"}) THEN "OK"
                                        ELSE "several-constants"
                 [] name \in {"expand", "expand_reused"} ->
                        IF ~(NF(in).def /\ IsPolynomial(in) /\ NoNegPow(in)) THEN "OK"
                        ELSE IF ~Expanded(out) THEN "not-expanded"
                        ELSE IF LikeTermsMerged(out) = "NO" THEN "like-terms-not-merged"
                        ELSE "OK"
                 [] OTHER -> "OK"
         IN (IF vp \in {"OK", "SKIP"} THEN << >> ELSE << vp >>)
            \o (IF shape = "OK" THEN << >> ELSE << shape >>)
            \o (IF vp = "SKIP" /\ shape = "OK" THEN << "SKIP" >> ELSE << >>)
=============================================================================
