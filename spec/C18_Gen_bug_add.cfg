CONSTANT Tier = "quick"
CONSTANT Kinds = {"hist"}
CONSTANT MaxN = 2
CONSTANT Bug = "add_setdefault"
INIT Init
NEXT Next
INVARIANT ModelHolds
CHECK_DEADLOCK FALSE
