CONSTANT Mode = "indexwise"
INIT Init
NEXT Next
INVARIANT EntrywiseMeaning
INVARIANT Emit
CHECK_DEADLOCK FALSE
