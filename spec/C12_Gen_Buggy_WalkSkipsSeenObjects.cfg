CONSTANTS
  Tier = "neg"
  Mode = "exh"
  Bug = "WalkSkipsSeenObjects"
INIT Init
NEXT Next
INVARIANT TagModelMeetsProperty
CHECK_DEADLOCK FALSE
