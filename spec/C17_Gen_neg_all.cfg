CONSTANT Tier = "neg"
CONSTANT NProc = 3
CONSTANT Buggy_PickleCarriesHash = TRUE
CONSTANT Buggy_DigestUsesProcess = TRUE
CONSTANT Buggy_SetstateByPosition = FALSE
CONSTANT Buggy_ArgsBySetOrder = FALSE
CONSTANT Buggy_DigestSkipsShared = FALSE
CONSTANT Buggy_CompiledLosesVars = TRUE
CONSTANT Buggy_OptionsCrossed = TRUE
CONSTANT Buggy_LegacyHashAssigns = TRUE
CONSTANT Buggy_VarsByName = FALSE
INIT Init
NEXT Next
INVARIANT Inv_NoForeignHash
INVARIANT Inv_HashIsLocal
INVARIANT Inv_EqIsPyEq
INVARIANT Inv_LookupFinds
INVARIANT Inv_CompiledComputes
INVARIANT Inv_DigestIsStructural
INVARIANT Inv_NothingRaised
CHECK_DEADLOCK FALSE
