CONSTANT Tier = "quick"
CONSTANT Mode = "exh"
CONSTANT Bug = "collapse"
INIT Init
NEXT Next
INVARIANT Lemma
CHECK_DEADLOCK FALSE
