CONSTANTS
  HashMode = "real"
  Bug = "PickleKeepsHash"
  Sweeps = {"xsmall"}
  PairDepth = 2
  NearDepth = 2
  DeepDepth = 1
  HierDepth = 2
  XDepth = 2
  SelfDepth = 2
  FormDepth = 2
  HeapDepth = 3
  Wide = FALSE
  EmitCases = FALSE
INIT Init
NEXT Next
INVARIANT DictFindsEqual

CHECK_DEADLOCK FALSE
