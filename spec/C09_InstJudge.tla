---------------------------- MODULE C09_InstJudge ----------------------------
(***************************************************************************)
(* Stage (3) for the instance histories of C09 (trace validation).  One    *)
(* record = [id, kind, raw, h, obs] where obs[i] is what the real instance *)
(* showed after the i-th call:                                             *)
(*   res   [r |-> "ok", s |-> <<trees>>, n |-> int] | [r |-> "err", v]     *)
(*   pa    TRUE when the hidden state could be projected                   *)
(*   memo / csememo  <<[e |-> key tree, val |-> <<trees>>]>>               *)
(*   imemo           <<[e |-> key tree, n |-> int]>>                       *)
(*   seen            <<trees>>      count  int                             *)
(* The recorded projection is turned into an instance state of C09_InstOps *)
(* and the model's invariants are evaluated on it after every call; the    *)
(* model itself is stepped along the same history and the difference       *)
(* between its predicted cache keys and the recorded ones is reported as   *)
(* drift (never a failure).                                                *)
(***************************************************************************)
EXTENDS C09_InstOps, Json, IOUtils
VARIABLES blk, off

Recs == ndJsonDeserialize(IOEnv.TRACE_FILE)
BS == 16
NB == (Len(Recs) + BS - 1) \div BS
Init == blk \in 0..(NB - 1) /\ off = 0
Next == off < BS - 1 /\ off' = off + 1 /\ UNCHANGED blk
Idx == blk * BS + off + 1

\* the sum of the counts returned by calls 1..i
RECURSIVE SumRes(_, _)
SumRes(obs, i) == IF i = 0 THEN 0 ELSE obs[i].res.n + SumRes(obs, i - 1)

\* the observed instance state after call i
Observed(rec, i) ==
    LET o == rec.obs[i] IN
    [kind |-> rec.kind, raw |-> rec.raw,
     memo |-> { [key |-> MemoKey(o.memo[j].e), val |-> SeqToSet(o.memo[j].val)] : j \in 1..Len(o.memo) },
     csememo |-> { [key |-> Canon(o.csememo[j].e), val |-> SeqToSet(o.csememo[j].val)]
                   : j \in 1..Len(o.csememo) },
     imemo |-> { [key |-> MemoKey(o.imemo[j].e), val |-> o.imemo[j].n] : j \in 1..Len(o.imemo) },
     seen |-> CanonSet(SeqToSet(o.seen)),
     count |-> o.count,
     total |-> SumRes(rec.obs, i),
     hist |-> SubSeq(rec.h, 1, i),
     last |-> SeqToSet(o.res.s), lastn |-> o.res.n]

RECURSIVE ModelAfter(_, _)
ModelAfter(rec, i) == IF i = 0 THEN NewInst(rec.kind, rec.raw)
                      ELSE Step(ModelAfter(rec, i - 1), rec.h[i])

Cl(cl, i) == [cl |-> cl, step |-> i]
StepVerdicts(rec, i) ==
    LET o == rec.obs[i] IN
    IF \E j \in 1..i : rec.obs[j].res.r # "ok" THEN
        (IF o.res.r = "err" THEN { Cl("raised", i) }
         ELSE IF o.res.r # "ok" THEN { Cl("bad-result", i) } ELSE { Cl("SKIP", i) })
    ELSE LET st == Observed(rec, i) IN
         { IF ResultExact(st) THEN Cl("OK", i) ELSE Cl("wrong-result", i) }
         \cup (IF ~o.pa THEN { Cl("SKIP", i) }
               ELSE { IF MemoSound(st) THEN Cl("OK", i) ELSE Cl("stale-cache-entry", i) })
         \cup (IF rec.kind = "cse" THEN
                  { IF CSEFlopsAmbiguous(HistTup(st)) THEN Cl("SKIP", i)
                    ELSE IF st.total = CSEFlops(HistTup(st)) THEN Cl("OK", i) ELSE Cl("cse-not-once", i) }
                  \cup (IF o.pa /\ st.seen # CanonSet(CSENodes(HistTup(st)))
                        THEN { Cl("seen-set-wrong", i) } ELSE {})
               ELSE {})
         \cup (IF rec.kind = "ncm" THEN
                  { IF NodeCountAmbiguous(HistTup(st)) THEN Cl("SKIP", i)
                    ELSE IF NodesOnce(st) THEN Cl("OK", i) ELSE Cl("nodes-not-once", i) }
               ELSE {})

Drift(rec) ==
    Cardinality({ i \in 1..Len(rec.h) :
        /\ \A j \in 1..i : rec.obs[j].res.r = "ok"
        /\ rec.obs[i].pa
        /\ LET st == Observed(rec, i) m == ModelAfter(rec, i) IN
           \/ { p.key : p \in st.memo } # { p.key : p \in m.memo }
           \/ { p.key : p \in st.csememo } # { p.key : p \in m.csememo }
           \/ { p.key : p \in st.imemo } # { p.key : p \in m.imemo }
           \/ (rec.kind = "ncm" /\ st.count # m.count)
           \/ (rec.kind = "cse" /\ st.seen # m.seen) })

Report ==
    Idx <= Len(Recs) =>
      LET rec == Recs[Idx]
          vs == UNION { StepVerdicts(rec, i) : i \in 1..Len(rec.h) }
          fails == { v \in vs : v.cl \notin {"OK", "SKIP"} }
          nskip == Cardinality({ v \in vs : v.cl = "SKIP" })
          dr == Drift(rec)
      IN /\ fails = {} \/ PrintT(ToJson([id |-> rec.id, v |-> "FAIL", fails |-> fails]))
         /\ nskip = 0 \/ PrintT(ToJson([id |-> rec.id, v |-> "SKIP", n |-> nskip]))
         /\ dr = 0 \/ PrintT(ToJson([id |-> rec.id, v |-> "DRIFT", n |-> dr]))
=============================================================================
