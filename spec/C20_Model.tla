------------------------------ MODULE C20_Model ------------------------------
(***************************************************************************)
(* Model checking the S-layer itself: every history of at most MaxOps      *)
(* fusions / disambiguate-and-fuse steps over a pool of base streams with  *)
(* clashing ids and identifiers, for EVERY admissible choice of fresh ids  *)
(* and fresh identifiers out of finite universes.  TLC checks the          *)
(* invariants of C20_Fusion in every reachable state.  With a Buggy        *)
(* constant the matching invariant must fail (negative controls).          *)
(***************************************************************************)
EXTENDS C20_Fusion
CONSTANTS MaxOps, MaxLen, WithDaf, NIds, NVars
VARIABLE n

va == V("a")  vb == V("b")  vi == V("i")  vf == V("f")

IdUSeq == << "s", "t", "s_0", "t_0", "s_1", "u", "v" >>
IdU  == {IdUSeq[k] : k \in 1..NIds}
VarUSeq == << "a_0", "i_0", "w", "b_0" >>
VarU == {VarUSeq[k] : k \in 1..NVars}

Pool == {
  << AssignS("s", << >>, B("Sub", va, vi), KI(5)),
     CondAssignS("t", << "s" >>, vb, va, Cmp(vi, "<", KI(3))) >>,
  << AssignS("s", << "s_0" >>, vi, KI(1)), NopS("s_0", << >>) >>,
  << AssignS("t", << >>, va, Call(vf, << vb >>)) >>,
  << >> }
Filters == { [mode |-> "all", names |-> << >>], [mode |-> "none", names |-> << >>],
             [mode |-> "set", names |-> << "a" >>] }

Init == cur \in Pool /\ last = NoStep /\ n = 0

Operands == {<<cur, X>> : X \in Pool} \cup {<<X, cur>> : X \in Pool} \cup {<<cur, cur>>}

\* candidate choices, pre-filtered so that TLC does not enumerate hopeless maps
IdChoices(SA, SB) ==
    {m \in [Ids(SB) -> (IF Buggy = "NameReuse" THEN IdU ELSE IdU \ Ids(SA))] :
        MapAdmissible(SA, SB, m)}
DomChoices(SA, SB, flt) ==
    {d \in SUBSET (IdentsMay(SA) \cap IdentsMay(SB)) : ClashMust(SA, SB, flt) \subseteq d}
SgChoices(SA, SB, flt) ==
    UNION {{sg \in [d -> VarU \ (IdentsMay(SA) \cup IdentsMay(SB))] :
               RenamingAdmissible(SA, SB, flt, sg)} : d \in DomChoices(SA, SB, flt)}

Next ==
    /\ n < MaxOps
    /\ n' = n + 1
    /\ \E ab \in Operands :
         LET SA == ab[1]  SB0 == ab[2] IN
         /\ Len(SA) + Len(SB0) <= MaxLen
         /\ \/ \E m \in IdChoices(SA, SB0) : FuseAct(SA, SB0, m)
            \/ /\ WithDaf
               /\ \E flt \in Filters : \E sg \in SgChoices(SA, SB0, flt) :
                  \E m \in IdChoices(SA, Disambiguated(SB0, sg)) : DafAct(SA, SB0, flt, sg, m)

vars == << cur, last, n >>
=============================================================================
