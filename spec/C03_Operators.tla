---------------------------- MODULE C03_Operators ----------------------------
(***************************************************************************)
(* C03 - operator overloading builds trees that mean what the operators    *)
(* mean.                                                                   *)
(*                                                                         *)
(* An operator program is a record                                         *)
(*   [t |-> "leaf", e |-> Expr]          operand (expression or Const)     *)
(*   [t |-> "bin",  op, l, r]            l op r   op \in BinOps            *)
(*   [t |-> "un",   op, a]               op \in {"-", "+", "~", "not_"}    *)
(*   [t |-> "cmp",  op, l, r]            l.eq(r) ... the constructor       *)
(*                                       methods; op the comparison symbol *)
(*   [t |-> "log",  op, l, r]            l.and_(r) / l.or_(r)              *)
(*   [t |-> "ord",  op, l, r]            l < r ...  must raise TypeError   *)
(*   [t |-> "call", f, args, kw]         f(args.., kw..)                     *)
(*   [t |-> "idx",  a, i]                a[i]                              *)
(*   [t |-> "attr", a, name]             a.attr(name)                      *)
(*   [t |-> "attra", a, name]            a.a.<name>  (the attribute spelling) *)
(*                                                                         *)
(* M-layer: Plain(prog, env) - the same computation on plain numbers.      *)
(* A-layer: Build(prog) - pymbolic.primitives' operator methods with their *)
(* construction-time shortcuts, transcribed as the code has them.          *)
(***************************************************************************)
EXTENDS Eval

Leaf(e)            == [t |-> "leaf", e |-> e]
BinP(op, l, r)     == [t |-> "bin", op |-> op, l |-> l, r |-> r]
UnP(op, a)         == [t |-> "un", op |-> op, a |-> a]
CmpP(op, l, r)     == [t |-> "cmp", op |-> op, l |-> l, r |-> r]
LogP(op, l, r)     == [t |-> "log", op |-> op, l |-> l, r |-> r]
OrdP(op, l, r)     == [t |-> "ord", op |-> op, l |-> l, r |-> r]
CallP(f, args, kw) == [t |-> "call", f |-> f, args |-> args, kw |-> kw]
IdxP(a, i)         == [t |-> "idx", a |-> a, i |-> i]
AttrP(a, name)     == [t |-> "attr", a |-> a, name |-> name]
AttraP(a, name)    == [t |-> "attra", a |-> a, name |-> name]
\* augmented assignment:   a = l;  b = a;  a op= r;   the program's result is a (obs "target")
\* or b (obs "alias": the other name still bound to the object that l built)
AugP(op, l, r, obs) == [t |-> "aug", op |-> op, l |-> l, r |-> r, obs |-> obs]

PKids(p) ==
    CASE p.t = "leaf" -> << >>
      [] p.t \in {"bin", "cmp", "log", "ord", "aug"} -> << p.l, p.r >>
      [] p.t = "un" -> << p.a >>
      [] p.t = "call" -> << p.f >> \o p.args \o [i \in 1..Len(p.kw) |-> p.kw[i].e]
      [] p.t = "idx" -> << p.a, p.i >>
      [] p.t \in {"attr", "attra"} -> << p.a >>

RECURSIVE PLeaves(_)
PLeaves(p) == IF p.t = "leaf" THEN {p.e}
              ELSE UNION {PLeaves(PKids(p)[i]) : i \in 1..Len(PKids(p))}

(***************************************************************************)
(* M-layer                                                                 *)
(***************************************************************************)
RECURSIVE Plain(_, _)
Plain(p, env) ==
    CASE p.t = "leaf" -> Eval(p.e, env)
      [] p.t = "bin" -> PyBin(p.op, Plain(p.l, env), Plain(p.r, env))
      \* values do not change under the names bound to them: after  a op= r  the name a means
      \* l op r, and every other name of l's object still means l
      [] p.t = "aug" -> LET lv == Plain(p.l, env) bv == PyBin(p.op, lv, Plain(p.r, env)) IN
                        IF p.obs = "target" \/ IsErr(bv) \/ IsUnrep(bv) THEN bv ELSE lv
      [] p.t = "un" -> PyUn(IF p.op = "not_" THEN "not" ELSE p.op, Plain(p.a, env))
      [] p.t = "cmp" -> PyCompare(p.op, Plain(p.l, env), Plain(p.r, env))
      \* the plain computation is Python's own "a or b" / "a and b": the right operand is not
      \* computed when the left one decides (so it is DEFINED there even if the right one raises)
      [] p.t = "log" ->
            LET a == Plain(p.l, env) IN
            IF IsUnrep(a) \/ IsErr(a) THEN a
            ELSE IF Truthy(a) = (p.op = "or") THEN BoolV(p.op = "or")
            ELSE LET b == Plain(p.r, env) IN
                 IF IsUnrep(b) \/ IsErr(b) THEN b ELSE BoolV(Truthy(b))
      [] p.t = "ord" -> Err("TypeError")
      [] p.t = "call" ->
            LET fv == Plain(p.f, env)
                vs == [i \in 1..Len(p.args) |-> Plain(p.args[i], env)]
                ks == [i \in 1..Len(p.kw) |-> [name |-> p.kw[i].name, v |-> Plain(p.kw[i].e, env)]]
            IN Strict(<< fv >> \o vs \o [i \in 1..Len(ks) |-> ks[i].v],
                      IF fv.k = "fn" THEN FnApply(fv.name, vs, ks) ELSE Err("TypeError"))
      [] p.t = "idx" -> LET a == Plain(p.a, env) i == Plain(p.i, env) IN
                        Strict(<< a, i >>, Index(a, i))
      [] p.t \in {"attr", "attra"} -> LET a == Plain(p.a, env) IN
                         IF IsUnrep(a) \/ IsErr(a) THEN a
                         ELSE IF a.k = "obj" THEN ObjAttr(a.name, p.name)
                         ELSE Err("AttributeError")

(***************************************************************************)
(* A-layer: primitives.py                                                  *)
(***************************************************************************)
NotImpl == [t |-> "NotImplemented"]
Raise(e) == [t |-> "Raise", e |-> e]
IsRaise(x) == x.t = "Raise"

IsC(e)      == e.t = "Const"
IsBoolC(e)  == IsC(e) /\ e.v.k = "bool"
IsExprNode(e) == ~IsC(e) /\ e.t \notin {"Tup", "List", "None", "NotImplemented", "Raise"}
is_constant(e) == IsC(e)
is_number(e)   == IsC(e) /\ ~IsBoolC(e)
is_valid_operand(e) == IsExprNode(e) \/ IsC(e)
is_arithmetic_expression(e) == ~IsBoolC(e) /\ is_valid_operand(e)

\* bool(obj): Sum / Product / QuotientBase / Slice override __bool__
RECURSIVE ExprBool(_)
ExprBool(e) ==
    CASE e.t = "Const" -> e.v.n # 0
      [] e.t = "Sum" -> IF Len(e.c) = 1 THEN ExprBool(e.c[1]) ELSE TRUE
      [] e.t = "Product" -> \A i \in 1..Len(e.c) : ExprBool(e.c[i])
      [] e.t \in {"Quotient", "FloorDiv", "Remainder"} -> ExprBool(e.a)
      [] e.t \in {"Tup", "List"} -> Len(e.c) > 0
      [] OTHER -> TRUE
is_nonzero(e) == ExprBool(e)
is_zero(e) == ~ExprBool(e)

\* number arithmetic on constants (Python's own operators on two numbers)
ConstBin(op, a, b) ==
    LET v == PyBin(op, a.v, b.v) IN
    IF IsErr(v) THEN Raise(v.e) ELSE IF IsUnrep(v) THEN Raise("Unrep") ELSE K(v)

\* "other - 1" as the shortcuts compute it: a number stays a number; for an expression
\* the result is some expression whose truth value is what the code looks at
MinusOneIsZero(other) == IsC(other) /\ other.v.n = other.v.d

\* -other as Expression.__sub__ computes it
RECURSIVE RMul(_, _), Neg(_)
\* other * self  with other a number  (Expression.__rmul__ / Product.__rmul__)
RMul(other, self) ==
    IF ~is_constant(other) THEN NotImpl
    ELSE IF self.t = "Product" THEN
        (IF is_zero(other) THEN KI(0)
         ELSE IF MinusOneIsZero(other) THEN self
         ELSE N("Product", << other >> \o self.c))
    ELSE IF MinusOneIsZero(other) THEN self
    ELSE IF is_zero(other) THEN KI(0)
    ELSE N("Product", << other, self >>)
Neg(e) == IF IsC(e) THEN K(PyUn("-", e.v)) ELSE RMul(KI(-1), e)

\* Expression.__add__ (not the Sum override)
ExprAdd(self, other) ==
    IF ~is_arithmetic_expression(other) THEN NotImpl
    ELSE IF is_nonzero(other) THEN
        (IF ExprBool(self) THEN
            (IF other.t = "Sum" THEN N("Sum", << self >> \o other.c)
             ELSE N("Sum", << self, other >>))
         ELSE other)
    ELSE self

Add(self, other) ==
    IF self.t = "Sum" THEN
        (IF ~is_valid_operand(other) THEN NotImpl
         ELSE IF other.t = "Sum" THEN N("Sum", self.c \o other.c)
         ELSE IF ~ExprBool(other) THEN self
         ELSE N("Sum", self.c \o << other >>))
    ELSE ExprAdd(self, other)

RAdd(other, self) ==      \* other + self, other a number
    IF self.t = "Sum" THEN
        (IF ~is_constant(other) THEN NotImpl
         ELSE IF ~ExprBool(other) THEN self
         ELSE N("Sum", << other >> \o self.c))
    ELSE IF ~is_number(other) THEN Raise("AssertionError")
    ELSE IF is_nonzero(other) THEN
        (IF ExprBool(self) THEN N("Sum", << other, self >>) ELSE other)
    ELSE self

Sub(self, other) ==
    IF self.t = "Sum" THEN
        (IF ~is_valid_operand(other) THEN NotImpl
         ELSE IF ~ExprBool(other) THEN self
         ELSE N("Sum", self.c \o << Neg(other) >>))
    ELSE IF ~is_valid_operand(other) THEN NotImpl
    ELSE IF is_nonzero(other) THEN ExprAdd(self, Neg(other))
    ELSE self

RSub(other, self) ==
    IF ~is_constant(other) THEN NotImpl
    ELSE IF is_nonzero(other) THEN N("Sum", << other, Neg(self) >>)
    ELSE Neg(self)

Mul(self, other) ==
    IF ~is_valid_operand(other) THEN NotImpl
    ELSE IF self.t = "Product" THEN
        (IF other.t = "Product" THEN N("Product", self.c \o other.c)
         ELSE IF is_zero(other) THEN KI(0)
         ELSE IF MinusOneIsZero(other) THEN self
         ELSE N("Product", self.c \o << other >>))
    ELSE IF MinusOneIsZero(other) THEN self
    ELSE IF is_zero(other) THEN KI(0)
    ELSE N("Product", << self, other >>)

\* primitives.quotient(): Rational only for two Euclidean-ring numbers
QuotientFn(num, den) ==
    IF MinusOneIsZero(den) THEN num ELSE B("Quotient", num, den)

Div(self, other) ==
    IF ~is_valid_operand(other) THEN NotImpl
    ELSE IF MinusOneIsZero(other) THEN self
    ELSE QuotientFn(self, other)
RDiv(other, self) ==
    IF ~is_valid_operand(other) THEN NotImpl
    ELSE IF is_zero(other) THEN KI(0)
    ELSE QuotientFn(other, self)

FloorDivOp(self, other) ==
    IF ~is_valid_operand(other) THEN NotImpl
    ELSE IF MinusOneIsZero(other) THEN self
    ELSE B("FloorDiv", self, other)
RFloorDiv(other, self) ==
    IF ~is_arithmetic_expression(other) THEN NotImpl
    ELSE B("FloorDiv", other, self)

ModOp(self, other) ==
    IF ~is_valid_operand(other) THEN NotImpl
    ELSE IF MinusOneIsZero(other) THEN KI(0)
    ELSE B("Remainder", self, other)
RMod(other, self) ==
    IF ~is_valid_operand(other) THEN NotImpl ELSE B("Remainder", other, self)

PowOp(self, other) ==
    IF ~is_valid_operand(other) THEN NotImpl
    ELSE IF is_zero(other) THEN KI(1)
    ELSE IF MinusOneIsZero(other) THEN self
    ELSE B("Power", self, other)
RPow(other, self) ==
    IF ~is_constant(other) THEN Raise("AssertionError")
    ELSE IF is_zero(other) THEN KI(0)
    ELSE IF MinusOneIsZero(other) THEN KI(1)
    ELSE B("Power", other, self)

BitNodeKind(op) == CASE op = "|" -> "BitOr" [] op = "^" -> "BitXor" [] op = "&" -> "BitAnd"

\* l op r as Python dispatches it when at least one side is an expression
BuildBin(op, l, r) ==
    IF IsC(l) /\ IsC(r) THEN ConstBin(op, l, r)
    ELSE IF ~IsExprNode(l) /\ ~IsC(l) THEN Raise("TypeError")
    ELSE IF ~IsExprNode(r) /\ ~IsC(r) THEN Raise("TypeError")
    ELSE LET fwd ==
                IF ~IsExprNode(l) THEN NotImpl       \* int.__add__(expr) -> NotImplemented
                ELSE CASE op = "+"  -> Add(l, r)
                       [] op = "-"  -> Sub(l, r)
                       [] op = "*"  -> Mul(l, r)
                       [] op = "/"  -> Div(l, r)
                       [] op = "//" -> FloorDivOp(l, r)
                       [] op = "%"  -> ModOp(l, r)
                       [] op = "**" -> PowOp(l, r)
                       [] op = "<<" -> B("LShift", l, r)
                       [] op = ">>" -> B("RShift", l, r)
                       [] op \in {"|", "^", "&"} -> N(BitNodeKind(op), << l, r >>)
             rev ==
                IF ~IsExprNode(r) THEN NotImpl
                ELSE CASE op = "+"  -> RAdd(l, r)
                       [] op = "-"  -> RSub(l, r)
                       [] op = "*"  -> RMul(l, r)
                       [] op = "/"  -> RDiv(l, r)
                       [] op = "//" -> RFloorDiv(l, r)
                       [] op = "%"  -> RMod(l, r)
                       [] op = "**" -> RPow(l, r)
                       [] op = "<<" -> B("LShift", l, r)
                       [] op = ">>" -> B("RShift", l, r)
                       [] op \in {"|", "^", "&"} -> N(BitNodeKind(op), << l, r >>)
         IN IF fwd # NotImpl THEN fwd
            \* the reflected method is only tried when the left operand is not an
            \* expression (all pymbolic classes define the forward method)
            ELSE IF IsExprNode(l) THEN Raise("TypeError")
            ELSE IF rev # NotImpl THEN rev ELSE Raise("TypeError")

RECURSIVE Build(_)
BuildSeq(ps) == [i \in 1..Len(ps) |-> Build(ps[i])]
FirstRaise(xs, k) ==
    IF \E i \in 1..Len(xs) : IsRaise(xs[i])
    THEN xs[CHOOSE i \in 1..Len(xs) : IsRaise(xs[i]) /\ \A j \in 1..(i - 1) : ~IsRaise(xs[j])]
    ELSE k
Build(p) ==
    CASE p.t = "leaf" -> p.e
      [] p.t = "bin" -> LET l == Build(p.l) r == Build(p.r) IN
                        FirstRaise(<< l, r >>, BuildBin(p.op, l, r))
      \* no in-place operator methods: op= falls back to the binary operator and rebinds
      [] p.t = "aug" -> LET l == Build(p.l) r == Build(p.r) b == BuildBin(p.op, l, r) IN
                        FirstRaise(<< l, r >>, IF p.obs = "target" \/ IsRaise(b) THEN b ELSE l)
      [] p.t = "un" -> LET a == Build(p.a) IN
            IF IsRaise(a) THEN a
            ELSE IF IsC(a) THEN
                (IF p.op = "not_" THEN Raise("AttributeError")
                 ELSE LET v == PyUn(p.op, a.v) IN IF IsErr(v) THEN Raise(v.e) ELSE K(v))
            ELSE (CASE p.op = "-" -> Neg(a) [] p.op = "+" -> a
                    [] p.op = "~" -> U("BitNot", a) [] p.op = "not_" -> U("LogNot", a))
      [] p.t = "cmp" -> LET l == Build(p.l) r == Build(p.r) IN
            FirstRaise(<< l, r >>, IF IsC(l) THEN Raise("AttributeError") ELSE Cmp(l, p.op, r))
      [] p.t = "log" -> LET l == Build(p.l) r == Build(p.r) IN
            FirstRaise(<< l, r >>,
                IF IsC(l) THEN Raise("AttributeError")
                ELSE N(IF p.op = "and" THEN "LogAnd" ELSE "LogOr", << l, r >>))
      [] p.t = "ord" -> LET l == Build(p.l) r == Build(p.r) IN
            FirstRaise(<< l, r >>, Raise("TypeError"))
      [] p.t = "call" ->
            LET f == Build(p.f) as == BuildSeq(p.args)
                ks == [i \in 1..Len(p.kw) |-> Build(p.kw[i].e)] IN
            FirstRaise(<< f >> \o as \o ks,
                IF IsC(f) THEN Raise("TypeError")
                ELSE IF Len(p.kw) = 0 THEN Call(f, as)
                ELSE CallKw(f, as, [i \in 1..Len(p.kw) |-> KwArg(p.kw[i].name, ks[i])]))
      [] p.t = "idx" -> LET a == Build(p.a) i == Build(p.i) IN
            FirstRaise(<< a, i >>,
                IF IsC(a) THEN Raise("TypeError")
                ELSE IF i.t = "Tup" /\ Len(i.c) = 0 THEN a     \* deprecated special case
                ELSE B("Sub", a, i))
      [] p.t \in {"attr", "attra"} -> LET a == Build(p.a) IN
            IF IsRaise(a) THEN a ELSE IF IsC(a) THEN Raise("AttributeError")
            ELSE Look(a, p.name)

(***************************************************************************)
(* The judgement (shared by the model check and the trace judge)           *)
(***************************************************************************)
HasBoolLeaf(p) == \E e \in PLeaves(p) : IsBoolC(e)
RECURSIVE HasOrd(_)
HasOrd(p) == p.t = "ord" \/ \E i \in 1..Len(PKids(p)) : HasOrd(PKids(p)[i])

\* verdict for one (program, built object, environment)
\*   built: [r |-> "ok", e |-> tree]  or  [r |-> "err", v |-> err value]
JudgeEnv(p, built, env) ==
    LET pv == Plain(p, env) IN
    IF IsErr(pv) \/ IsUnrep(pv) THEN "NA"           \* plain computation undefined here
    ELSE IF built.r # "ok" THEN "raised"
    ELSE LET tv == Eval(built.e, env) IN
         IF IsUnrep(tv) THEN "SKIP"
         ELSE IF IsErr(tv) THEN "tree-raises"
         ELSE IF ValEq(pv, tv) THEN "OK" ELSE "wrong-value"

\* verdict over a sequence of environments
Judge(p, built, envs) ==
    LET vs == [i \in 1..Len(envs) |-> JudgeEnv(p, built, envs[i])]
        bad(i) == vs[i] \in {"tree-raises", "wrong-value"}
    IN  IF HasOrd(p) THEN
            (IF built.r = "err" /\ built.v.e = "TypeError" THEN [v |-> "OK", env |-> 0]
             ELSE [v |-> "order-comparison-did-not-raise-TypeError", env |-> 0])
        ELSE IF \E i \in 1..Len(vs) : bad(i)
             THEN LET i == CHOOSE i \in 1..Len(vs) : bad(i) /\ \A j \in 1..(i - 1) : ~bad(j)
                  IN [v |-> vs[i], env |-> i]
        ELSE IF built.r # "ok" THEN
            \* a refusal at construction time: tolerated for boolean operands (documented
            \* type guard) and when the plain computation is defined nowhere in the box
            (IF HasBoolLeaf(p) \/ \A i \in 1..Len(vs) : vs[i] = "NA"
             THEN [v |-> "REFUSED", env |-> 0]
             ELSE [v |-> "construction-raised", env |-> 0])
        ELSE IF \A i \in 1..Len(vs) : vs[i] \in {"NA", "SKIP"} THEN [v |-> "SKIP", env |-> 0]
        ELSE [v |-> "OK", env |-> 0]

\* the A-layer's prediction in the shape the driver records
BuiltOf(x) == IF IsRaise(x) THEN [r |-> "err", v |-> Err(x.e)] ELSE [r |-> "ok", e |-> x]
=============================================================================
