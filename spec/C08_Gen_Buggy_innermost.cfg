CONSTANT Tier = "quick"
CONSTANT Mode = "exh"
CONSTANT Bug = "innermost"
INIT Init
NEXT Next
INVARIANT Lemma
CHECK_DEADLOCK FALSE
