------------------------------- MODULE C10_Ops -------------------------------
(***************************************************************************)
(* A-layer: the overloaded arithmetic operators of pymbolic/primitives.py  *)
(* (+ - * / ** with their construction-time short cuts), which             *)
(* differentiator.py uses to assemble its results.  This is the arithmetic *)
(* part of the transcription in C03_Operators.tla (validated there against *)
(* the real operators), copied so that C10 does not depend on another      *)
(* property's module.                                                      *)
(***************************************************************************)
EXTENDS Eval

NotImpl == [t |-> "NotImplemented"]
Raise(e) == [t |-> "Raise", e |-> e]
IsRaise(x) == x.t = "Raise"

IsC(e)      == e.t = "Const"
IsBoolC(e)  == IsC(e) /\ e.v.k = "bool"
IsExprNode(e) == ~IsC(e) /\ e.t \notin {"Tup", "List", "None", "NotImplemented", "Raise"}
is_constant(e) == IsC(e)
is_number(e)   == IsC(e) /\ ~IsBoolC(e)
is_valid_operand(e) == IsExprNode(e) \/ IsC(e)
is_arithmetic_expression(e) == ~IsBoolC(e) /\ is_valid_operand(e)

\* bool(obj): Sum / Product / QuotientBase / Slice override __bool__
RECURSIVE ExprBool(_)
ExprBool(e) ==
    CASE e.t = "Const" -> e.v.n # 0
      [] e.t = "Sum" -> IF Len(e.c) = 1 THEN ExprBool(e.c[1]) ELSE TRUE
      [] e.t = "Product" -> \A i \in 1..Len(e.c) : ExprBool(e.c[i])
      [] e.t \in {"Quotient", "FloorDiv", "Remainder"} -> ExprBool(e.a)
      [] e.t \in {"Tup", "List"} -> Len(e.c) > 0
      [] OTHER -> TRUE
is_nonzero(e) == ExprBool(e)
is_zero(e) == ~ExprBool(e)

\* number arithmetic on constants (Python's own operators on two numbers)
ConstBin(op, a, b) ==
    LET v == PyBin(op, a.v, b.v) IN
    IF IsErr(v) THEN Raise(v.e) ELSE IF IsUnrep(v) THEN Raise("Unrep") ELSE K(v)

\* "other - 1" as the shortcuts compute it: a number stays a number; for an expression
\* the result is some expression whose truth value is what the code looks at
MinusOneIsZero(other) == IsC(other) /\ other.v.n = other.v.d

\* -other as Expression.__sub__ computes it
RECURSIVE RMul(_, _), Neg(_)
\* other * self  with other a number  (Expression.__rmul__ / Product.__rmul__)
RMul(other, self) ==
    IF ~is_constant(other) THEN NotImpl
    ELSE IF self.t = "Product" THEN
        (IF is_zero(other) THEN KI(0)
         ELSE IF MinusOneIsZero(other) THEN self
         ELSE N("Product", << other >> \o self.c))
    ELSE IF MinusOneIsZero(other) THEN self
    ELSE IF is_zero(other) THEN KI(0)
    ELSE N("Product", << other, self >>)
Neg(e) == IF IsC(e) THEN K(PyUn("-", e.v)) ELSE RMul(KI(-1), e)

\* Expression.__add__ (not the Sum override)
ExprAdd(self, other) ==
    IF ~is_arithmetic_expression(other) THEN NotImpl
    ELSE IF is_nonzero(other) THEN
        (IF ExprBool(self) THEN
            (IF other.t = "Sum" THEN N("Sum", << self >> \o other.c)
             ELSE N("Sum", << self, other >>))
         ELSE other)
    ELSE self

Add(self, other) ==
    IF self.t = "Sum" THEN
        (IF ~is_valid_operand(other) THEN NotImpl
         ELSE IF other.t = "Sum" THEN N("Sum", self.c \o other.c)
         ELSE IF ~ExprBool(other) THEN self
         ELSE N("Sum", self.c \o << other >>))
    ELSE ExprAdd(self, other)

RAdd(other, self) ==      \* other + self, other a number
    IF self.t = "Sum" THEN
        (IF ~is_constant(other) THEN NotImpl
         ELSE IF ~ExprBool(other) THEN self
         ELSE N("Sum", << other >> \o self.c))
    ELSE IF ~is_number(other) THEN Raise("AssertionError")
    ELSE IF is_nonzero(other) THEN
        (IF ExprBool(self) THEN N("Sum", << other, self >>) ELSE other)
    ELSE self

Sub(self, other) ==
    IF self.t = "Sum" THEN
        (IF ~is_valid_operand(other) THEN NotImpl
         ELSE IF ~ExprBool(other) THEN self
         ELSE N("Sum", self.c \o << Neg(other) >>))
    ELSE IF ~is_valid_operand(other) THEN NotImpl
    ELSE IF is_nonzero(other) THEN ExprAdd(self, Neg(other))
    ELSE self

RSub(other, self) ==
    IF ~is_constant(other) THEN NotImpl
    ELSE IF is_nonzero(other) THEN N("Sum", << other, Neg(self) >>)
    ELSE Neg(self)

Mul(self, other) ==
    IF ~is_valid_operand(other) THEN NotImpl
    ELSE IF self.t = "Product" THEN
        (IF other.t = "Product" THEN N("Product", self.c \o other.c)
         ELSE IF is_zero(other) THEN KI(0)
         ELSE IF MinusOneIsZero(other) THEN self
         ELSE N("Product", self.c \o << other >>))
    ELSE IF MinusOneIsZero(other) THEN self
    ELSE IF is_zero(other) THEN KI(0)
    ELSE N("Product", << self, other >>)

\* primitives.quotient(): Rational only for two Euclidean-ring numbers
QuotientFn(num, den) ==
    IF MinusOneIsZero(den) THEN num ELSE B("Quotient", num, den)

Div(self, other) ==
    IF ~is_valid_operand(other) THEN NotImpl
    ELSE IF MinusOneIsZero(other) THEN self
    ELSE QuotientFn(self, other)
RDiv(other, self) ==
    IF ~is_valid_operand(other) THEN NotImpl
    ELSE IF is_zero(other) THEN KI(0)
    ELSE QuotientFn(other, self)

PowOp(self, other) ==
    IF ~is_valid_operand(other) THEN NotImpl
    ELSE IF is_zero(other) THEN KI(1)
    ELSE IF MinusOneIsZero(other) THEN self
    ELSE B("Power", self, other)
RPow(other, self) ==
    IF ~is_constant(other) THEN Raise("AssertionError")
    ELSE IF is_zero(other) THEN KI(0)
    ELSE IF MinusOneIsZero(other) THEN KI(1)
    ELSE B("Power", other, self)

\* l op r as Python dispatches it when at least one side is an expression
BuildBin(op, l, r) ==
    IF IsC(l) /\ IsC(r) THEN ConstBin(op, l, r)
    ELSE IF ~IsExprNode(l) /\ ~IsC(l) THEN Raise("TypeError")
    ELSE IF ~IsExprNode(r) /\ ~IsC(r) THEN Raise("TypeError")
    ELSE LET fwd ==
                IF ~IsExprNode(l) THEN NotImpl       \* int.__add__(expr) -> NotImplemented
                ELSE CASE op = "+"  -> Add(l, r)
                       [] op = "-"  -> Sub(l, r)
                       [] op = "*"  -> Mul(l, r)
                       [] op = "/"  -> Div(l, r)
                       [] op = "**" -> PowOp(l, r)
             rev ==
                IF ~IsExprNode(r) THEN NotImpl
                ELSE CASE op = "+"  -> RAdd(l, r)
                       [] op = "-"  -> RSub(l, r)
                       [] op = "*"  -> RMul(l, r)
                       [] op = "/"  -> RDiv(l, r)
                       [] op = "**" -> RPow(l, r)
         IN IF fwd # NotImpl THEN fwd
            ELSE IF IsExprNode(l) THEN Raise("TypeError")
            ELSE IF rev # NotImpl THEN rev ELSE Raise("TypeError")

FirstRaise(xs, k) ==
    IF \E i \in 1..Len(xs) : IsRaise(xs[i])
    THEN xs[CHOOSE i \in 1..Len(xs) : IsRaise(xs[i]) /\ \A j \in 1..(i - 1) : ~IsRaise(xs[j])]
    ELSE k
=============================================================================
