INIT Init
NEXT Next
INVARIANT Emit
CHECK_DEADLOCK FALSE
