------------------------------ MODULE C01_Judge ------------------------------
(***************************************************************************)
(* Stage (3) for C01: trace validation.  Every trace recorded from the     *)
(* real pymbolic (harness/c01drv.py) is replayed through the C01_Objects   *)
(* state machine: one TLC step per recorded event, the event must be       *)
(* allowed by Check in the model state reached so far (Immutable,          *)
(* HashStable, EqIsPyEq, NeIsNotPyEq, DictFindsEqual, HashRespectsEq,      *)
(* CopyKeepsFields, BuiltHashable, BuiltAsGiven ...); round 6: lifetimes   *)
(* end (Drop) and later objects are recorded with the address they got -   *)
(* the clauses never read it, the report says whether it was a dead        *)
(* object's.                                                               *)
(* and the successor state is Post.  The step relation is total: the       *)
(* first clause a trace contradicts becomes its verdict and the trace      *)
(* stops; every trace ends with exactly one printed verdict line.          *)
(* The A-layer's prediction is compared as well and only counted (drift).  *)
(***************************************************************************)
EXTENDS C01_Objects, Json, IOUtils
VARIABLES tid, l, verdict, drift

Traces == ndJsonDeserialize(IOEnv.TRACE_FILE)

Full(rec, r) ==
    [k |-> r.k, b |-> r.b, h |-> r.h, exc |-> r.exc, v |-> r.v, ad |-> r.ad,
     proj |-> [q \in 1..Len(r.proj) |->
                 [tree |-> rec.trees[r.proj[q].tr], hashed |-> r.proj[q].hashed,
                  h |-> r.proj[q].h]]]

Init == /\ tid \in 1..Len(Traces)
        /\ l = 1 /\ verdict = "" /\ drift = 0
        /\ ModelInit

Next ==
    /\ verdict = ""
    /\ l <= Len(Traces[tid].evs)
    /\ LET rec == Traces[tid]
           e   == rec.evs[l]
           r   == Full(rec, e.r)
           c   == Check(Cur, e.ev, r)
           po  == Post(Cur, e.ev, r)
       IN IF c = "OK"
          THEN /\ objs' = po.objs
               /\ dict' = po.dict
               /\ cmemo' = po.cm
               /\ heap' = po.hp
               /\ last' = [ev |-> e.ev, chk |-> c, dev |-> ""]
               /\ l' = l + 1
               /\ drift' = drift + (IF Drift(Cur, e.ev, r) THEN 1 ELSE 0)
               /\ UNCHANGED verdict
          ELSE /\ verdict' = c
               /\ last' = [ev |-> e.ev, chk |-> c, dev |-> ""]
               /\ UNCHANGED << objs, dict, cmemo, heap, l, drift >>
    /\ UNCHANGED tid

\* the S-layer invariant holds in every state the judge accepts (belt and braces: Check
\* already refuses the step that would break it)
JudgeInv == verdict = "" => (HashRespectsEqOn(objs) /\ DictKeysDistinctOn(Cur))

ClsOf(i) == IF i \in 1..Len(objs) THEN objs[i].tree.cls ELSE ""
\* names of the fields in which objects i and j (same class) are not ==
NeqFields(i, j) ==
    IF i \in 1..Len(objs) /\ j \in 1..Len(objs) /\ ClsOf(i) = ClsOf(j)
    THEN LET fs == FieldsOf(ClsOf(i)) IN
         { fs[k] : k \in { k2 \in 1..Len(fs) : ~PyEq(objs[i].tree.f[k2], objs[j].tree.f[k2]) } }
    ELSE {}

\* how the k-th live object came to be: the k-th recorded event that created an object
ViaOf(e) == IF e.ev.op = "New" THEN e.ev.md
            ELSE IF e.ev.op = "Copy" /\ e.ev.md = "pickle" THEN "pickle" ELSE ""
arrival == LET evs == Traces[tid].evs
               cr  == SelectSeq(SubSeq(evs, 1, l - 1), LAMBDA e : e.r.k = "new")
           IN [k \in 1..Len(cr) |-> ViaOf(cr[k])]

Done == verdict # "" \/ l > Len(Traces[tid].evs)
Report ==
    Done =>
      LET rec == Traces[tid] IN
      \* reu: how many objects of the accepted history were given the address of a dead one
      IF verdict = "" THEN PrintT(ToJson([id |-> rec.id, v |-> "OK", n |-> l - 1, drift |-> drift,
                                          reu |-> Cardinality(OnReusedAddr(heap))]))
      ELSE LET ev == last.ev IN
           PrintT(ToJson([id |-> rec.id, v |-> verdict, n |-> l, drift |-> drift,
                          op |-> ev.op, fn |-> ev.fn, md |-> ev.md,
                          reu |-> Cardinality(OnReusedAddr(heap)),
                          \* one of the objects the step is about sits at the address of a dead one
                          addr |-> IF ev.op # "New" /\ {ev.i, ev.j} \cap OnReusedAddr(heap) # {}
                                   THEN "reused" ELSE "",
                          \* how the compared / looked-up objects came to be here ("" = built here)
                          via |-> { arrival[k] : k \in { k2 \in 1..Len(arrival) :
                                       k2 \in {ev.i, ev.j} \/ ev.op \notin {"Eq", "Ne"} } } \ {""},
                          \* a New event: the class that was built and the forms its mappings were given in
                          cls0 |-> IF ev.op = "New" /\ ev.spec.t = "N" THEN ev.spec.cls ELSE "",
                          forms |-> IF ev.op = "New" THEN FormsIn(ev.spec) ELSE {},
                          ci |-> ClsOf(ev.i), cj |-> ClsOf(ev.j),
                          tmpl |-> IF ClsOf(ev.i) = "" THEN "" ELSE TmplOf(ClsOf(ev.i)),
                          own |-> IF ClsOf(ev.i) # "" /\ ev.fn # ""
                                  THEN (IF FieldIndex(ClsOf(ev.i), ev.fn) > OwnCount(ClsOf(ev.i))
                                        THEN "legacy-arg" ELSE "dataclass-field")
                                  ELSE "",
                          neq |-> NeqFields(ev.i, ev.j)]))
=============================================================================
