------------------------------ MODULE C15_Impl ------------------------------
(***************************************************************************)
(* A-layer for C15: CoefficientCollector (mapper/coefficient.py) as the    *)
(* code has it.  A coefficient dict is a sequence of [key, coeff] pairs in *)
(* insertion order (the key 1 is the tree Const 1); every arithmetic step  *)
(* on coefficients is the operator the code applies to them, i.e. pymbolic's*)
(* own overloads as transcribed in C03_Operators (BuildBin), so the        *)
(* prediction is tree-exact.  Checked against the M-layer (JudgeCoeffs) on  *)
(* the model in C15_Gen; compared with the real result as drift.            *)
(***************************************************************************)
EXTENDS C15_Linear, C03_Operators

One == KI(1)
Refuse(err) == [ok |-> FALSE, err |-> err]
Dict(d) == [ok |-> TRUE, d |-> d]
Has(d, k) == \E i \in 1..Len(d) : d[i].key = k
Ix(d, k) == CHOOSE i \in 1..Len(d) : d[i].key = k
Get(d, k) == d[Ix(d, k)].coeff
Put(d, k, v) == IF Has(d, k) THEN [d EXCEPT ![Ix(d, k)].coeff = v] ELSE Append(d, [key |-> k, coeff |-> v])
Pair(k, v) == [key |-> k, coeff |-> v]

\* kinds that reach map_algebraic_leaf through the class-hierarchy fall-back
LeafLike(e) == e.t \in {"Var", "Sub", "Look", "Call", "CallKw"}

\* strict map over a sequence (a TLC function constructor would be re-evaluated on every access)
SeqMap(F(_), s) == LET RECURSIVE Go(_) Go(i) == IF i > Len(s) THEN << >> ELSE << F(s[i]) >> \o Go(i + 1)
                   IN Go(1)
RECURSIVE CCollect(_, _, _)
CCollect(e, names, all) ==
    CASE e.t = "Const" -> Dict(<< Pair(One, e) >>)
      [] LeafLike(e) ->
            IF all \/ (e.t = "Var" /\ e.name \in names) THEN Dict(<< Pair(e, One) >>)
            ELSE Dict(<< Pair(One, e) >>)
      [] e.t = "Sum" ->
            LET ds == SeqMap(LAMBDA c : CCollect(c, names, all), e.c) IN
            IF \E i \in 1..Len(ds) : ~ds[i].ok
            THEN ds[CHOOSE i \in 1..Len(ds) : ~ds[i].ok /\ \A j \in 1..(i - 1) : ds[j].ok]
            ELSE LET RECURSIVE Merge(_, _, _)
                     \* result[var] += stride, child by child, entry by entry
                     Merge(res, i, j) ==
                        IF i > Len(ds) THEN Dict(res)
                        ELSE IF j > Len(ds[i].d) THEN Merge(res, i + 1, 1)
                        ELSE LET kv == ds[i].d[j] IN
                             IF Has(res, kv.key)
                             THEN LET s == BuildBin("+", Get(res, kv.key), kv.coeff) IN
                                  IF IsRaise(s) THEN Refuse(s.e) ELSE Merge(Put(res, kv.key, s), i, j + 1)
                             ELSE Merge(Put(res, kv.key, kv.coeff), i, j + 1)
                 IN Merge(<< >>, 1, 1)
      [] e.t = "Product" ->
            LET ds == SeqMap(LAMBDA c : CCollect(c, names, all), e.c) IN
            IF \E i \in 1..Len(ds) : ~ds[i].ok
            THEN ds[CHOOSE i \in 1..Len(ds) : ~ds[i].ok /\ \A j \in 1..(i - 1) : ds[j].ok]
            ELSE LET withVars == { i \in 1..Len(ds) : \E j \in 1..Len(ds[i].d) : ds[i].d[j].key # One } IN
                 IF Cardinality(withVars) > 1 THEN Refuse("RuntimeError")
                 ELSE LET iv == IF withVars = {} THEN 0 ELSE CHOOSE i \in withVars : TRUE
                          RECURSIVE Others(_, _)
                          \* other_coeffs *= child_coeffs[1]  (the assert: exactly the key 1)
                          Others(acc, i) ==
                             IF i > Len(ds) THEN acc
                             ELSE IF i = iv THEN Others(acc, i + 1)
                             ELSE IF IsRaise(acc) THEN acc
                             ELSE Others(BuildBin("*", acc, Get(ds[i].d, One)), i + 1)
                          oc == Others(One, 1)
                      IN IF IsRaise(oc) THEN Refuse(oc.e)
                         ELSE IF iv = 0 THEN Dict(<< Pair(One, oc) >>)
                         ELSE LET prods == SeqMap(LAMBDA kv : BuildBin("*", oc, kv.coeff), ds[iv].d) IN
                              IF \E j \in 1..Len(prods) : IsRaise(prods[j]) THEN Refuse("TypeError")
                              ELSE Dict([j \in 1..Len(prods) |-> Pair(ds[iv].d[j].key, prods[j])])
      [] e.t = "Quotient" ->
            LET dn == CCollect(e.a, names, all) dd == CCollect(e.b, names, all) IN
            IF ~dn.ok THEN dn ELSE IF ~dd.ok THEN dd
            ELSE IF Len(dd.d) > 1 \/ ~Has(dd.d, One) THEN Refuse("RuntimeError")
            ELSE LET inv == B("Quotient", One, Get(dd.d, One))
                     qs == SeqMap(LAMBDA kv : BuildBin("*", kv.coeff, inv), dn.d) IN
                 IF \E j \in 1..Len(qs) : IsRaise(qs[j]) THEN Refuse("TypeError")
                 ELSE Dict([j \in 1..Len(qs) |-> Pair(dn.d[j].key, qs[j])])
      [] e.t = "Power" ->
            LET db == CCollect(e.a, names, all) dx == CCollect(e.b, names, all) IN
            IF ~db.ok THEN db ELSE IF ~dx.ok THEN dx
            ELSE IF Len(dx.d) > 1 \/ ~Has(dx.d, One) THEN Refuse("RuntimeError")
            ELSE IF Len(db.d) > 1 \/ ~Has(db.d, One) THEN Refuse("RuntimeError")
            ELSE Dict(<< Pair(One, e) >>)
      [] OTHER -> Refuse("unknown")          \* node kinds the transcription does not cover

\* the transcription in the shape the driver records
CollectImpl(e, names, all) ==
    LET r == CCollect(e, names, all) IN
    IF r.ok THEN [r |-> "ok", coeffs |-> r.d] ELSE [r |-> "err", v |-> Err(r.err)]
Covered(e, names, all) == LET r == CCollect(e, names, all) IN r.ok \/ r.err # "unknown"
=============================================================================
