------------------------------ MODULE C05_Judge ------------------------------
(***************************************************************************)
(* Stage (3) for C05: trace validation.  A trace is the event list         *)
(* recorded from ONE instance of a real memoizing mapper (harness/         *)
(* c05_mappers.py, c05_optworker.py) while a TLC-generated call history    *)
(* was replayed on it:                                                     *)
(*    H e a        a map_* handler started for (tree e, arguments a)       *)
(*    X e a ok     it returned / raised                                    *)
(*    R e a r f n  the top-level call returned r; f is what the cache-free *)
(*                 counterpart returned when applied afresh                *)
(*    W e a r f F  the same for a traversal that returns nothing: F is the *)
(*                 set of (tree, arguments) the cache-free traversal       *)
(*                 touched                                                 *)
(* (e, a, tree results index the trace's own tables tr / at).              *)
(* The C05_Memo machine is stepped along the events, ONE TLC STEP PER      *)
(* EVENT, with the actions of C05_MemoSM; an event whose guard does not    *)
(* hold ends the trace with the clause it contradicts as verdict           *)
(* (computed-twice, not-transparent, shared-across-types,                  *)
(* shared-across-args, ill-nested, count-mismatch).  Every trace gets      *)
(* exactly one verdict line.  For a failing trace TLC also computes the    *)
(* attribution data: is there a ==-equal-but-differently-typed pair of     *)
(* subtrees / argument tuples in the history so far (coll / acoll), does   *)
(* it contain a list, and does the A-layer (look-aside table keyed through *)
(* ==, C05_MemoImpl with KeyMode "pyeq") predict exactly the recorded      *)
(* result (pred).  For optimizer traces (rec.opt present) the A-layer      *)
(* prediction of C05_Optimizer is attached the same way.                   *)
(* Round 2: results may be foreign objects ("obj": equality protocol + the *)
(* wrapped tuple) and numpy arrays ("arr": dtype, shape, items) - both are *)
(* compared structurally here, never through their own ==.                 *)
(***************************************************************************)
EXTENDS C05_Optimizer, C05_MemoSM, Json, IOUtils
VARIABLES tid, l, verdict, fdrift

Traces == ndJsonDeserialize(IOEnv.TRACE_FILE)

Tree(rec, i) == rec.tr[i + 1]
ArgT(rec, i) == rec.at[i + 1]
KeyEv(rec, ev) == KeyOf("ideal", Tree(rec, ev.e), ArgT(rec, ev.a))
Res(rec, j) ==
    CASE j.rk = "tree" -> [rk |-> "tree", e |-> Tree(rec, j.i)]
      [] j.rk = "set"  -> [rk |-> "set", s |-> { Tree(rec, j.s[q]) : q \in 1..Len(j.s) }]
      [] j.rk = "val"  -> [rk |-> "tree", e |-> K(j.v)]       \* a number is the tree Const
      \* a foreign result object: its equality protocol and the tuple it wraps (read off
      \* its attribute, the object's own == / != are never consulted by the driver)
      [] j.rk = "obj"  -> [rk |-> "obj", eq |-> j.eq, e |-> Tree(rec, j.i)]
      [] OTHER -> j

FullEv(rec, ev) ==
    CASE ev.ev = "H" -> [ev |-> "H", k |-> KeyEv(rec, ev)]
      [] ev.ev = "X" -> [ev |-> "X", k |-> KeyEv(rec, ev), ok |-> ev.ok]
      [] ev.ev = "R" -> [ev |-> "R", k |-> KeyEv(rec, ev), r |-> Res(rec, ev.r), f |-> Res(rec, ev.f)]
      [] ev.ev = "W" -> [ev |-> "W", k |-> KeyEv(rec, ev), r |-> Res(rec, ev.r), f |-> Res(rec, ev.f),
                         F |-> { KeyEv(rec, ev.F[q]) : q \in 1..Len(ev.F) }]

IsTop(ev) == ev.ev \in {"R", "W"}
\* a result that could not be serialised cannot be compared - unless exactly one side
\* raised: an exception where the other returned a value is a difference whatever the value
Unjudgeable(ev) == /\ IsTop(ev)
                   /\ (ev.r.rk = "unser" \/ ev.f.rk = "unser")
                   /\ ~(ev.r.rk = "err" \/ ev.f.rk = "err")

\* the clause a recorded event contradicts in the model state reached so far
Clause(ms, raw, ev) ==
    IF raw.ev = "W" /\ ev.r # ev.f THEN DiffClause(ms, ev.k, ev.r, ev.f)
    ELSE LET c == EventClause(ms, ev) IN
         IF c = "OK" /\ raw.ev = "W" /\ raw.cnt >= 0
            /\ raw.cnt # Cardinality(Done(ms))
         THEN "count-mismatch" ELSE c

\* the cache-free counterpart itself against the M-layer meaning (drift only)
FreshAgrees(rec, ev) ==
    LET mk == rec.mk  e == ev.k.e  a == ev.k.a IN
    IF ev.f.rk = "err" THEN TRUE
    ELSE IF mk.m = "eval" THEN
        (mk.env > 2 \/ ev.f.rk # "tree" \/ ev.f.e.t # "Const"
         \/ JudgeVal(Eval(e, Envs[mk.env]), ev.f.e.v, e, Envs[mk.env]) \in {"OK", "SKIP"})
    ELSE IF mk.m \notin ModelledNames THEN TRUE
    ELSE IF ev.ev = "W" THEN ev.F = TouchedKeys(mk, e, a)
    ELSE LET m == Fresh(mk, e, a) IN
         IF ev.f.rk = "set" THEN ResCanon(ev.f) = ResCanon(m) ELSE ev.f = m

Init == /\ tid \in 1..Len(Traces)
        /\ l = 1 /\ verdict = "" /\ fdrift = 0
        /\ memo = MemoInit

Next ==
    /\ verdict = ""
    /\ l <= Len(Traces[tid].evs)
    /\ LET rec == Traces[tid]
           raw == rec.evs[l]
       IN IF Unjudgeable(raw)
          THEN verdict' = "SKIP" /\ UNCHANGED << memo, l, fdrift >>
          ELSE LET ev == FullEv(rec, raw)
                   c  == Clause(memo, raw, ev)
               IN IF c = "OK"
                  THEN /\ \/ ev.ev = "H" /\ HandlerInvoked(ev.k)
                          \/ ev.ev = "X" /\ HandlerDone(ev.k, ev.ok)
                          \/ ev.ev = "R" /\ Return(ev.k, ev.r, ev.f)
                          \/ ev.ev = "W" /\ ReturnWalk(ev.k, ev.F)
                       /\ l' = l + 1
                       /\ fdrift' = fdrift + (IF IsTop(raw) /\ ~FreshAgrees(rec, ev) THEN 1 ELSE 0)
                       /\ UNCHANGED verdict
                  ELSE /\ verdict' = c
                       /\ UNCHANGED << memo, l, fdrift >>
    /\ UNCHANGED tid

\* the machine's invariant holds in every state the judge accepts
JudgeInv == verdict = "" => AtMostOnce(memo)

\* ------------------------------------------------------------- attribution
TopIdx(rec, upto) == { q \in 1..upto : IsTop(rec.evs[q]) }
SubsUpTo(rec, upto) == UNION { SubExprs(Tree(rec, rec.evs[q].e)) : q \in TopIdx(rec, upto) }
ArgsUpTo(rec, upto) == { ArgT(rec, rec.evs[q].a) : q \in TopIdx(rec, upto) }
CollAt(rec, upto) == TypeCollision(SubExprs(Tree(rec, rec.evs[upto].e)), SubsUpTo(rec, upto))
HasList(e) == \E s \in SubExprs(e) : s.t = "List"

IsOpt(rec) == "opt" \in DOMAIN rec
\* index of the top-level event that ends the call event q belongs to
CallEnd(rec, q) == CHOOSE j \in q..Len(rec.evs) :
                      IsTop(rec.evs[j]) /\ \A jj \in q..(j - 1) : ~IsTop(rec.evs[jj])

\* what the A-layer predicts for this history: the look-aside algorithm keyed through
\* == (C05_MemoImpl) or, for an optimizer trace, the rewritten class's semantics sem
\* (C05_Optimizer), run against the same memo machine: first failing clause, the
\* number of the failing call and that call's result
Chain(rec, upto, sem) ==
    LET idx == TopIdx(rec, upto)
        CallA(tb, q) ==
            IF IsOpt(rec) THEN OCall(sem, tb, Tree(rec, rec.evs[q].e), ArgT(rec, rec.evs[q].a))
            ELSE TopCall("pyeq", "store", tb, rec.mk, Tree(rec, rec.evs[q].e), ArgT(rec, rec.evs[q].a))
        RECURSIVE Go(_, _, _, _)
        Go(q, tb, ms, n) ==
            IF q > upto THEN [v |-> "OK", call |-> 0, r |-> NoneR]
            ELSE IF q \notin idx THEN Go(q + 1, tb, ms, n)
            ELSE LET c == CallA(tb, q)  rn == RunEvents(ms, c.evs) IN
                 IF rn.v # "OK" THEN [v |-> rn.v, call |-> n + 1, r |-> c.r]
                 ELSE Go(q + 1, c.tab, rn.ms, n + 1)
    IN Go(1, EmptyFn, MemoInit, 0)

Explains(rec, at, sem) ==
    LET upto == CallEnd(rec, at)
        p    == Chain(rec, upto, sem)
        top  == rec.evs[upto]
    IN /\ p.v = verdict
       /\ p.call = Cardinality(TopIdx(rec, upto))
       /\ (verdict = "computed-twice" \/ p.r = Res(rec, top.r))

\* For an optimizer trace two transcriptions are tried: the process state left by the
\* earlier optimisations is inherited (what optimize.py does today: in-place rewriting
\* of cached ASTs), or every optimisation starts from pristine sources (what it would
\* do once repaired).  A failure that the pristine transcription already predicts is
\* not blamed on the inherited state; the first that predicts the recorded failure names it.
SemStale(rec) == SemOf(rec.opt)
SemPristine(rec) == SemOf(<< rec.opt[Len(rec.opt)] >>)
Pred(rec, at) ==
    IF rec.mk.m \notin ModelledNames THEN "n/a"
    ELSE IF ~IsOpt(rec) THEN (IF Explains(rec, at, [x0 |-> 0]) THEN "match" ELSE "differ")
    ELSE IF Len(rec.opt) > 1 /\ Explains(rec, at, SemPristine(rec)) THEN "match-pristine"
    ELSE IF Explains(rec, at, SemStale(rec)) THEN "match"
    ELSE "differ"

Dev(rec, at) ==
    IF ~IsOpt(rec) THEN ""
    ELSE LET upto == CallEnd(rec, at)
             sem  == IF Pred(rec, at) = "match-pristine" THEN SemPristine(rec) ELSE SemStale(rec)
         IN OptDeviationFor(sem, verdict, ArgT(rec, rec.evs[upto].a),
                            ArgsUpTo(rec, upto), CollAt(rec, upto))

Finished == verdict # "" \/ l > Len(Traces[tid].evs)
Report ==
    Finished =>
      LET rec == Traces[tid] IN
      IF verdict = "" THEN PrintT(ToJson([id |-> rec.id, v |-> "OK", fd |-> fdrift]))
      ELSE IF verdict = "SKIP" THEN PrintT(ToJson([id |-> rec.id, v |-> "SKIP", fd |-> fdrift]))
      ELSE LET raw == rec.evs[l] IN
           PrintT(ToJson([id |-> rec.id, v |-> verdict, at |-> l, fd |-> fdrift,
                          call |-> Cardinality(TopIdx(rec, CallEnd(rec, l))),
                          root |-> Tree(rec, raw.e).t,
                          coll |-> CollAt(rec, CallEnd(rec, l)),
                          acoll |-> (\E a1, a2 \in ArgsUpTo(rec, CallEnd(rec, l)) : a1 # a2 /\ ArgsPyEq(a1, a2)),
                          list |-> HasList(Tree(rec, rec.evs[CallEnd(rec, l)].e)),
                          pred |-> Pred(rec, l),
                          dev |-> Dev(rec, l)]))
=============================================================================
