CONSTANT Bug = "lookup"
INIT Init
NEXT Next
INVARIANT NegRefines
CHECK_DEADLOCK FALSE
