----------------------------- MODULE C04_Trees -----------------------------
(***************************************************************************)
(* Expression trees for the traversal half of C04.  Same record shapes as  *)
(* Expr.tla (and harness/ser.py) plus the kinds the traversals know about  *)
(* that the evaluator does not:                                            *)
(*   Wild [t, cls, name]   FunctionSymbol [t]   NaN [t]                    *)
(*   Str [t, s]            a string where an expression should be          *)
(*   ULeaf [t]             user node class without stock handler           *)
(*   UVar [t, name]        user subclass of Variable (decorated)           *)
(*   USum [t, c]           user subclass of Sum (decorated)                *)
(*   Arr [t, c]            numpy object array     MV [t, c]  MultiVector   *)
(*   UNode [t, u, c]       instance of user node class number u of the     *)
(*                         table in C04_UCls (rooted at Expression /       *)
(*                         AlgebraicLeaf / Leaf), c = its expression fields *)
(* Every node that is an object of its own carries an occurrence number    *)
(* `id` (preorder, root = 1); omitted slice parts ([t |-> "None"]) do not. *)
(***************************************************************************)
EXTENDS Integers, Sequences, FiniteSets, TLC

LeafKinds == {"Var", "Const", "Wild", "FunctionSymbol", "NaN", "Str", "ULeaf", "UVar",
              "None", "Hole"}
NaryKinds == {"Sum", "Product", "BitOr", "BitXor", "BitAnd", "LogOr", "LogAnd", "Min", "Max",
              "Tup", "List", "Slice", "USum", "Arr", "MV", "UNode"}
BinKinds  == {"Quotient", "FloorDiv", "Remainder", "Power", "LShift", "RShift", "Sub", "Cmp"}
UnKinds   == {"BitNot", "LogNot", "Look", "CSE", "Deriv"}
\* containers that a rebuilding traversal has to copy even when nothing changed
MutableKinds == {"List", "Arr"}

\* constructors (id 0 = not yet numbered)
V(name)        == [t |-> "Var", id |-> 0, name |-> name]
VAuto          == V("")                       \* named v<id> when numbered
KV(k, n, d)    == [t |-> "Const", id |-> 0, v |-> [k |-> k, n |-> n, d |-> d]]
KI(n)          == KV("int", n, 1)
KAuto          == KV("auto", 0, 1)            \* becomes the int 10 + id when numbered
N(kind, c)     == [t |-> kind, id |-> 0, c |-> c]
B(kind, a, b)  == [t |-> kind, id |-> 0, a |-> a, b |-> b]
U(kind, a)     == [t |-> kind, id |-> 0, a |-> a]
Cmp(a, op, b)  == [t |-> "Cmp", id |-> 0, a |-> a, op |-> op, b |-> b]
IfE(i, th, el) == [t |-> "If", id |-> 0, i |-> i, th |-> th, el |-> el]
Call(f, c)     == [t |-> "Call", id |-> 0, f |-> f, c |-> c]
CallKw(f, c, kw) == [t |-> "CallKw", id |-> 0, f |-> f, c |-> c, kw |-> kw]
KwArg(name, e) == [name |-> name, e |-> e]
Look(a, name)  == [t |-> "Look", id |-> 0, a |-> a, name |-> name]
CSE(a)         == [t |-> "CSE", id |-> 0, a |-> a, prefix |-> "", scope |-> "pymbolic_eval"]
CSEp(a, prefix, scope) == [t |-> "CSE", id |-> 0, a |-> a, prefix |-> prefix, scope |-> scope]
Subst(a, names, c) == [t |-> "Subst", id |-> 0, a |-> a, names |-> names, c |-> c]
Deriv(a, names) == [t |-> "Deriv", id |-> 0, a |-> a, names |-> names]
Wild(cls, name) == [t |-> "Wild", id |-> 0, cls |-> cls, name |-> name]
FunSym         == [t |-> "FunctionSymbol", id |-> 0]
NaNE           == [t |-> "NaN", id |-> 0]
StrE(s)        == [t |-> "Str", id |-> 0, s |-> s]
ULeaf          == [t |-> "ULeaf", id |-> 0]
UVar(name)     == [t |-> "UVar", id |-> 0, name |-> name]
UN(u, c)       == [t |-> "UNode", id |-> 0, u |-> u, c |-> c]
NoneE          == [t |-> "None"]
Hole           == [t |-> "Hole"]

\* the positions of a node, in field order
SKids(e) ==
    CASE e.t \in LeafKinds -> << >>
      [] e.t \in NaryKinds -> e.c
      [] e.t \in BinKinds  -> << e.a, e.b >>
      [] e.t \in UnKinds   -> << e.a >>
      [] e.t = "If"        -> << e.i, e.th, e.el >>
      [] e.t = "Call"      -> << e.f >> \o e.c
      [] e.t = "CallKw"    -> << e.f >> \o e.c \o [i \in 1..Len(e.kw) |-> e.kw[i].e]
      [] e.t = "Subst"     -> << e.a >> \o e.c
SWithKids(e, ks) ==
    CASE e.t \in LeafKinds -> e
      [] e.t \in NaryKinds -> [e EXCEPT !.c = ks]
      [] e.t \in BinKinds  -> [e EXCEPT !.a = ks[1], !.b = ks[2]]
      [] e.t \in UnKinds   -> [e EXCEPT !.a = ks[1]]
      [] e.t = "If"        -> [e EXCEPT !.i = ks[1], !.th = ks[2], !.el = ks[3]]
      [] e.t = "Call"      -> [e EXCEPT !.f = ks[1], !.c = SubSeq(ks, 2, Len(ks))]
      [] e.t = "CallKw"    ->
            [e EXCEPT !.f = ks[1], !.c = SubSeq(ks, 2, 1 + Len(e.c)),
                      !.kw = [i \in 1..Len(e.kw) |-> [e.kw[i] EXCEPT !.e = ks[1 + Len(e.c) + i]]]]
      [] e.t = "Subst"     -> [e EXCEPT !.a = ks[1], !.c = SubSeq(ks, 2, Len(ks))]

\* M-layer: the children of a node occurrence = its expression-valued parts; an omitted
\* slice part is not a child; names, operators, prefixes are not children
IsNode(e) == e.t \notin {"None", "Hole"}
WKids(e) == SelectSeq(SKids(e), IsNode)

Concat(ss) == LET RECURSIVE Go(_) Go(i) == IF i > Len(ss) THEN << >> ELSE ss[i] \o Go(i + 1) IN Go(1)
SeqToSet(s) == { s[i] : i \in 1..Len(s) }
SeqSum(s) == LET RECURSIVE Go(_) Go(i) == IF i > Len(s) THEN 0 ELSE s[i] + Go(i + 1) IN Go(1)

RECURSIVE NHoles(_), FillFirst(_, _), Pre(_), Size(_)
\* an explicit tuple (TLC evaluates a function expression anew at every application)
MkSeq(n, F(_)) == LET RECURSIVE Go(_) Go(i) == IF i > n THEN << >> ELSE << F(i) >> \o Go(i + 1) IN Go(1)
NHoles(e) == IF e.t = "Hole" THEN 1
             ELSE SeqSum([i \in 1..Len(SKids(e)) |-> NHoles(SKids(e)[i])])
FillFirst(e, s) ==
    IF e.t = "Hole" THEN s
    ELSE LET ks == SKids(e)
             RECURSIVE Go(_, _)
             Go(i, done) == IF i > Len(ks) THEN << >>
                            ELSE IF ~done /\ NHoles(ks[i]) > 0
                                 THEN << FillFirst(ks[i], s) >> \o Go(i + 1, TRUE)
                                 ELSE << ks[i] >> \o Go(i + 1, done)
         IN SWithKids(e, Go(1, FALSE))
Size(e) == IF IsNode(e) THEN 1 + SeqSum([i \in 1..Len(SKids(e)) |-> Size(SKids(e)[i])]) ELSE 0
\* the node occurrences in preorder (the order in which the ids are handed out)
Pre(e) == IF IsNode(e) THEN << e >> \o Concat([i \in 1..Len(WKids(e)) |-> Pre(WKids(e)[i])])
          ELSE << >>
\* hand out the occurrence numbers (preorder); auto leaves get their name / value from it
RECURSIVE Number(_, _)
Number(e, next) ==    \* returns << numbered tree, next free id >>
    IF ~IsNode(e) THEN << e, next >>
    ELSE LET me == [e EXCEPT !.id = next]
             me2 == IF e.t \in {"Var", "UVar"} /\ e.name = ""
                    THEN [me EXCEPT !.name = "v" \o ToString(next)]
                    ELSE IF e.t = "Const" /\ e.v.k = "auto"
                    THEN [me EXCEPT !.v = [k |-> "int", n |-> 10 + next, d |-> 1]]
                    ELSE me
             ks == SKids(e)
             RECURSIVE Go(_, _)
             Go(i, nx) == IF i > Len(ks) THEN << << >>, nx >>
                          ELSE LET r == Number(ks[i], nx)
                                   rest == Go(i + 1, r[2])
                               IN << << r[1] >> \o rest[1], rest[2] >>
             res == Go(1, next + 1)
         IN << SWithKids(me2, res[1]), res[2] >>
Numbered(e) == Number(e, 1)[1]

RECURSIVE ZeroIds(_)
ZeroIds(e) == IF ~IsNode(e) THEN e
              ELSE [SWithKids(e, [i \in 1..Len(SKids(e)) |-> ZeroIds(SKids(e)[i])]) EXCEPT !.id = 0]

\* table of a numbered tree: Tab[i] = the ids of the children of node i, in order
Tab(tree) == LET p == Pre(tree) IN
             MkSeq(Len(p), LAMBDA i : LET ks == WKids(p[i]) IN MkSeq(Len(ks), LAMBDA j : ks[j].id))
KindTab(tree) == LET p == Pre(tree) IN MkSeq(Len(p), LAMBDA i : p[i].t)
\* UTab[i] = number of the user node class of node i (0: not an instance of one)
UTab(tree) == LET p == Pre(tree) IN MkSeq(Len(p), LAMBDA i : IF p[i].t = "UNode" THEN p[i].u ELSE 0)

\* ---- Python equality classes of subtrees (what a memoising mapper cannot tell apart):
\* constants compare by value (1 == 1.0 == True), occurrence numbers do not matter
NormNode(e) == IF e.t = "Const" /\ e.v.k \in {"int", "bool", "flt", "npint", "npflt"}
               THEN [t |-> "Const", id |-> 0, q |-> << e.v.n * 1, e.v.d >>]
               ELSE [e EXCEPT !.id = 0]
RECURSIVE Norm(_)
Norm(e) == IF ~IsNode(e) THEN e
           ELSE NormNode(SWithKids(e, [i \in 1..Len(SKids(e)) |-> Norm(SKids(e)[i])]))
\* ClsTab[i] = smallest id of a node whose subtree is Python-equal to that of node i
ClsTab(tree) == LET p == Pre(tree)
                    nm == MkSeq(Len(p), LAMBDA i : Norm(p[i]))
                IN MkSeq(Len(p), LAMBDA i : CHOOSE j \in 1..i : nm[j] = nm[i] /\ \A k \in 1..(j - 1) : nm[k] # nm[i])
HasTwins(tree) == LET c == ClsTab(tree) IN \E i \in 1..Len(c) : c[i] # i

\* ---- truthiness of a tree as Python sees it (bool(expr)); only used to name a failure
RECURSIVE Falsy(_)
Falsy(e) ==
    CASE e.t = "Const" -> (IF "q" \in DOMAIN e THEN e.q[1] = 0 ELSE e.v.n = 0)
      [] e.t \in {"Sum", "USum"} -> Len(e.c) = 1 /\ Falsy(e.c[1])
      [] e.t = "Product" -> \E i \in 1..Len(e.c) : Falsy(e.c[i])
      [] e.t \in {"Quotient", "FloorDiv", "Remainder"} -> Falsy(e.a)
      [] e.t \in {"Tup", "List"} -> Len(e.c) = 0
      [] OTHER -> FALSE

Contains(e, P(_)) == LET p == Pre(e) IN \E i \in 1..Len(p) : P(p[i])
\* an object no mapper may accept: not an expression, number, array, list or tuple
IsInvalidForeign(e) == e.t = "Str" \/ (e.t = "Const" /\ e.v.k = "frac")
IsMutable(e) == e.t \in MutableKinds
=============================================================================
