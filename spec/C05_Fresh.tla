------------------------------ MODULE C05_Fresh ------------------------------
(***************************************************************************)
(* M-layer for C05: what the NON-memoizing mappers compute, written as     *)
(* structural recursion "result of a node = Combine(node, arguments,       *)
(* results of the children the handler recurses into)".  Fresh(mk, e, a)   *)
(* is the result of applying a freshly made, cache-free mapper of kind mk  *)
(* to e with the extra arguments a.                                        *)
(*                                                                         *)
(* A mapper kind mk is a record [m |-> name, ...configuration...]:         *)
(*   ident  identity mapper whose variable handler renames x to x_r<suffix   *)
(*          of the extra arguments> (so that results depend on the extra   *)
(*          arguments and on the exact constants below a node)             *)
(*   coll   collector of the renamed variables (set valued)                *)
(*   count  combine mapper adding 1 per constant and 1 + #arguments per    *)
(*          variable occurrence (integer valued)                           *)
(*   dep    dependency mapper with its four flags                          *)
(*   walk   walk mapper: returns nothing, the observation is the set of    *)
(*          (node, arguments) pairs visited                                *)
(*   subst  substitution of variables by the trees in mk.map               *)
(*   probe  combine mapper whose results are FOREIGN OBJECTS with their    *)
(*          own equality protocol mk.eq (round 2): the object wraps the    *)
(*          flat tuple of the (renamed) leaves in traversal order          *)
(* Results are records [rk |-> "tree", e] / [rk |-> "set", s] /            *)
(* [rk |-> "none"] / [rk |-> "obj", eq, e]; a number is the tree           *)
(* Const(number).                                                          *)
(*                                                                         *)
(* Round 2: a mapper class may OVERRIDE handlers (mk.ov, a sequence of     *)
(* method names).  Python's attribute lookup decides which body serves a   *)
(* node: the node's class names ONE method (MethodOf), the instance's      *)
(* class is searched first, then its bases.  An alias made in a base class *)
(* (map_product = map_sum) is an attribute of the BASE and keeps pointing  *)
(* at the base's function when a subclass overrides map_sum.  So an        *)
(* override serves exactly the node kinds whose own method name it         *)
(* carries.  An overriding handler here "marks": it returns its method     *)
(* name applied to the mapped children (OwnBody), so that which body ran   *)
(* is visible in the result.                                               *)
(*                                                                         *)
(* Round 5: "pident" is the STOCK identity mapper (IdentityMapper /        *)
(* CachedIdentityMapper, no renaming): every leaf is itself, so the result *)
(* of a node is the node - with EVERY FIELD it has (WithKids keeps prefix  *)
(* and scope of a wrapper, the name of a lookup, the operator of a         *)
(* comparison, the keyword names of a call).  Whether a handler hands back *)
(* the node object itself or builds a new one is not part of the meaning;  *)
(* it is part of the algorithm (C05_Rebuild).                              *)
(*                                                                         *)
(* Round 7: the RESULT VALUES of the handlers are an input dimension of    *)
(* memoisation.  "nil" is a combine mapper every handler of which returns  *)
(* the same value that LOOKS LIKE NOTHING in Python (mk.val: None, 0,      *)
(* False, the empty tuple); LooksNothing(r) is that notion for any result  *)
(* (None / a falsy number / an empty set / an empty tuple).  A memoizing   *)
(* mapper must keep such a result like any other: the only observation     *)
(* that tells is the WORK DONE (handler runs per key).                     *)
(***************************************************************************)
EXTENDS C05_Keys

\* ---- dispatch: the handler name a node kind asks for (Expression.mapper_method,
\* "map_" + the snake-cased class name; numbers / tuples / lists go through
\* rec_fallback to map_constant / map_tuple / map_list)
MethodOf(t) ==
    CASE t = "Var" -> "map_variable"          [] t = "Const" -> "map_constant"
      [] t = "Sum" -> "map_sum"               [] t = "Product" -> "map_product"
      [] t = "BitOr" -> "map_bitwise_or"      [] t = "BitXor" -> "map_bitwise_xor"
      [] t = "BitAnd" -> "map_bitwise_and"    [] t = "LogOr" -> "map_logical_or"
      [] t = "LogAnd" -> "map_logical_and"    [] t = "Min" -> "map_min"
      [] t = "Max" -> "map_max"               [] t = "Tup" -> "map_tuple"
      [] t = "List" -> "map_list"             [] t = "Slice" -> "map_slice"
      [] t = "Quotient" -> "map_quotient"     [] t = "FloorDiv" -> "map_floor_div"
      [] t = "Remainder" -> "map_remainder"   [] t = "Power" -> "map_power"
      [] t = "LShift" -> "map_left_shift"     [] t = "RShift" -> "map_right_shift"
      [] t = "Sub" -> "map_subscript"         [] t = "BitNot" -> "map_bitwise_not"
      [] t = "LogNot" -> "map_logical_not"    [] t = "Cmp" -> "map_comparison"
      [] t = "If" -> "map_if"                 [] t = "Call" -> "map_call"
      [] t = "CallKw" -> "map_call_with_kwargs" [] t = "Look" -> "map_lookup"
      [] t = "CSE" -> "map_common_subexpression"
      [] t = "Subst" -> "map_substitution"    [] t = "Deriv" -> "map_derivative"
      [] OTHER -> "map_foreign"
\* the handlers a mapper class overrides with a marking body
Ov(mk) == IF "ov" \in DOMAIN mk THEN { mk.ov[i] : i \in 1..Len(mk.ov) } ELSE {}
\* Python attribute lookup: "" = the base class's function serves the node, otherwise
\* the name of the class's own (marking) function that does
OwnBody(mk, e) == IF MethodOf(e.t) \in Ov(mk) THEN MethodOf(e.t) ELSE ""

\* ---- round 4: the dispatch PATH of a node ------------------------------------
\* Mapper.__call__ asks the node for ITS OWN mapper_method first ("direct").  When the
\* mapper has no such method, the class-hierarchy fallback takes over: the node's MRO
\* is searched for a base class whose mapper_method the mapper does have ("mro": a user
\* subclass of a stock node, geometric_algebra.MultiVectorVariable -> map_variable);
\* numbers, tuples and lists are not expressions and reach map_constant / map_tuple /
\* map_list through map_foreign ("foreign").  The memoizing mappers have their own copy
\* of this logic (CachedMapper.__call__ + rec_fallback, and the optimizer's inlined
\* dispatch), so "the handler receives exactly the caller's extra arguments" must be
\* established per path.  A leaf of a class the stock mappers know only through its
\* base is the record [t |-> "Var", name, cls]: cls \in {"sub", "mv"} (user subclass
\* with a mapper_method of its own that no mapper defines / MultiVectorVariable).  It
\* is a different node from the plain Variable of the same name (Python: dataclass
\* equality compares the classes).
NodeCls(e) == IF "cls" \in DOMAIN e THEN e.cls ELSE ""
DispatchPath(e) == IF NodeCls(e) # "" THEN "mro"
                   ELSE IF e.t \in {"Const", "Tup", "List"} THEN "foreign" ELSE "direct"

\* ---- suffix a renaming handler derives from the extra arguments ----------
KindLetter(k) == CASE k = "int" -> "i" [] k = "bool" -> "b" [] k = "flt" -> "f"
                   [] k = "frac" -> "F" [] OTHER -> "?"
ValSfx(v) == "_" \o KindLetter(v.k) \o ToString(v.n)
             \o (IF v.d # 1 THEN "d" \o ToString(v.d) ELSE "")
Sfx(a) ==
    LET RECURSIVE P(_), Q(_)
        P(i) == IF i > Len(a.pos) THEN "" ELSE ValSfx(a.pos[i]) \o P(i + 1)
        Q(i) == IF i > Len(a.kw) THEN ""
                ELSE "_" \o a.kw[i].name \o ValSfx(a.kw[i].v) \o Q(i + 1)
    IN P(1) \o Q(1)

TreeR(e) == [rk |-> "tree", e |-> e]
SetR(s)  == [rk |-> "set", s |-> s]
IntR(n)  == [rk |-> "tree", e |-> KI(n)]      \* a number is the tree Const
NoneR    == [rk |-> "none"]
ObjR(eq, e) == [rk |-> "obj", eq |-> eq, e |-> e]   \* a foreign object wrapping the tuple e
ErrR(name) == [rk |-> "err", v |-> [k |-> "err", e |-> name, a |-> ""]]
\* round 7: the value every handler of a "nil" mapper returns
NilR(val) == CASE val = "none"  -> NoneR
               [] val = "zero"  -> IntR(0)
               [] val = "false" -> TreeR(K(BoolV(FALSE)))
               [] val = "empty" -> TreeR(N("Tup", << >>))
NilVals == << "none", "zero", "false", "empty" >>

\* Python truthiness of a (mapped) expression, as primitives.py defines __bool__:
\* a number is false iff it is zero; a one-child sum is its child, a product is false
\* iff some factor is, a quotient / floor division / remainder is its numerator;
\* an empty tuple / list is false; every other node is true.
RECURSIVE Falsy(_)
Falsy(e) ==
    CASE e.t = "Const" -> IsNum(e.v) /\ e.v.n = 0
      [] e.t = "Sum" -> Len(e.c) = 1 /\ Falsy(e.c[1])
      [] e.t = "Product" -> \E i \in 1..Len(e.c) : Falsy(e.c[i])
      [] e.t \in {"Quotient", "FloorDiv", "Remainder"} -> Falsy(e.a)
      [] e.t \in {"Tup", "List"} -> Len(e.c) = 0
      [] OTHER -> FALSE

\* round 7: a RESULT that looks like nothing in Python (None, or false in a truth test)
LooksNone(r) == r.rk = "none"
LooksNothing(r) ==
    CASE r.rk = "none" -> TRUE
      [] r.rk = "tree" -> Falsy(r.e)
      [] r.rk = "set"  -> r.s = {}
      [] OTHER -> FALSE

\* ---- which children a handler recurses into, in order ---------------------
RecKids(mk, e) ==
    IF mk.m = "dep" THEN
        CASE e.t = "Call"   -> IF mk.calls = "descend" THEN e.c
                               ELSE IF mk.calls = "yes" THEN << >> ELSE Kids(e)
          [] e.t = "CallKw" -> IF mk.calls = "descend"
                               THEN e.c \o [i \in 1..Len(e.kw) |-> e.kw[i].e]
                               ELSE IF mk.calls = "yes" THEN << >> ELSE Kids(e)
          [] e.t = "Look"   -> IF mk.look THEN << >> ELSE Kids(e)
          [] e.t = "Sub"    -> IF mk.sub THEN << >> ELSE Kids(e)
          [] e.t = "CSE"    -> IF mk.cse THEN << >> ELSE Kids(e)
          [] OTHER          -> Kids(e)
    ELSE Kids(e)

SeqUnion(rs) == UNION { rs[i].s : i \in 1..Len(rs) }
\* what a renaming leaf handler returns: type(expr)(expr.name + "_r" + suffix) - a leaf of
\* the SAME class, named after the extra arguments the handler received
RenamedLeaf(e, a) == [e EXCEPT !.name = @ \o "_r" \o Sfx(a)]

\* ---- the handler's own work, given the children's results ------------------
\* the leaves of a probe result
Leaves(rs) == LET RECURSIVE Go(_) Go(i) == IF i > Len(rs) THEN << >> ELSE rs[i].e.c \o Go(i + 1)
              IN Go(1)
\* the base class's handler for the node
BaseCombine(mk, e, a, rs) ==
    CASE mk.m \in {"ident", "subst", "pident"} ->
            IF e.t = "Var" THEN
                (IF mk.m = "ident" THEN TreeR(RenamedLeaf(e, a))
                 ELSE IF mk.m = "pident" THEN TreeR(e)     \* the stock IdentityMapper: a leaf is itself
                 ELSE IF e.name \in DOMAIN mk.map THEN TreeR(mk.map[e.name]) ELSE TreeR(e))
            ELSE IF e.t = "Const" THEN TreeR(e)
            \* a wrapper whose mapped child is false in Python collapses to the number 0
            \* (IdentityMapper.map_common_subexpression: "if is_zero(result): return 0")
            ELSE IF e.t = "CSE" /\ Falsy(rs[1].e) THEN TreeR(KI(0))
            ELSE TreeR(WithKids(e, [i \in 1..Len(rs) |-> rs[i].e]))
      [] mk.m = "coll" ->
            IF e.t = "Var" THEN SetR({ RenamedLeaf(e, a) })
            ELSE IF e.t = "Const" THEN SetR({})
            ELSE SetR(SeqUnion(rs))
      \* the stock Collector: "by default, nothing is collected, all leaves return empty sets"
      [] mk.m = "bcoll" ->
            IF e.t \in {"Var", "Const"} THEN SetR({}) ELSE SetR(SeqUnion(rs))
      [] mk.m = "count" ->
            IF e.t = "Var" THEN IntR(1 + Len(a.pos) + Len(a.kw))
            ELSE IF e.t = "Const" THEN IntR(1)
            ELSE IntR(SeqSum([i \in 1..Len(rs) |-> rs[i].e.v.n]))
      [] mk.m = "dep" ->
            IF e.t = "Var" THEN SetR({ e })
            ELSE IF e.t = "Const" THEN SetR({})
            ELSE IF \/ e.t \in {"Call", "CallKw"} /\ mk.calls = "yes"
                    \/ e.t = "Look" /\ mk.look
                    \/ e.t = "Sub" /\ mk.sub
                    \/ e.t = "CSE" /\ mk.cse
                 THEN SetR({ e })
            ELSE SetR(SeqUnion(rs))
      [] mk.m = "walk" -> NoneR
      [] mk.m = "nil" -> NilR(mk.val)
      [] mk.m = "probe" ->
            IF e.t = "Var" THEN ObjR(mk.eq, N("Tup", << RenamedLeaf(e, a) >>))
            ELSE IF e.t = "Const" THEN ObjR(mk.eq, N("Tup", << e >>))
            ELSE ObjR(mk.eq, N("Tup", Leaves(rs)))

\* a marking override named body (a method name), whichever node it is applied to
MarkCombine(mk, body, rs) ==
    LET mark == V("ov_" \o body) IN
    CASE mk.m \in {"ident", "subst"} -> TreeR(Call(mark, [i \in 1..Len(rs) |-> rs[i].e]))
      [] mk.m \in {"coll", "bcoll"} -> SetR(SeqUnion(rs) \cup { mark })
      [] mk.m = "count" -> IntR(100 + SeqSum([i \in 1..Len(rs) |-> rs[i].e.v.n]))
      [] OTHER -> NoneR

\* body = "" (the base's function) or the name of the own function that serves the node
CombineBody(mk, e, a, rs, body) ==
    IF body = "" THEN BaseCombine(mk, e, a, rs) ELSE MarkCombine(mk, body, rs)
Combine(mk, e, a, rs) == CombineBody(mk, e, a, rs, OwnBody(mk, e))

RECURSIVE Fresh(_, _, _)
Fresh(mk, e, a) ==
    LET ks == RecKids(mk, e) IN
    Combine(mk, e, a, [i \in 1..Len(ks) |-> Fresh(mk, ks[i], a)])

\* every (node, arguments) pair a cache-free traversal of kind mk touches
RECURSIVE Touched(_, _)
Touched(mk, e) ==
    LET ks == RecKids(mk, e) IN {e} \cup UNION { Touched(mk, ks[i]) : i \in 1..Len(ks) }

\* results compared the way the statement compares them
ResCanon(r) ==
    CASE r.rk = "tree" -> [rk |-> "tree", e |-> Canon(r.e)]
      [] r.rk = "set"  -> [rk |-> "set", s |-> { Canon(x) : x \in r.s }]
      [] r.rk = "val"  -> [rk |-> "val", v |-> CanonVal(r.v)]
      [] r.rk = "obj"  -> [rk |-> "obj", eq |-> r.eq, e |-> Canon(r.e)]
      \* a numpy array up to the type of its items (int64 [5 6 7] vs float64 [5. 6. 7.])
      [] r.rk = "arr"  -> [rk |-> "arr", shape |-> r.shape,
                           items |-> [i \in 1..Len(r.items) |-> CanonVal(r.items[i])]]
      [] OTHER -> r
=============================================================================
