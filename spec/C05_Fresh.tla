------------------------------ MODULE C05_Fresh ------------------------------
(***************************************************************************)
(* M-layer for C05: what the NON-memoizing mappers compute, written as     *)
(* structural recursion "result of a node = Combine(node, arguments,       *)
(* results of the children the handler recurses into)".  Fresh(mk, e, a)   *)
(* is the result of applying a freshly made, cache-free mapper of kind mk  *)
(* to e with the extra arguments a.                                        *)
(*                                                                         *)
(* A mapper kind mk is a record [m |-> name, ...configuration...]:         *)
(*   ident  identity mapper whose variable handler renames x to x_r<suffix   *)
(*          of the extra arguments> (so that results depend on the extra   *)
(*          arguments and on the exact constants below a node)             *)
(*   coll   collector of the renamed variables (set valued)                *)
(*   count  combine mapper adding 1 per constant and 1 + #arguments per    *)
(*          variable occurrence (integer valued)                           *)
(*   dep    dependency mapper with its four flags                          *)
(*   walk   walk mapper: returns nothing, the observation is the set of    *)
(*          (node, arguments) pairs visited                                *)
(*   subst  substitution of variables by the trees in mk.map               *)
(* Results are records [rk |-> "tree", e] / [rk |-> "set", s] /            *)
(* [rk |-> "none"]; a number is the tree Const(number).                    *)
(***************************************************************************)
EXTENDS C05_Keys

\* ---- suffix a renaming handler derives from the extra arguments ----------
KindLetter(k) == CASE k = "int" -> "i" [] k = "bool" -> "b" [] k = "flt" -> "f"
                   [] k = "frac" -> "F" [] OTHER -> "?"
ValSfx(v) == "_" \o KindLetter(v.k) \o ToString(v.n)
             \o (IF v.d # 1 THEN "d" \o ToString(v.d) ELSE "")
Sfx(a) ==
    LET RECURSIVE P(_), Q(_)
        P(i) == IF i > Len(a.pos) THEN "" ELSE ValSfx(a.pos[i]) \o P(i + 1)
        Q(i) == IF i > Len(a.kw) THEN ""
                ELSE "_" \o a.kw[i].name \o ValSfx(a.kw[i].v) \o Q(i + 1)
    IN P(1) \o Q(1)

TreeR(e) == [rk |-> "tree", e |-> e]
SetR(s)  == [rk |-> "set", s |-> s]
IntR(n)  == [rk |-> "tree", e |-> KI(n)]      \* a number is the tree Const
NoneR    == [rk |-> "none"]

\* Python truthiness of a (mapped) expression, as primitives.py defines __bool__:
\* a number is false iff it is zero; a one-child sum is its child, a product is false
\* iff some factor is, a quotient / floor division / remainder is its numerator;
\* an empty tuple / list is false; every other node is true.
RECURSIVE Falsy(_)
Falsy(e) ==
    CASE e.t = "Const" -> IsNum(e.v) /\ e.v.n = 0
      [] e.t = "Sum" -> Len(e.c) = 1 /\ Falsy(e.c[1])
      [] e.t = "Product" -> \E i \in 1..Len(e.c) : Falsy(e.c[i])
      [] e.t \in {"Quotient", "FloorDiv", "Remainder"} -> Falsy(e.a)
      [] e.t \in {"Tup", "List"} -> Len(e.c) = 0
      [] OTHER -> FALSE

\* ---- which children a handler recurses into, in order ---------------------
RecKids(mk, e) ==
    IF mk.m = "dep" THEN
        CASE e.t = "Call"   -> IF mk.calls = "descend" THEN e.c
                               ELSE IF mk.calls = "yes" THEN << >> ELSE Kids(e)
          [] e.t = "CallKw" -> IF mk.calls = "descend"
                               THEN e.c \o [i \in 1..Len(e.kw) |-> e.kw[i].e]
                               ELSE IF mk.calls = "yes" THEN << >> ELSE Kids(e)
          [] e.t = "Look"   -> IF mk.look THEN << >> ELSE Kids(e)
          [] e.t = "Sub"    -> IF mk.sub THEN << >> ELSE Kids(e)
          [] e.t = "CSE"    -> IF mk.cse THEN << >> ELSE Kids(e)
          [] OTHER          -> Kids(e)
    ELSE Kids(e)

SeqUnion(rs) == UNION { rs[i].s : i \in 1..Len(rs) }

\* ---- the handler's own work, given the children's results ------------------
Combine(mk, e, a, rs) ==
    CASE mk.m \in {"ident", "subst"} ->
            IF e.t = "Var" THEN
                (IF mk.m = "ident" THEN TreeR(V(e.name \o "_r" \o Sfx(a)))
                 ELSE IF e.name \in DOMAIN mk.map THEN TreeR(mk.map[e.name]) ELSE TreeR(e))
            ELSE IF e.t = "Const" THEN TreeR(e)
            \* a wrapper whose mapped child is false in Python collapses to the number 0
            \* (IdentityMapper.map_common_subexpression: "if is_zero(result): return 0")
            ELSE IF e.t = "CSE" /\ Falsy(rs[1].e) THEN TreeR(KI(0))
            ELSE TreeR(WithKids(e, [i \in 1..Len(rs) |-> rs[i].e]))
      [] mk.m = "coll" ->
            IF e.t = "Var" THEN SetR({ V(e.name \o "_r" \o Sfx(a)) })
            ELSE IF e.t = "Const" THEN SetR({})
            ELSE SetR(SeqUnion(rs))
      [] mk.m = "count" ->
            IF e.t = "Var" THEN IntR(1 + Len(a.pos) + Len(a.kw))
            ELSE IF e.t = "Const" THEN IntR(1)
            ELSE IntR(SeqSum([i \in 1..Len(rs) |-> rs[i].e.v.n]))
      [] mk.m = "dep" ->
            IF e.t = "Var" THEN SetR({ e })
            ELSE IF e.t = "Const" THEN SetR({})
            ELSE IF \/ e.t \in {"Call", "CallKw"} /\ mk.calls = "yes"
                    \/ e.t = "Look" /\ mk.look
                    \/ e.t = "Sub" /\ mk.sub
                    \/ e.t = "CSE" /\ mk.cse
                 THEN SetR({ e })
            ELSE SetR(SeqUnion(rs))
      [] mk.m = "walk" -> NoneR

RECURSIVE Fresh(_, _, _)
Fresh(mk, e, a) ==
    LET ks == RecKids(mk, e) IN
    Combine(mk, e, a, [i \in 1..Len(ks) |-> Fresh(mk, ks[i], a)])

\* every (node, arguments) pair a cache-free traversal of kind mk touches
RECURSIVE Touched(_, _)
Touched(mk, e) ==
    LET ks == RecKids(mk, e) IN {e} \cup UNION { Touched(mk, ks[i]) : i \in 1..Len(ks) }

\* results compared the way the statement compares them
ResCanon(r) ==
    CASE r.rk = "tree" -> [rk |-> "tree", e |-> Canon(r.e)]
      [] r.rk = "set"  -> [rk |-> "set", s |-> { Canon(x) : x \in r.s }]
      [] r.rk = "val"  -> [rk |-> "val", v |-> CanonVal(r.v)]
      [] OTHER -> r
=============================================================================
